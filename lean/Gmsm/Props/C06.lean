/-
C06 — GMSSL/TLS handshakes agree on parameters (and then carry data intact).
Theorems about `Model.Negotiate` (mode dispatch, version, suite choice, client-certificate policy) over the
suite tables regenerated from gmtls (`Gen.TLS`).  The key schedule and record layer used for decoding real
connections are in `Spec.TLSPRF` / `Model.Record` (see Props.C07 for the record theorems).
-/
import Gmsm.Model.Negotiate
namespace Props.C06
open Model.Negotiate Model.Suites

/-- the regenerated tables are the ones the model was written against (a changed table breaks this
    obligation and must be looked at) -/
theorem tables_ok :
    Gen.TLS.gmCipherSuites.map (·.1) = [0xe013, 0xe053, 0xe011, 0xe051] ∧
    Gen.TLS.gmDefaultSuites = [0xe013, 0xe053, 0xe011, 0xe051] ∧
    (Gen.TLS.gmCipherSuites.filter (fun r => !r.2.1)).map (·.1) = [0xe013, 0xe053] ∧
    Gen.TLS.versionGMSSL = 0x0101 ∧ Gen.TLS.minVersion = 0x0101 ∧ Gen.TLS.maxVersion = 0x0303 ∧
    Gen.TLS.versionSSL30 = 0x0300 ∧ Gen.TLS.versionTLS12 = 0x0303 ∧
    tlsDefaultList.take 6 = [0xcca8, 0xcca9, 0xc02f, 0xc030, 0xc02b, 0xc02c] ∧
    (∀ s ∈ gmDefaultList, isTLS s = false) ∧ (∀ s ∈ tlsDefaultList, isGM s = false) := by decide

/-- the cipher-suite ids gmtls exports under "implemented by this package" (cipher_suites.go, the const block of
    TLS_… names; TLS_FALLBACK_SCSV is a signalling value, not a suite) -/
def exportedTLSSuites : List Suite :=
  [0x0005, 0x000a, 0x002f, 0x0035, 0x003c, 0x009c, 0x009d, 0xc007, 0xc009, 0xc00a, 0xc011, 0xc012, 0xc013, 0xc014,
   0xc023, 0xc027, 0xc02f, 0xc02b, 0xc030, 0xc02c, 0xcca8, 0xcca9]

/-- T1 `exported_suites_negotiable` (repaired: rows 0xc013 TLS_ECDHE_RSA_WITH_AES_128_CBC_SHA and 0xc027
    TLS_ECDHE_RSA_WITH_AES_128_CBC_SHA256 were missing from `cipherSuites`, so a client configured with one of them
    sent an empty list and a server never selected them).  Every exported TLS suite has a row in the regenerated table,
    and a TLS 1.2 client and a TLS-capable server that are both configured with exactly that suite, the server
    holding a certificate of the kind the suite signs with, agree on it. -/
theorem exported_suites_negotiable :
    ∀ s ∈ exportedTLSSuites, isTLS s = true ∧
      ∀ m ∈ [SMode.tls, SMode.auto], ∃ k ∈ [CertKind.rsa, CertKind.ec], negotiate ⟨m, .tls 0x0303, some [s], some [s], false, 0, 0, k⟩ = .ok 0x0303 s 0 := by
  decide

/-- the two repaired rows in the versions they belong to: the SHA-1 suite from TLS 1.0 on, the SHA-256 suite in
    TLS 1.2 only; both off/on by default as in crypto/tls (0xc013 is in the default list, 0xc027 is not) -/
theorem ecdhe_rsa_aes128_cbc_rows :
    negotiate ⟨.tls, .tls 0x0301, some [0xc013], some [0xc013], false, 0, 0, .rsa⟩ = .ok 0x0301 0xc013 0 ∧
    negotiate ⟨.auto, .tls 0x0302, some [0xc013], none, true, 4, 1, .rsa⟩ = .ok 0x0302 0xc013 1 ∧
    negotiate ⟨.tls, .tls 0x0303, some [0xc027], some [0xc027], false, 0, 0, .rsa⟩ = .ok 0x0303 0xc027 0 ∧
    negotiate ⟨.tls, .tls 0x0302, some [0xc027], some [0xc027], false, 0, 0, .rsa⟩ = .fail ∧
    negotiate ⟨.tls, .tls 0x0303, some [0xc027], some [0xc027], false, 0, 0, .ec⟩ = .fail ∧
    0xc013 ∈ tlsDefaultList ∧ 0xc027 ∉ tlsDefaultList := by decide

theorem pick_sound (pref other : List Suite) (ok : Suite → Bool) (s : Suite) (h : pick pref other ok = some s) :
    s ∈ pref ∧ s ∈ other ∧ ok s = true := by
  unfold pick at h
  have hm := List.mem_of_find?_eq_some h
  have hp := List.find?_some h
  simp only [Bool.and_eq_true, List.contains_eq_mem, decide_eq_true_eq] at hp
  exact ⟨hm, hp.1, hp.2⟩

theorem pick_complete (pref other : List Suite) (ok : Suite → Bool) (s : Suite)
    (h1 : s ∈ pref) (h2 : s ∈ other) (h3 : ok s = true) : ∃ t, pick pref other ok = some t := by
  unfold pick
  cases hf : pref.find? (fun s => other.contains s && ok s) with
  | some t => exact ⟨t, rfl⟩
  | none =>
    have := List.find?_eq_none.mp hf s h1
    simp [h2, h3] at this

/-- T1 `policy_table`: the client-certificate exchange, stated outright for every policy and every kind of
    client certificate: it fails exactly when a certificate is required and none is sent, or one is sent that
    does not chain to the client CAs under a verifying policy; otherwise the server ends up with one client
    certificate exactly when it asked and the client sent one. -/
theorem policy_table (auth ccert : Nat) :
    (clientAuth auth ccert = none ↔ ((auth = 2 ∨ auth = 4) ∧ (auth < 1 ∨ ccert = 0)) ∨ (auth ≥ 3 ∧ ccert ≠ 0 ∧ ccert ≠ 1)) ∧
    (∀ n, clientAuth auth ccert = some n → n = if auth ≥ 1 ∧ ccert ≠ 0 then 1 else 0) := by
  unfold clientAuth
  by_cases ha : auth ≥ 1 <;> by_cases hc : ccert = 0 <;> by_cases h2 : auth = 2 <;> by_cases h4 : auth = 4 <;>
    by_cases h3 : auth ≥ 3 <;> by_cases h1 : ccert = 1 <;> simp_all <;> omega

/-- T1 `agreed_is_mutual`: whenever the model (and, by the correspondence run, the code) completes a
    handshake, the suite is one the client offered and the server's list contains and can serve with its
    certificate; the version is GMSSL 1.1 exactly for a GMSSL client on a GMSSL-capable server and the client's
    version for a TLS client on a TLS-capable server; the client-certificate count follows the policy table. -/
theorem agreed_is_mutual (p : Params) (v s n : Nat) (h : negotiate p = .ok v s n) :
    s ∈ (hello p).2 ∧
    ((p.client = .gm ∧ p.mode ≠ .tls ∧ v = Gen.TLS.versionGMSSL ∧ s ∈ p.ssuites.getD gmDefaultList ∧ gmServable s = true) ∨
     (p.client ≠ .gm ∧ p.mode ≠ .gm ∧ s ∈ p.ssuites.getD tlsDefaultList ∧ tlsServable p.scert v s = true ∧
        mutualVersion (hello p).1 = some v)) ∧
    clientAuth p.auth p.ccert = some n := by
  unfold negotiate at h
  generalize hh : hello p = hp at h
  obtain ⟨cv, cs⟩ := hp
  simp only at h
  cases hd : dispatch p.mode cv <;> cases hm : mutualVersion cv <;> simp only [hd, hm] at h <;> try (cases h; done)
  · -- GM path
    rename_i v0
    split at h
    · cases h
    · rename_i su hpick
      split at h
      · cases h
      · rename_i hcond
        cases hca : clientAuth p.auth p.ccert with
        | none => simp [hca] at h
        | some n0 =>
          simp only [hca, Outcome.ok.injEq] at h
          obtain ⟨rfl, rfl, rfl⟩ := h
          have hcl : p.client = .gm := by
            cases hc : p.client with
            | gm => rfl
            | tls mv => exfalso; apply hcond; right; simp [hc]
          have hv : v0 = Gen.TLS.versionGMSSL := by
            cases Nat.decEq v0 Gen.TLS.versionGMSSL with
            | isTrue e => exact e
            | isFalse e => exfalso; apply hcond; left; exact e
          have hmode : p.mode ≠ .tls := by
            intro hmm; rw [hmm] at hd; simp [dispatch] at hd
          have hps : su ∈ cs ∧ su ∈ p.ssuites.getD gmDefaultList ∧ gmServable su = true := by
            by_cases hpr : p.prefer = true
            · simp only [hpr, if_true] at hpick
              have := pick_sound _ _ _ _ hpick
              exact ⟨this.2.1, this.1, this.2.2⟩
            · simp only [hpr] at hpick
              have := pick_sound _ _ _ _ hpick
              exact ⟨this.1, this.2.1, this.2.2⟩
          exact ⟨hps.1, Or.inl ⟨hcl, hmode, hv, hps.2.1, hps.2.2⟩, rfl⟩
  · -- TLS path
    rename_i v0
    split at h
    · cases h
    · rename_i su hpick
      split at h
      · cases h
      · rename_i hcl
        cases hca : clientAuth p.auth p.ccert with
        | none => simp [hca] at h
        | some n0 =>
          simp only [hca, Outcome.ok.injEq] at h
          obtain ⟨rfl, rfl, rfl⟩ := h
          have hmode : p.mode ≠ .gm := by
            intro hmm; rw [hmm] at hd; simp only [dispatch] at hd; split at hd <;> cases hd
          have hps : su ∈ cs ∧ su ∈ p.ssuites.getD tlsDefaultList ∧ tlsServable p.scert v0 su = true := by
            by_cases hpr : p.prefer = true
            · simp only [hpr, if_true] at hpick
              have := pick_sound _ _ _ _ hpick
              exact ⟨this.2.1, this.1, this.2.2⟩
            · simp only [hpr] at hpick
              have := pick_sound _ _ _ _ hpick
              exact ⟨this.1, this.2.1, this.2.2⟩
          exact ⟨hps.1, Or.inr ⟨hcl, hmode, hps.2.1, hps.2.2, by rw [← hm]⟩, rfl⟩

/-- T1 `gm_completes`: a GMSSL client and a GMSSL-only or auto-switch server that share a servable suite, with a
    client-certificate situation the policy permits, complete (completeness direction of the property). -/
theorem gm_completes (p : Params) (hc : p.client = .gm) (hm : p.mode ≠ .tls) (s : Suite)
    (h1 : s ∈ (hello p).2) (h2 : s ∈ p.ssuites.getD gmDefaultList) (h3 : gmServable s = true)
    (n : Nat) (hp : clientAuth p.auth p.ccert = some n) : ∃ t, negotiate p = .ok Gen.TLS.versionGMSSL t n := by
  unfold negotiate
  have hv : (hello p).1 = Gen.TLS.versionGMSSL := by simp [hello, hc]
  generalize hh : hello p = hpq at h1 hv
  obtain ⟨cv, cs⟩ := hpq
  simp only at h1 hv ⊢
  subst hv
  have hd : dispatch p.mode Gen.TLS.versionGMSSL = .gm := by
    cases hmm : p.mode with
    | gm => rfl
    | auto => simp [dispatch]
    | tls => exact absurd hmm hm
  have hmv : mutualVersion Gen.TLS.versionGMSSL = some Gen.TLS.versionGMSSL := by decide
  simp only [hd, hmv]
  have hpk : ∃ t, (if p.prefer = true then pick (p.ssuites.getD gmDefaultList) cs gmServable
      else pick cs (p.ssuites.getD gmDefaultList) gmServable) = some t := by
    by_cases hpr : p.prefer = true
    · simp only [hpr, if_true]; exact pick_complete _ _ _ s h2 h1 h3
    · simp only [hpr]; exact pick_complete _ _ _ s h1 h2 h3
  obtain ⟨t, ht⟩ := hpk
  refine ⟨t, ?_⟩
  simp only [ht]
  have : ¬ (Gen.TLS.versionGMSSL ≠ Gen.TLS.versionGMSSL ∨ p.client ≠ CKind.gm) := by simp [hc]
  simp only [this, if_false, hp]

/-- T1 `forbidden_fails`: a combination the policy forbids never completes: a required certificate that is
    missing, or an unverifiable certificate under a verifying policy. -/
theorem forbidden_fails (p : Params) (h : clientAuth p.auth p.ccert = none) : negotiate p = .fail := by
  cases hn : negotiate p with
  | fail => rfl
  | ok v s n => have := (agreed_is_mutual p v s n hn).2.2; rw [h] at this; cases this

/-- T1 `no_cross_protocol`: a GMSSL client never completes with a TLS-only server, nor a TLS client with a
    GMSSL-only server (both ends fail; the correspondence run checks that neither crashes). -/
theorem no_cross_protocol (p : Params) :
    (p.client = .gm → p.mode = .tls → negotiate p = .fail) ∧
    (p.client ≠ .gm → p.mode = .gm → negotiate p = .fail) := by
  constructor
  · intro hc hm
    cases hn : negotiate p with
    | fail => rfl
    | ok v s n =>
      rcases (agreed_is_mutual p v s n hn).2.1 with ⟨_, h, _⟩ | ⟨h, _⟩
      · exact absurd hm h
      · exact absurd hc h
  · intro hc hm
    cases hn : negotiate p with
    | fail => rfl
    | ok v s n =>
      rcases (agreed_is_mutual p v s n hn).2.1 with ⟨h, _⟩ | ⟨_, h, _⟩
      · exact absurd h hc
      · exact absurd hm h

/-- the GMSSL-only server (repaired, `readClientHello`): the GMSSL handshake runs exactly for ClientHello version
    0x0101; every other version is rejected, and it never runs the TLS handshake — the same routing as the
    auto-switch server's for the GMSSL code (`auto_dispatch`) -/
theorem gm_only_dispatch (v : Nat) :
    (dispatch .gm v = .gm ↔ v = 0x0101) ∧ (dispatch .gm v = .reject ↔ v ≠ 0x0101) ∧ dispatch .gm v ≠ .tls := by
  have e1 : Gen.TLS.versionGMSSL = 0x0101 := by decide
  unfold dispatch
  simp only [e1]
  by_cases h1 : v = 0x0101
  · subst h1; simp
  · simp [h1]

/-- the auto-switch server runs the GMSSL handshake exactly for ClientHello version 0x0101, the TLS handshake
    exactly for 0x0300..0x0303, and rejects every other version (all 65536 values) -/
theorem auto_dispatch (v : Nat) :
    (dispatch .auto v = .gm ↔ v = 0x0101) ∧ (dispatch .auto v = .tls ↔ 0x0300 ≤ v ∧ v ≤ 0x0303) ∧
    (dispatch .auto v = .reject ↔ v ≠ 0x0101 ∧ ¬ (0x0300 ≤ v ∧ v ≤ 0x0303)) := by
  have e1 : Gen.TLS.versionGMSSL = 0x0101 := by decide
  have e2 : Gen.TLS.versionSSL30 = 0x0300 := by decide
  have e3 : Gen.TLS.versionTLS10 = 0x0301 := by decide
  have e4 : Gen.TLS.versionTLS11 = 0x0302 := by decide
  have e5 : Gen.TLS.versionTLS12 = 0x0303 := by decide
  unfold dispatch
  simp only [e1, e2, e3, e4, e5]
  by_cases h1 : v = 0x0101
  · subst h1; simp
  · by_cases h2 : v = 0x0300 ∨ v = 0x0301 ∨ v = 0x0302 ∨ v = 0x0303
    · simp only [h1, if_false, h2, if_true]
      refine ⟨by simp, by simp; omega, by simp; omega⟩
    · simp only [h1, if_false, h2]
      refine ⟨by simp, by simp; omega, by simp; omega⟩

/-- Non-vacuity (tests): default GMSSL pair; ECDHE-first client falls through to ECC; TLS 1.2 with RSA -/
example : negotiate ⟨.gm, .gm, none, none, false, 0, 0, .rsa⟩ = .ok 0x0101 0xe013 0 := by decide
example : negotiate ⟨.auto, .gm, some [0xe011, 0xe053], none, false, 4, 1, .rsa⟩ = .ok 0x0101 0xe053 1 := by decide
example : negotiate ⟨.auto, .tls 0x0303, none, none, false, 0, 0, .rsa⟩ = .ok 0x0303 0xcca8 0 := by decide
example : negotiate ⟨.tls, .tls 0x0301, none, none, true, 3, 2, .rsa⟩ = .fail := by decide

end Props.C06
