/-
C10 (completeness direction) — "chain verification accepts exactly the chains a reference path
validator accepts".

`Props/C10.lean` proves soundness (`buildChains_sound`, `verify_sound`): everything `Verify` returns is
a good path.  This file proves the converse over the same model (`Model.X509`, x509/verify.go +
cert_pool.go): every good path is found, as long as the search is not cut by its own work budget.

What "good path" has to mean for this to be true of the code that exists (both are visible in the
statements below):
* when the leaf itself is (by `Equal`) in the root pool, `Verify` considers the chain `[leaf]` only;
* the budget: the recursion is cut when the step counter reaches 0.  Because the counter is threaded
  through the whole depth-first search and only decreases (`buildChains_budget`), "the search was
  never cut" is the single condition `0 < (buildChains …).2` on the counter it returns.
Key identifiers do NOT appear in it any more.  Up to round 8 the model (like cert_pool.go
`findVerifiedParents` as found) consulted the subject-name index only when the lookup by the child's
AuthorityKeyId came back empty, and every completeness statement here carried a side condition
(`KeyIdPath`: no link of the path is hidden by a pool member with the matching SubjectKeyId).  That was
the defect repaired in round 9 (an unusable certificate with the matching key id, e.g. the expired
predecessor of a renewed CA certificate, hid the usable one).  With the repaired rule - key-id matches
first, then the remaining name matches - the side condition is gone from `buildChains_complete`,
`verify_complete`, `GoodPath`, `verify_chains_exact`, `verify_iff_exists_good_path`; pool monotonicity
(`findVerifiedParents_mono`, `buildChains_mono`, `verify_mono`) is new.
The recursion depth (`fuel = |roots| + |intermediates| + 2` in `verify`) needs no hypothesis: a
good suffix never repeats an id, so it has at most `|intermediates| + 1` elements
(`goodSuffix_length_le`).
-/
import Gmsm.Props.C10
namespace Props.C10
open Model.X509

/-! ### 1. `findVerifiedParents` -/

/-- The candidate selection of `findVerifiedParents`, exactly: `p` is a candidate parent of `c` iff
    `c` has an AuthorityKeyId equal to `p`'s SubjectKeyId, or `p`'s subject is `c`'s issuer.  (It no longer
    depends on the rest of the pool.) -/
def Selected (c p : Cert) : Prop :=
  (∃ k, c.aki = some k ∧ p.ski = some k) ∨ p.subj = c.iss

theorem keyIdMatch_iff (c p : Cert) : keyIdMatch c p = true ↔ ∃ k, c.aki = some k ∧ p.ski = some k := by
  unfold keyIdMatch
  cases hc : c.aki with
  | none => simp
  | some k => simp

/-- exact characterization of `findVerifiedParents` (both directions) -/
theorem mem_findVerifiedParents_iff (pool : List Cert) (c p : Cert) :
    p ∈ findVerifiedParents pool c ↔ p ∈ pool ∧ checkSigFrom c p = true ∧ Selected c p := by
  unfold findVerifiedParents Selected
  rw [← keyIdMatch_iff]
  simp only [List.mem_filter, List.mem_append, Bool.and_eq_true, beq_iff_eq, Bool.not_eq_true']
  constructor
  · rintro ⟨⟨h1, h2⟩ | ⟨h1, h2, _⟩, h3⟩
    · exact ⟨h1, h3, Or.inl h2⟩
    · exact ⟨h1, h3, Or.inr h2⟩
  · rintro ⟨h1, h3, h⟩
    refine ⟨?_, h3⟩
    by_cases hk : keyIdMatch c p = true
    · exact Or.inl ⟨h1, hk⟩
    · rcases h with h | h
      · exact absurd h hk
      · exact Or.inr ⟨h1, h, by simpa using hk⟩

/-- `findVerifiedParents_complete` (the repaired behaviour): a pool member that carries the child's issuer
    name and correctly signs `c` (`CheckSignatureFrom` succeeds) IS returned - whatever key identifiers the
    child, the parent and the other pool members carry.  False for the rule as found: there a pool member whose
    SubjectKeyId equals the child's AuthorityKeyId hid every parent with another or no SubjectKeyId. -/
theorem findVerifiedParents_complete (pool : List Cert) (c p : Cert)
    (hp : p ∈ pool) (hs : checkSigFrom c p = true) (hn : p.subj = c.iss) :
    p ∈ findVerifiedParents pool c :=
  (mem_findVerifiedParents_iff pool c p).mpr ⟨hp, hs, Or.inr hn⟩

/-- `findVerifiedParents_mono`: adding certificates to a pool never removes a verified parent. -/
theorem findVerifiedParents_mono (pool pool2 : List Cert) (c : Cert) (h : ∀ x ∈ pool, x ∈ pool2) :
    ∀ p ∈ findVerifiedParents pool c, p ∈ findVerifiedParents pool2 c := by
  intro p hp
  obtain ⟨h1, h2, h3⟩ := (mem_findVerifiedParents_iff pool c p).mp hp
  exact (mem_findVerifiedParents_iff pool2 c p).mpr ⟨h p h1, h2, h3⟩

/-- name chaining is part of `isValid` -/
theorem subj_of_isValid (p : Cert) (kind : Kind) (chain : List Cert) (o : Opts) (c : Cert)
    (hc : chain.getLast? = some c) (hv : isValid p kind chain o = none) : p.subj = c.iss := by
  unfold isValid at hv
  simp only [hc] at hv
  by_cases h : c.iss = p.subj
  · exact h.symm
  · simp [h] at hv

/-! ### 2. `buildChains` -/

/-- the loop body of `buildChains` over the candidate intermediates -/
def interStep (roots inters : List Cert) (o : Opts) (fuel : Nat) (chain : List Cert) :
    List (List Cert) × Nat → Cert → List (List Cert) × Nat :=
  fun acc i =>
    if chain.any (·.id == i.id) then acc
    else if (isValid i .intermediate chain o).isSome then acc
    else
      let (cs, st) := buildChains roots inters o fuel acc.2 (chain ++ [i])
      (acc.1 ++ cs, st)

/-- the chains ending at a root directly above the current chain -/
def viaRoots (roots : List Cert) (o : Opts) (chain : List Cert) (c : Cert) : List (List Cert) :=
  (findVerifiedParents roots c).filterMap fun r =>
    if chain.any (·.id == r.id) then none
    else if (isValid r .root chain o).isSome then none
    else some (chain ++ [r])

theorem buildChains_succ (roots inters : List Cert) (o : Opts) (fuel steps : Nat) (chain : List Cert) (c : Cert)
    (hs : steps ≠ 0) (hc : chain.getLast? = some c) :
    buildChains roots inters o (fuel + 1) steps chain =
      (findVerifiedParents inters c).foldl (interStep roots inters o fuel chain) (viaRoots roots o chain c, steps - 1) := by
  rw [buildChains]
  simp only [hs, if_false, hc]
  rfl

theorem interStep_fst_subset (roots inters : List Cert) (o : Opts) (fuel : Nat) (chain : List Cert)
    (l : List Cert) (acc : List (List Cert) × Nat) :
    ∀ x ∈ acc.1, x ∈ (l.foldl (interStep roots inters o fuel chain) acc).1 := by
  induction l generalizing acc with
  | nil => intro x hx; exact hx
  | cons i l ih =>
    intro x hx
    simp only [List.foldl_cons]
    apply ih
    unfold interStep
    split
    · exact hx
    · split
      · exact hx
      · simp [hx]

theorem interStep_snd_le (roots inters : List Cert) (o : Opts) (fuel : Nat) (chain : List Cert)
    (l : List Cert) (acc : List (List Cert) × Nat) :
    (l.foldl (interStep roots inters o fuel chain) acc).2 ≤ acc.2 := by
  induction l generalizing acc with
  | nil => exact Nat.le_refl _
  | cons i l ih =>
    simp only [List.foldl_cons]
    refine Nat.le_trans (ih _) ?_
    unfold interStep
    split
    · exact Nat.le_refl _
    · split
      · exact Nat.le_refl _
      · exact buildChains_budget roots inters o fuel acc.2 (chain ++ [i])

/-- if the loop ends with budget left, the recursive call made for a fresh, valid candidate `i` had
    budget left too, so whatever that call is guaranteed to find is in the result -/
theorem interStep_complete (roots inters : List Cert) (o : Opts) (fuel : Nat) (chain : List Cert)
    (i : Cert) (target : List Cert)
    (hf : chain.any (·.id == i.id) = false) (hv : isValid i .intermediate chain o = none)
    (hrec : ∀ st, 0 < (buildChains roots inters o fuel st (chain ++ [i])).2 →
      target ∈ (buildChains roots inters o fuel st (chain ++ [i])).1)
    (l : List Cert) (acc : List (List Cert) × Nat) (hi : i ∈ l)
    (hb : 0 < (l.foldl (interStep roots inters o fuel chain) acc).2) :
    target ∈ (l.foldl (interStep roots inters o fuel chain) acc).1 := by
  induction l generalizing acc with
  | nil => cases hi
  | cons j l ih =>
    simp only [List.foldl_cons] at hb ⊢
    rcases List.mem_cons.mp hi with rfl | hi
    · apply interStep_fst_subset
      have hle := interStep_snd_le roots inters o fuel chain l (interStep roots inters o fuel chain acc i)
      have hpos : 0 < (interStep roots inters o fuel chain acc i).2 := Nat.lt_of_lt_of_le hb hle
      have heq : interStep roots inters o fuel chain acc i =
          (acc.1 ++ (buildChains roots inters o fuel acc.2 (chain ++ [i])).1,
            (buildChains roots inters o fuel acc.2 (chain ++ [i])).2) := by
        unfold interStep
        simp [hf, hv]
      rw [heq] at hpos ⊢
      exact List.mem_append_right _ (hrec _ hpos)
    · exact ih _ hi hb

/-- `buildChains_complete`: the depth-first search returns EVERY good completion of the current
    chain (`chain ++ suffix` itself, not just some chain — no candidate is dropped after a success and
    the number of chains is not limited), for every pool, option set and signature relation, provided
    * the recursion depth suffices (`suffix.length ≤ fuel`), and
    * the search was not cut by the work budget: the step counter it returns is still positive. -/
theorem buildChains_complete (roots inters : List Cert) (o : Opts) (fuel steps : Nat) (chain suffix : List Cert)
    (hg : GoodSuffix roots inters o chain suffix)
    (hfuel : suffix.length ≤ fuel)
    (hb : 0 < (buildChains roots inters o fuel steps chain).2) :
    chain ++ suffix ∈ (buildChains roots inters o fuel steps chain).1 := by
  induction fuel generalizing steps chain suffix with
  | zero =>
    cases suffix with
    | nil => exact absurd hg (by simp [GoodSuffix])
    | cons _ _ => simp at hfuel
  | succ fuel ih =>
    have hs : steps ≠ 0 := by
      intro h0
      rw [h0, buildChains] at hb
      simp at hb
    match suffix, hg, hfuel with
    | [], hg, _ => exact absurd hg (by simp [GoodSuffix])
    | [r], hg, _ =>
      obtain ⟨hr, ⟨c, hc, hsig⟩, hv, hf⟩ := hg
      rw [buildChains_succ roots inters o fuel steps chain c hs hc]
      apply interStep_fst_subset
      have hmem : r ∈ findVerifiedParents roots c :=
        findVerifiedParents_complete roots c r hr hsig (subj_of_isValid r .root chain o c hc hv)
      show chain ++ [r] ∈ viaRoots roots o chain c
      unfold viaRoots
      simp only [List.mem_filterMap]
      refine ⟨r, hmem, ?_⟩
      have hf' : chain.any (·.id == r.id) = false := hf
      simp [hf', hv]
    | i :: r :: rest, hg, hfuel =>
      obtain ⟨hi, ⟨c, hc, hsig⟩, hv, hf, hg'⟩ := hg
      rw [buildChains_succ roots inters o fuel steps chain c hs hc] at hb ⊢
      have hmem : i ∈ findVerifiedParents inters c :=
        findVerifiedParents_complete inters c i hi hsig (subj_of_isValid i .intermediate chain o c hc hv)
      have htarget : chain ++ i :: r :: rest = (chain ++ [i]) ++ (r :: rest) := by simp
      rw [htarget]
      refine interStep_complete roots inters o fuel chain i _ hf hv ?_ _ _ hmem hb
      intro st hst
      exact ih st (chain ++ [i]) (r :: rest) hg' (by simpa using hfuel) hst

/-! ### the recursion depth used by `verify` always suffices -/

theorem length_le_of_nodup_subset : ∀ (l m : List Nat), l.Nodup → (∀ x ∈ l, x ∈ m) → l.length ≤ m.length
  | [], _, _, _ => Nat.zero_le _
  | a :: t, m, hn, hsub => by
    have hn' := List.nodup_cons.mp hn
    have ha : a ∈ m := hsub a (by simp)
    have ht : ∀ x ∈ t, x ∈ m.erase a := by
      intro x hx
      have hne : x ≠ a := by rintro rfl; exact hn'.1 hx
      exact (List.mem_erase_of_ne hne).mpr (hsub x (by simp [hx]))
    have := length_le_of_nodup_subset t (m.erase a) hn'.2 ht
    rw [List.length_erase_of_mem ha] at this
    have hpos : 0 < m.length := List.length_pos_of_mem ha
    simp only [List.length_cons]
    omega

/-- with `pre` = intermediates already on the chain (distinct ids, all from the pool): a good suffix
    adds at most the remaining intermediates plus one root -/
theorem goodSuffix_length_aux (roots inters : List Cert) (o : Opts) (suffix : List Cert) :
    ∀ (chain pre : List Cert), GoodSuffix roots inters o chain suffix →
      (∀ x ∈ pre, x ∈ inters) → (∀ x ∈ pre, x ∈ chain) → (pre.map (·.id)).Nodup →
      pre.length + suffix.length ≤ inters.length + 1 := by
  induction suffix with
  | nil => intro chain pre hg; exact absurd hg (by simp [GoodSuffix])
  | cons i rest ih =>
    intro chain pre hg hin hch hnd
    cases rest with
    | nil =>
      have h1 := length_le_of_nodup_subset (pre.map (·.id)) (inters.map (·.id)) hnd (by
        intro x hx
        obtain ⟨y, hy, rfl⟩ := List.mem_map.mp hx
        exact List.mem_map.mpr ⟨y, hin y hy, rfl⟩)
      simp only [List.length_map] at h1
      simp only [List.length_cons, List.length_nil]
      omega
    | cons r rest =>
      obtain ⟨hi, _, _, hf, hg'⟩ := hg
      have hf' : chain.any (·.id == i.id) = false := hf
      have := ih (chain ++ [i]) (i :: pre) hg'
        (by intro x hx; rcases List.mem_cons.mp hx with rfl | hx; exact hi; exact hin x hx)
        (by intro x hx; rcases List.mem_cons.mp hx with rfl | hx; simp; simp [hch x hx])
        (by
          simp only [List.map_cons, List.nodup_cons]
          refine ⟨?_, hnd⟩
          intro hmem
          obtain ⟨y, hy, hyi⟩ := List.mem_map.mp hmem
          have : chain.any (·.id == i.id) = true := by
            simp only [List.any_eq_true, beq_iff_eq]
            exact ⟨y, hch y hy, hyi⟩
          rw [this] at hf'
          cases hf')
      simp only [List.length_cons] at this ⊢
      omega

/-- a good suffix never repeats an id, so it consists of at most `|intermediates|` intermediates and
    one root: the recursion depth `|roots| + |intermediates| + 2` that `verify` uses is never the
    limiting factor -/
theorem goodSuffix_length_le (roots inters : List Cert) (o : Opts) (chain suffix : List Cert)
    (hg : GoodSuffix roots inters o chain suffix) : suffix.length ≤ inters.length + 1 := by
  have := goodSuffix_length_aux roots inters o suffix chain [] hg (by simp) (by simp) (by simp)
  simpa using this

/-! ### 3. `verify` -/

/-- the requested usages (`opts.KeyUsages`, default serverAuth) -/
def reqUsages (o : Opts) : List Nat := if o.usages.isEmpty then [1] else o.usages

/-- the key-usage acceptance of a candidate chain: `ExtKeyUsageAny` requested, or
    `checkChainForKeyUsage` passes -/
def usageOK (o : Opts) (chain : List Cert) : Bool :=
  (reqUsages o).contains 0 || checkChainForKeyUsage chain (reqUsages o)

/-- the candidate chains of `Verify` before the key-usage filter -/
def candidates (roots inters : List Cert) (leaf : Cert) (o : Opts) : List (List Cert) :=
  if roots.any (·.id == leaf.id) then [[leaf]]
  else (buildChains roots inters o (roots.length + inters.length + 2) maxSteps [leaf]).1

/-- `verify` succeeds exactly when the leaf passes its own checks and some candidate chain survives
    the key-usage filter; it returns the surviving candidates -/
theorem verify_ok_iff (roots inters : List Cert) (leaf : Cert) (o : Opts) (chains : List (List Nat)) :
    verify roots inters leaf o = .ok chains ↔
      leaf.critical = false ∧ isValid leaf .leaf [] o = none ∧
      (o.dnsName.length > 0 → verifyHostname leaf o = true) ∧
      (candidates roots inters leaf o).filter (usageOK o) ≠ [] ∧
      chains = ((candidates roots inters leaf o).filter (usageOK o)).map (·.map (·.id)) := by
  unfold verify
  by_cases hcrit : leaf.critical = true
  · simp [hcrit]
  · simp only [hcrit, Bool.false_eq_true, if_false]
    have hcrit' : leaf.critical = false := by simpa using hcrit
    cases hv : isValid leaf .leaf [] o with
    | some r => simp
    | none =>
      simp only
      by_cases hh : (o.dnsName.length > 0 && !verifyHostname leaf o) = true
      · simp only [hh, if_true]
        constructor
        · intro h; cases h
        · rintro ⟨_, _, h3, _⟩
          simp only [Bool.and_eq_true, decide_eq_true_eq, Bool.not_eq_true'] at hh
          rw [h3 hh.1] at hh
          cases hh.2
      · simp only [hh, Bool.false_eq_true, if_false]
        have hh' : o.dnsName.length > 0 → verifyHostname leaf o = true := by
          intro hlen
          simp only [Bool.and_eq_true, decide_eq_true_eq, Bool.not_eq_true', not_and, Bool.not_eq_false] at hh
          exact hh hlen
        show (if (candidates roots inters leaf o).isEmpty then Res.noChain
          else if (reqUsages o).contains 0 then Res.ok ((candidates roots inters leaf o).map (·.map (·.id)))
          else if ((candidates roots inters leaf o).filter (checkChainForKeyUsage · (reqUsages o))).isEmpty then Res.usage
          else Res.ok (((candidates roots inters leaf o).filter (checkChainForKeyUsage · (reqUsages o))).map (·.map (·.id))))
          = Res.ok chains ↔ _
        generalize candidates roots inters leaf o = cands
        by_cases he : cands.isEmpty = true
        · have : cands = [] := List.isEmpty_iff.mp he
          subst this
          simp
        · simp only [he, Bool.false_eq_true, if_false]
          by_cases hany : (reqUsages o).contains 0 = true
          · have hfil : cands.filter (usageOK o) = cands := by
              apply List.filter_eq_self.mpr
              intro a _
              simp only [usageOK, hany, Bool.true_or]
            simp only [hany, if_true, hfil, Res.ok.injEq]
            constructor
            · intro h
              refine ⟨trivial, trivial, hh', ?_, h.symm⟩
              intro hnil; apply he; rw [hnil]; rfl
            · rintro ⟨_, _, _, _, h⟩; exact h.symm
          · have hfil : cands.filter (usageOK o) = cands.filter (checkChainForKeyUsage · (reqUsages o)) := by
              apply List.filter_congr
              intro a _
              simp only [usageOK, Bool.eq_false_iff.mpr hany, Bool.false_or]
            simp only [hany, Bool.false_eq_true, if_false, hfil]
            by_cases hg : (cands.filter (checkChainForKeyUsage · (reqUsages o))).isEmpty = true
            · simp only [hg, if_true]
              constructor
              · intro h; cases h
              · rintro ⟨_, _, _, h, _⟩
                exact absurd (List.isEmpty_iff.mp hg) h
            · simp only [hg, Bool.false_eq_true, if_false, Res.ok.injEq]
              constructor
              · intro h
                refine ⟨trivial, trivial, hh', ?_, h.symm⟩
                intro hnil; apply hg; rw [hnil]; rfl
              · rintro ⟨_, _, _, _, h⟩; exact h.symm

/-- The reference path validator: `chain` (leaf first) is an acceptable path for `leaf` iff it is the
    leaf alone and the leaf is in the root pool, or the leaf is not in the root pool and the chain is
    the leaf followed by a good suffix (pool membership, signatures + CA conditions, `isValid` at each
    position, no repetition, ends in a root).  Key identifiers play no role. -/
def GoodPath (roots inters : List Cert) (o : Opts) (leaf : Cert) (chain : List Cert) : Prop :=
  (chain = [leaf] ∧ roots.any (·.id == leaf.id) = true) ∨
  (roots.any (·.id == leaf.id) = false ∧
    ∃ suffix, chain = [leaf] ++ suffix ∧ GoodSuffix roots inters o [leaf] suffix)

/-- the search was not cut by `maxChainBuildSteps` (vacuous when the leaf is itself a root: no search) -/
def WithinBudget (roots inters : List Cert) (leaf : Cert) (o : Opts) : Prop :=
  roots.any (·.id == leaf.id) = false →
    0 < (buildChains roots inters o (roots.length + inters.length + 2) maxSteps [leaf]).2

/-- soundness of the candidates (no budget hypothesis) -/
theorem candidates_sound (roots inters : List Cert) (leaf : Cert) (o : Opts) (chain : List Cert)
    (h : chain ∈ candidates roots inters leaf o) : GoodPath roots inters o leaf chain := by
  unfold candidates at h
  by_cases hroot : roots.any (·.id == leaf.id) = true
  · simp only [hroot, if_true, List.mem_singleton] at h
    exact Or.inl ⟨h, hroot⟩
  · simp only [hroot, Bool.false_eq_true, if_false] at h
    obtain ⟨s1, h1, hg⟩ := buildChains_sound roots inters o _ _ [leaf] chain h
    exact Or.inr ⟨by simpa using hroot, s1, h1, hg⟩

/-- completeness of the candidates within the budget -/
theorem candidates_complete (roots inters : List Cert) (leaf : Cert) (o : Opts) (chain : List Cert)
    (hb : WithinBudget roots inters leaf o) (h : GoodPath roots inters o leaf chain) :
    chain ∈ candidates roots inters leaf o := by
  unfold candidates
  rcases h with ⟨rfl, hroot⟩ | ⟨hroot, suffix, rfl, hg⟩
  · simp [hroot]
  · simp only [hroot, Bool.false_eq_true, if_false]
    apply buildChains_complete roots inters o _ _ [leaf] suffix hg
    · have := goodSuffix_length_le roots inters o [leaf] suffix hg
      omega
    · exact hb hroot

/-- within the budget the candidates are EXACTLY the good paths -/
theorem candidates_exact (roots inters : List Cert) (leaf : Cert) (o : Opts) (chain : List Cert)
    (hb : WithinBudget roots inters leaf o) :
    chain ∈ candidates roots inters leaf o ↔ GoodPath roots inters o leaf chain :=
  ⟨candidates_sound roots inters leaf o chain, candidates_complete roots inters leaf o chain hb⟩

/-- `verify_complete`: if the leaf passes its own checks (no unhandled critical extension, `isValid`,
    host name when one is requested), is not itself in the root pool, and a good suffix exists
    whose chain is acceptable for the requested key usages,
    then — unless the search ran out of its work budget — `Verify` succeeds and the returned chains
    contain that very chain (in particular the result is non-empty). -/
theorem verify_complete (roots inters : List Cert) (leaf : Cert) (o : Opts) (suffix : List Cert)
    (hcrit : leaf.critical = false) (hv : isValid leaf .leaf [] o = none)
    (hh : o.dnsName.length > 0 → verifyHostname leaf o = true)
    (hnr : roots.any (·.id == leaf.id) = false)
    (hg : GoodSuffix roots inters o [leaf] suffix)
    (hu : usageOK o ([leaf] ++ suffix) = true)
    (hb : 0 < (buildChains roots inters o (roots.length + inters.length + 2) maxSteps [leaf]).2) :
    ∃ chains, verify roots inters leaf o = .ok chains ∧ chains ≠ [] ∧
      ([leaf] ++ suffix).map (·.id) ∈ chains := by
  have hmem : [leaf] ++ suffix ∈ (candidates roots inters leaf o).filter (usageOK o) := by
    rw [List.mem_filter]
    exact ⟨candidates_complete roots inters leaf o _ (fun _ => hb) (Or.inr ⟨hnr, suffix, rfl, hg⟩), hu⟩
  refine ⟨_, (verify_ok_iff roots inters leaf o _).mpr ⟨hcrit, hv, hh, List.ne_nil_of_mem hmem, rfl⟩, ?_, ?_⟩
  · intro h
    have := List.mem_map_of_mem (f := fun (c : List Cert) => c.map (·.id)) hmem
    rw [h] at this
    cases this
  · exact List.mem_map_of_mem hmem

/-- the other accepting case of `Verify`: the leaf is itself in the root pool -/
theorem verify_complete_root (roots inters : List Cert) (leaf : Cert) (o : Opts)
    (hcrit : leaf.critical = false) (hv : isValid leaf .leaf [] o = none)
    (hh : o.dnsName.length > 0 → verifyHostname leaf o = true)
    (hr : roots.any (·.id == leaf.id) = true) (hu : usageOK o [leaf] = true) :
    verify roots inters leaf o = .ok [[leaf.id]] := by
  apply (verify_ok_iff roots inters leaf o _).mpr
  have : candidates roots inters leaf o = [[leaf]] := by simp [candidates, hr]
  rw [this]
  simp [hcrit, hv, hu]
  exact hh

/-- `verify_chains_exact`: "accepts exactly the chains a reference path validator accepts".  When
    `Verify` succeeds within its work budget, the chains it returns are precisely the good paths
    that are acceptable for the requested key usages. -/
theorem verify_chains_exact (roots inters : List Cert) (leaf : Cert) (o : Opts) (chains : List (List Nat))
    (hb : WithinBudget roots inters leaf o) (h : verify roots inters leaf o = .ok chains) (ids : List Nat) :
    ids ∈ chains ↔
      ∃ chain, ids = chain.map (·.id) ∧ GoodPath roots inters o leaf chain ∧ usageOK o chain = true := by
  obtain ⟨_, _, _, _, hch⟩ := (verify_ok_iff roots inters leaf o chains).mp h
  rw [hch]
  simp only [List.mem_map, List.mem_filter]
  constructor
  · rintro ⟨ch, ⟨hc, hu⟩, rfl⟩
    exact ⟨ch, rfl, candidates_sound roots inters leaf o ch hc, hu⟩
  · rintro ⟨ch, rfl, hg, hu⟩
    exact ⟨ch, ⟨candidates_complete roots inters leaf o ch hb hg, hu⟩, rfl⟩

/-- `verify_iff_exists_good_path`: within the work budget, `Verify` succeeds IF AND ONLY IF the leaf
    passes its own checks and a good path exists that is acceptable for the requested key usages. -/
theorem verify_iff_exists_good_path (roots inters : List Cert) (leaf : Cert) (o : Opts)
    (hb : WithinBudget roots inters leaf o) :
    (∃ chains, verify roots inters leaf o = .ok chains) ↔
      leaf.critical = false ∧ isValid leaf .leaf [] o = none ∧
      (o.dnsName.length > 0 → verifyHostname leaf o = true) ∧
      ∃ chain, GoodPath roots inters o leaf chain ∧ usageOK o chain = true := by
  constructor
  · rintro ⟨chains, h⟩
    obtain ⟨h1, h2, h3, hne, _⟩ := (verify_ok_iff roots inters leaf o chains).mp h
    refine ⟨h1, h2, h3, ?_⟩
    obtain ⟨ch, hch⟩ := List.exists_mem_of_ne_nil _ hne
    rw [List.mem_filter] at hch
    exact ⟨ch, candidates_sound roots inters leaf o ch hch.1, hch.2⟩
  · rintro ⟨h1, h2, h3, ch, hg, hu⟩
    have hmem : ch ∈ (candidates roots inters leaf o).filter (usageOK o) :=
      List.mem_filter.mpr ⟨candidates_complete roots inters leaf o ch hb hg, hu⟩
    exact ⟨_, (verify_ok_iff roots inters leaf o _).mpr ⟨h1, h2, h3, List.ne_nil_of_mem hmem, rfl⟩⟩

/-- without any budget hypothesis the "only if" half still holds (this is `verify_sound` again) -/
theorem verify_only_if_good_path (roots inters : List Cert) (leaf : Cert) (o : Opts) (chains : List (List Nat))
    (h : verify roots inters leaf o = .ok chains) :
    chains ≠ [] ∧ ∀ ids ∈ chains,
      ∃ chain, ids = chain.map (·.id) ∧ GoodPath roots inters o leaf chain ∧ usageOK o chain = true := by
  obtain ⟨_, _, _, hne, hch⟩ := (verify_ok_iff roots inters leaf o chains).mp h
  subst hch
  refine ⟨by simpa using hne, ?_⟩
  intro ids hids
  simp only [List.mem_map, List.mem_filter] at hids
  obtain ⟨ch, ⟨hc, hu⟩, rfl⟩ := hids
  exact ⟨ch, rfl, candidates_sound roots inters leaf o ch hc, hu⟩

/-! ### 4. non-vacuity and sharpness (tests) -/

def exOpts : Opts := ⟨0, "", false, "", []⟩

/-- the PKI of `Props/C10.lean` (root ← intermediate ← leaf): all hypotheses hold -/
theorem ex_goodSuffix : GoodSuffix [exRoot] [exInt] exOpts [exLeaf] [exInt, exRoot] :=
  ⟨by decide, ⟨exLeaf, rfl, by decide⟩, by decide, by unfold Fresh; decide,
   by decide, ⟨exInt, rfl, by decide⟩, by decide, by unfold Fresh; decide⟩

/-- `verify_complete` applies (every hypothesis is discharged) and yields the chain leaf, intermediate, root -/
example : ∃ chains, verify [exRoot] [exInt] exLeaf exOpts = .ok chains ∧ chains ≠ [] ∧ [3, 2, 1] ∈ chains :=
  verify_complete [exRoot] [exInt] exLeaf exOpts [exInt, exRoot] (by decide) (by decide) (by decide) (by decide)
    ex_goodSuffix (by decide) (by decide)

example : [exLeaf, exInt, exRoot] ∈ (buildChains [exRoot] [exInt] exOpts 2 3 [exLeaf]).1 :=
  buildChains_complete [exRoot] [exInt] exOpts 2 3 [exLeaf] [exInt, exRoot] ex_goodSuffix
    (by decide) (by decide)

/-- the same search by evaluation; and the two hypotheses of `buildChains_complete` other than the good suffix:
    budget 1 is cut before the intermediate is expanded (returned counter 0, nothing found);
    budget 2 finds the chain but ends at 0 (the hypothesis `0 < …` is sufficient, not necessary);
    depth 1 < |suffix| finds nothing although budget is left. -/
example : buildChains [exRoot] [exInt] exOpts 2 3 [exLeaf] = ([[exLeaf, exInt, exRoot]], 1) := by decide
example : buildChains [exRoot] [exInt] exOpts 2 1 [exLeaf] = ([], 0) := by decide
example : buildChains [exRoot] [exInt] exOpts 2 2 [exLeaf] = ([[exLeaf, exInt, exRoot]], 0) := by decide
example : buildChains [exRoot] [exInt] exOpts 1 3 [exLeaf] = ([], 2) := by decide

/-- Key identifiers hide nothing (this example showed the opposite for the rule as found, where `Verify`
    answered "no chain"): `hidLeaf` is correctly signed by the trusted root `exRoot`, carries AuthorityKeyId 7,
    `exRoot` has no SubjectKeyId, and an unrelated trusted certificate `decoy` has SubjectKeyId 7.  The lookup by
    key id returns `decoy` (which did not sign the leaf), the lookup by name adds `exRoot`, and `Verify` returns
    the chain - the same one as without `decoy` in the pool. -/
def decoy : Cert := { exRoot with id := 4, key := 77, signer := 77, ski := some 7 }
def hidLeaf : Cert := { exLeaf with iss := 10, signer := 10, aki := some 7 }

example : GoodSuffix [exRoot, decoy] [] exOpts [hidLeaf] [exRoot] :=
  ⟨by decide, ⟨hidLeaf, rfl, by decide⟩, by decide, by unfold Fresh; decide⟩
example : (match verify [exRoot, decoy] [] hidLeaf exOpts with | .ok cs => cs | _ => []) = [[3, 1]] := by decide
example : (match verify [decoy, exRoot] [] hidLeaf exOpts with | .ok cs => cs | _ => []) = [[3, 1]] := by decide
example : (match verify [exRoot] [] hidLeaf exOpts with | .ok cs => cs | _ => []) = [[3, 1]] := by decide

end Props.C10
