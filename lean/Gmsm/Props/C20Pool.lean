/-
C20 (x509 CertPool shared by concurrent Verify calls): how `findVerifiedParents` of x509/cert_pool.go
assembles its candidate list, seen at the level of slices and backing arrays (Model.SliceMem; the
elements are certificate indexes, modelled as bytes).

    candidates = s.bySubjectKeyId[aki]                    -- the pool's own slice
    byName := s.byName[issuer]                            -- the pool's own slice
    if len(candidates) == 0 { candidates = byName } else {
        byKeyId := candidates
        candidates = append(make([]int, 0, len(byKeyId)+len(byName)), byKeyId...)
        for n in byName, n not in byKeyId { candidates = append(candidates, n) }
    }

`candMem` is this code; `candAlias` is the same without the `make` line (append to the pool's slice).
`candMem_frame`: no allocation that existed before the call is changed - the pool's index arrays, spare
capacity included, are read-only for Verify, which is what makes one pool usable from many goroutines
(Props.C20Shared.certpool_writers: only AddCert writes a pool). `candAlias_writes_pool_memory` and
`candAlias_interleaving_witness` show that the statement is not a triviality of the memory model: without
the copy the call writes the spare slot behind a 3-element group, and of two calls interleaved on that
slot one reads the other's candidate. The harness scenario `conc poolkeyid` (harness/c20poolkid.go) runs
the real code on such pools under the race detector.
-/
import Gmsm.Model.SliceMem
import Gmsm.Props.C17Mem
namespace Props.C20Pool
open Gmsm Gmsm.Model.SliceMem

/-- the candidates found by name only: elements of `byName` that are not among `byKeyId` -/
def nameOnly (kid name : Bytes) : Bytes := name.filter (fun n => !kid.contains n)

/-- `for _, x := range xs { s = append(s, x) }` -/
def appendEach (h : Heap) (s : Slice) : Bytes → Heap × Slice
  | [] => (h, s)
  | x :: xs => appendEach (goAppend h s [x]).1 (goAppend h s [x]).2 xs

/-- the candidate list of `findVerifiedParents` as the code builds it -/
def candMem (h : Heap) (byKeyId byName : Slice) : Heap × Slice :=
  if byKeyId.len = 0 then (h, byName)
  else
    let m := goMake h 0 (byKeyId.len + byName.len)
    let a := goAppend m.1 m.2 (elems m.1 byKeyId)
    appendEach a.1 a.2 (nameOnly (elems h byKeyId) (elems h byName))

/-- the same without the copy: the name-only candidates are appended to the pool's own slice -/
def candAlias (h : Heap) (byKeyId byName : Slice) : Heap × Slice :=
  if byKeyId.len = 0 then (h, byName)
  else appendEach h byKeyId (nameOnly (elems h byKeyId) (elems h byName))

/-- appending element by element to a slice that lives in allocation `≥ n` leaves the allocations below `n` alone,
    and the result still lives in an allocation `≥ n` -/
theorem appendEach_frame (xs : Bytes) : ∀ (h : Heap) (s : Slice) (n : Nat), n ≤ s.id → n ≤ h.length →
    (appendEach h s xs).1.take n = h.take n ∧ n ≤ (appendEach h s xs).2.id := by
  induction xs with
  | nil => intro h s n hn _; exact ⟨rfl, hn⟩
  | cons x xs ih =>
    intro h s n hn hl
    have f := Props.C17Mem.goAppend_frame h s [x] n hn hl
    have i := Props.C17Mem.goAppend_id_ge h s [x] n hn hl
    have l := Props.C17Mem.goAppend_length_ge h s [x]
    have r := ih (goAppend h s [x]).1 (goAppend h s [x]).2 n i (by omega)
    simp only [appendEach]
    exact ⟨by rw [r.1, f], r.2⟩

/-- T `candMem_frame`: assembling the candidates changes no allocation that existed before the call - whatever
    the pool's slice headers are (any length, any spare capacity) - and the list is either the pool's by-name
    slice itself (only read afterwards) or lives in an allocation made by this call. -/
theorem candMem_frame (h : Heap) (byKeyId byName : Slice) :
    (candMem h byKeyId byName).1.take h.length = h ∧
    ((candMem h byKeyId byName).2 = byName ∨ h.length ≤ (candMem h byKeyId byName).2.id) := by
  unfold candMem
  split
  · exact ⟨by simp, Or.inl rfl⟩
  · simp only [goMake]
    generalize List.replicate (byKeyId.len + byName.len) (0 : Byte) = z
    generalize hs0 : (⟨h.length, 0, 0, byKeyId.len + byName.len⟩ : Slice) = s0
    have hs0id : s0.id = h.length := by rw [← hs0]
    generalize elems (h ++ [z]) byKeyId = ks
    generalize nameOnly (elems h byKeyId) (elems h byName) = ns
    have hl1 : h.length ≤ (h ++ [z]).length := by simp
    have f1 := Props.C17Mem.goAppend_frame (h ++ [z]) s0 ks h.length (by omega) hl1
    have i1 := Props.C17Mem.goAppend_id_ge (h ++ [z]) s0 ks h.length (by omega) hl1
    have l1 := Props.C17Mem.goAppend_length_ge (h ++ [z]) s0 ks
    have r := appendEach_frame ns (goAppend (h ++ [z]) s0 ks).1 (goAppend (h ++ [z]) s0 ks).2 h.length i1 (by omega)
    refine ⟨?_, Or.inr r.2⟩
    rw [r.1, f1, List.take_append_of_le_length (Nat.le_refl _), List.take_length]

/-- a pool index with three certificates 1, 2, 3 under one key identifier (len 3, cap 4: what three `append`s
    leave) and certificate 9 found by name only -/
def poolHeap : Heap := [[1, 2, 3, 0], [9], [7]]
def kidGroup : Slice := ⟨0, 0, 3, 4⟩

/-- without the copy the call writes the pool's spare slot (`candMem_frame` is false for `candAlias`) -/
theorem candAlias_writes_pool_memory :
    (candAlias poolHeap kidGroup ⟨1, 0, 1, 1⟩).1.take poolHeap.length ≠ poolHeap := by decide

/-- with the copy the same call leaves the pool as it was and returns the same candidates -/
theorem candMem_same_candidates :
    (candMem poolHeap kidGroup ⟨1, 0, 1, 1⟩).1.take poolHeap.length = poolHeap ∧
    elems (candMem poolHeap kidGroup ⟨1, 0, 1, 1⟩).1 (candMem poolHeap kidGroup ⟨1, 0, 1, 1⟩).2 = [1, 2, 3, 9] ∧
    elems (candAlias poolHeap kidGroup ⟨1, 0, 1, 1⟩).1 (candAlias poolHeap kidGroup ⟨1, 0, 1, 1⟩).2 = [1, 2, 3, 9] := by
  decide

/-- two calls without the copy, same key identifier, different issuer names (by-name lists [9] and [7]): call A
    builds its list, call B builds its list, then A walks its candidates - and finds B's certificate 7 in place of
    its own 9. With the copy A's list is what it was. -/
theorem candAlias_interleaving_witness :
    let a := candAlias poolHeap kidGroup ⟨1, 0, 1, 1⟩
    let b := candAlias a.1 kidGroup ⟨2, 0, 1, 1⟩
    elems a.1 a.2 = [1, 2, 3, 9] ∧ elems b.1 a.2 = [1, 2, 3, 7] := by decide

theorem candMem_interleaving :
    let a := candMem poolHeap kidGroup ⟨1, 0, 1, 1⟩
    let b := candMem a.1 kidGroup ⟨2, 0, 1, 1⟩
    elems a.1 a.2 = [1, 2, 3, 9] ∧ elems b.1 a.2 = [1, 2, 3, 9] ∧ elems b.1 b.2 = [1, 2, 3, 7] := by decide

end Props.C20Pool
