/-
C04, the "Consequently": the code that uses the SM3 object through `hash.Hash` — Go's generic
`crypto/hmac`, x509's `pbkdf`, gmtls' `pHash`/`prf12(sm3.New)` and `tls10MAC.MAC` over `macSM3` —
computes HMAC-SM3 (RFC 2104), PBKDF2-HMAC-SM3 (RFC 8018), P_SM3 / PRF (GM/T 0024 6.5) and the record MAC
BECAUSE the object obeys the streaming laws of `Props.C04`.

Shape of the argument.  `Model.HMAC` transcribes the client code over the object operations with the
`Sum` implementation as a parameter.  `SumLaw hsum` is exactly what the clients need from `Sum`:
from a state that represents the bytes `M` (`Proofs.SM3.Inv`), `Sum(pre)` returns `pre ‖ SM3(M)` AND
hands back the very same state.  Every theorem `…_of_law` is proved for an arbitrary `hsum` with
`SumLaw hsum`, using only `inv_init` (New/Reset), `inv_write` (Write; this is what `write_write` is
proved from) and the law.  `sumLaw_sum` derives the law for the repaired `Model.SM3.sum` from
`Props.C04.sum_pure` + `Props.C04.sum_prefix`; the unsuffixed theorems are the instances.
`hmac_breaks_with_sumOld` / `pbkdf_breaks_with_sumOld` run the same client code over the pinned
commit's `Model.SM3.sumOld` and exhibit wrong results.
-/
import Gmsm.Props.C04
import Gmsm.Model.HMAC
import Gmsm.Model.Record
import Gmsm.Spec.TLSPRF
namespace Props.C04HMAC
open Gmsm Model.SM3 Model.HMAC Proofs.SM3

-- the law ---------------------------------------------------------------------------------------

/-- What the clients of the hash object rely on: in a state representing `M`, `Sum(pre)` leaves the
    state untouched and returns `pre ‖ SM3(M)`. -/
def SumLaw (hsum : SumImpl) : Prop :=
  ∀ (s : State) (M pre : Bytes), Inv s M → hsum s pre = (s, pre ++ Spec.SM3.hash M)

/-- the repaired `(*SM3).Sum` obeys the law: `Props.C04.sum_pure` (state untouched) and
    `Props.C04.sum_prefix` (prefix ‖ digest). -/
theorem sumLaw_sum : SumLaw sum := by
  intro s M pre h
  have h1 := Props.C04.sum_pure s pre
  have h2 := Props.C04.sum_prefix s M pre h
  cases hs : sum s pre with
  | mk a b => rw [hs] at h1 h2; simp only at h1 h2; rw [h1, h2]

-- HMAC object -----------------------------------------------------------------------------------

/-- RFC 2104 K0 padded to the block: the key (hashed if longer than 64 bytes) followed by zeros -/
def keyBlock (key : Bytes) : Bytes :=
  let k0 := if key.length > 64 then Spec.SM3.hash key else key
  k0 ++ List.replicate (64 - k0.length) 0
def ipadOf (key : Bytes) : Bytes := (keyBlock key).map (· ^^^ 0x36)
def opadOf (key : Bytes) : Bytes := (keyBlock key).map (· ^^^ 0x5c)

theorem hmacSM3_unfold (key msg : Bytes) :
    Spec.HMAC.hmacSM3 key msg = Spec.SM3.hash (opadOf key ++ Spec.SM3.hash (ipadOf key ++ msg)) := rfl

theorem hmacSM3_length (key msg : Bytes) : (Spec.HMAC.hmacSM3 key msg).length = 32 :=
  Props.C04.hash_length _

/-- the abstraction relation of the HMAC object: the pads are the specification's, and the inner hash
    object represents `ipad ‖ M` where `M` are the bytes written since `New`/`Reset`.  Nothing is
    required of the outer object: every use starts with `outer.Reset()`. -/
structure Keyed (key : Bytes) (h : HState) (M : Bytes) : Prop where
  ipad : h.ipad = ipadOf key
  opad : h.opad = opadOf key
  inner : Inv h.inner (ipadOf key ++ M)

theorem goCopy_zero (k : Bytes) (hk : k.length ≤ 64) :
    goCopy (List.replicate 64 0) k = k ++ List.replicate (64 - k.length) 0 := by
  unfold goCopy
  rw [List.length_replicate, List.take_of_length_le hk, List.drop_replicate]

/-- `hmac.New`: both branches (`len(key) > 64`: `outer.Write(key); key = outer.Sum(nil)`). -/
theorem keyed_new {hsum : SumImpl} (L : SumLaw hsum) (key : Bytes) : Keyed key (newG hsum key) [] := by
  unfold newG
  by_cases hk : key.length > 64
  · have hI : Inv (write init key) ([] ++ key) := inv_write inv_init key
    simp only [hk, if_true, L _ _ [] hI, List.nil_append]
    have hl : (Spec.SM3.hash key).length ≤ 64 := by rw [Props.C04.hash_length]; omega
    rw [goCopy_zero _ hl]
    refine ⟨?_, ?_, ?_⟩
    · simp [ipadOf, keyBlock, hk]
    · simp [opadOf, keyBlock, hk]
    · have := inv_write inv_init (ipadOf key)
      simpa [ipadOf, keyBlock, hk] using this
  · have hl : key.length ≤ 64 := by omega
    simp only [hk, if_false]
    rw [goCopy_zero _ hl]
    refine ⟨?_, ?_, ?_⟩
    · simp [ipadOf, keyBlock, hk]
    · simp [opadOf, keyBlock, hk]
    · have := inv_write inv_init (ipadOf key)
      simpa [ipadOf, keyBlock, hk] using this

theorem keyed_write {key : Bytes} {h : HState} {M : Bytes} (K : Keyed key h M) (p : Bytes) :
    Keyed key (writeH h p) (M ++ p) :=
  ⟨K.ipad, K.opad, by have := inv_write K.inner p; rwa [List.append_assoc] at this⟩

theorem keyed_reset {key : Bytes} {h : HState} {M : Bytes} (K : Keyed key h M) :
    Keyed key (resetH h) [] :=
  ⟨K.ipad, K.opad, by
    have := inv_write inv_init (ipadOf key)
    simpa [resetH, K.ipad] using this⟩

/-- `(*hmac).Sum(in)`: returns `in ‖ HMAC(key, M)` and the object still represents `M`.  The law is
    used twice: `inner.Sum(in)` must return `in ‖ digest` (so that `in[origLen:]` is the digest and
    `in[:origLen]` the caller's prefix) and must not disturb `inner`. -/
theorem sumG_spec {hsum : SumImpl} (L : SumLaw hsum) {key : Bytes} {h : HState} {M : Bytes}
    (K : Keyed key h M) (pre : Bytes) :
    (sumG hsum h pre).2 = pre ++ Spec.HMAC.hmacSM3 key M ∧ Keyed key (sumG hsum h pre).1 M := by
  have hO : Inv (write (write init h.opad) (Spec.SM3.hash (ipadOf key ++ M)))
      (opadOf key ++ Spec.SM3.hash (ipadOf key ++ M)) := by
    have := inv_write (inv_write inv_init h.opad) (Spec.SM3.hash (ipadOf key ++ M))
    simpa [K.opad] using this
  unfold sumG
  simp only [L _ _ pre K.inner, List.drop_left, List.take_left, L _ _ pre hO]
  exact ⟨(hmacSM3_unfold key M).symm ▸ rfl, K.ipad, K.opad, K.inner⟩

/-- the abstract behaviour of an HMAC object keyed with `key`: the bytes written since the last
    `Reset` (or `New`) -/
def specRun (key : Bytes) : Bytes → List Model.HMAC.Op → List Bytes
  | _, [] => []
  | M, .write p :: ops => specRun key (M ++ p) ops
  | M, .sum pre :: ops => (pre ++ Spec.HMAC.hmacSM3 key M) :: specRun key M ops
  | _, .reset :: ops => specRun key [] ops

theorem runG_refines {hsum : SumImpl} (L : SumLaw hsum) {key : Bytes} (ops : List Model.HMAC.Op) :
    ∀ (h : HState) (M : Bytes), Keyed key h M → runG hsum h ops = specRun key M ops := by
  induction ops with
  | nil => intros; rfl
  | cons op ops ih =>
    intro h M K
    cases op with
    | write p => simp only [runG, specRun]; exact ih _ _ (keyed_write K p)
    | sum pre =>
      have S := sumG_spec L K pre
      simp only [runG, specRun, S.1, ih _ _ S.2]
    | reset => simp only [runG, specRun]; exact ih _ _ (keyed_reset K)

theorem foldl_writeH_keyed {key : Bytes} (cs : List Bytes) :
    ∀ (h : HState) (M : Bytes), Keyed key h M → Keyed key (cs.foldl writeH h) (M ++ cs.flatten) := by
  induction cs with
  | nil => intro h M K; simpa using K
  | cons c cs ih =>
    intro h M K
    have := ih _ _ (keyed_write K c)
    simpa [List.flatten, List.append_assoc] using this

/-- `hmac_hist_refines` — crypto/hmac `New(sm3.New, key)` followed by ANY sequence of `Write(p)`,
    `Sum(pre)`, `Reset()` on the returned object: the i-th `Sum(pre)` returns
    `pre ‖ HMAC-SM3(key, bytes written since the last Reset)`.  In particular `Sum` does not disturb
    later writes (Write a; Sum; Write b; Sum gives HMAC(a) then HMAC(a ‖ b)) and `Reset` restores
    the keyed initial state.  All keys (also longer than the 64-byte block), all chunkings. -/
theorem hmac_hist_refines (key : Bytes) (ops : List Model.HMAC.Op) :
    run (new key) ops = specRun key [] ops :=
  runG_refines sumLaw_sum ops _ _ (keyed_new sumLaw_sum key)

/-- `hmac_eq` — `mac := hmac.New(sm3.New, key); for c in chunks { mac.Write(c) }; mac.Sum(pre)`
    returns `pre ‖ HMAC-SM3(key, c₁ ‖ … ‖ cₙ)` (RFC 2104 with SM3) for every key, chunk list (empty
    chunks included) and prefix. -/
theorem hmac_eq (key : Bytes) (chunks : List Bytes) (pre : Bytes) :
    (sumH (chunks.foldl writeH (new key)) pre).2 = pre ++ Spec.HMAC.hmacSM3 key chunks.flatten := by
  have K := foldl_writeH_keyed chunks _ _ (keyed_new sumLaw_sum key)
  simpa [sumH, new] using (sumG_spec sumLaw_sum K pre).1

/-- reuse after `Sum`: `Write(a); x := Sum(p); Write(b); y := Sum(q)` gives `x = p ‖ HMAC(key, a)` and
    `y = q ‖ HMAC(key, a ‖ b)`. -/
theorem hmac_sum_then_write (key a b p q : Bytes) :
    run (new key) [.write a, .sum p, .write b, .sum q]
      = [p ++ Spec.HMAC.hmacSM3 key a, q ++ Spec.HMAC.hmacSM3 key (a ++ b)] := by
  rw [hmac_hist_refines]; simp [specRun]

/-- `Reset` forgets what was written, keeps the key: `Write(a); Reset(); Write(b); Sum(nil)` is
    `HMAC(key, b)`. -/
theorem hmac_reset (key a b : Bytes) :
    run (new key) [.write a, .reset, .write b, .sum []] = [Spec.HMAC.hmacSM3 key b] := by
  rw [hmac_hist_refines]; simp [specRun]

/-- `Size()`/`BlockSize()` of the HMAC object are those of SM3, and `Sum(nil)` has `Size()` bytes. -/
theorem hmac_size (key : Bytes) (chunks : List Bytes) :
    (sumH (chunks.foldl writeH (new key)) []).2.length = size (new key) ∧ blockSize (new key) = 64 := by
  rw [hmac_eq]; simp [hmacSM3_length, size, blockSize]

-- PBKDF2 ----------------------------------------------------------------------------------------

theorem xorBytes_len (a b : Bytes) : (xorBytes a b).length = min a.length b.length := by
  induction a generalizing b with
  | nil => simp [xorBytes]
  | cons x xs ih =>
    cases b with
    | nil => simp [xorBytes]
    | cons y ys => simp [xorBytes, ih]

theorem xorInto_eq (T U : Bytes) (h : T.length ≤ U.length) : xorInto T U = xorBytes T U := by
  unfold xorInto; rw [List.drop_of_length_le h, List.append_nil]

/-- Go's `byte(block>>24), byte(block>>16), byte(block>>8), byte(block)` is the big-endian 32-bit
    counter INT(i) of RFC 8018 (for every `block`, also beyond 2^32 where both wrap). -/
theorem blockCounter_eq (i : Nat) : blockCounter i = w32bytes (BitVec.ofNat 32 i) := by
  unfold blockCounter w32bytes
  congr 1
  · apply BitVec.eq_of_toNat_eq; simp [Nat.shiftRight_eq_div_pow]; omega
  congr 1
  · apply BitVec.eq_of_toNat_eq; simp [Nat.shiftRight_eq_div_pow]; omega
  congr 1
  · apply BitVec.eq_of_toNat_eq; simp [Nat.shiftRight_eq_div_pow]; omega
  congr 1
  · apply BitVec.eq_of_toNat_eq; simp

/-- the `for n := 2; n <= iter; n++` loop computes `U_2 ⊕ … ⊕ U_iter` into `T` -/
theorem pbkdfInner_spec {hsum : SumImpl} (L : SumLaw hsum) {pw : Bytes} (cnt : Nat) :
    ∀ (prf : HState) (M T U : Bytes), Keyed pw prf M → T.length = 32 → U.length = 32 →
      (pbkdfInnerG hsum cnt prf T U).2.1 = Spec.HMAC.pbkdf2F Spec.HMAC.hmacSM3 pw cnt U T
      ∧ (pbkdfInnerG hsum cnt prf T U).2.2.length = 32
      ∧ ∃ M', Keyed pw (pbkdfInnerG hsum cnt prf T U).1 M' := by
  induction cnt with
  | zero => intro prf M T U K _ hU; exact ⟨rfl, hU, M, K⟩
  | succ cnt ih =>
    intro prf M T U K hT hU
    have S := sumG_spec L (keyed_write (keyed_reset K) U) (U.take 0)
    rw [pbkdfInnerG]
    generalize sumG hsum (writeH (resetH prf) U) (List.take 0 U) = r at S ⊢
    obtain ⟨prf1, U1⟩ := r
    obtain ⟨hU1, K1⟩ := S
    simp only [List.take_zero, List.nil_append] at hU1
    simp only at hU1 K1 ⊢
    subst hU1
    have hl := hmacSM3_length pw U
    have hx : xorInto T (Spec.HMAC.hmacSM3 pw U) = xorBytes T (Spec.HMAC.hmacSM3 pw U) :=
      xorInto_eq _ _ (by omega)
    have hxl : (xorBytes T (Spec.HMAC.hmacSM3 pw U)).length = 32 := by rw [xorBytes_len]; omega
    rw [hx]
    exact ih _ _ _ _ K1 hxl hl

/-- the `for block := 1; block <= numBlocks; block++` loop appends T_block, T_block+1, … to `dk` -/
theorem pbkdfBlocks_spec {hsum : SumImpl} (L : SumLaw hsum) {pw : Bytes} (salt : Bytes) (iter : Nat)
    (cnt : Nat) :
    ∀ (block : Nat) (prf : HState) (M dk U : Bytes), Keyed pw prf M → U.length = 32 →
      (pbkdfBlocksG hsum salt iter 32 cnt block prf dk U).2.1
        = dk ++ (List.range cnt).flatMap
            (fun i => Spec.HMAC.pbkdf2Block Spec.HMAC.hmacSM3 pw salt iter (block + i)) := by
  induction cnt with
  | zero => intro block prf M dk U _ _; simp [pbkdfBlocksG]
  | succ cnt ih =>
    intro block prf M dk U K hU
    have S := sumG_spec L (keyed_write (keyed_write (keyed_reset K) salt) (blockCounter block)) dk
    rw [pbkdfBlocksG]
    generalize sumG hsum (writeH (writeH (resetH prf) salt) (blockCounter block)) dk = r at S ⊢
    obtain ⟨prf1, dk1⟩ := r
    obtain ⟨hdk1, K1⟩ := S
    simp only [List.nil_append, blockCounter_eq] at hdk1
    simp only at hdk1 K1 ⊢
    subst hdk1
    generalize hu1 : Spec.HMAC.hmacSM3 pw (salt ++ w32bytes (BitVec.ofNat 32 block)) = u1
    have hl : u1.length = 32 := by rw [← hu1]; exact hmacSM3_length _ _
    have hlen : (dk ++ u1).length - 32 = dk.length := by rw [List.length_append]; omega
    have hcp : goCopy U u1 = u1 := by
      unfold goCopy
      rw [List.take_of_length_le (by omega), List.drop_of_length_le (by omega), List.append_nil]
    rw [hlen, List.drop_left, List.take_left, hcp]
    have I := pbkdfInner_spec L (iter - 1) prf1 _ u1 u1 K1 hl hl
    generalize pbkdfInnerG hsum (iter - 1) prf1 u1 u1 = r2 at I ⊢
    obtain ⟨prf2, T2, U2⟩ := r2
    obtain ⟨hT2, hU2, M2, K2⟩ := I
    simp only at hT2 hU2 K2 ⊢
    rw [ih (block + 1) prf2 M2 (dk ++ T2) U2 K2 hU2, hT2]
    rw [List.range_succ_eq_map, List.flatMap_cons, List.flatMap_map, List.append_assoc]
    have e : ∀ a : Nat, block + 1 + a = block + a.succ := by intro a; omega
    simp only [e, Nat.add_zero]
    rw [Spec.HMAC.pbkdf2Block, hu1]

/-- `pbkdf_eq_of_law`: for any `Sum` obeying the law -/
theorem pbkdf_eq_of_law {hsum : SumImpl} (L : SumLaw hsum) (pw salt : Bytes) (iter keyLen : Nat) :
    pbkdfG hsum pw salt iter keyLen = Spec.HMAC.pbkdf2SM3 pw salt iter keyLen := by
  unfold pbkdfG
  have B := pbkdfBlocks_spec L salt iter ((keyLen + 32 - 1) / 32) 1 (newG hsum pw) [] []
    (List.replicate 32 0) (keyed_new L pw) (by simp)
  simp only [size]
  generalize pbkdfBlocksG hsum salt iter 32 ((keyLen + 32 - 1) / 32) 1 (newG hsum pw) []
    (List.replicate 32 0) = r at B ⊢
  obtain ⟨p, dk, U⟩ := r
  simp only at B ⊢
  rw [B]
  simp [Spec.HMAC.pbkdf2SM3, Spec.HMAC.pbkdf2, Nat.add_comm 1]

/-- `pbkdf_eq` — x509/pkcs8.go `pbkdf(password, salt, iter, keyLen, sm3.New)` (the library's own copy
    of PBKDF2, driving the HMAC object with Reset/Write/Sum, with `T` aliasing the tail of `dk`) equals
    PBKDF2 of RFC 8018 5.2 with PRF = HMAC-SM3, for every password, salt, `iter ≥ 0` and `keyLen ≥ 0`.
    The boundary cases are `pbkdf_iter_zero` and `pbkdf_keyLen_zero`. -/
theorem pbkdf_eq (pw salt : Bytes) (iter keyLen : Nat) :
    pbkdf pw salt iter keyLen = Spec.HMAC.pbkdf2SM3 pw salt iter keyLen :=
  pbkdf_eq_of_law sumLaw_sum pw salt iter keyLen

/-- `iter = 0` (RFC 8018 requires a positive count): the Go loop `for n := 2; n <= iter` does not
    run, so the code returns what it returns for `iter = 1` (T_i = U_1); the specification function
    was written with `iter - 1` on naturals and does the same.  (A negative `iter` in Go: likewise.) -/
theorem pbkdf_iter_zero (pw salt : Bytes) (keyLen : Nat) :
    pbkdf pw salt 0 keyLen = pbkdf pw salt 1 keyLen ∧
    Spec.HMAC.pbkdf2SM3 pw salt 0 keyLen = Spec.HMAC.pbkdf2SM3 pw salt 1 keyLen := by
  refine ⟨?_, rfl⟩
  rw [pbkdf_eq, pbkdf_eq]; rfl

/-- `keyLen = 0`: `numBlocks = (0 + 32 - 1) / 32 = 0`, no block is computed, `dk[:0]` is empty; the
    specification yields the empty string as well. -/
theorem pbkdf_keyLen_zero (pw salt : Bytes) (iter : Nat) :
    pbkdf pw salt iter 0 = [] ∧ Spec.HMAC.pbkdf2SM3 pw salt iter 0 = [] := by
  refine ⟨?_, ?_⟩
  · rw [pbkdf_eq]; simp [Spec.HMAC.pbkdf2SM3, Spec.HMAC.pbkdf2]
  · simp [Spec.HMAC.pbkdf2SM3, Spec.HMAC.pbkdf2]

/-- the derived key has exactly `keyLen` bytes -/
theorem pbkdf_length (pw salt : Bytes) (iter keyLen : Nat) : (pbkdf pw salt iter keyLen).length = keyLen := by
  have hB : ∀ i, (Spec.HMAC.pbkdf2Block Spec.HMAC.hmacSM3 pw salt iter i).length = 32 := by
    intro i
    unfold Spec.HMAC.pbkdf2Block
    have : ∀ (n : Nat) (u acc : Bytes), u.length = 32 → acc.length = 32 →
        (Spec.HMAC.pbkdf2F Spec.HMAC.hmacSM3 pw n u acc).length = 32 := by
      intro n
      induction n with
      | zero => intro u acc _ h; exact h
      | succ n ih =>
        intro u acc _ ha
        simp only [Spec.HMAC.pbkdf2F]
        exact ih _ _ (hmacSM3_length _ _) (by rw [xorBytes_len, hmacSM3_length]; omega)
    exact this _ _ _ (hmacSM3_length _ _) (hmacSM3_length _ _)
  have hF : ∀ n : Nat, ((List.range n).flatMap
      (fun i => Spec.HMAC.pbkdf2Block Spec.HMAC.hmacSM3 pw salt iter (i + 1))).length = 32 * n := by
    intro n
    induction n with
    | zero => simp
    | succ n ih => rw [List.range_succ, List.flatMap_append, List.length_append, ih]; simp [hB]; omega
  rw [pbkdf_eq]
  simp only [Spec.HMAC.pbkdf2SM3, Spec.HMAC.pbkdf2, List.length_take, hF]
  omega

-- P_SM3 and the GMSSL PRF -----------------------------------------------------------------------

open Spec.TLSPRF in
/-- loop invariant of `pHash`: entering an iteration with `a = A(i+1)`, `result[:j] = res`, the loop
    delivers `res` followed by the first `n - j` bytes of
    `HMAC(secret, A(i+1) ‖ seed) ‖ HMAC(secret, A(i+2) ‖ seed) ‖ …` (any `k` blocks that cover the
    remaining length), provided the fuel covers the remaining length. -/
theorem pHashLoop_spec {hsum : SumImpl} (L : SumLaw hsum) (secret seed : Bytes) (n : Nat) (fuel : Nat) :
    ∀ (i k : Nat) (h : HState) (M res : Bytes), Keyed secret h M →
      n - res.length ≤ fuel → n - res.length ≤ 32 * k →
      pHashLoopG hsum n seed fuel h (aSeq secret seed (i + 1)) res
        = res ++ (((List.range k).map fun t =>
            Spec.HMAC.hmacSM3 secret (aSeq secret seed (i + t + 1) ++ seed)).flatten).take (n - res.length) := by
  induction fuel with
  | zero =>
    intro i k h M res _ hf _
    have : n - res.length = 0 := by omega
    simp [pHashLoopG, this]
  | succ fuel ih =>
    intro i k h M res K hf hk
    rw [pHashLoopG]
    by_cases hlt : res.length < n
    · simp only [hlt, if_true]
      -- b := HMAC(secret, a ‖ seed)
      have S1 := sumG_spec L (keyed_write (keyed_write (keyed_reset K) (aSeq secret seed (i + 1))) seed) []
      generalize sumG hsum (writeH (writeH (resetH h) (aSeq secret seed (i + 1))) seed) [] = r1 at S1 ⊢
      obtain ⟨h1, b⟩ := r1
      obtain ⟨hb, K1⟩ := S1
      simp only [List.nil_append] at hb
      simp only at hb K1 ⊢
      -- a := HMAC(secret, a)
      have S2 := sumG_spec L (keyed_write (keyed_reset K1) (aSeq secret seed (i + 1))) []
      generalize sumG hsum (writeH (resetH h1) (aSeq secret seed (i + 1))) [] = r2 at S2 ⊢
      obtain ⟨h2, a2⟩ := r2
      obtain ⟨ha2, K2⟩ := S2
      simp only [List.nil_append] at ha2
      simp only at ha2 K2 ⊢
      have ha2' : a2 = aSeq secret seed (i + 1 + 1) := by rw [ha2]; rfl
      have hbl : b.length = 32 := by rw [hb]; exact hmacSM3_length _ _
      -- k ≥ 1
      obtain ⟨k', rfl⟩ : ∃ k', k = k' + 1 := ⟨k - 1, by omega⟩
      rw [List.range_succ_eq_map, List.map_cons, List.flatten_cons, List.map_map]
      simp only [Nat.add_zero]
      rw [← hb, ha2']
      by_cases hov : res.length + b.length > n
      · -- last, partial block
        simp only [hov, if_true]
        have hrl : (res ++ List.take (n - res.length) b).length = n := by
          rw [List.length_append, List.length_take]; omega
        rw [ih (i + 1) 0 h2 _ _ K2 (by omega) (by omega)]
        rw [hrl, Nat.sub_self, List.take_zero, List.append_nil,
          List.take_append_of_le_length (by omega)]
      · -- a whole block
        simp only [hov, if_false]
        have hrl : (res ++ List.take b.length b).length = res.length + 32 := by
          rw [List.take_length, List.length_append, hbl]
        rw [ih (i + 1) k' h2 _ _ K2 (by omega) (by omega)]
        rw [hrl, List.take_length, List.take_append, List.take_of_length_le (by omega : b.length ≤ n - res.length),
          List.append_assoc, hbl]
        have e : ∀ t : Nat, i + 1 + t + 1 = i + (Nat.succ t) + 1 := by intro t; omega
        simp only [e, Function.comp_def, Nat.sub_sub]
    · have : n - res.length = 0 := by omega
      simp [hlt, this]

/-- `pHash_eq_of_law`: for any `Sum` obeying the law -/
theorem pHash_eq_of_law {hsum : SumImpl} (L : SumLaw hsum) (n : Nat) (secret seed : Bytes) :
    pHashG hsum n secret seed = Spec.TLSPRF.pHash secret seed n := by
  unfold pHashG
  simp only []
  have S := sumG_spec L (keyed_write (keyed_new L secret) seed) []
  generalize sumG hsum (writeH (newG hsum secret) seed) [] = r at S ⊢
  obtain ⟨h1, a⟩ := r
  obtain ⟨ha, K1⟩ := S
  simp only [List.nil_append] at ha
  simp only at ha K1 ⊢
  have ha' : a = Spec.TLSPRF.aSeq secret seed (0 + 1) := by rw [ha]; rfl
  rw [ha', pHashLoop_spec L secret seed n n 0 ((n + 31) / 32) h1 _ [] K1 (by simp) (by simp; omega)]
  simp [Spec.TLSPRF.pHash]

/-- `pHash_eq` — gmtls/prf.go `pHash(result, secret, seed, sm3.New)` fills `result` (of any length `n`,
    including 0 and lengths that are not multiples of 32) with the first `n` bytes of
    `P_SM3(secret, seed) = HMAC(secret, A(1) ‖ seed) ‖ HMAC(secret, A(2) ‖ seed) ‖ …`,
    `A(0) = seed`, `A(i) = HMAC(secret, A(i-1))` (GM/T 0024 6.5 / RFC 5246 5), i.e. `Spec.TLSPRF.pHash`.
    The code keeps ONE HMAC object and alternates Reset/Write/Write/Sum and Reset/Write/Sum on it. -/
theorem pHash_eq (n : Nat) (secret seed : Bytes) :
    Model.HMAC.pHash n secret seed = Spec.TLSPRF.pHash secret seed n :=
  pHash_eq_of_law sumLaw_sum n secret seed

/-- `prfGM_eq` — `prfAndHashForGM() = prf12(sm3.New)` called as `prf(result, secret, label, seed)`
    computes `PRF(secret, label, seed) = P_SM3(secret, label ‖ seed)` truncated to `len(result)`;
    `masterFromPreMasterSecret`, `keysFromMasterSecret` and `finishedHash.*Sum` call it with the
    ASCII labels "master secret", "key expansion", "client finished", "server finished". -/
theorem prfGM_eq (n : Nat) (secret : Bytes) (label : String) (seed : Bytes) :
    prfGM n secret (Spec.TLSPRF.ascii label) seed = Spec.TLSPRF.prf secret label seed n := by
  unfold prfGM prfGMG Spec.TLSPRF.prf
  exact pHash_eq_of_law sumLaw_sum n secret _

/-- the result has exactly `len(result)` bytes: the loop fills the whole buffer -/
theorem pHash_length (n : Nat) (secret seed : Bytes) : (Model.HMAC.pHash n secret seed).length = n := by
  rw [pHash_eq]
  unfold Spec.TLSPRF.pHash
  have hF : ∀ k : Nat, (((List.range k).map fun i =>
      Spec.HMAC.hmacSM3 secret (Spec.TLSPRF.aSeq secret seed (i + 1) ++ seed)).flatten).length = 32 * k := by
    intro k
    induction k with
    | zero => simp
    | succ k ih =>
      rw [List.range_succ, List.map_append, List.flatten_append, List.length_append, ih]
      simp [hmacSM3_length]; omega
  rw [List.length_take, hF]; omega

-- the record MAC --------------------------------------------------------------------------------

theorem macG_spec {hsum : SumImpl} (L : SumLaw hsum) {key : Bytes} {h : HState} {M : Bytes}
    (K : Keyed key h M) (seq header data : Bytes) (extra : Option Bytes) :
    (macG hsum h seq header data extra).2 = Spec.HMAC.hmacSM3 key (seq ++ header ++ data)
    ∧ ∃ M', Keyed key (macG hsum h seq header data extra).1 M' := by
  have S := sumG_spec L (keyed_write (keyed_write (keyed_write (keyed_reset K) seq) header) data) []
  unfold macG
  simp only []
  generalize sumG hsum (writeH (writeH (writeH (resetH h) seq) header) data) [] = r at S ⊢
  obtain ⟨h1, res⟩ := r
  obtain ⟨hres, K1⟩ := S
  simp only [List.nil_append] at hres
  simp only at hres K1 ⊢
  refine ⟨hres, ?_⟩
  cases extra with
  | none => exact ⟨_, K1⟩
  | some e => exact ⟨_, keyed_write K1 e⟩

theorem macRunG_spec {hsum : SumImpl} (L : SumLaw hsum) {key : Bytes} (calls : List MacCall) :
    ∀ (h : HState) (M : Bytes), Keyed key h M →
      macRunG hsum h calls = calls.map fun c => Spec.HMAC.hmacSM3 key (c.seq ++ c.header ++ c.data) := by
  induction calls with
  | nil => intros; rfl
  | cons c cs ih =>
    intro h M K
    obtain ⟨h1, M', K'⟩ := macG_spec L K c.seq c.header c.data c.extra
    simp only [macRunG, List.map_cons, h1, ih _ _ K']

/-- `mac_eq` — gmtls: `m := macSM3(version, key)` (= `tls10MAC{hmac.New(sm3.New, key)}`) and then ANY
    sequence of calls `m.MAC(digestBuf, seq, header, data, extra)` on that one object (one direction
    of a connection): every call returns `HMAC-SM3(key, seq ‖ header ‖ data)` of ITS OWN arguments —
    neither the previous records nor the `extra` bytes written after `Sum` (the constant-time
    filler of `halfConn.decrypt`) leak into the next call, because `MAC` starts with `Reset()`. -/
theorem mac_eq (key : Bytes) (calls : List MacCall) :
    macRun (macNew key) calls = calls.map fun c => Spec.HMAC.hmacSM3 key (c.seq ++ c.header ++ c.data) :=
  macRunG_spec sumLaw_sum calls _ _ (keyed_new sumLaw_sum key)

/-- a single call, from any state the object can be in after earlier calls -/
theorem mac_single (key : Bytes) (earlier : List MacCall) (seq header data : Bytes) (extra : Option Bytes) :
    (macRun (macNew key) (earlier ++ [⟨seq, header, data, extra⟩])).getLast?
      = some (Spec.HMAC.hmacSM3 key (seq ++ header ++ data)) := by
  rw [mac_eq]; simp

/-- `mac_eq_record` — the record-layer model's `Model.Record.mac` (which the C05/C06 record theorems
    and the wire-level driver use, written directly with the specification's HMAC) is what the
    transcribed `tls10MAC.MAC` returns for the sequence number, record header and payload, after any
    earlier records on the same object. -/
theorem mac_eq_record (k : Model.Record.Keys) (earlier : List MacCall) (seq : Nat) (typ : Byte)
    (data : Bytes) (extra : Option Bytes) :
    (macRun (macNew k.mac)
        (earlier ++ [⟨Model.Record.seqBytes seq, Model.Record.header typ data.length, data, extra⟩])).getLast?
      = some (Model.Record.mac k seq typ data) := by
  rw [mac_single]; rfl

-- the dependence on "Sum leaves the state untouched" ---------------------------------------------

/-- the pinned commit's `Sum` violates the law (it writes the prefix into the hash and returns the
    digest alone) -/
theorem sumOld_not_law : ¬ SumLaw sumOld := by
  intro L
  have := L init [] [0x78] inv_init
  have h2 := congrArg (fun r => r.1.length) this
  revert h2
  decide

set_option maxRecDepth 100000 in
/-- `hmac_breaks_with_sumOld` — the same crypto/hmac code over the pinned commit's `(*SM3).Sum`
    (`Model.SM3.sumOld`): after `Write("a"); Sum([]byte{1})` — where the inner `Sum` absorbed the prefix
    byte into the inner hash — a subsequent plain `Sum(nil)` no longer returns HMAC-SM3(key, "a");
    and already the first result is not `prefix ‖ HMAC` (it has 32 bytes, not 33).  So `hmac_eq`
    genuinely depends on `sum_pure`/`sum_prefix`.  (With a nil prefix the old `Sum` happened to be
    harmless, which is why `pHash` and `tls10MAC.MAC`, which only call `Sum(nil)`/`Sum(buf[:0])`,
    worked at the pinned commit while x509's `pbkdf` — `dk = prf.Sum(dk)` — did not:
    `pbkdf_breaks_with_sumOld`.) -/
theorem hmac_breaks_with_sumOld :
    ∃ (key : Bytes) (ops : List Model.HMAC.Op),
      runG sumOld (newG sumOld key) ops ≠ specRun key [] ops ∧
      (runG sumOld (newG sumOld key) ops)[1]? ≠ (specRun key [] ops)[1]? ∧
      ((runG sumOld (newG sumOld key) ops)[0]?.map List.length) ≠ ((specRun key [] ops)[0]?.map List.length) := by
  refine ⟨[], [.write [0x61], .sum [0x01], .sum []], ?_⟩
  have h1 : (runG sumOld (newG sumOld []) [.write [0x61], .sum [0x01], .sum []])[1]?
      ≠ (specRun [] [] [.write [0x61], .sum [0x01], .sum []])[1]? := by decide +kernel
  refine ⟨fun e => h1 (by rw [e]), h1, ?_⟩
  decide +kernel

/-- `pbkdf_breaks_with_sumOld` — x509's `pbkdf` over the pinned commit's `Sum`: as soon as a second
    block is needed (`keyLen > 32`), `dk = prf.Sum(dk)` with a non-empty `dk` goes wrong (here even
    the length: 32 bytes come back where 33 were asked for). -/
theorem pbkdf_breaks_with_sumOld :
    pbkdfG sumOld [] [] 1 33 ≠ Spec.HMAC.pbkdf2SM3 [] [] 1 33 := by
  decide +kernel

-- non-vacuity ------------------------------------------------------------------------------------

/-- HMAC-SM3(key = "", "a") through the object, as printed by Go's
    `hmac.New(sm3.New, nil); Write("a"); Sum(nil)`
    (= a67de75ea199d9b230c09b20b273c7930bbc6dee7730b4910825694a371ce752). -/
example : (sumH (writeH (new []) [0x61]) []).2 =
    [0xa6, 0x7d, 0xe7, 0x5e, 0xa1, 0x99, 0xd9, 0xb2, 0x30, 0xc0, 0x9b, 0x20, 0xb2, 0x73, 0xc7, 0x93,
     0x0b, 0xbc, 0x6d, 0xee, 0x77, 0x30, 0xb4, 0x91, 0x08, 0x25, 0x69, 0x4a, 0x37, 0x1c, 0xe7, 0x52] := by
  decide +kernel

/-- the hypotheses of the generic theorems are satisfiable: `Keyed` holds of a fresh object, also
    for a key longer than the block (which takes the `outer.Write(key); outer.Sum(nil)` branch). -/
example : Keyed (List.replicate 65 0x0b) (new (List.replicate 65 0x0b)) [] := keyed_new sumLaw_sum _

/-- a history with Sum in the middle and a Reset, instance of `hmac_hist_refines` -/
example (key a b c : Bytes) :
    run (new key) [.write a, .sum [0xff], .write b, .sum [], .reset, .write c, .sum []]
      = [[0xff] ++ Spec.HMAC.hmacSM3 key a, Spec.HMAC.hmacSM3 key (a ++ b), Spec.HMAC.hmacSM3 key c] := by
  rw [hmac_hist_refines]; simp [specRun]

/- Evaluated (`#eval`, too slow for the kernel), all confirmed equal on the Go side by the harness ops
   `pbkdfx`, `phashx`, `macx`:
   `toHex (pbkdf [] [] 1 33)` = "311c191a8c3676b7…85e96cf6" (33 bytes, = `pbkdf2SM3 [] [] 1 33`), whereas
   `toHex (pbkdfG sumOld [] [] 1 33)` = "d914a6f642b61fd7…a2375823" (32 bytes; `pbkdf_breaks_with_sumOld`),
   `pbkdf k k 3 70 = Spec.HMAC.pbkdf2SM3 k k 3 70` and `pHash 70 k k = Spec.TLSPRF.pHash k k 70`
   for `k = 01 02 … 20`. -/

end Props.C04HMAC
