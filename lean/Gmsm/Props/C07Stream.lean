/-
C06 / C07 — the protected record layer as a byte STREAM, end to end (`Model.Record`, both suites).

`Props/C07.lean` and `Props/C07CBC.lean` are about ONE record (`decrypt ∘ encrypt = id`, sequence stepping,
the abstract AEAD channel).  This file lifts them to what the property sentences talk about: the byte
stream an application hands to `Conn.Write` and the byte stream the peer's `Conn.Read` returns, through
`Writer.write` (fragmentation, 1/n-1 split, dynamic record sizing, explicit IVs / nonces) and `readAll`
(header checks, `halfConn.decrypt`, alert handling, sticky error) on raw wire bytes.

  A. `write_fragments`, `write_seq`, `writeRecords_fuel`: `Conn.Write(b)` emits the encryptions, under
     consecutive sequence numbers, of non-empty fragments of at most 16384 bytes whose concatenation is `b`
     (first fragment one byte for CBC when `len(b) > 1`); the fuel of the model's loop never runs out.
  B. `stream_preserved`, `stream_prefix`, `record_prefix_delivery`: honest channel — any sequence of writes
     is read back as exactly the concatenation of the writes; a prefix of the records gives a prefix.
  C. `cbc_prefix_delivery` (under the explicit MAC-authenticity hypothesis `MacAuthentic`) and
     `gcm_prefix_delivery` (under `Props.C07.Authentic`): on ARBITRARY wire bytes the receiver delivers a
     prefix of what was sent; `sticky`, `sticky_after_honest`, `rejected_final`: the first rejected record
     ends delivery with alert 20 (bad_record_mac).
  D. `seq_advances_by_one`: the receiver's sequence number advances by exactly one per accepted record,
     nothing else in its state ever changes, and a rejected record changes nothing.

The model is untouched.  Auxiliary definitions made here (`encFrags`, `parse`, `dispatch`, `readAllH`,
`writeMany`) are either plain specifications or are proved equal to the model's functions
(`readAll_eq_readAllH`).  Cryptographic hardness appears only as hypotheses, never as axioms.  Core Lean only.
-/
import Gmsm.Props.C07CBC
namespace Props.C07Stream
open Gmsm Model.Record

/-! ## A. The writer: `Conn.Write` → `writeRecordLocked` -/

/-- the explicit IV (CBC: the next 16 bytes of `Config.Rand`) or explicit nonce (GCM: the 8-byte sequence
    number) that `writeRecordLocked` puts in front of the next record -/
def explicitOf (h : Half) (rand : Bytes) : Bytes :=
  match h.suite with
  | .cbc => rand.take 16
  | .gcm => seqBytes h.seq

/-- what is left of the `Config.Rand` supply after `k` records (CBC consumes 16 bytes per record, GCM none) -/
def randAfter (s : Suite) (k : Nat) (rand : Bytes) : Bytes :=
  match s with
  | .cbc => rand.drop (16 * k)
  | .gcm => rand

/-- SPECIFICATION of the wire image of a list of payload fragments: fragment `i` is encrypted by
    `halfConn.encrypt` as application data (type 23) under sequence number `h.seq + i`, with the explicit
    IV / nonce the writer would use at that point (`encFrags_get` gives the indexed form) -/
def encFrags (h : Half) (rand : Bytes) : List Bytes → List Bytes
  | [] => []
  | f :: fs =>
    (h.encrypt 23 (explicitOf h rand) f).1 ::
      encFrags { h with seq := h.seq + 1 } (randAfter h.suite 1 rand) fs

/-- `halfConn.encrypt` changes nothing in the connection half but the sequence number, which it bumps by one -/
theorem encrypt_snd (h : Half) (typ : Byte) (e p : Bytes) :
    (h.encrypt typ e p).2 = { h with seq := h.seq + 1 } := by
  unfold Half.encrypt
  cases h.suite <;> rfl

/-- `maxPayloadSizeForWrite` always allows at least one byte and never more than 16384 (`maxPlaintext`), and
    touches only the packet counter -/
theorem maxPayload_facts (w : Writer) :
    1 ≤ (maxPayload w).1 ∧ (maxPayload w).1 ≤ 16384 ∧ (maxPayload w).2.half = w.half ∧
    (maxPayload w).2.rand = w.rand ∧ (maxPayload w).2.bytesSent = w.bytesSent := by
  unfold maxPayload
  split
  · simp
  · cases w.half.suite <;> simp only <;> split <;> simp <;> omega

/-- the writer state after one record of total length `n` has been written -/
def afterRecord (w : Writer) (n : Nat) : Writer :=
  { half := { w.half with seq := w.half.seq + 1 }
    bytesSent := w.bytesSent + n
    packetsSent := (maxPayload w).2.packetsSent
    rand := randAfter w.half.suite 1 w.rand }

/-- one iteration of the `for len(data) > 0` loop of `writeRecordLocked` -/
theorem writeRecords_succ (fuel : Nat) (w : Writer) (data : Bytes) (hne : data ≠ []) :
    writeRecords (fuel + 1) w data =
      let m := min data.length (maxPayload w).1
      let r := (w.half.encrypt 23 (explicitOf w.half w.rand) (data.take m)).1
      (r :: (writeRecords fuel (afterRecord w r.length) (data.drop m)).1,
        (writeRecords fuel (afterRecord w r.length) (data.drop m)).2) := by
  obtain ⟨_, _, h3, h4, h5⟩ := maxPayload_facts w
  have hemp : data.isEmpty = false := by cases data <;> simp_all
  rw [writeRecords]
  simp only [hemp, Bool.false_eq_true, if_false]
  rcases hmp : maxPayload w with ⟨mx, w1⟩
  rw [hmp] at h3 h4 h5
  simp only at h3 h4 h5 ⊢
  rcases hw : w.half with ⟨s, k, q⟩
  cases s <;> simp [h3, h4, h5, hw, explicitOf, randAfter, encrypt_snd, afterRecord, hmp]

theorem randAfter_succ (s : Suite) (k : Nat) (rand : Bytes) :
    randAfter s k (randAfter s 1 rand) = randAfter s (k + 1) rand := by
  cases s
  · simp only [randAfter, List.drop_drop]; congr 1; omega
  · rfl

theorem randAfter_zero (s : Suite) (rand : Bytes) : randAfter s 0 rand = rand := by
  cases s <;> simp [randAfter]

/-- total number of wire bytes of a list of records -/
def recLen (rs : List Bytes) : Nat := (rs.map List.length).sum

/-- `writeRecordLocked(applicationData, data)` with any fuel `≥ len(data)`: the records are the encryptions
    of fragments that concatenate to ALL of `data` (so the fuel did not run out), each fragment non-empty and
    at most 16384 bytes; the sequence number advances by the number of records, `bytesSent` by their size -/
theorem writeRecords_spec (fuel : Nat) (w : Writer) (data : Bytes) (hf : data.length ≤ fuel) :
    ∃ fs : List Bytes, fs.flatten = data ∧ (∀ f ∈ fs, 1 ≤ f.length ∧ f.length ≤ 16384) ∧
      (writeRecords fuel w data).1 = encFrags w.half w.rand fs ∧
      (writeRecords fuel w data).2.half = { w.half with seq := w.half.seq + fs.length } ∧
      (writeRecords fuel w data).2.rand = randAfter w.half.suite fs.length w.rand ∧
      (writeRecords fuel w data).2.bytesSent = w.bytesSent + recLen (writeRecords fuel w data).1 := by
  induction fuel generalizing w data with
  | zero =>
    have : data = [] := List.eq_nil_of_length_eq_zero (by omega)
    subst this
    exact ⟨[], rfl, by simp, rfl, rfl, (randAfter_zero _ _).symm, rfl⟩
  | succ fuel ih =>
    by_cases hne : data = []
    · subst hne
      exact ⟨[], rfl, by simp, by simp [writeRecords, encFrags], by simp [writeRecords],
        by simp [writeRecords, randAfter_zero], by simp [writeRecords, recLen]⟩
    · obtain ⟨hm1, hm2, -, -, -⟩ := maxPayload_facts w
      have hpos : 0 < data.length := List.length_pos_iff.mpr hne
      rw [writeRecords_succ fuel w data hne]
      simp only
      generalize hm : min data.length (maxPayload w).1 = m
      have hmpos : 1 ≤ m := by omega
      have hmle : m ≤ 16384 := by omega
      have hmd : m ≤ data.length := by omega
      generalize hw2 : afterRecord w ((w.half.encrypt 23 (explicitOf w.half w.rand) (data.take m)).1).length = w2
      obtain ⟨fs, h1, h2, h3, h4, h5, h6⟩ := ih w2 (data.drop m) (by simp; omega)
      have e1 : w2.half = { w.half with seq := w.half.seq + 1 } := by rw [← hw2]; rfl
      have e2 : w2.rand = randAfter w.half.suite 1 w.rand := by rw [← hw2]; rfl
      have e3 : w2.bytesSent = w.bytesSent + ((w.half.encrypt 23 (explicitOf w.half w.rand) (data.take m)).1).length := by rw [← hw2]; rfl
      refine ⟨data.take m :: fs, ?_, ?_, ?_, ?_, ?_, ?_⟩
      · simp [h1]
      · intro f hfm
        rcases List.mem_cons.mp hfm with rfl | hfm
        · simp; omega
        · exact h2 f hfm
      · rw [h3, e1, e2]; rfl
      · rw [h4, e1]; simp; omega
      · rw [h5, e1, e2]; simp only; exact randAfter_succ _ _ _
      · rw [h6, e3]; simp [recLen]; omega

/-- A `fuel_irrelevant`: the result of the model's write loop does not depend on the fuel as soon as the
    fuel is at least the number of bytes to send (every iteration consumes at least one byte).  `Writer.write`
    always passes `len + 1` (and 2 for the one-byte record), so the loop of the model always runs to
    completion exactly like the unbounded `for` loop in Go. -/
theorem writeRecords_fuel (f1 f2 : Nat) (w : Writer) (data : Bytes)
    (h1 : data.length ≤ f1) (h2 : data.length ≤ f2) :
    writeRecords f1 w data = writeRecords f2 w data := by
  induction f1 generalizing f2 w data with
  | zero =>
    have : data = [] := List.eq_nil_of_length_eq_zero (by omega)
    subst this
    cases f2 <;> simp [writeRecords]
  | succ f1 ih =>
    by_cases hne : data = []
    · subst hne; cases f2 <;> simp [writeRecords]
    · have hpos : 0 < data.length := List.length_pos_iff.mpr hne
      obtain ⟨hm1, -, -, -, -⟩ := maxPayload_facts w
      obtain ⟨g, rfl⟩ : ∃ g, f2 = g + 1 := ⟨f2 - 1, by omega⟩
      rw [writeRecords_succ f1 w data hne, writeRecords_succ g w data hne]
      simp only
      rw [ih g _ _ (by simp; omega) (by simp; omega)]

theorem encFrags_length (h : Half) (rand : Bytes) (fs : List Bytes) :
    (encFrags h rand fs).length = fs.length := by
  induction fs generalizing h rand with
  | nil => rfl
  | cons f fs ih => simp [encFrags, ih]

/-- records of consecutive writes concatenate: the second batch continues at the advanced sequence number
    and `Config.Rand` position -/
theorem encFrags_append (h : Half) (rand : Bytes) (fs gs : List Bytes) :
    encFrags h rand (fs ++ gs) =
      encFrags h rand fs ++
        encFrags { h with seq := h.seq + fs.length } (randAfter h.suite fs.length rand) gs := by
  induction fs generalizing h rand with
  | nil => simp [encFrags, randAfter_zero]
  | cons f fs ih =>
    simp only [List.cons_append, encFrags, ih, List.length_cons, randAfter_succ]
    congr 3
    simp only [Half.mk.injEq, true_and]
    omega

theorem frags_single (fs : List Bytes) (d : Bytes) (hfl : fs.flatten = d) (hd : d.length = 1)
    (hne : ∀ f ∈ fs, 1 ≤ f.length ∧ f.length ≤ 16384) : fs = [d] := by
  cases fs with
  | nil => subst hfl; simp at hd
  | cons f rest =>
    cases rest with
    | nil => simpa using hfl
    | cons g rest =>
      have h1 := (hne f (by simp)).1
      have h2 := (hne g (by simp)).1
      subst hfl
      simp at hd
      omega

theorem frags_nil_iff (fs : List Bytes) (d : Bytes) (hfl : fs.flatten = d)
    (hne : ∀ f ∈ fs, 1 ≤ f.length ∧ f.length ≤ 16384) : fs = [] ↔ d = [] := by
  constructor
  · intro h; subst h; exact hfl.symm
  · intro h
    cases fs with
    | nil => rfl
    | cons f rest =>
      have h1 := (hne f (by simp)).1
      subst hfl
      simp at h
      rw [h.1] at h1
      simp at h1

theorem recLen_append (a b : List Bytes) : recLen (a ++ b) = recLen a + recLen b := by
  simp [recLen]

/-- A `write_fragments` (C06 "deliver every application byte stream in order and unmodified", sender half;
    C07 "the implicit sequence number advances by exactly one per record").  For EVERY writer state and
    EVERY byte string `b`, `Conn.Write(b)` puts on the wire exactly `encFrags w.half w.rand fs` for a list of
    fragments `fs` with
      * `fs.flatten = b` — nothing lost, duplicated or reordered, and the loop fuel sufficed;
      * every fragment non-empty and at most 16384 bytes (`maxPlaintext`);
      * no record at all iff `b` is empty;
      * for the CBC suite and `len(b) > 1` the first record carries exactly the first byte (the 1/n-1 split
        `Conn.Write` does for block ciphers at version ≤ TLS 1.0; GMSSL is 0x0101);
    and afterwards the sequence number is `seq + #records`, the rest of the half (suite, keys) is unchanged,
    `Config.Rand` has been consumed by 16 bytes per CBC record, `bytesSent` grew by the wire size. -/
theorem write_fragments (w : Writer) (b : Bytes) :
    ∃ fs : List Bytes, fs.flatten = b ∧ (∀ f ∈ fs, 1 ≤ f.length ∧ f.length ≤ 16384) ∧
      (fs = [] ↔ b = []) ∧
      (w.half.suite = .cbc → 1 < b.length → fs.head? = some (b.take 1)) ∧
      (w.write b).1 = encFrags w.half w.rand fs ∧
      (w.write b).2.half = { w.half with seq := w.half.seq + fs.length } ∧
      (w.write b).2.rand = randAfter w.half.suite fs.length w.rand ∧
      (w.write b).2.bytesSent = w.bytesSent + recLen (w.write b).1 := by
  rcases (show w.half.suite = .gcm ∨ w.half.suite = .cbc by cases w.half.suite <;> simp) with hs | hs
  · have hw : w.write b = writeRecords (b.length + 1) w b := by simp [Writer.write, hs]
    obtain ⟨fs, h1, h2, h3, h4, h5, h6⟩ := writeRecords_spec (b.length + 1) w b (by omega)
    rw [hw]
    exact ⟨fs, h1, h2, frags_nil_iff fs b h1 h2, fun hc => by simp [hs] at hc, h3, h4, h5, h6⟩
  · by_cases hl : 1 < b.length
    · have hw : w.write b =
          ((writeRecords 2 w (b.take 1)).1 ++
            (writeRecords (b.length + 1) (writeRecords 2 w (b.take 1)).2 (b.drop 1)).1,
           (writeRecords (b.length + 1) (writeRecords 2 w (b.take 1)).2 (b.drop 1)).2) := by
        simp [Writer.write, hs, hl]
      obtain ⟨fs, h1, h2, h3, h4, h5, h6⟩ := writeRecords_spec 2 w (b.take 1) (by simp; omega)
      have hfs : fs = [b.take 1] := frags_single fs _ h1 (by simp; omega) h2
      subst hfs
      generalize writeRecords 2 w (b.take 1) = r1 at *
      obtain ⟨gs, g1, g2, g3, g4, g5, g6⟩ := writeRecords_spec (b.length + 1) r1.2 (b.drop 1) (by simp; omega)
      have hall : ∀ f ∈ (b.take 1 :: gs), 1 ≤ f.length ∧ f.length ≤ 16384 := by
        intro f hf
        rcases List.mem_cons.mp hf with rfl | hf
        · exact h2 _ (by simp)
        · exact g2 f hf
      have hflat : (b.take 1 :: gs).flatten = b := by
        rw [List.flatten_cons, g1, List.take_append_drop]
      refine ⟨b.take 1 :: gs, hflat, hall, frags_nil_iff _ b hflat hall, fun _ _ => rfl, ?_, ?_, ?_, ?_⟩
      · rw [hw]; simp only
        rw [h3, g3, h4, h5]
        exact (encFrags_append w.half w.rand [b.take 1] gs).symm
      · rw [hw]; simp only
        rw [g4, h4]; simp; omega
      · rw [hw]; simp only
        rw [g5, h4, h5]; simp only [List.length_cons, List.length_nil]
        rw [randAfter_succ]
      · rw [hw]; simp only
        rw [g6, h6, recLen_append]; omega
    · have hw : w.write b = writeRecords (b.length + 1) w b := by simp [Writer.write, hs, hl]
      obtain ⟨fs, h1, h2, h3, h4, h5, h6⟩ := writeRecords_spec (b.length + 1) w b (by omega)
      rw [hw]
      exact ⟨fs, h1, h2, frags_nil_iff fs b h1 h2, fun _ h => absurd h hl, h3, h4, h5, h6⟩

/-- A `write_seq`: after `Conn.Write(b)` the writer's sequence number is the old one plus the number of
    records written (exactly one per record), suite and keys are unchanged, and `bytesSent` has grown by the
    total length of the records. -/
theorem write_seq (w : Writer) (b : Bytes) :
    (w.write b).2.half = { w.half with seq := w.half.seq + (w.write b).1.length } ∧
    (w.write b).2.bytesSent = w.bytesSent + recLen (w.write b).1 := by
  obtain ⟨fs, -, -, -, -, h3, h4, -, h6⟩ := write_fragments w b
  rw [h3, encFrags_length]
  exact ⟨h4, by rw [← h3]; exact h6⟩

/-! ## Records on the wire: header, body, `decrypt ∘ encrypt` -/

theorem header_length (typ : Byte) (n : Nat) : (header typ n).length = 5 := by
  simp [header, be16, i2ospR_length]

/-- the five header bytes `type ‖ 0x0101 ‖ len` are read back by `readRecord` as written (len < 2^16) -/
theorem header_parse (typ : Byte) (n : Nat) (hn : n < 65536) (tail : Bytes) :
    (header typ n ++ tail).getD 0 0 = typ ∧
    ((header typ n ++ tail).getD 1 0).toNat * 256 + ((header typ n ++ tail).getD 2 0).toNat = 0x0101 ∧
    ((header typ n ++ tail).getD 3 0).toNat * 256 + ((header typ n ++ tail).getD 4 0).toNat = n ∧
    (header typ n ++ tail).length = 5 + tail.length ∧
    (header typ n ++ tail).drop 5 = tail := by
  have e : header typ n = [typ, 0x01, 0x01, BitVec.ofNat 8 (n / 256), BitVec.ofNat 8 n] := by
    simp [header, be16, i2ospR]
  rw [e]
  refine ⟨rfl, ?_, ?_, by simp; omega, rfl⟩
  · simp only [List.cons_append, List.getD_cons_succ, List.getD_cons_zero]; decide
  · simp only [List.cons_append, List.getD_cons_succ, List.getD_cons_zero, BitVec.toNat_ofNat]
    omega

/-- an accepted record advances the receiver's state by exactly one sequence number and changes nothing else;
    a rejected record leaves it untouched -/
theorem decrypt_snd (h : Half) (typ : Byte) (body : Bytes) :
    (∀ d, (h.decrypt typ body).1 = some d → (h.decrypt typ body).2 = { h with seq := h.seq + 1 }) ∧
    ((h.decrypt typ body).1 = none → (h.decrypt typ body).2 = h) := by
  unfold Half.decrypt
  cases h.suite <;> simp only <;> (repeat' split) <;> simp_all

/-- the body (everything after the 5-byte header) of the record `halfConn.encrypt` produces -/
def encBody (h : Half) (typ : Byte) (e p : Bytes) : Bytes := (h.encrypt typ e p).1.drop 5

/-- the record `halfConn.encrypt` produces is a header announcing exactly the length of the body, then the body -/
theorem encrypt_shape (h : Half) (typ : Byte) (e p : Bytes) :
    (h.encrypt typ e p).1 = header typ (encBody h typ e p).length ++ encBody h typ e p := by
  unfold encBody Half.encrypt
  cases h.suite
  · simp only
    rw [List.append_assoc, List.drop_left' (header_length _ _)]
    simp
  · have hl := Props.C12.ae_lengths (Spec.SM4.encrypt h.keys.key) (Props.C05.enc_length h.keys.key)
      (h.keys.iv ++ e) p (aad h.seq typ p.length)
    rcases hct : Spec.GCM.ae (Spec.SM4.encrypt h.keys.key) (h.keys.iv ++ e) p (aad h.seq typ p.length) with ⟨c, t⟩
    rw [hct] at hl
    simp only at hl ⊢
    rw [List.append_assoc, List.append_assoc, List.drop_left' (header_length _ _)]
    simp [hl.2, Nat.add_assoc]

/-- the body of an honest record never exceeds `maxCiphertext = 16384 + 2048` (it is at most 16384 + 64) -/
theorem encBody_length (h : Half) (typ : Byte) (e p : Bytes) :
    (encBody h typ e p).length =
      match h.suite with
      | .cbc => e.length + (cbcEncAll h.keys.key e (padCBC (p ++ mac h.keys h.seq typ p))).length
      | .gcm => e.length + p.length + 16 := by
  unfold encBody Half.encrypt
  cases h.suite
  · simp only
    rw [List.append_assoc, List.drop_left' (header_length _ _)]
    simp
  · have hl := Props.C12.ae_lengths (Spec.SM4.encrypt h.keys.key) (Props.C05.enc_length h.keys.key)
      (h.keys.iv ++ e) p (aad h.seq typ p.length)
    rcases hct : Spec.GCM.ae (Spec.SM4.encrypt h.keys.key) (h.keys.iv ++ e) p (aad h.seq typ p.length) with ⟨c, t⟩
    rw [hct] at hl
    simp only at hl ⊢
    rw [List.append_assoc, List.append_assoc, List.drop_left' (header_length _ _)]
    simp [hl.1, hl.2]; omega

/-- explicit IV / nonce of the right size: 16 bytes (CBC), 8 bytes (GCM) -/
def ExplicitOK (s : Suite) (e : Bytes) : Prop :=
  match s with
  | .cbc => e.length = 16
  | .gcm => e.length = 8

theorem encBody_le (h : Half) (typ : Byte) (e p : Bytes) (he : ExplicitOK h.suite e) (hp : p.length ≤ 16384) :
    (encBody h typ e p).length ≤ 16384 + 64 := by
  rw [encBody_length]
  rcases h with ⟨s, k, q⟩
  cases s
  · simp only [ExplicitOK] at he ⊢
    have hm := Props.C07.mac_length k q typ p
    have h1 := Props.C07.padCBC_length (p ++ mac k q typ p)
    have h2 := (Props.C07.cbc_all_inv k.key e _ he (Props.C07.padCBC_mod (p ++ mac k q typ p))).2
    rw [h2, h1, he]; simp [hm]; omega
  · simp only [ExplicitOK] at he ⊢
    omega

/-- `decrypt ∘ encrypt` for both suites, with the receiver state -/
theorem decrypt_encBody (h : Half) (typ : Byte) (e p : Bytes) (he : ExplicitOK h.suite e) :
    h.decrypt typ (encBody h typ e p) = (some p, { h with seq := h.seq + 1 }) := by
  have h1 : (h.decrypt typ (encBody h typ e p)).1 = some p := by
    rcases h with ⟨s, k, q⟩
    cases s
    · exact Props.C07.decrypt_encrypt_cbc k q typ e p he
    · exact Props.C07.decrypt_encrypt_gcm k q typ e p he
  have h2 := (decrypt_snd h typ (encBody h typ e p)).1 p h1
  exact Prod.ext h1 h2

/-! ## The reader `readAll`, restructured (and proved equal to the model) -/

/-- bytes 1–2 of the record header (version) as `readRecord` computes them -/
def hdrVers (wire : Bytes) : Nat := (wire.getD 1 0).toNat * 256 + (wire.getD 2 0).toNat
/-- bytes 3–4 of the record header (length) as `readRecord` computes them -/
def hdrLen (wire : Bytes) : Nat := (wire.getD 3 0).toNat * 256 + (wire.getD 4 0).toNat

/-- the part of `readAll` after `halfConn.decrypt` (copied verbatim from the model; `readAll_succ` is `rfl`) -/
def afterDecrypt (fuel : Nat) (warn : Nat) (typ : Byte) (rest : Bytes) : Option Bytes × Half → Bytes × Status
  | (none, _) => ([], .alert 20)
  | (some data, h') =>
          if data.length > 16384 then ([], .alert 22)
          else
            let warn := if typ ≠ 21 ∧ data.length > 0 then 0 else warn
            if typ = 23 then
              let (more, st) := readAll fuel h' warn rest
              (data ++ more, st)
            else if typ = 21 then
              if data.length ≠ 2 then ([], .alert 10)
              else if data.getD 1 0 = 0 then ([], .eof)                 -- close_notify
              else if data.getD 0 0 = 1 then                              -- warning: dropped
                if warn + 1 > 5 then ([], .alert 10) else readAll fuel h' (warn + 1) rest
              else if data.getD 0 0 = 2 then ([], .remote (data.getD 1 0).toNat)
              else ([], .alert 10)
            else if typ = 20 then ([], .alert 10)                         -- CCS after the handshake
            else if typ = 22 then ([], .alert 100)                        -- handshake data: no renegotiation (server)
            else ([], .alert 10)

/-- unfolding of the model's `readAll` without `let`s; by definition -/
theorem readAll_succ (fuel : Nat) (h : Half) (warn : Nat) (wire : Bytes) :
    readAll (fuel + 1) h warn wire =
      if wire.isEmpty then ([], .eof)
      else if wire.length < 5 then ([], .ueof)
      else if hdrVers wire ≠ 0x0101 then ([], .alert 70)
      else if hdrLen wire > 16384 + 2048 then ([], .alert 22)
      else if wire.length < 5 + hdrLen wire then ([], .ueof)
      else afterDecrypt fuel warn (wire.getD 0 0) (wire.drop (5 + hdrLen wire))
        (h.decrypt (wire.getD 0 0) ((wire.drop 5).take (hdrLen wire))) := by
  rw [readAll]
  rfl
/-- outcome of `readRecord`'s header handling: stop without delivering (EOF at a record boundary, truncated
    header, bad version, oversized, truncated body) or one record: type, body, remaining wire bytes -/
inductive Parsed
  | stop (st : Status)
  | record (typ : Byte) (body rest : Bytes)

/-- `readRecord` up to the call of `halfConn.decrypt`, with the same tests in the same order as `readAll` -/
def parse (wire : Bytes) : Parsed :=
  if wire.isEmpty then .stop .eof
  else if wire.length < 5 then .stop .ueof
  else if hdrVers wire ≠ 0x0101 then .stop (.alert 70)
  else if hdrLen wire > 16384 + 2048 then .stop (.alert 22)
  else if wire.length < 5 + hdrLen wire then .stop .ueof
  else .record (wire.getD 0 0) ((wire.drop 5).take (hdrLen wire)) (wire.drop (5 + hdrLen wire))

theorem readAll_parse (fuel : Nat) (h : Half) (warn : Nat) (wire : Bytes) :
    readAll (fuel + 1) h warn wire =
      match parse wire with
      | .stop st => ([], st)
      | .record typ body rest => afterDecrypt fuel warn typ rest (h.decrypt typ body) := by
  rw [readAll_succ]
  unfold parse
  repeat' split
  all_goals first | rfl | simp_all

/-- what `readRecord` / `Conn.Read` do with an accepted record -/
inductive Next
  | deliver (data : Bytes) (warn : Nat)
  | skip (warn : Nat)
  | halt (st : Status)

/-- the type switch of `readRecord` (with the same tests in the same order as `readAll`) -/
def dispatch (typ : Byte) (data : Bytes) (warn : Nat) : Next :=
  if data.length > 16384 then .halt (.alert 22)
  else
    let warn := if typ ≠ 21 ∧ data.length > 0 then 0 else warn
    if typ = 23 then .deliver data warn
    else if typ = 21 then
      if data.length ≠ 2 then .halt (.alert 10)
      else if data.getD 1 0 = 0 then .halt .eof
      else if data.getD 0 0 = 1 then
        if warn + 1 > 5 then .halt (.alert 10) else .skip (warn + 1)
      else if data.getD 0 0 = 2 then .halt (.remote (data.getD 1 0).toNat)
      else .halt (.alert 10)
    else if typ = 20 then .halt (.alert 10)
    else if typ = 22 then .halt (.alert 100)
    else .halt (.alert 10)

theorem afterDecrypt_dispatch (fuel warn : Nat) (typ : Byte) (rest data : Bytes) (h' : Half) :
    afterDecrypt fuel warn typ rest (some data, h') =
      match dispatch typ data warn with
      | .halt st => ([], st)
      | .deliver d w => (d ++ (readAll fuel h' w rest).1, (readAll fuel h' w rest).2)
      | .skip w => readAll fuel h' w rest := by
  unfold afterDecrypt dispatch
  simp only
  generalize (if typ ≠ 21 ∧ data.length > 0 then 0 else warn) = warn2
  by_cases h1 : data.length > 16384
  · simp only [if_pos h1]
  simp only [if_neg h1]
  by_cases h23 : typ = 23
  · simp only [if_pos h23]
  simp only [if_neg h23]
  by_cases h21 : typ = 21
  · simp only [if_pos h21]
    by_cases c1 : data.length ≠ 2
    · simp only [if_pos c1]
    simp only [if_neg c1]
    by_cases c2 : data.getD 1 0 = 0
    · simp only [if_pos c2]
    simp only [if_neg c2]
    by_cases c3 : data.getD 0 0 = 1
    · simp only [if_pos c3]
      by_cases c4 : warn2 + 1 > 5
      · simp only [if_pos c4]
      · simp only [if_neg c4]
    simp only [if_neg c3]
    by_cases c5 : data.getD 0 0 = 2
    · simp only [if_pos c5]
    · simp only [if_neg c5]
  simp only [if_neg h21]
  by_cases h20 : typ = 20
  · simp only [if_pos h20]
  simp only [if_neg h20]
  by_cases h22 : typ = 22
  · simp only [if_pos h22]
  · simp only [if_neg h22]

/-- a run of the reader with the connection half threaded through: bytes delivered, final status, final
    half, number of records `halfConn.decrypt` accepted, whether the run ended at a rejected record -/
structure Run where
  delivered : Bytes
  status : Status
  half : Half
  accepted : Nat
  rejected : Bool

/-- `readAll` with the connection half made visible (auxiliary; `readAll_eq_readAllH` proves that its
    delivered bytes and status ARE the model's `readAll`) -/
def readAllH : Nat → Half → Nat → Bytes → Run
  | 0, h, _, _ => ⟨[], .eof, h, 0, false⟩
  | fuel+1, h, warn, wire =>
    match parse wire with
    | .stop st => ⟨[], st, h, 0, false⟩
    | .record typ body rest =>
      match h.decrypt typ body with
      | (none, h') => ⟨[], .alert 20, h', 0, true⟩
      | (some data, h') =>
        match dispatch typ data warn with
        | .halt st => ⟨[], st, h', 1, false⟩
        | .deliver d w =>
          let r := readAllH fuel h' w rest
          ⟨d ++ r.delivered, r.status, r.half, r.accepted + 1, r.rejected⟩
        | .skip w =>
          let r := readAllH fuel h' w rest
          ⟨r.delivered, r.status, r.half, r.accepted + 1, r.rejected⟩

/-- D (bridge): the model's `readAll` is the projection of `readAllH` — for all fuel, halves, warning counters
    and wire bytes.  Every statement below about `readAllH` is therefore a statement about the model. -/
theorem readAll_eq_readAllH (fuel : Nat) (h : Half) (warn : Nat) (wire : Bytes) :
    readAll fuel h warn wire = ((readAllH fuel h warn wire).delivered, (readAllH fuel h warn wire).status) := by
  induction fuel generalizing h warn wire with
  | zero => rfl
  | succ fuel ih =>
    rw [readAll_parse, readAllH]
    cases parse wire with
    | stop st => rfl
    | record typ body rest =>
      simp only
      rcases h.decrypt typ body with ⟨_ | data, h'⟩
      · rfl
      · rw [afterDecrypt_dispatch]
        simp only
        cases dispatch typ data warn with
        | halt st => rfl
        | deliver d w => simp only [ih]
        | skip w => simp only [ih]

/-- a well-formed record at the front of the wire is parsed as itself -/
theorem parse_record (typ : Byte) (body rest : Bytes) (hb : body.length ≤ 16384 + 2048) :
    parse (header typ body.length ++ (body ++ rest)) = .record typ body rest := by
  obtain ⟨p0, p1, p2, p3, p4⟩ := header_parse typ body.length (by omega) (body ++ rest)
  unfold parse hdrVers hdrLen
  rw [p1, p2, p3, p0, p4]
  have e1 : (header typ body.length ++ (body ++ rest)).isEmpty = false := by
    cases hh : (header typ body.length ++ (body ++ rest)) with
    | nil => rw [hh] at p3; simp at p3; omega
    | cons _ _ => rfl
  have e2 : (header typ body.length ++ (body ++ rest)).drop (5 + body.length) = rest := by
    rw [← List.drop_drop, p4, List.drop_left]
  rw [e1, e2, List.take_left]
  have c2 : ¬ (5 + (body ++ rest).length < 5) := by omega
  have c4 : ¬ (body.length > 16384 + 2048) := by omega
  have c5 : ¬ (5 + (body ++ rest).length < 5 + body.length) := by simp
  simp only [Bool.false_eq_true, if_false, c2, c4, c5, ne_eq, not_true_eq_false]

theorem dispatch_app (data : Bytes) (warn : Nat) (hd : data.length ≤ 16384) :
    dispatch 23 data warn = .deliver data (if data.length > 0 then 0 else warn) := by
  unfold dispatch
  have c : ¬ data.length > 16384 := by omega
  simp [c]

/-- `Conn.Read`'s warning-alert counter after the application-data records `fs` -/
def warnAfter : Nat → List Bytes → Nat
  | w, [] => w
  | w, f :: fs => warnAfter (if f.length > 0 then 0 else w) fs

/-- enough `Config.Rand` output for `k` explicit IVs (CBC); nothing needed for GCM -/
def RandOK (s : Suite) (k : Nat) (rand : Bytes) : Prop :=
  match s with
  | .cbc => 16 * k ≤ rand.length
  | .gcm => True

theorem explicitOf_ok (h : Half) (rand : Bytes) (k : Nat) (hr : RandOK h.suite (k + 1) rand) :
    ExplicitOK h.suite (explicitOf h rand) ∧ RandOK h.suite k (randAfter h.suite 1 rand) := by
  rcases h with ⟨s, ks, q⟩
  cases s
  · simp only [RandOK, ExplicitOK, explicitOf, randAfter] at hr ⊢
    simp; omega
  · simp only [RandOK, ExplicitOK, explicitOf]
    simp [seqBytes, i2ospR_length]

/-- the reader on honest records followed by ANY bytes `rest`: each record costs one unit of fuel, is
    accepted, its payload is delivered, and reading continues on `rest` at sequence number `seq + #records` -/
theorem readAllH_encFrags (fs : List Bytes) (h : Half) (rand : Bytes) (warn fuel : Nat) (rest : Bytes)
    (hlen : ∀ f ∈ fs, f.length ≤ 16384) (hr : RandOK h.suite fs.length rand) :
    readAllH (fs.length + fuel) h warn ((encFrags h rand fs).flatten ++ rest) =
      ⟨fs.flatten ++ (readAllH fuel { h with seq := h.seq + fs.length } (warnAfter warn fs) rest).delivered,
       (readAllH fuel { h with seq := h.seq + fs.length } (warnAfter warn fs) rest).status,
       (readAllH fuel { h with seq := h.seq + fs.length } (warnAfter warn fs) rest).half,
       (readAllH fuel { h with seq := h.seq + fs.length } (warnAfter warn fs) rest).accepted + fs.length,
       (readAllH fuel { h with seq := h.seq + fs.length } (warnAfter warn fs) rest).rejected⟩ := by
  induction fs generalizing h rand warn with
  | nil => simp [encFrags, warnAfter]
  | cons f fs ih =>
    obtain ⟨he, hr'⟩ := explicitOf_ok h rand fs.length hr
    have hf : f.length ≤ 16384 := hlen f (by simp)
    have hble := encBody_le h 23 (explicitOf h rand) f he hf
    have e : (encFrags h rand (f :: fs)).flatten ++ rest =
        header 23 (encBody h 23 (explicitOf h rand) f).length ++ (encBody h 23 (explicitOf h rand) f ++
          ((encFrags { h with seq := h.seq + 1 } (randAfter h.suite 1 rand) fs).flatten ++ rest)) := by
      rw [encFrags, List.flatten_cons, encrypt_shape]
      simp only [List.append_assoc]
    have efuel : (f :: fs).length + fuel = (fs.length + fuel) + 1 := by simp; omega
    rw [e, efuel, readAllH, parse_record _ _ _ (by omega)]
    simp only
    rw [decrypt_encBody h 23 _ f he]
    simp only
    rw [dispatch_app f warn hf]
    simp only
    rw [ih { h with seq := h.seq + 1 } (randAfter h.suite 1 rand) _ (fun x hx => hlen x (by simp [hx])) hr']
    simp only [warnAfter, List.flatten_cons, List.append_assoc, List.length_cons, Run.mk.injEq]
    have : h.seq + 1 + fs.length = h.seq + (fs.length + 1) := by omega
    simp only [this, true_and]
    exact ⟨by omega, trivial⟩

theorem readAllH_nil (fuel : Nat) (h : Half) (warn : Nat) :
    readAllH fuel h warn [] = ⟨[], .eof, h, 0, false⟩ := by
  cases fuel <;> rfl

/-- successive `Conn.Write` calls: all records, in order, and the final writer state -/
def writeMany : Writer → List Bytes → List Bytes × Writer
  | w, [] => ([], w)
  | w, b :: bs => ((w.write b).1 ++ (writeMany (w.write b).2 bs).1, (writeMany (w.write b).2 bs).2)

theorem writeMany_append (w : Writer) (as bs : List Bytes) :
    writeMany w (as ++ bs) =
      ((writeMany w as).1 ++ (writeMany (writeMany w as).2 bs).1, (writeMany (writeMany w as).2 bs).2) := by
  induction as generalizing w with
  | nil => simp [writeMany]
  | cons a as ih => simp [writeMany, ih]

/-- `write_fragments` for a whole sequence of writes -/
theorem writeMany_spec (w : Writer) (bs : List Bytes) :
    ∃ fs : List Bytes, fs.flatten = bs.flatten ∧ (∀ f ∈ fs, 1 ≤ f.length ∧ f.length ≤ 16384) ∧
      (writeMany w bs).1 = encFrags w.half w.rand fs ∧
      (writeMany w bs).2.half = { w.half with seq := w.half.seq + fs.length } ∧
      (writeMany w bs).2.rand = randAfter w.half.suite fs.length w.rand ∧
      (writeMany w bs).2.bytesSent = w.bytesSent + recLen (writeMany w bs).1 := by
  induction bs generalizing w with
  | nil => exact ⟨[], rfl, by simp, rfl, rfl, (randAfter_zero _ _).symm, rfl⟩
  | cons b bs ih =>
    obtain ⟨fs, h1, h2, -, -, h3, h4, h5, h6⟩ := write_fragments w b
    obtain ⟨gs, g1, g2, g3, g4, g5, g6⟩ := ih (w.write b).2
    refine ⟨fs ++ gs, by simp [h1, g1], ?_, ?_, ?_, ?_, ?_⟩
    · intro f hf
      rcases List.mem_append.mp hf with hf | hf
      · exact h2 f hf
      · exact g2 f hf
    · simp only [writeMany]
      rw [h3, g3, h4, h5, encFrags_append]
    · simp only [writeMany]
      rw [g4, h4]; simp; omega
    · simp only [writeMany]
      rw [g5, h4, h5]; simp only
      cases w.half.suite
      · simp only [randAfter, List.drop_drop, List.length_append]; congr 1; omega
      · rfl
    · simp only [writeMany]
      rw [g6, h6, recLen_append]; omega

theorem frags_count_le (fs : List Bytes) (hne : ∀ f ∈ fs, 1 ≤ f.length ∧ f.length ≤ 16384) :
    fs.length ≤ fs.flatten.length := by
  induction fs with
  | nil => simp
  | cons f fs ih =>
    have h1 := (hne f (by simp)).1
    have h2 := ih (fun x hx => hne x (by simp [hx]))
    rw [List.flatten_cons, List.length_append, List.length_cons]; omega

/-- one record per byte at most: a writer never produces more records than it is given bytes -/
theorem writeMany_count_le (w : Writer) (bs : List Bytes) :
    (writeMany w bs).1.length ≤ bs.flatten.length := by
  obtain ⟨fs, h1, h2, h3, -⟩ := writeMany_spec w bs
  rw [h3, encFrags_length, ← h1]
  exact frags_count_le fs h2

theorem RandOK_mono (s : Suite) (k k' : Nat) (rand : Bytes) (hk : k' ≤ k) (h : RandOK s k rand) :
    RandOK s k' rand := by
  cases s
  · simp only [RandOK] at h ⊢; omega
  · trivial

/-- B with the receiver state: after reading everything the receiver's half EQUALS the writer's half (same
    sequence number — the two ends stay in step, so the statement composes over further writes), every
    record was accepted and none rejected -/
theorem stream_preserved_run (w : Writer) (bs : List Bytes)
    (hrand : RandOK w.half.suite (writeMany w bs).1.length w.rand)
    (fuel : Nat) (hfuel : (writeMany w bs).1.length ≤ fuel) (warn : Nat) :
    (readAllH fuel w.half warn (writeMany w bs).1.flatten).delivered = bs.flatten ∧
    (readAllH fuel w.half warn (writeMany w bs).1.flatten).status = .eof ∧
    (readAllH fuel w.half warn (writeMany w bs).1.flatten).half = (writeMany w bs).2.half ∧
    (readAllH fuel w.half warn (writeMany w bs).1.flatten).accepted = (writeMany w bs).1.length ∧
    (readAllH fuel w.half warn (writeMany w bs).1.flatten).rejected = false := by
  obtain ⟨fs, h1, h2, h3, h4, -, -⟩ := writeMany_spec w bs
  rw [h3, encFrags_length] at hrand hfuel
  rw [h3, h4, encFrags_length]
  obtain ⟨g, rfl⟩ : ∃ g, fuel = fs.length + g := ⟨fuel - fs.length, by omega⟩
  have := readAllH_encFrags fs w.half w.rand warn g [] (fun f hf => (h2 f hf).2) hrand
  rw [List.append_nil] at this
  rw [this, readAllH_nil]
  simp [h1]

/-- B `stream_preserved` (C06: "deliver every application byte stream in order and unmodified"; the model is
    symmetric, so this is both directions).  A receiver half synchronised with the writer (same suite, keys,
    sequence number) that is fed the concatenation of all records of the successive writes `bs` — each of any
    length, empty ones included — delivers exactly `bs.flatten` and ends with a clean EOF.
    Hypotheses, all necessary in the model: (CBC only) `Config.Rand` yields 16 bytes for each record,
    `16 * #records ≤ len(rand)`; fuel at least the number of records (NOT `+ 1`: `readAll 0 … = ([], eof)`).
    NOT needed: key sizes (`Spec.SM4` is total and `decrypt ∘ encrypt = id` holds for every key, C05), a
    bound on the record count (the model's `seq` is an unbounded `Nat`; only its 8-byte encoding wraps). -/
theorem stream_preserved (h : Half) (w : Writer) (bs : List Bytes)
    (hsuite : h.suite = w.half.suite) (hkeys : h.keys = w.half.keys) (hseq : h.seq = w.half.seq)
    (hrand : RandOK w.half.suite (writeMany w bs).1.length w.rand)
    (fuel : Nat) (hfuel : (writeMany w bs).1.length ≤ fuel) (warn : Nat) :
    readAll fuel h warn (writeMany w bs).1.flatten = (bs.flatten, .eof) := by
  have hh : h = w.half := by
    rcases h with ⟨a, b, c⟩
    rcases hw : w.half with ⟨a', b', c'⟩
    rw [hw] at hsuite hkeys hseq
    simp only at hsuite hkeys hseq
    rw [hsuite, hkeys, hseq]
  subst hh
  obtain ⟨r1, r2, -⟩ := stream_preserved_run w bs hrand fuel hfuel warn
  rw [readAll_eq_readAllH, r1, r2]

/-- B with hypotheses that can be checked without running the writer: at most one record per byte, so
    `16 * (total bytes)` of `Config.Rand` and fuel `total bytes` suffice -/
theorem stream_preserved_simple (w : Writer) (bs : List Bytes)
    (hrand : w.half.suite = .cbc → 16 * bs.flatten.length ≤ w.rand.length) (warn : Nat) :
    readAll bs.flatten.length w.half warn (writeMany w bs).1.flatten = (bs.flatten, .eof) := by
  have hc := writeMany_count_le w bs
  refine stream_preserved w.half w bs rfl rfl rfl ?_ _ hc warn
  cases hs : w.half.suite
  · have := hrand hs
    simp only [RandOK]; omega
  · trivial

/-- B `stream_prefix`: the records of the first `j` writes are a prefix of all records, and feeding only
    them delivers exactly the first `j` writes -/
theorem stream_prefix (h : Half) (w : Writer) (bs : List Bytes) (j : Nat)
    (hsuite : h.suite = w.half.suite) (hkeys : h.keys = w.half.keys) (hseq : h.seq = w.half.seq)
    (hrand : RandOK w.half.suite (writeMany w bs).1.length w.rand) :
    (writeMany w (bs.take j)).1 <+: (writeMany w bs).1 ∧
    ∀ fuel warn, (writeMany w (bs.take j)).1.length ≤ fuel →
      readAll fuel h warn (writeMany w (bs.take j)).1.flatten = ((bs.take j).flatten, .eof) := by
  have hsplit := writeMany_append w (bs.take j) (bs.drop j)
  rw [List.take_append_drop] at hsplit
  have hpre : (writeMany w (bs.take j)).1 <+: (writeMany w bs).1 := by
    rw [hsplit]; exact List.prefix_append _ _
  refine ⟨hpre, fun fuel warn hf => ?_⟩
  exact stream_preserved h w (bs.take j) hsuite hkeys hseq
    (RandOK_mono _ _ _ _ hpre.length_le hrand) fuel hf warn

/-! ## D. Sequence numbers on the receiving side; sticky error -/

/-- D `seq_advances_by_one` (C07 "the implicit sequence number advances by exactly one per record in each
    direction", receiver side; `write_seq` is the sender side).  Whatever the wire bytes: the half the reader
    ends with is the half it started with, with the sequence number advanced by exactly the number of
    records `halfConn.decrypt` accepted — suite and keys never change, and a rejected record (which ends the
    run, `accepted` not counting it) leaves the state untouched.  The single step is `decrypt_snd`. -/
theorem seq_advances_by_one (fuel : Nat) (h : Half) (warn : Nat) (wire : Bytes) :
    (readAllH fuel h warn wire).half = { h with seq := h.seq + (readAllH fuel h warn wire).accepted } := by
  induction fuel generalizing h warn wire with
  | zero => rfl
  | succ fuel ih =>
    rw [readAllH]
    cases parse wire with
    | stop st => rfl
    | record typ body rest =>
      simp only
      have hs := decrypt_snd h typ body
      rcases hd : h.decrypt typ body with ⟨_ | data, h'⟩
      · rw [hd] at hs
        simp only
        exact hs.2 rfl
      · rw [hd] at hs
        have e := hs.1 data rfl
        simp only at e
        subst e
        simp only
        cases dispatch typ data warn with
        | halt st => rfl
        | deliver d w => simp only [ih]; simp only [Half.mk.injEq, true_and]; omega
        | skip w => simp only [ih]; simp only [Half.mk.injEq, true_and]; omega

/-- a run that hit a rejected record ends with the fatal alert 20 (bad_record_mac) -/
theorem rejected_final (fuel : Nat) (h : Half) (warn : Nat) (wire : Bytes) :
    (readAllH fuel h warn wire).rejected = true → (readAllH fuel h warn wire).status = .alert 20 := by
  induction fuel generalizing h warn wire with
  | zero => intro hr; simp [readAllH] at hr
  | succ fuel ih =>
    rw [readAllH]
    cases parse wire with
    | stop st => intro hr; simp at hr
    | record typ body rest =>
      simp only
      rcases h.decrypt typ body with ⟨_ | data, h'⟩
      · intro _; rfl
      · simp only
        cases dispatch typ data warn with
        | halt st => intro hr; simp at hr
        | deliver d w => exact ih _ _ _
        | skip w => exact ih _ _ _

/-- sticky error: if the first record on the wire is rejected, nothing is delivered whatever follows -/
theorem sticky (fuel : Nat) (h : Half) (warn : Nat) (wire : Bytes) (typ : Byte) (body rest : Bytes)
    (hp : parse wire = .record typ body rest) (hd : (h.decrypt typ body).1 = none) :
    readAll (fuel + 1) h warn wire = ([], .alert 20) ∧ (readAllH (fuel + 1) h warn wire).half = h := by
  have hh := (decrypt_snd h typ body).2 hd
  rw [readAll_eq_readAllH, readAllH, hp]
  simp only
  rcases hdd : h.decrypt typ body with ⟨_ | data, h'⟩
  · rw [hdd] at hh; simp only at hh; subst hh; exact ⟨rfl, rfl⟩
  · rw [hdd] at hd; simp at hd

/-! ## C. Adversarial wire: prefix delivery -/

/-- what `parse` returns really is a piece of the wire: `wire = header ‖ body ‖ rest`, body ≤ 18432 bytes -/
theorem parse_record_inv (wire : Bytes) (typ : Byte) (body rest : Bytes)
    (hp : parse wire = .record typ body rest) :
    body <:+: wire ∧ body.length ≤ 16384 + 2048 ∧ rest <:+ wire ∧
    wire = wire.take 5 ++ body ++ rest := by
  unfold parse at hp
  split at hp
  · cases hp
  split at hp
  · cases hp
  split at hp
  · cases hp
  split at hp
  · cases hp
  split at hp
  · cases hp
  rename_i h1 h2 h3 h4 h5
  injection hp with e1 e2 e3
  subst e2 e3
  refine ⟨?_, ?_, List.drop_suffix _ _, ?_⟩
  · exact List.IsInfix.trans (List.take_prefix _ _).isInfix (List.drop_suffix _ _).isInfix
  · rw [List.length_take]; omega
  · rw [List.append_assoc, ← List.drop_drop, List.take_append_drop, List.take_append_drop]

/-- the application byte stream contained in a list of sent records (type, payload): the payloads of the
    type-23 records, in order -/
def appStream : List (Byte × Bytes) → Bytes
  | [] => []
  | (t, p) :: rs => if t = 23 then p ++ appStream rs else appStream rs

/-- "the receiver accepts nothing but what was sent, where it was sent": any piece of the wire (of at
    most `maxCiphertext` bytes) that `halfConn.decrypt` accepts at a sequence number `seq < 2^64` as a record of
    type `typ` with plaintext `data` is the `seq`-th record the sender sent.  This is DERIVED below from the
    cryptographic hypotheses (`acceptsOnlySent_cbc`, `acceptsOnlySent_gcm`); it is not assumed. -/
def AcceptsOnlySent (suite : Suite) (keys : Keys) (sent : List (Byte × Bytes)) (wire : Bytes) : Prop :=
  ∀ seq typ body data, seq < 2 ^ 64 → body <:+: wire → body.length ≤ 16384 + 2048 →
    ((⟨suite, keys, seq⟩ : Half).decrypt typ body).1 = some data → sent[seq]? = some (typ, data)

theorem AcceptsOnlySent.mono {suite : Suite} {keys : Keys} {sent : List (Byte × Bytes)} {wire wire' : Bytes}
    (h : AcceptsOnlySent suite keys sent wire) (hw : wire' <:+: wire) :
    AcceptsOnlySent suite keys sent wire' :=
  fun seq typ body data h1 h2 h3 h4 => h seq typ body data h1 (List.IsInfix.trans h2 hw) h3 h4

theorem dispatch_deliver_inv (typ : Byte) (data : Bytes) (warn : Nat) (d : Bytes) (w : Nat)
    (h : dispatch typ data warn = .deliver d w) : typ = 23 ∧ d = data := by
  unfold dispatch at h
  simp only at h
  repeat' split at h
  all_goals first | cases h | skip
  all_goals simp_all

theorem dispatch_skip_inv (typ : Byte) (data : Bytes) (warn : Nat) (w : Nat)
    (h : dispatch typ data warn = .skip w) : typ = 21 := by
  unfold dispatch at h
  simp only at h
  repeat' split at h
  all_goals first | cases h | skip
  all_goals simp_all

/-- the suite-independent induction over the reader: if only sent records are accepted, then on any wire
    bytes, with any fuel and warning counter, the bytes delivered are a prefix of the application stream of
    the records sent from the receiver's sequence number on -/
theorem prefix_of_acceptsOnlySent (sent : List (Byte × Bytes)) (fuel : Nat) (h : Half) (warn : Nat) (wire : Bytes)
    (hacc : AcceptsOnlySent h.suite h.keys sent wire) (hseq : h.seq < 2 ^ 64) (hcount : sent.length < 2 ^ 64) :
    (readAllH fuel h warn wire).delivered <+: appStream (sent.drop h.seq) := by
  induction fuel generalizing h warn wire with
  | zero => exact List.nil_prefix
  | succ fuel ih =>
    rw [readAllH]
    cases hp : parse wire with
    | stop st => exact List.nil_prefix
    | record typ body rest =>
      obtain ⟨p1, p2, p3, -⟩ := parse_record_inv wire typ body rest hp
      simp only
      have hs := decrypt_snd h typ body
      rcases hd : h.decrypt typ body with ⟨_ | data, h'⟩
      · exact List.nil_prefix
      · rw [hd] at hs
        have e := hs.1 data rfl
        simp only at e
        subst e
        have hmem := hacc h.seq typ body data hseq p1 p2 (by rw [hd])
        have hlt : h.seq < sent.length := by
          rcases Nat.lt_or_ge h.seq sent.length with hlt | hge
          · exact hlt
          · rw [List.getElem?_eq_none hge] at hmem; cases hmem
        have hdrop : sent.drop h.seq = (typ, data) :: sent.drop (h.seq + 1) := by
          rw [List.getElem?_eq_getElem hlt] at hmem
          injection hmem with hmem
          rw [← hmem]; exact List.drop_eq_getElem_cons hlt
        have ih' := fun w => ih { h with seq := h.seq + 1 } w rest (hacc.mono p3.isInfix)
          (by simp only; omega)
        simp only at ih' ⊢
        cases hdp : dispatch typ data warn with
        | halt st => exact List.nil_prefix
        | deliver d w =>
          obtain ⟨rfl, rfl⟩ := dispatch_deliver_inv typ data warn d w hdp
          simp only
          rw [hdrop, appStream, if_pos rfl]
          exact (List.prefix_append_right_inj _).mpr (ih' w)
        | skip w =>
          have ht := dispatch_skip_inv typ data warn w hdp
          subst ht
          simp only
          rw [hdrop, appStream, if_neg (by decide)]
          exact ih' w

/-- the byte string `tls10MAC.MAC` feeds to HMAC-SM3: seq ‖ type ‖ version ‖ length ‖ payload -/
def macInput (seq : Nat) (typ : Byte) (data : Bytes) : Bytes := seqBytes seq ++ header typ data.length ++ data

/-- `Model.Record.mac` is HMAC-SM3 over `macInput`, by definition -/
theorem mac_eq_hmac (k : Keys) (seq : Nat) (typ : Byte) (data : Bytes) :
    mac k seq typ data = Spec.HMAC.hmacSM3 k.mac (macInput seq typ data) := rfl

/-- the MAC input determines sequence number (below 2^64), type and payload -/
theorem macInput_inj (s i : Nat) (t t' : Byte) (d p : Bytes) (hs : s < 2 ^ 64) (hi : i < 2 ^ 64)
    (h : macInput s t d = macInput i t' p) : s = i ∧ t = t' ∧ d = p := by
  unfold macInput at h
  rw [List.append_assoc, List.append_assoc] at h
  have hl : (seqBytes s).length = (seqBytes i).length := by simp [seqBytes, i2ospR_length]
  obtain ⟨h1, h2⟩ := List.append_inj h hl
  obtain ⟨h3, h4⟩ := List.append_inj h2 (by rw [header_length, header_length])
  refine ⟨Props.C07.seqBytes_inj s i hs hi h1, ?_, h4⟩
  simp only [header, List.cons_append, List.cons.injEq] at h3
  exact h3.1

/-- the sender's MAC log: the HMAC inputs of the records (type, payload) it sent, the first under sequence
    number `i` -/
def macLog : Nat → List (Byte × Bytes) → List Bytes
  | _, [] => []
  | i, (t, p) :: rs => macInput i t p :: macLog (i + 1) rs

theorem mem_macLog (i : Nat) (sent : List (Byte × Bytes)) (m : Bytes) (h : m ∈ macLog i sent) :
    ∃ k t p, sent[k]? = some (t, p) ∧ m = macInput (i + k) t p := by
  induction sent generalizing i with
  | nil => simp [macLog] at h
  | cons r rs ih =>
    rcases r with ⟨t, p⟩
    simp only [macLog, List.mem_cons] at h
    rcases h with h | h
    · exact ⟨0, t, p, rfl, h⟩
    · obtain ⟨k, t', p', h1, h2⟩ := ih (i + 1) h
      refine ⟨k + 1, t', p', by simpa using h1, ?_⟩
      rw [h2]; congr 1; omega

/-- `(data, tag)` is a candidate the receiver could be made to check on this wire: there is a contiguous
    piece `body` of the wire of admissible size (a multiple of 16, between 64 and 18432 bytes) such that
    `data` and the 32-byte `tag` are cut at some offset `n` out of the CBC decryption of `body` under its
    own first block as IV.  No property of the block cipher is used: decryption is just some function. -/
def WireTag (key wire data tag : Bytes) : Prop :=
  ∃ body n, body <:+: wire ∧ body.length % 16 = 0 ∧ 64 ≤ body.length ∧ body.length ≤ 16384 + 2048 ∧
    data = (cbcDecAll key (body.take 16) (body.drop 16)).take n ∧
    tag = ((cbcDecAll key (body.take 16) (body.drop 16)).drop n).take 32

/-- HYPOTHESIS (about the MAC only; EUF-CMA of HMAC-SM3 specialised to this wire): whenever a tag cut from
    the wire verifies, `mac k seq typ data = tag`, for some sequence number below 2^64 and some type, then
    the sender MAC'ed exactly that input — `macInput seq typ data` is in the sender's log. -/
def MacAuthentic (k : Keys) (log : List Bytes) (wire : Bytes) : Prop :=
  ∀ seq typ data tag, seq < 2 ^ 64 → WireTag k.key wire data tag →
    mac k seq typ data = tag → macInput seq typ data ∈ log

/-- what an accepting `halfConn.decrypt` (CBC suite) has checked: size, and the MAC over the returned data -/
theorem decrypt_cbc_inv (k : Keys) (seq : Nat) (typ : Byte) (body data : Bytes)
    (h : ((⟨.cbc, k, seq⟩ : Half).decrypt typ body).1 = some data) :
    body.length % 16 = 0 ∧ 64 ≤ body.length ∧
    ∃ n, data = (cbcDecAll k.key (body.take 16) (body.drop 16)).take n ∧
      mac k seq typ data = ((cbcDecAll k.key (body.take 16) (body.drop 16)).drop n).take 32 := by
  unfold Half.decrypt at h
  by_cases hc : body.length % 16 ≠ 0 ∨ body.length < 64
  · simp only [if_pos hc] at h; cases h
  simp only [if_neg hc] at h
  refine ⟨by omega, by omega, ?_⟩
  generalize cbcDecAll k.key (body.take 16) (body.drop 16) = pt at h ⊢
  rcases hep : extractPadding pt with ⟨toRemove, good⟩
  rw [hep] at h
  simp only at h
  by_cases h32 : pt.length < 32
  · simp only [if_pos h32] at h; cases h
  simp only [if_neg h32] at h
  generalize (if pt.length < 32 + toRemove then 0 else pt.length - 32 - toRemove) = n at h
  by_cases hm : mac k seq typ (pt.take n) = ((pt.drop n).take 32) ∧ good = true
  · rw [if_pos hm] at h
    simp only [Option.some.injEq] at h
    refine ⟨n, h.symm, ?_⟩
    rw [← h]; exact hm.1
  · rw [if_neg hm] at h; cases h

/-- MAC authenticity ⇒ only sent records are accepted (CBC suite) -/
theorem acceptsOnlySent_cbc (k : Keys) (sent : List (Byte × Bytes)) (wire : Bytes)
    (hauth : MacAuthentic k (macLog 0 sent) wire) (hcount : sent.length < 2 ^ 64) :
    AcceptsOnlySent .cbc k sent wire := by
  intro seq typ body data hseq hinf hlen hdec
  obtain ⟨hm, h64, n, hdata, hmac⟩ := decrypt_cbc_inv k seq typ body data hdec
  have hlog := hauth seq typ data _ hseq ⟨body, n, hinf, hm, h64, hlen, hdata, rfl⟩ hmac
  obtain ⟨i, t, p, hi, he⟩ := mem_macLog 0 sent _ hlog
  have hilt : i < sent.length := by
    rcases Nat.lt_or_ge i sent.length with h | h
    · exact h
    · rw [List.getElem?_eq_none h] at hi; cases hi
  obtain ⟨rfl, rfl, rfl⟩ := macInput_inj seq (0 + i) typ t data p hseq (by omega) he
  simpa using hi

/-- C, general form: the sender may have sent records of any types (application data, alerts, …) -/
theorem cbc_prefix_delivery_general (sent : List (Byte × Bytes)) (h : Half) (hs : h.suite = .cbc)
    (hseq : h.seq < 2 ^ 64) (hcount : sent.length < 2 ^ 64) (wire : Bytes)
    (hauth : MacAuthentic h.keys (macLog 0 sent) wire) (fuel warn : Nat) :
    (readAll fuel h warn wire).1 <+: appStream (sent.drop h.seq) := by
  rw [readAll_eq_readAllH]
  exact prefix_of_acceptsOnlySent sent fuel h warn wire
    (by rw [hs]; exact acceptsOnlySent_cbc h.keys sent wire hauth hcount) hseq hcount

/-- the records of a sender that only sent the application-data payloads `ps` -/
def appRecords (ps : List Bytes) : List (Byte × Bytes) := ps.map (fun p => (23, p))

theorem appStream_appRecords_drop (ps : List Bytes) (j : Nat) :
    appStream ((appRecords ps).drop j) = (ps.drop j).flatten := by
  unfold appRecords
  rw [← List.map_drop]
  induction ps.drop j with
  | nil => rfl
  | cons p ps ih => simp only [List.map_cons, appStream, ↓reduceIte, List.flatten_cons, ih]

/-- C `cbc_prefix_delivery` (C07: "no change to the protected byte stream … can make the receiver deliver a
    byte the sender did not send at that position … what the application reads is always a prefix of what
    was written"), SM4-CBC + HMAC-SM3 suite, at the level of `Conn.Read` on ARBITRARY wire bytes: bit flips,
    truncated / extended / reordered / duplicated / deleted / injected records, edited headers, garbage.
    The sender sent the application-data payloads `ps` under sequence numbers 0, 1, 2, … (fewer than 2^64:
    the code panics rather than wrap), the receiver stands at `h.seq`.  Under `MacAuthentic` for this wire,
    for every fuel and warning counter, the bytes delivered are a prefix of `(ps.drop h.seq).flatten`.
    The analogue of `Props.C07.prefix_delivery` (which is about an abstract AEAD and parsed records). -/
theorem cbc_prefix_delivery (ps : List Bytes) (h : Half) (hs : h.suite = .cbc)
    (hseq : h.seq < 2 ^ 64) (hcount : ps.length < 2 ^ 64) (wire : Bytes)
    (hauth : MacAuthentic h.keys (macLog 0 (appRecords ps)) wire) (fuel warn : Nat) :
    (readAll fuel h warn wire).1 <+: (ps.drop h.seq).flatten := by
  rw [← appStream_appRecords_drop]
  exact cbc_prefix_delivery_general (appRecords ps) h hs hseq (by simpa [appRecords] using hcount) wire hauth fuel warn

/-- an accepting `halfConn.decrypt` (GCM suite) is an accepting `Props.C07.sm4gcm` open -/
theorem decrypt_gcm_inv (k : Keys) (seq : Nat) (typ : Byte) (body data : Bytes)
    (h : ((⟨.gcm, k, seq⟩ : Half).decrypt typ body).1 = some data) :
    16 ≤ (body.drop 8).length ∧
    (Props.C07.sm4gcm k.key).dec (k.iv ++ body.take 8) (aad seq typ ((body.drop 8).length - 16)) (body.drop 8) = some data := by
  unfold Half.decrypt at h
  by_cases h8 : body.length < 8
  · simp only [if_pos h8] at h; cases h
  simp only [if_neg h8] at h
  by_cases h16 : (body.drop 8).length < 16
  · simp only [if_pos h16] at h; cases h
  simp only [if_neg h16] at h
  refine ⟨by omega, ?_⟩
  simp only [Props.C07.sm4gcm, if_neg h16]
  rw [List.length_take, Nat.min_eq_left (by omega)] at h
  split at h
  · rename_i p hp
    simp only [Option.some.injEq] at h
    rw [hp, h]
  · cases h

/-- AEAD authenticity ⇒ only sent records are accepted (GCM suite); uses `Props.C07.aad_inj` -/
theorem acceptsOnlySent_gcm (k : Keys) (ps : List Bytes) (wire : Bytes)
    (hauth : Props.C07.Authentic (Props.C07.sm4gcm k.key) (Props.C07.sealLog k.iv 0 ps))
    (hlen : ∀ p ∈ ps, p.length < 2 ^ 16) (hcount : ps.length < 2 ^ 64) :
    AcceptsOnlySent .gcm k (appRecords ps) wire := by
  intro seq typ body data hseq _ hlen' hdec
  obtain ⟨h16, hd⟩ := decrypt_gcm_inv k seq typ body data hdec
  obtain ⟨i, hi, ha, hp⟩ := Props.C07.mem_sealLog k.iv 0 ps _ _ _ (hauth _ _ _ _ hd)
  have hg : ps.getD i [] = ps[i] := by
    simp [List.getD_eq_getElem?_getD, List.getElem?_eq_getElem hi]
  have hmem : ps[i] ∈ ps := List.getElem_mem hi
  rw [hg] at ha hp
  obtain ⟨rfl, rfl, -⟩ := Props.C07.aad_inj seq (0 + i) typ 23 _ _ hseq (by omega)
    (by simp only [List.length_drop]; omega) (hlen _ hmem) ha
  subst hp
  simp [appRecords, List.getElem?_eq_getElem hi]

/-- C `gcm_prefix_delivery`: the same statement for the SM4-GCM suite, on arbitrary wire bytes, under the
    authenticity hypothesis `Props.C07.Authentic` of `Props/C07.lean` for the concrete AEAD
    `Props.C07.sm4gcm` keyed and salted like the connection half (payloads below 2^16 bytes, fewer than
    2^64 records). -/
theorem gcm_prefix_delivery (ps : List Bytes) (h : Half) (hs : h.suite = .gcm)
    (hseq : h.seq < 2 ^ 64) (hcount : ps.length < 2 ^ 64) (hlen : ∀ p ∈ ps, p.length < 2 ^ 16)
    (hauth : Props.C07.Authentic (Props.C07.sm4gcm h.keys.key) (Props.C07.sealLog h.keys.iv 0 ps))
    (wire : Bytes) (fuel warn : Nat) :
    (readAll fuel h warn wire).1 <+: (ps.drop h.seq).flatten := by
  rw [← appStream_appRecords_drop, readAll_eq_readAllH]
  exact prefix_of_acceptsOnlySent (appRecords ps) fuel h warn wire
    (by rw [hs]; exact acceptsOnlySent_gcm h.keys ps wire hauth hlen hcount) hseq
    (by simpa [appRecords] using hcount)

/-- indexed form of `encFrags`: record `i` is fragment `i` encrypted under sequence number `h.seq + i` -/
theorem encFrags_get (h : Half) (rand : Bytes) (fs : List Bytes) (i : Nat) :
    (encFrags h rand fs)[i]? = fs[i]?.map (fun f =>
      (({ h with seq := h.seq + i } : Half).encrypt 23
        (explicitOf { h with seq := h.seq + i } (randAfter h.suite i rand)) f).1) := by
  induction fs generalizing h rand i with
  | nil => simp [encFrags]
  | cons f fs ih =>
    cases i with
    | zero => simp [encFrags, randAfter_zero]
    | succ i =>
      simp only [encFrags, List.getElem?_cons_succ, ih, randAfter_succ]
      have : h.seq + 1 + i = h.seq + (i + 1) := by omega
      simp only [this]

theorem encFrags_take (h : Half) (rand : Bytes) (fs : List Bytes) (n : Nat) :
    (encFrags h rand fs).take n = encFrags h rand (fs.take n) := by
  induction fs generalizing h rand n with
  | nil => simp [encFrags]
  | cons f fs ih =>
    cases n with
    | zero => simp [encFrags]
    | succ n => simp [encFrags, ih]

/-- B, truncation at a record boundary: the first `n` records (any `n`) deliver a prefix of the stream and
    the reader reports a clean EOF — the model, like the code, cannot tell such a truncation from the end
    of the stream unless close_notify is used; it is still a prefix. -/
theorem record_prefix_delivery (w : Writer) (bs : List Bytes) (n : Nat)
    (hrand : RandOK w.half.suite (writeMany w bs).1.length w.rand)
    (fuel : Nat) (hfuel : min n (writeMany w bs).1.length ≤ fuel) (warn : Nat) :
    (readAll fuel w.half warn ((writeMany w bs).1.take n).flatten).1 <+: bs.flatten ∧
    (readAll fuel w.half warn ((writeMany w bs).1.take n).flatten).2 = .eof := by
  obtain ⟨fs, h1, h2, h3, -⟩ := writeMany_spec w bs
  rw [h3, encFrags_length] at hrand hfuel
  rw [h3, encFrags_take, readAll_eq_readAllH]
  have hl : (fs.take n).length = min n fs.length := List.length_take
  obtain ⟨g, hg⟩ : ∃ g, fuel = (fs.take n).length + g := ⟨fuel - (fs.take n).length, by omega⟩
  have := readAllH_encFrags (fs.take n) w.half w.rand warn g []
    (fun f hf => (h2 f (List.mem_of_mem_take hf)).2)
    (RandOK_mono _ _ _ _ (by omega) hrand)
  rw [List.append_nil] at this
  rw [hg, this, readAllH_nil]
  simp only [List.append_nil, and_true]
  rw [← h1]
  conv => rhs; rw [← List.take_append_drop n fs, List.flatten_append]
  exact List.prefix_append _ _

/-- C `sticky` in context (C07: "the first affected record is rejected with a fatal error and nothing is
    delivered after it"): honest records followed by a record the receiver rejects, followed by anything,
    deliver exactly the honest payloads and end with alert 20. -/
theorem sticky_after_honest (fs : List Bytes) (h : Half) (rand : Bytes) (warn fuel : Nat)
    (tail : Bytes) (typ : Byte) (body rest : Bytes)
    (hlen : ∀ f ∈ fs, f.length ≤ 16384) (hr : RandOK h.suite fs.length rand)
    (hp : parse tail = .record typ body rest)
    (hd : (({ h with seq := h.seq + fs.length } : Half).decrypt typ body).1 = none) :
    readAll (fs.length + (fuel + 1)) h warn ((encFrags h rand fs).flatten ++ tail) = (fs.flatten, .alert 20) := by
  have hs := (sticky fuel { h with seq := h.seq + fs.length } (warnAfter warn fs) tail typ body rest hp hd).1
  rw [readAll_eq_readAllH] at hs
  injection hs with hs1 hs2
  rw [readAll_eq_readAllH, readAllH_encFrags fs h rand warn (fuel + 1) tail hlen hr]
  simp only [hs1, hs2, List.append_nil]

/-- the hypothesis `MacAuthentic` is satisfiable: it holds outright for every wire too short to contain a
    CBC record body (the receiver checks no MAC at all) -/
theorem macAuthentic_short (k : Keys) (log : List Bytes) (wire : Bytes) (hw : wire.length < 64) :
    MacAuthentic k log wire := by
  intro seq typ data tag _ ⟨body, n, hinf, _, h64, _⟩ _
  have := hinf.length_le
  omega

/-- the hypothesis is consistent with honest traffic: what the honest sender MAC'ed for its `j`-th record is
    in its log (so the check `decrypt_encBody` shows succeeding on an honest record is a logged one) -/
theorem mem_macLog_of_get (sent : List (Byte × Bytes)) (i j : Nat) (t : Byte) (p : Bytes)
    (h : sent[j]? = some (t, p)) : macInput (i + j) t p ∈ macLog i sent := by
  induction sent generalizing i j with
  | nil => simp at h
  | cons r rs ih =>
    rcases r with ⟨t', p'⟩
    cases j with
    | zero =>
      simp only [List.getElem?_cons_zero, Option.some.injEq, Prod.mk.injEq] at h
      obtain ⟨rfl, rfl⟩ := h
      simp [macLog]
    | succ j =>
      simp only [List.getElem?_cons_succ] at h
      have := ih (i + 1) j h
      simp only [macLog, List.mem_cons]
      right
      have e : i + (j + 1) = i + 1 + j := by omega
      rw [e]; exact this

/-- model artefact: running out of fuel looks like EOF (hence fuel = #records suffices in B) -/
theorem readAll_zero (h : Half) (warn : Nat) (wire : Bytes) : readAll 0 h warn wire = ([], .eof) := rfl

/-- C as a reduction (the contrapositive of `cbc_prefix_delivery`, so that the role of the hypothesis is
    plain): any wire that makes the CBC receiver deliver something that is NOT a prefix of what was sent
    contains an HMAC-SM3 forgery — a `(data, tag)` cut from the wire that verifies under some sequence number
    and type although the sender never MAC'ed that input. -/
theorem cbc_violation_yields_forgery (ps : List Bytes) (h : Half) (hs : h.suite = .cbc)
    (hseq : h.seq < 2 ^ 64) (hcount : ps.length < 2 ^ 64) (wire : Bytes) (fuel warn : Nat)
    (hv : ¬ (readAll fuel h warn wire).1 <+: (ps.drop h.seq).flatten) :
    ∃ seq typ data tag, seq < 2 ^ 64 ∧ WireTag h.keys.key wire data tag ∧
      mac h.keys seq typ data = tag ∧ macInput seq typ data ∉ macLog 0 (appRecords ps) :=
  Classical.byContradiction fun hne =>
    hv (cbc_prefix_delivery ps h hs hseq hcount wire
      (fun seq typ data tag h1 h2 h3 =>
        Classical.byContradiction fun hn => hne ⟨seq, typ, data, tag, h1, h2, h3, hn⟩) fuel warn)

/-! ## Non-vacuity

The crypto (`Spec.SM4`, `Spec.HMAC`) is too heavy for kernel evaluation, so the concrete instances below are
obtained from the theorems (whose hypotheses are checked by `decide`) rather than by `rfl`. -/

def demoKeys : Keys := ⟨List.replicate 32 0x0b, List.replicate 16 0x01, [1, 2, 3, 4]⟩
def demoCBC : Writer := ⟨⟨.cbc, demoKeys, 0⟩, 0, 0, List.replicate 64 0x07⟩
def demoGCM : Writer := ⟨⟨.gcm, demoKeys, 7⟩, 0, 0, []⟩

/-- B, CBC: three writes (one of them empty) come out as the four bytes written, then EOF -/
example : readAll 4 demoCBC.half 0 (writeMany demoCBC [[1, 2, 3], [], [4]]).1.flatten = ([1, 2, 3, 4], .eof) :=
  stream_preserved_simple demoCBC [[1, 2, 3], [], [4]] (fun _ => by decide) 0

/-- B, GCM, receiver and writer both at sequence number 7 -/
example : readAll 4 demoGCM.half 0 (writeMany demoGCM [[1, 2, 3], [], [4]]).1.flatten = ([1, 2, 3, 4], .eof) :=
  stream_preserved_simple demoGCM [[1, 2, 3], [], [4]] (fun h => by cases h) 0

/-- A, CBC: `Write([1,2,3])` is split 1/n-1 — the first fragment is `[1]` -/
example : ∃ fs : List Bytes, fs.flatten = [1, 2, 3] ∧ fs.head? = some [1] ∧
    (demoCBC.write [1, 2, 3]).1 = encFrags demoCBC.half demoCBC.rand fs := by
  obtain ⟨fs, h1, -, -, h4, h5, -⟩ := write_fragments demoCBC [1, 2, 3]
  exact ⟨fs, h1, h4 rfl (by decide), h5⟩

/-- C: the hypotheses of `cbc_prefix_delivery` are jointly satisfiable (a wire carrying an empty record) -/
example : (readAll 9 demoCBC.half 0 [23, 1, 1, 0, 0]).1 <+: ([[1, 2, 3]].drop 0).flatten :=
  cbc_prefix_delivery [[1, 2, 3]] demoCBC.half rfl (by decide) (by decide) [23, 1, 1, 0, 0]
    (macAuthentic_short _ _ _ (by decide)) 9 0

/-- D: a wire that is rejected outright leaves the receiver where it was -/
example : (readAllH 9 demoGCM.half 0 [23, 1, 1, 0, 0]).half.seq = 7 + (readAllH 9 demoGCM.half 0 [23, 1, 1, 0, 0]).accepted := by
  rw [seq_advances_by_one]; rfl

end Props.C07Stream
