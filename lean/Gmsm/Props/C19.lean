/-
C19 — Streaming PKCS#7 padding is independent of how reads and writes are chunked.
Property theorems only (helpers in Gmsm/Proofs/Padding.lean).  `Model.Padding` mirrors the
repaired sm4/padding package.
-/
import Gmsm.Proofs.Padding
namespace Props.C19
open Gmsm Model.Padding Proofs.Padding

/-- a byte string is a prefix of another -/
def IsPrefix (a b : Bytes) : Prop := ∃ t, a ++ t = b

theorem readAll_spec (data : Bytes) (bs : Nat) (hbs : 0 < bs) (reqs : List Nat) (r : Reader) (acc : Bytes)
    (h : RInv data bs r acc) :
    IsPrefix (acc ++ (readAll r reqs).1) (padStream bs data) ∧
    ((readAll r reqs).2 = true → acc ++ (readAll r reqs).1 = padStream bs data) := by
  induction reqs generalizing r acc with
  | nil =>
    simp only [readAll, List.append_nil]
    refine ⟨?_, fun hc => by simp at hc⟩
    by_cases he : r.eof = true
    · obtain ⟨rest, _, hs, _⟩ := h.done he
      exact ⟨rest, hs⟩
    · have he' : r.eof = false := by cases hh : r.eof <;> simp_all
      obtain ⟨hd, _, _, _⟩ := h.live he'
      exact ⟨r.src.data ++ List.replicate (bs - data.length % bs) (BitVec.ofNat 8 (bs - data.length % bs)), by
        rw [← List.append_assoc, hd]; rfl⟩
  | cons L Ls ih =>
    have step := rinv_read data bs hbs r acc L h
    unfold readAll
    generalize hrd : r.read L = res at step
    obtain ⟨r', b, e⟩ := res
    simp only at step ⊢
    by_cases hE : e = Err.eof
    · simp only [hE, if_true]
      have := step.2 hE
      exact ⟨⟨[], by rw [List.append_nil]; exact this⟩, fun _ => this⟩
    · simp only [hE, if_false]
      have := ih r' (acc ++ b) step.1
      simpa [List.append_assoc] using this

/-- T1 `reader_stream`: for every data, block size ≥ 1, every source behaviour (any sequence of short
    reads, zero-byte reads, data returned together with EOF) and every sequence of caller buffer sizes,
    what the padding reader has delivered is always a prefix of `data ‖ pad`, and once it returns
    io.EOF it has delivered exactly `data ‖ pad`. -/
theorem reader_stream (data : Bytes) (bs : Nat) (hbs : 0 < bs) (script : List (Nat × Bool)) (reqs : List Nat) :
    IsPrefix (readAll (newReader ⟨data, script⟩ bs) reqs).1 (padStream bs data) ∧
    ((readAll (newReader ⟨data, script⟩ bs) reqs).2 = true →
      (readAll (newReader ⟨data, script⟩ bs) reqs).1 = padStream bs data) := by
  have := readAll_spec data bs hbs reqs _ [] (rinv_init data bs script)
  simpa using this

/-- what un-padding a whole stream means: the stream must be whole blocks (its length a multiple of
    `bs`) and its last block must end in `k` bytes of value `k`, `1 ≤ k ≤ bs`; the result is the stream
    without them.  (`bs = 0` is the degenerate pass-through of the Go code: nothing is cached.) -/
def unpadStream (bs : Nat) (total : Bytes) : Option Bytes :=
  if total.length < bs then none
  else
    let b := total.drop (total.length - bs)
    if b.length = 0 then some total
    else if total.length % bs ≠ 0 then none
    else
      let k := (b.getLastD 0).toNat
      if k > bs ∨ k = 0 then none
      else if (b.drop (b.length - k)).all (fun c => c.toNat == k) then some (total.take (total.length - k)) else none

/-- T1 `writer_stream`: for every sequence of write sizes (including empty and multi-kilobyte writes)
    the bytes forwarded plus what `Final` emits are exactly the un-padded stream, and `Final` reports an
    error exactly when the stream does not end in a valid pad — independent of the chunking. -/
theorem writer_stream (bs : Nat) (ws : List Bytes) : writeAll bs ws = unpadStream bs ws.flatten := by
  have h := winv_all bs ws [] (newWriter bs) (winv_init bs)
  simp only [List.nil_append] at h
  unfold writeAll Writer.final unpadStream
  generalize ws.foldl Writer.write (newWriter bs) = w at h
  generalize ws.flatten = total at h
  obtain ⟨hb, hc, hl, hn⟩ := h
  rw [hb, hn]
  by_cases hlt : total.length < bs
  · have : w.cache.length ≠ bs := by rw [hl]; omega
    simp [this, hlt]
  · have hcl : w.cache.length = bs := by rw [hl]; omega
    subst hc
    have hlen : (w.out ++ w.cache).length - bs = w.out.length := by
      simp only [List.length_append]; omega
    have hdrop : (w.out ++ w.cache).drop ((w.out ++ w.cache).length - bs) = w.cache := by
      rw [hlen, List.drop_left]
    simp only [hcl, ne_eq, not_true_eq_false, if_false, hlt, hdrop]
    by_cases h0 : bs = 0
    · subst h0
      have : w.cache = [] := List.eq_nil_of_length_eq_zero hcl
      simp [this]
    · simp only [h0, if_false]
      by_cases hm : (w.out ++ w.cache).length % bs = 0
      case neg => simp only [hm, not_false_eq_true, if_true]
      simp only [hm, not_true_eq_false, if_false]
      by_cases hk : (w.cache.getLastD 0).toNat > bs ∨ (w.cache.getLastD 0).toNat = 0
      · simp only [hk, if_true]
      · simp only [hk, if_false]
        have e1 : (w.out ++ w.cache).take ((w.out ++ w.cache).length - (w.cache.getLastD 0).toNat) =
            w.out ++ w.cache.take (bs - (w.cache.getLastD 0).toNat) := by
          have : (w.out ++ w.cache).length - (w.cache.getLastD 0).toNat =
              w.out.length + (bs - (w.cache.getLastD 0).toNat) := by
            simp only [List.length_append]; omega
          rw [this, List.take_length_add_append]
        rw [e1]

theorem getLastD_append_replicate (p : Bytes) (k : Nat) (x : Byte) (hk : 0 < k) :
    (p ++ List.replicate k x).getLastD 0 = x := by
  cases k with
  | zero => omega
  | succ k =>
    rw [List.replicate_succ', ← List.append_assoc]
    simp [List.getLastD_eq_getLast?]

/-- T1: un-padding the padded stream returns the data, for every data and block size 1..255 -/
theorem unpad_padStream (bs : Nat) (h1 : 0 < bs) (h2 : bs ≤ 255) (data : Bytes) :
    unpadStream bs (padStream bs data) = some data := by
  have hm := Nat.mod_lt data.length h1
  let k := bs - data.length % bs
  have hk1 : 0 < k := by simp only [k]; omega
  have hk2 : k ≤ bs := by simp only [k]; omega
  have hlen : (padStream bs data).length = data.length + k := by simp [padStream, k]
  have hknat : (BitVec.ofNat 8 k).toNat = k := by
    simp only [BitVec.toNat_ofNat]; exact Nat.mod_eq_of_lt (by omega)
  unfold unpadStream
  have hge : ¬ (padStream bs data).length < bs := by
    rw [hlen]
    have : data.length = bs * (data.length / bs) + data.length % bs := (Nat.div_add_mod _ _).symm
    simp only [k]; omega
  simp only [hge, if_false]
  have hdl : ((padStream bs data).drop ((padStream bs data).length - bs)).length = bs := by
    rw [List.length_drop]; omega
  have hlast : ((padStream bs data).drop ((padStream bs data).length - bs)).getLastD 0 = BitVec.ofNat 8 k := by
    have hsplit : (padStream bs data).drop ((padStream bs data).length - bs) =
        data.drop (data.length + k - bs) ++ List.replicate k (BitVec.ofNat 8 k) := by
      unfold padStream
      rw [List.drop_append_of_le_length (by simp <;> omega)]
      try simp [k]
    rw [hsplit]
    exact getLastD_append_replicate _ _ _ hk1
  rw [hdl, hlast, hknat]
  have hb0 : ¬ bs = 0 := by omega
  have hkk : ¬ (k > bs ∨ k = 0) := by omega
  simp only [hb0, hkk, if_false]
  have hmod : (padStream bs data).length % bs = 0 := by
    rw [hlen]
    have hd := Nat.div_add_mod data.length bs
    have : data.length + k = bs * (data.length / bs + 1) := by
      rw [Nat.mul_add, Nat.mul_one]; simp only [k]; omega
    rw [this, Nat.mul_mod_right]
  simp only [hmod, ne_eq, not_true_eq_false, if_false]
  have hsub : (padStream bs data).length - k = data.length := by omega
  rw [hsub]
  have htake : (padStream bs data).take data.length = data := by simp [padStream]
  rw [htake]
  have hall : (((padStream bs data).drop ((padStream bs data).length - bs)).drop (bs - k)).all (fun c => c.toNat == k) = true := by
    rw [List.drop_drop]
    have : (padStream bs data).length - bs + (bs - k) = data.length := by omega
    rw [this]
    simp only [padStream, List.drop_left, List.all_replicate]
    simp [hknat, k]
  rw [if_pos hall]

/-- T1 `writer_inverse`: feeding `data ‖ pad` to the writer in any chunking returns `data`. -/
theorem writer_inverse (bs : Nat) (h1 : 0 < bs) (h2 : bs ≤ 255) (data : Bytes) (ws : List Bytes)
    (h : ws.flatten = padStream bs data) : writeAll bs ws = some data := by
  rw [writer_stream, h, unpad_padStream bs h1 h2 data]

/-- T1 `writer_rejects_misaligned` (the repaired behaviour; false for the code as found, see
    `old_writer_accepts_misaligned`): for every block size ≥ 1 and EVERY chunking `ws` — whatever the bytes
    are, in particular when the last `bs` bytes of the stream look like a valid pad — if the total number of
    bytes written is not a multiple of the block size then `Final` reports an error (and emits nothing
    more): the final block of such a stream is a partial block and can never be a valid pad. -/
theorem writer_rejects_misaligned (bs : Nat) (hbs : 0 < bs) (ws : List Bytes)
    (h : ws.flatten.length % bs ≠ 0) : writeAll bs ws = none := by
  rw [writer_stream]
  generalize ws.flatten = total at h
  unfold unpadStream
  by_cases hlt : total.length < bs
  · simp only [hlt, if_true]
  · have hdl : (total.drop (total.length - bs)).length ≠ 0 := by
      rw [List.length_drop]; omega
    simp only [hlt, if_false, hdl, h, ne_eq, not_false_eq_true, if_true]

/-- the same, read the other way: whenever `Final` succeeds, the stream was whole blocks -/
theorem writer_ok_aligned (bs : Nat) (hbs : 0 < bs) (ws : List Bytes) (d : Bytes)
    (h : writeAll bs ws = some d) : ws.flatten.length % bs = 0 := by
  by_cases hm : ws.flatten.length % bs = 0
  · exact hm
  · rw [writer_rejects_misaligned bs hbs ws hm] at h; simp at h

/-- the byte counter of the model is the number of bytes written, for every chunking -/
theorem written_eq_total (bs : Nat) (ws : List Bytes) :
    (ws.foldl Writer.write (newWriter bs)).written = ws.flatten.length := by
  have := (winv_all bs ws [] (newWriter bs) (winv_init bs)).cnt
  simpa using this

/-- cur (code as found, before the repair): `Final` looked only at the sliding window of the last `bs`
    bytes.  Witness: 17 bytes at block size 16 ending in 0x01 — a stream whose final block is ONE byte —
    were accepted and 16 bytes emitted, in one write as well as byte-by-byte-ish chunkings; the repaired
    writer refuses the same input. -/
theorem old_writer_accepts_misaligned :
    writeAllOld 16 [List.replicate 16 0xAA ++ [0x01]] = some (List.replicate 16 0xAA) ∧
    writeAllOld 16 [List.replicate 5 0xAA, [], List.replicate 11 0xAA, [0x01]] = some (List.replicate 16 0xAA) ∧
    writeAllOld 8 [List.replicate 9 0xAA ++ [0x02, 0x02]] = some (List.replicate 9 0xAA) ∧
    writeAll 16 [List.replicate 16 0xAA ++ [0x01]] = none ∧
    writeAll 16 [List.replicate 5 0xAA, [], List.replicate 11 0xAA, [0x01]] = none ∧
    writeAll 8 [List.replicate 9 0xAA ++ [0x02, 0x02]] = none := by decide

/-- on whole-block streams the repair changes nothing: old and new `Final` agree -/
theorem final_eq_old_of_aligned (w : Writer) (h : w.written % w.blockSize = 0) : w.final = w.finalOld := by
  unfold Writer.final Writer.finalOld
  simp [h]

/-- non-vacuity of `writer_rejects_misaligned`: a 17-byte stream in three writes whose tail is a valid-looking pad -/
example : writeAll 16 [List.replicate 7 0x41, List.replicate 9 0x41, [0x01]] = none :=
  writer_rejects_misaligned 16 (by decide) _ (by decide)

/-- … and the aligned neighbours are still accepted: 32 bytes ending in 0x01, 16 bytes of 0x10 -/
example : writeAll 16 [List.replicate 7 0x41, List.replicate 24 0x41, [0x01]] = some (List.replicate 31 0x41) := by decide
example : writeAll 16 [List.replicate 16 0x10] = some [] := by decide

/-- invariant: the writer never caches more than one block (so the forwarding loop is bounded) -/
theorem cache_le_block (bs : Nat) (ws : List Bytes) :
    (ws.foldl Writer.write (newWriter bs)).cache.length ≤ bs := by
  have := (winv_all bs ws [] (newWriter bs) (winv_init bs)).len
  omega

/-- cur (pinned commit): a read shorter than the buffer — with no EOF — made the old reader emit pad
    bytes in the middle of the data.  Witness: block size 16, 3 of 8 requested bytes returned. -/
theorem oldReader_short_read_witness : oldReadShort 16 0 3 8 ≠ [] := by decide

/-- Non-vacuity (a test): a 20-byte stream read 3 bytes at a time from a source that returns 1, 0
    and 7 bytes and its last bytes together with EOF. -/
example : (readAll (newReader ⟨List.replicate 20 0x41, [(1, false), (0, false), (7, true), (100, true)]⟩ 16)
    (List.replicate 20 3)) = (padStream 16 (List.replicate 20 0x41), true) := by decide

end Props.C19
