/-
C03 — The SM2 curve object implements the group law; generated keys lie on it.

This file: the parameter facts (regenerated from sm2/p256.go on every run), primality of p and n
(Pratt certificates, `Gmsm/Proofs/SM2Prime.lean`), G on the curve and of order n, the comb table in the
source decoded from Montgomery limbs equals the multiples of G it is meant to hold, and the key
generation range.  The scalar-multiplication algorithms are in `Props/C03Alg.lean`.
-/
import Gmsm.Spec.SM2
import Gmsm.Gen.SM2Params
import Gmsm.Proofs.SM2Prime
namespace Props.C03
open Spec.SM2

/-- T1 `params_eq_std`: the constants in `initP256Sm2` are the GM/T 0003.5 recommended parameters -/
theorem params_eq_std :
    Gen.SM2.paramP = p ∧ Gen.SM2.paramA = a ∧ Gen.SM2.paramB = b ∧ Gen.SM2.paramN = n ∧
    Gen.SM2.paramGx = gx ∧ Gen.SM2.paramGy = gy := by decide +kernel

/-- the Montgomery constant: RInverse · 2^257 ≡ 1 (mod p) -/
theorem rinverse_ok : Gen.SM2.paramRInverse * 2 ^ 257 % p = 1 := by decide +kernel

/-- T1 `p_prime`, `n_prime` -/
theorem p_prime : Nat.Prime p := Proofs.SM2Prime.p_prime
theorem n_prime : Nat.Prime n := Proofs.SM2Prime.n_prime

/-- a = −3 (mod p): the doubling formula may use the a = −3 shortcut or the general one -/
theorem a_eq_neg3 : (a + 3) % p = 0 := by decide +kernel

/-- T1 `G_on_curve`, `nG_zero`: the base point satisfies the curve equation and [n]G = O -/
theorem G_on_curve : onCurve gx gy = true := by decide +kernel
theorem nG_zero : smul n G = none := by decide +kernel
theorem G_ne_zero : smul 1 G = some (gx, gy) := by decide +kernel

/-- value of a 9-limb field element (limbs of 29, 28, 29, … bits), little endian -/
def limbsVal (l : List Nat) : Nat :=
  (l.zipIdx.map fun (v, i) => v * 2 ^ (29 * ((i + 1) / 2) + 28 * (i / 2))).sum

/-- affine coordinates stored at entry `idx` (1..15) of table `j` (0 or 1) of `sm2P256Precomputed`,
    converted out of Montgomery form -/
def tableEntry (j idx : Nat) : Nat × Nat :=
  let base := j * 270 + (idx - 1) * 18
  let limb (k : Nat) := (Gen.SM2.precomputed.toList.getD (base + k) 0).toNat
  let x := limbsVal ((List.range 9).map limb)
  let y := limbsVal ((List.range 9).map fun k => limb (9 + k))
  (x * Gen.SM2.paramRInverse % p, y * Gen.SM2.paramRInverse % p)

/-- the multiple of G an entry is meant to hold: bit i of `idx` selects 2^(64·i + 32·j) -/
def tableScalar (j idx : Nat) : Nat :=
  ((List.range 4).map fun i => (idx / 2 ^ i % 2) * 2 ^ (64 * i + 32 * j)).sum

/-- T2 `table_ok`: all 30 entries of the comb table in the source are the affine coordinates of the
    multiples of G the comb needs (kernel-evaluated: 30 scalar multiplications). -/
theorem table_ok : ∀ j : Fin 2, ∀ idx : Fin 15,
    enc (smul (tableScalar j.val (idx.val + 1)) G) = tableEntry j.val (idx.val + 1) := by decide +kernel

/-- T1 `genKey` (range): the private key derived from 40 random bytes is in [1, n−2] -/
theorem keygen_range (r : Nat) : 1 ≤ r % (n - 2) + 1 ∧ r % (n - 2) + 1 ≤ n - 2 := by
  have : r % (n - 2) < n - 2 := Nat.mod_lt _ (by decide)
  omega

/-- the signing / encryption nonce derived from 40 random bytes is in [1, n−1] -/
theorem nonce_range (r : Nat) : 1 ≤ r % (n - 1) + 1 ∧ r % (n - 1) + 1 ≤ n - 1 := by
  have : r % (n - 1) < n - 1 := Nat.mod_lt _ (by decide)
  omega

end Props.C03
