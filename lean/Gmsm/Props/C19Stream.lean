/-
C19 (continued) — the two helper loops of sm4/padding/bloc_cryptor.go: `P7BlockEnc` writes the block-mode
encryption of `data ‖ pad` whatever the source's read pattern is, `P7BlockDecrypt` returns the
un-padded decryption (or exactly the two documented errors) whatever the ciphertext source's read
pattern is, and the two compose to the identity.  Model: `Model.P7Block` over `Model.Padding`.
-/
import Gmsm.Model.P7Block
import Gmsm.Props.C19
import Gmsm.Proofs.Modes
import Gmsm.Props.C05
namespace Props.C19Stream
open Gmsm Model.Padding Model.P7Block Proofs.Padding Props.C19 Spec.Modes

-- blocks and CBC chains for any block size ------------------------------------------------------------
theorem blocksN_append (bs n k : Nat) (a b : Bytes) (ha : a.length = bs * n) :
    blocksN bs (n + k) (a ++ b) = blocksN bs n a ++ blocksN bs k b := by
  induction n generalizing a with
  | zero =>
    have : a = [] := List.eq_nil_of_length_eq_zero (by simpa using ha)
    subst this
    simp [blocksN]
  | succ n ih =>
    have h1 : bs ≤ a.length := by rw [ha, Nat.mul_succ]; omega
    rw [Nat.succ_add]
    simp only [blocksN, List.cons_append, List.cons.injEq]
    refine ⟨List.take_append_of_le_length h1, ?_⟩
    rw [List.drop_append_of_le_length h1]
    exact ih (a.drop bs) (by rw [List.length_drop, ha, Nat.mul_succ]; omega)

theorem blocksN_length (bs n : Nat) (b : Bytes) : (blocksN bs n b).length = n := by
  induction n generalizing b with
  | zero => rfl
  | succ n ih => simp [blocksN, ih]

theorem blocksN_flatten (bs n : Nat) (b : Bytes) (h : b.length = bs * n) : (blocksN bs n b).flatten = b := by
  induction n generalizing b with
  | zero => simp [blocksN]; exact List.eq_nil_of_length_eq_zero (by simpa using h)
  | succ n ih =>
    simp only [blocksN, List.flatten_cons]
    rw [ih (b.drop bs) (by rw [List.length_drop, h, Nat.mul_succ]; omega)]
    exact List.take_append_drop bs b

def AllN (bs : Nat) (cs : List Bytes) : Prop := ∀ x ∈ cs, x.length = bs

theorem flatten_lenN (bs : Nat) (cs : List Bytes) (h : AllN bs cs) : cs.flatten.length = bs * cs.length := by
  induction cs with
  | nil => rfl
  | cons c cs ih =>
    have hc : c.length = bs := h c (by simp)
    have hcs : AllN bs cs := fun x hx => h x (by simp [hx])
    simp only [List.flatten_cons, List.length_append, List.length_cons, ih hcs, hc, Nat.mul_succ]
    omega

theorem blocksN_of_flatten (bs : Nat) (cs : List Bytes) (h : AllN bs cs) :
    blocksN bs cs.length cs.flatten = cs := by
  induction cs with
  | nil => rfl
  | cons c cs ih =>
    have hc : c.length = bs := h c (by simp)
    have hcs : AllN bs cs := fun x hx => h x (by simp [hx])
    simp only [List.length_cons, blocksN, List.flatten_cons]
    rw [List.take_left' hc, List.drop_left' hc, ih hcs]

theorem cbcEnc_append (E : Bytes → Bytes) (iv : Bytes) (xs ys : List Bytes) :
    cbcEnc E iv (xs ++ ys) = cbcEnc E iv xs ++ cbcEnc E ((cbcEnc E iv xs).getLastD iv) ys := by
  induction xs generalizing iv with
  | nil => rfl
  | cons p ps ih =>
    simp only [List.cons_append, cbcEnc, List.getLastD_cons, List.cons.injEq, true_and]
    exact ih _

theorem cbcDec_append (D : Bytes → Bytes) (iv : Bytes) (xs ys : List Bytes) :
    cbcDec D iv (xs ++ ys) = cbcDec D iv xs ++ cbcDec D (xs.getLastD iv) ys := by
  induction xs generalizing iv with
  | nil => rfl
  | cons p ps ih =>
    simp only [List.cons_append, cbcDec, List.getLastD_cons, List.cons.injEq, true_and]
    exact ih _

theorem cbcEnc_allN (bs : Nat) (E : Bytes → Bytes) (hE : ∀ x, (E x).length = bs) (iv : Bytes) (ps : List Bytes) :
    AllN bs (cbcEnc E iv ps) := by
  induction ps generalizing iv with
  | nil => intro x hx; simp [cbcEnc] at hx
  | cons p ps ih =>
    intro x hx
    simp only [cbcEnc, List.mem_cons] at hx
    rcases hx with rfl | hx
    · exact hE _
    · exact ih _ x hx

theorem cbcDec_allN (bs : Nat) (D : Bytes → Bytes) (hD : ∀ x, (D x).length = bs) (iv : Bytes) (hiv : iv.length = bs)
    (cs : List Bytes) (h : AllN bs cs) : AllN bs (cbcDec D iv cs) := by
  induction cs generalizing iv with
  | nil => intro x hx; simp [cbcDec] at hx
  | cons c cs ih =>
    have hc : c.length = bs := h c (by simp)
    have hcs : AllN bs cs := fun x hx => h x (by simp [hx])
    intro x hx
    simp only [cbcDec, List.mem_cons] at hx
    rcases hx with rfl | hx
    · rw [Proofs.Modes.xorBytes_length, hD, hiv]; exact Nat.min_self _
    · exact ih c hc hcs x hx

theorem cbcDec_length (D : Bytes → Bytes) (iv : Bytes) (cs : List Bytes) : (cbcDec D iv cs).length = cs.length := by
  induction cs generalizing iv with
  | nil => rfl
  | cons c cs ih => simp [cbcDec, ih]

theorem cbc_invN (bs : Nat) (E D : Bytes → Bytes) (hE : ∀ x, (E x).length = bs)
    (hDE : ∀ x, x.length = bs → D (E x) = x) (iv : Bytes) (hiv : iv.length = bs) (ps : List Bytes) (h : AllN bs ps) :
    cbcDec D iv (cbcEnc E iv ps) = ps := by
  induction ps generalizing iv with
  | nil => rfl
  | cons p ps ih =>
    have hp : p.length = bs := h p (by simp)
    have hps : AllN bs ps := fun x hx => h x (by simp [hx])
    simp only [cbcEnc, cbcDec]
    rw [hDE _ (by rw [Proofs.Modes.xorBytes_length]; omega), Proofs.Modes.xor_cancel_right _ _ (by omega)]
    rw [ih _ (hE _) hps]

theorem len_eq_of_mod {bs n : Nat} (h : n % bs = 0) : n = bs * (n / bs) := by
  have := Nat.div_add_mod n bs; omega

theorem div_add_of_mod {bs a b : Nat} (hbs : 0 < bs) (ha : a % bs = 0) (hb : b % bs = 0) :
    (a + b) / bs = a / bs + b / bs := by
  have h1 := len_eq_of_mod ha
  have h2 := len_eq_of_mod hb
  generalize a / bs = x at h1 ⊢
  generalize b / bs = y at h2 ⊢
  subst h1 h2
  rw [← Nat.mul_add, Nat.mul_div_cancel_left _ hbs]

/-- CBC encryption over any block function with `bs`-byte outputs is a lawful block mode -/
theorem cbcEnc_law (bs : Nat) (hbs : 0 < bs) (E : Bytes → Bytes) (hE : ∀ x, (E x).length = bs) :
    BlockMode bs Bytes (cbcEncCrypt bs E) where
  pos := hbs
  nil := fun st => by simp [cbcEncCrypt, blocksN, cbcEnc]
  append := fun st a b ha hb => by
    unfold cbcEncCrypt
    simp only [List.length_append]
    rw [div_add_of_mod hbs ha hb, blocksN_append bs _ _ a b (len_eq_of_mod ha), cbcEnc_append]
    simp only [List.flatten_append, Prod.mk.injEq, true_and]
    generalize cbcEnc E st (blocksN bs (a.length / bs) a) = xs
    generalize cbcEnc E (xs.getLastD st) (blocksN bs (b.length / bs) b) = ys
    cases ys with
    | nil => simp
    | cons y ys => simp [List.getLastD_eq_getLast?]
  length := fun st a ha => by
    unfold cbcEncCrypt
    simp only
    rw [flatten_lenN bs _ (cbcEnc_allN bs E hE _ _), Proofs.Modes.cbcEnc_length, blocksN_length]
    exact (len_eq_of_mod ha).symm

theorem getLastD_append (xs ys : List Bytes) (d : Bytes) : (xs ++ ys).getLastD d = ys.getLastD (xs.getLastD d) := by
  induction xs generalizing d with
  | nil => rfl
  | cons x xs ih => simp only [List.cons_append, List.getLastD_cons]; exact ih x

/-- CBC decryption over any block function with `bs`-byte outputs is a lawful block mode -/
theorem cbcDec_law (bs : Nat) (hbs : 0 < bs) (D : Bytes → Bytes) (hD : ∀ x, (D x).length = bs) :
    BlockMode bs (IV bs) (cbcDecCrypt bs D) where
  pos := hbs
  nil := fun st => by
    apply Prod.ext
    · simp [cbcDecCrypt, blocksN, cbcDec]
    · apply Subtype.ext; simp [cbcDecCrypt, blocksN]
  append := fun st a b ha hb => by
    apply Prod.ext
    · simp only [cbcDecCrypt, List.length_append]
      rw [div_add_of_mod hbs ha hb, blocksN_append bs _ _ a b (len_eq_of_mod ha), cbcDec_append]
      simp only [List.flatten_append]
    · apply Subtype.ext
      simp only [cbcDecCrypt, List.length_append]
      rw [div_add_of_mod hbs ha hb, blocksN_append bs _ _ a b (len_eq_of_mod ha), getLastD_append]
  length := fun st a ha => by
    simp only [cbcDecCrypt]
    rw [flatten_lenN bs _ (cbcDec_allN bs D hD _ st.2 _ (blocksN_all bs _ a (Nat.mul_div_le _ _))),
      cbcDec_length, blocksN_length]
    exact (len_eq_of_mod ha).symm

/-- CBC decryption undoes CBC encryption under the same IV, on whole blocks -/
theorem cbc_crypt_inv (bs : Nat) (hbs : 0 < bs) (E D : Bytes → Bytes) (hE : ∀ x, (E x).length = bs)
    (hDE : ∀ x, x.length = bs → D (E x) = x) (iv : IV bs) (p : Bytes) (hp : p.length % bs = 0) :
    (cbcDecCrypt bs D iv (cbcEncCrypt bs E iv.1 p).1).1 = p := by
  have hn := len_eq_of_mod hp
  have hall : AllN bs (blocksN bs (p.length / bs) p) := blocksN_all bs _ p (Nat.mul_div_le _ _)
  have hca := cbcEnc_allN bs E hE iv.1 (blocksN bs (p.length / bs) p)
  have hcl := Proofs.Modes.cbcEnc_length E iv.1 (blocksN bs (p.length / bs) p)
  rw [blocksN_length] at hcl
  simp only [cbcDecCrypt, cbcEncCrypt]
  rw [flatten_lenN bs _ hca, hcl, Nat.mul_div_cancel_left _ hbs]
  have := blocksN_of_flatten bs _ hca
  rw [hcl] at this
  rw [this, cbc_invN bs E D hE hDE iv.1 iv.2 _ hall]
  exact blocksN_flatten bs _ p hn

-- io.ReadFull over the padding reader ---------------------------------------------------------------

/-- progress of the padding reader: a `Read` into a non-empty buffer returns at most `len(buf)` bytes, and
    if it does not return io.EOF it returns at least one byte (so `io.ReadFull` needs at most `len(buf)`
    calls — the item "progress" that was only argued for C19). -/
theorem read_len (r : Reader) (q : Nat) (hq : 0 < q) :
    (r.read q).2.1.length ≤ q ∧ ((r.read q).2.2 = Err.none → 0 < (r.read q).2.1.length) := by
  unfold Reader.read
  by_cases hdone : r.eof = true ∧ r.eop = true
  · simp [hdone]
  · simp only [hdone, if_false]
    by_cases heof : r.eof = true
    · simp only [heof, if_true, not_true_eq_false, if_false, List.length_nil, Nat.sub_zero, List.nil_append]
      generalize r.pad.getD _ = pad
      by_cases hre : pad.isEmpty = true
      · simp [hre]
      · simp only [hre, Bool.false_eq_true, if_false, List.length_take]
        have : 0 < pad.length := by
          cases pad with
          | nil => simp at hre
          | cons x xs => simp
        refine ⟨by omega, fun _ => by omega⟩
    · have heof' : r.eof = false := by cases hh : r.eof <;> simp_all
      have fs := fill_spec r.src.script r.src.data q
      obtain ⟨f1, f2, f3, f4⟩ := fs
      simp only [heof', Bool.false_eq_true, if_false]
      generalize hfill : fill r.src.script r.src.data q = res at f1 f2 f3 f4
      obtain ⟨b, src', eof'⟩ := res
      simp only at f1 f2 f3 f4 ⊢
      cases eof'
      · have := f4 rfl
        simp only [Bool.false_eq_true, not_false_eq_true, if_true]
        refine ⟨by omega, fun _ => by omega⟩
      · simp only [not_true_eq_false, if_false]
        generalize r.pad.getD _ = pad
        by_cases hre : pad.isEmpty = true
        · simp only [hre, if_true]
          exact ⟨f2, fun hc => by simp at hc⟩
        · have : 0 < pad.length := by
            cases pad with
            | nil => simp at hre
            | cons x xs => simp
          simp only [hre, Bool.false_eq_true, if_false, List.length_append, List.length_take]
          refine ⟨by omega, fun _ => by omega⟩
/-- the `ReadAtLeast` loop over the padding reader, by induction over its iterations -/
theorem rfLoop_spec (data : Bytes) (bs : Nat) (hbs : 0 < bs) (f : Nat) (r : Reader) (acc : Bytes) (need : Nat)
    (hf : need ≤ f) (h : RInv data bs r acc) :
    RInv data bs (rfLoop f r need).1 (acc ++ (rfLoop f r need).2.1) ∧
    (rfLoop f r need).2.1.length ≤ need ∧
    (rfLoop f r need).2.2 ≠ LoopEnd.fuel ∧
    ((rfLoop f r need).2.2 = LoopEnd.filled → (rfLoop f r need).2.1.length = need) ∧
    ((rfLoop f r need).2.2 = LoopEnd.eof → acc ++ (rfLoop f r need).2.1 = padStream bs data) := by
  induction f generalizing r acc need with
  | zero =>
    have : need = 0 := by omega
    subst this
    simp [rfLoop, h]
  | succ f ih =>
    unfold rfLoop
    by_cases h0 : need = 0
    · simp [h0, h]
    · simp only [h0, if_false]
      have step := rinv_read data bs hbs r acc need h
      have rl := read_len r need (by omega)
      generalize r.read need = res at step rl
      obtain ⟨r', b, e⟩ := res
      simp only at step rl ⊢
      by_cases hE : e = Err.eof
      · simp only [hE, if_true]
        exact ⟨step.1, rl.1, by simp, fun hc => by simp at hc, fun _ => step.2 hE⟩
      · simp only [hE, if_false]
        have he : e = Err.none := by cases e <;> simp_all
        have hb := rl.2 he
        have := ih r' (acc ++ b) (need - b.length) (by omega) step.1
        generalize rfLoop f r' (need - b.length) = res2 at this
        obtain ⟨r'', b2, e2⟩ := res2
        simp only [List.append_assoc] at this ⊢
        obtain ⟨i1, i2, i3, i4, i5⟩ := this
        refine ⟨i1, ?_, i3, ?_, i5⟩
        · simp only [List.length_append]; omega
        · intro hc; have := i4 hc; simp only [List.length_append]; omega

/-- `io.ReadFull` over the padding reader: it always terminates within its `L` iterations, keeps the
    reader invariant, returns nil exactly with a full buffer, and anything else only when the whole
    padded stream has been delivered. -/
theorem readFull_spec (data : Bytes) (bs : Nat) (hbs : 0 < bs) (r : Reader) (acc : Bytes) (L : Nat)
    (h : RInv data bs r acc) :
    RInv data bs (readFull r L).1 (acc ++ (readFull r L).2.1) ∧
    (readFull r L).2.2 ≠ RF.fuel ∧
    ((readFull r L).2.2 = RF.nil → (readFull r L).2.1.length = L) ∧
    ((readFull r L).2.2 ≠ RF.nil → acc ++ (readFull r L).2.1 = padStream bs data ∧ (readFull r L).2.1.length < L) ∧
    ((readFull r L).2.2 = RF.eof → (readFull r L).2.1 = []) ∧
    ((readFull r L).2.2 = RF.unexpectedEOF → 0 < (readFull r L).2.1.length) := by
  have := rfLoop_spec data bs hbs L r acc L (Nat.le_refl _) h
  unfold readFull
  generalize rfLoop L r L = res at this
  obtain ⟨r', b, e⟩ := res
  simp only at this ⊢
  obtain ⟨i1, i2, i3, i4, i5⟩ := this
  refine ⟨i1, ?_⟩
  cases e with
  | fuel => exact absurd rfl i3
  | filled => simp [i4 rfl]
  | eof =>
    simp only
    by_cases h1 : L ≤ b.length
    · simp only [h1, if_true]
      refine ⟨by simp, fun _ => by omega, fun hc => absurd rfl hc, fun hc => by simp at hc, fun hc => by simp at hc⟩
    · simp only [h1, if_false]
      by_cases h2 : 0 < b.length
      · simp only [h2, if_true]
        refine ⟨by simp, fun hc => by simp at hc, fun _ => ⟨i5 rfl, by omega⟩, fun hc => by simp at hc, fun _ => trivial⟩
      · simp only [h2, if_false]
        refine ⟨by simp, fun hc => by simp at hc, fun _ => ⟨i5 rfl, by omega⟩, fun _ => ?_, fun hc => by simp at hc⟩
        exact List.eq_nil_of_length_eq_zero (by omega)

-- the loops ------------------------------------------------------------------------------------------

theorem padStream_length (bs : Nat) (data : Bytes) :
    (padStream bs data).length = data.length + (bs - data.length % bs) := by simp [padStream]

theorem padStream_mod (bs : Nat) (hbs : 0 < bs) (data : Bytes) : (padStream bs data).length % bs = 0 := by
  rw [padStream_length]
  have hm := Nat.mod_lt data.length hbs
  have hd := Nat.div_add_mod data.length bs
  have : data.length + (bs - data.length % bs) = bs * (data.length / bs + 1) := by
    rw [Nat.mul_add, Nat.mul_one]; omega
  rw [this, Nat.mul_mod_right]

theorem rinv_le (data : Bytes) (bs : Nat) (r : Reader) (acc : Bytes) (h : RInv data bs r acc) :
    acc.length ≤ (padStream bs data).length := by
  by_cases he : r.eof = true
  · obtain ⟨rest, _, hs, _⟩ := h.done he
    rw [← hs]; simp
  · have he' : r.eof = false := by cases hh : r.eof <;> simp_all
    obtain ⟨hd, _, _, _⟩ := h.live he'
    rw [padStream_length, ← hd]; simp; omega

theorem mod_of_add_mod {bs a b : Nat} (hab : (a + b) % bs = 0) (ha : a % bs = 0) : b % bs = 0 := by
  have h1 := len_eq_of_mod ha
  rw [h1, Nat.mul_add_mod] at hab
  exact hab

theorem step_crypt {State : Type} {bs : Nat} {crypt : State → Bytes → Bytes × State} (law : BlockMode bs State crypt)
    (init st : State) (acc out b : Bytes) (hst : crypt init acc = (out, st))
    (ha : acc.length % bs = 0) (hb : b.length % bs = 0) :
    crypt init (acc ++ b) = (out ++ (crypt st b).1, (crypt st b).2) := by
  rw [law.append init acc b ha hb, hst]

/-- loop invariant of `P7BlockEnc`: `acc` = what the padding reader has delivered in the refills so far (whole
    blocks), `out` = what has been written = the mode's output for `acc`, `st` = its chaining state. -/
theorem encLoop_spec {State : Type} (L : Nat) (m : Mode State) (law : BlockMode m.bs State m.crypt)
    (hL : 0 < L) (hdiv : m.bs ∣ L) (data : Bytes) (f : Nat) (st : State) (r : Reader) (out acc : Bytes)
    (hinv : RInv data m.bs r acc) (hacc : acc.length % m.bs = 0) (hst : m.crypt m.init acc = (out, st))
    (hf : (padStream m.bs data).length < acc.length + f) :
    encLoop L m f st r out = .ok (m.run (padStream m.bs data)) := by
  induction f generalizing st r out acc with
  | zero => have := rinv_le data m.bs r acc hinv; omega
  | succ f ih =>
    unfold encLoop
    have rs := readFull_spec data m.bs law.pos r acc L hinv
    generalize readFull r L = res at rs
    obtain ⟨r', b, e⟩ := res
    simp only at rs ⊢
    obtain ⟨i1, i2, i3, i4, _, _⟩ := rs
    rw [if_neg i2]
    by_cases he : e = RF.nil
    · have hbL := i3 he
      have hb : b.length % m.bs = 0 := by rw [hbL]; exact Nat.mod_eq_zero_of_dvd hdiv
      have hpos : 0 < b.length := by omega
      have hc := step_crypt law m.init st acc out b hst hacc hb
      simp only [hb, ne_eq, not_true_eq_false, if_false, hpos, if_true, he]
      refine ih _ r' _ (acc ++ b) i1 ?_ hc ?_
      · rw [List.length_append, Nat.add_mod, hacc, hb]; simp
      · have := rinv_le data m.bs r' _ i1
        simp only [List.length_append] at this ⊢; omega
    · obtain ⟨htot, _⟩ := i4 he
      have hb : b.length % m.bs = 0 := by
        have := padStream_mod m.bs law.pos data
        rw [← htot, List.length_append] at this
        exact mod_of_add_mod this hacc
      simp only [hb, ne_eq, not_true_eq_false, if_false, he, not_false_eq_true, if_true]
      by_cases hpos : 0 < b.length
      · simp only [hpos, if_true]
        have hc := step_crypt law m.init st acc out b hst hacc hb
        rw [htot] at hc
        simp [Mode.run, hc]
      · have : b = [] := List.eq_nil_of_length_eq_zero (by omega)
        subst this
        simp only [List.length_nil, Nat.lt_irrefl, if_false]
        rw [List.append_nil] at htot
        simp [Mode.run, ← htot, hst]
/-- T1 `enc_stream`: for every lawful block mode whose block size divides the buffer size, every data and
    EVERY source script (short reads, zero-byte reads, data returned together with io.EOF, in any order),
    `P7BlockEnc` returns nil having written exactly the block-mode encryption of `data ‖ pad`, as one
    `CryptBlocks` call on the whole padded stream would produce it — independent of the script.  In
    particular `CryptBlocks` is never called on a partial block (`notFullBlocks`), and neither loop counter
    of the model runs out (`fuel`).  No liveness hypothesis is needed: a script is a finite list, and the
    model's convention is that a source whose script is exhausted serves full reads and then io.EOF, so
    every modelled source eventually delivers its data (a source returning (0, nil) forever is outside the
    model, as for `reader_stream`). -/
theorem enc_stream {State : Type} (L : Nat) (m : Mode State) (law : BlockMode m.bs State m.crypt)
    (hL : 0 < L) (hdiv : m.bs ∣ L) (data : Bytes) (script : List (Nat × Bool)) :
    p7BlockEnc L m ⟨data, script⟩ = .ok (m.run (padStream m.bs data)) := by
  unfold p7BlockEnc
  refine encLoop_spec L m law hL hdiv data _ m.init _ [] [] (rinv_init data m.bs script) (by simp) (law.nil _) ?_
  rw [padStream_length]; simp only [List.length_nil]; omega

/-- `io.ReadFull` over the scripted source: the bytes read are the next bytes of the source; nil exactly with a
    full buffer; otherwise the source is exhausted. -/
theorem readFullSrc_spec (src : Src) (L : Nat) :
    (readFullSrc src L).1 ++ (readFullSrc src L).2.1.data = src.data ∧
    (readFullSrc src L).2.2 ≠ RF.fuel ∧
    ((readFullSrc src L).2.2 = RF.nil → (readFullSrc src L).1.length = L) ∧
    ((readFullSrc src L).2.2 ≠ RF.nil → (readFullSrc src L).2.1.data = [] ∧ (readFullSrc src L).1.length < L) ∧
    ((readFullSrc src L).2.2 = RF.eof → (readFullSrc src L).1 = []) ∧
    ((readFullSrc src L).2.2 = RF.unexpectedEOF → 0 < (readFullSrc src L).1.length) := by
  obtain ⟨f1, f2, f3, f4⟩ := fill_spec src.script src.data L
  unfold readFullSrc
  generalize fill src.script src.data L = res at f1 f2 f3 f4
  obtain ⟨b, src', eof⟩ := res
  simp only at f1 f2 f3 f4 ⊢
  refine ⟨f1, ?_⟩
  by_cases h1 : L ≤ b.length
  · simp only [h1, if_true]
    exact ⟨by simp, fun _ => by omega, fun hc => absurd rfl hc, fun hc => by simp at hc, fun hc => by simp at hc⟩
  · cases eof with
    | false => have := f4 rfl; omega
    | true =>
      simp only [h1, if_false, if_true]
      by_cases h2 : 0 < b.length
      · simp only [h2, if_true]
        exact ⟨by simp, fun hc => by simp at hc, fun _ => ⟨f3 rfl, by omega⟩, fun hc => by simp at hc, fun _ => trivial⟩
      · simp only [h2, if_false]
        exact ⟨by simp, fun hc => by simp at hc, fun _ => ⟨f3 rfl, by omega⟩,
          fun _ => List.eq_nil_of_length_eq_zero (by omega), fun hc => by simp at hc⟩

/-- what `P7BlockDecrypt` is supposed to compute from the whole ciphertext `ct` -/
def decSpec (bs : Nat) (run : Bytes → Bytes) (ct : Bytes) : Except P7Err Bytes :=
  if ct.length % bs ≠ 0 then .error .notMultiple
  else match unpadStream bs (run ct) with
    | some d => .ok d
    | none => .error .badPad

theorem foldl_write_snoc (bs : Nat) (ws : List Bytes) (o : Bytes) :
    (ws.foldl Writer.write (newWriter bs)).write o = (ws ++ [o]).foldl Writer.write (newWriter bs) := by
  simp [List.foldl_append]

/-- loop invariant of `P7BlockDecrypt`: `acc` = the ciphertext consumed so far (whole blocks), `ws` = the
    chunks written to the un-padding writer so far = the mode's output for `acc`. -/
theorem decLoop_spec {State : Type} (L : Nat) (m : Mode State) (law : BlockMode m.bs State m.crypt)
    (hL : 0 < L) (hdiv : m.bs ∣ L) (ct : Bytes) (f : Nat) (st : State) (src : Src) (acc : Bytes) (ws : List Bytes)
    (hsrc : acc ++ src.data = ct) (hacc : acc.length % m.bs = 0)
    (hst : m.crypt m.init acc = (ws.flatten, st)) (hf : src.data.length < f) :
    decLoop L m f st src (ws.foldl Writer.write (newWriter m.bs)) = decSpec m.bs m.run ct := by
  induction f generalizing st src acc ws with
  | zero => omega
  | succ f ih =>
    unfold decLoop
    have rs := readFullSrc_spec src L
    generalize readFullSrc src L = res at rs
    obtain ⟨b, src', e⟩ := res
    simp only at rs ⊢
    obtain ⟨i1, _, i3, i4, _, _⟩ := rs
    by_cases he : e = RF.nil
    · have hbL := i3 he
      have hb : b.length % m.bs = 0 := by rw [hbL]; exact Nat.mod_eq_zero_of_dvd hdiv
      have hpos : 0 < b.length := by omega
      have hc := step_crypt law m.init st acc ws.flatten b hst hacc hb
      simp only [hb, ne_eq, not_true_eq_false, if_false, hpos, if_true, he, foldl_write_snoc]
      refine ih _ src' (acc ++ b) (ws ++ [(m.crypt st b).1]) ?_ ?_ ?_ ?_
      · rw [List.append_assoc, i1]; exact hsrc
      · rw [List.length_append, Nat.add_mod, hacc, hb]; simp
      · rw [hc]; simp
      · have := congrArg List.length i1
        simp only [List.length_append] at this; omega
    · obtain ⟨hnil, _⟩ := i4 he
      rw [hnil, List.append_nil] at i1
      rw [← i1] at hsrc
      have hlen : ct.length % m.bs = b.length % m.bs := by
        rw [← hsrc, List.length_append, len_eq_of_mod hacc, Nat.mul_add_mod]
      unfold decSpec
      rw [hlen]
      by_cases hb : b.length % m.bs = 0
      · simp only [hb, ne_eq, not_true_eq_false, if_false, he, not_false_eq_true, if_true]
        have hfin : ∀ ws2 : List Bytes, ws2.flatten = m.run ct →
            (ws2.foldl Writer.write (newWriter m.bs)).final = unpadStream m.bs (m.run ct) := by
          intro ws2 h2
          have := writer_stream m.bs ws2
          rw [h2] at this; exact this
        by_cases hpos : 0 < b.length
        · simp only [hpos, if_true, foldl_write_snoc]
          have hc := step_crypt law m.init st acc ws.flatten b hst hacc hb
          rw [hsrc] at hc
          rw [hfin (ws ++ [(m.crypt st b).1]) (by simp [Mode.run, hc])]
          cases unpadStream m.bs (m.run ct) <;> rfl
        · have : b = [] := List.eq_nil_of_length_eq_zero (by omega)
          subst this
          simp only [List.length_nil, Nat.lt_irrefl, if_false]
          rw [List.append_nil] at hsrc
          rw [hfin ws (by simp [Mode.run, ← hsrc, hst])]
          cases unpadStream m.bs (m.run ct) <;> rfl
      · simp [hb]

/-- T1 `dec_stream`: for every lawful block mode whose block size divides the buffer size, every ciphertext
    and EVERY source script, `P7BlockDecrypt` returns `decSpec`: the error "not a multiple of the block
    size" iff the ciphertext length is not a multiple of the block size; otherwise the un-padded block-mode
    decryption of the whole ciphertext, with `Final`'s error exactly when that does not end in a valid
    pad — independent of the script. -/
theorem dec_stream {State : Type} (L : Nat) (m : Mode State) (law : BlockMode m.bs State m.crypt)
    (hL : 0 < L) (hdiv : m.bs ∣ L) (ct : Bytes) (script : List (Nat × Bool)) :
    p7BlockDecrypt L m ⟨ct, script⟩ = decSpec m.bs m.run ct := by
  unfold p7BlockDecrypt
  exact decLoop_spec L m law hL hdiv ct _ m.init ⟨ct, script⟩ [] [] rfl (by simp) (law.nil _) (by simp)
/-- T1 `enc_dec_stream`: for every pair of lawful block modes of the same block size 1..255 dividing the buffer
    size with `dec ∘ enc = id` on whole blocks, every data and every two source scripts:
    `P7BlockDecrypt(dec, P7BlockEnc(enc, data))` returns exactly `data` (and the intermediate ciphertext is
    the encryption of `data ‖ pad`). -/
theorem enc_dec_stream {S1 S2 : Type} (L : Nat) (enc : Mode S1) (dec : Mode S2)
    (lawE : BlockMode enc.bs S1 enc.crypt) (lawD : BlockMode dec.bs S2 dec.crypt)
    (hbs : dec.bs = enc.bs) (h255 : enc.bs ≤ 255) (hL : 0 < L) (hdiv : enc.bs ∣ L)
    (hinv : ∀ p : Bytes, p.length % enc.bs = 0 → dec.run (enc.run p) = p)
    (data : Bytes) (s1 s2 : List (Nat × Bool)) :
    roundTrip L enc dec data s1 s2 = .ok (enc.run (padStream enc.bs data), data) := by
  unfold roundTrip
  rw [enc_stream L enc lawE hL hdiv data s1]
  simp only
  rw [dec_stream L dec lawD hL (hbs ▸ hdiv) _ s2]
  have hp := padStream_mod enc.bs lawE.pos data
  have hlen : (enc.run (padStream enc.bs data)).length % dec.bs = 0 := by
    rw [hbs]; unfold Mode.run; rw [lawE.length _ _ hp]; exact hp
  unfold decSpec
  rw [if_neg (by simp [hlen]), hinv _ hp, hbs, unpad_padStream enc.bs lawE.pos h255 data]

/-- the same, stated on the two functions instead of `roundTrip` -/
theorem enc_dec_stream_ex {S1 S2 : Type} (L : Nat) (enc : Mode S1) (dec : Mode S2)
    (lawE : BlockMode enc.bs S1 enc.crypt) (lawD : BlockMode dec.bs S2 dec.crypt)
    (hbs : dec.bs = enc.bs) (h255 : enc.bs ≤ 255) (hL : 0 < L) (hdiv : enc.bs ∣ L)
    (hinv : ∀ p : Bytes, p.length % enc.bs = 0 → dec.run (enc.run p) = p)
    (data : Bytes) (s1 s2 : List (Nat × Bool)) :
    ∃ ct, p7BlockEnc L enc ⟨data, s1⟩ = .ok ct ∧ p7BlockDecrypt L dec ⟨ct, s2⟩ = .ok data := by
  have := enc_dec_stream L enc dec lawE lawD hbs h255 hL hdiv hinv data s1 s2
  unfold roundTrip at this
  rw [enc_stream L enc lawE hL hdiv data s1] at this ⊢
  refine ⟨_, rfl, ?_⟩
  simp only at this
  generalize p7BlockDecrypt L dec ⟨enc.run (padStream enc.bs data), s2⟩ = res at this ⊢
  cases res with
  | error e => simp at this
  | ok pt => simp at this; rw [this]

/-- T1: `P7BlockDecrypt` fails with "not a multiple of the block size" exactly when the last (short) refill of
    the `L`-byte buffer — `len(ct) mod L` bytes, at EOF — does not end on a block boundary. -/
theorem dec_notMultiple_iff {State : Type} (L : Nat) (m : Mode State) (law : BlockMode m.bs State m.crypt)
    (hL : 0 < L) (hdiv : m.bs ∣ L) (ct : Bytes) (script : List (Nat × Bool)) :
    p7BlockDecrypt L m ⟨ct, script⟩ = .error .notMultiple ↔ (ct.length % L) % m.bs ≠ 0 := by
  rw [dec_stream L m law hL hdiv, Nat.mod_mod_of_dvd _ hdiv]
  unfold decSpec
  by_cases h : ct.length % m.bs = 0
  · simp only [h, ne_eq, not_true_eq_false, if_false, iff_false]
    cases unpadStream m.bs (m.run ct) <;> simp
  · simp [h]

/-- T1: `P7BlockDecrypt` succeeds with `d` exactly when the ciphertext is whole blocks and its decryption
    un-pads to `d`. -/
theorem dec_ok_iff {State : Type} (L : Nat) (m : Mode State) (law : BlockMode m.bs State m.crypt)
    (hL : 0 < L) (hdiv : m.bs ∣ L) (ct : Bytes) (script : List (Nat × Bool)) (d : Bytes) :
    p7BlockDecrypt L m ⟨ct, script⟩ = .ok d ↔ ct.length % m.bs = 0 ∧ unpadStream m.bs (m.run ct) = some d := by
  rw [dec_stream L m law hL hdiv]
  unfold decSpec
  by_cases h : ct.length % m.bs = 0
  · simp only [h, ne_eq, not_true_eq_false, if_false, true_and]
    cases unpadStream m.bs (m.run ct) <;> simp
  · simp [h]

/-- T1: `Final`'s error is returned exactly when the ciphertext is whole blocks and its decryption does not end
    in a valid pad (this includes the empty ciphertext). -/
theorem dec_badPad_iff {State : Type} (L : Nat) (m : Mode State) (law : BlockMode m.bs State m.crypt)
    (hL : 0 < L) (hdiv : m.bs ∣ L) (ct : Bytes) (script : List (Nat × Bool)) :
    p7BlockDecrypt L m ⟨ct, script⟩ = .error .badPad ↔ ct.length % m.bs = 0 ∧ unpadStream m.bs (m.run ct) = none := by
  rw [dec_stream L m law hL hdiv]
  unfold decSpec
  by_cases h : ct.length % m.bs = 0
  · simp only [h, ne_eq, not_true_eq_false, if_false, true_and]
    cases unpadStream m.bs (m.run ct) <;> simp
  · simp [h]
-- instances ------------------------------------------------------------------------------------------

theorem blocksN_16 (n : Nat) (b : Bytes) : blocksN 16 n b = Spec.Modes.blocks n b := by
  induction n generalizing b with
  | zero => rfl
  | succ n ih => simp [blocksN, Spec.Modes.blocks, ih]

theorem fit_length (bs : Nat) (x : Bytes) : (fit bs x).length = bs := by
  simp [fit]; omega

theorem fit_of_length (bs : Nat) (x : Bytes) (h : x.length = bs) : fit bs x = x := by
  subst h; simp [fit]

theorem toyE_length (bs : Nat) (k x : Bytes) : (toyE bs k x).length = bs := by
  simp [toyE, Proofs.Modes.xorBytes_length, fit_length]

theorem toyD_length (bs : Nat) (k x : Bytes) : (toyD bs k x).length = bs := by
  simp [toyD, Proofs.Modes.xorBytes_length, fit_length]

theorem toyD_toyE (bs : Nat) (k x : Bytes) (h : x.length = bs) : toyD bs k (toyE bs k x) = x := by
  unfold toyD
  rw [fit_of_length bs _ (toyE_length bs k x)]
  unfold toyE
  rw [List.reverse_reverse, fit_of_length bs x h, Proofs.Modes.xor_cancel_right _ _ (by rw [fit_length]; omega)]

/-- the toy CBC modes are lawful block modes, for every block size, key and IV -/
theorem toy_enc_law (bs : Nat) (hbs : 0 < bs) (k iv : Bytes) :
    BlockMode (cbcEncMode bs (toyE bs k) iv).bs Bytes (cbcEncMode bs (toyE bs k) iv).crypt :=
  cbcEnc_law bs hbs _ (toyE_length bs k)

theorem toy_dec_law (bs : Nat) (hbs : 0 < bs) (k : Bytes) (iv : IV bs) :
    BlockMode (cbcDecMode bs (toyD bs k) iv).bs (IV bs) (cbcDecMode bs (toyD bs k) iv).crypt :=
  cbcDec_law bs hbs _ (toyD_length bs k)

/-- CBC over any block cipher pair (`D ∘ E = id` on `bs`-byte blocks, `bs`-byte outputs), any block size
    1..255 dividing the buffer size: the helpers compose to the identity for every data, IV and pair of
    source scripts.  (`bs = 8`: the 3DES-CBC shape of op `p7rt8`; `bs = 16`: SM4.) -/
theorem cbc_enc_dec_stream (L bs : Nat) (hbs : 0 < bs) (h255 : bs ≤ 255) (hL : 0 < L) (hdiv : bs ∣ L)
    (E D : Bytes → Bytes) (hE : ∀ x, (E x).length = bs) (hD : ∀ x, (D x).length = bs)
    (hDE : ∀ x, x.length = bs → D (E x) = x) (iv : IV bs) (data : Bytes) (s1 s2 : List (Nat × Bool)) :
    roundTrip L (cbcEncMode bs E iv.1) (cbcDecMode bs D iv) data s1 s2 =
      .ok ((cbcEncCrypt bs E iv.1 (padStream bs data)).1, data) :=
  enc_dec_stream L (cbcEncMode bs E iv.1) (cbcDecMode bs D iv) (cbcEnc_law bs hbs E hE) (cbcDec_law bs hbs D hD)
    rfl h255 hL hdiv (fun p hp => cbc_crypt_inv bs hbs E D hE hDE iv p hp) data s1 s2

-- SM4-CBC with the 1024-byte buffer of bloc_cryptor.go ------------------------------------------------

/-- SM4-CBC encryption of a whole-block string, as `Spec.Modes` writes it (the driver's `p7stream`) -/
def sm4CbcEncAll (key iv p : Bytes) : Bytes :=
  (Spec.Modes.cbcEnc (Spec.SM4.encrypt key) iv (Spec.Modes.blocks (p.length / 16) p)).flatten
def sm4CbcDecAll (key iv c : Bytes) : Bytes :=
  (Spec.Modes.cbcDec (Spec.SM4.decrypt key) iv (Spec.Modes.blocks (c.length / 16) c)).flatten

theorem sm4CbcEnc_run (key iv p : Bytes) : (sm4CbcEnc key iv).run p = sm4CbcEncAll key iv p := by
  simp [Mode.run, sm4CbcEnc, cbcEncMode, cbcEncCrypt, sm4CbcEncAll, blocksN_16]

theorem sm4CbcDec_run (key : Bytes) (iv : IV 16) (c : Bytes) : (sm4CbcDec key iv).run c = sm4CbcDecAll key iv.1 c := by
  simp [Mode.run, sm4CbcDec, cbcDecMode, cbcDecCrypt, sm4CbcDecAll, blocksN_16]

theorem sm4_enc_law (key iv : Bytes) : BlockMode (sm4CbcEnc key iv).bs Bytes (sm4CbcEnc key iv).crypt :=
  cbcEnc_law 16 (by decide) _ (Props.C05.enc_length key)

theorem sm4_dec_law (key : Bytes) (iv : IV 16) : BlockMode (sm4CbcDec key iv).bs (IV 16) (sm4CbcDec key iv).crypt :=
  cbcDec_law 16 (by decide) _ (Props.C05.dec_length key)

/-- T1 (SM4-CBC instance, the 1024-byte buffer of bloc_cryptor.go): for every key, IV, data and source script
    `P7BlockEnc(cipher.NewCBCEncrypter(sm4, iv), src, out)` writes the SP 800-38A CBC encryption of
    `data ‖ pad` (what the driver's `p7stream` prints as the standard's answer). -/
theorem sm4_enc_stream (key iv data : Bytes) (script : List (Nat × Bool)) :
    p7BlockEnc 1024 (sm4CbcEnc key iv) ⟨data, script⟩ = .ok (sm4CbcEncAll key iv (padStream 16 data)) := by
  rw [← sm4CbcEnc_run]
  exact enc_stream 1024 (sm4CbcEnc key iv) (sm4_enc_law key iv) (by decide) ⟨64, rfl⟩ data script

/-- T1 (SM4-CBC instance): `P7BlockDecrypt(cipher.NewCBCDecrypter(sm4, iv), src, out)` for every ciphertext and
    source script. -/
theorem sm4_dec_stream (key : Bytes) (iv : IV 16) (ct : Bytes) (script : List (Nat × Bool)) :
    p7BlockDecrypt 1024 (sm4CbcDec key iv) ⟨ct, script⟩ = decSpec 16 (sm4CbcDecAll key iv.1) ct := by
  rw [dec_stream 1024 (sm4CbcDec key iv) (sm4_dec_law key iv) (by decide) ⟨64, rfl⟩ ct script]
  have : (sm4CbcDec key iv).run = sm4CbcDecAll key iv.1 := funext (sm4CbcDec_run key iv)
  rw [this]; rfl

/-- T1 (SM4-CBC instance): the round trip of op `p7stream` — for every key, 16-byte IV, data and two scripts the
    result is `(SM4-CBC(data ‖ pad), data)`; uses C05 `dec_enc` (SM4 decryption inverts encryption). -/
theorem sm4_enc_dec_stream (key : Bytes) (iv : IV 16) (data : Bytes) (s1 s2 : List (Nat × Bool)) :
    roundTrip 1024 (sm4CbcEnc key iv.1) (sm4CbcDec key iv) data s1 s2 =
      .ok (sm4CbcEncAll key iv.1 (padStream 16 data), data) := by
  have := cbc_enc_dec_stream 1024 16 (by decide) (by decide) (by decide) ⟨64, rfl⟩
    (Spec.SM4.encrypt key) (Spec.SM4.decrypt key) (Props.C05.enc_length key) (Props.C05.dec_length key)
    (fun x hx => Props.C05.dec_enc key x hx) iv data s1 s2
  rw [← sm4CbcEnc_run]
  exact this

/-- the script does not matter (corollary of `enc_stream`) -/
theorem enc_script_independent {State : Type} (L : Nat) (m : Mode State) (law : BlockMode m.bs State m.crypt)
    (hL : 0 < L) (hdiv : m.bs ∣ L) (data : Bytes) (s1 s2 : List (Nat × Bool)) :
    p7BlockEnc L m ⟨data, s1⟩ = p7BlockEnc L m ⟨data, s2⟩ := by
  rw [enc_stream L m law hL hdiv, enc_stream L m law hL hdiv]

/-- both block sizes of the property with the 1024-byte buffer of bloc_cryptor.go -/
theorem enc_stream_1024 {State : Type} (m : Mode State) (law : BlockMode m.bs State m.crypt)
    (hbs : m.bs = 8 ∨ m.bs = 16) (data : Bytes) (script : List (Nat × Bool)) :
    p7BlockEnc 1024 m ⟨data, script⟩ = .ok (m.run (padStream m.bs data)) :=
  enc_stream 1024 m law (by decide) (by rcases hbs with h | h <;> rw [h] <;> decide) data script

theorem dec_stream_1024 {State : Type} (m : Mode State) (law : BlockMode m.bs State m.crypt)
    (hbs : m.bs = 8 ∨ m.bs = 16) (ct : Bytes) (script : List (Nat × Bool)) :
    p7BlockDecrypt 1024 m ⟨ct, script⟩ = decSpec m.bs m.run ct :=
  dec_stream 1024 m law (by decide) (by rcases hbs with h | h <;> rw [h] <;> decide) ct script

-- non-vacuity (tests): the toy cipher, evaluated by the kernel ------------------------------------------

def K8 : Bytes := [1, 2, 3, 4, 5, 6, 7, 8]
def iv8 : IV 8 := ⟨[9, 9, 9, 9, 9, 9, 9, 9], rfl⟩
def K16 : Bytes := [1, 2, 3, 4, 5, 6, 7, 8, 9, 10, 11, 12, 13, 14, 15, 16]
def iv16 : IV 16 := ⟨List.replicate 16 0x5a, rfl⟩

/-- the hypotheses of `cbc_enc_dec_stream` are satisfiable for block size 8 and the 1024-byte buffer -/
example (data : Bytes) (s1 s2 : List (Nat × Bool)) :
    roundTrip 1024 (cbcEncMode 8 (toyE 8 K8) iv8.1) (cbcDecMode 8 (toyD 8 K8) iv8) data s1 s2 =
      .ok ((cbcEncCrypt 8 (toyE 8 K8) iv8.1 (padStream 8 data)).1, data) :=
  cbc_enc_dec_stream 1024 8 (by decide) (by decide) (by decide) ⟨128, rfl⟩ _ _ (toyE_length 8 K8) (toyD_length 8 K8)
    (toyD_toyE 8 K8) iv8 data s1 s2

/-- 21 bytes, block size 8, a 16-byte buffer (two refills): the source returns 1, 0 and 7 bytes and then
    everything, the ciphertext source 3 bytes and then the rest together with EOF -/
example : roundTrip 16 (cbcEncMode 8 (toyE 8 K8) iv8.1) (cbcDecMode 8 (toyD 8 K8) iv8) (List.replicate 21 0x41)
      [(1, false), (0, false), (7, true)] [(3, false), (100, true)] =
    .ok ([0x40, 0x4f, 0x4e, 0x4d, 0x4c, 0x4b, 0x4a, 0x49, 0x00, 0x0c, 0x0c, 0x08, 0x08, 0x0c, 0x0c, 0x00,
          0x0b, 0x08, 0x09, 0x4c, 0x4d, 0x4e, 0x4f, 0x40], List.replicate 21 0x41) := by decide

/-- the io.EOF that arrives together with the byte that fills the buffer is dropped by `io.ReadFull`;
    the next refill reads 0 bytes and io.EOF, and `Final` still runs -/
example : roundTrip 16 (cbcEncMode 8 (toyE 8 K8) iv8.1) (cbcDecMode 8 (toyD 8 K8) iv8) [1, 2, 3, 4, 5, 6, 7, 8]
      [(8, true)] [(16, true)] =
    .ok ([9, 9, 9, 9, 9, 9, 9, 9, 9, 6, 7, 4, 5, 2, 3, 0], [1, 2, 3, 4, 5, 6, 7, 8]) := by decide

/-- both errors of `P7BlockDecrypt`, and the empty ciphertext -/
example : p7BlockDecrypt 16 (cbcDecMode 8 (toyD 8 K8) iv8) ⟨List.replicate 21 0x41, [(5, false), (0, false)]⟩
    = .error .notMultiple := by decide
example : p7BlockDecrypt 16 (cbcDecMode 8 (toyD 8 K8) iv8) ⟨List.replicate 24 0x41, [(5, false), (0, false)]⟩
    = .error .badPad := by decide
example : p7BlockDecrypt 16 (cbcDecMode 8 (toyD 8 K8) iv8) ⟨[], [(5, true)]⟩ = .error .badPad := by decide

/-- the real buffer size: 1030 bytes through the 1024-byte buffer, block size 16, with zero-byte reads,
    short reads and data-with-EOF on both sources -/
example : (roundTrip 1024 (cbcEncMode 16 (toyE 16 K16) iv16.1) (cbcDecMode 16 (toyD 16 K16) iv16)
      (List.replicate 1030 0x41) [(1, false), (0, false), (700, false), (0, false), (1000, true)]
      [(1023, false), (0, false), (1, false), (16, true)]).toOption.map (·.2)
    = some (List.replicate 1030 0x41) := by
  set_option maxRecDepth 100000 in decide

end Props.C19Stream
