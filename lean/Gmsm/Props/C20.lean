/-
C20 — Results do not depend on goroutine interleaving.
What a theorem can carry here: the sequential models of the shared objects are order-independent — every
call's result is a function of that call's own inputs — so EVERY sequential order of the same calls (which
is what a linearizable concurrent execution is equivalent to) yields the same result for each call.  That
makes "equals the single-threaded result" a well-defined oracle for the concurrent runs of the check.
Data-race freedom itself is a statement about the Go memory model and is decided by the race detector in
the correspondence run, not by these theorems (see DESIGN.md §0.2, §11).
-/
import Gmsm.Props.C05
import Gmsm.Props.C04
import Gmsm.Model.Resume
namespace Props.C20
open Gmsm

/-- T1 `sm4_order_independent`: one SM4 cipher object shared by any number of callers: for every key and
    every two sequential orders of the same multiset of Encrypt/Decrypt calls, the multiset of results is the
    same, and each call's result is the GM/T 0002 value for that call's own `src` in either order. -/
theorem sm4_order_independent (key : Bytes) (c : Model.SM4.Cipher) (hk : c.subkeys = Model.SM4.generateSubKeys key)
    (ops₁ ops₂ : List Model.SM4.Op) (h : ops₁.Perm ops₂) :
    (Model.SM4.run c ops₁).Perm (Model.SM4.run c ops₂) ∧
    Model.SM4.run c ops₁ = ops₁.map (Props.C05.specOut key) ∧ Model.SM4.run c ops₂ = ops₂.map (Props.C05.specOut key) := by
  have e1 := Props.C05.history_independent key c hk ops₁
  have e2 := Props.C05.history_independent key c hk ops₂
  exact ⟨by rw [e1, e2]; exact h.map _, e1, e2⟩

/-- any interleaving of two callers' call sequences is a permutation of their concatenation -/
inductive Interleave {α : Type} : List α → List α → List α → Prop
  | nil : Interleave [] [] []
  | left {a : α} {xs ys zs : List α} : Interleave xs ys zs → Interleave (a :: xs) ys (a :: zs)
  | right {a : α} {xs ys zs : List α} : Interleave xs ys zs → Interleave xs (a :: ys) (a :: zs)

theorem Interleave.perm {α : Type} {xs ys zs : List α} (h : Interleave xs ys zs) : zs.Perm (xs ++ ys) := by
  induction h with
  | nil => exact List.Perm.refl _
  | left _ ih => exact List.Perm.cons _ ih
  | right _ ih =>
    rename_i a xs ys zs _
    exact (List.Perm.cons a ih).trans (List.perm_middle.symm)

/-- T1 `sm4_interleaving`: two goroutines issue the call sequences `xs` and `ys` on one shared cipher object;
    whatever the interleaving `zs` of whole calls, each goroutine sees exactly the results it would have seen
    alone on a fresh object. -/
theorem sm4_interleaving (key : Bytes) (c : Model.SM4.Cipher) (hk : c.subkeys = Model.SM4.generateSubKeys key)
    (xs ys zs : List Model.SM4.Op) (_h : Interleave xs ys zs) :
    Model.SM4.run c zs = zs.map (Props.C05.specOut key) ∧
    Model.SM4.run c xs = xs.map (Props.C05.specOut key) ∧ Model.SM4.run c ys = ys.map (Props.C05.specOut key) :=
  ⟨Props.C05.history_independent key c hk zs, Props.C05.history_independent key c hk xs,
   Props.C05.history_independent key c hk ys⟩

/-- T1 `sm3_objects_independent`: hash objects obtained from the constructor share nothing: the results of
    one object's operation sequence are determined by that sequence alone (whatever other objects do in
    between), namely prefix ‖ SM3(bytes written since the last Reset). -/
theorem sm3_objects_independent (ops : List Model.SM3.Op) :
    Model.SM3.run Model.SM3.init ops = Props.C04.specRun [] ops :=
  Props.C04.hist_refines_init ops

/-- T1 `ticket_keys_snapshot`: a ticket lookup running while `SetSessionTicketKeys` replaces the key list sees
    either the old list or the new one (the code reads the slice header once under the read lock): its result
    equals the sequential result before or after the rotation — there is no third outcome. -/
theorem ticket_keys_snapshot (s : Model.Resume.Server) (newKeys : List Nat) (t : Model.Resume.Ticket)
    (seen : List Nat) (h : seen = s.keys ∨ seen = newKeys) :
    Model.Resume.decryptTicket { s with keys := seen } t = Model.Resume.decryptTicket s t ∨
    Model.Resume.decryptTicket { s with keys := seen } t = Model.Resume.decryptTicket { s with keys := newKeys } t := by
  rcases h with h | h
  · left; rw [h]
  · right; rw [h]

end Props.C20
