/-
C16 (codec part) — the byte-level session state codec of gmtls/ticket.go: `sessionState.unmarshal` inverts
`sessionState.marshal` on every state the Go types can hold without length truncation, accepts exactly the
canonical encodings (no second byte string for a state, no trailing bytes) and never claims bytes beyond
its input.  Theorems about `Model.SessionState`, which is tied to the Go code by the `sstate` / `sstatem`
ops (harness/c16codec.go, Driver/SessionState.lean).
-/
import Gmsm.Model.SessionState
namespace Props.C16Codec
open Gmsm Model.SessionState

-- number fields ---------------------------------------------------------------------------------------------

theorem ofNat_toNat8 (a : Byte) : BitVec.ofNat 8 a.toNat = a := by
  apply BitVec.eq_of_toNat_eq; simp

theorem put16_get16 (a b : Byte) : put16 (get16 a b) = [a, b] := by
  have ha := a.isLt
  have hb := b.isLt
  unfold put16 get16
  have e1 : (a.toNat * 256 + b.toNat) / 256 = a.toNat := by omega
  have e2 : BitVec.ofNat 8 (a.toNat * 256 + b.toNat) = b := by
    apply BitVec.eq_of_toNat_eq; simp only [BitVec.toNat_ofNat]; omega
  rw [e1, e2, ofNat_toNat8]

theorem get16_put16 (n : Nat) (h : n < 65536) : get16 (BitVec.ofNat 8 (n / 256)) (BitVec.ofNat 8 n) = n := by
  unfold get16; simp only [BitVec.toNat_ofNat]; omega

theorem get16_lt (a b : Byte) : get16 a b < 65536 := by
  have ha := a.isLt
  have hb := b.isLt
  unfold get16; omega

theorem put32_get32 (a b c d : Byte) : put32 (get32 a b c d) = [a, b, c, d] := by
  have ha := a.isLt
  have hb := b.isLt
  have hc := c.isLt
  have hd := d.isLt
  unfold put32 get32
  have e1 : (a.toNat * 16777216 + b.toNat * 65536 + c.toNat * 256 + d.toNat) / 16777216 = a.toNat := by omega
  have e2 : BitVec.ofNat 8 ((a.toNat * 16777216 + b.toNat * 65536 + c.toNat * 256 + d.toNat) / 65536) = b := by
    apply BitVec.eq_of_toNat_eq; simp only [BitVec.toNat_ofNat]; omega
  have e3 : BitVec.ofNat 8 ((a.toNat * 16777216 + b.toNat * 65536 + c.toNat * 256 + d.toNat) / 256) = c := by
    apply BitVec.eq_of_toNat_eq; simp only [BitVec.toNat_ofNat]; omega
  have e4 : BitVec.ofNat 8 (a.toNat * 16777216 + b.toNat * 65536 + c.toNat * 256 + d.toNat) = d := by
    apply BitVec.eq_of_toNat_eq; simp only [BitVec.toNat_ofNat]; omega
  rw [e1, e2, e3, e4, ofNat_toNat8]

theorem get32_put32 (n : Nat) (h : n < 4294967296) :
    get32 (BitVec.ofNat 8 (n / 16777216)) (BitVec.ofNat 8 (n / 65536)) (BitVec.ofNat 8 (n / 256)) (BitVec.ofNat 8 n) = n := by
  unfold get32; simp only [BitVec.toNat_ofNat]; omega

theorem get32_lt (a b c d : Byte) : get32 a b c d < 4294967296 := by
  have ha := a.isLt
  have hb := b.isLt
  have hc := c.isLt
  have hd := d.isLt
  unfold get32; omega

-- the certificate list --------------------------------------------------------------------------------------

theorem split4 (d : Bytes) (h : ¬ d.length < 4) : ∃ a b c e rest, d = a :: b :: c :: e :: rest := by
  rcases d with _ | ⟨a, _ | ⟨b, _ | ⟨c, _ | ⟨e, rest⟩⟩⟩⟩
  · simp at h
  · simp at h
  · simp at h
  · simp at h
  · exact ⟨a, b, c, e, rest, rfl⟩

theorem split2 (d : Bytes) (h : ¬ d.length < 2) : ∃ a b rest, d = a :: b :: rest := by
  rcases d with _ | ⟨a, _ | ⟨b, rest⟩⟩
  · simp at h
  · simp at h
  · exact ⟨a, b, rest, rfl⟩

theorem split6 (d : Bytes) (h : ¬ d.length < 8) : ∃ a b c e f g rest, d = a :: b :: c :: e :: f :: g :: rest := by
  obtain ⟨a, b, c, e, r, rfl⟩ := split4 d (by omega)
  obtain ⟨f, g, r2, rfl⟩ := split2 r (by simp only [List.length_cons] at h; omega)
  exact ⟨a, b, c, e, f, g, r2, rfl⟩

theorem unmarshalCerts_marshalCerts (cs : List Bytes) (h : ∀ c ∈ cs, c.length < 4294967296) :
    unmarshalCerts cs.length (marshalCerts cs) = some cs := by
  induction cs with
  | nil => simp [unmarshalCerts, marshalCerts]
  | cons c cs ih =>
    have hc : c.length < 4294967296 := h c (by simp)
    have ih := ih (fun x hx => h x (by simp [hx]))
    simp only [List.length_cons, unmarshalCerts, marshalCerts, put32]
    simp only [List.cons_append, List.nil_append, List.length_cons, List.getD_eq_getElem?_getD,
      List.getElem?_cons_zero, List.getElem?_cons_succ, Option.getD_some, List.drop_succ_cons, List.drop_zero,
      get32_put32 c.length hc]
    rw [if_neg (by omega), if_neg (by simp), List.drop_left, List.take_left, ih]

/-- what the certificate loop accepts is exactly what the marshal loop writes for the returned list, the
    list has the announced number of entries, and every entry length fits its 4-byte field -/
theorem unmarshalCerts_sound (n : Nat) (d : Bytes) (cs : List Bytes) (h : unmarshalCerts n d = some cs) :
    cs.length = n ∧ marshalCerts cs = d ∧ ∀ c ∈ cs, c.length < 4294967296 := by
  induction n generalizing d cs with
  | zero =>
    unfold unmarshalCerts at h
    split at h
    · rename_i h0
      cases h
      have : d = [] := List.eq_nil_of_length_eq_zero h0
      subst this
      simp [marshalCerts]
    · simp at h
  | succ n ih =>
    unfold unmarshalCerts at h
    split at h
    · simp at h
    · rename_i h4
      obtain ⟨a, b, c, e, rest, rfl⟩ := split4 d h4
      · simp only [List.getD_eq_getElem?_getD, List.getElem?_cons_zero, List.getElem?_cons_succ, Option.getD_some,
          List.drop_succ_cons, List.drop_zero] at h
        split at h
        · simp at h
        · rename_i hl
          split at h
          · rename_i cs0 hrec
            cases h
            obtain ⟨i1, i2, i3⟩ := ih _ _ hrec
            have htl : (List.take (get32 a b c e) rest).length = get32 a b c e := by
              rw [List.length_take]; omega
            refine ⟨by simp [i1], ?_, ?_⟩
            · simp only [marshalCerts, htl, put32_get32, i2, List.take_append_drop, List.cons_append, List.nil_append]
            · intro x hx
              rcases List.mem_cons.mp hx with e1 | e1
              · rw [e1, htl]; exact get32_lt a b c e
              · exact i3 x e1
          · simp at h

theorem mem_marshalCerts_length (cs : List Bytes) (c : Bytes) (h : c ∈ cs) : c.length ≤ (marshalCerts cs).length := by
  induction cs with
  | nil => simp at h
  | cons x xs ih =>
    simp only [marshalCerts, List.length_append]
    rcases List.mem_cons.mp h with e | e
    · subst e; omega
    · have := ih e; omega

/-- the marshal loop writes at least the 4-byte length prefix for every certificate -/
theorem marshalCerts_length_ge (cs : List Bytes) : 4 * cs.length ≤ (marshalCerts cs).length := by
  induction cs with
  | nil => simp [marshalCerts]
  | cons x xs ih =>
    simp only [marshalCerts, put32, List.length_append, List.length_cons, List.length_nil]
    omega

/-- hence a certificate list that parses passes the check in front of `make`: the remaining input holds at
    least 4 bytes per announced certificate -/
theorem unmarshalCerts_count_le (n : Nat) (d : Bytes) (cs : List Bytes) (h : unmarshalCerts n d = some cs) :
    4 * n ≤ d.length := by
  obtain ⟨h1, h2, _⟩ := unmarshalCerts_sound n d cs h
  have := marshalCerts_length_ge cs
  rw [h2, h1] at this
  exact this

/-- after the announced certificates nothing may follow: a certificate list that parses does not parse
    with anything appended -/
theorem unmarshalCerts_no_trailing (n : Nat) (d t : Bytes) (cs : List Bytes) (h : unmarshalCerts n d = some cs)
    (ht : t ≠ []) : unmarshalCerts n (d ++ t) = none := by
  induction n generalizing d cs with
  | zero =>
    unfold unmarshalCerts at h ⊢
    split at h
    · rw [if_neg]
      have : t.length ≠ 0 := by simpa using ht
      simp only [List.length_append]; omega
    · simp at h
  | succ n ih =>
    unfold unmarshalCerts at h
    split at h
    · simp at h
    · rename_i h4
      obtain ⟨a, b, c, e, rest, rfl⟩ := split4 d h4
      · simp only [List.getD_eq_getElem?_getD, List.getElem?_cons_zero, List.getElem?_cons_succ, Option.getD_some,
          List.drop_succ_cons, List.drop_zero] at h
        split at h
        · simp at h
        · rename_i hl
          split at h
          · rename_i cs0 hrec
            unfold unmarshalCerts
            simp only [List.cons_append, List.length_cons, List.getD_eq_getElem?_getD, List.getElem?_cons_zero,
              List.getElem?_cons_succ, Option.getD_some, List.drop_succ_cons, List.drop_zero]
            rw [if_neg (by omega), if_neg (by simp only [List.length_append]; omega)]
            have hd : List.drop (get32 a b c e) (rest ++ t) = List.drop (get32 a b c e) rest ++ t := by
              rw [List.drop_append_of_le_length (by omega)]
            rw [hd, ih _ _ hrec]
          · simp at h

-- the whole state -------------------------------------------------------------------------------------------

/-- T1 `unmarshal_marshal`: every session state whose version and suite are 16-bit numbers (the Go field
    types), whose master secret and certificate count are below 2^16 and whose certificates are shorter
    than 2^32 bytes is read back from its serialization exactly — version, suite, master secret, every
    certificate in order. -/
theorem unmarshal_marshal (s : SState) (hv : s.vers < 65536) (hs : s.suite < 65536) (hm : s.master.length < 65536)
    (hn : s.certs.length < 65536) (hc : ∀ c ∈ s.certs, c.length < 4294967296) :
    unmarshal (marshal s) = some s := by
  obtain ⟨vers, suite, master, certs⟩ := s
  simp only at hv hs hm hn hc
  simp only [unmarshal, marshal, put16]
  simp only [List.cons_append, List.nil_append, List.length_cons, List.getD_eq_getElem?_getD,
    List.getElem?_cons_zero, List.getElem?_cons_succ, Option.getD_some, List.drop_succ_cons, List.drop_zero,
    get16_put16 vers hv, get16_put16 suite hs, get16_put16 master.length hm]
  rw [if_neg (by simp only [List.length_append, List.length_cons]; omega), if_neg (by simp), List.drop_left, List.take_left]
  simp only [List.length_cons, List.getElem?_cons_zero, List.getElem?_cons_succ,
    Option.getD_some, List.drop_succ_cons, List.drop_zero, get16_put16 certs.length hn]
  have hge := marshalCerts_length_ge certs
  rw [if_neg (by omega), if_neg (by omega), unmarshalCerts_marshalCerts certs hc]

/-- the same with the well-formedness condition as one predicate -/
theorem unmarshal_marshal_wf (s : SState) (h : WF s) : unmarshal (marshal s) = some s :=
  unmarshal_marshal s h.1 h.2.1 h.2.2.1 h.2.2.2.1 h.2.2.2.2

/-- T1 `marshal_unmarshal`: whatever `unmarshal` accepts is, byte for byte, what `marshal` writes for the
    state it returns.  So the parser accepts only canonical encodings: no byte string other than
    `marshal s` is read as `s`, in particular none with trailing or padding bytes. -/
theorem marshal_unmarshal (b : Bytes) (s : SState) (h : unmarshal b = some s) : marshal s = b := by
  unfold unmarshal at h
  split at h
  · simp at h
  · rename_i h8
    obtain ⟨b0, b1, b2, b3, b4, b5, rest, rfl⟩ := split6 b h8
    · simp only [List.getD_eq_getElem?_getD, List.getElem?_cons_zero, List.getElem?_cons_succ, Option.getD_some,
        List.drop_succ_cons, List.drop_zero] at h
      split at h
      · simp at h
      · rename_i hml
        split at h
        · simp at h
        · rename_i h2
          generalize hr : List.drop (get16 b4 b5) rest = r at h h2
          obtain ⟨n1, n0, r2, rfl⟩ := split2 r h2
          · simp only [List.getElem?_cons_zero, List.getElem?_cons_succ, Option.getD_some, List.drop_succ_cons,
              List.drop_zero] at h
            split at h
            · simp at h
            · split at h
              · rename_i cs hcs
                cases h
                obtain ⟨c1, c2, _⟩ := unmarshalCerts_sound _ _ _ hcs
                have htl : (List.take (get16 b4 b5) rest).length = get16 b4 b5 := by
                  rw [List.length_take]; omega
                simp only [marshal, htl, c1, c2, put16_get16, List.cons_append, List.nil_append]
                rw [show n1 :: n0 :: r2 = List.drop (get16 b4 b5) rest from hr.symm, List.take_append_drop]
              · simp at h

/-- what the parser returns always satisfies the bounds of the round trip: 16-bit version and suite, master
    secret and certificate count below 2^16, certificates below 2^32 bytes -/
theorem unmarshal_wf (b : Bytes) (s : SState) (h : unmarshal b = some s) : WF s := by
  unfold unmarshal at h
  split at h
  · simp at h
  · dsimp only at h
    split at h
    · simp at h
    · rename_i hml
      split at h
      · simp at h
      · split at h
        · simp at h
        · split at h
          · rename_i cs hcs
            cases h
            obtain ⟨c1, _, c3⟩ := unmarshalCerts_sound _ _ _ hcs
            refine ⟨get16_lt _ _, get16_lt _ _, ?_, ?_, c3⟩
            · show (List.take _ _).length < 65536
              rw [List.length_take]
              exact Nat.lt_of_le_of_lt (Nat.min_le_left _ _) (get16_lt _ _)
            · show cs.length < 65536
              rw [c1]; exact get16_lt _ _
          · simp at h

/-- T1 `unmarshal_iff`: the accepted inputs, stated outright: `b` is read as `s` exactly when `s` is within
    the field bounds and `b` is its serialization. -/
theorem unmarshal_iff (b : Bytes) (s : SState) : unmarshal b = some s ↔ WF s ∧ marshal s = b :=
  ⟨fun h => ⟨unmarshal_wf b s h, marshal_unmarshal b s h⟩, fun ⟨hw, hb⟩ => hb ▸ unmarshal_marshal_wf s hw⟩

/-- one state, one ticket plaintext: two byte strings that are read as the same state are equal … -/
theorem unmarshal_injective (b1 b2 : Bytes) (s : SState) (h1 : unmarshal b1 = some s) (h2 : unmarshal b2 = some s) :
    b1 = b2 := by
  rw [← marshal_unmarshal b1 s h1, ← marshal_unmarshal b2 s h2]

/-- … and two states within the bounds with the same serialization are equal -/
theorem marshal_injective (s1 s2 : SState) (h1 : WF s1) (h2 : WF s2) (h : marshal s1 = marshal s2) : s1 = s2 := by
  have r1 := unmarshal_marshal_wf s1 h1
  rw [h, unmarshal_marshal_wf s2 h2] at r1
  exact (Option.some.inj r1).symm

/-- the length of a serialization: 8 bytes of fixed fields, the master secret, 4 + length per certificate -/
theorem marshal_length (s : SState) :
    (marshal s).length = 8 + s.master.length + (marshalCerts s.certs).length := by
  simp only [marshal, put16, List.length_append, List.length_cons, List.length_nil]; omega

/-- T1 `unmarshal_total`: `unmarshal` is a total function (a Lean definition by structural recursion on the
    certificate count; it returns `none` where the Go code returns false) and what it returns lies inside
    the input: the master secret and every certificate are no longer than the input — a length field never
    makes it claim bytes that are not there. -/
theorem unmarshal_total (b : Bytes) (s : SState) (h : unmarshal b = some s) :
    s.master.length ≤ b.length ∧ ∀ c ∈ s.certs, c.length ≤ b.length := by
  have hb := marshal_unmarshal b s h
  have hl := marshal_length s
  rw [hb] at hl
  refine ⟨by omega, fun c hc => ?_⟩
  have := mem_marshalCerts_length s.certs c hc
  omega

/-- shorter than the 8 bytes of fixed fields: rejected (the Go code returns before indexing) -/
theorem unmarshal_short (b : Bytes) (h : b.length < 8) : unmarshal b = none := by
  unfold unmarshal; rw [if_pos h]

/-- T1 `no_trailing_bytes`: an accepted serialization followed by anything is rejected. -/
theorem no_trailing_bytes (b t : Bytes) (s : SState) (h : unmarshal b = some s) (ht : t ≠ []) :
    unmarshal (b ++ t) = none := by
  have hw := unmarshal_wf b s h
  have hb := marshal_unmarshal b s h
  obtain ⟨vers, suite, master, certs⟩ := s
  obtain ⟨hv, hs, hm, hn, hc⟩ := hw
  simp only at hv hs hm hn hc
  have hcs := unmarshalCerts_no_trailing _ _ t _ (unmarshalCerts_marshalCerts certs hc) ht
  rw [← hb]
  simp only [unmarshal, marshal, put16]
  simp only [List.cons_append, List.nil_append, List.length_cons, List.getD_eq_getElem?_getD,
    List.getElem?_cons_zero, List.getElem?_cons_succ, Option.getD_some, List.drop_succ_cons, List.drop_zero,
    get16_put16 vers hv, get16_put16 suite hs, get16_put16 master.length hm, List.append_assoc]
  rw [if_neg (by simp only [List.length_append, List.length_cons]; omega), if_neg (by simp), List.drop_left, List.take_left]
  simp only [List.length_cons, List.getElem?_cons_zero,
    List.getElem?_cons_succ, Option.getD_some, List.drop_succ_cons, List.drop_zero, get16_put16 certs.length hn]
  have hge := marshalCerts_length_ge certs
  rw [if_neg (by omega), if_neg (by simp only [List.length_append]; omega), hcs]

/-- the truncation `marshal` performs outside the bounds is real: a master secret of 65536 bytes is
    written with length field 0, and the parser then rejects the result (a state outside `WF` does not
    survive the round trip — the hypotheses of `unmarshal_marshal` are needed) -/
theorem marshal_truncates : (marshal ⟨0x0101, 0xe013, List.replicate 65536 0, []⟩).take 6 = [1, 1, 0xe0, 0x13, 0, 0] := by
  simp only [marshal, put16, List.length_replicate, List.cons_append, List.nil_append, List.take_succ_cons, List.take_zero]
  decide

/-- Non-vacuity (tests): a GMSSL state with a 3-byte secret and two certificates (one empty) -/
def sample : SState := ⟨0x0101, 0xe013, [0xaa, 0xbb, 0xcc], [[1, 2], []]⟩

example : marshal sample = [1, 1, 0xe0, 0x13, 0, 3, 0xaa, 0xbb, 0xcc, 0, 2, 0, 0, 0, 2, 1, 2, 0, 0, 0, 0] := by decide
example : unmarshal (marshal sample) = some sample := by decide
example : WF sample := by decide
example : unmarshal (marshal sample ++ [0]) = none := by decide
example : unmarshal ((marshal sample).dropLast) = none := by decide
-- the certificate count says 3, two follow
example : unmarshal [1, 1, 0xe0, 0x13, 0, 0, 0, 3, 0, 0, 0, 0, 0, 0, 0, 0] = none := by decide

end Props.C16Codec
