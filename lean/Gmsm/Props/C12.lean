/-
C12 — SM4-GCM helpers compute standard GCM and authenticate all inputs.
Property theorems only (helpers in Gmsm/Proofs/GCM.lean).  The repaired sm4/sm4_gcm.go is compared
with `Spec.GCM` over `Spec.SM4` on every run (and so is crypto/cipher's GCM over sm4.NewCipher, the
path the TLS suites use); these theorems are about `Spec.GCM`.
-/
import Gmsm.Proofs.GCM
import Gmsm.Props.C05
namespace Props.C12
open Gmsm Spec.GCM Proofs.GCM Proofs.Modes

/-- T1 `dec_enc`: for every block cipher with 16-byte outputs, every IV, additional data and
    plaintext, authenticated decryption of what authenticated encryption produced accepts the tag and
    returns exactly the plaintext. -/
theorem dec_enc (E : Bytes → Bytes) (hE : ∀ x, (E x).length = 16) (iv p a : Bytes) :
    ad E iv (ae E iv p a).1 a (ae E iv p a).2 = some p := by
  unfold ad ae
  simp only [if_true]
  congr 1
  unfold gctrAll
  have hlen := gctr_length E hE (p.length / 16 + 1)
    (inc32 (j0 (ofBytes (E (List.replicate 16 0))) iv)) p (by left; omega)
  rw [hlen]
  rcases gctr_involution E hE (p.length / 16 + 1) (inc32 (j0 (ofBytes (E (List.replicate 16 0))) iv)) p with h | h
  · exact h
  · omega

/-- instantiated with SM4 -/
theorem sm4gcm_dec_enc (key iv p a : Bytes) :
    ad (Spec.SM4.encrypt key) iv (ae (Spec.SM4.encrypt key) iv p a).1 a (ae (Spec.SM4.encrypt key) iv p a).2 = some p :=
  dec_enc _ (Props.C05.enc_length key) iv p a

/-- the ciphertext has the plaintext's length and the tag has 16 bytes -/
theorem ae_lengths (E : Bytes → Bytes) (hE : ∀ x, (E x).length = 16) (iv p a : Bytes) :
    (ae E iv p a).1.length = p.length ∧ (ae E iv p a).2.length = 16 := by
  unfold ae
  constructor
  · exact gctr_length E hE _ _ p (by left; omega)
  · simp [xorBytes_length, hE, toBytes, i2osp]

/-- T2 `tag_flip`: a tag different from the recomputed one is rejected (and only such a tag). -/
theorem tag_flip (E : Bytes → Bytes) (iv c a t : Bytes) :
    (ad E iv c a t).isSome ↔
      t = xorBytes (toBytes (ghash (ofBytes (E (List.replicate 16 0))) a c))
            (E (toBytes (j0 (ofBytes (E (List.replicate 16 0))) iv))) := by
  unfold ad
  simp only
  split
  · rename_i h; simp only [Option.isSome_some, true_iff]; exact h.symm
  · rename_i h; simp only [Option.isSome_none, Bool.false_eq_true, false_iff]; intro h'; exact h h'.symm

/-- T1 `mul_linear`: GF(2^128) multiplication (SP 800-38D Algorithm 1, which is what
    sm4_gcm.go's `multiplication` computes — compared on every run) is linear in its first argument. -/
theorem mul_linear (a b y : B128) : mulGF (a ^^^ b) y = mulGF a y ^^^ mulGF b y := mulGF_xor_left a b y

/-- difference propagation through the GHASH chain -/
theorem ghash_tail_diff (h : B128) (post : List B128) (acc d : B128) :
    post.foldl (fun acc b => mulGF (acc ^^^ b) h) (acc ^^^ d) =
      post.foldl (fun acc b => mulGF (acc ^^^ b) h) acc ^^^ post.foldl (fun acc _ => mulGF acc h) d := by
  induction post generalizing acc d with
  | nil => rfl
  | cons c cs ih =>
    simp only [List.foldl_cons]
    have : acc ^^^ d ^^^ c = (acc ^^^ c) ^^^ d := by ac_rfl
    rw [this, mulGF_xor_left, ih]

theorem mul_chain_ne_zero (h : B128) (hinj : ∀ d, mulGF d h = 0 → d = 0) (post : List B128) (d : B128)
    (hd : d ≠ 0) : post.foldl (fun acc _ => mulGF acc h) d ≠ 0 := by
  induction post generalizing d with
  | nil => exact hd
  | cons _ cs ih => exact ih (mulGF d h) (fun hz => hd (hinj d hz))

/-- T2 `ghash_single_block_partial`: for every hash key `H` for which multiplication by `H` is
    injective (true of every non-zero element of a field; stated here as a hypothesis because
    "GF(2^128) has no zero divisors" is not proved for the bit-level `mulGF`), changing exactly one
    block of the GHASH input — one block of the additional data or of the ciphertext — changes
    GHASH, hence the tag.  The unconditional statement for multi-block changes is false for any
    polynomial hash (collisions exist with probability 2^-128) and is not claimed. -/
theorem ghash_single_block_partial (h : B128) (hinj : ∀ d, mulGF d h = 0 → d = 0)
    (pre post : List B128) (b b' : B128) (hb : b ≠ b') :
    ghashBlocks h (pre ++ b :: post) ≠ ghashBlocks h (pre ++ b' :: post) := by
  unfold ghashBlocks
  simp only [List.foldl_append, List.foldl_cons]
  generalize pre.foldl (fun acc b => mulGF (acc ^^^ b) h) 0 = acc
  have e : acc ^^^ b = (acc ^^^ b') ^^^ (b ^^^ b') := by
    rw [BitVec.xor_assoc, ← BitVec.xor_assoc b', BitVec.xor_comm b' b, BitVec.xor_assoc b, BitVec.xor_self, BitVec.xor_zero]
  rw [e, mulGF_xor_left, ghash_tail_diff]
  intro heq
  have hne : b ^^^ b' ≠ 0 := by
    intro hz
    apply hb
    have := congrArg (· ^^^ b') hz
    simp only [BitVec.xor_assoc, BitVec.xor_self, BitVec.xor_zero] at this
    rw [this]; simp
  have hz := mul_chain_ne_zero h hinj post (mulGF (b ^^^ b') h) (fun hz => hne (hinj _ hz))
  apply hz
  -- x ^^^ y = x → y = 0
  have := congrArg (fun t => List.foldl (fun acc b => mulGF (acc ^^^ b) h) (mulGF (acc ^^^ b') h) post ^^^ t) heq
  simp only [← BitVec.xor_assoc, BitVec.xor_self, BitVec.zero_xor] at this
  exact this

/-- T1 `counter_no_repeat`: the counter blocks used for one message are pairwise distinct as long as
    fewer than 2^32 blocks are encrypted (inc32 only touches, and cycles through, the low 32 bits). -/
theorem counter_no_repeat (j : B128) (i k : Nat) (hi : i < 2^32) (hk : k < 2^32) (hik : i ≠ k) :
    iterInc i j ≠ iterInc k j := by
  intro h
  have h1 := iterInc_low i j
  have h2 := iterInc_low k j
  rw [h] at h1
  rw [h1] at h2
  have h3' := congrArg (fun t => t - BitVec.extractLsb' 0 32 j) h2
  simp only [BitVec.add_comm (BitVec.extractLsb' 0 32 j), BitVec.add_sub_cancel] at h3'
  have h3 := congrArg BitVec.toNat h3'
  simp only [BitVec.toNat_ofNat] at h3
  rw [Nat.mod_eq_of_lt hi, Nat.mod_eq_of_lt hk] at h3
  exact hik h3

/-- Non-vacuity / validation (a test): RFC 8998 appendix A.2 SM4-GCM vector, kernel-evaluated. -/
example :
    let key : Bytes := [0x01,0x23,0x45,0x67,0x89,0xAB,0xCD,0xEF,0xFE,0xDC,0xBA,0x98,0x76,0x54,0x32,0x10]
    let iv : Bytes := [0x00,0x00,0x12,0x34,0x56,0x78,0x00,0x00,0x00,0x00,0xAB,0xCD]
    let aad : Bytes := [0xFE,0xED,0xFA,0xCE,0xDE,0xAD,0xBE,0xEF,0xFE,0xED,0xFA,0xCE,0xDE,0xAD,0xBE,0xEF,0xAB,0xAD,0xDA,0xD2]
    let pt : Bytes := List.replicate 8 0xAA ++ List.replicate 8 0xBB
    (ae (Spec.SM4.encrypt key) iv pt aad).1 =
      [0x17,0xF3,0x99,0xF0,0x8C,0x67,0xD5,0xEE,0x19,0xD0,0xDC,0x99,0x69,0xC4,0xBB,0x7D] := by
  decide +kernel

end Props.C12
