/-
C10 (continued) — DNS name constraints and the FORM of the requested host.

As found, `isValid` (x509/verify.go) compared the permitted DNS domains of every certificate of a path with
the raw text of `VerifyOptions.DNSName`: a host written with a trailing dot, an IP address (plain or in
brackets) and "no host at all" were all refused by every name-constrained CA, although `VerifyHostname`
reads the same text as a host (drops the dot, matches IP addresses against IP SANs) and accepts it.  The
repaired rule (`Model.X509.constraintName`, `permittedOK`): the permitted domains are compared with the
requested DNS name without its trailing dot, and not at all when no name or an IP address is requested.

Theorems (all for every pool, signature relation, option set and budget):
* `verify_name_constraints_respected` — nothing is widened: whenever a DNS name is requested, every
  certificate of every returned chain permits that name.
* `isValid_no_name_refusal`, `verify_without_dns_name` — for an IP host, or no host, DNS name constraints
  play no part: the verdict is the verdict for the same PKI with all permitted domains deleted.
* `verify_congr_host`, `verify_dns_host_form` — the verdict depends on the text of the host only through
  what `VerifyHostname` makes of it and through the name without its trailing dot.
-/
import Gmsm.Props.C10Complete
import Gmsm.Props.C10Host
namespace Props.C10
open Model.X509

/-! ### 1. the constraint clause of `isValid` -/

/-- certificate `c` permits the DNS name `name`: it has no permitted DNS domains, or one of them matches -/
def Permits (c : Cert) (name : String) : Prop :=
  c.permitted = [] ∨ ∃ p ∈ c.permitted, matchNameConstraint name p = true

/-- an ISSUER (`kind` = intermediate or root) that passes `isValid` permits the requested name.  (Since the repair
    of round 11 the clause is not evaluated for the certificate being verified: hypothesis `hk`.) -/
theorem permittedOK_of_isValid (c : Cert) (kind : Kind) (chain : List Cert) (o : Opts) (hk : kind ≠ .leaf)
    (h : isValid c kind chain o = none) : permittedOK c o = true := by
  cases hp : permittedOK c o with
  | true => rfl
  | false =>
    have hkb : (kind != Kind.leaf) = true := by cases kind <;> first | rfl | exact absurd rfl hk
    unfold isValid at h
    rw [hp, hkb] at h
    simp only [Bool.not_false, Bool.and_self, if_true] at h
    repeat' split at h
    all_goals cases h

theorem permits_of_permittedOK (c : Cert) (o : Opts) (name : String) (hn : constraintName o = some name)
    (h : permittedOK c o = true) : Permits c name := by
  unfold permittedOK at h
  rw [hn] at h
  simp only [Bool.or_eq_true, List.isEmpty_iff, List.any_eq_true] at h
  exact h

/-- `isValid_no_name_refusal`: when no DNS name is requested (no host, or an IP address, plain or in brackets),
    `isValid` never answers CANotAuthorizedForThisName — whatever the permitted domains of the certificate. -/
theorem isValid_no_name_refusal (c : Cert) (kind : Kind) (chain : List Cert) (o : Opts)
    (hn : constraintName o = none) : isValid c kind chain o ≠ some .notAuthorizedForName := by
  have hp : permittedOK c o = true := by unfold permittedOK; rw [hn]
  unfold isValid
  rw [hp]
  simp only [Bool.not_true, Bool.and_false, Bool.false_eq_true, if_false]
  intro h
  repeat' split at h
  all_goals cases h

/-- no host, or an IP host: no DNS name -/
theorem constraintName_none_iff (o : Opts) :
    constraintName o = none ↔ (o.dnsName.length = 0 ∨ o.hostIsIP = true) := by
  unfold constraintName
  by_cases h : (o.dnsName.length == 0 || o.hostIsIP) = true
  · simp only [h, if_true, true_iff]
    simpa only [Bool.or_eq_true, beq_iff_eq] using h
  · simp only [h, Bool.false_eq_true, if_false]
    constructor
    · intro h2; cases h2
    · intro h2
      exact absurd (by simpa only [Bool.or_eq_true, beq_iff_eq] using h2) h

/-- `isValid` depends on the options only through the verification time and the DNS name for constraints -/
theorem isValid_congr (c : Cert) (kind : Kind) (chain : List Cert) (o o2 : Opts)
    (hnow : o.now = o2.now) (hn : constraintName o = constraintName o2) :
    isValid c kind chain o = isValid c kind chain o2 := by
  unfold isValid permittedOK
  rw [hnow, hn]

/-! ### 2. nothing is widened: a requested DNS name lies in every permitted subtree of the path -/

theorem goodSuffix_permittedOK (roots inters : List Cert) (o : Opts) (suffix : List Cert) :
    ∀ chain, GoodSuffix roots inters o chain suffix → ∀ c ∈ suffix, permittedOK c o = true := by
  induction suffix with
  | nil => intro chain hg; exact absurd hg (by simp [GoodSuffix])
  | cons i rest ih =>
    intro chain hg c hc
    cases rest with
    | nil =>
      obtain ⟨_, _, hv, _⟩ := hg
      have : c = i := by simpa using hc
      subst this
      exact permittedOK_of_isValid _ _ _ _ (by decide) hv
    | cons r rest =>
      obtain ⟨_, _, hv, _, hg2⟩ := hg
      rcases List.mem_cons.mp hc with rfl | hc
      · exact permittedOK_of_isValid _ _ _ _ (by decide) hv
      · exact ih (chain ++ [i]) hg2 c hc

/-- `verify_name_constraints_respected`: whenever `Verify` succeeds for a requested DNS name (`name` = the
    host without its trailing dot; the host is not an IP address), EVERY ISSUER of EVERY returned chain - the
    intermediates and the root, `chain.tail` - permits `name`: it has no permitted DNS domains or one of them
    matches.  (The repair of round 10 widens nothing: it is the requested name itself, normalised the way
    `VerifyHostname` normalises it, that is confined to the permitted subtrees.)
    STATEMENT CHANGED in round 11: it used to say `∀ c ∈ chain` (the verified certificate included).  That was the
    defect: the permitted domains of the verified certificate constrain what is issued BELOW it, the property asks
    for the constraints of the issuers; the clause about the leaf is false for the repaired code
    (`Props.C10.ex_leaf_own_constraints_accepted` in C10Leaf.lean). -/
theorem verify_name_constraints_respected (roots inters : List Cert) (leaf : Cert) (o : Opts)
    (chains : List (List Nat)) (name : String)
    (h : verify roots inters leaf o = .ok chains) (hn : constraintName o = some name) :
    ∀ ids ∈ chains, ∃ chain : List Cert, ids = chain.map (·.id) ∧ GoodPath roots inters o leaf chain ∧
      ∀ c ∈ chain.tail, Permits c name := by
  intro ids hids
  obtain ⟨chain, hch, hg, _⟩ := (verify_only_if_good_path roots inters leaf o chains h).2 ids hids
  refine ⟨chain, hch, hg, ?_⟩
  intro c hc
  apply permits_of_permittedOK c o name hn
  rcases hg with ⟨rfl, _⟩ | ⟨_, suffix, rfl, hs⟩
  · simp at hc
  · have hc2 : c ∈ suffix := by simpa using hc
    exact goodSuffix_permittedOK roots inters o suffix [leaf] hs c hc2

/-! ### 3. the verdict depends on the host only through `VerifyHostname` and the name without its dot -/

theorem buildChains_congr (roots inters : List Cert) (o o2 : Opts)
    (h : ∀ c kind chain, isValid c kind chain o = isValid c kind chain o2) :
    ∀ fuel steps chain, buildChains roots inters o fuel steps chain = buildChains roots inters o2 fuel steps chain := by
  intro fuel
  induction fuel with
  | zero => intro steps chain; simp [buildChains]
  | succ fuel ih =>
    intro steps chain
    rw [buildChains, buildChains]
    simp only [h, ih]

/-- `verify_congr_host`: two option sets with the same time and usages give the same verdict (the same chains
    or the same error class) for every PKI, provided (1) `VerifyHostname` - where it is consulted - answers the
    same for the leaf and (2) the DNS name that constraints are compared with is the same. -/
theorem verify_congr_host (roots inters : List Cert) (leaf : Cert) (o o2 : Opts)
    (hnow : o.now = o2.now) (hus : o.usages = o2.usages)
    (hn : constraintName o = constraintName o2)
    (hh : (decide (o.dnsName.length > 0) && !verifyHostname leaf o) = (decide (o2.dnsName.length > 0) && !verifyHostname leaf o2)) :
    verify roots inters leaf o = verify roots inters leaf o2 := by
  have hv : ∀ c kind chain, isValid c kind chain o = isValid c kind chain o2 :=
    fun c kind chain => isValid_congr c kind chain o o2 hnow hn
  unfold verify
  simp only [hv, buildChains_congr roots inters o o2 hv, hus, hh]

/-- `matchHostnames` looks at the host only after dropping its trailing dot -/
theorem matchHostnames_host_congr (pattern h1 h2 : String) (h : trimDot h1 = trimDot h2) :
    matchHostnames pattern h1 = matchHostnames pattern h2 := by
  rw [matchHostnames_eq, matchHostnames_eq, h]

/-- `verify_dns_host_form`: for two non-empty hosts that are not IP addresses and that differ at most by the
    trailing dot (`trimDot` gives the same name, before and after lower-casing - e.g. `www.example.com.` and
    `www.example.com`), `Verify` gives the same verdict for every PKI: the same chains or the same error.
    As found, the first was refused by every name-constrained CA. -/
theorem verify_dns_host_form (roots inters : List Cert) (leaf : Cert) (o o2 : Opts)
    (hnow : o.now = o2.now) (hus : o.usages = o2.usages)
    (hip : o.hostIsIP = false) (hip2 : o2.hostIsIP = false)
    (hne : o.dnsName.length > 0) (hne2 : o2.dnsName.length > 0)
    (ht : trimDot o.dnsName = trimDot o2.dnsName)
    (htl : trimDot (lowerASCII o.dnsName) = trimDot (lowerASCII o2.dnsName)) :
    verify roots inters leaf o = verify roots inters leaf o2 := by
  apply verify_congr_host roots inters leaf o o2 hnow hus
  · unfold constraintName
    have e1 : (o.dnsName.length == 0) = false := by simp only [beq_eq_false_iff_ne, ne_eq]; omega
    have e2 : (o2.dnsName.length == 0) = false := by simp only [beq_eq_false_iff_ne, ne_eq]; omega
    simp [e1, e2, hip, hip2, ht]
  · have hvh : verifyHostname leaf o = verifyHostname leaf o2 := by
      unfold verifyHostname
      simp only [hip, hip2, Bool.false_eq_true, if_false]
      simp only [matchHostnames_host_congr _ _ _ htl]
    simp [hne, hne2, hvh]

/-! ### 4. without a DNS name, permitted DNS domains play no part -/

/-- the same certificate without its permitted DNS domains -/
def dropPermitted (c : Cert) : Cert := { c with permitted := [] }

theorem findVerifiedParents_dropPermitted (pool : List Cert) (c : Cert) :
    findVerifiedParents (pool.map dropPermitted) (dropPermitted c) = (findVerifiedParents pool c).map dropPermitted := by
  unfold findVerifiedParents
  simp only [List.filter_map, ← List.map_append]
  rfl

theorem isValid_dropPermitted (c : Cert) (kind : Kind) (chain : List Cert) (o : Opts) (hn : constraintName o = none) :
    isValid (dropPermitted c) kind (chain.map dropPermitted) o = isValid c kind chain o := by
  unfold isValid permittedOK
  rw [hn]
  simp only [List.getLast?_map, List.length_map]
  cases chain.getLast? <;> rfl

theorem any_id_dropPermitted (chain : List Cert) (r : Cert) :
    (chain.map dropPermitted).any (·.id == (dropPermitted r).id) = chain.any (·.id == r.id) := by
  rw [List.any_map]; rfl

/-- the accumulator of the search, with every certificate stripped -/
def dropAcc (acc : List (List Cert) × Nat) : List (List Cert) × Nat := (acc.1.map (·.map dropPermitted), acc.2)

theorem foldl_dropAcc (f g : List (List Cert) × Nat → Cert → List (List Cert) × Nat)
    (hfg : ∀ acc i, g (dropAcc acc) (dropPermitted i) = dropAcc (f acc i)) (l : List Cert) :
    ∀ acc, (l.map dropPermitted).foldl g (dropAcc acc) = dropAcc (l.foldl f acc) := by
  induction l with
  | nil => intro acc; rfl
  | cons i l ih => intro acc; simp only [List.map_cons, List.foldl_cons, hfg, ih]

theorem buildChains_dropPermitted (roots inters : List Cert) (o : Opts) (hn : constraintName o = none) :
    ∀ fuel steps chain,
      buildChains (roots.map dropPermitted) (inters.map dropPermitted) o fuel steps (chain.map dropPermitted) =
        dropAcc (buildChains roots inters o fuel steps chain) := by
  intro fuel
  induction fuel with
  | zero => intro steps chain; simp [buildChains, dropAcc]
  | succ fuel ih =>
    intro steps chain
    by_cases hs : steps = 0
    · rw [buildChains, buildChains]; simp [hs, dropAcc]
    · cases hc : chain.getLast? with
      | none =>
        have hc2 : (chain.map dropPermitted).getLast? = none := by rw [List.getLast?_map, hc]; rfl
        rw [buildChains, buildChains]; simp [hs, hc, hc2, dropAcc]
      | some c =>
        have hc2 : (chain.map dropPermitted).getLast? = some (dropPermitted c) := by rw [List.getLast?_map, hc]; rfl
        rw [buildChains_succ _ _ o fuel steps _ _ hs hc2, buildChains_succ _ _ o fuel steps _ _ hs hc,
          findVerifiedParents_dropPermitted]
        have hroots : (viaRoots (roots.map dropPermitted) o (chain.map dropPermitted) (dropPermitted c), steps - 1) =
            dropAcc (viaRoots roots o chain c, steps - 1) := by
          unfold viaRoots dropAcc
          rw [findVerifiedParents_dropPermitted]
          simp only [List.filterMap_map, List.map_filterMap, Prod.mk.injEq, and_true]
          congr 1
          funext r
          simp only [Function.comp, any_id_dropPermitted, isValid_dropPermitted _ _ _ _ hn]
          split
          · rfl
          · split
            · rfl
            · simp
        rw [hroots]
        apply foldl_dropAcc
        intro acc i
        unfold interStep
        simp only [any_id_dropPermitted, isValid_dropPermitted _ _ _ _ hn]
        split
        · rfl
        · split
          · rfl
          · have := ih acc.2 (chain ++ [i])
            simp only [List.map_append, List.map_cons, List.map_nil] at this
            simp only [dropAcc] at this ⊢
            rw [this]
            simp

theorem checkChainForKeyUsage_dropPermitted (chain : List Cert) (us : List Nat) :
    checkChainForKeyUsage (chain.map dropPermitted) us = checkChainForKeyUsage chain us := by
  unfold checkChainForKeyUsage
  simp only [List.isEmpty_map, ← List.map_reverse, List.foldl_map]
  rfl

/-- `verify_without_dns_name`: when no DNS name is requested - the host is empty (what the gmtls server passes
    when it verifies a client certificate) or an IP address, plain or in brackets - `Verify` gives, for every
    PKI, exactly the verdict it gives for the same PKI with the permitted DNS domains of all certificates
    deleted: the same chains (as certificate identities) or the same error class.  As found, every path through
    a certificate with permitted DNS domains was refused for such a host. -/
theorem verify_without_dns_name (roots inters : List Cert) (leaf : Cert) (o : Opts)
    (hn : o.dnsName.length = 0 ∨ o.hostIsIP = true) :
    verify roots inters leaf o =
      verify (roots.map dropPermitted) (inters.map dropPermitted) (dropPermitted leaf) o := by
  have hn := (constraintName_none_iff o).mpr hn
  have hb := buildChains_dropPermitted roots inters o hn (roots.length + inters.length + 2) maxSteps [leaf]
  simp only [List.map_cons, List.map_nil] at hb
  have hl := isValid_dropPermitted leaf .leaf [] o hn
  simp only [List.map_nil] at hl
  have ha := any_id_dropPermitted roots leaf
  unfold verify
  rw [hl, ha, List.length_map, List.length_map, hb]
  have hcr : (dropPermitted leaf).critical = leaf.critical := rfl
  have hvh : verifyHostname (dropPermitted leaf) o = verifyHostname leaf o := rfl
  rw [hcr, hvh]
  have hcands : (if roots.any (·.id == leaf.id) = true then [[dropPermitted leaf]]
      else (dropAcc (buildChains roots inters o (roots.length + inters.length + 2) maxSteps [leaf])).1) =
      (if roots.any (·.id == leaf.id) = true then [[leaf]]
      else (buildChains roots inters o (roots.length + inters.length + 2) maxSteps [leaf]).1).map (·.map dropPermitted) := by
    split <;> simp [dropAcc]
  rw [hcands]
  generalize (if roots.any (·.id == leaf.id) = true then [[leaf]]
      else (buildChains roots inters o (roots.length + inters.length + 2) maxSteps [leaf]).1) = cands
  have hids : ∀ l : List (List Cert), (l.map (·.map dropPermitted)).map (·.map (·.id)) = l.map (·.map (·.id)) := by
    intro l
    rw [List.map_map]
    apply List.map_congr_left
    intro x _
    simp only [Function.comp, List.map_map]
    rfl
  simp only [List.isEmpty_map, List.filter_map, Function.comp_def, checkChainForKeyUsage_dropPermitted, hids]

/-! ### 5. non-vacuity: the PKI of the report -/

/-- root ← intermediate (permitted DNS domains: example.com) ← leaf (DNS www.example.com, IP 10.1.2.3) -/
def ncInt : Cert := { exInt with permitted := ["example.com"] }
def ncLeaf : Cert := { exLeaf with ips := ["10.1.2.3"] }
def ipOpts : Opts := ⟨0, "10.1.2.3", true, "10.1.2.3", []⟩
def bracketOpts : Opts := ⟨0, "[10.1.2.3]", true, "10.1.2.3", []⟩
def dotOpts : Opts := ⟨0, "www.example.com.", false, "", []⟩
def plainOpts : Opts := ⟨0, "www.example.com", false, "", []⟩

/-- the hosts that were refused as found: the IP address of the leaf, the same in brackets, no host -/
example : (match verify [exRoot] [ncInt] ncLeaf ipOpts with | .ok cs => cs | _ => []) = [[3, 2, 1]] := by decide
example : (match verify [exRoot] [ncInt] ncLeaf bracketOpts with | .ok cs => cs | _ => []) = [[3, 2, 1]] := by decide
example : (match verify [exRoot] [ncInt] ncLeaf exOpts with | .ok cs => cs | _ => []) = [[3, 2, 1]] := by decide
/-- an IP address the leaf does not carry is still refused (by `VerifyHostname`) -/
example : (match verify [exRoot] [ncInt] ncLeaf ⟨0, "::1", true, "::1", []⟩ with | .hostname => true | _ => false) = true := by
  decide
/-- `verify_without_dns_name` applies: the verdict is the one for the PKI without permitted domains -/
example : verify [exRoot] [ncInt] ncLeaf bracketOpts = verify [exRoot] [exInt] ncLeaf bracketOpts :=
  verify_without_dns_name [exRoot] [ncInt] ncLeaf bracketOpts (Or.inr rfl)

/-- `verify_dns_host_form` applies to `a.b.cn.` / `a.b.cn` and to `A.b.cn.` / `A.b.cn` (short names: lower-casing a
    string is slow in the kernel): every hypothesis is discharged by kernel evaluation, so the two hosts get the
    same verdict from every PKI. -/
example (roots inters : List Cert) (leaf : Cert) :
    verify roots inters leaf ⟨0, "a.b.cn.", false, "", []⟩ = verify roots inters leaf ⟨0, "a.b.cn", false, "", []⟩ :=
  verify_dns_host_form roots inters leaf _ _ rfl rfl rfl rfl (by decide +kernel) (by decide +kernel)
    (by decide +kernel) (by decide +kernel)
example (roots inters : List Cert) (leaf : Cert) :
    verify roots inters leaf ⟨0, "A.b.cn.", false, "", []⟩ = verify roots inters leaf ⟨0, "A.b.cn", false, "", []⟩ :=
  verify_dns_host_form roots inters leaf _ _ rfl rfl rfl rfl (by decide +kernel) (by decide +kernel)
    (by decide +kernel) (by decide +kernel)

/-- the constraint clause itself on these hosts (kernel evaluation): the intermediate permits the name with and
    without the dot, a CA for other.org does not; without a DNS name it is not consulted -/
example : constraintName dotOpts = some "www.example.com" := by decide +kernel
example : permittedOK ncInt dotOpts = true := by decide +kernel
example : permittedOK ncInt plainOpts = true := by decide +kernel
example : permittedOK { exInt with permitted := ["other.org"] } dotOpts = false := by decide +kernel
example : permittedOK { exInt with permitted := ["other.org"] } bracketOpts = true := by decide +kernel

/- end to end on the compiled model (`String.splitOn` does not reduce in the kernel; the same evaluations are
    compared with the real `Verify` by the `chain` ops of harness/c10nc.go): trailing dot and upper case are
    accepted, a name outside the permitted domains is still refused for every spelling -/
#guard trimDot dotOpts.dnsName == trimDot plainOpts.dnsName && trimDot (lowerASCII "WWW.Example.COM.") == trimDot (lowerASCII plainOpts.dnsName)
#guard (match verify [exRoot] [ncInt] ncLeaf dotOpts with | .ok cs => cs | _ => []) = [[3, 2, 1]]
#guard (match verify [exRoot] [ncInt] ncLeaf ⟨0, "WWW.Example.COM.", false, "", []⟩ with | .ok cs => cs | _ => []) = [[3, 2, 1]]
#guard (match verify [exRoot] [{ exInt with permitted := ["other.org"] }] ncLeaf dotOpts with | .noChain => true | _ => false)
#guard (match verify [exRoot] [{ exInt with permitted := ["other.org"] }] ncLeaf plainOpts with | .noChain => true | _ => false)

end Props.C10
