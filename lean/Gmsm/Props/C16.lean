/-
C16 — Resumption preserves the session or falls back; tickets are authenticated.
Theorems about `Model.Resume` (server gate, ticket issue/refresh, client offer, LRU cache) over arbitrary
histories of connections, key rotations and configuration changes.
-/
import Gmsm.Model.Resume
namespace Props.C16
open Model.Resume

/-- T1 `gate_iff`: the server's resumption gate, stated outright.  A ticket is accepted exactly when
    tickets are enabled, its bytes are those the server issued (MAC), it is sealed under a key that is
    still configured (`old` tells whether that key is not the current one), its session has the
    connection's version, a suite the client offers and the configuration lists and can serve, and the
    client-certificate policy is compatible with the certificates stored in the session.  The accepted
    state is the one sealed in the ticket. -/
theorem gate_iff (m : Mode) (s : Server) (hello : List Suite) (t : Ticket) (st : Sess) (old : Bool) :
    checkForResumption m s hello t = some (st, old) ↔
      s.disabled = false ∧ t.intact = true ∧ (∃ i, s.keys.idxOf? t.key = some i ∧ old = decide (i > 0)) ∧
      st = t.sess ∧ vers m s = st.vers ∧ st.suite ∈ hello ∧ st.suite ∈ resumeSupported s ∧
      servable m s st.suite = true ∧ ¬ ((s.auth = 2 ∨ s.auth = 4) ∧ st.ccerts = 0) ∧ ¬ (st.ccerts ≠ 0 ∧ s.auth = 0) ∧
      ¬ (st.ccerts ≠ 0 ∧ s.auth ≥ 3 ∧ st.ctrust = false) := by
  unfold checkForResumption decryptTicket
  by_cases hd : s.disabled = true
  · simp [hd]
  · have hd' : s.disabled = false := by cases h : s.disabled <;> simp_all
    by_cases hi : t.intact = true
    · cases hk : s.keys.idxOf? t.key with
      | none => simp [hd', hi, hk]
      | some i =>
        simp only [hd', hi, hk, Bool.false_eq_true, if_false, Bool.not_true, true_and, Option.some.injEq,
          exists_eq_left']
        by_cases h1 : vers m s = t.sess.vers
        · by_cases h2 : t.sess.suite ∈ hello
          · by_cases h3 : t.sess.suite ∈ resumeSupported s
            · by_cases h4 : servable m s t.sess.suite = true
              · by_cases h5 : (s.auth = 2 ∨ s.auth = 4) ∧ t.sess.ccerts = 0
                · have : ((s.auth == 2 || s.auth == 4) && t.sess.ccerts == 0) = true := by
                    rcases h5 with ⟨h | h, hc⟩ <;> simp [h, hc]
                  simp only [h1, bne_self_eq_false, Bool.false_eq_true, if_false, List.contains_eq_mem, h2, decide_true,
                    Bool.not_true, h3, h4, Bool.and_self, this, if_true]
                  constructor
                  · intro h; cases h
                  · rintro ⟨_, rfl, _, _, _, _, hn, _⟩; exact absurd h5 hn
                · have e5 : ((s.auth == 2 || s.auth == 4) && t.sess.ccerts == 0) = false := by
                    cases hh : ((s.auth == 2 || s.auth == 4) && t.sess.ccerts == 0)
                    · rfl
                    · exfalso; apply h5; simp at hh; exact hh
                  by_cases h6 : t.sess.ccerts ≠ 0 ∧ s.auth = 0
                  · have : (t.sess.ccerts != 0 && s.auth == 0) = true := by simp [h6.1, h6.2]
                    simp only [h1, bne_self_eq_false, Bool.false_eq_true, if_false, List.contains_eq_mem, h2, decide_true,
                      Bool.not_true, h3, h4, Bool.and_self, e5, this, if_true]
                    constructor
                    · intro h; cases h
                    · rintro ⟨_, rfl, _, _, _, _, _, hn, _⟩; exact absurd h6 hn
                  · have e6 : (t.sess.ccerts != 0 && s.auth == 0) = false := by
                      cases hh : (t.sess.ccerts != 0 && s.auth == 0)
                      · rfl
                      · exfalso; apply h6; simp at hh; exact hh
                    by_cases h7 : t.sess.ccerts ≠ 0 ∧ s.auth ≥ 3 ∧ t.sess.ctrust = false
                    · have : (t.sess.ccerts != 0 && decide (s.auth ≥ 3) && !t.sess.ctrust) = true := by
                        simp [h7.1, h7.2.1, h7.2.2]
                      simp only [h1, bne_self_eq_false, Bool.false_eq_true, if_false, List.contains_eq_mem, h2, decide_true,
                        Bool.not_true, h3, h4, Bool.and_self, e5, e6, this, if_true]
                      constructor
                      · intro h; cases h
                      · rintro ⟨_, rfl, _, _, _, _, _, _, hn⟩; exact absurd h7 hn
                    · have e7 : (t.sess.ccerts != 0 && decide (s.auth ≥ 3) && !t.sess.ctrust) = false := by
                        cases hh : (t.sess.ccerts != 0 && decide (s.auth ≥ 3) && !t.sess.ctrust)
                        · rfl
                        · exfalso; apply h7; simp at hh; exact ⟨hh.1.1, hh.1.2, hh.2⟩
                      simp only [h1, bne_self_eq_false, Bool.false_eq_true, if_false, List.contains_eq_mem, h2, decide_true,
                        Bool.not_true, h3, h4, Bool.and_self, e5, e6, e7, Option.some.injEq, Prod.mk.injEq]
                      constructor
                      · rintro ⟨rfl, rfl⟩; exact ⟨rfl, rfl, rfl, h2, h3, h4, h5, h6, h7⟩
                      · rintro ⟨ho, rfl, _⟩; exact ⟨rfl, ho.symm⟩
              · have h4' : servable m s t.sess.suite = false := by cases h : servable m s t.sess.suite <;> simp_all
                simp only [h1, bne_self_eq_false, Bool.false_eq_true, if_false, List.contains_eq_mem, h2, decide_true,
                  Bool.not_true, h3, h4', Bool.and_false, Bool.not_false, if_true]
                constructor
                · intro h; cases h
                · rintro ⟨_, rfl, _, _, _, hs, _⟩; rw [h4'] at hs; cases hs
            · simp only [h1, bne_self_eq_false, Bool.false_eq_true, if_false, List.contains_eq_mem, h2, decide_true,
                Bool.not_true, h3, decide_false, Bool.false_and, Bool.not_false, if_true]
              constructor
              · intro h; cases h
              · rintro ⟨_, rfl, _, _, hs, _⟩; exact absurd hs h3
          · simp only [h1, bne_self_eq_false, Bool.false_eq_true, if_false, List.contains_eq_mem, h2, decide_false,
              Bool.not_false, if_true]
            constructor
            · intro h; cases h
            · rintro ⟨_, rfl, _, hs, _⟩; exact absurd hs h2
        · have : (vers m s != t.sess.vers) = true := by simp [h1]
          simp only [this, if_true]
          constructor
          · intro h; cases h
          · rintro ⟨_, rfl, hv, _⟩; exact absurd hv h1
    · have hi' : t.intact = false := by cases h : t.intact <;> simp_all
      simp [hd', hi']

/-- never resumes on a ticket that differs in any byte from one the server issued -/
theorem altered_ticket_never_resumes (m : Mode) (s : Server) (hello : List Suite) (t : Ticket) (h : t.intact = false) :
    checkForResumption m s hello t = none := by
  cases hc : checkForResumption m s hello t with
  | none => rfl
  | some p => obtain ⟨st, old⟩ := p; have := ((gate_iff m s hello t st old).mp hc).2.1; rw [h] at this; cases this

/-- never resumes a ticket sealed under a key that is no longer configured -/
theorem retired_key_never_resumes (m : Mode) (s : Server) (hello : List Suite) (t : Ticket) (h : t.key ∉ s.keys) :
    checkForResumption m s hello t = none := by
  cases hc : checkForResumption m s hello t with
  | none => rfl
  | some p =>
    obtain ⟨st, old⟩ := p
    obtain ⟨i, hi, _⟩ := ((gate_iff m s hello t st old).mp hc).2.2.1
    have hn : s.keys.idxOf? t.key = none := List.idxOf?_eq_none_iff.mpr h
    rw [hn] at hi; cases hi

/-- never resumes when tickets are disabled -/
theorem disabled_never_resumes (m : Mode) (s : Server) (hello : List Suite) (t : Ticket) (h : s.disabled = true) :
    checkForResumption m s hello t = none := by
  cases hc : checkForResumption m s hello t with
  | none => rfl
  | some p => obtain ⟨st, old⟩ := p; have := ((gate_iff m s hello t st old).mp hc).1; rw [h] at this; cases this


-- the client cache ------------------------------------------------------------------------------------------

theorem get_snd_mem (c : Cache) (k : Nat) (e : Nat × CSess) (h : e ∈ (Cache.get c k).2) : e ∈ c := by
  unfold Cache.get at h
  split at h
  · rename_i e' hf
    simp only [List.mem_cons, List.mem_filter] at h
    rcases h with rfl | ⟨h, _⟩
    · exact List.mem_of_find?_eq_some hf
    · exact h
  · exact h

theorem get_fst_mem (c : Cache) (k : Nat) (cs : CSess) (h : (Cache.get c k).1 = some cs) : (k, cs) ∈ c := by
  unfold Cache.get at h
  split at h
  · rename_i e' hf
    simp only [Option.some.injEq] at h
    have hm := List.mem_of_find?_eq_some hf
    have hk := List.find?_some hf
    simp only [beq_iff_eq] at hk
    subst h hk
    exact hm
  · cases h

theorem put_mem (c : Cache) (cap k : Nat) (v : CSess) (e : Nat × CSess) (h : e ∈ Cache.put c cap k v) :
    e = (k, v) ∨ e ∈ c := by
  unfold Cache.put at h
  split at h
  · simp only [List.mem_cons, List.mem_filter] at h
    rcases h with h | ⟨h, _⟩
    · exact Or.inl h
    · exact Or.inr h
  · split at h
    · simp only [List.mem_cons] at h; exact h
    · simp only [List.mem_cons] at h
      rcases h with h | h
      · exact Or.inl h
      · exact Or.inr (List.dropLast_subset _ h)

theorem put_length (c : Cache) (cap k : Nat) (v : CSess) (hc : 1 ≤ cap) (h : c.length ≤ cap) :
    (Cache.put c cap k v).length ≤ cap := by
  unfold Cache.put
  split
  · rename_i ha
    simp only [List.length_cons]
    obtain ⟨x, hx, hxk⟩ := List.any_eq_true.mp ha
    have : (c.filter (·.1 != k)).length < c.length := by
      apply List.length_filter_lt_length_iff_exists.mpr
      exact ⟨x, hx, by simpa using hxk⟩
    omega
  · split
    · simp only [List.length_cons]; omega
    · simp only [List.length_cons, List.length_dropLast]; omega

theorem get_length (c : Cache) (k : Nat) : (Cache.get c k).2.length ≤ c.length := by
  unfold Cache.get
  split
  · rename_i e hf
    simp only [List.length_cons]
    have hm := List.mem_of_find?_eq_some hf
    have hk := List.find?_some hf
    have : (c.filter (·.1 != k)).length < c.length := by
      apply List.length_filter_lt_length_iff_exists.mpr
      exact ⟨e, hm, by simpa using hk⟩
    omega
  · exact Nat.le_refl _

-- histories -------------------------------------------------------------------------------------------------

/-- a cached session is sound: its ticket is untouched, seals exactly the parameters the client remembers,
    and those are the parameters of a full handshake that happened -/
def Good (issued : List Sess) (cs : CSess) : Prop :=
  cs.ticket.intact = true ∧ cs.ticket.sess = cs.sess ∧ cs.sess ∈ issued

structure Inv (w : World) : Prop where
  cache : ∀ e ∈ w.cache, Good w.issued e.2
  sids : ∀ s ∈ w.issued, 1 ≤ s.sid ∧ s.sid ≤ w.n
  cap : 1 ≤ w.cap
  len : w.cache.length ≤ w.cap

theorem good_mono {i : List Sess} {cs : CSess} (st : Sess) (h : Good i cs) : Good (st :: i) cs :=
  ⟨h.1, h.2.1, List.mem_cons_of_mem _ h.2.2⟩

theorem conn_resumed_iff (m : Mode) (w : World) (r : ConnReq) (sid : Nat) :
    (conn m w r).2 = .resumed sid ↔ ∃ st old, resumeDecision m w r = some (st, old) ∧ st.sid = sid := by
  unfold conn
  cases hd : resumeDecision m w r with
  | some p => obtain ⟨st, old⟩ := p; simp
  | none =>
    cases hf : fullOutcome m w r <;> simp

/-- what a connection that reports a resumption rests on -/
theorem conn_resumed (m : Mode) (w : World) (r : ConnReq) (sid : Nat) (h : (conn m w r).2 = .resumed sid) :
    w.clientOff = false ∧ r.tampered = false ∧
    ∃ cs old, (r.srv, cs) ∈ w.cache ∧ cs.sess.suite ∈ helloSuites m r.csuites ∧
      checkForResumption m (w.srv r.srv) (helloSuites m r.csuites) cs.ticket = some (cs.ticket.sess, old) ∧
      cs.ticket.sess.sid = sid := by
  obtain ⟨st, old, hd, hsid⟩ := (conn_resumed_iff m w r sid).mp h
  unfold resumeDecision offered at hd
  by_cases hoff : w.clientOff = true
  · simp [hoff] at hd
  · have hoff' : w.clientOff = false := Bool.eq_false_iff.mpr hoff
    simp only [hoff', Bool.false_eq_true, if_false] at hd
    cases hg : (w.cache.get r.srv).1 with
    | none => simp [hg] at hd
    | some cs =>
      have hmem := get_fst_mem _ _ _ hg
      by_cases hs : (helloSuites m r.csuites).contains cs.sess.suite = true
      · simp only [hg, Option.filter, hs, if_true, Option.bind_some] at hd
        by_cases ht : r.tampered = true
        · have : (presented r cs).intact = false := by simp [presented, ht]
          rw [altered_ticket_never_resumes _ _ _ _ this] at hd
          cases hd
        · have ht' : r.tampered = false := Bool.eq_false_iff.mpr ht
          have hp : presented r cs = cs.ticket := by simp [presented, ht']
          rw [hp] at hd
          have hst := ((gate_iff _ _ _ _ _ _).mp hd).2.2.2.1
          subst hst
          exact ⟨hoff', ht', cs, old, hmem, by simpa using hs, hd, hsid⟩
      · have hs' : cs.sess.suite ∉ helloSuites m r.csuites := by simpa using hs
        simp [hg, Option.filter, hs'] at hd

/-- T1 `resumed_is_original`: in any world satisfying the invariant (every reachable one, see
    `inv_reach`), a connection that reports resumption resumed a session created by an earlier full handshake
    of this history: same master secret (`sid`), version, cipher suite and client certificates — the ticket
    was untouched, sealed under a configured key, tickets were enabled, the suite is offered and listed. -/
theorem resumed_is_original (m : Mode) (w : World) (hI : Inv w) (r : ConnReq) (sid : Nat)
    (h : (conn m w r).2 = .resumed sid) :
    ∃ st ∈ w.issued, st.sid = sid ∧ 1 ≤ sid ∧ sid ≤ w.n ∧ st.vers = vers m (w.srv r.srv) ∧ st.suite ∈ helloSuites m r.csuites ∧
      st.suite ∈ resumeSupported (w.srv r.srv) ∧ (w.srv r.srv).disabled = false ∧ r.tampered = false := by
  obtain ⟨_, ht, cs, old, hmem, hsu, hc, hsid⟩ := conn_resumed m w r sid h
  have hg : Good w.issued cs := hI.cache _ hmem
  have hin : cs.ticket.sess ∈ w.issued := by rw [hg.2.1]; exact hg.2.2
  have g := (gate_iff _ _ _ _ _ _).mp hc
  refine ⟨cs.ticket.sess, hin, hsid, ?_, ?_, g.2.2.2.2.1.symm, g.2.2.2.2.2.1, g.2.2.2.2.2.2.1, g.1, ht⟩
  · have := (hI.sids _ hin).1; omega
  · have := (hI.sids _ hin).2; omega

/-- T1 `valid_ticket_resumes`: a client whose cached session for this server is sound, sealed under a key
    the server still holds, whose suite the client still offers and the server's configuration lists
    explicitly and can serve, with the connection's version and a compatible client-certificate policy,
    is resumed — with exactly that session. -/
theorem valid_ticket_resumes (m : Mode) (w : World) (r : ConnReq) (cs : CSess) (l : List Suite)
    (hoff : w.clientOff = false) (hget : (w.cache.get r.srv).1 = some cs) (hgood : cs.ticket.intact = true)
    (hsame : cs.ticket.sess = cs.sess) (hnt : r.tampered = false)
    (hen : (w.srv r.srv).disabled = false) (hkey : cs.ticket.key ∈ (w.srv r.srv).keys)
    (hl : (w.srv r.srv).suites = some l) (hlist : cs.sess.suite ∈ l) (hserv : servable m (w.srv r.srv) cs.sess.suite = true)
    (hoffer : cs.sess.suite ∈ helloSuites m r.csuites) (hv : cs.sess.vers = vers m (w.srv r.srv))
    (hp1 : ¬ (((w.srv r.srv).auth = 2 ∨ (w.srv r.srv).auth = 4) ∧ cs.sess.ccerts = 0))
    (hp2 : ¬ (cs.sess.ccerts ≠ 0 ∧ (w.srv r.srv).auth = 0))
    (hp3 : ¬ (cs.sess.ccerts ≠ 0 ∧ (w.srv r.srv).auth ≥ 3 ∧ cs.sess.ctrust = false)) :
    (conn m w r).2 = .resumed cs.sess.sid := by
  rw [conn_resumed_iff]
  have hidx : ∃ i, (w.srv r.srv).keys.idxOf? cs.ticket.key = some i := by
    cases hi : (w.srv r.srv).keys.idxOf? cs.ticket.key with
    | none => exact absurd hkey (List.idxOf?_eq_none_iff.mp hi)
    | some i => exact ⟨i, rfl⟩
  obtain ⟨i, hi⟩ := hidx
  refine ⟨cs.sess, decide (i > 0), ?_, rfl⟩
  unfold resumeDecision offered
  have hc : (helloSuites m r.csuites).contains cs.sess.suite = true := by simpa using hoffer
  have hp : presented r cs = cs.ticket := by simp [presented, hnt]
  simp only [hoff, Bool.false_eq_true, if_false, hget, Option.filter, hc, if_true, Option.bind_some, hp]
  rw [gate_iff]
  refine ⟨hen, hgood, ⟨i, hi, rfl⟩, hsame.symm, hv.symm, hoffer, ?_, hserv, hp1, hp2, hp3⟩
  unfold resumeSupported; rw [hl]; exact hlist

-- the invariant holds along every history ---------------------------------------------------------------------

theorem store_good (w : World) (r : ConnReq) (c : Cache) (st : Sess) (b : Bool) (iss : List Sess)
    (hc : ∀ e ∈ c, Good iss e.2) (hst : st ∈ iss) : ∀ e ∈ store w r c st b, Good iss e.2 := by
  intro e he
  unfold store at he
  split at he
  · rcases put_mem _ _ _ _ _ he with rfl | h
    · exact ⟨rfl, rfl, hst⟩
    · exact hc _ h
  · exact hc _ he

theorem store_length (w : World) (r : ConnReq) (c : Cache) (st : Sess) (b : Bool) (h1 : 1 ≤ w.cap)
    (h : c.length ≤ w.cap) : (store w r c st b).length ≤ w.cap := by
  unfold store
  split
  · exact put_length _ _ _ _ h1 h
  · exact h

theorem afterGet_mem (w : World) (r : ConnReq) (e : Nat × CSess) (h : e ∈ cacheAfterGet w r) : e ∈ w.cache := by
  unfold cacheAfterGet at h
  split at h
  · exact h
  · exact get_snd_mem _ _ _ h

theorem afterGet_length (w : World) (r : ConnReq) : (cacheAfterGet w r).length ≤ w.cache.length := by
  unfold cacheAfterGet
  split
  · exact Nat.le_refl _
  · exact get_length _ _

theorem fullOutcome_sid (m : Mode) (w : World) (r : ConnReq) (st : Sess) (h : fullOutcome m w r = some st) :
    st.sid = w.n + 1 ∧ st.vers = vers m (w.srv r.srv) := by
  unfold fullOutcome at h
  dsimp only at h
  split at h
  · cases h
  · split at h
    · cases h
    · split at h
      · cases h
      · simp only [Option.some.injEq] at h; subst h; exact ⟨rfl, rfl⟩

theorem inv_conn (m : Mode) (w : World) (hI : Inv w) (r : ConnReq) : Inv (conn m w r).1 := by
  have hc1 : ∀ e ∈ cacheAfterGet w r, Good w.issued e.2 := fun e he => hI.cache e (afterGet_mem w r e he)
  have hl1 : (cacheAfterGet w r).length ≤ w.cap := Nat.le_trans (afterGet_length w r) hI.len
  unfold conn
  cases hd : resumeDecision m w r with
  | some p =>
    obtain ⟨st, old⟩ := p
    -- the resumed state is the one sealed in a sound cached ticket
    have hres : (conn m w r).2 = .resumed st.sid := (conn_resumed_iff m w r st.sid).mpr ⟨st, old, hd, rfl⟩
    obtain ⟨_, _, cs, old', hmem, _, hc, _⟩ := conn_resumed m w r st.sid hres
    have hg : Good w.issued cs := hI.cache _ hmem
    have hst : st ∈ w.issued := by
      -- `resumeDecision` returned the sealed state of the first matching entry; recompute it
      unfold resumeDecision offered at hd
      by_cases hoff : w.clientOff = true
      · simp [hoff] at hd
      · have hoff' : w.clientOff = false := Bool.eq_false_iff.mpr hoff
        simp only [hoff', Bool.false_eq_true, if_false] at hd
        cases hg2 : (w.cache.get r.srv).1 with
        | none => simp [hg2] at hd
        | some cs2 =>
          have hmem2 := get_fst_mem _ _ _ hg2
          have hgood2 : Good w.issued cs2 := hI.cache _ hmem2
          by_cases hs : (helloSuites m r.csuites).contains cs2.sess.suite = true
          · simp only [hg2, Option.filter, hs, if_true, Option.bind_some] at hd
            have hst2 := ((gate_iff _ _ _ _ _ _).mp hd).2.2.2.1
            have hint := ((gate_iff _ _ _ _ _ _).mp hd).2.1
            by_cases ht : r.tampered = true
            · simp [presented, ht] at hint
            · have ht' : r.tampered = false := Bool.eq_false_iff.mpr ht
              have hp : presented r cs2 = cs2.ticket := by simp [presented, ht']
              rw [hp] at hst2
              rw [hst2, hgood2.2.1]; exact hgood2.2.2
          · have hs' : cs2.sess.suite ∉ helloSuites m r.csuites := by simpa using hs
            simp [hg2, Option.filter, hs'] at hd
    exact ⟨store_good w r _ st old w.issued hc1 hst,
      fun s hs => ⟨(hI.sids s hs).1, Nat.le_succ_of_le (hI.sids s hs).2⟩, hI.cap, store_length w r _ st old hI.cap hl1⟩
  | none =>
    cases hf : fullOutcome m w r with
    | none =>
      exact ⟨hc1, fun s hs => ⟨(hI.sids s hs).1, Nat.le_succ_of_le (hI.sids s hs).2⟩, hI.cap, hl1⟩
    | some st =>
      have hsid := (fullOutcome_sid m w r st hf).1
      refine ⟨store_good w r _ st _ (st :: w.issued) (fun e he => good_mono st (hc1 e he)) (by simp), ?_, hI.cap,
        store_length w r _ st _ hI.cap hl1⟩
      intro s hs
      rcases List.mem_cons.mp hs with rfl | hs
      · simp only; omega
      · exact ⟨(hI.sids s hs).1, Nat.le_succ_of_le (hI.sids s hs).2⟩

-- the entry point's `ensureTicketKeys` touches nothing but the key list of the server connected to ----------------

theorem ensureKeys_disabled (s : Server) (k : Nat) : (ensureKeys s k).disabled = s.disabled := by
  unfold ensureKeys; split <;> rfl

theorem ensureKeys_suites (s : Server) (k : Nat) : (ensureKeys s k).suites = s.suites := by
  unfold ensureKeys; split <;> rfl

theorem ensureKeys_auth (s : Server) (k : Nat) : (ensureKeys s k).auth = s.auth := by
  unfold ensureKeys; split <;> rfl

theorem ensureKeys_maxVers (s : Server) (k : Nat) : (ensureKeys s k).maxVers = s.maxVers := by
  unfold ensureKeys; split <;> rfl

theorem vers_ensureKeys (m : Mode) (s : Server) (k : Nat) : vers m (ensureKeys s k) = vers m s := by
  cases m
  · rfl
  · simp only [vers, ensureKeys_maxVers]

theorem prep_srv_self (w : World) (r : ConnReq) :
    (prep w r).srv r.srv = ensureKeys (w.srv r.srv) (autoKey (w.n + 1)) := by
  simp [prep, setSrv]

theorem inv_prep (w : World) (hI : Inv w) (r : ConnReq) : Inv (prep w r) :=
  ⟨hI.cache, hI.sids, hI.cap, hI.len⟩

theorem inv_serve (m : Mode) (w : World) (hI : Inv w) (r : ConnReq) : Inv (serve m w r).1 :=
  inv_conn m (prep w r) (inv_prep w hI r) r

theorem inv_step (m : Mode) (w : World) (hI : Inv w) (s : Step) : Inv (step m w s).1 := by
  cases s with
  | conn r => exact inv_serve m w hI r
  | fresh i => exact ⟨hI.cache, hI.sids, hI.cap, hI.len⟩
  | keys i ks => exact ⟨hI.cache, hI.sids, hI.cap, hI.len⟩
  | suites i l => exact ⟨hI.cache, hI.sids, hI.cap, hI.len⟩
  | auth i a => exact ⟨hI.cache, hI.sids, hI.cap, hI.len⟩
  | disable i b => exact ⟨hI.cache, hI.sids, hI.cap, hI.len⟩
  | maxv i v => exact ⟨hI.cache, hI.sids, hI.cap, hI.len⟩
  | clientOff b => exact ⟨hI.cache, hI.sids, hI.cap, hI.len⟩

/-- the world after a history -/
def reach (m : Mode) : World → List Step → World
  | w, [] => w
  | w, s :: ss => reach m (step m w s).1 ss

theorem inv_init (cap : Nat) : Inv (initWorld cap) := by
  refine ⟨by simp [initWorld], by simp [initWorld], ?_, by simp [initWorld]⟩
  simp only [initWorld]; split <;> omega

/-- T1 `inv_reach`: for every history of connections, ticket-key rotations, suite-list and client-auth
    changes, ticket switches and every cache capacity, the client cache only ever holds untouched tickets
    that seal exactly the parameters of an earlier full handshake of the history, and never more than its
    capacity. -/
theorem inv_reach (m : Mode) (cap : Nat) (h : List Step) : Inv (reach m (initWorld cap) h) := by
  have : ∀ w, Inv w → Inv (reach m w h) := by
    induction h with
    | nil => intro w hw; exact hw
    | cons s ss ih => intro w hw; exact ih _ (inv_step m w hw s)
  exact this _ (inv_init cap)

/-- the statement below for the handshake proper (`conn`, without the entry point's `ensureTicketKeys`) -/
theorem history_resumption_sound_handshake (m : Mode) (cap : Nat) (h : List Step) (r : ConnReq) (sid : Nat)
    (hr : (conn m (reach m (initWorld cap) h) r).2 = .resumed sid) :
    ∃ st ∈ (reach m (initWorld cap) h).issued, st.sid = sid ∧ sid ≤ (reach m (initWorld cap) h).n ∧
      st.vers = vers m ((reach m (initWorld cap) h).srv r.srv) ∧ st.suite ∈ helloSuites m r.csuites ∧ r.tampered = false ∧
      ((reach m (initWorld cap) h).srv r.srv).disabled = false := by
  obtain ⟨st, hin, h1, _, h3, h4, h5, _, h7, h8⟩ := resumed_is_original m _ (inv_reach m cap h) r sid hr
  exact ⟨st, hin, h1, h3, h4, h5, h8, h7⟩

/-- T1 `history_resumption_sound`: after ANY history (connections, key rotations, configuration changes,
    ticket switches, new `Config`s without a ticket key), a connection (`serve`: entry point and handshake)
    that both ends report as resumed carries the master secret, version, suite of a full handshake earlier
    in that history, was made with an unaltered ticket while tickets were enabled, and the suite is one the
    client offers now and the server's configuration lists now. -/
theorem history_resumption_sound (m : Mode) (cap : Nat) (h : List Step) (r : ConnReq) (sid : Nat)
    (hr : (serve m (reach m (initWorld cap) h) r).2 = .resumed sid) :
    ∃ st ∈ (reach m (initWorld cap) h).issued, st.sid = sid ∧ sid ≤ (reach m (initWorld cap) h).n ∧
      st.vers = vers m ((reach m (initWorld cap) h).srv r.srv) ∧ st.suite ∈ helloSuites m r.csuites ∧ r.tampered = false ∧
      ((reach m (initWorld cap) h).srv r.srv).disabled = false := by
  obtain ⟨st, hin, h1, _, h3, h4, h5, _, h7, h8⟩ :=
    resumed_is_original m _ (inv_prep _ (inv_reach m cap h) r) r sid hr
  rw [prep_srv_self, vers_ensureKeys] at h4
  rw [prep_srv_self, ensureKeys_disabled] at h7
  exact ⟨st, hin, h1, h3, h4, h5, h8, h7⟩

/-- T1 `unacceptable_certs_never_resume` (repaired gate): a ticket whose stored client certificates do not chain to
    the client CAs is not resumed once the policy verifies certificates — the server falls back to a full
    handshake instead of aborting while resuming. -/
theorem unacceptable_certs_never_resume (m : Mode) (s : Server) (hello : List Suite) (t : Ticket)
    (h1 : t.sess.ccerts ≠ 0) (h2 : s.auth ≥ 3) (h3 : t.sess.ctrust = false) : checkForResumption m s hello t = none := by
  cases hc : checkForResumption m s hello t with
  | none => rfl
  | some p =>
    obtain ⟨st, old⟩ := p
    have g := (gate_iff _ _ _ _ _ _).mp hc
    have e : st = t.sess := g.2.2.2.1
    subst e
    exact absurd ⟨h1, h2, h3⟩ g.2.2.2.2.2.2.2.2.2.2

theorem gm_not_in_tls_defaults : ∀ s ∈ gmAll, s ∉ tlsDefaults := by decide

/-- the GMSSL default: without an explicit `CipherSuites` the gate consults the TLS default list, so a GMSSL
    session is never resumed (it silently falls back to a full handshake) — the reason the property speaks of
    "a configuration that explicitly lists the session's suite" -/
theorem gm_default_never_resumes (s : Server) (hello : List Suite) (t : Ticket) (h : s.suites = none)
    (hg : t.sess.suite ∈ gmAll) : checkForResumption .gm s hello t = none := by
  cases hc : checkForResumption .gm s hello t with
  | none => rfl
  | some p =>
    obtain ⟨st, old⟩ := p
    have g := (gate_iff _ _ _ _ _ _).mp hc
    have h1 : st = t.sess := g.2.2.2.1
    have h2 := g.2.2.2.2.2.2.1
    rw [h1] at h2
    unfold resumeSupported at h2
    rw [h] at h2
    simp only [Option.getD_none] at h2
    exact absurd h2 (gm_not_in_tls_defaults _ hg)

/-- Non-vacuity (tests): a full handshake, a resumption, a rotation that retires the key, a fallback. -/
example : run .gm (initWorld 2) [.suites 0 (some [0xe013]), .conn ⟨0, some [0xe013], 0, false⟩,
    .conn ⟨0, some [0xe013], 0, false⟩, .keys 0 [7, 100], .conn ⟨0, some [0xe013], 0, false⟩,
    .keys 0 [8], .conn ⟨0, some [0xe013], 0, false⟩, .conn ⟨0, some [0xe013], 0, true⟩]
    = [.full 1, .resumed 1, .resumed 1, .full 4, .full 5] := by decide

end Props.C16
