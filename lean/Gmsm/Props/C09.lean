/-
C09 — Issued certificates, CSRs and CRLs parse back and verify only under the issuer.

The decision tables are regenerated from x509/x509.go on every run; the theorems are exhaustive over
those finite tables (the quantifier IS the table, so `decide` is a proof).  Whole-object round trips
(create → parse → compare fields → verify under issuer / other key / after every change to the signed
bytes or the signature value) go through encoding/asn1 and are decided by the correspondence run.
-/
import Gmsm.Model.X509Sign
namespace Props.C09
open Model.X509Sign Gen.X509

/-- the creator accepts (f, req), and what the signer's scheme covers is exactly what the verifier's
    scheme checks for the algorithm recovered from the OID written into the object -/
def consistent (f : Family) (req : String) : Bool :=
  match resolve f req with
  | none => false
  | some (oid, hash) =>
    decide (signed f hash ≠ .rejected) && decide (signed f hash = verified f (parsedAlgo oid req))

/-- T1 `sign_verify_consistent`: for every signer key family and every requested algorithm that is
    left to default or belongs to that family, the creator accepts, and the bytes the signer's scheme
    finally signs are the bytes the verifier's scheme checks. -/
theorem sign_verify_consistent :
    ∀ f ∈ families, ∀ req ∈ "" :: inFamily f, consistent f req = true := by decide

/-- requested algorithms of another key family are refused (for the key families with their own
    public-key algorithm tag; an SM2 key carries the ECDSA tag, as in the source) -/
theorem cross_family_rejected :
    (∀ req ∈ inFamily .sm2 ++ inFamily .ecdsa256, accepts .rsa req = false) ∧
    (∀ req ∈ inFamily .rsa, accepts .sm2 req = false ∧ accepts .ecdsa256 req = false) := by decide

/-- T1 `algo_tables_consistent`: every row of `signatureAlgorithmDetails` with a usable hash is
    verified with that same hash (or refused as insecure), and every algorithm the verifier knows has a
    row. -/
theorem algo_tables_consistent :
    (∀ r ∈ details, r.2.2.2 = "Hash(0)" ∨
        (verifyHash.find? (·.1 == r.1)).map (·.2) = some r.2.2.2 ∨
        (verifyHash.find? (·.1 == r.1)).map (·.2) = some "reject") ∧
    (∀ v ∈ verifyHash, (details.find? (·.1 == v.1)).isSome = true) := by decide

/-- OIDs identify algorithms: two rows with the same OID are the same algorithm, except the RSA-PSS
    family (distinguished by parameters) -/
theorem oid_injective :
    ∀ r ∈ details, ∀ r' ∈ details, r.2.1 = r'.2.1 → r.1 = r'.1 ∨ r.2.1 = "oidSignatureRSAPSS" := by decide

/-- regenerated fact: all three creators decide "raw TBS or digest" by the signer's key type -/
theorem creators_decide_by_signer_key :
    signInput_CreateCertificate = "digest-unless-signer-key-is:sm2.PublicKey" ∧
    signInput_CreateCertificateRequest = "digest-unless-signer-key-is:sm2.PublicKey" ∧
    signInput_CreateRevocationList = "digest-unless-signer-key-is:sm2.PublicKey" := by decide

/-- cur (pinned commit): deciding by the template's requested algorithm gave an SM2 signer the digest
    when the algorithm was left to default, while the verifier checks the raw bytes. -/
theorem default_sm2_mismatch_before_repair :
    (Covered.digest "SM3") ≠ verified .sm2 (parsedAlgo "oidSignatureSM2WithSM3" "") := by decide

end Props.C09
