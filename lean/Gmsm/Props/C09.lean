/-
C09 — Issued certificates, CSRs and CRLs parse back and verify only under the issuer.

The decision tables are regenerated from x509/x509.go on every run; the theorems are exhaustive over
those finite tables (the quantifier IS the table, so `decide` is a proof).  Whole-object round trips
(create → parse → compare fields → verify under issuer / other key / after every change to the signed
bytes or the signature value) go through encoding/asn1 and are decided by the correspondence run.
-/
import Gmsm.Model.X509Sign
namespace Props.C09
open Model.X509Sign Gen.X509

/-- the creator `c` accepts (f, req); what the signer's scheme covers is exactly what the verifier's scheme checks
    for the algorithm recovered from the OID written into the object; the scheme the signature is made with
    (for an RSA key: PKCS#1 v1.5 or PSS, by the options handed to `Sign`) is the scheme the verifier uses for that
    algorithm, and the scheme the emitted AlgorithmIdentifier names -/
def consistent (c : Creator) (f : Family) (req : String) : Bool :=
  match resolve f req with
  | none => false
  | some (oid, hash) =>
    decide (signedBy c f hash ≠ .rejected) && decide (signedBy c f hash = verified f (parsedAlgo oid req))
      && decide (signScheme c f req = verifyScheme f (parsedAlgo oid req))
      && decide (namedScheme (parsedAlgo oid req) = some (signScheme c f req))

/-- T1 `sign_verify_consistent`: for every creator (certificate, request, revocation list), every signer key
    family and every requested algorithm that is left to default or belongs to that family, the creator accepts,
    the bytes the signer's scheme finally signs are the bytes the verifier's scheme checks, and the signature
    scheme used is the one the verifier applies and the emitted algorithm identifier names.
    (Strengthened in round 9: quantified over the creators, with the scheme conjuncts; before, an RSA-PSS
    request - labelled RSASSA-PSS, signed PKCS#1 v1.5 - satisfied the weaker statement.) -/
theorem sign_verify_consistent :
    ∀ c ∈ creators, ∀ f ∈ families, ∀ req ∈ "" :: inFamily f, consistent c f req = true := by decide

/-- `emitted_algorithm_names_scheme`: accepted ⇒ the emitted algorithm identifier names the scheme the signature
    was made with, and `checkSignature` verifies with that scheme - for requests as for certificates and
    revocation lists. -/
theorem emitted_algorithm_names_scheme :
    ∀ c ∈ creators, ∀ f ∈ families, ∀ req ∈ "" :: inFamily f, ∃ oid hash, resolve f req = some (oid, hash) ∧
      namedScheme (parsedAlgo oid req) = some (signScheme c f req) ∧
      verifyScheme f (parsedAlgo oid req) = signScheme c f req := by
  intro c hc f hf req hr
  have h := sign_verify_consistent c hc f hf req hr
  unfold consistent at h
  cases hres : resolve f req with
  | none => rw [hres] at h; cases h
  | some p =>
    obtain ⟨oid, hash⟩ := p
    rw [hres] at h
    simp only [Bool.and_eq_true, decide_eq_true_eq] at h
    exact ⟨oid, hash, rfl, h.2, h.1.2.symm⟩

/-- regenerated fact: all three creators hand `*rsa.PSSOptions` to the signer exactly when the template's
    algorithm `isRSAPSS()`, with the salt length `checkSignature` insists on -/
theorem creators_pass_pss_options :
    ∀ c ∈ creators, c.signerOpts = ("pss-iff-requested-isRSAPSS", verifyPSSSalt) := by decide

/-- an RSA-PSS request is signed with RSASSA-PSS (the statement that was false before the repair) -/
theorem csr_pss_signed_with_pss :
    ∀ req ∈ rsaPSSAlgos, accepts .rsa req = true ∧ signScheme .csr .rsa req = .pss verifyPSSSalt ∧
      verifyScheme .rsa req = .pss verifyPSSSalt := by decide

/-- cur (before the repair, `CreateCertificateRequest` handed the bare hash to the signer): for each RSA-PSS
    algorithm the request was accepted and labelled RSASSA-PSS, but signed PKCS#1 v1.5 - its own
    `CheckSignature` verifies with PSS. -/
theorem hash_only_creator_mislabels_pss :
    ∀ req ∈ rsaPSSAlgos, accepts .rsa req = true ∧ signSchemeWith ("hash-only", "") .rsa req = .pkcs1v15 ∧
      verifyScheme .rsa req ≠ signSchemeWith ("hash-only", "") .rsa req ∧
      namedScheme req ≠ some (signSchemeWith ("hash-only", "") .rsa req) := by decide

/-- non-vacuity: the PSS algorithms are in the RSA family and the quantifier of `sign_verify_consistent` reaches
    the request creator with them -/
example : Creator.csr ∈ creators ∧ Family.rsa ∈ families ∧ "SHA256WithRSAPSS" ∈ "" :: inFamily .rsa ∧
    rsaPSSAlgos = ["SHA256WithRSAPSS", "SHA384WithRSAPSS", "SHA512WithRSAPSS"] ∧
    consistent .csr .rsa "SHA256WithRSAPSS" = true := by decide

/-- requested algorithms of another key family are refused (for the key families with their own
    public-key algorithm tag; an SM2 key carries the ECDSA tag, as in the source) -/
theorem cross_family_rejected :
    (∀ req ∈ inFamily .sm2 ++ inFamily .ecdsa256, accepts .rsa req = false) ∧
    (∀ req ∈ inFamily .rsa, accepts .sm2 req = false ∧ accepts .ecdsa256 req = false) := by decide

/-- T1 `algo_tables_consistent`: every row of `signatureAlgorithmDetails` with a usable hash is
    verified with that same hash (or refused as insecure), and every algorithm the verifier knows has a
    row. -/
theorem algo_tables_consistent :
    (∀ r ∈ details, r.2.2.2 = "Hash(0)" ∨
        (verifyHash.find? (·.1 == r.1)).map (·.2) = some r.2.2.2 ∨
        (verifyHash.find? (·.1 == r.1)).map (·.2) = some "reject") ∧
    (∀ v ∈ verifyHash, (details.find? (·.1 == v.1)).isSome = true) := by decide

/-- OIDs identify algorithms: two rows with the same OID are the same algorithm, except the RSA-PSS
    family (distinguished by parameters) -/
theorem oid_injective :
    ∀ r ∈ details, ∀ r' ∈ details, r.2.1 = r'.2.1 → r.1 = r'.1 ∨ r.2.1 = "oidSignatureRSAPSS" := by decide

/-- regenerated fact: all three creators decide "raw TBS or digest" by the signer's key type -/
theorem creators_decide_by_signer_key :
    signInput_CreateCertificate = "digest-unless-signer-key-is:sm2.PublicKey" ∧
    signInput_CreateCertificateRequest = "digest-unless-signer-key-is:sm2.PublicKey" ∧
    signInput_CreateRevocationList = "digest-unless-signer-key-is:sm2.PublicKey" := by decide

/-- cur (pinned commit): deciding by the template's requested algorithm gave an SM2 signer the digest
    when the algorithm was left to default, while the verifier checks the raw bytes. -/
theorem default_sm2_mismatch_before_repair :
    (Covered.digest "SM3") ≠ verified .sm2 (parsedAlgo "oidSignatureSM2WithSM3" "") := by decide

/-- which rows of the regenerated `signatureAlgorithmDetails` table belong to a signer key family (the property's
    "belongs to the signer's key family"): decided from the table's key-algorithm column and, inside the shared
    "ECDSA" column, from the algorithm's name - NOT from the hand-written list `inFamily` -/
def belongs (f : Family) (row : String × String × String × String) : Bool :=
  match f with
  | .rsa => row.2.2.1 == "RSA"
  | .sm2 => row.2.2.1 == "ECDSA" && row.1.startsWith "SM2"
  | _ => row.2.2.1 == "ECDSA" && row.1.startsWith "ECDSA"

/-- `accepted_in_family_consistent` (round 12; false of the code as found, see `md5_accepted_unverifiable_before_repair`):
    quantified over EVERY row of the regenerated algorithm table, not over a hand-written list - whenever
    `signingParamsForPublicKey` accepts an algorithm of the signer's key family, what the creator signs is what
    `checkSignature` verifies for the emitted identifier; in particular the verifier does not refuse the algorithm
    (`MD5WithRSA` with an RSA key was accepted by the three creators and refused as insecure by `checkSignature`, so
    the package issued objects it could never verify). -/
theorem accepted_in_family_consistent :
    ∀ c ∈ creators, ∀ f ∈ families, ∀ row ∈ details, belongs f row = true → accepts f row.1 = true →
      consistent c f row.1 = true := by decide +kernel

/-- the hand-written list `inFamily` the older theorems quantify over is exactly the set of accepted algorithms of
    the family in the regenerated table (so those theorems miss no accepted algorithm) -/
theorem inFamily_complete :
    ∀ f ∈ families, ∀ row ∈ details, belongs f row = true → accepts f row.1 = true → row.1 ∈ inFamily f := by decide +kernel

/-- whatever the creator accepts - in the family or not - is an algorithm the verifier does not refuse as insecure -/
theorem accepted_not_insecure :
    ∀ f ∈ families, ∀ row ∈ details, accepts f row.1 = true →
      (verifyHash.find? (·.1 == row.1)).map (·.2) ≠ some "reject" := by decide

/-- the creator refuses exactly what it must: every algorithm `checkSignature` rejects as insecure is refused at
    creation for every key family (regenerated lists `creatorRefuses`, `verifyHash`, `details`) -/
theorem insecure_refused_at_creation :
    ∀ v ∈ verifyHash, v.2 = "reject" → ∀ f ∈ families, accepts f v.1 = false := by decide

/-- cur (code as found in round 12): without the by-name refusal, MD5WithRSA with an RSA key resolves to a
    usable (oid, hash) pair although the verifier rejects the algorithm -/
theorem md5_accepted_unverifiable_before_repair :
    (details.find? (·.1 == "MD5WithRSA")).map (fun r => (r.2.2.1, r.2.2.2)) = some ("RSA", "MD5") ∧
    verified .rsa "MD5WithRSA" = .rejected := by decide

end Props.C09
