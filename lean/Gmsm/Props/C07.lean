/-
C07 — Protected records cannot be altered, reordered, replayed or truncated undetected.

Two layers:
 * byte level, real crypto (`Model.Record`, tied to gmtls/conn.go by the recwrite/recread/expad
   correspondence): sequence-number stepping, nonce construction, additional-data encoding.
 * an abstract authenticated channel over an ideal AEAD (`IdealAEAD` with an authenticity hypothesis —
   cryptographic hardness is a hypothesis here, never an axiom): prefix delivery under ANY adversarial
   record sequence, by induction over the records the receiver is fed.
-/
import Gmsm.Model.Record
import Gmsm.Util.I2osp
import Gmsm.Props.C12
namespace Props.C07
open Gmsm Model.Record

-- sequence numbers -----------------------------------------------------------------------------------------

/-- T1 `seq_step` (sender): every record advances the implicit sequence number by exactly one -/
theorem seq_step_encrypt (h : Half) (typ : Byte) (explicit payload : Bytes) :
    (h.encrypt typ explicit payload).2.seq = h.seq + 1 ∧
    (h.encrypt typ explicit payload).2.suite = h.suite := by
  unfold Half.encrypt
  cases h.suite <;> exact ⟨rfl, rfl⟩

/-- T1 `seq_step` (receiver): an accepted record advances the sequence number by exactly one, a rejected
    one leaves the state untouched -/
theorem seq_step_decrypt (h : Half) (typ : Byte) (body : Bytes) :
    ((h.decrypt typ body).1.isSome → (h.decrypt typ body).2.seq = h.seq + 1) ∧
    ((h.decrypt typ body).1 = none → (h.decrypt typ body).2 = h) := by
  unfold Half.decrypt
  cases h.suite <;> simp only <;> (repeat' split) <;> simp_all

theorem seqBytes_inj (a b : Nat) (ha : a < 2 ^ 64) (hb : b < 2 ^ 64) (h : seqBytes a = seqBytes b) : a = b :=
  i2ospR_inj 8 a b (by simpa using ha) (by simpa using hb) h

/-- T1 `nonce_injective`: the GCM nonce (4-byte salt ‖ 8-byte sequence number) never repeats as long
    as the sequence number does not wrap (and the code panics rather than let it wrap). -/
theorem nonce_injective (salt : Bytes) (a b : Nat) (ha : a < 2 ^ 64) (hb : b < 2 ^ 64)
    (h : salt ++ seqBytes a = salt ++ seqBytes b) : a = b :=
  seqBytes_inj a b ha hb (List.append_cancel_left h)

/-- T1 `mac_input_binds`: the additional data / MAC prefix `seq ‖ type ‖ version ‖ length` determines
    the sequence number, the type and the length. -/
theorem aad_inj (s1 s2 : Nat) (t1 t2 : Byte) (l1 l2 : Nat)
    (h1 : s1 < 2 ^ 64) (h2 : s2 < 2 ^ 64) (hl1 : l1 < 2 ^ 16) (hl2 : l2 < 2 ^ 16)
    (h : aad s1 t1 l1 = aad s2 t2 l2) : s1 = s2 ∧ t1 = t2 ∧ l1 = l2 := by
  unfold aad header be16 at h
  have hl : (seqBytes s1).length = (seqBytes s2).length := by simp [seqBytes, i2ospR_length]
  have := List.append_inj h hl
  refine ⟨seqBytes_inj s1 s2 h1 h2 this.1, ?_, ?_⟩
  · have := this.2; simp at this; exact this.1
  · have := this.2
    simp at this
    exact i2ospR_inj 2 l1 l2 (by simpa using hl1) (by simpa using hl2) this.2

-- the abstract authenticated channel ------------------------------------------------------------------------

/-- an AEAD as a pair of functions -/
structure AEAD where
  enc : Bytes → Bytes → Bytes → Bytes            -- nonce, additional data, plaintext ↦ ciphertext
  dec : Bytes → Bytes → Bytes → Option Bytes     -- nonce, additional data, ciphertext ↦ plaintext

/-- Authenticity with respect to what the sender sealed: anything that opens was sealed, under that
    nonce and that additional data, with that plaintext.  (INT-CTXT; a hypothesis, not an axiom.) -/
def Authentic (Æ : AEAD) (log : List (Bytes × Bytes × Bytes)) : Prop :=
  ∀ n a c p, Æ.dec n a c = some p → (n, a, p) ∈ log

/-- what the sender sealed for the application-data payloads `ps`, starting at sequence number `i` -/
def sealLog (salt : Bytes) : Nat → List Bytes → List (Bytes × Bytes × Bytes)
  | _, [] => []
  | i, p :: ps => (salt ++ seqBytes i, aad i 23 p.length, p) :: sealLog salt (i + 1) ps

/-- a record as the receiver sees it: type, explicit nonce, claimed plaintext length, ciphertext —
    all four chosen by the adversary -/
structure WireRec where
  typ : Byte
  explicit : Bytes
  len : Nat
  ct : Bytes

/-- the receiver: records are opened with its own sequence number in the additional data; the first
    failure is fatal (sticky error), application data (type 23) is delivered -/
def receive (Æ : AEAD) (salt : Bytes) : Nat → List WireRec → List Bytes
  | _, [] => []
  | j, r :: rs =>
    match Æ.dec (salt ++ r.explicit) (aad j r.typ r.len) r.ct with
    | none => []
    | some p => p :: receive Æ salt (j + 1) rs

theorem mem_sealLog (salt : Bytes) (i : Nat) (ps : List Bytes) (n a p : Bytes)
    (h : (n, a, p) ∈ sealLog salt i ps) :
    ∃ k, k < ps.length ∧ a = aad (i + k) 23 (ps.getD k []).length ∧ p = ps.getD k [] := by
  induction ps generalizing i with
  | nil => simp [sealLog] at h
  | cons q qs ih =>
    simp only [sealLog, List.mem_cons] at h
    rcases h with h | h
    · refine ⟨0, by simp, ?_, ?_⟩
      · simp at h ⊢; exact h.2.1
      · simp at h ⊢; exact h.2.2
    · obtain ⟨k, hk, ha, hp⟩ := ih (i + 1) h
      refine ⟨k + 1, by simp; omega, ?_, ?_⟩
      · simp only [List.getD_cons_succ]; rw [ha]; congr 1; omega
      · simp only [List.getD_cons_succ]; exact hp

/-- T1 `prefix_delivery`: under an authentic AEAD, whatever records the adversary feeds the receiver —
    flipped, truncated, extended, swapped, duplicated, dropped, injected, with edited headers, replayed
    from anywhere — the list of payloads delivered is a prefix of the list of payloads sent:
    `receive` started at sequence number `j` delivers a prefix of `ps.drop j`.
    (Payload lengths < 2^16 and fewer than 2^64 records, as the record layer guarantees: the sequence
    number is not allowed to wrap.) -/
theorem prefix_delivery (Æ : AEAD) (salt : Bytes) (ps : List Bytes)
    (hauth : Authentic Æ (sealLog salt 0 ps))
    (hlen : ∀ p ∈ ps, p.length < 2 ^ 16) (hcount : ps.length < 2 ^ 64)
    (wire : List WireRec) (hwl : ∀ r ∈ wire, r.len < 2 ^ 16) (j : Nat) (hj : j + wire.length < 2 ^ 64) :
    ∃ t, receive Æ salt j wire ++ t = ps.drop j := by
  induction wire generalizing j with
  | nil => exact ⟨ps.drop j, rfl⟩
  | cons r rs ih =>
    unfold receive
    cases hopen : Æ.dec (salt ++ r.explicit) (aad j r.typ r.len) r.ct with
    | none => exact ⟨ps.drop j, rfl⟩
    | some p =>
      simp only
      obtain ⟨k, hk, ha, hp⟩ := mem_sealLog salt 0 ps _ _ _ (hauth _ _ _ _ hopen)
      have hkmem : ps.getD k [] ∈ ps := by
        rw [List.getD_eq_getElem?_getD, List.getElem?_eq_getElem hk]; simp
      have hinj := aad_inj j (0 + k) r.typ 23 r.len (ps.getD k []).length
        (by simp at hj; omega) (by omega) (hwl r (by simp)) (hlen _ hkmem) ha
      have hjk : j = k := by omega
      subst hjk
      obtain ⟨t, ht⟩ := ih (fun x hx => hwl x (by simp [hx])) (j + 1) (by simp at hj ⊢; omega)
      refine ⟨t, ?_⟩
      have hg : ps.getD j [] = ps[j] := by
        simp [List.getD_eq_getElem?_getD, List.getElem?_eq_getElem hk]
      have hdrop : ps.drop j = ps.getD j [] :: ps.drop (j + 1) := by
        rw [hg]; exact List.drop_eq_getElem_cons hk
      rw [hdrop, hp, List.cons_append, ht]

/-- the receiver stops at the first rejected record: nothing after it is delivered -/
theorem sticky_error (Æ : AEAD) (salt : Bytes) (j : Nat) (r : WireRec) (rs : List WireRec)
    (h : Æ.dec (salt ++ r.explicit) (aad j r.typ r.len) r.ct = none) :
    receive Æ salt j (r :: rs) = [] := by
  unfold receive; rw [h]

/-- what an honest network delivers: the sender's records, in order -/
def honestWire (Æ : AEAD) (salt : Bytes) : Nat → List Bytes → List WireRec
  | _, [] => []
  | j, p :: ps =>
    ⟨23, seqBytes j, p.length, Æ.enc (salt ++ seqBytes j) (aad j 23 p.length) p⟩ :: honestWire Æ salt (j + 1) ps

/-- an untouched stream is delivered in full by a correct AEAD -/
theorem honest_delivery (Æ : AEAD) (hc : ∀ n a p, Æ.dec n a (Æ.enc n a p) = some p)
    (salt : Bytes) (ps : List Bytes) (j : Nat) :
    receive Æ salt j (honestWire Æ salt j ps) = ps := by
  induction ps generalizing j with
  | nil => rfl
  | cons p ps ih =>
    simp only [honestWire, receive, hc]
    rw [ih (j + 1)]

/-- Non-vacuity: SM4-GCM (`Spec.GCM` over `Spec.SM4`) is a correct AEAD in the sense used above (C12). -/
def sm4gcm (key : Bytes) : AEAD where
  enc n a p := let (c, t) := Spec.GCM.ae (Spec.SM4.encrypt key) n p a; c ++ t
  dec n a c := if c.length < 16 then none else
    Spec.GCM.ad (Spec.SM4.encrypt key) n (c.take (c.length - 16)) a (c.drop (c.length - 16))

theorem sm4gcm_correct (key n a p : Bytes) : (sm4gcm key).dec n a ((sm4gcm key).enc n a p) = some p := by
  have hl := Props.C12.ae_lengths (Spec.SM4.encrypt key) (Props.C05.enc_length key) n p a
  have hd := Props.C12.sm4gcm_dec_enc key n p a
  simp only [sm4gcm]
  generalize Spec.GCM.ae (Spec.SM4.encrypt key) n p a = ct at hl hd
  obtain ⟨c, t⟩ := ct
  simp only at hl hd ⊢
  have h16 : ¬ (c ++ t).length < 16 := by simp [hl.2]
  simp only [h16, if_false, List.length_append, hl.2, Nat.add_sub_cancel]
  rw [List.take_left' rfl, List.drop_left' rfl]
  exact hd

end Props.C07

namespace Props.C07
open Gmsm Model.Record

/-- T1 `decrypt_encrypt` (SM4-GCM suite): a record produced by `halfConn.encrypt` is accepted by
    `halfConn.decrypt` at the same sequence number and yields exactly the payload, for every key,
    salt, 8-byte explicit nonce, type and payload. -/
theorem decrypt_encrypt_gcm (keys : Keys) (seq : Nat) (typ : Byte) (explicit payload : Bytes)
    (he : explicit.length = 8) :
    let h : Half := ⟨.gcm, keys, seq⟩
    (h.decrypt typ ((h.encrypt typ explicit payload).1.drop 5)).1 = some payload := by
  intro h
  have hl := Props.C12.ae_lengths (Spec.SM4.encrypt keys.key) (Props.C05.enc_length keys.key)
    (keys.iv ++ explicit) payload (aad seq typ payload.length)
  have hd := Props.C12.sm4gcm_dec_enc keys.key (keys.iv ++ explicit) payload (aad seq typ payload.length)
  rcases hct : Spec.GCM.ae (Spec.SM4.encrypt keys.key) (keys.iv ++ explicit) payload (aad seq typ payload.length) with ⟨c, t⟩
  rw [hct] at hl hd
  simp only at hl hd
  simp only [h, Half.encrypt, hct]
  unfold Half.decrypt
  simp only
  have hhdr : (header typ (explicit.length + c.length + 16)).length = 5 := by simp [header, be16, i2ospR_length]
  have hbody : (header typ (explicit.length + c.length + 16) ++ explicit ++ c ++ t).drop 5 = explicit ++ (c ++ t) := by
    rw [List.append_assoc, List.append_assoc, List.drop_left' hhdr]
  rw [hbody]
  have h8 : ¬ (explicit ++ (c ++ t)).length < 8 := by simp [he]
  have htake : (explicit ++ (c ++ t)).take 8 = explicit := List.take_left' he
  have hdrop : (explicit ++ (c ++ t)).drop 8 = c ++ t := List.drop_left' he
  simp only [h8, if_false, htake, hdrop]
  have h16 : ¬ (c ++ t).length < 16 := by simp [hl.2]
  simp only [h16, if_false, List.length_append, hl.2, Nat.add_sub_cancel]
  rw [List.take_left' rfl, List.drop_left' rfl, hl.1, hd]
  have : ¬ (payload.length + 16 < 16) := by omega
  simp [this]

end Props.C07
