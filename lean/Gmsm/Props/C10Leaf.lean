/-
C10 (continued) — the verified certificate's OWN permitted DNS domains play no part.

As found, `Certificate.Verify` (x509/verify.go) called `c.isValid(leafCertificate, nil, &opts)` and `isValid` made
the permitted-DNS-domains test for every certificate type: the permitted domains of the certificate BEING VERIFIED
(which, RFC 5280 4.2.1.10, constrain the names in certificates issued below it) were compared with
`VerifyOptions.DNSName`.  A leaf (SAN foo.org, permitted: example.com) directly under an unconstrained, valid root
was refused for host foo.org with CANotAuthorizedForThisName.  Property C10 asks for the constraints of the ISSUERS.
The repaired rule (`Model.X509.isValid`: `kind != .leaf && !permittedOK c o`): issuers only.

Theorems (for every pool, signature relation, option set, leaf and budget):
* `isValid_leaf_permitted_irrelevant` — the clause itself: `isValid` of the verified certificate does not read its
  permitted domains; `isValid_leaf_no_name_refusal` — it never answers CANotAuthorizedForThisName for it.
* `buildChains_leaf_permitted` — neither does the search (it reads the permitted domains of pool members only).
* `verify_leaf_permitted_irrelevant` — the verdict of `Verify` (the returned chains, as certificate identities, or
  the error class) is the same whatever permitted domains the verified certificate carries; in particular the same
  as with none (`verify_leaf_permitted_nil`).
* `ex_leaf_own_constraints_accepted` — the reader's case, accepted (refused as found).
-/
import Gmsm.Props.C10Names
namespace Props.C10
open Model.X509

/-- the same certificate (same identity, names, keys, signature, …) carrying other permitted DNS domains -/
def withPermitted (c : Cert) (l : List String) : Cert := { c with permitted := l }

/-- a chain (leaf first) whose first certificate carries other permitted DNS domains -/
def swapP (l : List String) : List Cert → List Cert
  | [] => []
  | x :: t => withPermitted x l :: t

/-! ### 1. the clause -/

/-- `isValid_leaf_permitted_irrelevant` (the repaired clause): for the certificate being verified
    (`certType == leafCertificate`) the answer of `isValid` does not depend on its own permitted DNS domains.
    False as found: there `isValid` answered CANotAuthorizedForThisName for a leaf whose permitted domains do not
    match the requested host. -/
theorem isValid_leaf_permitted_irrelevant (c : Cert) (l : List String) (chain : List Cert) (o : Opts) :
    isValid (withPermitted c l) .leaf chain o = isValid c .leaf chain o := by
  unfold isValid
  have hk : (Kind.leaf != Kind.leaf) = false := by decide
  simp only [hk, Bool.false_and, Bool.false_eq_true, if_false]
  rfl

/-- `isValid` never answers CANotAuthorizedForThisName for the certificate being verified -/
theorem isValid_leaf_no_name_refusal (c : Cert) (chain : List Cert) (o : Opts) :
    isValid c .leaf chain o ≠ some .notAuthorizedForName := by
  unfold isValid
  have hk : (Kind.leaf != Kind.leaf) = false := by decide
  simp only [hk, Bool.false_and, Bool.false_eq_true, if_false]
  intro h
  repeat' split at h
  all_goals cases h

/-- consequently `Verify` never reports CANotAuthorizedForThisName about the verified certificate itself -/
theorem verify_never_leaf_name_refusal (roots inters : List Cert) (leaf : Cert) (o : Opts) :
    verify roots inters leaf o ≠ .leafInvalid .notAuthorizedForName := by
  unfold verify
  intro h
  by_cases hcrit : leaf.critical = true
  · simp [hcrit] at h
  · simp only [hcrit, Bool.false_eq_true, if_false] at h
    cases hv : isValid leaf .leaf [] o with
    | some r =>
      simp only [hv, Res.leafInvalid.injEq] at h
      exact isValid_leaf_no_name_refusal leaf [] o (by rw [hv, h])
    | none =>
      simp only [hv] at h
      repeat' split at h
      all_goals cases h

/-! ### 2. the search -/

/-- what `buildChains` reads of the certificates already on the chain (identity, issuer name, AuthorityKeyId,
    signature) does not include their permitted DNS domains -/
theorem findVerifiedParents_withPermitted (pool : List Cert) (c : Cert) (l : List String) :
    findVerifiedParents pool (withPermitted c l) = findVerifiedParents pool c := rfl

theorem isValid_swapP (i : Cert) (kind : Kind) (l : List String) (x : Cert) (rest : List Cert) (o : Opts) :
    isValid i kind (withPermitted x l :: rest) o = isValid i kind (x :: rest) o := by
  cases rest with
  | nil => rfl
  | cons r rs =>
    unfold isValid
    simp only [List.getLast?_cons_cons, List.length_cons]

theorem any_id_swapP (l : List String) (x : Cert) (rest : List Cert) (r : Cert) :
    (withPermitted x l :: rest).any (·.id == r.id) = (x :: rest).any (·.id == r.id) := rfl

/-- the accumulator of the search with the first certificate of every chain changed -/
def swapAcc (l : List String) (acc : List (List Cert) × Nat) : List (List Cert) × Nat := (acc.1.map (swapP l), acc.2)

theorem foldl_swapAcc (l : List String) (f g : List (List Cert) × Nat → Cert → List (List Cert) × Nat)
    (hfg : ∀ acc i, g (swapAcc l acc) i = swapAcc l (f acc i)) (cs : List Cert) :
    ∀ acc, cs.foldl g (swapAcc l acc) = swapAcc l (cs.foldl f acc) := by
  induction cs with
  | nil => intro acc; rfl
  | cons i cs ih => intro acc; simp only [List.foldl_cons, hfg, ih]

/-- `buildChains_leaf_permitted`: the search started from a chain whose first certificate carries other permitted
    DNS domains finds the same chains (except for that field of the first certificate) with the same work. -/
theorem buildChains_leaf_permitted (roots inters : List Cert) (o : Opts) (l : List String) (x : Cert) :
    ∀ fuel steps rest,
      buildChains roots inters o fuel steps (withPermitted x l :: rest) =
        swapAcc l (buildChains roots inters o fuel steps (x :: rest)) := by
  intro fuel
  induction fuel with
  | zero => intro steps rest; simp [buildChains, swapAcc]
  | succ fuel ih =>
    intro steps rest
    by_cases hs : steps = 0
    · rw [buildChains, buildChains]; simp [hs, swapAcc]
    · -- the last certificate of both chains, and what is read of it
      obtain ⟨c, c2, hc, hc2, hfp⟩ : ∃ c c2, (x :: rest).getLast? = some c ∧
          (withPermitted x l :: rest).getLast? = some c2 ∧
          ∀ pool, findVerifiedParents pool c2 = findVerifiedParents pool c := by
        cases rest with
        | nil => exact ⟨x, withPermitted x l, rfl, rfl, fun pool => findVerifiedParents_withPermitted pool x l⟩
        | cons r rs =>
          cases hl : (r :: rs).getLast? with
          | none => simp at hl
          | some c =>
            refine ⟨c, c, ?_, ?_, fun _ => rfl⟩
            · rw [List.getLast?_cons_cons]; exact hl
            · rw [List.getLast?_cons_cons]; exact hl
      rw [buildChains_succ _ _ o fuel steps _ _ hs hc2, buildChains_succ _ _ o fuel steps _ _ hs hc, hfp]
      have hroots : (viaRoots roots o (withPermitted x l :: rest) c2, steps - 1) =
          swapAcc l (viaRoots roots o (x :: rest) c, steps - 1) := by
        unfold viaRoots swapAcc
        rw [hfp]
        simp only [List.map_filterMap, Prod.mk.injEq, and_true]
        congr 1
        funext r
        simp only [any_id_swapP, isValid_swapP]
        split
        · rfl
        · split
          · rfl
          · rfl
      rw [hroots]
      apply foldl_swapAcc
      intro acc i
      unfold interStep
      simp only [any_id_swapP, isValid_swapP]
      split
      · rfl
      · split
        · rfl
        · have := ih (swapAcc l acc).2 (rest ++ [i])
          simp only [List.cons_append] at this ⊢
          rw [this]
          simp [swapAcc]

/-! ### 3. `Verify` -/

theorem map_ids_swapP (l : List String) (ch : List Cert) : (swapP l ch).map (·.id) = ch.map (·.id) := by
  cases ch <;> rfl

theorem checkChainForKeyUsage_swapP (l : List String) (ch : List Cert) (us : List Nat) :
    checkChainForKeyUsage (swapP l ch) us = checkChainForKeyUsage ch us := by
  cases ch with
  | nil => rfl
  | cons x t =>
    unfold checkChainForKeyUsage
    simp only [swapP, List.isEmpty_cons, List.reverse_cons, List.foldl_append, List.foldl_cons, List.foldl_nil]
    rfl

/-- `verify_leaf_permitted_irrelevant` (the repaired behaviour, stated outright): for every root pool,
    intermediate pool, option set (time, host, usages) and certificate `leaf`, `Verify` gives the same verdict - the
    same chains (as certificate identities) or the same error class - whatever permitted DNS domains `l` the
    verified certificate itself carries.  Its own name constraints speak about what it may issue, not about itself.
    False as found (`ex_leaf_own_constraints_accepted` below was refused). -/
theorem verify_leaf_permitted_irrelevant (roots inters : List Cert) (leaf : Cert) (o : Opts) (l : List String) :
    verify roots inters (withPermitted leaf l) o = verify roots inters leaf o := by
  have hb := buildChains_leaf_permitted roots inters o l leaf (roots.length + inters.length + 2) maxSteps []
  have hv := isValid_leaf_permitted_irrelevant leaf l [] o
  unfold verify
  rw [hv, hb]
  have hcr : (withPermitted leaf l).critical = leaf.critical := rfl
  have hvh : verifyHostname (withPermitted leaf l) o = verifyHostname leaf o := rfl
  have hid : (withPermitted leaf l).id = leaf.id := rfl
  rw [hcr, hvh, hid]
  have hcands : (if roots.any (·.id == leaf.id) = true then [[withPermitted leaf l]]
      else (swapAcc l (buildChains roots inters o (roots.length + inters.length + 2) maxSteps [leaf])).1) =
      (if roots.any (·.id == leaf.id) = true then [[leaf]]
      else (buildChains roots inters o (roots.length + inters.length + 2) maxSteps [leaf]).1).map (swapP l) := by
    split <;> simp [swapAcc, swapP]
  rw [hcands]
  generalize (if roots.any (·.id == leaf.id) = true then [[leaf]]
      else (buildChains roots inters o (roots.length + inters.length + 2) maxSteps [leaf]).1) = cands
  have hids : ∀ cs : List (List Cert), (cs.map (swapP l)).map (·.map (·.id)) = cs.map (·.map (·.id)) := by
    intro cs
    rw [List.map_map]
    apply List.map_congr_left
    intro ch _
    exact map_ids_swapP l ch
  simp only [List.isEmpty_map, List.filter_map, Function.comp_def, checkChainForKeyUsage_swapP, hids]

/-- the form asked for: with permitted domains `l` the verdict is the one with none -/
theorem verify_leaf_permitted_nil (roots inters : List Cert) (leaf : Cert) (o : Opts) (l : List String) :
    verify roots inters { leaf with permitted := l } o = verify roots inters { leaf with permitted := [] } o := by
  have h1 := verify_leaf_permitted_irrelevant roots inters leaf o l
  have h2 := verify_leaf_permitted_irrelevant roots inters leaf o []
  unfold withPermitted at h1 h2
  rw [h1, h2]

/-! ### 4. non-vacuity: the reader's case -/

/-- root R (no constraints) ← L (SAN foo.org, itself a CA, permitted DNS domains: example.com) -/
def ownRoot : Cert := exRoot
def ownLeaf : Cert := { exLeaf with iss := 10, signer := 10, bcValid := true, isCA := true, keyUsage := 0,
                                    dns := ["foo.org"], permitted := ["example.com"] }
def fooOpts : Opts := ⟨0, "foo.org", false, "", []⟩

/-- the leaf's own permitted domains do not cover the requested name … -/
example : permittedOK ownLeaf fooOpts = false := by decide +kernel
/-- … and `isValid` of the verified certificate passes all the same (as found: `some .notAuthorizedForName`) -/
example : isValid ownLeaf .leaf [] fooOpts = none := by decide +kernel
/-- the same certificate in the position of an ISSUER is still refused for that name: nothing is widened there -/
example : isValid ownLeaf .intermediate [] fooOpts = some .notAuthorizedForName := by decide +kernel
example : isValid ownLeaf .root [] fooOpts = some .notAuthorizedForName := by decide +kernel

/-- `verify_leaf_permitted_irrelevant` applied: the verdict is the one for the leaf without permitted domains -/
example : verify [ownRoot] [] ownLeaf fooOpts = verify [ownRoot] [] { ownLeaf with permitted := [] } fooOpts :=
  verify_leaf_permitted_nil [ownRoot] [] ownLeaf fooOpts ["example.com"]

/- end to end on the compiled model (`String.splitOn` in `matchHostnames` does not reduce in the kernel; the same
   evaluations are compared with the real `Verify` by the `chain` ops of harness/c10leafnc.go) -/
/-- `ex_leaf_own_constraints_accepted`: the reader's case is accepted with the chain L, R (kernel-checked except
    for the host-name match of the leaf, `foo.org` against its SAN `foo.org`, which is the hypothesis `hh`:
    `String.splitOn` does not reduce in the kernel; it and the whole verdict are evaluated by the `#guard`s). -/
theorem ex_leaf_own_constraints_accepted (hh : verifyHostname ownLeaf fooOpts = true) :
    verify [ownRoot] [] ownLeaf fooOpts = .ok [[3, 1]] :=
  (verify_ok_iff [ownRoot] [] ownLeaf fooOpts [[3, 1]]).mpr
    ⟨by decide, by decide +kernel, fun _ => hh, by decide +kernel, by decide +kernel⟩
#guard verifyHostname ownLeaf fooOpts
#guard (match verify [ownRoot] [] ownLeaf fooOpts with | .ok cs => cs == [[3, 1]] | _ => false)
#guard (match verify [ownRoot] [] { ownLeaf with permitted := [] } fooOpts with | .ok cs => cs == [[3, 1]] | _ => false)
-- upper case / trailing dot; the leaf also in the root pool; under an intermediate
#guard (match verify [ownRoot] [] ownLeaf ⟨0, "FOO.org.", false, "", []⟩ with | .ok cs => cs == [[3, 1]] | _ => false)
#guard (match verify [ownRoot, ownLeaf] [] ownLeaf fooOpts with | .ok cs => cs == [[3]] | _ => false)
#guard (match verify [exRoot] [exInt] { ownLeaf with iss := 20, signer := 20 } fooOpts with | .ok cs => cs == [[3, 2, 1]] | _ => false)
-- an ISSUER whose permitted domains do not cover the name still blocks the path; one that covers it does not
#guard (match verify [exRoot] [{ exInt with permitted := ["example.com"] }] { ownLeaf with iss := 20, signer := 20 } fooOpts with
  | .noChain => true | _ => false)
#guard (match verify [exRoot] [{ exInt with permitted := ["foo.org"] }] { ownLeaf with iss := 20, signer := 20 } fooOpts with
  | .ok cs => cs == [[3, 2, 1]] | _ => false)
-- and the host name still has to match the leaf
#guard (match verify [ownRoot] [] ownLeaf ⟨0, "example.com", false, "", []⟩ with | .hostname => true | _ => false)

end Props.C10
