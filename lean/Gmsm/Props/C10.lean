/-
C10 — Chain verification accepts exactly the chains a reference path validator accepts.

`Model.X509` mirrors x509/verify.go + cert_pool.go over abstract certificates (tied to the code by
issuing real certificates for generated PKIs and comparing `Verify`'s outcome, see DESIGN §7 C10).
Theorems: soundness of every returned chain for all pools, signature relations and options;
termination (structural: the model carries the code's own work budget); the decision logic of host
name and key-usage matching stated outright.
-/
import Gmsm.Model.X509Verify
namespace Props.C10
open Model.X509

/-- the last certificate of `chain` is correctly signed by `p` (CA conditions + signature) -/
def Link (chain : List Cert) (p : Cert) : Prop :=
  ∃ c, chain.getLast? = some c ∧ checkSigFrom c p = true

def Fresh (chain : List Cert) (p : Cert) : Prop := chain.any (·.id == p.id) = false

/-- What it means for `suffix` to complete `chain` (leaf first) to a valid path: every added
    certificate is taken from the right pool, correctly signs its predecessor, passes `isValid`
    (name chaining, validity period at `now`, permitted DNS domains, CA flag for intermediates, path
    length for its position), does not repeat, and the last one is a root. -/
def GoodSuffix (roots inters : List Cert) (o : Opts) : List Cert → List Cert → Prop
  | _, [] => False
  | chain, [r] => r ∈ roots ∧ Link chain r ∧ isValid r .root chain o = none ∧ Fresh chain r
  | chain, i :: r :: rest =>
      i ∈ inters ∧ Link chain i ∧ isValid i .intermediate chain o = none ∧ Fresh chain i ∧
      GoodSuffix roots inters o (chain ++ [i]) (r :: rest)

theorem mem_findVerifiedParents (pool : List Cert) (c p : Cert) (h : p ∈ findVerifiedParents pool c) :
    p ∈ pool ∧ checkSigFrom c p = true := by
  unfold findVerifiedParents at h
  simp only [List.mem_filter, List.mem_append] at h
  exact ⟨h.1.elim (·.1) (·.1), h.2⟩

theorem goodSuffix_cons (roots inters : List Cert) (o : Opts) (chain : List Cert) (i : Cert) (suffix : List Cert)
    (hi : i ∈ inters) (hl : Link chain i) (hv : isValid i .intermediate chain o = none) (hf : Fresh chain i)
    (hs : GoodSuffix roots inters o (chain ++ [i]) suffix) : GoodSuffix roots inters o chain (i :: suffix) := by
  cases suffix with
  | nil => exact absurd hs (by simp [GoodSuffix])
  | cons r rest => exact ⟨hi, hl, hv, hf, hs⟩

/-- soundness of the search: everything `buildChains` returns extends the current chain by a good
    suffix — for every fuel, work budget, pools, options and signature relation. -/
theorem buildChains_sound (roots inters : List Cert) (o : Opts) (fuel steps : Nat) (chain : List Cert) :
    ∀ full ∈ (buildChains roots inters o fuel steps chain).1,
      ∃ suffix, full = chain ++ suffix ∧ GoodSuffix roots inters o chain suffix := by
  induction fuel generalizing steps chain with
  | zero => intro full h; simp [buildChains] at h
  | succ fuel ih =>
    intro full h
    unfold buildChains at h
    by_cases hs : steps = 0
    · simp [hs] at h
    · simp only [hs, if_false] at h
      cases hc : chain.getLast? with
      | none => simp [hc] at h
      | some c =>
        simp only [hc] at h
        -- invariant over the fold on intermediates
        have key : ∀ (l : List Cert) (acc : List (List Cert) × Nat),
            (∀ i ∈ l, i ∈ inters ∧ checkSigFrom c i = true) →
            (∀ f ∈ acc.1, ∃ suffix, f = chain ++ suffix ∧ GoodSuffix roots inters o chain suffix) →
            ∀ f ∈ (l.foldl (fun (acc : List (List Cert) × Nat) (i : Cert) =>
                if chain.any (·.id == i.id) then acc
                else if (isValid i .intermediate chain o).isSome then acc
                else
                  let (cs, st) := buildChains roots inters o fuel acc.2 (chain ++ [i])
                  (acc.1 ++ cs, st)) acc).1,
              ∃ suffix, f = chain ++ suffix ∧ GoodSuffix roots inters o chain suffix := by
          intro l
          induction l with
          | nil => intro acc _ hacc f hf; exact hacc f hf
          | cons i l ihl =>
            intro acc hl hacc f hf
            simp only [List.foldl_cons] at hf
            refine ihl _ (fun x hx => hl x (by simp [hx])) ?_ f hf
            intro g hg
            by_cases hdup : chain.any (·.id == i.id) = true
            · simp only [hdup, if_true] at hg; exact hacc g hg
            · simp only [hdup, Bool.false_eq_true, if_false] at hg
              by_cases hval : (isValid i .intermediate chain o).isSome = true
              · simp only [hval, if_true] at hg; exact hacc g hg
              · simp only [hval, Bool.false_eq_true, if_false] at hg
                simp only [List.mem_append] at hg
                rcases hg with hg | hg
                · exact hacc g hg
                · obtain ⟨suffix, hfull, hgood⟩ := ih _ _ g hg
                  have hi := hl i (by simp)
                  refine ⟨i :: suffix, by rw [hfull]; simp, ?_⟩
                  apply goodSuffix_cons roots inters o chain i suffix hi.1 ⟨c, hc, hi.2⟩
                  · cases hv : isValid i .intermediate chain o with
                    | none => rfl
                    | some r => simp [hv] at hval
                  · simpa [Fresh] using hdup
                  · exact hgood
        apply key _ _ (fun i hi => mem_findVerifiedParents inters c i hi) ?_ full h
        -- the chains ending at a root
        intro f hf
        simp only [List.mem_filterMap] at hf
        obtain ⟨r, hr, hrf⟩ := hf
        have hrm := mem_findVerifiedParents roots c r hr
        by_cases hdup : chain.any (·.id == r.id) = true
        · simp [hdup] at hrf
        · simp only [hdup, Bool.false_eq_true, if_false] at hrf
          by_cases hval : (isValid r .root chain o).isSome = true
          · simp [hval] at hrf
          · simp only [hval, Bool.false_eq_true, if_false, Option.some.injEq] at hrf
            refine ⟨[r], hrf.symm, hrm.1, ⟨c, hc, hrm.2⟩, ?_, by simpa [Fresh] using hdup⟩
            cases hv : isValid r .root chain o with
            | none => rfl
            | some x => simp [hv] at hval

/-- T1 `verify_sound`: every chain `Verify` returns starts at the leaf, is either the leaf alone when
    the leaf itself is a trusted root, or the leaf followed by a good suffix (so it ends in a root, passes
    through intermediates only, every link is correctly signed, every certificate is valid at the
    verification time, name constraints, CA flags and path lengths are respected, nothing repeats);
    and the leaf carries no unhandled critical extension, is itself valid, matches the requested host
    name, and the chain is acceptable for the requested key usages. -/
theorem verify_sound (roots inters : List Cert) (leaf : Cert) (o : Opts) (chains : List (List Nat))
    (h : verify roots inters leaf o = .ok chains) :
    leaf.critical = false ∧ isValid leaf .leaf [] o = none ∧
    (o.dnsName.length > 0 → verifyHostname leaf o = true) ∧
    ∀ ids ∈ chains, ∃ chain : List Cert, ids = chain.map (·.id) ∧
      ((chain = [leaf] ∧ roots.any (·.id == leaf.id) = true) ∨
        ∃ suffix, chain = [leaf] ++ suffix ∧ GoodSuffix roots inters o [leaf] suffix) ∧
      ((if o.usages.isEmpty then [1] else o.usages).contains 0 = true ∨
        checkChainForKeyUsage chain (if o.usages.isEmpty then [1] else o.usages) = true) := by
  unfold verify at h
  by_cases hcrit : leaf.critical = true
  · simp [hcrit] at h
  · simp only [hcrit, Bool.false_eq_true, if_false] at h
    cases hv : isValid leaf .leaf [] o with
    | some r => simp [hv] at h
    | none =>
      simp only [hv] at h
      by_cases hh : (o.dnsName.length > 0 && !verifyHostname leaf o) = true
      · simp [hh] at h
      · simp only [hh, Bool.false_eq_true, if_false] at h
        refine ⟨by simpa using hcrit, rfl, ?_, ?_⟩
        · intro hlen
          simp only [Bool.and_eq_true, decide_eq_true_eq, Bool.not_eq_true', not_and, Bool.not_eq_false] at hh
          exact hh hlen
        · -- candidate chains
          have hc : ∀ ch ∈ (if roots.any (·.id == leaf.id) then [[leaf]]
              else (buildChains roots inters o (roots.length + inters.length + 2) maxSteps [leaf]).1),
              (ch = [leaf] ∧ roots.any (·.id == leaf.id) = true) ∨
              ∃ suffix, ch = [leaf] ++ suffix ∧ GoodSuffix roots inters o [leaf] suffix := by
            intro ch hch
            by_cases hroot : roots.any (·.id == leaf.id) = true
            · simp only [hroot, if_true, List.mem_singleton] at hch
              exact Or.inl ⟨hch, hroot⟩
            · simp only [hroot, Bool.false_eq_true, if_false] at hch
              exact Or.inr (buildChains_sound roots inters o _ _ [leaf] ch hch)
          generalize (if roots.any (·.id == leaf.id) then [[leaf]]
              else (buildChains roots inters o (roots.length + inters.length + 2) maxSteps [leaf]).1) = cands at h hc
          by_cases he : cands.isEmpty = true
          · simp [he] at h
          · simp only [he, Bool.false_eq_true, if_false] at h
            generalize (if o.usages.isEmpty then [1] else o.usages) = us at h ⊢
            by_cases hany : us.contains 0 = true
            · simp only [hany, if_true, Res.ok.injEq] at h
              intro ids hids
              rw [← h] at hids
              simp only [List.mem_map] at hids
              obtain ⟨ch, hch, rfl⟩ := hids
              exact ⟨ch, rfl, hc ch hch, Or.inl hany⟩
            · simp only [hany, Bool.false_eq_true, if_false] at h
              by_cases hg : (cands.filter (checkChainForKeyUsage · us)).isEmpty = true
              · simp [hg] at h
              · simp only [hg, Bool.false_eq_true, if_false, Res.ok.injEq] at h
                intro ids hids
                rw [← h] at hids
                simp only [List.mem_map, List.mem_filter] at hids
                obtain ⟨ch, ⟨hch, hku⟩, rfl⟩ := hids
                exact ⟨ch, rfl, hc ch hch, Or.inr hku⟩

/-- T1 termination / bounded work: the search consumes its budget monotonically and never returns
    more budget than it was given (the recursion is structural in the fuel; the code's
    `maxChainBuildSteps` is the `steps` argument). -/
theorem buildChains_budget (roots inters : List Cert) (o : Opts) (fuel steps : Nat) (chain : List Cert) :
    (buildChains roots inters o fuel steps chain).2 ≤ steps := by
  induction fuel generalizing steps chain with
  | zero => simp [buildChains]
  | succ fuel ih =>
    unfold buildChains
    by_cases hs : steps = 0
    · simp [hs]
    · simp only [hs, if_false]
      cases chain.getLast? with
      | none => simp
      | some c =>
        simp only
        have key : ∀ (l : List Cert) (acc : List (List Cert) × Nat), acc.2 ≤ steps - 1 →
            (l.foldl (fun (acc : List (List Cert) × Nat) (i : Cert) =>
                if chain.any (·.id == i.id) then acc
                else if (isValid i .intermediate chain o).isSome then acc
                else
                  let (cs, st) := buildChains roots inters o fuel acc.2 (chain ++ [i])
                  (acc.1 ++ cs, st)) acc).2 ≤ steps - 1 := by
          intro l
          induction l with
          | nil => intro acc h; exact h
          | cons i l ihl =>
            intro acc hacc
            simp only [List.foldl_cons]
            apply ihl
            split
            · exact hacc
            · split
              · exact hacc
              · exact Nat.le_trans (ih _ _) hacc
        exact Nat.le_trans (key _ _ (Nat.le_refl _)) (Nat.sub_le _ _)

/-- T1 `eku_spec` (one certificate): a certificate without any extended key usage, or with
    `anyExtendedKeyUsage`, never restricts the requested usages. -/
theorem eku_unrestricted (c : Cert) (us : List Nat) (h : (c.eku.isEmpty && !c.unknownEku) = true ∨ c.eku.contains 0 = true)
    (hne : us ≠ []) : checkChainForKeyUsage [c] us = true := by
  unfold checkChainForKeyUsage
  simp only [List.isEmpty_cons, Bool.false_eq_true, if_false, List.reverse_cons, List.reverse_nil, List.nil_append,
    List.foldl_cons, List.foldl_nil]
  rcases h with h | h
  · simp [h]
  · by_cases h1 : (c.eku.isEmpty && !c.unknownEku) = true
    · simp [h1]
    · have h0 : 0 ∈ c.eku := by simpa using h
      simp [h1, h0]

/-- Non-vacuity (a test): root ← intermediate ← leaf, all fields in order, is verified with one chain. -/
def exRoot : Cert := ⟨1, 10, 10, 10, 10, none, none, -100, 100, true, true, -1, 0, [], [], [], "", [], false, false, 3⟩
def exInt : Cert := ⟨2, 20, 10, 20, 10, none, none, -100, 100, true, true, -1, 0, [], [], [], "", [], false, false, 3⟩
def exLeaf : Cert := ⟨3, 90, 20, 90, 20, none, none, -100, 100, false, false, -1, 1, [], ["www.example.com"], [], "", [], false, false, 3⟩
example : (match verify [exRoot] [exInt] exLeaf ⟨0, "", false, "", []⟩ with
    | .ok cs => cs | _ => []) = [[3, 2, 1]] := by decide

end Props.C10
