/-
C17 / C18 (x509/ber.go, as repaired): an indefinite-length constructed value may have NO members.

`readObjectDepth` used to read a member of an indefinite-length value BEFORE it looked for the end-of-contents
octets, so `30 80 00 00`, `31 80 00 00`, `24 80 00 00`, `a0 80 00 00` were refused ("ber2der: Invalid BER format":
the `00 00` was taken for a member, and the terminator was then missing) and `ParsePKCS7` refused a genuine BER
SignedData whose attached content is the empty OCTET STRING written as `24 80 00 00`.  Since the repair the
end-of-contents test comes before each member (`Model.BER.readItems`).  What was false before and holds now:

* `ber2der_empty_indefinite_byte`: for every constructed low-tag-number identifier octet `t`,
  `ber2der [t, 80, 00, 00] = [t, 00]`;
* `ber2der_empty_indefinite`: the same for any well-shaped constructed tag (high tag numbers too);
* `readObject_indefinite` / `ber2der_indefinite`: an indefinite-length constructed value whose members — the DER
  encodings of ANY list `os` of well-formed objects, none of which is the end-of-contents marker `00 00` itself,
  the EMPTY list included — are followed by `00 00` is read as `.cons tag os`, anywhere in a longer input, and
  `ber2der` turns it into the definite-length encoding `encodeTo (.cons tag os)` of the same members.
-/
import Gmsm.Props.C17Idem
import Gmsm.Props.C18Output

namespace Props.C18Empty
open Gmsm Model.BER Props.C17Idem

/-- the bytes `b` start with the end-of-contents octets `00 00` (what `isIndefiniteTermination` tests) -/
def startsEOC (b : Bytes) : Prop := b.getD 0 1 = 0 ∧ b.getD 1 1 = 0

/-- the length octet `80` announces the indefinite form and consumes nothing more -/
theorem readLength_indef (ber : Bytes) (off : Nat) : readLength ber off 0x80 = .ok (0, off, true) := by
  unfold readLength
  have h1 : ¬ ((0x80 : Byte).toNat > 0x80) := by decide
  have h2 : (0x80 : Byte).toNat = 0x80 := by decide
  rw [if_neg h1, if_pos h2]

/-- one `readObject` call on a constructed header with the length octet `80`, below the depth limit: the result
    is that of the item loop right behind the header, and the object ends two bytes (the `00 00`) after the
    position where the loop stopped -/
theorem readObject_header_indef {ber : Bytes} {off d f : Nat} {b : Byte} {tagEnd : Nat}
    (hb : ber[off]? = some b) (hc : (b.toNat / 32) % 2 = 1)
    (ht : (if b.toNat % 32 = 0x1F then readTag (ber.length + 1) ber (off + 1) else .ok (off + 1)) = .ok tagEnd)
    (hl : ber[tagEnd]? = some 0x80) (hd : ¬ d ≥ maxBERDepth) :
    readObject (f + 1) ber off d =
      match readItems f ber (tagEnd + 1) (tagEnd + 1) true (d + 1) with
      | .error e => .error e
      | .ok (items, e1) => .ok (.cons ((ber.drop off).take (tagEnd - off)) items, e1 + 2) := by
  have hlt := Props.C18.getElem?_some_lt hl
  rw [readObject]
  simp only [hb, ht, hl, readLength_indef]
  have h1 : ¬ (tagEnd + 1 + 0 > ber.length) := by omega
  rw [if_neg h1]
  simp only [hc, hd, not_true, and_false, if_false, Nat.add_zero]
  cases readItems f ber (tagEnd + 1) (tagEnd + 1) true (d + 1) with
  | error e => rfl
  | ok r => simp

/-- a byte inside the middle part of `pre ++ x ++ y` -/
theorem getD_mid (pre x y : Bytes) (i : Nat) (hi : i < x.length) (dflt : Byte) :
    (pre ++ x ++ y).getD (pre.length + i) dflt = x.getD i dflt := by
  simp only [List.getD_eq_getElem?_getD]
  rw [List.append_assoc, List.getElem?_append_right (by omega)]
  have : pre.length + i - pre.length = i := by omega
  rw [this, List.getElem?_append_left hi]

/-- the encoding of a well-formed object has at least a tag octet and a length octet -/
theorem encodeTo_length_ge2 (o : Obj) (h : WF o) : 2 ≤ (encodeTo o).length := by
  cases o with
  | prim tag c =>
    rw [WF] at h
    rw [encodeTo]
    cases tag with
    | nil => simp [TagOK] at h
    | cons b ts =>
      cases hL : encodeLength c.length with
      | nil => exact absurd hL (encodeLength_ne_nil _)
      | cons l0 Lr => simp; omega
  | cons tag items =>
    rw [WF] at h
    rw [encodeTo]
    cases tag with
    | nil => simp [TagOK] at h
    | cons b ts =>
      cases hL : encodeLength (encodeItems items).length with
      | nil => exact absurd hL (encodeLength_ne_nil _)
      | cons l0 Lr => simp; omega

/-- The item loop of an indefinite-length value (end-of-contents test first): the concatenated DER encodings of
    the members `os` — zero or more — followed by `00 00` are read back as exactly `os`, and the loop stops at
    the `00 00`. -/
theorem readItems_indef_need : (os : List Obj) → WFItems os → (∀ o ∈ os, ¬ startsEOC (encodeTo o)) →
    ∀ (pre rest : Bytes) (f d ce : Nat), needItems os ≤ f → depthItems os + d ≤ maxBERDepth →
    readItems f (pre ++ encodeItems os ++ 0 :: 0 :: rest) pre.length ce true d
      = .ok (os, pre.length + (encodeItems os).length)
  | [], _, _, pre, rest, f, d, ce, hf, _ => by
    cases f with
    | zero => simp [needItems] at hf
    | succ f =>
      rw [Props.C18.readItems_succ]
      unfold Props.C18.itemsK
      simp only [encodeItems, List.append_nil, if_true]
      have h1 : ¬ ((pre ++ 0 :: 0 :: rest).length - pre.length < 2) := by
        simp only [List.length_append, List.length_cons]; omega
      have e0 := getD_mid pre [0, 0] rest 0 (by simp) 1
      have e1 := getD_mid pre [0, 0] rest 1 (by simp) 1
      simp only [List.append_assoc, List.cons_append, List.nil_append, Nat.add_zero] at e0 e1
      rw [if_neg h1, e0, e1]
      simp
  | o :: os, hwf, hne, pre, rest, f, d, ce, hf, hd => by
    rw [WFItems] at hwf
    rw [needItems] at hf
    rw [depthItems] at hd
    cases f with
    | zero => omega
    | succ f =>
      have ih1 := readObject_encodeTo_need o hwf.1 pre (encodeItems os ++ 0 :: 0 :: rest) f d (by omega) (by omega)
      have ih2 := readItems_indef_need os hwf.2 (fun x hx => hne x (List.mem_cons_of_mem _ hx))
        (pre ++ encodeTo o) rest f d ce (by omega) (by omega)
      have hge := encodeTo_length_ge2 o hwf.1
      have hno : ¬ ((encodeTo o).getD 0 1 = 0 ∧ (encodeTo o).getD 1 1 = 0) := hne o (List.mem_cons_self)
      rw [Props.C18.readItems_succ]
      unfold Props.C18.itemsK
      rw [encodeItems]
      have e : pre ++ (encodeTo o ++ encodeItems os) ++ 0 :: 0 :: rest
          = pre ++ encodeTo o ++ (encodeItems os ++ 0 :: 0 :: rest) := by
        simp only [List.append_assoc]
      have e2 : pre ++ encodeTo o ++ (encodeItems os ++ 0 :: 0 :: rest)
          = pre ++ encodeTo o ++ encodeItems os ++ 0 :: 0 :: rest := by
        simp only [List.append_assoc]
      rw [e]
      have h1 : ¬ ((pre ++ encodeTo o ++ (encodeItems os ++ 0 :: 0 :: rest)).length - pre.length < 2) := by
        simp only [List.length_append, List.length_cons]; omega
      have g0 := getD_mid pre (encodeTo o) (encodeItems os ++ 0 :: 0 :: rest) 0 (by omega) 1
      have g1 := getD_mid pre (encodeTo o) (encodeItems os ++ 0 :: 0 :: rest) 1 (by omega) 1
      rw [Nat.add_zero] at g0
      simp only [if_true]
      rw [if_neg h1, g0, g1, if_neg hno]
      rw [ih1]
      dsimp only
      simp only [List.length_append, Nat.add_assoc] at ih2 ⊢
      rw [e2, ih2]

/-- **Reading an indefinite-length constructed value** (fuel `needItems os + 1` or more): the header
    `tag 80`, the DER encodings of the members `os` (zero or more well-formed objects, none of them starting
    with `00 00`), then `00 00` — anywhere inside a longer input, at a depth that leaves room for the nesting —
    is read as `.cons tag os`, and the object ends right behind the `00 00`. -/
theorem readObject_indefinite_need (tag : Bytes) (os : List Obj) (ht : TagOK tag true) (hwf : WFItems os)
    (hne : ∀ o ∈ os, ¬ startsEOC (encodeTo o)) (pre rest : Bytes) (f d : Nat)
    (hf : needItems os + 1 ≤ f) (hd : 1 + depthItems os + d ≤ maxBERDepth) :
    readObject f (pre ++ tag ++ 0x80 :: (encodeItems os ++ 0 :: 0 :: rest)) pre.length d
      = .ok (.cons tag os, pre.length + tag.length + 1 + (encodeItems os).length + 2) := by
  cases f with
  | zero => omega
  | succ f =>
  cases tag with
  | nil => simp [TagOK] at ht
  | cons b ts =>
  obtain ⟨hbit, hshape⟩ := ht
  have hc : (b.toNat / 32) % 2 = 1 := hbit.mpr rfl
  generalize htail : encodeItems os ++ 0 :: 0 :: rest = tail
  generalize hber : pre ++ b :: ts ++ 0x80 :: tail = ber
  have e1 : ber = pre ++ b :: (ts ++ 0x80 :: tail) := by rw [← hber]; simp
  have e2 : ber = (pre ++ [b]) ++ ts ++ (0x80 :: tail) := by rw [← hber]; simp
  have e3 : ber = (pre ++ b :: ts) ++ 0x80 :: tail := by rw [← hber]
  have e4 : ber = (pre ++ b :: ts ++ [0x80]) ++ encodeItems os ++ 0 :: 0 :: rest := by
    rw [← hber, ← htail]; simp
  have hlenber : ber.length = pre.length + (1 + ts.length) + 1 + tail.length := by
    rw [← hber]; simp only [List.length_append, List.length_cons]; omega
  have hb : ber[pre.length]? = some b := by rw [e1]; exact getElem?_mid _ _ _
  have htag : (if b.toNat % 32 = 0x1F then readTag (ber.length + 1) ber (pre.length + 1) else .ok (pre.length + 1))
      = .ok (pre.length + 1 + ts.length) := by
    split
    · rename_i h31
      rw [if_pos h31] at hshape
      have := readTag_contTag ts (pre ++ [b]) (0x80 :: tail) (ber.length + 1) hshape (by omega)
      rw [← e2] at this
      simpa using this
    · rename_i h31
      rw [if_neg h31] at hshape
      subst hshape; rfl
  have hl : ber[pre.length + 1 + ts.length]? = some 0x80 := by
    have := getElem?_mid (pre ++ b :: ts) 0x80 tail
    have hi : (pre ++ b :: ts).length = pre.length + 1 + ts.length := by
      simp only [List.length_append, List.length_cons]; omega
    rw [← e3, hi] at this
    exact this
  have hdr := readObject_header_indef (f := f) (d := d) hb hc htag hl (by omega)
  rw [hdr]
  have t1 : List.take (pre.length + 1 + ts.length - pre.length) (List.drop pre.length ber) = b :: ts := by
    rw [e1, List.drop_left]
    have : pre.length + 1 + ts.length - pre.length = (b :: ts).length := by simp; omega
    rw [this]
    have : b :: (ts ++ 0x80 :: tail) = (b :: ts) ++ (0x80 :: tail) := by simp
    rw [this, List.take_left]
  rw [t1]
  have hitems := readItems_indef_need os hwf hne (pre ++ b :: ts ++ [0x80]) rest f (d + 1)
    (pre.length + 1 + ts.length + 1) (by omega) (by omega)
  have hpl : (pre ++ b :: ts ++ [0x80]).length = pre.length + 1 + ts.length + 1 := by
    simp only [List.length_append, List.length_cons, List.length_nil]; omega
  rw [← e4, hpl] at hitems
  rw [hitems]
  simp only [List.length_cons]
  have : pre.length + 1 + ts.length + 1 + (encodeItems os).length + 2
      = pre.length + (ts.length + 1) + 1 + (encodeItems os).length + 2 := by omega
  rw [this]

/-- the same with the fuel of `Props.C18.fuel_sufficient` -/
theorem readObject_indefinite (tag : Bytes) (os : List Obj) (ht : TagOK tag true) (hwf : WFItems os)
    (hne : ∀ o ∈ os, ¬ startsEOC (encodeTo o)) (pre rest : Bytes) (fuel d : Nat)
    (hd : 1 + depthItems os + d ≤ maxBERDepth)
    (hf : 2 * ((pre ++ tag ++ 0x80 :: (encodeItems os ++ 0 :: 0 :: rest)).length - pre.length) + 1 ≤ fuel) :
    readObject fuel (pre ++ tag ++ 0x80 :: (encodeItems os ++ 0 :: 0 :: rest)) pre.length d
      = .ok (.cons tag os, pre.length + tag.length + 1 + (encodeItems os).length + 2) := by
  have hne2 := Props.C18.fuel_sufficient _ _ d fuel hf
  have hadd := Props.C18.readObject_fuel_add _ _ d fuel hne2 (needItems os + 1)
  rw [← hadd]
  exact readObject_indefinite_need tag os ht hwf hne pre rest _ d (by omega) hd

/-- **`ber2der` on an indefinite-length constructed value**: `tag 80 members 00 00`, for ANY list of members
    (DER encodings of well-formed objects, none the end-of-contents marker) — the empty list included — is
    transcoded to the definite-length encoding `tag len members` of the same members; bytes after the value are
    ignored, as `ber2der` always does. -/
theorem ber2der_indefinite (tag : Bytes) (os : List Obj) (ht : TagOK tag true) (hwf : WFItems os)
    (hne : ∀ o ∈ os, ¬ startsEOC (encodeTo o)) (hd : 1 + depthItems os ≤ maxBERDepth) (rest : Bytes) :
    ber2der (tag ++ 0x80 :: (encodeItems os ++ 0 :: 0 :: rest)) = .ok (encodeTo (.cons tag os)) := by
  have h := readObject_indefinite tag os ht hwf hne [] rest
    (2 * (tag ++ 0x80 :: (encodeItems os ++ 0 :: 0 :: rest)).length + 2) 0 (by omega)
    (by simp only [List.nil_append, List.length_nil]; omega)
  simp only [List.nil_append, List.length_nil] at h
  unfold ber2der
  have hne : (tag ++ 0x80 :: (encodeItems os ++ 0 :: 0 :: rest)).isEmpty = false := by
    cases tag <;> rfl
  rw [hne, h]
  rfl

/-- the first octet of a DER length field is `00` only for the length 0 -/
theorem encodeLength_head_zero (n : Nat) (h : (encodeLength n).headD 1 = 0) : n = 0 := by
  unfold encodeLength at h
  split at h
  · have hl := Props.C18.lengthLength8_le n
    simp only [List.headD_cons] at h
    have h2 := congrArg BitVec.toNat h
    simp only [BitVec.toNat_ofNat] at h2
    have : (128 + lengthLength 8 n) % 2 ^ 8 = 128 + lengthLength 8 n := Nat.mod_eq_of_lt (by omega)
    rw [this] at h2
    simp at h2
  · rename_i hlt
    simp only [List.headD_cons] at h
    have h2 := congrArg BitVec.toNat h
    simp only [BitVec.toNat_ofNat] at h2
    have : n % 2 ^ 8 = n := Nat.mod_eq_of_lt (by omega)
    rw [this] at h2
    simpa using h2

/-- Among the encodings of well-formed objects only that of the primitive, universal tag 0, empty object —
    the end-of-contents marker itself — starts with `00 00`. -/
theorem startsEOC_encodeTo (o : Obj) (hwf : WF o) (h : startsEOC (encodeTo o)) : o = .prim [0] [] := by
  obtain ⟨h0, h1⟩ := h
  cases o with
  | prim tag c =>
    rw [WF] at hwf
    obtain ⟨htag, _⟩ := hwf
    cases tag with
    | nil => simp [TagOK] at htag
    | cons b ts =>
      obtain ⟨_, hshape⟩ := htag
      rw [encodeTo] at h0 h1
      have hb : b = 0 := by simpa using h0
      subst hb
      have hts : ts = [] := by simpa using hshape
      subst hts
      cases hL : encodeLength c.length with
      | nil => exact absurd hL (encodeLength_ne_nil _)
      | cons l0 Lr =>
        rw [hL] at h1
        have hl0 : l0 = 0 := by simpa using h1
        have := encodeLength_head_zero c.length (by rw [hL]; simpa using hl0)
        have hc : c = [] := List.eq_nil_of_length_eq_zero this
        rw [hc]
  | cons tag items =>
    rw [WF] at hwf
    obtain ⟨htag, _⟩ := hwf
    cases tag with
    | nil => simp [TagOK] at htag
    | cons b ts =>
      obtain ⟨hbit, _⟩ := htag
      rw [encodeTo] at h0
      have hb : b = 0 := by simpa using h0
      subst hb
      have := hbit.mpr rfl
      simp at this

/-- `ber2der_indefinite` with the side condition stated on the members themselves: none of them is the
    end-of-contents marker (primitive, tag 0, empty) -/
theorem ber2der_indefinite_members (tag : Bytes) (os : List Obj) (ht : TagOK tag true) (hwf : WFItems os)
    (hne : ∀ o ∈ os, o ≠ .prim [0] []) (hd : 1 + depthItems os ≤ maxBERDepth) (rest : Bytes) :
    ber2der (tag ++ 0x80 :: (encodeItems os ++ 0 :: 0 :: rest)) = .ok (encodeTo (.cons tag os)) := by
  have wfmem : ∀ (l : List Obj), WFItems l → ∀ o ∈ l, WF o := by
    intro l
    induction l with
    | nil => intro _ o ho; simp at ho
    | cons x xs ih =>
      intro hl o ho
      rw [WFItems] at hl
      rcases List.mem_cons.mp ho with rfl | ho
      · exact hl.1
      · exact ih hl.2 o ho
  exact ber2der_indefinite tag os ht hwf
    (fun o ho h => hne o ho (startsEOC_encodeTo o (wfmem os hwf o ho) h)) hd rest

/-- **The repaired case**: an indefinite-length constructed value with NO members, `tag 80 00 00`, is the empty
    constructed value `tag 00` (before the repair: `ber2der: Invalid BER format`). -/
theorem ber2der_empty_indefinite (tag : Bytes) (ht : TagOK tag true) (rest : Bytes) :
    ber2der (tag ++ 0x80 :: 0 :: 0 :: rest) = .ok (tag ++ [0]) := by
  have h := ber2der_indefinite tag [] ht (by simp [WFItems]) (by simp) (by simp [depthItems, maxBERDepth]) rest
  simp only [encodeItems, List.nil_append] at h
  rw [h, encodeTo]
  simp [encodeItems, encodeLength]

/-- … in particular for every one-octet constructed identifier `t` (bit 0x20 set, tag number below 31):
    SEQUENCE `30`, SET `31`, constructed OCTET STRING `24`, `[0]` `a0`, … : `t 80 00 00 ↦ t 00`. -/
theorem ber2der_empty_indefinite_byte (t : Byte) (hc : (t.toNat / 32) % 2 = 1) (hlow : t.toNat % 32 ≠ 0x1F) :
    ber2der [t, 0x80, 0, 0] = .ok [t, 0] := by
  have ht : TagOK [t] true := by
    refine ⟨⟨fun _ => rfl, fun _ => hc⟩, ?_⟩
    rw [if_neg hlow]
  exact ber2der_empty_indefinite [t] ht []

/-- the members of a SEQUENCE that follow an empty indefinite-length member are still read: the empty value
    consumes exactly its four bytes -/
theorem readObject_empty_indefinite (tag : Bytes) (ht : TagOK tag true) (pre rest : Bytes) (fuel d : Nat)
    (hd : d < maxBERDepth) (hf : 2 * ((pre ++ tag ++ 0x80 :: 0 :: 0 :: rest).length - pre.length) + 1 ≤ fuel) :
    readObject fuel (pre ++ tag ++ 0x80 :: 0 :: 0 :: rest) pre.length d
      = .ok (.cons tag [], pre.length + tag.length + 1 + 2) := by
  have h := readObject_indefinite tag [] ht (by simp [WFItems]) (by simp) pre rest fuel d
    (by simp only [depthItems]; omega) (by simpa [encodeItems] using hf)
  simpa [encodeItems] using h

-- non-vacuity ---------------------------------------------------------------------------------------------------

/-- the four shapes of the report -/
example : ber2der [0x24, 0x80, 0x00, 0x00] = .ok [0x24, 0x00]
    ∧ ber2der [0x30, 0x80, 0x00, 0x00] = .ok [0x30, 0x00]
    ∧ ber2der [0x31, 0x80, 0x00, 0x00] = .ok [0x31, 0x00]
    ∧ ber2der [0xa0, 0x80, 0x24, 0x80, 0x00, 0x00, 0x00, 0x00] = .ok [0xa0, 0x02, 0x24, 0x00] := by
  refine ⟨?_, ?_, ?_, ?_⟩ <;> rfl

/-- the hypotheses of `ber2der_empty_indefinite_byte` are satisfiable (0x30) and needed: a primitive identifier
    with the length octet `80` is refused, with or without members -/
example : ((0x30 : Byte).toNat / 32) % 2 = 1 ∧ (0x30 : Byte).toNat % 32 ≠ 0x1F
    ∧ ber2der [0x04, 0x80, 0x00, 0x00] = .error .indefinitePrimitive := by
  refine ⟨by decide, by decide, by rfl⟩

/-- `ber2der_indefinite` with two members, one of them constructed, and with a high-tag-number tag -/
example : ber2der ([0x30] ++ 0x80 :: (encodeItems [.prim [0x02] [0x05], .cons [0x31] []] ++ 0 :: 0 :: []))
    = .ok [0x30, 0x05, 0x02, 0x01, 0x05, 0x31, 0x00]
    ∧ ber2der [0xbf, 0x81, 0x01, 0x80, 0x00, 0x00] = .ok [0xbf, 0x81, 0x01, 0x00] := by
  constructor <;> rfl

/-- the end-of-contents octets are the FIRST thing tested: `30 80 00 00 00 00` is the empty SEQUENCE followed by
    two ignored bytes (before the repair: a SEQUENCE holding the "object" `00 00`); nested empties close level by
    level; members after an empty member are kept -/
example : ber2der [0x30, 0x80, 0x00, 0x00, 0x00, 0x00] = .ok [0x30, 0x00]
    ∧ ber2der [0x30, 0x80, 0x31, 0x80, 0x00, 0x00, 0x00, 0x00] = .ok [0x30, 0x02, 0x31, 0x00]
    ∧ ber2der [0x30, 0x80, 0x24, 0x80, 0x00, 0x00, 0x02, 0x01, 0x05, 0x00, 0x00]
        = .ok [0x30, 0x05, 0x24, 0x00, 0x02, 0x01, 0x05]
    ∧ ber2der [0x30, 0x06, 0x30, 0x80, 0x00, 0x00, 0x05, 0x00] = .ok [0x30, 0x04, 0x30, 0x00, 0x05, 0x00] := by
  refine ⟨?_, ?_, ?_, ?_⟩ <;> rfl

/-- what stays refused: the terminator missing or cut short (`.invalid`, "ber2der: Invalid BER format"), an
    empty indefinite member that runs past its definite-length parent, and an empty indefinite value at the
    depth limit -/
example : ber2der [0x30, 0x80] = .error .invalid
    ∧ ber2der [0x30, 0x80, 0x00] = .error .invalid
    ∧ ber2der [0x30, 0x80, 0x30, 0x80, 0x00, 0x00] = .error .invalid
    ∧ ber2der [0x30, 0x03, 0x30, 0x80, 0x00, 0x00] = .error .beyondParent
    ∧ (readObject 9 [0x30, 0x80, 0x00, 0x00] 0 127).toOption.isSome
    ∧ readObject 9 [0x30, 0x80, 0x00, 0x00] 0 128 = .error .tooDeep := by
  refine ⟨?_, ?_, ?_, ?_, ?_, ?_⟩ <;> rfl

/-- the hypothesis "no member starts with `00 00`" of `ber2der_indefinite` is needed: the member `00 00`
    (primitive, tag 0, empty) IS the end-of-contents marker, so it cannot be a member of an indefinite value -/
example : startsEOC (encodeTo (.prim [0x00] []))
    ∧ ber2der ([0x30] ++ 0x80 :: (encodeItems [.prim [0x00] []] ++ 0 :: 0 :: [])) = .ok [0x30, 0x00] := by
  refine ⟨⟨by rfl, by rfl⟩, by rfl⟩

end Props.C18Empty
