/-
C06 (continued; also C01) — key types in the certificate slots: impossible combinations fail on both sides with an
error, never with a crash, and an SM2 client certificate works in every TLS version.

Theorems about `Model.KeyType.verdict`, the decision model that `hskt` ops compare with real handshakes
(harness/c06keytype.go).  `repaired` is the code as it is, `original` the code before the three repairs:
  1. GMSSL client: a `GetClientCertificate` callback that returns an RSA certificate made the client panic
     (`key.Sign(rand, digest, nil)`); now every key that is not SM2 is refused with an error;
  2. GMSSL server: an RSA key in the signing slot (static {rsa, enc}, or static {sig, enc} plus a `GetCertificate`
     that serves the RSA certificate to a client sending SNI) made the server panic; now an error;
  3. TLS 1.0 / 1.1 client certificate with an SM2 key: signer and verifier disagreed on signature type and digest.
-/
import Gmsm.Model.KeyType
namespace Props.C06KeyType
open Model.KeyType

/-! ### no crash -/

theorem signNilOpts_guarded (k : KeyT) : signNilOpts true k ≠ .crash := by
  cases k <;> decide

theorem gmCore_crash (f : Fixes) (sg en : KeyT) (cc : CCert) (p : Policy) (h : gmCore f sg en cc p = .crash) :
    f.serverGuard = false ∨ f.clientGuard = false := by
  obtain ⟨a, b, c⟩ := f
  cases a <;> cases b <;> simp
  revert h
  cases c <;> cases sg <;> cases en <;> cases p <;> cases cc <;> (try rename_i k; cases k) <;> decide

theorem tlsCore_no_crash (f : Fixes) (k : KeyT) (v : Ver) (cc : CCert) (p : Policy) : tlsCore f k v cc p ≠ .crash := by
  obtain ⟨a, b, c⟩ := f
  cases a <;> cases b <;> cases c <;> cases k <;> cases v <;> cases p <;> cases cc <;> (try rename_i k; cases k) <;> decide

theorem tlsPath_no_crash (f : Fixes) (s : Server) (v : Ver) (sni : Bool) (cc : CCert) (p : Policy) :
    tlsPath f s v sni cc p ≠ .crash := by
  unfold tlsPath
  cases getCertificate s (.tls v sni) with
  | none => simp
  | some k => exact tlsCore_no_crash f k v cc p

/-- a crash of the model is a crash of an unguarded `Sign(rand, digest, nil)`: with both guards in place no
    configuration crashes -/
theorem crash_needs_missing_guard (f : Fixes) (s : Server) (c : Client) (cc : CCert) (p : Policy)
    (h : verdict f s c cc p = .crash) : f.serverGuard = false ∨ f.clientGuard = false := by
  have hgm : gmPath f s c cc p = .crash → f.serverGuard = false ∨ f.clientGuard = false := by
    unfold gmPath
    cases gmSlots s c with
    | none => simp
    | some se => exact gmCore_crash f se.1 se.2 cc p
  unfold verdict at h
  split at h
  · exact hgm h
  · cases h
  · cases h
  · exact absurd h (tlsPath_no_crash _ _ _ _ _ _)
  · exact hgm h
  · exact absurd h (tlsPath_no_crash _ _ _ _ _ _)

/-- T1 `never_crashes` (false before the repairs): for every server mode, every list of static certificates of
    every key type, every `GetCertificate` callback, every kind of client, every way of giving the client a
    certificate of every key type and every ClientAuth policy, the handshake either completes on both ends or fails
    on both ends with an error. -/
theorem never_crashes (s : Server) (c : Client) (cc : CCert) (p : Policy) :
    verdict repaired s c cc p ≠ .crash := by
  intro h
  have := crash_needs_missing_guard repaired s c cc p h
  simp [repaired] at this

theorem gmCore_original_crash (sg en : KeyT) (cc : CCert) (p : Policy) :
    gmCore original sg en cc p = .crash ↔
      (sg = .rsa ∨ (sg = .sm2 ∧ en = .sm2 ∧ p.requests = true ∧ cc = .cb .rsa)) := by
  cases sg <;> cases en <;> cases p <;> cases cc <;> (try rename_i k; cases k) <;> decide

/-- the defects, as they were: the model of the code before the repairs crashes exactly when the GMSSL handshake is
    run and the signing slot holds an RSA key (defect 2), or both slots hold SM2 keys, the server asks for a
    certificate and the client's `GetClientCertificate` returns one with an RSA key (defect 1) -/
theorem original_crashes_iff (s : Server) (c : Client) (cc : CCert) (p : Policy) :
    verdict original s c cc p = .crash ↔
      (s.mode ≠ .tls ∧ c.isGM = true ∧
        ∃ sg en, gmSlots s c = some (sg, en) ∧
          (sg = .rsa ∨ (sg = .sm2 ∧ en = .sm2 ∧ p.requests = true ∧ cc = .cb .rsa))) := by
  have hgm : gmPath original s c cc p = .crash ↔
      ∃ sg en, gmSlots s c = some (sg, en) ∧
          (sg = .rsa ∨ (sg = .sm2 ∧ en = .sm2 ∧ p.requests = true ∧ cc = .cb .rsa)) := by
    unfold gmPath
    cases gmSlots s c with
    | none => simp
    | some se =>
      obtain ⟨sg, en⟩ := se
      simp only [gmCore_original_crash]
      constructor
      · intro h; exact ⟨sg, en, rfl, h⟩
      · rintro ⟨a, b, hab, h⟩; cases hab; exact h
  unfold verdict
  cases hm : s.mode <;> cases c <;> simp [Client.isGM, hgm, tlsPath_no_crash]

/-- non-vacuity of the two crash conditions (the configurations of the reports) -/
example : verdict original ⟨.gm, [.rsa, .sm2], none⟩ (.gm true) .none .noCert = .crash := by decide
example : verdict original ⟨.auto, [.sm2, .sm2], some (.always .rsa)⟩ (.gm true) .none .noCert = .crash := by decide
example : verdict original ⟨.auto, [.sm2, .sm2], some .byVersion⟩ (.gm true) (.cb .rsa) .request = .crash := by decide
example : verdict repaired ⟨.gm, [.rsa, .sm2], none⟩ (.gm true) .none .noCert = .fail := by decide
example : verdict repaired ⟨.auto, [.sm2, .sm2], some (.always .rsa)⟩ (.gm true) .none .noCert = .fail := by decide
example : verdict repaired ⟨.auto, [.sm2, .sm2], some .byVersion⟩ (.gm true) (.cb .rsa) .request = .fail := by decide
/-- without SNI the callback is not consulted and the same server completes -/
example : verdict repaired ⟨.auto, [.sm2, .sm2], some (.always .rsa)⟩ (.gm false) .none .noCert = .ok 0x0101 0 := by decide

/-! ### what completes in GMSSL -/

theorem gmCore_ok (sg en : KeyT) (cc : CCert) (p : Policy) (v n : Nat) (h : gmCore repaired sg en cc p = .ok v n) :
    v = versionGMSSL ∧ sg = .sm2 ∧ en = .sm2 ∧
      (n = 0 ∨ (n = 1 ∧ p.requests = true ∧ (cc = .static .sm2 ∨ cc = .cb .sm2))) := by
  revert h
  cases sg <;> cases en <;> cases p <;> cases cc <;> (try rename_i k; cases k) <;>
    simp [gmCore, repaired, signNilOpts, afterChain, clientChainGM, Policy.requests, Policy.requires] <;>
    (intro h1 h2; subst h1; subst h2; simp)

/-- T1 `gmssl_needs_sm2_keys`: a GMSSL handshake completes only with SM2 keys in both server slots, and the server
    ends up with a client certificate only if that certificate's key is SM2 (a certificate with another key, given
    statically, is not sent; given by the callback, it is refused). -/
theorem gmssl_needs_sm2_keys (s : Server) (sni : Bool) (cc : CCert) (p : Policy) (v n : Nat)
    (h : verdict repaired s (.gm sni) cc p = .ok v n) :
    v = versionGMSSL ∧ s.mode ≠ .tls ∧ gmSlots s (.gm sni) = some (.sm2, .sm2) ∧
      (n = 0 ∨ (n = 1 ∧ p.requests = true ∧ (cc = .static .sm2 ∨ cc = .cb .sm2))) := by
  have hgm : gmPath repaired s (.gm sni) cc p = .ok v n →
      v = versionGMSSL ∧ gmSlots s (.gm sni) = some (.sm2, .sm2) ∧
      (n = 0 ∨ (n = 1 ∧ p.requests = true ∧ (cc = .static .sm2 ∨ cc = .cb .sm2))) := by
    unfold gmPath
    cases gmSlots s (.gm sni) with
    | none => simp
    | some se =>
      obtain ⟨sg, en⟩ := se
      intro h
      obtain ⟨h1, h2, h3, h4⟩ := gmCore_ok sg en cc p v n h
      subst h2; subst h3
      exact ⟨h1, rfl, h4⟩
  unfold verdict at h
  cases hm : s.mode <;> simp only [hm] at h
  · have := hgm h; exact ⟨this.1, by simp, this.2⟩
  · have := hgm h; exact ⟨this.1, by simp, this.2⟩
  · cases h

/-- T1 `gmssl_sm2_completes`: with SM2 keys in both slots a GMSSL client completes whenever the policy is met: no
    certificate asked, or an SM2 certificate (static or from the callback), or not required and none sent (a
    static certificate with another key is not sent). -/
theorem gmssl_sm2_completes (s : Server) (sni : Bool) (cc : CCert) (p : Policy)
    (hm : s.mode ≠ .tls) (hs : gmSlots s (.gm sni) = some (.sm2, .sm2)) :
    (p.requests = false → verdict repaired s (.gm sni) cc p = .ok versionGMSSL 0) ∧
    (p.requests = true → (cc = .static .sm2 ∨ cc = .cb .sm2) → verdict repaired s (.gm sni) cc p = .ok versionGMSSL 1) ∧
    (p.requests = true → p.requires = false → (cc = .none ∨ cc = .cbEmpty ∨ cc = .static .rsa ∨ cc = .static .ec) →
      verdict repaired s (.gm sni) cc p = .ok versionGMSSL 0) := by
  have hd : verdict repaired s (.gm sni) cc p = gmCore repaired .sm2 .sm2 cc p := by
    unfold verdict gmPath
    cases hmm : s.mode <;> simp_all
  rw [hd]
  refine ⟨?_, ?_, ?_⟩
  · cases p <;> cases cc <;> (try rename_i k; cases k) <;> decide
  · intro h hc
    rcases hc with rfl | rfl <;> revert h <;> cases p <;> decide
  · intro h h2 hc
    rcases hc with rfl | rfl | rfl | rfl <;> revert h h2 <;> cases p <;> decide

/-! ### the TLS versions -/

/-- signer and verifier of a CertificateVerify arrive at the same signature type and digest for every key type in
    every TLS version (false before repair 3 for an SM2 key below TLS 1.2) -/
theorem pick_agrees (v : Ver) (k : KeyT) : pick repaired v (signerPub k) = pick repaired v (parsedPub k) := by
  cases v <;> cases k <;> decide

example : pick original .tls10 (signerPub .sm2) = (.sm2, .md5sha1) ∧ pick original .tls10 (parsedPub .sm2) = (.ecdsa, .sha1) := by decide

/-- the server's certificate does not depend on the version of a TLS client -/
theorem getCertificate_tls (s : Server) (sni : Bool) (v w : Ver) :
    getCertificate s (.tls v sni) = getCertificate s (.tls w sni) := by
  unfold getCertificate
  cases s.getCert with
  | none => rfl
  | some cb => cases cb <;> simp [GetCert.serve, Client.sni, Client.isGM]

theorem tlsCore_version (k : KeyT) (cc : CCert) (p : Policy) (v w : Ver) :
    (∀ n, tlsCore repaired k v cc p = .ok v.num n ↔ tlsCore repaired k w cc p = .ok w.num n) ∧
    (tlsCore repaired k v cc p = .fail ↔ tlsCore repaired k w cc p = .fail) ∧
    (∀ u n, tlsCore repaired k v cc p = .ok u n → u = v.num) := by
  cases k <;> cases v <;> cases w <;> cases p <;> cases cc <;> (try rename_i k; cases k) <;>
    simp [tlsCore, afterChain, clientChainTLS, pick_agrees, Policy.requests, Policy.requires, Ver.num] <;> omega

/-- T1 `tls_version_independent` (false before repair 3): for a TLS client the verdict does not depend on the
    client's version: same completion / failure, same number of client certificates, the version reported is the
    client's.  In particular an SM2 client certificate completes in TLS 1.0 and 1.1 wherever it completes in 1.2. -/
theorem tls_version_independent (s : Server) (sni : Bool) (cc : CCert) (p : Policy) (v w : Ver) :
    (∀ n, verdict repaired s (.tls v sni) cc p = .ok v.num n ↔ verdict repaired s (.tls w sni) cc p = .ok w.num n) ∧
    (verdict repaired s (.tls v sni) cc p = .fail ↔ verdict repaired s (.tls w sni) cc p = .fail) := by
  have hd : ∀ u : Ver, verdict repaired s (.tls u sni) cc p =
      if s.mode = .gm then .fail else
        match getCertificate s (.tls .tls12 sni) with
        | none => .fail
        | some k => tlsCore repaired k u cc p := by
    intro u; have hg := getCertificate_tls s sni u .tls12; unfold verdict tlsPath; cases s.mode <;> simp [hg] <;>
      (cases getCertificate s (.tls .tls12 sni) <;> rfl)
  rw [hd v, hd w]
  by_cases hm : s.mode = .gm
  · simp [hm]
  · simp only [hm, if_false]
    cases getCertificate s (.tls .tls12 sni) with
    | none => simp
    | some k => exact ⟨(tlsCore_version k cc p v w).1, (tlsCore_version k cc p v w).2.1⟩

/-- T1 `sm2_client_cert_every_tls_version`: the statement of the defect report: wherever a TLS 1.2 client with an
    SM2 client certificate (static or from the callback) completes, the TLS 1.0 and TLS 1.1 clients complete too,
    and the server sees the certificate. -/
theorem sm2_client_cert_every_tls_version (s : Server) (sni : Bool) (cc : CCert) (p : Policy) (n : Nat)
    (_hcc : cc = .static .sm2 ∨ cc = .cb .sm2)
    (h : verdict repaired s (.tls .tls12 sni) cc p = .ok 0x0303 n) (v : Ver) :
    verdict repaired s (.tls v sni) cc p = .ok v.num n :=
  ((tls_version_independent s sni cc p v .tls12).1 n).2 h

/-- non-vacuity: the TLS-only and the auto-switch server with `RequireAndVerifyClientCert`; the same configurations
    failed below TLS 1.2 before the repair -/
example : verdict repaired ⟨.tls, [.rsa], none⟩ (.tls .tls12 true) (.static .sm2) .requireAndVerify = .ok 0x0303 1 := by decide
example : verdict repaired ⟨.tls, [.rsa], none⟩ (.tls .tls10 true) (.static .sm2) .requireAndVerify = .ok 0x0301 1 := by decide
example : verdict repaired ⟨.auto, [.sm2, .sm2], some .byVersion⟩ (.tls .tls11 true) (.cb .sm2) .requireAndVerify = .ok 0x0302 1 := by decide
example : verdict original ⟨.tls, [.rsa], none⟩ (.tls .tls12 true) (.static .sm2) .requireAndVerify = .ok 0x0303 1 := by decide
example : verdict original ⟨.tls, [.rsa], none⟩ (.tls .tls10 true) (.static .sm2) .requireAndVerify = .fail := by decide
example : verdict original ⟨.auto, [.sm2, .sm2], some .byVersion⟩ (.tls .tls11 true) (.cb .sm2) .requireAndVerify = .fail := by decide

/-! ### the repairs change nothing else -/

theorem gmCore_local (sg en : KeyT) (cc : CCert) (p : Policy)
    (h1 : gmCore original sg en cc p ≠ .crash) (h2 : cc ≠ .cb .ec) :
    gmCore repaired sg en cc p = gmCore original sg en cc p := by
  revert h1 h2
  cases sg <;> cases en <;> cases p <;> cases cc <;> (try rename_i k; cases k) <;> decide

theorem tlsCore_local (k : KeyT) (v : Ver) (cc : CCert) (p : Policy)
    (h : v = .tls12 ∨ (cc ≠ .static .sm2 ∧ cc ≠ .cb .sm2)) :
    tlsCore repaired k v cc p = tlsCore original k v cc p := by
  revert h
  cases k <;> cases v <;> cases p <;> cases cc <;> (try rename_i k; cases k) <;> decide

/-- T1 `repairs_are_local`: the repaired code decides like the original code except in the three situations
    repaired: where the original crashed; where a GMSSL client's callback handed out an ECDSA (non-SM2) certificate
    that the original signed with (now refused, as the static path always did by not sending it); and where a TLS
    1.0 / 1.1 client sends an SM2 certificate. -/
theorem repairs_are_local (s : Server) (c : Client) (cc : CCert) (p : Policy)
    (h1 : verdict original s c cc p ≠ .crash)
    (h2 : ¬ (c.isGM = true ∧ cc = .cb .ec))
    (h3 : ¬ (∃ v sni, c = .tls v sni ∧ v ≠ .tls12 ∧ (cc = .static .sm2 ∨ cc = .cb .sm2))) :
    verdict repaired s c cc p = verdict original s c cc p := by
  cases c with
  | gm sni =>
    have hcc : cc ≠ .cb .ec := by
      intro e; apply h2; simp [Client.isGM, e]
    have hgm : gmPath original s (.gm sni) cc p ≠ .crash →
        gmPath repaired s (.gm sni) cc p = gmPath original s (.gm sni) cc p := by
      unfold gmPath
      cases gmSlots s (.gm sni) with
      | none => simp
      | some se => exact fun h => gmCore_local se.1 se.2 cc p h hcc
    unfold verdict at h1 ⊢
    revert h1
    cases s.mode <;> dsimp only <;> first | exact hgm | (intro _; rfl)
  | tls v sni =>
    have hv : v = .tls12 ∨ (cc ≠ .static .sm2 ∧ cc ≠ .cb .sm2) := by
      by_cases hv : v = .tls12
      · exact Or.inl hv
      · right
        constructor <;> intro e <;> apply h3 <;> exact ⟨v, sni, rfl, hv, by simp [e]⟩
    have htls : tlsPath repaired s v sni cc p = tlsPath original s v sni cc p := by
      unfold tlsPath
      cases getCertificate s (.tls v sni) with
      | none => rfl
      | some k0 => exact tlsCore_local k0 v cc p hv
    unfold verdict
    cases s.mode <;> dsimp only <;> first | exact htls | rfl

end Props.C06KeyType
