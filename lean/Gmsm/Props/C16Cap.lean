/-
C16 — every session ticket a server issues can be offered again (repair of the oversized-ticket defect).

A ticket holds the client's whole certificate chain.  Before the repair nothing bounded it, while the
messages that carry a ticket are limited: `readHandshake` refuses a handshake message whose body exceeds
`maxHandshake` = 65536 bytes, and NewSessionTicket / the session_ticket extension write the ticket length in
16 bits.  For a client chain of about 65.29 - 65.41 KB the server issued a ticket that no ClientHello can
carry (the client was refused from then on), for a slightly longer chain a NewSessionTicket message that the
client itself refuses.  Repaired: `encryptTicket` issues no ticket longer than `maxSessionTicketLen` = 16384
bytes (`Model.TicketCap`); the zero-length ticket it sends instead is not stored by the client.

The theorems connect that rule with the byte-level models of the messages (Model.TLSMessages, tied to the
Go code by the hsmsg / hsmsgm ops) and of the sealed state (Model.SessionState, sstate / sstatem ops).
-/
import Gmsm.Model.TicketCap
import Gmsm.Model.TLSMessages
import Gmsm.Model.SessionState
namespace Props.C16Cap
open Model.TicketCap

-- the issue rule --------------------------------------------------------------------------------------------------

/-- T1 `ticketLen_le_cap`: whatever the client's chain, the ticket in a NewSessionTicket message is at most
    `maxSessionTicketLen` bytes long -/
theorem ticketLen_le_cap (master : Nat) (certs : List Nat) : ticketLen master certs ≤ maxSessionTicketLen := by
  unfold ticketLen issuable
  split
  · rename_i h; exact of_decide_eq_true h
  · exact Nat.zero_le _

/-- a ticket is issued exactly when the sealed state fits under the cap, and then it is the sealed state -/
theorem ticketLen_eq (master : Nat) (certs : List Nat) :
    (sealedLen master certs ≤ maxSessionTicketLen → ticketLen master certs = sealedLen master certs) ∧
    (maxSessionTicketLen < sealedLen master certs → ticketLen master certs = 0) := by
  unfold ticketLen issuable
  constructor
  · intro h; rw [if_pos (decide_eq_true h)]
  · intro h; rw [if_neg]; simp; omega

/-- a session is stored by the client only for a ticket that was issued: never for the zero-length one -/
theorem clientStores_iff (master : Nat) (certs : List Nat) :
    clientStores (ticketLen master certs) = true ↔ sealedLen master certs ≤ maxSessionTicketLen := by
  unfold clientStores ticketLen issuable
  by_cases h : sealedLen master certs ≤ maxSessionTicketLen
  · simp only [h, decide_true, if_true, bne_iff_ne, ne_eq, iff_true]
    unfold sealedLen; omega
  · simp [h]

-- the sealed state ---------------------------------------------------------------------------------------------

theorem marshalCerts_length (cs : List Gmsm.Bytes) :
    (Model.SessionState.marshalCerts cs).length = ((cs.map List.length).map (4 + ·)).sum := by
  induction cs with
  | nil => rfl
  | cons c cs ih =>
    simp only [Model.SessionState.marshalCerts, List.length_append, ih, List.map_cons, List.sum_cons]
    have : (Model.SessionState.put32 c.length).length = 4 := rfl
    omega

/-- `sealedLen` is the length of what `encryptTicket` writes around the byte-level `sessionState.marshal` -/
theorem sealedLen_eq_marshal (s : Model.SessionState.SState) :
    sealedLen s.master.length (s.certs.map List.length) = 16 + 16 + (Model.SessionState.marshal s).length + 32 := by
  have h2 : ∀ n, (Model.SessionState.put16 n).length = 2 := fun _ => rfl
  simp only [sealedLen, stateLen, Model.SessionState.marshal, List.length_append, h2, marshalCerts_length]
  omega

-- the messages that carry a ticket ------------------------------------------------------------------------------

open Model.TLSMessages in
theorem writeU16s_length (xs : List Nat) : (writeU16s xs).length = 2 * xs.length := by
  induction xs with
  | nil => rfl
  | cons x xs ih => simp only [writeU16s, List.length_append, List.length_cons, ih, put16, List.length_nil]; omega

open Model.TLSMessages in
theorem protoEntries_length (l : List Gmsm.Bytes) : (protoEntries l).length = totalLen l + l.length := by
  induction l with
  | nil => rfl
  | cons s ss ih => simp only [protoEntries, totalLen, List.length_append, List.length_cons, ih, put8, List.length_nil]; omega

theorem opt_length (c : Prop) [Decidable c] (x : Gmsm.Bytes) :
    (if c then [x] else ([] : List Gmsm.Bytes)).flatten.length = if c then x.length else 0 := by
  split <;> simp

theorem opt_le (c : Prop) [Decidable c] (n : Nat) : (if c then n else 0) ≤ n := by
  split <;> omega

open Model.TLSMessages in
/-- the extension block `clientHelloMsg.marshal` writes is at most the headers plus the field lengths -/
theorem chExtensions_length_le (m : ClientHelloMsg) :
    (chExtensions m).flatten.length ≤
      4 + (9 + m.serverName.length) + 9 + (6 + 2 * m.supportedCurves.length) + (5 + m.supportedPoints.length) +
      (4 + m.sessionTicket.length) + (6 + 2 * m.supportedSignatureAlgorithms.length) +
      (5 + m.secureRenegotiation.length) + (6 + (totalLen m.alpnProtocols + m.alpnProtocols.length)) + 4 := by
  simp only [chExtensions, List.flatten_append, List.length_append, opt_length, List.length_cons, List.length_nil,
    put16, put8, writeU16s_length, protoEntries_length]
  have h1 := opt_le (m.nextProtoNeg = true) (0 + 1 + 1 + (0 + 1 + 1))
  have h2 := opt_le (m.serverName.length > 0) (0 + 1 + 1 + (0 + 1 + 1 + (0 + 1 + 1 + (0 + 1 + (0 + 1 + 1 + m.serverName.length)))))
  have h3 := opt_le (m.ocspStapling = true) (0 + 1 + 1 + (0 + 1 + 1 + 1 + 1 + 1 + 1 + 1))
  have h4 := opt_le (m.supportedCurves.length > 0) (0 + 1 + 1 + (0 + 1 + 1 + (0 + 1 + 1 + 2 * m.supportedCurves.length)))
  have h5 := opt_le (m.supportedPoints.length > 0) (0 + 1 + 1 + (0 + 1 + 1 + (0 + 1 + m.supportedPoints.length)))
  have h6 := opt_le (m.ticketSupported = true) (0 + 1 + 1 + (0 + 1 + 1 + m.sessionTicket.length))
  have h7 := opt_le (m.supportedSignatureAlgorithms.length > 0)
    (0 + 1 + 1 + (0 + 1 + 1 + (0 + 1 + 1 + 2 * m.supportedSignatureAlgorithms.length)))
  have h8 := opt_le (m.secureRenegotiationSupported = true) (0 + 1 + 1 + (0 + 1 + (0 + 1 + (0 + 1 + m.secureRenegotiation.length))))
  have h9 := opt_le (m.alpnProtocols.length > 0)
    (0 + 1 + 1 + (0 + 1 + 1 + (0 + 1 + 1 + (totalLen m.alpnProtocols + m.alpnProtocols.length))))
  have h10 := opt_le (m.scts = true) (0 + 1 + 1 + (0 + 1 + 1))
  omega

open Model.TLSMessages in
/-- the ClientHello is at most 4 header bytes, the fixed part and the extension block -/
theorem marshalClientHello_length_le (m : ClientHelloMsg) :
    (marshalClientHello m).length ≤
      4 + (2 + 32 + 1 + m.sessionId.length + 2 + 2 * m.cipherSuites.length + 1 + m.compressionMethods.length) +
      (2 + (chExtensions m).flatten.length) := by
  have hr : (random32 m.random).length = 32 := by
    simp only [random32, List.length_take, List.length_append, List.length_replicate]; omega
  simp only [marshalClientHello, List.length_append, List.length_cons, List.length_nil, put24, put16, put8, hr,
    writeU16s_length]
  split
  · simp only [List.length_append, List.length_cons, List.length_nil]; omega
  · simp only [List.length_nil]; omega

open Model.TLSMessages in
/-- a ClientHello as the library's clients (and any reasonable peer) build it, the ticket aside: a session id
    of at most 32 bytes, at most 1024 cipher suites, a host name of at most 255 bytes, at most 16 KiB of
    ALPN names, … -/
structure Ordinary (m : ClientHelloMsg) : Prop where
  sessionId : m.sessionId.length ≤ 32
  suites : m.cipherSuites.length ≤ 1024
  comps : m.compressionMethods.length ≤ 8
  serverName : m.serverName.length ≤ 255
  curves : m.supportedCurves.length ≤ 64
  points : m.supportedPoints.length ≤ 8
  sigAlgs : m.supportedSignatureAlgorithms.length ≤ 64
  reneg : m.secureRenegotiation.length ≤ 36
  alpn : totalLen m.alpnProtocols + m.alpnProtocols.length ≤ 16384

open Model.TLSMessages in
/-- a ClientHello that offers a ticket of at most `maxSessionTicketLen` bytes passes `readHandshake`: its body
    (everything after the 4-byte header) is at most 35509 ≤ `maxHandshake` bytes -/
theorem capped_ticket_fits_clientHello (m : ClientHelloMsg) (ho : Ordinary m)
    (ht : m.sessionTicket.length ≤ maxSessionTicketLen) : (marshalClientHello m).length - 4 ≤ maxHandshake := by
  have h1 := marshalClientHello_length_le m
  have h2 := chExtensions_length_le m
  have := ho.sessionId; have := ho.suites; have := ho.comps; have := ho.serverName; have := ho.curves
  have := ho.points; have := ho.sigAlgs; have := ho.reneg; have := ho.alpn
  simp only [maxSessionTicketLen] at ht
  simp only [maxHandshake]
  omega

open Model.TLSMessages in
/-- T1 `issued_ticket_fits_clientHello` (the repair): whatever certificate chain the client presented
    (`certs`: the lengths of its certificates, any number, any size) and whatever the master-secret length, the
    ticket the server issues can be offered: every ordinary ClientHello that carries a ticket of that length
    is within the handshake-message limit, so the next connection is never refused for its size. -/
theorem issued_ticket_fits_clientHello (master : Nat) (certs : List Nat) (m : ClientHelloMsg) (ho : Ordinary m)
    (ht : m.sessionTicket.length = ticketLen master certs) : (marshalClientHello m).length - 4 ≤ maxHandshake :=
  capped_ticket_fits_clientHello m ho (ht ▸ ticketLen_le_cap master certs)

open Model.TLSMessages in
/-- T1 `issued_ticket_fits_newSessionTicket`: the NewSessionTicket message that carries an issued ticket
    passes the client's `readHandshake` (body 6 + ticket ≤ `maxHandshake`) and its 16-bit length field
    holds the ticket length itself - nothing wraps -/
theorem issued_ticket_fits_newSessionTicket (master : Nat) (certs : List Nat) (t : Gmsm.Bytes)
    (ht : t.length = ticketLen master certs) :
    (marshalNewSessionTicket ⟨t⟩).length - 4 ≤ maxHandshake ∧ t.length < 65536 ∧
    (marshalNewSessionTicket ⟨t⟩).length - 4 = 6 + t.length := by
  have h := ticketLen_le_cap master certs
  rw [← ht] at h
  simp only [maxSessionTicketLen] at h
  simp only [marshalNewSessionTicket, List.length_append, List.length_cons, List.length_nil, put24, put16, maxHandshake]
  omega

open Model.TLSMessages in
/-- every ClientHello that offers a ticket holds the fixed part, the extension-block length, the header of
    the session_ticket extension and the ticket -/
theorem marshalClientHello_length_ge (m : ClientHelloMsg) (h : m.ticketSupported = true) :
    4 + (38 + m.sessionId.length + 2 * m.cipherSuites.length + m.compressionMethods.length) + 2 + 4 +
      m.sessionTicket.length ≤ (marshalClientHello m).length := by
  have hr : (random32 m.random).length = 32 := by
    simp only [random32, List.length_take, List.length_append, List.length_replicate]; omega
  have hmem : (put16 35 ++ (put16 m.sessionTicket.length ++ m.sessionTicket)) ∈ chExtensions m := by
    simp [chExtensions, h]
  have hpos : (chExtensions m).length > 0 := List.length_pos_of_mem hmem
  have hfl : (put16 35 ++ (put16 m.sessionTicket.length ++ m.sessionTicket)).length ≤ (chExtensions m).flatten.length := by
    obtain ⟨a, b, hab⟩ := List.append_of_mem hmem
    rw [hab]; simp only [List.flatten_append, List.flatten_cons, List.length_append]; omega
  simp only [List.length_append, put16, List.length_cons, List.length_nil] at hfl
  simp only [marshalClientHello, List.length_append, List.length_cons, List.length_nil, put24, put16, put8, hr,
    writeU16s_length, if_pos hpos]
  omega

open Model.TLSMessages in
/-- what was wrong: without the cap the ticket for a single client certificate of 65350 bytes (a legitimate
    Certificate message) is 65474 bytes long, and no ClientHello of the library's clients that offers it
    passes `readHandshake`: they send a 16-byte session id with a ticket (`hello.sessionId = make([]byte, 16)`),
    one compression method and at least one suite - even without any other extension the body is 65537 bytes
    or more -/
theorem uncapped_ticket_never_fits (m : ClientHelloMsg) (h : m.ticketSupported = true)
    (hsid : m.sessionId.length = 16) (hsu : 1 ≤ m.cipherSuites.length) (hco : m.compressionMethods.length = 1)
    (ht : m.sessionTicket.length = sealedLen 48 [65350]) : ¬ (marshalClientHello m).length - 4 ≤ maxHandshake := by
  have := marshalClientHello_length_ge m h
  have e : sealedLen 48 [65350] = 65474 := by decide
  rw [ht, e] at this
  simp only [maxHandshake]
  omega

-- Non-vacuity (tests) ------------------------------------------------------------------------------------------------

/-- one client certificate of `n` bytes, 48-byte master secret: the ticket is 124 + n bytes -/
example : sealedLen 48 [2000] = 2124 := by decide
example : threeConnections 48 [2000] = (2124, true, true) := by decide
/-- the largest single certificate that still gets a ticket, and the first that does not -/
example : threeConnections 48 [16260] = (16384, true, true) := by decide
example : threeConnections 48 [16261] = (0, false, false) := by decide
example : threeConnections 48 [65350] = (0, false, false) := by decide
example : threeConnections 48 [65530] = (0, false, false) := by decide
/-- a chain of three certificates -/
example : ticketLen 48 [1200, 1500, 900] = 3732 := by decide
/-- an ordinary ClientHello exists and carries a full-size ticket -/
example : Ordinary ⟨0x0303, [], [], [0xc02f], [0], false, [], false, false, [], [], true, List.replicate 16384 0, [], [], true, []⟩ :=
  ⟨by decide, by decide, by decide, by decide, by decide, by decide, by decide, by decide, by decide⟩

end Props.C16Cap
