/-
C15 / C18 / C08 — the client's key-agreement step (`Model.KeyAgreement`) never panics and never ends with a
pre-master secret that does not depend on the peer's share, whatever certificate key type and whatever
ServerKeyExchange fields the server chose; it goes on only with a share decoded on the very curve it computes on.

Before the repairs two of these statements were false for the code:
  * `ecdheKeyAgreementGM.processServerKeyExchange` stored named_curve unchecked, i.e. it produced
    `⟨id, some .sm2, false⟩` for EVERY id; `generate` maps these to `panic` (all ids but 0 and 29, see
    `unchecked_share_panics`) or to `zeroShare` (29).
  * `rsaKeyAgreement.generateClientKeyExchange` asserted `cert.PublicKey.(*rsa.PublicKey)`: `panic` for the
    `ecNist` / `ecSM2` keys that `tlsCertOk` lets through.
-/
import Gmsm.Model.KeyAgreement
namespace Props.C15KeyAgreement
open Model.KeyAgreement

/-- the lookup table has no entry for the SM2 curve -/
theorem curveForCurveID_ne_sm2 (id : Nat) : curveForCurveID id ≠ some .sm2 := by
  unfold curveForCurveID
  split
  · simp
  · split
    · simp
    · split <;> simp

/-- Why the check is needed: `generate` on a share that was decoded on the SM2 curve under a foreign, unchecked
    named_curve panics — for every identifier except 0 ("missing ServerKeyExchange") and 29 (X25519, next theorem). -/
theorem unchecked_share_panics (id : Nat) (h0 : id ≠ 0) (h29 : id ≠ 29) :
    generate ⟨id, some .sm2, false⟩ = .panic := by
  have hne := curveForCurveID_ne_sm2 id
  unfold generate x25519
  simp only [h0, h29, if_false]
  cases hc : curveForCurveID id with
  | none => rfl
  | some c =>
    have : c ≠ .sm2 := fun h => hne (by rw [hc, h])
    simp [this]

/-- … and with X25519 as the named curve the pre-master secret is 0^32 -/
theorem unchecked_share_x25519 : generate ⟨29, some .sm2, false⟩ = .zeroShare := by decide

/-- The repaired GMSSL check is sound for `generate`: a share that `processGM` lets through is multiplied on the
    curve it was decoded on. (Proved from the check alone, not from the content of the table.) -/
theorem processGM_share_consistent (m : Skx) (s : Share) (h : processGM m = some s) :
    s.point = some .sm2 ∧ curveForCurveID s.curveid = some .sm2 ∧ s.curveid = m.curveid := by
  unfold processGM at h
  split at h
  · simp at h
  · split at h
    · simp at h
    · rename_i c hc
      split at h
      · simp at h
      · rename_i hsm
        split at h
        · injection h with h
          subst h
          have : c = .sm2 := Classical.byContradiction fun hn => hsm hn
          exact ⟨rfl, by rw [hc, this], rfl⟩
        · simp at h

/-- the table-generic definitions are `generate` / `processGM` at the package's table -/
theorem generateWith_table (s : Share) : generateWith curveForCurveID s = generate s := rfl
theorem processGMWith_table (m : Skx) : processGMWith curveForCurveID m = processGM m := rfl

/-- The repaired check is the right one whatever the identifier table contains (as long as it does not call 0 or 29
    the SM2 curve, which `generate` treats specially): what it lets through makes `generate` run the Diffie-Hellman
    on the SM2 curve with a point of the SM2 curve whose signature verified — never a panic, never the zero share.
    Non-vacuous for a table that knows the SM2 curve (examples at the end); for the package's table see
    `processGM_refuses_all`. -/
theorem processGMWith_sound (tbl : Nat → Option Curve) (h0 : tbl 0 ≠ some .sm2) (h29 : tbl x25519 ≠ some .sm2)
    (m : Skx) (s : Share) (h : processGMWith tbl m = some s) :
    generateWith tbl s = .ecdh .sm2 ∧ m.curveType = 3 ∧ tbl m.curveid = some .sm2 ∧ m.onCurve .sm2 = true ∧ m.sigOk = true := by
  unfold processGMWith at h
  split at h
  · simp at h
  · rename_i h3
    split at h
    · simp at h
    · rename_i c hc
      split at h
      · simp at h
      · rename_i hsm
        split at h
        · rename_i hb
          injection h with h
          subst h
          have hc2 : c = .sm2 := Classical.byContradiction fun hn => hsm hn
          subst hc2
          simp only [Bool.and_eq_true] at hb
          have hid0 : m.curveid ≠ 0 := fun hz => h0 (by rw [← hz]; exact hc)
          have hid29 : m.curveid ≠ x25519 := fun hz => h29 (by rw [← hz]; exact hc)
          refine ⟨?_, Classical.byContradiction fun hn => h3 hn, hc, hb.1, hb.2⟩
          unfold generateWith
          simp [hid0, hid29, hc]
        · simp at h

/-- As `curveForCurveID` names no SM2 curve, the repaired GMSSL client refuses EVERY ECDHE ServerKeyExchange: there is
    no value of named_curve for which `ecdheKeyAgreementGM` (whose server side is "not implemented") can serve the
    exchange. This is the true statement about the code, not a wish: the ECDHE-SM2 suites 0xe011 / 0xe051, which the
    client still offers, always end in an error on the client. -/
theorem processGM_refuses_all (m : Skx) : processGM m = none := by
  cases h : processGM m with
  | none => rfl
  | some s =>
    have := (processGM_share_consistent m s h).2.1
    exact absurd this (curveForCurveID_ne_sm2 _)

/-- TLS: what `processTLS` lets through is decoded on the curve that `generate` looks up, or is an X25519 share
    that was stored -/
theorem processTLS_share_consistent (m : Skx) (s : Share) (h : processTLS m = some s) :
    (s.curveid = x25519 ∧ s.publicKey = true ∧ m.len32 = true ∧ m.sigOk = true) ∨
    (s.curveid ≠ x25519 ∧ ∃ c, curveForCurveID s.curveid = some c ∧ s.point = some c ∧ m.onCurve c = true ∧ m.sigOk = true) := by
  unfold processTLS at h
  split at h
  · simp at h
  · split at h
    · rename_i h29
      split at h
      · rename_i hb
        injection h with h
        subst h
        simp only [Bool.and_eq_true] at hb
        exact Or.inl ⟨h29, rfl, hb.1, hb.2⟩
      · simp at h
    · rename_i h29
      split at h
      · simp at h
      · rename_i c hc
        split at h
        · rename_i hb
          injection h with h
          subst h
          simp only [Bool.and_eq_true] at hb
          exact Or.inr ⟨h29, c, hc, rfl, hb.1, hb.2⟩
        · simp at h

/-- `generate` after `processTLS`: a Diffie-Hellman on the named curve with a point of that curve, or X25519 with
    the stored share -/
theorem generate_after_processTLS (m : Skx) (s : Share) (h : processTLS m = some s) :
    generate s = .x25519 ∨ ∃ c, generate s = .ecdh c ∧ curveForCurveID m.curveid = some c ∧ m.onCurve c = true := by
  have hid : s.curveid = m.curveid := by
    unfold processTLS at h
    split at h
    · simp at h
    · split at h
      · split at h
        · injection h with h; subst h; rfl
        · simp at h
      · split at h
        · simp at h
        · split at h
          · injection h with h; subst h; rfl
          · simp at h
  rcases processTLS_share_consistent m s h with ⟨h29, hp, _, _⟩ | ⟨h29, c, hc, hp, hon, _⟩
  · left
    have hx : x25519 ≠ 0 := by decide
    unfold generate
    simp [h29, hp, hx]
  · right
    refine ⟨c, ?_, by rw [← hid]; exact hc, hon⟩
    have h0 : s.curveid ≠ 0 := by
      intro h0
      rw [h0] at hc
      simp [curveForCurveID] at hc
    unfold generate
    simp [h0, h29, hc, hp]

/-- MAIN: for every suite kind, certificate key type and ServerKeyExchange (present or not, any field values) the
    client's key-agreement step returns — it neither panics nor derives the constant pre-master secret. -/
theorem clientKx_never_panics (kx : Kx) (key : KeyType) (skx : Option Skx) :
    clientKx kx key skx ≠ .panic ∧ clientKx kx key skx ≠ .zeroShare := by
  unfold clientKx
  cases kx with
  | rsa =>
    dsimp only
    cases key <;> cases skx <;> simp [tlsCertOk, rsaGenerate]
  | ecdhe =>
    dsimp only
    split
    · simp
    · cases skx with
      | none => simp [generate]
      | some m =>
        dsimp only
        cases hp : processTLS m with
        | none => simp
        | some s =>
          dsimp only
          rcases generate_after_processTLS m s hp with hg | ⟨c, hg, _, _⟩
          · rw [hg]; simp
          · rw [hg]; simp
  | ecdheGM =>
    dsimp only
    split
    · simp
    · cases skx with
      | none => simp
      | some m => simp [processGM_refuses_all m]

/-- The GMSSL ECDHE suites: the client aborts with an error whatever the server sends -/
theorem ecdheGM_always_error (key : KeyType) (skx : Option Skx) : clientKx .ecdheGM key skx = .error := by
  unfold clientKx
  dsimp only
  split
  · rfl
  · cases skx with
    | none => rfl
    | some m => simp [processGM_refuses_all m]

/-- RSA key transport: the client goes on only with an RSA key in the certificate and without a ServerKeyExchange;
    in particular an EC / SM2 certificate under an RSA suite is an error (it was a panic). -/
theorem rsa_goes_on_iff (key : KeyType) (skx : Option Skx) :
    clientKx .rsa key skx = .rsaEncrypt ↔ (key = .rsa ∧ skx = none) := by
  unfold clientKx
  dsimp only
  cases key <;> cases skx <;> simp [tlsCertOk, rsaGenerate]

theorem rsa_wrong_key_is_error (key : KeyType) (skx : Option Skx) (h : key ≠ .rsa) :
    clientKx .rsa key skx = .error := by
  unfold clientKx
  dsimp only
  cases key <;> cases skx <;> simp_all [tlsCertOk, rsaGenerate]

/-- "Never accepts a mismatch": whenever the client sends its ClientKeyExchange, the way the pre-master secret comes
    about is the one of the suite, with the key type / the curve the server's messages really have. -/
theorem clientKx_accepts_only_matching (kx : Kx) (key : KeyType) (skx : Option Skx) :
    (clientKx kx key skx = .rsaEncrypt → kx = .rsa ∧ key = .rsa ∧ skx = none) ∧
    (∀ c, clientKx kx key skx = .ecdh c →
       kx = .ecdhe ∧ ∃ m, skx = some m ∧ m.curveType = 3 ∧ curveForCurveID m.curveid = some c ∧ m.onCurve c = true ∧ m.sigOk = true) ∧
    (clientKx kx key skx = .x25519 →
       kx = .ecdhe ∧ ∃ m, skx = some m ∧ m.curveType = 3 ∧ m.curveid = x25519 ∧ m.len32 = true ∧ m.sigOk = true) := by
  cases kx with
  | ecdheGM =>
    rw [ecdheGM_always_error]
    refine ⟨by simp, fun c => by simp, by simp⟩
  | rsa =>
    refine ⟨fun h => ⟨rfl, (rsa_goes_on_iff key skx).mp h⟩, fun c h => ?_, fun h => ?_⟩
    · exfalso
      unfold clientKx at h
      dsimp only at h
      cases key <;> cases skx <;> simp [tlsCertOk, rsaGenerate] at h
    · exfalso
      unfold clientKx at h
      dsimp only at h
      cases key <;> cases skx <;> simp [tlsCertOk, rsaGenerate] at h
  | ecdhe =>
    have key_fact : ∀ o, clientKx .ecdhe key skx = o → o ≠ .error →
        ∃ m s, skx = some m ∧ processTLS m = some s ∧ generate s = o := by
      intro o h hne
      unfold clientKx at h
      dsimp only at h
      split at h
      · exact absurd h.symm hne
      · cases skx with
        | none => simp [generate] at h; exact absurd h.symm hne
        | some m =>
          dsimp only at h
          cases hp : processTLS m with
          | none => rw [hp] at h; exact absurd h.symm hne
          | some s => rw [hp] at h; exact ⟨m, s, rfl, hp, h⟩
    have ct3 : ∀ m s, processTLS m = some s → m.curveType = 3 := by
      intro m s h
      unfold processTLS at h
      split at h
      · simp at h
      · rename_i h3
        exact Classical.byContradiction fun hn => h3 hn
    refine ⟨fun h => ?_, fun c h => ?_, fun h => ?_⟩
    · obtain ⟨m, s, _, hp, hg⟩ := key_fact _ h (by simp)
      rcases generate_after_processTLS m s hp with hx | ⟨c, hc, _, _⟩
      · rw [hx] at hg; simp at hg
      · rw [hc] at hg; simp at hg
    · obtain ⟨m, s, hm, hp, hg⟩ := key_fact _ h (by simp)
      refine ⟨rfl, m, hm, ct3 m s hp, ?_⟩
      rcases generate_after_processTLS m s hp with hx | ⟨d, hd, hcd, hon⟩
      · rw [hx] at hg; simp at hg
      · rw [hd] at hg
        injection hg with hg
        subst hg
        rcases processTLS_share_consistent m s hp with ⟨h29, _, _, _⟩ | ⟨_, _, _, _, _, hs⟩
        · exfalso
          have : generate s = .x25519 ∨ generate s = .zeroShare := by
            have hx : x25519 ≠ 0 := by decide
            unfold generate
            simp only [h29, hx, if_false, if_true]
            split <;> simp
          rcases this with h1 | h1 <;> rw [h1] at hd <;> simp at hd
        · exact ⟨hcd, hon, hs⟩
    · obtain ⟨m, s, hm, hp, hg⟩ := key_fact _ h (by simp)
      refine ⟨rfl, m, hm, ct3 m s hp, ?_⟩
      rcases processTLS_share_consistent m s hp with ⟨h29, _, hl, hs⟩ | ⟨h29, c, hc, hpt, _, _⟩
      · have hid : s.curveid = m.curveid := by
          unfold processTLS at hp
          split at hp
          · simp at hp
          · split at hp
            · split at hp
              · injection hp with hp; subst hp; rfl
              · simp at hp
            · split at hp
              · simp at hp
              · split at hp
                · injection hp with hp; subst hp; rfl
                · simp at hp
        exact ⟨by rw [← hid]; exact h29, hl, hs⟩
      · exfalso
        have h0 : s.curveid ≠ 0 := by
          intro h0
          rw [h0] at hc
          simp [curveForCurveID] at hc
        unfold generate at hg
        simp [h0, h29, hc, hpt] at hg

/-! Non-vacuity: the step does go on for matching inputs, and the inputs of the defect reports are errors. -/

/-- a ServerKeyExchange naming `id`, whose point is on `c` (and is not a 32-byte string), correctly signed -/
def skxOn (id : Nat) (c : Curve) : Skx := ⟨3, id, fun d => d == c, false, true⟩

example : clientKx .rsa .rsa none = .rsaEncrypt := by decide
example : clientKx .ecdhe .ecNist (some (skxOn 23 .p256)) = .ecdh .p256 := by decide
example : clientKx .ecdhe .rsa (some ⟨3, 29, fun _ => false, true, true⟩) = .x25519 := by decide
-- the reports' inputs: SM2 point under named_curve 23 / 24 / 25 / 29 / 0x1234 / 0, GM ECDHE suite
example : clientKx .ecdheGM .ecSM2 (some (skxOn 23 .sm2)) = .error := by decide
example : clientKx .ecdheGM .ecSM2 (some (skxOn 29 .sm2)) = .error := by decide
example : clientKx .ecdheGM .ecSM2 (some (skxOn 0x1234 .sm2)) = .error := by decide
example : clientKx .ecdheGM .ecSM2 (some (skxOn 0 .sm2)) = .error := by decide
-- TLS_RSA_* with an EC / SM2 certificate
example : clientKx .rsa .ecNist none = .error := by decide
example : clientKx .rsa .ecSM2 none = .error := by decide
-- a P-256 point under named_curve 24: TLS refuses at `elliptic.Unmarshal`
example : clientKx .ecdhe .ecNist (some (skxOn 24 .p256)) = .error := by decide
-- a table that knows the SM2 curve (RFC 8998 curveSM2 = 41): the check lets exactly that identifier through
def tbl41 (id : Nat) : Option Curve := if id = 41 then some .sm2 else curveForCurveID id
example : processGMWith tbl41 (skxOn 41 .sm2) = some ⟨41, some .sm2, false⟩ := by decide
example : generateWith tbl41 ⟨41, some .sm2, false⟩ = .ecdh .sm2 := by decide
example : processGMWith tbl41 (skxOn 23 .sm2) = none := by decide
example : processGMWith tbl41 (skxOn 29 .sm2) = none := by decide
example : processGMWith tbl41 (skxOn 41 .p256) = none := by decide
-- what the unrepaired GM step handed to `generate`
example : generate ⟨23, some .sm2, false⟩ = .panic := by decide
example : generate ⟨0x1234, some .sm2, false⟩ = .panic := by decide

end Props.C15KeyAgreement
