/-
C18 — decoders never recurse or loop without bound: time and memory stay within a small multiple of
the input size.  Theorems about the BER → DER transcoder model `Model.BER` (x509/ber.go: `readObject`
and its item loop), whose `fuel` argument stands for the Go call stack:

* `readObject_progress` / `readItems_progress`: every successfully read object consumes at least two
  input bytes and never ends beyond the input; the item loop never moves backwards.
* `fuel_sufficient` / `fuel_sufficient_items`: fuel linear in the remaining input is always enough,
  i.e. the recursion depth plus sibling count the decoder can be driven to is at most
  `2 * (remaining bytes) + 1`.
* `ber2der_total`: the model never runs out of fuel on any input.
* `readObject_fuel_mono`, `fuel_irrelevant`: once there is enough fuel the result does not depend on
  the fuel, i.e. it is a function of the input only.
-/
import Gmsm.Model.BER
namespace Props.C18
open Gmsm Model.BER

/-- a successful bounds-checked read is inside the slice -/
theorem getElem?_some_lt {ber : Bytes} {off : Nat} {b : Byte} (h : ber[off]? = some b) : off < ber.length := by
  have := List.getElem?_eq_some_iff.mp h
  exact this.1

/-- `readTag` (the loop over the continuation octets of a high tag number): a successful read consumes
    at least one byte and stops inside the input -/
theorem readTag_bounds : ∀ (fuel : Nat) (ber : Bytes) (off e : Nat),
    readTag fuel ber off = .ok e → off + 1 ≤ e ∧ e ≤ ber.length := by
  intro fuel
  induction fuel with
  | zero => intro ber off e h; simp [readTag] at h
  | succ f ih =>
    intro ber off e h
    rw [readTag] at h
    split at h
    · simp at h
    · rename_i b hb
      have hlt := getElem?_some_lt hb
      split at h
      · have := ih ber (off + 1) e h
        omega
      · injection h with h
        omega

/-- the tag loop runs at most once per remaining input byte: with fuel `remaining + 1` it never gives up -/
theorem readTag_fuel : ∀ (fuel : Nat) (ber : Bytes) (off : Nat),
    ber.length - off + 1 ≤ fuel → readTag fuel ber off ≠ .error .fuel := by
  intro fuel
  induction fuel with
  | zero => intro ber off h; omega
  | succ f ih =>
    intro ber off h
    rw [readTag]
    split
    · simp
    · rename_i b hb
      have hlt := getElem?_some_lt hb
      split
      · apply ih; omega
      · simp

/-- the length octets never move the offset backwards -/
theorem readLength_bounds {ber : Bytes} {off : Nat} {l : Byte} {len off2 : Nat} {ind : Bool}
    (h : readLength ber off l = .ok (len, off2, ind)) : off ≤ off2 := by
  unfold readLength at h
  dsimp only at h
  split at h
  · split at h
    · simp at h
    · split at h
      · simp at h
      · split at h
        · simp at h
        · split at h
          · simp at h
          · injection h with h; injection h with _ h; injection h with h _; omega
  · split at h
    · injection h with h; injection h with _ h; injection h with h _; omega
    · injection h with h; injection h with _ h; injection h with h _; omega

/-- `readLength` is not recursive -/
theorem readLength_fuel (ber : Bytes) (off : Nat) (l : Byte) : readLength ber off l ≠ .error .fuel := by
  unfold readLength
  dsimp only
  repeat' split
  all_goals simp
/-- continuation of readObject after the header -/
def finish (tag : Bytes) (ce : Nat) (ind : Bool) : Except Err (List Obj × Nat) → Except Err (Obj × Nat)
  | .error e => .error e
  | .ok (items, off') => .ok (.cons tag items, if ind then off' + 2 else ce)

/-- Inversion of one `readObject` call: either the result is decided by the header alone (an error that
    is not `fuel`, or a primitive object; the same for every amount of fuel), or the header is that of a
    constructed object whose content starts at `o2 ≥ offset + 2`, with `o2 ≤ contentEnd ≤ len(ber)`, and the
    result is that of the item loop started at `o2`. -/
theorem readObject_succ_cases (ber : Bytes) (off d : Nat) :
    (∃ r, r ≠ .error .fuel ∧
        (∀ o e, r = .ok (o, e) → off + 2 ≤ e ∧ e ≤ ber.length ∧ ∃ tag c, o = .prim tag c) ∧
        ∀ f', readObject (f' + 1) ber off d = r) ∨
    (∃ tag o2 ce ind, off + 2 ≤ o2 ∧ o2 ≤ ce ∧ ce ≤ ber.length ∧ d < maxBERDepth ∧
        ∀ f', readObject (f' + 1) ber off d = finish tag ce ind (readItems f' ber o2 ce ind (d + 1))) := by
  cases hb : ber[off]? with
  | none => left; refine ⟨.error .truncated, by simp, by simp, ?_⟩; intro f'; rw [readObject]; simp [hb]
  | some b => 
    have hoff := getElem?_some_lt hb
    cases ht : (if b.toNat % 32 = 0x1F then readTag (ber.length + 1) ber (off + 1) else .ok (off + 1)) with
    | error e =>
      left; refine ⟨.error e, ?_, by simp, ?_⟩
      · split at ht
        · intro he; injection he with he; subst he
          exact readTag_fuel _ _ _ (by omega) ht
        · simp at ht
      · intro f'; rw [readObject]; simp only [hb, ht]
    | ok tagEnd =>
      have hte : off + 1 ≤ tagEnd ∧ tagEnd ≤ ber.length := by
        split at ht
        · have := readTag_bounds _ _ _ _ ht; omega
        · injection ht with ht; omega
      cases hl : ber[tagEnd]? with
      | none => left; refine ⟨.error .truncated, by simp, by simp, ?_⟩; intro f'; rw [readObject]; simp only [hb, ht, hl]
      | some l =>
        have hte2 := getElem?_some_lt hl
        cases hlen : readLength ber (tagEnd + 1) l with
        | error e =>
          left; refine ⟨.error e, ?_, by simp, ?_⟩
          · intro he; injection he with he; subst he
            exact readLength_fuel _ _ _ hlen
          · intro f'; rw [readObject]; simp only [hb, ht, hl, hlen]
        | ok r =>
          obtain ⟨length, o2, ind⟩ := r
          have ho2 := readLength_bounds hlen
          by_cases hce : o2 + length > ber.length
          · left; refine ⟨.error .beyondData, by simp, by simp, ?_⟩
            intro f'; rw [readObject]; simp only [hb, ht, hl, hlen, hce, if_true]
          · have hce2 : o2 + length ≤ ber.length := by omega
            by_cases hc : (b.toNat / 32) % 2 = 1
            · by_cases hd : d ≥ maxBERDepth
              · left; refine ⟨.error .tooDeep, by simp, by simp, ?_⟩
                intro f'; rw [readObject]
                simp only [hb, ht, hl, hlen, hce, hc, hd, if_true, if_false, not_true, and_false]
              · right
                refine ⟨(ber.drop off).take (tagEnd - off), o2, o2 + length, ind, by omega, by omega, hce2,
                  by omega, ?_⟩
                intro f'; rw [readObject]
                simp only [hb, ht, hl, hlen, hce, hc, hd, if_false, not_true, and_false]
                cases readItems f' ber o2 (o2 + length) ind (d + 1) <;> rfl
            · cases ind with
              | true =>
                left; refine ⟨.error .indefinitePrimitive, by simp, by simp, ?_⟩
                intro f'; rw [readObject]; simp only [hb, ht, hl, hlen, hce, hc, if_true, if_false, not_false_eq_true, and_self]
              | false =>
                left; refine ⟨.ok (.prim ((ber.drop off).take (tagEnd - off)) ((ber.drop o2).take length), o2 + length), by simp, ?_, ?_⟩
                · intro o e h; injection h with h; injection h with h1 h
                  exact ⟨by omega, by omega, _, _, h1.symm⟩
                · intro f'; rw [readObject]; simp only [hb, ht, hl, hlen, hce, hc, if_true, if_false, not_false_eq_true, and_true, Bool.false_eq_true]

/-- progress of `readObject` and of the item loop, proved together by induction on the fuel -/
theorem progress_all (ber : Bytes) : ∀ f : Nat,
    (∀ off d o e, readObject f ber off d = .ok (o, e) → off + 2 ≤ e ∧ e ≤ ber.length) ∧
    (∀ off ce ind d os e, readItems f ber off ce ind d = .ok (os, e) →
        off ≤ e ∧ (ind = true → off + 2 ≤ e ∧ e + 2 ≤ ber.length) ∧
        (ind = false → off ≤ ber.length → e ≤ ber.length)) := by
  intro f
  induction f with
  | zero =>
    constructor
    · intro off d o e h; simp [readObject] at h
    · intro off ce ind d os e h; simp [readItems] at h
  | succ f ih =>
    obtain ⟨ihO, ihI⟩ := ih
    constructor
    · intro off d o e h
      rcases readObject_succ_cases ber off d with ⟨r, _, hr, hall⟩ | ⟨tag, o2, ce, ind, h1, h2, h3, _, hall⟩
      · rw [hall f] at h; have := hr o e h; exact ⟨this.1, this.2.1⟩
      · rw [hall f] at h
        cases hi : readItems f ber o2 ce ind (d + 1) with
        | error e => rw [hi] at h; simp [finish] at h
        | ok r =>
          obtain ⟨items, e1⟩ := r
          rw [hi] at h
          simp only [finish] at h
          injection h with h; injection h with _ h
          have := ihI _ _ _ _ _ _ hi
          cases ind with
          | true => simp at h; have := this.2.1 rfl; omega
          | false => simp at h; omega
    · intro off ce ind d os e h
      rw [readItems] at h
      split at h
      next hn =>
        injection h with h; injection h with _ h; subst h
        refine ⟨Nat.le_refl _, ?_, fun _ h => h⟩
        intro hind; exact absurd (Or.inr hind) hn
      next hn =>
        cases ho : readObject f ber off d with
        | error e => rw [ho] at h; simp at h
        | ok r =>
          obtain ⟨o, e1⟩ := r
          rw [ho] at h
          have hO := ihO _ _ _ _ ho
          dsimp only at h
          cases ind with
          | true =>
            simp only [if_true] at h
            split at h
            · simp at h
            · split at h
              · injection h with h; injection h with _ h; subst h
                refine ⟨by omega, fun _ => by omega, fun h => by simp at h⟩
              · cases hi : readItems f ber e1 ce true d with
                | error e => rw [hi] at h; simp at h
                | ok r =>
                  obtain ⟨os1, e2⟩ := r
                  rw [hi] at h
                  injection h with h; injection h with _ h; subst h
                  have hI := (ihI _ _ _ _ _ _ hi).2.1 rfl
                  refine ⟨by omega, fun _ => by omega, fun h => by simp at h⟩
          | false =>
            simp only [Bool.false_eq_true, if_false] at h
            cases hi : readItems f ber e1 ce false d with
            | error e => rw [hi] at h; simp at h
            | ok r =>
              obtain ⟨os1, e2⟩ := r
              rw [hi] at h
              injection h with h; injection h with _ h; subst h
              have hI := ihI _ _ _ _ _ _ hi
              refine ⟨by omega, fun h => by simp at h, fun _ _ => hI.2.2 rfl (by omega)⟩

/-- `finish` only passes errors through -/
theorem finish_error {tag : Bytes} {ce : Nat} {ind : Bool} {x : Except Err (List Obj × Nat)} {e : Err}
    (h : finish tag ce ind x = .error e) : x = .error e := by
  cases x with
  | error e1 => simpa [finish] using h
  | ok r => simp [finish] at h

/-- linear fuel is enough for `readObject` and for the item loop, together by induction on the fuel -/
theorem fuel_all (ber : Bytes) : ∀ f : Nat,
    (∀ off d, 2 * (ber.length - off) + 1 ≤ f → readObject f ber off d ≠ .error .fuel) ∧
    (∀ off ce ind d, 2 * (ber.length - off) + 2 ≤ f → readItems f ber off ce ind d ≠ .error .fuel) := by
  intro f
  induction f with
  | zero => exact ⟨fun off d h => by omega, fun off ce ind d h => by omega⟩
  | succ f ih =>
    obtain ⟨ihO, ihI⟩ := ih
    constructor
    · intro off d hf
      rcases readObject_succ_cases ber off d with ⟨r, hr, _, hall⟩ | ⟨tag, o2, ce, ind, h1, h2, h3, _, hall⟩
      · rw [hall f]; exact hr
      · rw [hall f]
        intro h
        exact ihI o2 ce ind (d + 1) (by omega) (finish_error h)
    · intro off ce ind d hf
      rw [readItems]
      split
      · simp
      · have hO := ihO off d (by omega)
        cases ho : readObject f ber off d with
        | error e => intro h; injection h with h; subst h; exact hO ho
        | ok r =>
          obtain ⟨o, e1⟩ := r
          have hp := (progress_all ber f).1 _ _ _ _ ho
          have hI := ihI e1 ce ind d (by omega)
          dsimp only
          cases hi : readItems f ber e1 ce ind d with
          | error e =>
            have : e ≠ .fuel := by intro h; subst h; exact hI hi
            cases ind <;> simp only [Bool.false_eq_true, if_true, if_false] <;> repeat' split
            all_goals simp [this]
          | ok r =>
            cases ind <;> simp only [Bool.false_eq_true, if_true, if_false] <;> repeat' split
            all_goals simp

/-- one iteration of the `readItems` loop with the two recursive calls abstracted -/
def itemsK (O : Nat → Except Err (Obj × Nat)) (I : Nat → Except Err (List Obj × Nat))
    (ber : Bytes) (offset contentEnd : Nat) (indefinite : Bool) : Except Err (List Obj × Nat) :=
  if ¬ (offset < contentEnd ∨ indefinite) then .ok ([], offset)
  else
    match O offset with
    | .error e => .error e
    | .ok (o, off') =>
      if indefinite then
        if ber.length - off' < 2 then .error .invalid
        else if ber.getD off' 1 = 0 ∧ ber.getD (off' + 1) 1 = 0 then .ok ([o], off')
        else
          match I off' with
          | .error e => .error e
          | .ok (os, off'') => .ok (o :: os, off'')
      else
        match I off' with
        | .error e => .error e
        | .ok (os, off'') => .ok (o :: os, off'')

/-- one unfolding of `readItems` -/
theorem readItems_succ (f : Nat) (ber : Bytes) (off ce : Nat) (ind : Bool) (d : Nat) :
    readItems (f + 1) ber off ce ind d
      = itemsK (fun o => readObject f ber o d) (fun o => readItems f ber o ce ind d) ber off ce ind := by
  rw [readItems]; rfl

/-- if the recursive calls may only change where they ran out of fuel, the iteration result does not change
    unless it is itself `fuel` -/
theorem itemsK_mono {O O2 : Nat → Except Err (Obj × Nat)} {I I2 : Nat → Except Err (List Obj × Nat)}
    {ber : Bytes} {off ce : Nat} {ind : Bool}
    (hO : ∀ x, O x ≠ .error .fuel → O2 x = O x) (hI : ∀ x, I x ≠ .error .fuel → I2 x = I x)
    (h : itemsK O I ber off ce ind ≠ .error .fuel) :
    itemsK O2 I2 ber off ce ind = itemsK O I ber off ce ind := by
  unfold itemsK at *
  split
  · rfl
  · rename_i hn
    rw [if_neg hn] at h
    cases ho : O off with
    | error e =>
      rw [ho] at h
      have he : e ≠ Err.fuel := fun hh => h (by rw [hh])
      rw [hO off (by rw [ho]; intro x; injection x with x; exact he x), ho]
    | ok r =>
      obtain ⟨o, e1⟩ := r
      rw [ho] at h
      rw [hO off (by rw [ho]; simp), ho]
      dsimp only at h ⊢
      cases ind with
      | true =>
        simp only [if_true] at h ⊢
        split
        · rfl
        · rename_i h1
          rw [if_neg h1] at h
          split
          · rfl
          · rename_i h2
            rw [if_neg h2] at h
            cases hi : I e1 with
            | error e =>
              rw [hi] at h
              have he : e ≠ Err.fuel := fun hh => h (by rw [hh])
              rw [hI e1 (by rw [hi]; intro x; injection x with x; exact he x), hi]
            | ok r => rw [hI e1 (by rw [hi]; simp), hi]
      | false =>
        simp only [Bool.false_eq_true, if_false] at h ⊢
        cases hi : I e1 with
        | error e =>
              rw [hi] at h
              have he : e ≠ Err.fuel := fun hh => h (by rw [hh])
              rw [hI e1 (by rw [hi]; intro x; injection x with x; exact he x), hi]
        | ok r => rw [hI e1 (by rw [hi]; simp), hi]

/-- one more unit of fuel does not change a result other than `fuel` -/
theorem mono_all (ber : Bytes) : ∀ f : Nat,
    (∀ off d, readObject f ber off d ≠ .error .fuel → readObject (f + 1) ber off d = readObject f ber off d) ∧
    (∀ off ce ind d, readItems f ber off ce ind d ≠ .error .fuel →
        readItems (f + 1) ber off ce ind d = readItems f ber off ce ind d) := by
  intro f
  induction f with
  | zero =>
    constructor
    · intro off d h; exact absurd (by rw [readObject]) h
    · intro off ce ind d h; exact absurd (by rw [readItems]) h
  | succ f ih =>
    obtain ⟨ihO, ihI⟩ := ih
    constructor
    · intro off d h
      rcases readObject_succ_cases ber off d with ⟨r, hr, _, hall⟩ | ⟨tag, o2, ce, ind, h1, h2, h3, _, hall⟩
      · rw [hall f, hall (f + 1)]
      · rw [hall f] at h
        rw [hall f, hall (f + 1)]
        rw [ihI o2 ce ind (d + 1) (fun hh => h (by rw [hh]; rfl))]
    · intro off ce ind d h
      rw [readItems_succ] at h
      rw [readItems_succ (f + 1), readItems_succ f]
      exact itemsK_mono (fun x hx => ihO x d hx) (fun x hx => ihI x ce ind d hx) h

-- the C18 statements -------------------------------------------------------------------------------------------

/-- Every object `readObject` returns consumed at least a tag byte and a length byte (`off + 2 ≤ off'`) and
    never claims bytes beyond the input (`off' ≤ len(ber)`); for the indefinite form the two terminator
    octets counted by `off' = end of items + 2` are inside the input too.  So each level of recursion of the Go
    `readObject` strictly shrinks the remaining input. -/
theorem readObject_progress {fuel : Nat} {ber : Bytes} {off : Nat} {o : Obj} {off2 : Nat}
    (h : readObject fuel ber off = .ok (o, off2)) : off + 2 ≤ off2 ∧ off2 ≤ ber.length :=
  (progress_all ber fuel).1 off o off2 h

/-- The item loop `for (offset < contentEnd) || indefinite` never moves backwards.  In the indefinite case it
    reads at least one child and stops at a position where the two end-of-contents octets are available
    (`off2 + 2 ≤ len(ber)`).  In the definite case each child is only known to end inside the input, not
    inside `contentEnd` (as in the Go code), so the loop ends at most at `len(ber)` when started inside it. -/
theorem readItems_progress {fuel : Nat} {ber : Bytes} {off ce : Nat} {ind : Bool} {os : List Obj} {off2 : Nat}
    (h : readItems fuel ber off ce ind = .ok (os, off2)) :
    off ≤ off2 ∧ (ind = true → off + 2 ≤ off2 ∧ off2 + 2 ≤ ber.length) ∧
      (ind = false → off ≤ ber.length → off2 ≤ ber.length) :=
  (progress_all ber fuel).2 off ce ind os off2 h

/-- Main result: the recursion of `readObject` is bounded by the input.  With fuel `2 * remaining + 1`
    (`remaining = len(ber) - off`) the model never reports `fuel`: the nesting depth plus the number of
    siblings that any input, however hostile, can drive the Go decoder to is at most linear in the number of
    bytes that are left. -/
theorem fuel_sufficient (ber : Bytes) (off fuel : Nat) (h : 2 * (ber.length - off) + 1 ≤ fuel) :
    readObject fuel ber off ≠ .error .fuel :=
  (fuel_all ber fuel).1 off h

/-- companion of `fuel_sufficient` for the item loop -/
theorem fuel_sufficient_items (ber : Bytes) (off ce : Nat) (ind : Bool) (fuel : Nat)
    (h : 2 * (ber.length - off) + 2 ≤ fuel) : readItems fuel ber off ce ind ≠ .error .fuel :=
  (fuel_all ber fuel).2 off ce ind h

/-- `ber2der` never runs out of stack in the model: every input is either transcoded or rejected with one of
    the Go error cases, after a number of calls bounded by `2 * len(ber) + 2`. -/
theorem ber2der_total (ber : Bytes) : ber2der ber ≠ .error .fuel := by
  unfold ber2der
  split
  · simp
  · have h := fuel_sufficient ber 0 (2 * ber.length + 2) (by omega)
    cases hr : readObject (2 * ber.length + 2) ber 0 with
    | error e =>
      intro hh
      injection hh with hh
      subst hh
      exact h hr
    | ok r => simp

/-- a result other than `fuel` is stable under more fuel (`readObject`) -/
theorem readObject_fuel_mono {f : Nat} {ber : Bytes} {off : Nat} {r : Except Err (Obj × Nat)}
    (h : readObject f ber off = r) (hr : r ≠ .error .fuel) : readObject (f + 1) ber off = r := by
  subst h; exact (mono_all ber f).1 off hr

/-- a result other than `fuel` is stable under more fuel (item loop) -/
theorem readItems_fuel_mono {f : Nat} {ber : Bytes} {off ce : Nat} {ind : Bool} {r : Except Err (List Obj × Nat)}
    (h : readItems f ber off ce ind = r) (hr : r ≠ .error .fuel) : readItems (f + 1) ber off ce ind = r := by
  subst h; exact (mono_all ber f).2 off ce ind hr

/-- a result other than `fuel` is stable under more fuel (tag loop) -/
theorem readTag_fuel_mono : ∀ (f : Nat) (ber : Bytes) (off : Nat),
    readTag f ber off ≠ .error .fuel → readTag (f + 1) ber off = readTag f ber off := by
  intro f
  induction f with
  | zero => intro ber off h; exact absurd (by rw [readTag]) h
  | succ f ih =>
    intro ber off h
    simp only [readTag] at h ⊢
    cases hb : ber[off]? with
    | none => rfl
    | some b =>
      rw [hb] at h
      dsimp only at h ⊢
      by_cases hge : b.toNat ≥ 0x80
      · rw [if_pos hge] at h
        rw [if_pos hge, if_pos hge]
        have := ih ber (off + 1) h
        simp only [readTag] at this
        exact this
      · rw [if_neg hge, if_neg hge]

/-- a result other than `fuel` is stable under any amount of additional fuel -/
theorem readObject_fuel_add (ber : Bytes) (off f : Nat) (h : readObject f ber off ≠ .error .fuel) :
    ∀ k, readObject (f + k) ber off = readObject f ber off := by
  intro k
  induction k with
  | zero => rfl
  | succ k ih =>
    rw [← ih]
    exact readObject_fuel_mono rfl (by rw [ih]; exact h)

/-- With enough fuel the result does not depend on the fuel: `readObject` is a function of the input and the
    offset only, and `2 * remaining + 1` nested/sequential calls always suffice to compute it. -/
theorem fuel_irrelevant (ber : Bytes) (off f1 f2 : Nat)
    (h1 : 2 * (ber.length - off) + 1 ≤ f1) (h2 : 2 * (ber.length - off) + 1 ≤ f2) :
    readObject f1 ber off = readObject f2 ber off := by
  have hb := fuel_sufficient ber off (2 * (ber.length - off) + 1) (Nat.le_refl _)
  have e1 := readObject_fuel_add ber off _ hb (f1 - (2 * (ber.length - off) + 1))
  have e2 := readObject_fuel_add ber off _ hb (f2 - (2 * (ber.length - off) + 1))
  have a1 : 2 * (ber.length - off) + 1 + (f1 - (2 * (ber.length - off) + 1)) = f1 := by omega
  have a2 : 2 * (ber.length - off) + 1 + (f2 - (2 * (ber.length - off) + 1)) = f2 := by omega
  rw [a1] at e1
  rw [a2] at e2
  rw [e1, e2]

/-- `ber2der` computes the same result with any larger stack budget: its verdict is determined by the input -/
theorem ber2der_fuel_irrelevant (ber : Bytes) (f : Nat) (h : 2 * ber.length + 1 ≤ f) :
    ber2der ber = if ber.isEmpty then .error .invalid
      else match readObject f ber 0 with
        | .error e => .error e
        | .ok (o, _) => .ok (encodeTo o) := by
  unfold ber2der
  rw [fuel_irrelevant ber 0 (2 * ber.length + 2) f (by omega) (by omega)]
  split
  · rfl
  · cases readObject f ber 0 <;> rfl

-- non-vacuity ---------------------------------------------------------------------------------------------------

/-- a nested indefinite-length input is transcoded to definite lengths -/
example : ber2der [0x30, 0x80, 0x30, 0x80, 0x02, 0x01, 0x05, 0x00, 0x00, 0x00, 0x00]
    = .ok [0x30, 0x05, 0x30, 0x03, 0x02, 0x01, 0x05] := by rfl

/-- the `fuel` error is real: with less fuel than the nesting needs the model does give up, so
    `fuel_sufficient` is not vacuous -/
example : (readObject 4 [0x30, 0x80, 0x30, 0x80, 0x02, 0x01, 0x05, 0x00, 0x00, 0x00, 0x00] 0).toOption.isNone
    ∧ (readObject 5 [0x30, 0x80, 0x30, 0x80, 0x02, 0x01, 0x05, 0x00, 0x00, 0x00, 0x00] 0).toOption.isSome := by
  constructor <;> rfl

/-- the progress bound `off + 2 ≤ off'` is attained (empty primitive) and rejected input stays rejected -/
example : (readObject 1 [0x05, 0x00] 0).toOption.map (·.2) = some 2
    ∧ (ber2der [0x30, 0x80, 0x02, 0x01, 0x05, 0x00]).toOption.isNone := by
  constructor <;> rfl

end Props.C18
