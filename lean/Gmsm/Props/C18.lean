/-
C18 — decoders never recurse or loop without bound: time and memory stay within a small multiple of
the input size.  Theorems about the BER → DER transcoder model `Model.BER` (x509/ber.go: `readObject`
and its item loop), whose `fuel` argument stands for the Go call stack:

* `readObject_progress` / `readItems_progress`: every successfully read object consumes at least two
  input bytes and never ends beyond the input; the item loop never moves backwards.
* `fuel_sufficient` / `fuel_sufficient_items`: fuel linear in the remaining input is always enough,
  i.e. the recursion depth plus sibling count the decoder can be driven to is at most
  `2 * (remaining bytes) + 1`.
* `ber2der_total`: the model never runs out of fuel on any input.
* `readObject_fuel_mono`, `fuel_irrelevant`: once there is enough fuel the result does not depend on
  the fuel, i.e. it is a function of the input only.
* `depth_bounded`, `ber2der_depth`: with the nesting limit `maxBERDepth = 128` of `readObjectDepth`, whatever is
  accepted has at most 128 nested constructed encodings, so the Go call stack of `readObjectDepth` and of
  `EncodeTo` is bounded by a constant, independent of the input.
* `encodeCost_le`, `ber2der_cost`: `EncodeTo` copies every byte once per enclosing level (each structured
  object is first written to an inner buffer), so the bytes buffered in total are at most
  `(depth + 1) × output size ≤ 129 × output size`; without the limit this was quadratic in the input.
-/
import Gmsm.Model.BER

namespace Model.BER
mutual
  /-- nesting depth of an object tree: the number of constructed encodings on the longest path -/
  def Obj.depth : Obj → Nat
    | .prim _ _ => 0
    | .cons _ items => 1 + depthItems items
  /-- the maximum of the depths of a list of objects -/
  def depthItems : List Obj → Nat
    | [] => 0
    | o :: os => max o.depth (depthItems os)
end

mutual
  /-- Number of bytes written to buffers by the Go `EncodeTo`: a primitive writes its encoding to `out`; a
      structured object first lets every child write itself to a fresh `inner` buffer and then writes tag,
      length and the bytes of `inner` to `out` (so a byte at nesting level k is copied k more times). -/
  def encodeCost : Obj → Nat
    | .prim tag content => (encodeTo (.prim tag content)).length
    | .cons tag items => encodeCostItems items + (encodeTo (.cons tag items)).length
  def encodeCostItems : List Obj → Nat
    | [] => 0
    | o :: os => encodeCost o + encodeCostItems os
end
end Model.BER

namespace Props.C18
open Gmsm Model.BER

/-- a successful bounds-checked read is inside the slice -/
theorem getElem?_some_lt {ber : Bytes} {off : Nat} {b : Byte} (h : ber[off]? = some b) : off < ber.length := by
  have := List.getElem?_eq_some_iff.mp h
  exact this.1

/-- `readTag` (the loop over the continuation octets of a high tag number): a successful read consumes
    at least one byte and stops inside the input -/
theorem readTag_bounds : ∀ (fuel : Nat) (ber : Bytes) (off e : Nat),
    readTag fuel ber off = .ok e → off + 1 ≤ e ∧ e ≤ ber.length := by
  intro fuel
  induction fuel with
  | zero => intro ber off e h; simp [readTag] at h
  | succ f ih =>
    intro ber off e h
    rw [readTag] at h
    split at h
    · simp at h
    · rename_i b hb
      have hlt := getElem?_some_lt hb
      split at h
      · have := ih ber (off + 1) e h
        omega
      · injection h with h
        omega

/-- the tag loop runs at most once per remaining input byte: with fuel `remaining + 1` it never gives up -/
theorem readTag_fuel : ∀ (fuel : Nat) (ber : Bytes) (off : Nat),
    ber.length - off + 1 ≤ fuel → readTag fuel ber off ≠ .error .fuel := by
  intro fuel
  induction fuel with
  | zero => intro ber off h; omega
  | succ f ih =>
    intro ber off h
    rw [readTag]
    split
    · simp
    · rename_i b hb
      have hlt := getElem?_some_lt hb
      split
      · apply ih; omega
      · simp

/-- the length octets never move the offset backwards -/
theorem readLength_bounds {ber : Bytes} {off : Nat} {l : Byte} {len off2 : Nat} {ind : Bool}
    (h : readLength ber off l = .ok (len, off2, ind)) : off ≤ off2 := by
  unfold readLength at h
  dsimp only at h
  split at h
  · split at h
    · simp at h
    · split at h
      · simp at h
      · split at h
        · simp at h
        · split at h
          · simp at h
          · injection h with h; injection h with _ h; injection h with h _; omega
  · split at h
    · injection h with h; injection h with _ h; injection h with h _; omega
    · injection h with h; injection h with _ h; injection h with h _; omega

/-- `readLength` is not recursive -/
theorem readLength_fuel (ber : Bytes) (off : Nat) (l : Byte) : readLength ber off l ≠ .error .fuel := by
  unfold readLength
  dsimp only
  repeat' split
  all_goals simp
/-- continuation of readObject after the header -/
def finish (tag : Bytes) (ce : Nat) (ind : Bool) : Except Err (List Obj × Nat) → Except Err (Obj × Nat)
  | .error e => .error e
  | .ok (items, off') => .ok (.cons tag items, if ind then off' + 2 else ce)

/-- Inversion of one `readObject` call: either the result is decided by the header alone (an error that
    is not `fuel`, or a primitive object; the same for every amount of fuel), or the header is that of a
    constructed object whose content starts at `o2 ≥ offset + 2`, with `o2 ≤ contentEnd ≤ len(ber)`, and the
    result is that of the item loop started at `o2`. -/
theorem readObject_succ_cases (ber : Bytes) (off d : Nat) :
    (∃ r, r ≠ .error .fuel ∧
        (∀ o e, r = .ok (o, e) → off + 2 ≤ e ∧ e ≤ ber.length ∧ ∃ tag c, o = .prim tag c) ∧
        ∀ f', readObject (f' + 1) ber off d = r) ∨
    (∃ tag o2 ce ind, off + 2 ≤ o2 ∧ o2 ≤ ce ∧ ce ≤ ber.length ∧ d < maxBERDepth ∧
        ∀ f', readObject (f' + 1) ber off d = finish tag ce ind (readItems f' ber o2 ce ind (d + 1))) := by
  cases hb : ber[off]? with
  | none => left; refine ⟨.error .truncated, by simp, by simp, ?_⟩; intro f'; rw [readObject]; simp [hb]
  | some b => 
    have hoff := getElem?_some_lt hb
    cases ht : (if b.toNat % 32 = 0x1F then readTag (ber.length + 1) ber (off + 1) else .ok (off + 1)) with
    | error e =>
      left; refine ⟨.error e, ?_, by simp, ?_⟩
      · split at ht
        · intro he; injection he with he; subst he
          exact readTag_fuel _ _ _ (by omega) ht
        · simp at ht
      · intro f'; rw [readObject]; simp only [hb, ht]
    | ok tagEnd =>
      have hte : off + 1 ≤ tagEnd ∧ tagEnd ≤ ber.length := by
        split at ht
        · have := readTag_bounds _ _ _ _ ht; omega
        · injection ht with ht; omega
      cases hl : ber[tagEnd]? with
      | none => left; refine ⟨.error .truncated, by simp, by simp, ?_⟩; intro f'; rw [readObject]; simp only [hb, ht, hl]
      | some l =>
        have hte2 := getElem?_some_lt hl
        cases hlen : readLength ber (tagEnd + 1) l with
        | error e =>
          left; refine ⟨.error e, ?_, by simp, ?_⟩
          · intro he; injection he with he; subst he
            exact readLength_fuel _ _ _ hlen
          · intro f'; rw [readObject]; simp only [hb, ht, hl, hlen]
        | ok r =>
          obtain ⟨length, o2, ind⟩ := r
          have ho2 := readLength_bounds hlen
          by_cases hce : o2 + length > ber.length
          · left; refine ⟨.error .beyondData, by simp, by simp, ?_⟩
            intro f'; rw [readObject]; simp only [hb, ht, hl, hlen, hce, if_true]
          · have hce2 : o2 + length ≤ ber.length := by omega
            by_cases hc : (b.toNat / 32) % 2 = 1
            · by_cases hd : d ≥ maxBERDepth
              · left; refine ⟨.error .tooDeep, by simp, by simp, ?_⟩
                intro f'; rw [readObject]
                simp only [hb, ht, hl, hlen, hce, hc, hd, if_true, if_false, not_true, and_false]
              · right
                refine ⟨(ber.drop off).take (tagEnd - off), o2, o2 + length, ind, by omega, by omega, hce2,
                  by omega, ?_⟩
                intro f'; rw [readObject]
                simp only [hb, ht, hl, hlen, hce, hc, hd, if_false, not_true, and_false]
                cases readItems f' ber o2 (o2 + length) ind (d + 1) <;> rfl
            · cases ind with
              | true =>
                left; refine ⟨.error .indefinitePrimitive, by simp, by simp, ?_⟩
                intro f'; rw [readObject]; simp only [hb, ht, hl, hlen, hce, hc, if_true, if_false, not_false_eq_true, and_self]
              | false =>
                left; refine ⟨.ok (.prim ((ber.drop off).take (tagEnd - off)) ((ber.drop o2).take length), o2 + length), by simp, ?_, ?_⟩
                · intro o e h; injection h with h; injection h with h1 h
                  exact ⟨by omega, by omega, _, _, h1.symm⟩
                · intro f'; rw [readObject]; simp only [hb, ht, hl, hlen, hce, hc, if_true, if_false, not_false_eq_true, and_true, Bool.false_eq_true]

/-- one iteration of the `readItems` loop with the two recursive calls abstracted -/
def itemsK (O : Nat → Except Err (Obj × Nat)) (I : Nat → Except Err (List Obj × Nat))
    (ber : Bytes) (offset contentEnd : Nat) (indefinite : Bool) : Except Err (List Obj × Nat) :=
  if indefinite then
    if ber.length - offset < 2 then .error .invalid
    else if ber.getD offset 1 = 0 ∧ ber.getD (offset + 1) 1 = 0 then .ok ([], offset)
    else
      match O offset with
      | .error e => .error e
      | .ok (o, off') =>
        match I off' with
        | .error e => .error e
        | .ok (os, off'') => .ok (o :: os, off'')
  else if ¬ (offset < contentEnd) then .ok ([], offset)
  else
    match O offset with
    | .error e => .error e
    | .ok (o, off') =>
      if off' > contentEnd then .error .beyondParent
      else
        match I off' with
        | .error e => .error e
        | .ok (os, off'') => .ok (o :: os, off'')

/-- one unfolding of `readItems` -/
theorem readItems_succ (f : Nat) (ber : Bytes) (off ce : Nat) (ind : Bool) (d : Nat) :
    readItems (f + 1) ber off ce ind d
      = itemsK (fun o => readObject f ber o d) (fun o => readItems f ber o ce ind d) ber off ce ind := by
  rw [readItems]; rfl

/-- Inversion of one successful iteration of the item loop: either the loop stops here with no (further)
    member — in the indefinite case because the two end-of-contents octets `00 00` are at `off` (inside the
    input), in the definite case because `off` reached `contentEnd` — or one member is read at `off`, ends at
    `e1` (inside the parent in the definite case), and the loop continues at `e1`. -/
theorem readItems_ok_cases {f : Nat} {ber : Bytes} {off ce : Nat} {ind : Bool} {d : Nat} {os : List Obj} {e : Nat}
    (h : readItems (f + 1) ber off ce ind d = .ok (os, e)) :
    (os = [] ∧ e = off ∧
        (ind = true → off + 2 ≤ ber.length ∧ ber.getD off 1 = 0 ∧ ber.getD (off + 1) 1 = 0) ∧
        (ind = false → ¬ off < ce)) ∨
    (∃ o e1 os1, readObject f ber off d = .ok (o, e1) ∧ readItems f ber e1 ce ind d = .ok (os1, e) ∧
        os = o :: os1 ∧ (ind = false → off < ce ∧ e1 ≤ ce) ∧
        (ind = true → off + 2 ≤ ber.length ∧ ¬ (ber.getD off 1 = 0 ∧ ber.getD (off + 1) 1 = 0))) := by
  rw [readItems_succ] at h
  unfold itemsK at h
  cases ind with
  | true =>
    simp only [if_true] at h
    split at h
    · simp at h
    · rename_i h1
      split at h
      · rename_i h2
        injection h with h; injection h with ha hb
        exact Or.inl ⟨ha.symm, hb.symm, fun _ => ⟨by omega, h2⟩, fun hh => by simp at hh⟩
      · rename_i h2
        cases ho : readObject f ber off d with
        | error e => rw [ho] at h; simp at h
        | ok r =>
          obtain ⟨o, e1⟩ := r
          rw [ho] at h
          dsimp only at h
          cases hi : readItems f ber e1 ce true d with
          | error e => rw [hi] at h; simp at h
          | ok r =>
            obtain ⟨os1, e2⟩ := r
            rw [hi] at h
            injection h with h; injection h with ha hb
            exact Or.inr ⟨o, e1, os1, rfl, hb ▸ hi, ha.symm, fun hh => by simp at hh, fun _ => ⟨by omega, h2⟩⟩
  | false =>
    simp only [Bool.false_eq_true, if_false] at h
    split at h
    · rename_i h1
      injection h with h; injection h with ha hb
      exact Or.inl ⟨ha.symm, hb.symm, fun hh => by simp at hh, fun _ => h1⟩
    · rename_i h1
      cases ho : readObject f ber off d with
      | error e => rw [ho] at h; simp at h
      | ok r =>
        obtain ⟨o, e1⟩ := r
        rw [ho] at h
        dsimp only at h
        split at h
        · simp at h
        · rename_i h2
          cases hi : readItems f ber e1 ce false d with
          | error e => rw [hi] at h; simp at h
          | ok r =>
            obtain ⟨os1, e2⟩ := r
            rw [hi] at h
            injection h with h; injection h with ha hb
            exact Or.inr ⟨o, e1, os1, rfl, hb ▸ hi, ha.symm, fun _ => ⟨by omega, by omega⟩, fun hh => by simp at hh⟩

/-- progress of `readObject` and of the item loop, proved together by induction on the fuel -/
theorem progress_all (ber : Bytes) : ∀ f : Nat,
    (∀ off d o e, readObject f ber off d = .ok (o, e) → off + 2 ≤ e ∧ e ≤ ber.length) ∧
    (∀ off ce ind d os e, readItems f ber off ce ind d = .ok (os, e) →
        off ≤ e ∧ (ind = true → e + 2 ≤ ber.length) ∧
        (ind = false → off ≤ ber.length → e ≤ ber.length)) := by
  intro f
  induction f with
  | zero =>
    constructor
    · intro off d o e h; simp [readObject] at h
    · intro off ce ind d os e h; simp [readItems] at h
  | succ f ih =>
    obtain ⟨ihO, ihI⟩ := ih
    constructor
    · intro off d o e h
      rcases readObject_succ_cases ber off d with ⟨r, _, hr, hall⟩ | ⟨tag, o2, ce, ind, h1, h2, h3, _, hall⟩
      · rw [hall f] at h; have := hr o e h; exact ⟨this.1, this.2.1⟩
      · rw [hall f] at h
        cases hi : readItems f ber o2 ce ind (d + 1) with
        | error e => rw [hi] at h; simp [finish] at h
        | ok r =>
          obtain ⟨items, e1⟩ := r
          rw [hi] at h
          simp only [finish] at h
          injection h with h; injection h with _ h
          have := ihI _ _ _ _ _ _ hi
          cases ind with
          | true => simp at h; have := this.2.1 rfl; omega
          | false => simp at h; omega
    · intro off ce ind d os e h
      rcases readItems_ok_cases h with ⟨_, he, hT, _⟩ | ⟨o, e1, os1, ho, hi, _, hF, _⟩
      · subst he
        exact ⟨Nat.le_refl _, fun hind => by have := hT hind; omega, fun _ h => h⟩
      · have hO := ihO _ _ _ _ ho
        have hI := ihI _ _ _ _ _ _ hi
        exact ⟨by omega, hI.2.1, fun hind _ => hI.2.2 hind (by omega)⟩

/-- `finish` only passes errors through -/
theorem finish_error {tag : Bytes} {ce : Nat} {ind : Bool} {x : Except Err (List Obj × Nat)} {e : Err}
    (h : finish tag ce ind x = .error e) : x = .error e := by
  cases x with
  | error e1 => simpa [finish] using h
  | ok r => simp [finish] at h

/-- linear fuel is enough for `readObject` and for the item loop, together by induction on the fuel -/
theorem fuel_all (ber : Bytes) : ∀ f : Nat,
    (∀ off d, 2 * (ber.length - off) + 1 ≤ f → readObject f ber off d ≠ .error .fuel) ∧
    (∀ off ce ind d, 2 * (ber.length - off) + 2 ≤ f → readItems f ber off ce ind d ≠ .error .fuel) := by
  intro f
  induction f with
  | zero => exact ⟨fun off d h => by omega, fun off ce ind d h => by omega⟩
  | succ f ih =>
    obtain ⟨ihO, ihI⟩ := ih
    constructor
    · intro off d hf
      rcases readObject_succ_cases ber off d with ⟨r, hr, _, hall⟩ | ⟨tag, o2, ce, ind, h1, h2, h3, _, hall⟩
      · rw [hall f]; exact hr
      · rw [hall f]
        intro h
        exact ihI o2 ce ind (d + 1) (by omega) (finish_error h)
    · intro off ce ind d hf
      rw [readItems_succ]
      unfold itemsK
      have hO := ihO off d (by omega)
      have key : ∀ (P : Nat → Prop) [DecidablePred P],
          (match readObject f ber off d with
            | .error e => (.error e : Except Err (List Obj × Nat))
            | .ok (o, off') =>
              if P off' then .error .beyondParent
              else match readItems f ber off' ce ind d with
                | .error e => .error e
                | .ok (os, off'') => .ok (o :: os, off'')) ≠ .error .fuel := by
        intro P _
        cases ho : readObject f ber off d with
        | error e => intro h; injection h with h; subst h; exact hO ho
        | ok r =>
          obtain ⟨o, e1⟩ := r
          have hp := (progress_all ber f).1 _ _ _ _ ho
          have hI := ihI e1 ce ind d (by omega)
          dsimp only
          split
          · simp
          · cases hi : readItems f ber e1 ce ind d with
            | error e =>
              intro h; injection h with h; subst h; exact hI hi
            | ok r => simp
      cases ind with
      | true =>
        simp only [if_true]
        split
        · simp
        · split
          · simp
          · have := key (fun _ => False)
            simpa using this
      | false =>
        simp only [Bool.false_eq_true, if_false]
        split
        · simp
        · exact key (fun x => x > ce)

/-- if the recursive calls may only change where they ran out of fuel, the iteration result does not change
    unless it is itself `fuel` -/
theorem itemsK_mono {O O2 : Nat → Except Err (Obj × Nat)} {I I2 : Nat → Except Err (List Obj × Nat)}
    {ber : Bytes} {off ce : Nat} {ind : Bool}
    (hO : ∀ x, O x ≠ .error .fuel → O2 x = O x) (hI : ∀ x, I x ≠ .error .fuel → I2 x = I x)
    (h : itemsK O I ber off ce ind ≠ .error .fuel) :
    itemsK O2 I2 ber off ce ind = itemsK O I ber off ce ind := by
  unfold itemsK at *
  have tail : ∀ (e1 : Nat) (o : Obj),
      (match I e1 with
        | .error e => (.error e : Except Err (List Obj × Nat))
        | .ok (os, off'') => .ok (o :: os, off'')) ≠ .error .fuel →
      (match I2 e1 with
        | .error e => (.error e : Except Err (List Obj × Nat))
        | .ok (os, off'') => .ok (o :: os, off'')) =
      (match I e1 with
        | .error e => (.error e : Except Err (List Obj × Nat))
        | .ok (os, off'') => .ok (o :: os, off'')) := by
    intro e1 o h
    cases hi : I e1 with
    | error e =>
      rw [hi] at h
      have he : e ≠ Err.fuel := fun hh => h (by rw [hh])
      rw [hI e1 (by rw [hi]; intro x; injection x with x; exact he x), hi]
    | ok r => rw [hI e1 (by rw [hi]; simp), hi]
  cases ind with
  | true =>
    simp only [if_true] at h ⊢
    split
    · rfl
    · rename_i h1
      rw [if_neg h1] at h
      split
      · rfl
      · rename_i h2
        rw [if_neg h2] at h
        cases ho : O off with
        | error e =>
          rw [ho] at h
          have he : e ≠ Err.fuel := fun hh => h (by rw [hh])
          rw [hO off (by rw [ho]; intro x; injection x with x; exact he x), ho]
        | ok r =>
          obtain ⟨o, e1⟩ := r
          rw [ho] at h
          rw [hO off (by rw [ho]; simp), ho]
          exact tail e1 o h
  | false =>
    simp only [Bool.false_eq_true, if_false] at h ⊢
    split
    · rfl
    · rename_i h1
      rw [if_neg h1] at h
      cases ho : O off with
      | error e =>
        rw [ho] at h
        have he : e ≠ Err.fuel := fun hh => h (by rw [hh])
        rw [hO off (by rw [ho]; intro x; injection x with x; exact he x), ho]
      | ok r =>
        obtain ⟨o, e1⟩ := r
        rw [ho] at h
        rw [hO off (by rw [ho]; simp), ho]
        dsimp only at h ⊢
        split
        · rfl
        · rename_i h2
          rw [if_neg h2] at h
          exact tail e1 o h

/-- one more unit of fuel does not change a result other than `fuel` -/
theorem mono_all (ber : Bytes) : ∀ f : Nat,
    (∀ off d, readObject f ber off d ≠ .error .fuel → readObject (f + 1) ber off d = readObject f ber off d) ∧
    (∀ off ce ind d, readItems f ber off ce ind d ≠ .error .fuel →
        readItems (f + 1) ber off ce ind d = readItems f ber off ce ind d) := by
  intro f
  induction f with
  | zero =>
    constructor
    · intro off d h; exact absurd (by rw [readObject]) h
    · intro off ce ind d h; exact absurd (by rw [readItems]) h
  | succ f ih =>
    obtain ⟨ihO, ihI⟩ := ih
    constructor
    · intro off d h
      rcases readObject_succ_cases ber off d with ⟨r, hr, _, hall⟩ | ⟨tag, o2, ce, ind, h1, h2, h3, _, hall⟩
      · rw [hall f, hall (f + 1)]
      · rw [hall f] at h
        rw [hall f, hall (f + 1)]
        rw [ihI o2 ce ind (d + 1) (fun hh => h (by rw [hh]; rfl))]
    · intro off ce ind d h
      rw [readItems_succ] at h
      rw [readItems_succ (f + 1), readItems_succ f]
      exact itemsK_mono (fun x hx => ihO x d hx) (fun x hx => ihI x ce ind d hx) h

-- the C18 statements -------------------------------------------------------------------------------------------

/-- Every object `readObject` returns consumed at least a tag byte and a length byte (`off + 2 ≤ off'`) and
    never claims bytes beyond the input (`off' ≤ len(ber)`); for the indefinite form the two terminator
    octets counted by `off' = end of items + 2` are inside the input too.  So each level of recursion of the Go
    `readObjectDepth` strictly shrinks the remaining input. -/
theorem readObject_progress {fuel : Nat} {ber : Bytes} {off d : Nat} {o : Obj} {off2 : Nat}
    (h : readObject fuel ber off d = .ok (o, off2)) : off + 2 ≤ off2 ∧ off2 ≤ ber.length :=
  (progress_all ber fuel).1 off d o off2 h

/-- The item loop `for (offset < contentEnd) || indefinite` never moves backwards.  In the indefinite case it
    stops — after zero or more children: the end-of-contents test comes before each member — at a position where
    the two end-of-contents octets are available (`off2 + 2 ≤ len(ber)`).  In the definite case the loop ends at
    most at `len(ber)` when started inside it (`items_inside_parent` in C18Linear: at most at `contentEnd`).
    (Before the repair of the empty indefinite-length value the loop read a member first, and this theorem also
    said `off + 2 ≤ off2` for the indefinite case; that is no longer true — `30 80 00 00` has no member — and not
    needed: `readObject_progress` still gives `off + 2 ≤ off2` for every object.) -/
theorem readItems_progress {fuel : Nat} {ber : Bytes} {off ce : Nat} {ind : Bool} {d : Nat} {os : List Obj}
    {off2 : Nat} (h : readItems fuel ber off ce ind d = .ok (os, off2)) :
    off ≤ off2 ∧ (ind = true → off2 + 2 ≤ ber.length) ∧
      (ind = false → off ≤ ber.length → off2 ≤ ber.length) :=
  (progress_all ber fuel).2 off ce ind d os off2 h

/-- The recursion of `readObjectDepth` is bounded by the input, whatever the depth limit: with fuel
    `2 * remaining + 1` (`remaining = len(ber) - off`) the model never reports `fuel`: the number of nested
    plus sequential calls that any input, however hostile, can drive the Go decoder to is at most linear in
    the number of bytes that are left. -/
theorem fuel_sufficient (ber : Bytes) (off d fuel : Nat) (h : 2 * (ber.length - off) + 1 ≤ fuel) :
    readObject fuel ber off d ≠ .error .fuel :=
  (fuel_all ber fuel).1 off d h

/-- companion of `fuel_sufficient` for the item loop -/
theorem fuel_sufficient_items (ber : Bytes) (off ce : Nat) (ind : Bool) (d fuel : Nat)
    (h : 2 * (ber.length - off) + 2 ≤ fuel) : readItems fuel ber off ce ind d ≠ .error .fuel :=
  (fuel_all ber fuel).2 off ce ind d h

/-- `ber2der` never runs out of stack in the model: every input is either transcoded or rejected with one of
    the Go error cases, after a number of calls bounded by `2 * len(ber) + 2`. -/
theorem ber2der_total (ber : Bytes) : ber2der ber ≠ .error .fuel := by
  unfold ber2der
  split
  · simp
  · have h := fuel_sufficient ber 0 0 (2 * ber.length + 2) (by omega)
    cases hr : readObject (2 * ber.length + 2) ber 0 0 with
    | error e =>
      intro hh
      injection hh with hh
      subst hh
      exact h hr
    | ok r => simp

/-- a result other than `fuel` is stable under more fuel (`readObject`) -/
theorem readObject_fuel_mono {f : Nat} {ber : Bytes} {off d : Nat} {r : Except Err (Obj × Nat)}
    (h : readObject f ber off d = r) (hr : r ≠ .error .fuel) : readObject (f + 1) ber off d = r := by
  subst h; exact (mono_all ber f).1 off d hr

/-- a result other than `fuel` is stable under more fuel (item loop) -/
theorem readItems_fuel_mono {f : Nat} {ber : Bytes} {off ce : Nat} {ind : Bool} {d : Nat}
    {r : Except Err (List Obj × Nat)}
    (h : readItems f ber off ce ind d = r) (hr : r ≠ .error .fuel) : readItems (f + 1) ber off ce ind d = r := by
  subst h; exact (mono_all ber f).2 off ce ind d hr

/-- a result other than `fuel` is stable under more fuel (tag loop) -/
theorem readTag_fuel_mono : ∀ (f : Nat) (ber : Bytes) (off : Nat),
    readTag f ber off ≠ .error .fuel → readTag (f + 1) ber off = readTag f ber off := by
  intro f
  induction f with
  | zero => intro ber off h; exact absurd (by rw [readTag]) h
  | succ f ih =>
    intro ber off h
    simp only [readTag] at h ⊢
    cases hb : ber[off]? with
    | none => rfl
    | some b =>
      rw [hb] at h
      dsimp only at h ⊢
      by_cases hge : b.toNat ≥ 0x80
      · rw [if_pos hge] at h
        rw [if_pos hge, if_pos hge]
        have := ih ber (off + 1) h
        simp only [readTag] at this
        exact this
      · rw [if_neg hge, if_neg hge]

/-- a result other than `fuel` is stable under any amount of additional fuel -/
theorem readObject_fuel_add (ber : Bytes) (off d f : Nat) (h : readObject f ber off d ≠ .error .fuel) :
    ∀ k, readObject (f + k) ber off d = readObject f ber off d := by
  intro k
  induction k with
  | zero => rfl
  | succ k ih =>
    rw [← ih]
    exact readObject_fuel_mono rfl (by rw [ih]; exact h)

/-- With enough fuel the result does not depend on the fuel: `readObject` is a function of the input, the
    offset and the depth only, and `2 * remaining + 1` nested/sequential calls always suffice to compute it. -/
theorem fuel_irrelevant (ber : Bytes) (off d f1 f2 : Nat)
    (h1 : 2 * (ber.length - off) + 1 ≤ f1) (h2 : 2 * (ber.length - off) + 1 ≤ f2) :
    readObject f1 ber off d = readObject f2 ber off d := by
  have hb := fuel_sufficient ber off d (2 * (ber.length - off) + 1) (Nat.le_refl _)
  have e1 := readObject_fuel_add ber off d _ hb (f1 - (2 * (ber.length - off) + 1))
  have e2 := readObject_fuel_add ber off d _ hb (f2 - (2 * (ber.length - off) + 1))
  have a1 : 2 * (ber.length - off) + 1 + (f1 - (2 * (ber.length - off) + 1)) = f1 := by omega
  have a2 : 2 * (ber.length - off) + 1 + (f2 - (2 * (ber.length - off) + 1)) = f2 := by omega
  rw [a1] at e1
  rw [a2] at e2
  rw [e1, e2]

/-- `ber2der` computes the same result with any larger stack budget: its verdict is determined by the input -/
theorem ber2der_fuel_irrelevant (ber : Bytes) (f : Nat) (h : 2 * ber.length + 1 ≤ f) :
    ber2der ber = if ber.isEmpty then .error .invalid
      else match readObject f ber 0 0 with
        | .error e => .error e
        | .ok (o, _) => .ok (encodeTo o) := by
  unfold ber2der
  rw [fuel_irrelevant ber 0 0 (2 * ber.length + 2) f (by omega) (by omega)]
  split
  · rfl
  · cases readObject f ber 0 0 <;> rfl

-- the nesting bound ---------------------------------------------------------------------------------------------

/-- an object read at depth `d ≤ maxBERDepth` nests at most `maxBERDepth - d` constructed levels, and so do
    the children collected by the item loop; together by induction on the fuel -/
theorem depth_all (ber : Bytes) : ∀ f : Nat,
    (∀ off d o e, d ≤ maxBERDepth → readObject f ber off d = .ok (o, e) → o.depth + d ≤ maxBERDepth) ∧
    (∀ off ce ind d os e, d ≤ maxBERDepth → readItems f ber off ce ind d = .ok (os, e) →
        depthItems os + d ≤ maxBERDepth) := by
  intro f
  induction f with
  | zero =>
    constructor
    · intro off d o e _ h; simp [readObject] at h
    · intro off ce ind d os e _ h; simp [readItems] at h
  | succ f ih =>
    obtain ⟨ihO, ihI⟩ := ih
    constructor
    · intro off d o e hd h
      rcases readObject_succ_cases ber off d with ⟨r, _, hr, hall⟩ | ⟨tag, o2, ce, ind, _, _, _, hlt, hall⟩
      · rw [hall f] at h
        obtain ⟨_, _, tag, c, rfl⟩ := hr o e h
        simp only [Obj.depth]; omega
      · rw [hall f] at h
        cases hi : readItems f ber o2 ce ind (d + 1) with
        | error e => rw [hi] at h; simp [finish] at h
        | ok r =>
          obtain ⟨items, e1⟩ := r
          rw [hi] at h
          simp only [finish] at h
          injection h with h; injection h with h _
          subst h
          have := ihI _ _ _ _ _ _ (by omega) hi
          simp only [Obj.depth]; omega
    · intro off ce ind d os e hd h
      rcases readItems_ok_cases h with ⟨hos, _, _, _⟩ | ⟨o, e1, os1, ho, hi, hos, _, _⟩
      · subst hos; simp only [depthItems]; omega
      · subst hos
        have hO := ihO _ _ _ _ hd ho
        have hI := ihI _ _ _ _ _ _ hd hi
        simp only [depthItems]; omega

/-- The nesting bound of the repaired code: an object that `readObjectDepth` accepts at depth `d` has at most
    `maxBERDepth - d` levels of constructed encodings below (and including) it.  A constructed object is
    accepted only at `d < 128`, its children are read at `d + 1`; primitives are accepted at depth 128 too. -/
theorem depth_bounded {fuel : Nat} {ber : Bytes} {off d : Nat} {o : Obj} {off2 : Nat} (hd : d ≤ maxBERDepth)
    (h : readObject fuel ber off d = .ok (o, off2)) : o.depth + d ≤ maxBERDepth :=
  (depth_all ber fuel).1 off d o off2 hd h

/-- companion of `depth_bounded` for the children collected by the item loop -/
theorem depth_bounded_items {fuel : Nat} {ber : Bytes} {off ce : Nat} {ind : Bool} {d : Nat} {os : List Obj}
    {off2 : Nat} (hd : d ≤ maxBERDepth) (h : readItems fuel ber off ce ind d = .ok (os, off2)) :
    depthItems os + d ≤ maxBERDepth :=
  (depth_all ber fuel).2 off ce ind d os off2 hd h

/-- Whatever `ber2der` accepts is the encoding of an object tree of nesting depth at most 128: the Go
    recursion depth of `readObjectDepth` and of `EncodeTo` is bounded by a constant that does not depend on
    the input. -/
theorem ber2der_depth {ber der : Bytes} (h : ber2der ber = .ok der) :
    ∃ o, o.depth ≤ maxBERDepth ∧ der = encodeTo o := by
  unfold ber2der at h
  split at h
  · simp at h
  · cases hr : readObject (2 * ber.length + 2) ber 0 0 with
    | error e => rw [hr] at h; simp at h
    | ok r =>
      obtain ⟨o, e⟩ := r
      rw [hr] at h
      injection h with h
      exact ⟨o, by have := depth_bounded (by simp [maxBERDepth]) hr; omega, h.symm⟩

/-- beyond the limit only primitives are accepted: an accepted constructed object was read at depth < 128
    (so the hypothesis `d ≤ maxBERDepth` of `depth_bounded` only excludes primitives read at absurd depths) -/
theorem tooDeep_only_rejects {fuel : Nat} {ber : Bytes} {off d : Nat} {o : Obj} {off2 : Nat}
    (h : readObject fuel ber off d = .ok (o, off2)) : d ≤ maxBERDepth ∨ ∃ tag c, o = .prim tag c := by
  cases fuel with
  | zero => simp [readObject] at h
  | succ f =>
    rcases readObject_succ_cases ber off d with ⟨r, _, hr, hall⟩ | ⟨tag, o2, ce, ind, _, _, _, hlt, hall⟩
    · rw [hall f] at h; exact Or.inr (hr o off2 h).2.2
    · exact Or.inl (by omega)

-- cost of re-encoding -------------------------------------------------------------------------------------------

/-- the content of a structured object is part of its encoding -/
theorem encodeTo_cons_length (tag : Bytes) (items : List Obj) :
    (encodeItems items).length ≤ (encodeTo (.cons tag items)).length := by
  rw [encodeTo]; simp only [List.length_append]; omega

mutual
/-- `EncodeTo` re-buffers every byte at most once per enclosing constructed level: the total number of bytes
    it writes to buffers is at most `(depth + 1) × (size of the output)`. -/
theorem encodeCost_le : (o : Obj) → encodeCost o ≤ (o.depth + 1) * (encodeTo o).length
  | .prim tag c => by simp [encodeCost, Obj.depth]
  | .cons tag items => by
    have h := encodeCostItems_le items
    have hl := encodeTo_cons_length tag items
    rw [encodeCost, Obj.depth]
    have h2 : (depthItems items + 1) * (encodeItems items).length
        ≤ (depthItems items + 1) * (encodeTo (.cons tag items)).length := Nat.mul_le_mul_left _ hl
    have h3 : (1 + depthItems items + 1) * (encodeTo (.cons tag items)).length
        = (depthItems items + 1) * (encodeTo (.cons tag items)).length + (encodeTo (.cons tag items)).length := by
      rw [show 1 + depthItems items + 1 = (depthItems items + 1) + 1 by omega, Nat.add_mul, Nat.one_mul]
    omega
/-- companion of `encodeCost_le` for a list of children -/
theorem encodeCostItems_le : (os : List Obj) → encodeCostItems os ≤ (depthItems os + 1) * (encodeItems os).length
  | [] => by simp [encodeCostItems]
  | o :: os => by
    have h1 := encodeCost_le o
    have h2 := encodeCostItems_le os
    rw [encodeCostItems, depthItems, encodeItems, List.length_append, Nat.mul_add]
    have a1 : (o.depth + 1) * (encodeTo o).length ≤ (max o.depth (depthItems os) + 1) * (encodeTo o).length :=
      Nat.mul_le_mul_right _ (by omega)
    have a2 : (depthItems os + 1) * (encodeItems os).length ≤ (max o.depth (depthItems os) + 1) * (encodeItems os).length :=
      Nat.mul_le_mul_right _ (by omega)
    omega
end

/-- Memory/time bound of the re-encoding step of `ber2der`: an accepted input yields an object tree of depth at
    most 128, so `EncodeTo` writes at most `(128 + 1) × len(der)` bytes to buffers in total — a constant
    multiple of the output size (which `C17`'s length lemmas bound by the input size), where without the depth
    limit the factor was the attacker-chosen nesting depth, i.e. quadratic in the input. -/
theorem ber2der_cost {ber der : Bytes} (h : ber2der ber = .ok der) :
    ∃ o, der = encodeTo o ∧ o.depth ≤ maxBERDepth ∧ encodeCost o ≤ (maxBERDepth + 1) * der.length := by
  obtain ⟨o, hd, rfl⟩ := ber2der_depth h
  refine ⟨o, rfl, hd, Nat.le_trans (encodeCost_le o) (Nat.mul_le_mul_right _ (by omega))⟩

-- non-vacuity ---------------------------------------------------------------------------------------------------

/-- a nested indefinite-length input is transcoded to definite lengths -/
example : ber2der [0x30, 0x80, 0x30, 0x80, 0x02, 0x01, 0x05, 0x00, 0x00, 0x00, 0x00]
    = .ok [0x30, 0x05, 0x30, 0x03, 0x02, 0x01, 0x05] := by rfl

/-- the `fuel` error is real: with less fuel than the nesting needs the model does give up, so
    `fuel_sufficient` is not vacuous -/
example : (readObject 4 [0x30, 0x80, 0x30, 0x80, 0x02, 0x01, 0x05, 0x00, 0x00, 0x00, 0x00] 0 0).toOption.isNone
    ∧ (readObject 5 [0x30, 0x80, 0x30, 0x80, 0x02, 0x01, 0x05, 0x00, 0x00, 0x00, 0x00] 0 0).toOption.isSome := by
  constructor <;> rfl

/-- the progress bound `off + 2 ≤ off'` is attained (empty primitive) and rejected input stays rejected -/
example : (readObject 1 [0x05, 0x00] 0 0).toOption.map (·.2) = some 2
    ∧ (ber2der [0x30, 0x80, 0x02, 0x01, 0x05, 0x00]).toOption.isNone := by
  constructor <;> rfl

/-- the depth check sits exactly at `maxBERDepth`: a constructed object is read at depth 127 (its primitive
    child at depth 128 is fine) and refused at depth 128 — also when it is empty; a primitive is fine there -/
example : (readObject 9 [0x30, 0x80, 0x02, 0x01, 0x01, 0x00, 0x00] 0 127).toOption.map (·.1.depth) = some 1
    ∧ (readObject 9 [0x30, 0x80, 0x02, 0x01, 0x01, 0x00, 0x00] 0 128).toOption.isNone
    ∧ (readObject 9 [0x30, 0x00] 0 128).toOption.isNone
    ∧ (readObject 9 [0x02, 0x01, 0x01] 0 128).toOption.isSome := by
  refine ⟨?_, ?_, ?_, ?_⟩ <;> rfl

/-- `30 80` × n, `02 01 01`, `00 00` × n: an INTEGER inside n nested indefinite-length SEQUENCEs -/
def nested : Nat → Bytes
  | 0 => [0x02, 0x01, 0x01]
  | n + 1 => [0x30, 0x80] ++ nested n ++ [0x00, 0x00]

/-- 129 nested constructed encodings are rejected by `ber2der` … (evaluated by the kernel, a few seconds) -/
theorem nested129_rejected : (ber2der (nested 129)).toOption.isNone = true := by decide +kernel

/-- … and 128 are accepted, so `depth_bounded` is tight (evaluated by the kernel, about ten seconds) -/
theorem nested128_accepted : (ber2der (nested 128)).toOption.isSome = true := by decide +kernel

end Props.C18
