/-
C08, client side of session resumption: a client with verification enabled completes an ABBREVIATED handshake
only from a cached session that carries a verified chain and whose end-entity certificates are, at the
configured time and for the configured ServerName, what a full handshake would also require of them.

Theorems about `Model.ClientResume` (`clientHandshake`'s offer gate `sessionServerCertsAcceptable` - the repair -
and the abbreviated handshake of `processServerHello`).  Before the repair the gate was `offerGateOld` alone and
`client_resumes_only_verified` was false (`old_gate_witness`).
-/
import Gmsm.Model.ClientResume
import Gmsm.Props.C08
namespace Props.C08ClientResume
open Model Model.HandshakeAuth Model.ClientResume

/-- what the gate asks of one leaf: inside the validity period, valid for the requested name -/
theorem leafAcceptable_iff (o : X509.Opts) (l : X509.Cert) :
    leafAcceptable o l = true ↔ (l.nb ≤ o.now ∧ o.now ≤ l.na) ∧ X509.verifyHostname l o = true := by
  simp only [leafAcceptable, Bool.and_eq_true, Bool.not_eq_true', Bool.or_eq_false_iff, decide_eq_false_iff_not,
    Int.not_lt]

/-- … which are exactly the two tests `Certificate.Verify` makes on the leaf itself before it builds chains:
    `isValid(leaf)` passes and the host name matches -/
theorem leafAcceptable_isValid (o : X509.Opts) (l : X509.Cert) (h : leafAcceptable o l = true) :
    X509.isValid l .leaf [] o = none := by
  obtain ⟨⟨h1, h2⟩, _⟩ := (leafAcceptable_iff o l).1 h
  have e1 : (decide (o.now < l.nb) || decide (o.now > l.na)) = false := by
    simp only [Bool.or_eq_false_iff, decide_eq_false_iff_not, Int.not_lt, gt_iff_lt]
    exact ⟨h1, h2⟩
  unfold X509.isValid
  simp only [List.getLast?_nil, Bool.false_eq_true, if_false, e1]
  by_cases hb : l.bcValid = true <;> by_cases hm : l.maxPathLen ≥ 0 <;>
    simp [hb, hm] <;> omega

/-- the gate under a verifying policy -/
theorem certsAcceptable_verifying (c : Client) (s : CSess) (hv : c.insecureSkipVerify = false)
    (h : certsAcceptable c s = true) :
    s.chains ≠ [] ∧ s.certs ≠ [] ∧ ∀ l ∈ leaves s, leafAcceptable c.opts l = true := by
  simp only [certsAcceptable, hv, Bool.false_or, Bool.and_eq_true, Bool.not_eq_true', List.isEmpty_eq_false_iff,
    List.all_eq_true] at h
  exact ⟨h.1.1, h.1.2, h.2⟩

/-- a resumed handshake used the cached session, and that session passed the offer gate -/
theorem attempt_resumed (k : Conf) (cache : Option CSess) (r : Reply) (s : CSess)
    (h : attempt k cache r = .resumed s) : cache = some s ∧ offerGate k s = true := by
  unfold attempt offered at h
  cases cache with
  | none => simp at h
  | some t =>
    by_cases hg : offerGate k t = true
    · simp only [Option.filter, hg, if_true] at h
      split at h
      · cases h
      · split at h
        · cases h
        · cases h; exact ⟨rfl, hg⟩
    · simp [Option.filter, hg] at h

/-- **The repaired behaviour.**  If the client completes an abbreviated handshake under a verifying policy, the
    session it resumed (whose certificates and chains the connection reports) is the cached one, has a verified
    chain, and each of its end-entity certificates (TLS: the leaf; GMSSL: signing and encryption certificate) is
    inside its validity period at `Config.Time()`, valid for `Config.ServerName`, and passes the leaf tests of
    `Certificate.Verify` under the present options - the verdict a full handshake would also need on them. -/
theorem client_resumes_only_verified (k : Conf) (cache : Option CSess) (r : Reply) (s : CSess)
    (hv : k.client.insecureSkipVerify = false) (h : attempt k cache r = .resumed s) :
    cache = some s ∧ s.chains ≠ [] ∧
    ∀ l ∈ leaves s, (l.nb ≤ k.client.opts.now ∧ k.client.opts.now ≤ l.na) ∧
      X509.verifyHostname l k.client.opts = true ∧ X509.isValid l .leaf [] k.client.opts = none := by
  obtain ⟨hc, hg⟩ := attempt_resumed k cache r s h
  simp only [offerGate, Bool.and_eq_true] at hg
  obtain ⟨hch, _, hl⟩ := certsAcceptable_verifying k.client s hv hg.2
  refine ⟨hc, hch, fun l hlm => ?_⟩
  have := hl l hlm
  exact ⟨((leafAcceptable_iff _ _).1 this).1, ((leafAcceptable_iff _ _).1 this).2, leafAcceptable_isValid _ _ this⟩

/-- a session the gate refuses is not offered: whatever the server answers, the handshake is a full one -/
theorem refused_session_full_handshake (k : Conf) (s : CSess) (r : Reply)
    (h : certsAcceptable k.client s = false) : attempt k (some s) r = .full := by
  simp [attempt, offered, Option.filter, offerGate, h]

/-- expired leaf / no verified chain / name mismatch, each on its own, make the gate refuse -/
theorem gate_refuses (c : Client) (s : CSess) (hv : c.insecureSkipVerify = false)
    (h : s.chains = [] ∨ ∃ l ∈ leaves s, c.opts.now > l.na ∨ c.opts.now < l.nb ∨ X509.verifyHostname l c.opts = false) :
    certsAcceptable c s = false := by
  cases hg : certsAcceptable c s with
  | false => rfl
  | true =>
    obtain ⟨hch, _, hl⟩ := certsAcceptable_verifying c s hv hg
    rcases h with h | ⟨l, hlm, h⟩
    · exact absurd h hch
    · obtain ⟨⟨h1, h2⟩, h3⟩ := (leafAcceptable_iff _ _).1 (hl l hlm)
      rcases h with h | h | h
      · omega
      · omega
      · rw [h3] at h; cases h

/-- the session a full handshake stores: without verification it has no verified chain -/
theorem insecure_store_no_chains (k : Conf) (srv : Srv) (n : Nat) (s : CSess) (hi : k.client.insecureSkipVerify = true)
    (h : fullHandshake k srv n = .ok s) : s.chains = [] := by
  simp only [fullHandshake, hi, if_true] at h
  cases h; rfl

/-- … so a verifying connection never resumes a session stored by an InsecureSkipVerify connection (scenario b):
    it runs a full handshake, which verifies what the server presents now -/
theorem insecure_session_not_resumed (k1 k2 : Conf) (srv : Srv) (n : Nat) (s : CSess) (r : Reply)
    (hi : k1.client.insecureSkipVerify = true) (h : fullHandshake k1 srv n = .ok s)
    (hv : k2.client.insecureSkipVerify = false) : attempt k2 (some s) r = .full :=
  refused_session_full_handshake k2 s r
    (gate_refuses k2.client s hv (Or.inl (insecure_store_no_chains k1 srv n s hi h)))

theorem verifyLeaves_ok (c : Client) (inters : List X509.Cert) :
    ∀ (ls : List X509.Cert) (acc chains : List (List Nat)), verifyLeaves c inters ls acc = .ok chains →
      (∀ l ∈ ls, chainOK c.roots inters l c.opts = true) ∧ (ls ≠ [] → chains ≠ [])
  | [], acc, chains, h => by simp
  | l :: ls, acc, chains, h => by
    unfold verifyLeaves at h
    cases hv : X509.verify c.roots inters l c.opts with
    | ok ch =>
      simp only [hv] at h
      obtain ⟨h1, h2⟩ := verifyLeaves_ok c inters ls ch chains h
      refine ⟨fun x hx => ?_, fun _ => ?_⟩
      · rcases List.mem_cons.1 hx with rfl | hx
        · simp [chainOK, hv]
        · exact h1 x hx
      · cases ls with
        | nil => simp only [verifyLeaves] at h; cases h; exact Props.C08.verify_ok_nonempty _ _ _ _ _ hv
        | cons y ys => exact h2 (by simp)
    | critical => simp [hv] at h
    | leafInvalid r => simp [hv] at h
    | hostname => simp [hv] at h
    | noChain => simp [hv] at h
    | usage => simp [hv] at h

/-- the session a verifying full handshake stores: every end-entity certificate of the server chained to the
    roots of that connection (`chainOK` is the test `Model.HandshakeAuth.serverChainOK` makes), and - when the
    server sent a certificate at all - the stored list of verified chains is not empty -/
theorem verifying_store (k : Conf) (srv : Srv) (n : Nat) (s : CSess) (hv : k.client.insecureSkipVerify = false)
    (h : fullHandshake k srv n = .ok s) :
    s.certs = srv.certs ∧ (∀ l ∈ srvLeaves srv, chainOK k.client.roots (srvInters srv) l k.client.opts = true) ∧
    (srvLeaves srv ≠ [] → s.chains ≠ []) := by
  simp only [fullHandshake, hv, Bool.false_eq_true, if_false] at h
  cases hl : verifyLeaves k.client (srvInters srv) (srvLeaves srv) [] with
  | error e => simp [hl] at h
  | ok chains =>
    simp only [hl] at h
    cases h
    obtain ⟨h1, h2⟩ := verifyLeaves_ok _ _ _ _ _ hl
    exact ⟨rfl, h1, h2⟩

/-- in a history every resumed connection under a verifying policy reports a session that satisfies the gate -/
theorem conn_resumed_verified (srv : Srv) (cache : Option CSess) (n : Nat) (k : Conf) (s : CSess)
    (hv : k.client.insecureSkipVerify = false) (h : (conn srv cache n k).2 = .resumed s) :
    cache = some s ∧ s.chains ≠ [] ∧
    ∀ l ∈ leaves s, (l.nb ≤ k.client.opts.now ∧ k.client.opts.now ≤ l.na) ∧
      X509.verifyHostname l k.client.opts = true ∧ X509.isValid l .leaf [] k.client.opts = none := by
  unfold conn at h
  cases ha : attempt k cache ⟨true, srv.vers, srv.suite, true⟩ with
  | resumed t =>
    simp only [ha] at h
    injection h with h
    subst h
    exact client_resumes_only_verified k cache _ _ hv ha
  | error => simp [ha] at h
  | full =>
    simp only [ha] at h
    cases hf : fullHandshake k srv n with
    | ok t => simp [hf] at h
    | error e => simp [hf] at h

-- non-vacuity ----------------------------------------------------------------------------------------------

/-- an IP-named server certificate (string functions of DNS matching do not reduce in the kernel) valid -24…24 -/
def exLeaf : X509.Cert :=
  ⟨10, 110, 100, 2001, 2000, none, none, -24, 24, false, false, -1, 1, [], [], ["10.1.2.3"], "ip", [1], false, false, 3⟩
def exSess (chains : List (List Nat)) : CSess := ⟨0x0303, 0xc02f, [exLeaf], chains, 1⟩
def exConf (isv : Bool) (now : Int) (ip : String) : Conf :=
  ⟨⟨isv, [], ⟨now, ip, true, ip, []⟩, [0xc02f], 0, [], 0, 0, []⟩, 0x0303, 0x0303⟩
def exReply : Reply := ⟨true, 0x0303, 0xc02f, true⟩

/-- the gate lets a verified, unexpired, rightly named session through (the theorem is not vacuous) … -/
example : (match attempt (exConf false 0 "10.1.2.3") (some (exSess [[10, 1]])) exReply with
    | .resumed _ => true | _ => false) = true := by decide
/-- … and refuses it a day after NotAfter, without a verified chain, or under another name -/
example : (match attempt (exConf false 25 "10.1.2.3") (some (exSess [[10, 1]])) exReply with
    | .full => true | _ => false) = true := by decide
example : (match attempt (exConf false 0 "10.1.2.3") (some (exSess [])) exReply with
    | .full => true | _ => false) = true := by decide
example : (match attempt (exConf false 0 "10.1.2.4") (some (exSess [[10, 1]])) exReply with
    | .full => true | _ => false) = true := by decide
/-- a client that does not verify resumes all of them -/
example : (match attempt (exConf true 25 "10.1.2.4") (some (exSess [])) exReply with
    | .resumed _ => true | _ => false) = true := by decide

/-- the defect: the gate the code had before the repair offers the expired, the unverified and the wrongly named
    session alike -/
theorem old_gate_witness :
    offerGateOld (exConf false 25 "10.1.2.3") (exSess [[10, 1]]) = true ∧
    offerGateOld (exConf false 0 "10.1.2.3") (exSess []) = true ∧
    offerGateOld (exConf false 0 "10.1.2.4") (exSess [[10, 1]]) = true ∧
    offerGate (exConf false 25 "10.1.2.3") (exSess [[10, 1]]) = false ∧
    offerGate (exConf false 0 "10.1.2.3") (exSess []) = false ∧
    offerGate (exConf false 0 "10.1.2.4") (exSess [[10, 1]]) = false := by decide

end Props.C08ClientResume
