/-
C14 / C13 / C01 — byte-level codec theorems about `Model.SM2Codec` (models of `keXHat`, `Compress`,
`Decompress`, `CipherMarshal`, `CipherUnmarshal`) and about the strict DER parser of `Spec.DER`:

 * C  `keXHat_eq`            — the byte-twiddling `keXHat` is x̄ = 2^127 + (x mod 2^127) for every x;
 * B  `cipher_asn1_roundtrip` — `CipherUnmarshal ∘ CipherMarshal` is the identity on every raw ciphertext
      04 ‖ … of at least 97 bytes whose DER form is shorter than 2^31 bytes (the `encoding/asn1` limit);
      `cipherMarshal_eq_spec` — the model's output is `Spec.DER.encCipher`;
 * A  `compress_roundtrip`, `decompress_sound`, `decompress_eq_none_iff`, `no_point_with_y_zero`;
 * D  `der_canonical`        — the strict signature parser accepts only the canonical DER of (r, s).
-/
import Gmsm.Model.SM2Codec
import Gmsm.Spec.DER
import Gmsm.Proofs.BytesNat
import Gmsm.Proofs.SM2Affine
import Gmsm.Props.C01
import Mathlib.Tactic.Ring
import Mathlib.Tactic.Linarith
namespace Props.C14Codec
open Gmsm Model.SM2Codec

/-! ## Big-endian strings -/

theorem os2ip_replicate_zero (k : Nat) : os2ip (List.replicate k (0 : Byte)) = 0 := by
  induction k with
  | zero => rfl
  | succ k ih => rw [List.replicate_succ, os2ip_cons, ih]; simp

theorem os2ip_zeros_append (k : Nat) (b : Bytes) : os2ip (List.replicate k (0 : Byte) ++ b) = os2ip b := by
  rw [os2ip_append, os2ip_replicate_zero]; simp

/-- big-endian strings of the same length with the same value are equal -/
theorem os2ip_inj (a b : Bytes) (hl : a.length = b.length) (h : os2ip a = os2ip b) : a = b := by
  induction a generalizing b with
  | nil => cases b with
    | nil => rfl
    | cons _ _ => simp at hl
  | cons x xs ih =>
    cases b with
    | nil => simp at hl
    | cons y ys =>
      have hl2 : xs.length = ys.length := by simpa using hl
      rw [os2ip_cons, os2ip_cons, hl2] at h
      have h1 := os2ip_lt xs
      have h2 := os2ip_lt ys
      rw [hl2] at h1
      have hpos : 0 < 256 ^ ys.length := Nat.pow_pos (by decide)
      have hxy : x.toNat = y.toNat := by
        rcases Nat.lt_trichotomy x.toNat y.toNat with hlt | heq | hgt
        · exfalso
          have : (x.toNat + 1) * 256 ^ ys.length ≤ y.toNat * 256 ^ ys.length := Nat.mul_le_mul_right _ hlt
          rw [Nat.add_mul, Nat.one_mul] at this
          omega
        · exact heq
        · exfalso
          have : (y.toNat + 1) * 256 ^ ys.length ≤ x.toNat * 256 ^ ys.length := Nat.mul_le_mul_right _ hgt
          rw [Nat.add_mul, Nat.one_mul] at this
          omega
      have hv : os2ip xs = os2ip ys := by rw [hxy] at h; omega
      rw [BitVec.eq_of_toNat_eq hxy, ih ys hl2 hv]

/-! ## C. keXHat (C13) -/

theorem clearTopBitAt_append (hi : Bytes) (c : Byte) (t : Bytes) :
    clearTopBitAt hi.length (hi ++ c :: t) = hi ++ (c &&& 0x7f) :: t := by
  induction hi with
  | nil => rfl
  | cons h hs ih => simp only [List.length_cons, List.cons_append, clearTopBitAt, ih]

theorem and7f_toNat (c : Byte) : (c &&& 0x7f).toNat = c.toNat % 128 := by
  rw [BitVec.toNat_and]
  exact Nat.and_two_pow_sub_one_eq_mod c.toNat 7

theorem os2ip_twoW : os2ip twoW = 2 ^ 127 := by decide

theorem mod_split (A H C L : Nat) (hL : L < A) :
    (H * (A * 256) + (C * A + L)) % (128 * A) = C % 128 * A + L := by
  have hC : C = 128 * (C / 128) + C % 128 := (Nat.div_add_mod C 128).symm
  have hr : C % 128 < 128 := Nat.mod_lt _ (by decide)
  have e : H * (A * 256) + (C * A + L) = (C % 128 * A + L) + (128 * A) * (2 * H + C / 128) := by
    conv_lhs => rw [hC]
    ring
  have hb : C % 128 * A + L < 128 * A := by nlinarith
  rw [e, Nat.add_mul_mod_self_left, Nat.mod_eq_of_lt hb]

/-- C13 `keXHat_eq`: for EVERY x ≥ 0 the Go `keXHat` — `x.Bytes()`, all but the last 16 bytes zeroed, the top
    bit of byte len−16 cleared (only when there are at least 16 bytes), plus 2^127 — is the standard's
    x̄ = 2^127 + (x mod 2^127) (`Spec.SM2.xbar`, w = 127); in particular for x shorter than 16 bytes. -/
theorem keXHat_eq (x : Nat) : keXHat x = Spec.SM2.xbar x := by
  unfold keXHat Spec.SM2.xbar
  rw [os2ip_twoW, Nat.add_comm]
  congr 1
  have hx := os2ip_natBytes x
  generalize natBytes x = buf at hx
  by_cases hn : buf.length ≥ 16
  · simp only [hn, if_true]
    unfold zeroLeading
    have hsplit : buf = buf.take (buf.length - 16) ++ buf.drop (buf.length - 16) := (List.take_append_drop _ _).symm
    have hlo : (buf.drop (buf.length - 16)).length = 16 := by rw [List.length_drop]; omega
    generalize buf.drop (buf.length - 16) = lo at hsplit hlo
    have hhi : (buf.take (buf.length - 16)).length = buf.length - 16 := by rw [List.length_take]; omega
    generalize buf.take (buf.length - 16) = hi at hsplit hhi
    cases lo with
    | nil => simp at hlo
    | cons c t =>
      have ht : t.length = 15 := by simpa using hlo
      have hr := clearTopBitAt_append (List.replicate (buf.length - 16) (0 : Byte)) c t
      rw [List.length_replicate] at hr
      rw [hr, os2ip_zeros_append, os2ip_cons, and7f_toNat, ht]
      rw [hsplit, os2ip_append, os2ip_cons, List.length_cons, ht] at hx
      have hL := os2ip_lt t
      rw [ht] at hL
      have hc := c.isLt
      generalize os2ip hi = H at hx
      generalize os2ip t = L at hx hL ⊢
      rw [← hx, Nat.pow_succ, show (2 : Nat) ^ 127 = 128 * 256 ^ 15 by decide]
      exact (mod_split _ _ _ _ hL).symm
  · simp only [hn, if_false]
    unfold zeroLeading
    have h0 : buf.length - 16 = 0 := by omega
    rw [h0]
    simp only [List.replicate_zero, List.nil_append, List.drop_zero]
    have hL := os2ip_lt buf
    have : 256 ^ buf.length ≤ 256 ^ 15 := Nat.pow_le_pow_right (by decide) (by omega)
    rw [hx] at hL ⊢
    exact (Nat.mod_eq_of_lt (Nat.lt_of_lt_of_le hL (Nat.le_trans this (by decide)))).symm

/-! ## B. CipherMarshal / CipherUnmarshal -/

theorem parseLenLoop_spec (bs rest : Bytes) (acc : Nat)
    (h0 : acc ≠ 0 ∨ bs = [] ∨ ∃ b t, bs = b :: t ∧ b.toNat ≠ 0)
    (hlt : acc * 256 ^ bs.length + os2ip bs < 2 ^ 31) :
    parseLenLoop bs.length (bs ++ rest) acc = some (acc * 256 ^ bs.length + os2ip bs, rest) := by
  induction bs generalizing acc with
  | nil => simp [parseLenLoop, os2ip_nil]
  | cons b t ih =>
    rw [List.length_cons, List.cons_append]
    unfold parseLenLoop
    have h1 : acc * 256 ≤ acc * 256 ^ (t.length + 1) := by
      apply Nat.mul_le_mul_left
      calc 256 = 256 ^ 1 := by decide
        _ ≤ 256 ^ (t.length + 1) := Nat.pow_le_pow_right (by decide) (by omega)
    rw [List.length_cons] at hlt
    have h2 : ¬ acc ≥ 2 ^ 23 := by omega
    rw [if_neg h2]
    have h3 : ¬ (acc * 256 + b.toNat = 0) := by
      rcases h0 with h | h | ⟨b', t', h, hb⟩
      · omega
      · cases h
      · cases h; omega
    simp only [h3, if_false]
    have e : (acc * 256 + b.toNat) * 256 ^ t.length + os2ip t = acc * 256 ^ (t.length + 1) + os2ip (b :: t) := by
      rw [os2ip_cons, Nat.pow_succ]; ring
    rw [ih (acc * 256 + b.toNat) (Or.inl h3) (by rw [e]; exact hlt), e]

/-- the length octets `Marshal` writes are read back by `parseTagAndLength` as the same number, for every
    length below 2^31 (both forms, 127/128 boundary included) -/
theorem parseLength_marshalLength (n : Nat) (h : n < 2 ^ 31) (rest : Bytes) :
    parseLength (marshalLength n ++ rest) = some (n, rest) := by
  unfold marshalLength
  by_cases h0 : n ≥ 128
  · rw [if_pos h0, List.cons_append]
    have hlen : (natBytes n).length ≤ 4 := natBytes_length_le n 4 (by
      have : (256 : Nat) ^ 4 = 2 ^ 32 := by decide
      omega)
    obtain ⟨b, t, hb, hb0⟩ := natBytes_head n (by omega)
    have hpos : 0 < (natBytes n).length := by rw [hb]; simp
    have ht : (BitVec.ofNat 8 (0x80 + (natBytes n).length)).toNat = 128 + (natBytes n).length := by
      simp only [BitVec.toNat_ofNat]; omega
    unfold parseLength
    simp only [ht]
    rw [if_neg (by omega)]
    have e : 128 + (natBytes n).length - 128 = (natBytes n).length := by omega
    simp only [e]
    rw [if_neg (by omega)]
    have hv := os2ip_natBytes n
    rw [parseLenLoop_spec (natBytes n) rest 0 (Or.inr (Or.inr ⟨b, t, hb, hb0⟩)) (by rw [hv]; omega)]
    simp only [Nat.zero_mul, Nat.zero_add, hv]
    rw [if_neg (by omega)]
  · rw [if_neg h0, List.singleton_append]
    have ht : (BitVec.ofNat 8 n).toNat = n := by simp only [BitVec.toNat_ofNat]; omega
    unfold parseLength
    simp only [ht]
    rw [if_pos (by omega)]

theorem parseField_marshalTLV (tag : Byte) (c rest : Bytes) (h : c.length < 2 ^ 31) :
    parseField tag (marshalTLV tag c ++ rest) = some (c, rest) := by
  unfold marshalTLV parseField
  simp only [List.cons_append, List.append_assoc]
  rw [parseLength_marshalLength _ h]
  simp


theorem parseBigInt_one (x : Byte) :
    parseBigInt [x] = some (if x.toNat ≥ 128 then -((os2ip [~~~x] : Nat) + 1 : Int) else (x.toNat : Int)) := rfl

theorem parseBigInt_two (x y : Byte) (rest : Bytes) :
    parseBigInt (x :: y :: rest) =
      if (x.toNat = 0 ∧ y.toNat < 128) ∨ (x.toNat = 255 ∧ y.toNat ≥ 128) then none
      else if x.toNat ≥ 128 then some (-((os2ip ((x :: y :: rest).map (~~~ ·)) : Nat) + 1 : Int))
      else some ((os2ip (x :: y :: rest) : Nat) : Int) := rfl

theorem parseBigInt_marshalBigInt (v : Nat) : parseBigInt (marshalBigInt v) = some (v : Int) := by
  unfold marshalBigInt
  by_cases hv : v = 0
  · subst hv; simp [natBytes_zero, parseBigInt]
  · obtain ⟨b, rest, hb, hb0⟩ := natBytes_head v hv
    have hval := os2ip_natBytes v
    rw [hb] at hval ⊢
    simp only
    have h0 : (0 : Byte).toNat = 0 := rfl
    by_cases hhi : b.toNat ≥ 128
    · rw [if_pos hhi]
      rw [parseBigInt_two, if_neg (by rw [h0]; omega), if_neg (by rw [h0]; omega), os2ip_cons, h0, hval]
      simp
    · rw [if_neg hhi]
      cases rest with
      | nil =>
        rw [parseBigInt_one, if_neg hhi]
        rw [os2ip_cons, os2ip_nil] at hval
        simp only [List.length_nil, Nat.pow_zero, Nat.mul_one, Nat.add_zero] at hval
        rw [hval]
      | cons y rest =>
        rw [parseBigInt_two, if_neg (by omega), if_neg hhi, hval]

theorem marshalBigInt_length (v : Nat) (h : v < 256 ^ 32) :
    0 < (marshalBigInt v).length ∧ (marshalBigInt v).length ≤ 33 := by
  unfold marshalBigInt
  have := natBytes_length_le v 32 h
  cases hnb : natBytes v with
  | nil => simp
  | cons hd tl =>
    rw [hnb] at this
    simp only
    split <;> simp at this ⊢ <;> omega

theorem marshalLength_length (n : Nat) (h : n < 2 ^ 31) : (marshalLength n).length ≤ 5 := by
  unfold marshalLength
  have hlen : (natBytes n).length ≤ 4 := natBytes_length_le n 4 (by
    have : (256 : Nat) ^ 4 = 2 ^ 32 := by decide
    omega)
  split
  · simp; omega
  · simp

theorem marshalLength_length_short (n : Nat) (h : n < 128) : (marshalLength n).length = 1 := by
  unfold marshalLength; rw [if_neg (by omega)]; rfl

theorem leftPad32_length (b : Bytes) (h : b.length ≤ 32) : (leftPad32 b).length = 32 := by
  unfold leftPad32
  split
  · simp; omega
  · omega

theorem os2ip_leftPad32 (b : Bytes) : os2ip (leftPad32 b) = os2ip b := by
  unfold leftPad32
  split
  · exact os2ip_zeros_append _ _
  · rfl

/-- `x.Bytes()` left-padded to 32 bytes is the original 32-byte string (leading zero bytes included) -/
theorem leftPad32_natBytes_os2ip (X : Bytes) (h : X.length = 32) : leftPad32 (natBytes (os2ip X)) = X := by
  have hl : (natBytes (os2ip X)).length ≤ 32 := natBytes_length_le _ 32 (by have := os2ip_lt X; rwa [h] at this)
  apply os2ip_inj
  · rw [leftPad32_length _ hl, h]
  · rw [os2ip_leftPad32, os2ip_natBytes]

/-- the same for a number: the fixed-width encoding `b32` -/
theorem leftPad32_natBytes (v : Nat) (h : v < 256 ^ 32) : leftPad32 (natBytes v) = Spec.SM2.b32 v := by
  have hl : (natBytes v).length ≤ 32 := natBytes_length_le _ 32 h
  apply os2ip_inj
  · rw [leftPad32_length _ hl]; exact (i2ospR_length 32 v).symm
  · rw [os2ip_leftPad32, os2ip_natBytes]; exact (os2ip_i2ospR_of_lt 32 v h).symm

-- the model's encoders are the specification's -----------------------------------------------------------

theorem marshalLength_eq_spec (n : Nat) : marshalLength n = Spec.DER.encLen n := by
  unfold marshalLength Spec.DER.encLen
  by_cases h : n < 128
  · rw [if_neg (by omega), if_pos h]
  · rw [if_pos (by omega), if_neg h]

theorem marshalTLV_eq_spec (tag : Byte) (c : Bytes) : marshalTLV tag c = Spec.DER.tlv tag c := by
  unfold marshalTLV Spec.DER.tlv; rw [marshalLength_eq_spec]

theorem marshalBigInt_eq_spec (v : Nat) : marshalBigInt v = Spec.DER.intContent v := by
  unfold marshalBigInt Spec.DER.intContent
  cases natBytes v <;> rfl

/-- `cipherMarshal_eq_spec`: on every input of at least 97 bytes `CipherMarshal` produces exactly
    `Spec.DER.encCipher` of the components the specification's `parseCt` extracts -/
theorem cipherMarshal_eq_spec (raw : Bytes) (h : 97 ≤ raw.length) :
    cipherMarshal raw =
      some (Spec.DER.encCipher (os2ip ((raw.drop 1).take 32)) (os2ip (((raw.drop 1).drop 32).take 32))
        (((raw.drop 1).drop 64).take 32) ((raw.drop 1).drop 96)) := by
  unfold cipherMarshal
  rw [if_neg (by omega)]
  simp only [Spec.DER.encCipher, Spec.DER.encSeq, Spec.DER.encInt, Spec.DER.encOctets, marshalTLV_eq_spec,
    marshalBigInt_eq_spec, List.flatten_cons, List.flatten_nil, List.append_nil, List.append_assoc]

theorem cipherMarshal_short (raw : Bytes) (h : raw.length < 97) : cipherMarshal raw = none := by
  unfold cipherMarshal; rw [if_pos (by omega)]


theorem marshalTLV_length (tag : Byte) (c : Bytes) :
    (marshalTLV tag c).length = 1 + (marshalLength c.length).length + c.length := by
  unfold marshalTLV; simp; omega

/-- the components of a raw ciphertext 04 ‖ X ‖ Y ‖ H ‖ C -/
theorem raw_split (raw : Bytes) (h : 97 ≤ raw.length) (h4 : raw.head? = some 0x04) :
    raw = 0x04 :: ((raw.drop 1).take 32 ++ (((raw.drop 1).drop 32).take 32 ++
      ((((raw.drop 1).drop 64).take 32) ++ (raw.drop 1).drop 96))) := by
  cases raw with
  | nil => simp at h4
  | cons b d =>
    simp only [List.head?_cons, Option.some.injEq] at h4
    subst h4
    simp only [List.drop_succ_cons, List.drop_zero]
    congr 1
    have e1 : d.drop 64 = (d.drop 32).drop 32 := by rw [List.drop_drop]
    have e2 : d.drop 96 = ((d.drop 32).drop 32).drop 32 := by rw [List.drop_drop, List.drop_drop]
    rw [e2, e1, List.take_append_drop, List.take_append_drop, List.take_append_drop]

/-- the round trip on 04 ‖ X ‖ Y ‖ H ‖ C with 32-byte X, Y, H, whenever the contents of the outer SEQUENCE
    are shorter than 2^31 bytes (what `parseTagAndLength` accepts); bytes after the SEQUENCE are ignored -/
theorem cipherUnmarshal_marshal_parts (X Y H C junk : Bytes) (hX : X.length = 32) (hY : Y.length = 32) (hH : H.length = 32)
    (hbody : (marshalTLV 0x02 (marshalBigInt (os2ip X)) ++ marshalTLV 0x02 (marshalBigInt (os2ip Y)) ++
      marshalTLV 0x04 H ++ marshalTLV 0x04 C).length < 2 ^ 31) :
    cipherUnmarshal (marshalTLV 0x30 (marshalTLV 0x02 (marshalBigInt (os2ip X)) ++ marshalTLV 0x02 (marshalBigInt (os2ip Y)) ++
      marshalTLV 0x04 H ++ marshalTLV 0x04 C) ++ junk) = some (0x04 :: (X ++ (Y ++ (H ++ C)))) := by
  have bx := marshalBigInt_length (os2ip X) (by have := os2ip_lt X; rwa [hX] at this)
  have by_ := marshalBigInt_length (os2ip Y) (by have := os2ip_lt Y; rwa [hY] at this)
  have hC : C.length < 2 ^ 31 := by
    simp only [List.length_append, marshalTLV_length] at hbody
    omega
  unfold cipherUnmarshal
  rw [parseField_marshalTLV 0x30 _ junk hbody]
  simp only [List.append_assoc]
  rw [parseField_marshalTLV 0x02 _ _ (by omega)]
  simp only [parseBigInt_marshalBigInt]
  rw [parseField_marshalTLV 0x02 _ _ (by omega)]
  simp only [parseBigInt_marshalBigInt]
  rw [parseField_marshalTLV 0x04 _ _ (by omega)]
  simp only
  have h2 := parseField_marshalTLV 0x04 C [] hC
  rw [List.append_nil] at h2
  rw [h2]
  simp only [Int.natAbs_natCast]
  have lx : (natBytes (os2ip X)).length ≤ 32 := natBytes_length_le _ 32 (by have := os2ip_lt X; rwa [hX] at this)
  have ly : (natBytes (os2ip Y)).length ≤ 32 := natBytes_length_le _ 32 (by have := os2ip_lt Y; rwa [hY] at this)
  have hcond : ¬ (((os2ip X : Nat) : Int) < 0 ∨ ((os2ip Y : Nat) : Int) < 0 ∨ (natBytes (os2ip X)).length > 32 ∨
      (natBytes (os2ip Y)).length > 32 ∨ H.length ≠ 32) := by omega
  rw [if_neg hcond]
  rw [leftPad32_natBytes_os2ip X hX, leftPad32_natBytes_os2ip Y hY]

theorem cipherMarshal_parts (X Y H C : Bytes) (hX : X.length = 32) (hY : Y.length = 32) (hH : H.length = 32) :
    cipherMarshal (0x04 :: (X ++ (Y ++ (H ++ C)))) =
      some (marshalTLV 0x30 (marshalTLV 0x02 (marshalBigInt (os2ip X)) ++ marshalTLV 0x02 (marshalBigInt (os2ip Y)) ++
        marshalTLV 0x04 H ++ marshalTLV 0x04 C)) := by
  have hlen : ¬ (0x04 :: (X ++ (Y ++ (H ++ C))) : Bytes).length < 1 + 32 + 32 + 32 := by
    simp; omega
  unfold cipherMarshal
  rw [if_neg hlen]
  simp only [List.drop_succ_cons, List.drop_zero]
  have t1 : (X ++ (Y ++ (H ++ C))).take 32 = X := List.take_left' hX
  have d1 : (X ++ (Y ++ (H ++ C))).drop 32 = Y ++ (H ++ C) := List.drop_left' hX
  have d2 : (X ++ (Y ++ (H ++ C))).drop 64 = H ++ C := by
    rw [show 64 = 32 + 32 from rfl, ← List.drop_drop, d1, List.drop_left' hY]
  have d3 : (X ++ (Y ++ (H ++ C))).drop 96 = C := by
    rw [show 96 = 64 + 32 from rfl, ← List.drop_drop, d2, List.drop_left' hH]
  rw [t1, d1, d2, d3, List.take_left' hY, List.take_left' hH]

/-- the SEQUENCE contents are at most 13 bytes longer than the raw ciphertext -/
theorem body_length_le (X Y H C : Bytes) (hX : X.length = 32) (hY : Y.length = 32) (hH : H.length = 32)
    (hC : C.length + 110 < 2 ^ 31) :
    (marshalTLV 0x02 (marshalBigInt (os2ip X)) ++ marshalTLV 0x02 (marshalBigInt (os2ip Y)) ++
      marshalTLV 0x04 H ++ marshalTLV 0x04 C).length ≤ C.length + 110 := by
  have bx := marshalBigInt_length (os2ip X) (by have := os2ip_lt X; rwa [hX] at this)
  have by_ := marshalBigInt_length (os2ip Y) (by have := os2ip_lt Y; rwa [hY] at this)
  have lx := marshalLength_length_short (marshalBigInt (os2ip X)).length (by omega)
  have ly := marshalLength_length_short (marshalBigInt (os2ip Y)).length (by omega)
  have lh := marshalLength_length_short H.length (by omega)
  have lc := marshalLength_length C.length (by omega)
  simp only [List.length_append, marshalTLV_length]
  omega

/-- B `cipher_asn1_roundtrip_der` (the sharpest form): whenever `CipherMarshal(raw)` (raw starting with 04)
    returns `der` with fewer than 2^31 bytes (the largest element `encoding/asn1` parses),
    `CipherUnmarshal(der ‖ junk)` returns `raw` — for every `junk`: bytes after the SEQUENCE are ignored. -/
theorem cipher_asn1_roundtrip_der (raw der junk : Bytes) (h4 : raw.head? = some 0x04)
    (hm : cipherMarshal raw = some der) (hl : der.length < 2 ^ 31) : cipherUnmarshal (der ++ junk) = some raw := by
  have h : 97 ≤ raw.length := by
    apply Nat.le_of_not_lt; intro hc; rw [cipherMarshal_short raw hc] at hm; cases hm
  have hs := raw_split raw h h4
  have hX : ((raw.drop 1).take 32).length = 32 := by simp; omega
  have hY : (((raw.drop 1).drop 32).take 32).length = 32 := by simp; omega
  have hH : (((raw.drop 1).drop 64).take 32).length = 32 := by simp; omega
  have hm2 := cipherMarshal_parts _ _ _ ((raw.drop 1).drop 96) hX hY hH
  rw [← hs, hm] at hm2
  have hder := Option.some.inj hm2
  have hbody : (marshalTLV 0x02 (marshalBigInt (os2ip ((raw.drop 1).take 32))) ++
      marshalTLV 0x02 (marshalBigInt (os2ip (((raw.drop 1).drop 32).take 32))) ++
      marshalTLV 0x04 (((raw.drop 1).drop 64).take 32) ++ marshalTLV 0x04 ((raw.drop 1).drop 96)).length < 2 ^ 31 := by
    rw [hder, marshalTLV_length] at hl
    omega
  have := cipherUnmarshal_marshal_parts _ _ _ _ junk hX hY hH hbody
  rw [← hs, ← hder] at this
  exact this

/-- the DER form is at most 19 bytes longer than the raw ciphertext -/
theorem cipherMarshal_length (raw der : Bytes) (h4 : raw.head? = some 0x04) (hm : cipherMarshal raw = some der)
    (hl : raw.length + 19 < 2 ^ 31) : der.length ≤ raw.length + 19 := by
  have h : 97 ≤ raw.length := by
    apply Nat.le_of_not_lt; intro hc; rw [cipherMarshal_short raw hc] at hm; cases hm
  have hs := raw_split raw h h4
  have hX : ((raw.drop 1).take 32).length = 32 := by simp; omega
  have hY : (((raw.drop 1).drop 32).take 32).length = 32 := by simp; omega
  have hH : (((raw.drop 1).drop 64).take 32).length = 32 := by simp; omega
  have hCl : ((raw.drop 1).drop 96).length = raw.length - 97 := by simp
  have hm2 := cipherMarshal_parts _ _ _ ((raw.drop 1).drop 96) hX hY hH
  rw [← hs, hm] at hm2
  have hb := body_length_le _ _ _ ((raw.drop 1).drop 96) hX hY hH (by omega)
  have ll := marshalLength_length _ (Nat.lt_of_le_of_lt hb (by omega))
  rw [Option.some.inj hm2, marshalTLV_length]
  omega

/-- B `cipher_asn1_roundtrip`: for EVERY raw ciphertext `raw` = 04 ‖ x(32) ‖ y(32) ‖ C3(32) ‖ C2 (at least 97
    bytes, first byte 04; no condition on the coordinates: leading zero bytes and a set top bit are
    covered) of fewer than 2^31 − 19 bytes, `CipherUnmarshal(CipherMarshal(raw))` succeeds and returns
    `raw`. -/
theorem cipher_asn1_roundtrip (raw : Bytes) (h : 97 ≤ raw.length) (h4 : raw.head? = some 0x04)
    (hl : raw.length + 19 < 2 ^ 31) :
    (cipherMarshal raw).bind cipherUnmarshal = some raw := by
  cases hm : cipherMarshal raw with
  | none => rw [cipherMarshal_eq_spec raw h] at hm; cases hm
  | some der =>
    have hd := cipherMarshal_length raw der h4 hm hl
    have := cipher_asn1_roundtrip_der raw der [] h4 hm (by omega)
    rw [List.append_nil] at this
    rw [Option.bind_some, this]

/-- B, in the shape the encryption specification produces (`Spec.SM2.encryptWith … .c1c3c2`): for every
    point coordinates x, y < 2^256 (in particular x < 2^248: leading zero bytes; x ≥ 2^255: a 00 is
    prepended in DER), 32-byte C3 and C2 of fewer than 2^31 − 116 bytes, the ASN.1 form is
    `Spec.DER.encCipher x y C3 C2` and reading it back gives the raw ciphertext again. -/
theorem cipher_asn1_roundtrip_xy (x y : Nat) (c3 c2 : Bytes) (hx : x < 256 ^ 32) (hy : y < 256 ^ 32)
    (h3 : c3.length = 32) (h2 : c2.length + 116 < 2 ^ 31) :
    cipherMarshal (0x04 :: (Spec.SM2.b32 x ++ Spec.SM2.b32 y ++ c3 ++ c2)) = some (Spec.DER.encCipher x y c3 c2) ∧
    cipherUnmarshal (Spec.DER.encCipher x y c3 c2) = some (0x04 :: (Spec.SM2.b32 x ++ Spec.SM2.b32 y ++ c3 ++ c2)) := by
  have lX : (Spec.SM2.b32 x).length = 32 := i2ospR_length 32 x
  have lY : (Spec.SM2.b32 y).length = 32 := i2ospR_length 32 y
  have hm : cipherMarshal (0x04 :: (Spec.SM2.b32 x ++ Spec.SM2.b32 y ++ c3 ++ c2)) = some (Spec.DER.encCipher x y c3 c2) := by
    rw [cipherMarshal_eq_spec _ (by simp [lX, lY, h3]; omega)]
    simp only [List.drop_succ_cons, List.drop_zero, List.append_assoc]
    have d1 : (Spec.SM2.b32 x ++ (Spec.SM2.b32 y ++ (c3 ++ c2))).drop 32 = Spec.SM2.b32 y ++ (c3 ++ c2) := List.drop_left' lX
    have d2 : (Spec.SM2.b32 x ++ (Spec.SM2.b32 y ++ (c3 ++ c2))).drop 64 = c3 ++ c2 := by
      rw [show 64 = 32 + 32 from rfl, ← List.drop_drop, d1, List.drop_left' lY]
    have d3 : (Spec.SM2.b32 x ++ (Spec.SM2.b32 y ++ (c3 ++ c2))).drop 96 = c2 := by
      rw [show 96 = 64 + 32 from rfl, ← List.drop_drop, d2, List.drop_left' h3]
    rw [List.take_left' lX, d1, d2, d3, List.take_left' lY, List.take_left' h3]
    unfold Spec.SM2.b32
    rw [os2ip_i2ospR_of_lt 32 x hx, os2ip_i2ospR_of_lt 32 y hy]
  refine ⟨hm, ?_⟩
  have := cipher_asn1_roundtrip (0x04 :: (Spec.SM2.b32 x ++ Spec.SM2.b32 y ++ c3 ++ c2)) (by simp [lX, lY, h3]; omega) rfl
    (by simp [lX, lY, h3]; omega)
  rw [hm] at this
  exact this

/-- non-vacuity: x with three leading zero bytes, y with the top bit set, a C2 long enough for the long
    length form (200 bytes) -/
example : (cipherMarshal (0x04 :: (Spec.SM2.b32 0x1234 ++ Spec.SM2.b32 (2 ^ 255 + 1) ++ List.replicate 32 0xaa ++ List.replicate 200 0xbb))).bind
    cipherUnmarshal = some (0x04 :: (Spec.SM2.b32 0x1234 ++ Spec.SM2.b32 (2 ^ 255 + 1) ++ List.replicate 32 0xaa ++ List.replicate 200 0xbb)) := by
  decide +kernel


set_option exponentiation.threshold 700
open Spec.SM2 (p a b onCurve powMod)
open Proofs.SM2Affine (F p_pos p_gt2 p_lt cast_inj powMod_cast powMod_lt)

/-! ## A. Compress / Decompress -/


theorem p_odd : p % 2 = 1 := by decide
theorem exp_half : (p - 1) / 2 * 2 = p - 1 := by decide
theorem exp_quarter : (p + 1) / 4 * 2 = (p - 1) / 2 + 1 := by decide
theorem exp_half_lt : (p - 1) / 2 < 2 ^ 600 := Nat.lt_of_le_of_lt (Nat.div_le_self _ _) (Nat.lt_of_le_of_lt (Nat.sub_le _ _) p_lt)
theorem exp_quarter_lt : (p + 1) / 4 < 2 ^ 600 := by
  have := p_lt
  have h : (p + 1) / 4 ≤ p := by have := p_gt2; omega
  omega

theorem rhs_lt (x : Nat) : rhs x < p := Nat.mod_lt _ p_pos

theorem rhs_cast (x : Nat) : ((rhs x : Nat) : F) = (x : F) ^ 3 + (a : F) * (x : F) + (b : F) := by
  unfold rhs
  simp only [ZMod.natCast_mod, Nat.cast_add, Nat.cast_mul]
  ring

theorem natCast_eq_iff_of_lt {u v : Nat} (hu : u < p) (hv : v < p) : ((u : F) = (v : F)) ↔ u = v :=
  ⟨cast_inj hu hv, fun h => by rw [h]⟩

/-- the spec's curve test in terms of `rhs` -/
theorem onCurve_iff_rhs (x y : Nat) : onCurve x y = true ↔ ((y : F) ^ 2 = ((rhs x : Nat) : F)) := by
  unfold onCurve
  rw [beq_iff_eq, ← ZMod.natCast_eq_natCast_iff', rhs_cast]
  push_cast
  constructor <;> intro h <;> linear_combination h

theorem natCast_eq_zero_of_lt {u : Nat} (hu : u < p) (h : ((u : F) = 0)) : u = 0 := by
  have : ((u : F) = ((0 : Nat) : F)) := by simpa using h
  exact cast_inj hu p_pos this

/-- `modSqrt` is sound: what it returns is a reduced square root -/
theorem modSqrt_sound (v y : Nat) (hv : v < p) (h : modSqrt v = some y) : y < p ∧ ((y : F) ^ 2 = (v : F)) := by
  unfold modSqrt at h
  by_cases h0 : v % p = 0
  · rw [if_pos h0] at h
    have : y = 0 := (Option.some.inj h).symm
    subst this
    rw [Nat.mod_eq_of_lt hv] at h0
    subst h0
    exact ⟨p_pos, by simp⟩
  · rw [if_neg h0] at h
    by_cases h1 : powMod v ((p - 1) / 2) p ≠ 1
    · rw [if_pos h1] at h; cases h
    · rw [if_neg h1] at h
      have hy : powMod v ((p + 1) / 4) p = y := Option.some.inj h
      have hj : powMod v ((p - 1) / 2) p = 1 := Classical.not_not.mp h1
      have c1 := powMod_cast v ((p - 1) / 2) p exp_half_lt
      rw [hj, Nat.cast_one] at c1
      have c2 := powMod_cast v ((p + 1) / 4) p exp_quarter_lt
      rw [hy] at c2
      refine ⟨by rw [← hy]; exact powMod_lt _ _ _ (by have := p_gt2; omega), ?_⟩
      rw [c2, ← pow_mul, exp_quarter, pow_succ, ← c1, one_mul]

/-- `modSqrt` is complete: it fails only when there is no square root -/
theorem modSqrt_none (v : Nat) (hv : v < p) (h : modSqrt v = none) (y : Nat) : (y : F) ^ 2 ≠ (v : F) := by
  intro hy
  unfold modSqrt at h
  by_cases h0 : v % p = 0
  · rw [if_pos h0] at h; cases h
  · rw [if_neg h0] at h
    by_cases h1 : powMod v ((p - 1) / 2) p ≠ 1
    · apply h1
      have hv0 : (v : F) ≠ 0 := by
        intro hc
        have := natCast_eq_zero_of_lt hv hc
        apply h0; rw [this]; rfl
      have hy0 : (y : F) ≠ 0 := by
        intro hc; apply hv0; rw [← hy, hc]; simp
      have hf := ZMod.pow_card_sub_one_eq_one hy0
      have c1 := powMod_cast v ((p - 1) / 2) p exp_half_lt
      rw [← hy, ← pow_mul, Nat.mul_comm, exp_half, hf] at c1
      have : ((powMod v ((p - 1) / 2) p : Nat) : F) = ((1 : Nat) : F) := by rw [c1, Nat.cast_one]
      exact cast_inj (powMod_lt _ _ _ (by have := p_gt2; omega)) (by have := p_gt2; omega) this
    · rw [if_neg h1] at h; cases h

/-- square roots modulo p are unique up to sign: reduced y0, y with the same square are equal or add up to p -/
theorem sqrt_unique (y0 y : Nat) (h0 : y0 < p) (hy : y < p) (h : (y0 : F) ^ 2 = (y : F) ^ 2) :
    y0 = y ∨ y0 + y = p := by
  have hm : ((y0 : F) - (y : F)) * ((y0 : F) + (y : F)) = 0 := by linear_combination h
  rcases mul_eq_zero.mp hm with h1 | h1
  · left; exact cast_inj h0 hy (sub_eq_zero.mp h1)
  · have h2 : ((y0 + y : Nat) : F) = 0 := by push_cast; exact h1
    rw [ZMod.natCast_eq_zero_iff] at h2
    obtain ⟨k, hk⟩ := h2
    have hk2 : k < 2 := by
      apply Nat.lt_of_not_le; intro hc
      have : p * 2 ≤ p * k := Nat.mul_le_mul_left _ hc
      omega
    have : k = 0 ∨ k = 1 := by omega
    rcases this with rfl | rfl
    · left; omega
    · right; omega



/-! ### The curve has no point with y = 0 (x³ + a·x + b has no root modulo p)

Certificate: t^p mod (t³ + a·t + b) is computed by square-and-multiply on coefficient triples
(`decide +kernel`); a root r would satisfy r = r^p = T(r) (Fermat), i.e. a quadratic equation besides the
cubic one; eliminating r from the two leaves a constant that is non-zero modulo p. -/

abbrev Tri := Nat × Nat × Nat

/-- product of c0 + c1·t + c2·t² polynomials modulo t³ + a·t + b and modulo p (t³ = (p−a)t + (p−b)) -/
def cmul (u v : Tri) : Tri :=
  let d0 := u.1 * v.1
  let d1 := u.1 * v.2.1 + u.2.1 * v.1
  let d2 := u.1 * v.2.2 + u.2.1 * v.2.1 + u.2.2 * v.1
  let d3 := (u.2.1 * v.2.2 + u.2.2 * v.2.1) % p
  let d4 := (u.2.2 * v.2.2) % p
  ((d0 + (p - b) * d3) % p, (d1 + (p - b) * d4 + (p - a) * d3) % p, (d2 + (p - a) * d4) % p)

def cpowAux : Nat → Tri → Nat → Tri → Tri
  | 0, _, _, acc => acc
  | fuel+1, base, e, acc =>
    if e = 0 then acc
    else cpowAux fuel (cmul base base) (e / 2) (if e % 2 = 1 then cmul acc base else acc)

def ev (r : F) (u : Tri) : F := (u.1 : F) + (u.2.1 : F) * r + (u.2.2 : F) * r ^ 2

theorem cast_p_sub_a : (((p - a : Nat)) : F) = -(a : F) := by
  rw [Nat.cast_sub (by decide), ZMod.natCast_self, zero_sub]
theorem cast_p_sub_b : (((p - b : Nat)) : F) = -(b : F) := by
  rw [Nat.cast_sub (by decide), ZMod.natCast_self, zero_sub]

theorem ev_cmul (r : F) (hr : r ^ 3 + (a : F) * r + (b : F) = 0) (u v : Tri) :
    ev r (cmul u v) = ev r u * ev r v := by
  obtain ⟨u0, u1, u2⟩ := u
  obtain ⟨v0, v1, v2⟩ := v
  simp only [ev, cmul, ZMod.natCast_mod, Nat.cast_add, Nat.cast_mul, cast_p_sub_a, cast_p_sub_b]
  linear_combination (-((u1 : F) * v2 + u2 * v1 + (u2 : F) * v2 * r)) * hr

theorem ev_cpowAux (r : F) (hr : r ^ 3 + (a : F) * r + (b : F) = 0) (fuel : Nat) (base : Tri) (e : Nat) (acc : Tri)
    (he : e < 2 ^ fuel) : ev r (cpowAux fuel base e acc) = ev r acc * ev r base ^ e := by
  induction fuel generalizing base e acc with
  | zero =>
    have : e = 0 := by simpa using he
    subst this; simp [cpowAux]
  | succ f ih =>
    unfold cpowAux
    split
    · next h0 => subst h0; simp
    · next h0 =>
      rw [ih _ _ _ (by rw [Nat.pow_succ] at he; omega), ev_cmul r hr]
      split
      · next h1 =>
        have hE : e = 2 * (e / 2) + 1 := by omega
        conv_rhs => rw [hE]
        rw [ev_cmul r hr, pow_succ, pow_mul]; ring
      · next h1 =>
        have hE : e = 2 * (e / 2) := by omega
        conv_rhs => rw [hE]
        rw [pow_mul]; ring

/-- t^p mod (t³ + a·t + b, p) -/
def tPowP : Tri :=
  (0x359865aceb51b6bdbb593b2ef47adcfc3f45e863340cf767d4064d47e8c104f3,
   0x1a5d31e005823ce76ebd68c618616c3b124e72376ab0f34ef26c933456e8cc28,
   0x6533cd290a5724a12253626885c29181e05d0bcde5f9844c95fcd95c0b9f7d86)

theorem tPowP_eq : cpowAux 256 (0, 1, 0) p (1, 0, 0) = tPowP := by decide +kernel

/-- elimination: a common root of the cubic and of c2·r² + c1·r + c0 forces this constant to vanish -/
theorem resultant_zero {K : Type} [Field K] (r α β c0 c1 c2 : K) (h1 : r ^ 3 + α * r + β = 0)
    (h2 : c2 * r ^ 2 + c1 * r + c0 = 0) :
    β * (c2 * (c0 - α * c2) - c1 ^ 2) ^ 3 - α * (c2 * (c0 - α * c2) - c1 ^ 2) ^ 2 * (-β * c2 ^ 2 - c1 * c0)
      - (-β * c2 ^ 2 - c1 * c0) ^ 3 = 0 := by
  have hAB : (c2 * (c0 - α * c2) - c1 ^ 2) * r + (-β * c2 ^ 2 - c1 * c0) = 0 := by
    linear_combination (c2 * r - c1) * h2 - c2 ^ 2 * h1
  generalize (c2 * (c0 - α * c2) - c1 ^ 2) = A at hAB ⊢
  generalize (-β * c2 ^ 2 - c1 * c0) = B at hAB ⊢
  linear_combination A ^ 3 * h1 - ((A * r) ^ 2 - A * r * B + B ^ 2 + α * A ^ 2) * hAB

def resC0 : Int := tPowP.1
def resC1 : Int := (tPowP.2.1 : Int) - 1
def resC2 : Int := tPowP.2.2
def resA : Int := resC2 * (resC0 - (a : Int) * resC2) - resC1 * resC1
def resB : Int := -(b : Int) * (resC2 * resC2) - resC1 * resC0
def resN : Int := (b : Int) * (resA * resA * resA) - (a : Int) * (resA * resA) * resB - resB * resB * resB

theorem resN_mod : resN % (p : Int) ≠ 0 := by decide +kernel

/-- x³ + a·x + b has no root modulo p -/
theorem cubic_no_root (r : F) : r ^ 3 + (a : F) * r + (b : F) ≠ 0 := by
  intro hr
  have h1 := ev_cpowAux r hr 256 (0, 1, 0) p (1, 0, 0) (by decide)
  rw [tPowP_eq] at h1
  have hX : ev r (0, 1, 0) = r := by simp [ev]
  have h1' : ev r (1, 0, 0) = 1 := by simp [ev]
  rw [hX, h1', one_mul, ZMod.pow_card] at h1
  have h2 : ((resC2 : Int) : F) * r ^ 2 + ((resC1 : Int) : F) * r + ((resC0 : Int) : F) = 0 := by
    simp only [ev] at h1
    simp only [resC0, resC1, resC2, Int.cast_sub, Int.cast_natCast, Int.cast_one]
    linear_combination h1
  have h3 := resultant_zero r (a : F) (b : F) _ _ _ hr h2
  have h4 : ((resN : Int) : F) = 0 := by
    rw [← h3]
    simp only [resN, resA, resB]
    push_cast
    ring
  rw [ZMod.intCast_zmod_eq_zero_iff_dvd] at h4
  exact resN_mod (Int.emod_eq_zero_of_dvd h4)


theorem rhs_ne_zero (x : Nat) : rhs x ≠ 0 := by
  intro h
  have := rhs_cast x
  rw [h, Nat.cast_zero] at this
  exact cubic_no_root (x : F) this.symm

/-- A `no_point_with_y_zero`: no point of the SM2 curve has y ≡ 0 (mod p) (there is no point of order 2);
    so `Decompress` never takes the `ModSqrt = 0` branch and `p − y` is never p. -/
theorem no_point_with_y_zero (x y : Nat) (h : onCurve x y = true) : y % p ≠ 0 := by
  intro hy
  have hc := (onCurve_iff_rhs x y).mp h
  have hy0 : (y : F) = 0 := by
    rw [ZMod.natCast_eq_zero_iff]; exact Nat.dvd_of_mod_eq_zero hy
  rw [hy0] at hc
  exact rhs_ne_zero x (natCast_eq_zero_of_lt (rhs_lt x) (by rw [← hc]; simp))

theorem decompress_cons (pre : Byte) (xs : Bytes) :
    decompress (pre :: xs) =
      if (pre :: xs).length ≠ 33 ∨ pre.toNat > 3 then none
      else if os2ip xs ≥ p then none
      else (modSqrt (rhs (os2ip xs))).map fun y => (os2ip xs, if y % 2 ≠ pre.toNat % 2 then p - y else y) := by
  simp only [decompress]
  cases modSqrt (rhs (os2ip xs)) <;> rfl

theorem cast_p_sub (y : Nat) (hy : y ≤ p) : (((p - y : Nat)) : F) = -(y : F) := by
  rw [Nat.cast_sub hy, ZMod.natCast_self, zero_sub]

/-- auxiliary form of `decompress_sound` (y ≤ p only; `decompress_sound` below has y < p): whatever `Decompress` returns lies on the curve, has the
    x coordinate and the parity that the input asked for -/
theorem decompress_sound_aux (a : Bytes) (x y : Nat) (h : decompress a = some (x, y)) :
    a.length = 33 ∧ (a.headD 0).toNat ≤ 3 ∧ x = os2ip a.tail ∧ x < p ∧ y ≤ p ∧ y % 2 = (a.headD 0).toNat % 2 ∧
      onCurve x y = true := by
  cases a with
  | nil => cases h
  | cons pre xs =>
    rw [decompress_cons] at h
    by_cases c1 : (pre :: xs).length ≠ 33 ∨ pre.toNat > 3
    · rw [if_pos c1] at h; cases h
    · rw [if_neg c1] at h
      by_cases c2 : os2ip xs ≥ p
      · rw [if_pos c2] at h; cases h
      · rw [if_neg c2] at h
        cases hs : modSqrt (rhs (os2ip xs)) with
        | none => rw [hs] at h; cases h
        | some y0 =>
          rw [hs] at h
          simp only [Option.map_some, Option.some.injEq, Prod.mk.injEq] at h
          obtain ⟨hx, hy⟩ := h
          obtain ⟨hy0, hsq⟩ := modSqrt_sound _ _ (rhs_lt _) hs
          have hpo := p_odd
          simp only [List.headD_cons, List.tail_cons]
          refine ⟨by omega, by omega, hx.symm, by omega, ?_, ?_, ?_⟩
          · rw [← hy]; split <;> omega
          · rw [← hy]; split <;> omega
          · rw [onCurve_iff_rhs, ← hx, ← hsq, ← hy]
            split
            · rw [cast_p_sub _ (by omega)]; ring
            · rfl

/-- A `decompress_sound`: whatever `Decompress` returns for the input `a` — a 33-byte string whose first byte
    is at most 3 — is a point of the curve with reduced coordinates, whose x is the number in a[1:] and whose
    y has the parity bit a[0] & 1. -/
theorem decompress_sound (a : Bytes) (x y : Nat) (h : decompress a = some (x, y)) :
    a.length = 33 ∧ (a.headD 0).toNat ≤ 3 ∧ x = os2ip a.tail ∧ x < p ∧ y < p ∧ y % 2 = (a.headD 0).toNat % 2 ∧
      onCurve x y = true := by
  obtain ⟨h1, h2, h3, h4, h5, h6, h7⟩ := decompress_sound_aux a x y h
  refine ⟨h1, h2, h3, h4, ?_, h6, h7⟩
  have := no_point_with_y_zero x y h7
  apply Nat.lt_of_le_of_ne h5
  intro hc; apply this; rw [hc]; exact Nat.mod_self p

/-- the point is determined by the input: two accepted inputs with the same x bytes and the same parity bit
    give the same point, and `Compress` of the result restores the canonical 0/1 form -/
theorem compress_decompress (a : Bytes) (x y : Nat) (h : decompress a = some (x, y)) :
    compress x y = BitVec.ofNat 8 ((a.headD 0).toNat % 2) :: a.tail := by
  obtain ⟨h1, _, h3, h4, _, h6, _⟩ := decompress_sound a x y h
  unfold compress
  rw [h6, h3]
  cases a with
  | nil => simp at h1
  | cons pre xs =>
    simp only [List.tail_cons, List.headD_cons]
    rw [leftPad32_natBytes_os2ip xs (by simpa using h1)]

/-- A: any accepted prefix byte (0/1 as written by `Compress`, or the standard's 02/03) with the parity of
    y, followed by the 32-byte x coordinate, decompresses to (x, y) -/
theorem decompress_of_parity (pre : Byte) (x y : Nat) (hx : x < p) (hy : y < p) (h : onCurve x y = true)
    (hpre : pre.toNat ≤ 3) (hpar : pre.toNat % 2 = y % 2) :
    decompress (pre :: leftPad32 (natBytes x)) = some (x, y) := by
  have hx32 : x < 256 ^ 32 := Nat.lt_trans hx (by decide)
  have hl : (leftPad32 (natBytes x)).length = 32 := leftPad32_length _ (natBytes_length_le x 32 hx32)
  have hv : os2ip (leftPad32 (natBytes x)) = x := by rw [os2ip_leftPad32, os2ip_natBytes]
  rw [decompress_cons, hv, if_neg (by rw [List.length_cons, hl]; omega), if_neg (by omega)]
  have hc := (onCurve_iff_rhs x y).mp h
  cases hs : modSqrt (rhs x) with
  | none => exact absurd hc (modSqrt_none _ (rhs_lt x) hs y)
  | some y0 =>
    obtain ⟨hy0, hsq⟩ := modSqrt_sound _ _ (rhs_lt _) hs
    have hpo := p_odd
    simp only [Option.map_some, Option.some.injEq, Prod.mk.injEq, true_and]
    rcases sqrt_unique y0 y hy0 hy (by rw [hsq, hc]) with e | e
    · subst e; rw [if_neg (by omega)]
    · by_cases hz : y = 0
      · -- y = 0: the only root is 0 itself
        subst hz
        have hr0 : rhs x = 0 := by
          apply natCast_eq_zero_of_lt (rhs_lt x)
          rw [← hc]; simp
        unfold modSqrt at hs
        rw [hr0, if_pos (by rfl)] at hs
        have : y0 = 0 := (Option.some.inj hs).symm
        subst this
        rw [if_neg (by omega)]
      · rw [if_pos (by omega)]; omega

/-- A `compress_roundtrip`: for every point (x, y) of the curve with reduced coordinates,
    `Decompress(Compress(x, y))` is (x, y) — no side condition (a point with y = 0 would round-trip too). -/
theorem compress_roundtrip (x y : Nat) (hx : x < p) (hy : y < p) (h : onCurve x y = true) :
    decompress (compress x y) = some (x, y) := by
  unfold compress
  have ht : (BitVec.ofNat 8 (y % 2)).toNat = y % 2 := by simp only [BitVec.toNat_ofNat]; omega
  exact decompress_of_parity _ x y hx hy h (by omega) (by omega)

/-- the compressed form is 33 bytes: parity byte, then `b32 x` -/
theorem compress_eq (x y : Nat) (hx : x < 256 ^ 32) : compress x y = BitVec.ofNat 8 (y % 2) :: Spec.SM2.b32 x := by
  unfold compress; rw [leftPad32_natBytes x hx]

/-- A `decompress_eq_none_iff`: `Decompress` returns nil exactly for: a length other than 33, a first byte
    above 3, x ≥ p, or an x for which no reduced y satisfies the curve equation. -/
theorem decompress_eq_none_iff (a : Bytes) :
    decompress a = none ↔
      (a.length ≠ 33 ∨ (a.headD 0).toNat > 3 ∨ os2ip a.tail ≥ p ∨ ∀ y, y < p → onCurve (os2ip a.tail) y = false) := by
  cases a with
  | nil => simp [decompress]
  | cons pre xs =>
    rw [decompress_cons]
    simp only [List.headD_cons, List.tail_cons]
    by_cases c1 : (pre :: xs).length ≠ 33 ∨ pre.toNat > 3
    · rw [if_pos c1]
      constructor
      · intro _; rcases c1 with c | c
        · exact Or.inl c
        · exact Or.inr (Or.inl c)
      · intro _; rfl
    · rw [if_neg c1]
      by_cases c2 : os2ip xs ≥ p
      · rw [if_pos c2]
        exact ⟨fun _ => Or.inr (Or.inr (Or.inl c2)), fun _ => rfl⟩
      · rw [if_neg c2]
        cases hs : modSqrt (rhs (os2ip xs)) with
        | none =>
          simp only [Option.map_none, true_iff]
          refine Or.inr (Or.inr (Or.inr fun y _ => ?_))
          cases ho : onCurve (os2ip xs) y with
          | false => rfl
          | true => exact absurd ((onCurve_iff_rhs _ _).mp ho) (modSqrt_none _ (rhs_lt _) hs y)
        | some y0 =>
          obtain ⟨hy0, hsq⟩ := modSqrt_sound _ _ (rhs_lt _) hs
          simp only [Option.map_some, reduceCtorEq, false_iff]
          intro hc
          rcases hc with c | c | c | c
          · exact c1 (Or.inl c)
          · exact c1 (Or.inr c)
          · exact c2 c
          · have := c y0 hy0
            rw [(onCurve_iff_rhs _ _).mpr hsq] at this
            cases this


section DERCanonical
open Spec.DER

/-! ## D. The strict signature parser accepts only canonical DER -/

/-- the minimal encoding of the value of a string without a leading zero byte is that string -/
theorem natBytes_os2ip (bs : Bytes) (h : ∀ b t, bs = b :: t → b.toNat ≠ 0) : natBytes (os2ip bs) = bs := by
  cases bs with
  | nil => rw [os2ip_nil, natBytes_zero]
  | cons b t =>
    have hb := h b t rfl
    have hv : 256 ^ t.length ≤ os2ip (b :: t) := by
      rw [os2ip_cons]
      calc 256 ^ t.length ≤ b.toNat * 256 ^ t.length := Nat.le_mul_of_pos_left _ (by omega)
        _ ≤ _ := Nat.le_add_right _ _
    have hlt := os2ip_lt (b :: t)
    have hle := natBytes_length_le _ _ hlt
    have hge : (b :: t).length ≤ (natBytes (os2ip (b :: t))).length := by
      apply Nat.le_of_not_lt; intro hc
      have h1 := os2ip_lt (natBytes (os2ip (b :: t)))
      rw [os2ip_natBytes] at h1
      have h2 : 256 ^ (natBytes (os2ip (b :: t))).length ≤ 256 ^ t.length :=
        Nat.pow_le_pow_right (by decide) (by rw [List.length_cons] at hc; omega)
      omega
    exact os2ip_inj _ _ (by omega) (os2ip_natBytes _)

theorem decLen_canonical (bs rest : Bytes) (n : Nat) (h : decLen bs = some (n, rest)) : bs = encLen n ++ rest := by
  cases bs with
  | nil => cases h
  | cons l rest0 =>
    unfold decLen at h
    simp only at h
    by_cases h0 : l.toNat < 128
    · rw [if_pos h0] at h
      simp only [Option.some.injEq, Prod.mk.injEq] at h
      obtain ⟨hn, hr⟩ := h
      unfold encLen
      rw [← hn, if_pos h0, ← hr, BitVec.ofNat_toNat, BitVec.setWidth_eq]
      rfl
    · rw [if_neg h0] at h
      by_cases h1 : l.toNat - 128 = 0 ∨ l.toNat - 128 > 4 ∨ rest0.length < l.toNat - 128
      · rw [if_pos h1] at h; cases h
      · rw [if_neg h1] at h
        by_cases h2 : (rest0.take (l.toNat - 128)).head?.map (·.toNat) = some 0
        · rw [if_pos h2] at h; cases h
        · rw [if_neg h2] at h
          by_cases h3 : os2ip (rest0.take (l.toNat - 128)) < 128
          · rw [if_pos h3] at h; cases h
          · rw [if_neg h3] at h
            simp only [Option.some.injEq, Prod.mk.injEq] at h
            obtain ⟨hn, hr⟩ := h
            have hnb : natBytes (os2ip (rest0.take (l.toNat - 128))) = rest0.take (l.toNat - 128) := by
              apply natBytes_os2ip
              intro b t hbt hb0
              apply h2
              rw [hbt]; simp [hb0]
            have hlen : (rest0.take (l.toNat - 128)).length = l.toNat - 128 := by
              rw [List.length_take]; omega
            unfold encLen
            rw [← hn, if_neg h3]
            simp only [hnb, hlen]
            have hl : BitVec.ofNat 8 (0x80 + (l.toNat - 128)) = l := by
              apply BitVec.eq_of_toNat_eq
              simp only [BitVec.toNat_ofNat]
              have := l.isLt
              omega
            rw [hl, ← hr, List.cons_append, List.take_append_drop]

theorem decTLV_canonical (tag : Byte) (bs c rest : Bytes) (h : decTLV tag bs = some (c, rest)) :
    bs = tlv tag c ++ rest := by
  cases bs with
  | nil => cases h
  | cons t rest0 =>
    unfold decTLV at h
    simp only at h
    by_cases h0 : t ≠ tag
    · rw [if_pos h0] at h; cases h
    · rw [if_neg h0] at h
      have ht : t = tag := Classical.not_not.mp h0
      cases hd : decLen rest0 with
      | none => rw [hd] at h; cases h
      | some nr =>
        obtain ⟨n, r⟩ := nr
        rw [hd] at h
        simp only at h
        by_cases h1 : r.length < n
        · rw [if_pos h1] at h; cases h
        · rw [if_neg h1] at h
          simp only [Option.some.injEq, Prod.mk.injEq] at h
          obtain ⟨hc, hr⟩ := h
          have := decLen_canonical _ _ _ hd
          unfold tlv
          have hcl : c.length = n := by rw [← hc, List.length_take]; omega
          rw [ht, this, hcl, ← hc, ← hr]
          simp

theorem byte_eq_zero {x : Byte} (h : x.toNat = 0) : x = 0 := BitVec.eq_of_toNat_eq h

theorem decIntContent_two (x y : Byte) (rest : Bytes) :
    decIntContent (x :: y :: rest) =
      if x.toNat = 0 ∧ y.toNat < 128 then none
      else if x.toNat = 255 ∧ y.toNat ≥ 128 then none
      else some (if x.toNat ≥ 128 then ((os2ip (x :: y :: rest) : Nat) : Int) - (256 : Int) ^ (rest.length + 2)
        else ((os2ip (x :: y :: rest) : Nat) : Int)) := rfl

theorem decIntContent_canonical (c : Bytes) (v : Int) (h : decIntContent c = some v) (hv : 0 ≤ v) :
    c = intContent v.toNat := by
  match c, h with
  | [], h => cases h
  | [x], h =>
    unfold decIntContent at h
    simp only [Option.some.injEq] at h
    have hx := x.isLt
    by_cases hhi : x.toNat ≥ 128
    · rw [if_pos hhi] at h; omega
    · rw [if_neg hhi] at h
      rw [← h, Int.toNat_natCast]
      unfold intContent
      by_cases hz : x.toNat = 0
      · rw [hz, natBytes_zero, byte_eq_zero hz]
      · have : natBytes x.toNat = [x] := by
          have := natBytes_os2ip [x] (by intro b t hbt; cases hbt; exact hz)
          rwa [os2ip_cons, os2ip_nil, List.length_nil, Nat.pow_zero, Nat.mul_one, Nat.add_zero] at this
        rw [this]
        simp only
        rw [if_neg hhi]
  | x :: y :: rest, h =>
    rw [decIntContent_two] at h
    by_cases c1 : x.toNat = 0 ∧ y.toNat < 128
    · rw [if_pos c1] at h; cases h
    · rw [if_neg c1] at h
      by_cases c2 : x.toNat = 255 ∧ y.toNat ≥ 128
      · rw [if_pos c2] at h; cases h
      · rw [if_neg c2] at h
        simp only [Option.some.injEq] at h
        by_cases hhi : x.toNat ≥ 128
        · rw [if_pos hhi] at h
          have hlt := os2ip_lt (x :: y :: rest)
          have : ((os2ip (x :: y :: rest) : Nat) : Int) < (256 : Int) ^ (rest.length + 2) := by
            have : (x :: y :: rest).length = rest.length + 2 := by simp
            rw [this] at hlt
            exact_mod_cast hlt
          omega
        · rw [if_neg hhi] at h
          rw [← h, Int.toNat_natCast]
          unfold intContent
          by_cases hz : x.toNat = 0
          · have hy : y.toNat ≥ 128 := by omega
            have e : os2ip (x :: y :: rest) = os2ip (y :: rest) := by
              rw [os2ip_cons, hz, Nat.zero_mul, Nat.zero_add]
            rw [e, natBytes_os2ip (y :: rest) (by intro b t hbt; cases hbt; omega)]
            simp only
            rw [if_pos hy, byte_eq_zero hz]
          · rw [natBytes_os2ip (x :: y :: rest) (by intro b t hbt; cases hbt; exact hz)]
            simp only
            rw [if_neg hhi]

/-- D `der_canonical`: if the strict parser accepts `sig` as the pair (r, s) of non-negative integers, then
    `sig` is byte for byte the DER encoding `encSig r s` — definite minimal lengths, minimal INTEGER contents,
    nothing before, between or after the elements.  No bound on r, s or on the lengths. -/
theorem der_canonical (sig : Bytes) (r s : Int) (h : decSig sig = some (r, s)) (hr : 0 ≤ r) (hs : 0 ≤ s) :
    encSig r.toNat s.toNat = sig := by
  unfold decSig at h
  split at h
  · next body h30 =>
    split at h
    · next rc rest hrc =>
      split at h
      · next sc hsc =>
        split at h
        · next r0 s0 hr0 hs0 =>
          simp only [Option.some.injEq, Prod.mk.injEq] at h
          obtain ⟨e1, e2⟩ := h
          subst e1; subst e2
          have b1 := decTLV_canonical _ _ _ _ h30
          have b2 := decTLV_canonical _ _ _ _ hrc
          have b3 := decTLV_canonical _ _ _ _ hsc
          have i1 := decIntContent_canonical _ _ hr0 hr
          have i2 := decIntContent_canonical _ _ hs0 hs
          unfold encSig encSeq encInt
          simp only [List.flatten_cons, List.flatten_nil, List.append_nil]
          rw [← i1, ← i2, b1, b2, b3]
          simp
        · cases h
      · cases h
    · cases h
  · cases h

/-- D corollary `der_unique`: two byte strings that the strict parser maps to the same non-negative pair are
    equal (the accepted encoding is not malleable) -/
theorem der_unique (b1 b2 : Bytes) (r s : Int) (h1 : decSig b1 = some (r, s)) (h2 : decSig b2 = some (r, s))
    (hr : 0 ≤ r) (hs : 0 ≤ s) : b1 = b2 := by
  rw [← der_canonical b1 r s h1 hr hs, ← der_canonical b2 r s h2 hr hs]


open Spec.SM2 (gx gy)

/-- non-vacuity (C): short x (fewer than 16 bytes), bit 127 set, more than 16 bytes -/
example : keXHat 0x1234 = 2 ^ 127 + 0x1234 ∧ keXHat (2 ^ 127 + 5) = 2 ^ 127 + 5 ∧
    keXHat (2 ^ 255 + 2 ^ 128 + 2 ^ 127 + 7) = 2 ^ 127 + 7 := by decide +kernel

/-- non-vacuity (A): the base point, both parities, Compress's 0/1 prefix and the standard's 02/03 prefix -/
example : decompress (compress gx gy) = some (gx, gy) ∧ decompress (compress gx (p - gy)) = some (gx, p - gy) ∧
    decompress (0x02 :: Spec.SM2.b32 gx) = some (gx, gy) ∧ decompress (0x03 :: Spec.SM2.b32 gx) = some (gx, p - gy) ∧
    decompress (0x04 :: Spec.SM2.b32 gx) = none ∧ decompress (0x00 :: Spec.SM2.b32 p) = none ∧
    decompress (0x00 :: Spec.SM2.b32 2) = none := by
  decide +kernel

/-- non-vacuity (D): an accepted signature, and the same pair with a non-minimal INTEGER or length is rejected -/
example : decSig [0x30, 0x06, 0x02, 0x01, 0x05, 0x02, 0x01, 0x07] = some (5, 7) ∧
    decSig [0x30, 0x07, 0x02, 0x02, 0x00, 0x05, 0x02, 0x01, 0x07] = none ∧
    decSig [0x30, 0x81, 0x06, 0x02, 0x01, 0x05, 0x02, 0x01, 0x07] = none := by decide +kernel


/-- `Spec.DER.decLen ∘ encLen` for every length below 2^32 (extends `Props.C01.decLen_encLen`, n < 128, to
    the long form) -/
theorem decLen_encLen_all (n : Nat) (h : n < 2 ^ 32) (rest : Bytes) : decLen (encLen n ++ rest) = some (n, rest) := by
  by_cases h0 : n < 128
  · exact Props.C01.decLen_encLen n h0 rest
  · have hlen : (natBytes n).length ≤ 4 := natBytes_length_le n 4 (by
      have : (256 : Nat) ^ 4 = 2 ^ 32 := by decide
      omega)
    obtain ⟨b, t, hb, hb0⟩ := natBytes_head n (by omega)
    have hpos : 0 < (natBytes n).length := by rw [hb]; simp
    have ht : (BitVec.ofNat 8 (0x80 + (natBytes n).length)).toNat = 128 + (natBytes n).length := by
      simp only [BitVec.toNat_ofNat]; omega
    unfold encLen
    rw [if_neg h0]
    simp only [List.cons_append]
    unfold decLen
    simp only [ht]
    rw [if_neg (by omega)]
    have e : 128 + (natBytes n).length - 128 = (natBytes n).length := by omega
    simp only [e]
    rw [if_neg (by simp only [List.length_append]; omega)]
    rw [List.take_left' rfl, List.drop_left' rfl, os2ip_natBytes]
    rw [if_neg (by rw [hb]; simpa using hb0), if_neg h0]

/-- hence the TLV round trip of `Spec.DER` for contents of every length below 2^32 -/
theorem decTLV_tlv_all (tag : Byte) (c rest : Bytes) (h : c.length < 2 ^ 32) :
    decTLV tag (tlv tag c ++ rest) = some (c, rest) := by
  unfold tlv decTLV
  simp only [List.cons_append, List.append_assoc, ne_eq, not_true_eq_false, if_false]
  rw [decLen_encLen_all _ h]
  simp

/-- D, the converse direction without the 2^256 bound of `Props.C01.der_roundtrip`: the canonical encoding of
    any pair whose encoding is shorter than 2^32 bytes is accepted as that pair; together with `der_canonical`:
    `decSig sig = some (r, s)` ⇔ `sig = encSig r s`. -/
theorem der_roundtrip_all (r s : Nat) (hl : (encSig r s).length < 2 ^ 32) :
    decSig (encSig r s) = some ((r : Int), (s : Int)) := by
  unfold encSig encSeq at hl ⊢
  simp only [List.flatten_cons, List.flatten_nil, List.append_nil] at hl ⊢
  have hbody : (encInt r ++ encInt s).length < 2 ^ 32 := by
    unfold tlv at hl; simp only [List.length_cons, List.length_append] at hl ⊢; omega
  have hr : (intContent r).length < 2 ^ 32 := by
    unfold encInt tlv at hbody; simp only [List.length_cons, List.length_append] at hbody; omega
  have hs : (intContent s).length < 2 ^ 32 := by
    unfold encInt tlv at hbody; simp only [List.length_cons, List.length_append] at hbody; omega
  unfold decSig
  have h1 := decTLV_tlv_all 0x30 (encInt r ++ encInt s) [] hbody
  rw [List.append_nil] at h1
  rw [h1]
  simp only
  unfold encInt
  rw [decTLV_tlv_all 0x02 (intContent r) _ hr]
  simp only
  have h2 := decTLV_tlv_all 0x02 (intContent s) [] hs
  rw [List.append_nil] at h2
  rw [h2]
  simp only [Props.C01.decIntContent_intContent]

theorem der_canonical_iff (sig : Bytes) (r s : Nat) (hl : sig.length < 2 ^ 32) :
    decSig sig = some ((r : Int), (s : Int)) ↔ sig = encSig r s := by
  constructor
  · intro h
    have := der_canonical sig r s h (Int.natCast_nonneg r) (Int.natCast_nonneg s)
    simpa using this.symm
  · intro h
    subst h
    exact der_roundtrip_all r s hl


end DERCanonical

end Props.C14Codec
