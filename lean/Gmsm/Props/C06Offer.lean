/-
C06 — what a GMSSL client offers (repair "ecdheoffer"): `makeClientHelloGM` no longer advertises the ECDHE-SM2
suites e011 / e051, whose client-side key exchange `ecdheKeyAgreementGM.processServerKeyExchange` can never
complete.  Before the repair the default hello was [e013, e053, e011, e051]: a GM/T 0024 server that prefers
ECDHE selected e011 and the handshake failed although both ends support the ECC suites.
Theorems over `Model.Negotiate.hello` / `gmOffer` / `peerSelect` / `clientMeets`.
-/
import Gmsm.Props.C06
namespace Props.C06Offer
open Model.Negotiate Model.Suites

/-- the client-side predicate and the server-side predicate of 40f1c44 coincide: a row of `gmCipherSuites` that
    is not an ECDHE suite -/
theorem gmClientKx_eq_gmServable : gmClientKx = gmServable := by
  funext s; rfl

/-- over the regenerated table: the suites whose key exchange the client can complete are exactly e013 and e053 -/
theorem gmClientKx_table (s : Suite) : gmClientKx s = true ↔ s = 0xe013 ∨ s = 0xe053 := by
  unfold gmClientKx gmRow
  have ht : Gen.TLS.gmCipherSuites = [(0xe013, false, true), (0xe053, false, true), (0xe011, true, true), (0xe051, true, true)] := by decide
  rw [ht]
  simp only [List.find?_cons, List.find?_nil]
  by_cases h1 : s = 0xe013
  · subst h1; simp
  · by_cases h2 : s = 0xe053
    · subst h2; simp
    · by_cases h3 : s = 0xe011
      · subst h3; simp
      · by_cases h4 : s = 0xe051
        · subst h4; simp
        · have e1 : ((57363 : Nat) == s) = false := beq_eq_false_iff_ne.mpr (fun h => h1 h.symm)
          have e2 : ((57427 : Nat) == s) = false := beq_eq_false_iff_ne.mpr (fun h => h2 h.symm)
          have e3 : ((57361 : Nat) == s) = false := beq_eq_false_iff_ne.mpr (fun h => h3 h.symm)
          have e4 : ((57425 : Nat) == s) = false := beq_eq_false_iff_ne.mpr (fun h => h4 h.symm)
          simp [e1, e2, e3, e4, h1, h2]

/-- T1 `gm_offer_completable` (the repaired clause, false before the repair): every suite in the ClientHello of a
    GMSSL client — whatever `Config.CipherSuites` is — is a configured suite with a row in `gmCipherSuites` whose
    client-side key exchange the client can complete (equivalently: one a GMSSL server of this library can serve). -/
theorem gm_offer_completable (p : Params) (hc : p.client = .gm) :
    ∀ s ∈ (hello p).2, gmClientKx s = true ∧ gmServable s = true ∧ isGM s = true ∧ s ∈ p.csuites.getD gmDefaultList := by
  intro s hs
  simp only [hello, hc, List.mem_filter] at hs
  refine ⟨hs.2, by rw [← gmClientKx_eq_gmServable]; exact hs.2, ?_, hs.1⟩
  have := hs.2
  unfold gmClientKx at this
  unfold isGM
  cases hr : gmRow s with
  | none => simp [hr] at this
  | some r => rfl

/-- the repair removes nothing else: every configured suite the client can complete is offered, and the offer
    keeps the configured order (it is a sublist of the configured list) -/
theorem gm_offer_complete (p : Params) (hc : p.client = .gm) :
    (∀ s ∈ p.csuites.getD gmDefaultList, gmClientKx s = true → s ∈ (hello p).2) ∧
    (hello p).2.Sublist (p.csuites.getD gmDefaultList) ∧ (hello p).1 = Gen.TLS.versionGMSSL := by
  refine ⟨?_, ?_, ?_⟩
  · intro s h1 h2
    simp only [hello, hc, List.mem_filter]
    exact ⟨h1, h2⟩
  · simp only [hello, hc]
    exact List.filter_sublist
  · simp [hello, hc]

/-- `gmOffer` is the hello of any GMSSL client with that `CipherSuites` (the other parameters do not matter) -/
theorem gmOffer_eq (p : Params) (hc : p.client = .gm) : (hello p).2 = gmOffer p.csuites := by
  simp [gmOffer, hello, hc]

/-- T1 `gm_client_never_refuses_kx`: an independent server may answer with ANY suite `sel`.  Whatever it selects,
    the GMSSL client never meets a suite of its own hello whose key exchange it must refuse: either the server
    selected something the client did not offer (a protocol violation, refused by `pickCipherSuite`), or the
    client can complete the key exchange. -/
theorem gm_client_never_refuses_kx (cs : Option (List Suite)) (sel : Suite) :
    clientMeets (gmOffer cs) sel ≠ .refusesKx ∧
    (sel ∈ gmOffer cs → clientMeets (gmOffer cs) sel = .proceeds) := by
  have key : sel ∈ gmOffer cs → gmClientKx sel = true := by
    intro h
    exact (gm_offer_completable ⟨.gm, .gm, cs, none, false, 0, 0, .rsa⟩ rfl sel h).1
  unfold clientMeets
  by_cases hm : sel ∈ gmOffer cs
  · have hk := key hm
    simp [hm, hk]
  · simp [hm]

/-- T1 `peer_preference_completable`: a conforming independent server with an arbitrary preference order `pref`
    (it may put the ECDHE suites first) selects, from the hello of a GMSSL client, only a suite the client can
    complete; and it does select one whenever its order contains an ECC suite the client is configured with. -/
theorem peer_preference_completable (cs : Option (List Suite)) (pref : List Suite) :
    (∀ s, peerSelect pref (gmOffer cs) = some s →
        s ∈ pref ∧ clientMeets (gmOffer cs) s = .proceeds ∧ gmClientKx s = true) ∧
    (∀ s ∈ pref, s ∈ cs.getD gmDefaultList → gmClientKx s = true → ∃ t, peerSelect pref (gmOffer cs) = some t) := by
  constructor
  · intro s h
    unfold peerSelect at h
    have hm := List.mem_of_find?_eq_some h
    have hp := List.find?_some h
    simp only [List.contains_eq_mem, decide_eq_true_eq] at hp
    have h2 := (gm_client_never_refuses_kx cs s).2 hp
    exact ⟨hm, h2, (gm_offer_completable ⟨.gm, .gm, cs, none, false, 0, 0, .rsa⟩ rfl s hp).1⟩
  · intro s h1 h2 h3
    have hoff : s ∈ gmOffer cs := (gm_offer_complete ⟨.gm, .gm, cs, none, false, 0, 0, .rsa⟩ rfl).1 s h2 h3
    unfold peerSelect
    cases hf : pref.find? (fun s => (gmOffer cs).contains s) with
    | some t => exact ⟨t, rfl⟩
    | none =>
      have := List.find?_eq_none.mp hf s h1
      simp [hoff] at this

/-- with the library's own server the verdict of a handshake is the one the unrepaired hello gave (the server
    never selected an ECDHE suite since 40f1c44): filtering the ECDHE suites out of the offer does not change
    `pick` under the server's `gmServable` restriction -/
theorem pick_unchanged (l sl : List Suite) :
    pick sl (l.filter gmClientKx) gmServable = pick sl (l.filter isGM) gmServable ∧
    pick (l.filter gmClientKx) sl gmServable = pick (l.filter isGM) sl gmServable := by
  have hsub : ∀ s, gmServable s = true → isGM s = true := by
    intro s h
    unfold gmServable at h
    unfold isGM
    cases hr : gmRow s with
    | none => simp [hr] at h
    | some r => rfl
  constructor
  · unfold pick
    congr 1
    funext s
    cases hg : gmServable s with
    | false => simp
    | true =>
      have h1 : gmClientKx s = true := by rw [gmClientKx_eq_gmServable]; exact hg
      have h2 := hsub s hg
      simp [List.contains_eq_mem, List.mem_filter, h1, h2]
  · unfold pick
    induction l with
    | nil => rfl
    | cons a t ih =>
      simp only [List.filter_cons]
      cases hg : gmServable a with
      | true =>
        have h1 : gmClientKx a = true := by rw [gmClientKx_eq_gmServable]; exact hg
        have h2 := hsub a hg
        simp only [h1, h2, if_true, List.find?_cons, hg, Bool.and_true]
        cases sl.contains a with
        | true => rfl
        | false => exact ih
      | false =>
        have h1 : gmClientKx a = false := by rw [gmClientKx_eq_gmServable]; exact hg
        simp only [h1]
        cases h2 : isGM a with
        | false => simpa using ih
        | true =>
          simp only [if_true, List.find?_cons, hg, Bool.and_false]
          simpa using ih

/-- Non-vacuity.  The default configuration offers exactly [e013, e053] (before the repair: [e013, e053, e011,
    e051], and e011 is a suite the client must refuse) -/
example : gmOffer none = [0xe013, 0xe053] := by decide
example : gmDefaultList.filter isGM = [0xe013, 0xe053, 0xe011, 0xe051] ∧ gmClientKx 0xe011 = false := by decide
example : (hello ⟨.auto, .gm, none, none, true, 4, 1, .rsa⟩) = (0x0101, [0xe013, 0xe053]) := by decide
/-- configured order is kept, unknown ids and ECDHE ids are dropped -/
example : gmOffer (some [0xe011, 0xe053, 0x002f, 0xe051, 0xe013]) = [0xe053, 0xe013] := by decide
/-- an ECDHE-first server: selected e011 from the old offer (refused by the client), selects e013 now -/
example : peerSelect [0xe011, 0xe051, 0xe013, 0xe053] (gmDefaultList.filter isGM) = some 0xe011 ∧
    clientMeets (gmDefaultList.filter isGM) 0xe011 = .refusesKx := by decide
example : peerSelect [0xe011, 0xe051, 0xe013, 0xe053] (gmOffer none) = some 0xe013 ∧
    clientMeets (gmOffer none) 0xe013 = .proceeds := by decide
/-- a client configured with ECDHE suites only sends an empty list (as a client configured with TLS suites only
    always did): every server answers handshake_failure; a server that selects e011 regardless is refused by
    `pickCipherSuite` -/
example : gmOffer (some [0xe011, 0xe051]) = [] ∧ peerSelect [0xe011, 0xe013] (gmOffer (some [0xe011, 0xe051])) = none ∧
    clientMeets (gmOffer (some [0xe011, 0xe051])) 0xe011 = .unconfigured ∧
    negotiate ⟨.gm, .gm, some [0xe011, 0xe051], none, false, 0, 0, .rsa⟩ = .fail := by decide

end Props.C06Offer
