/-
C18 (x509/ber.go, as repaired): the OUTPUT of the BER → DER transcoder is linear in the input it consumed.
`encodeTo o` re-encodes every object with the same tag octets, the same primitive contents and a definite length of
at most 10 octets; the BER header of every object has at least the tag octets and one length octet, and (since
fix 58832e0) the children of an object lie inside it, one after the other. So the DER encoding of a tree read from
`[off, off')` has at most `(off' - off) + 9 · nodes` bytes, and with `span_linear` (two input bytes per node) an
accepted n-byte input yields at most 5.5 n bytes of DER.  Together with `ber2der_cost` (the encoder buffers at most
129 × the output) and `ber2der_linear` (at most n/2 objects, depth ≤ 128): time and memory of `ber2der` are within a
constant multiple of the input size.
-/
import Gmsm.Props.C18Linear

namespace Props.C18
open Model.BER Gmsm

theorem lengthLength8_le (n : Nat) : lengthLength 8 n ≤ 9 := by
  simp only [lengthLength]
  repeat' split
  all_goals omega

theorem marshalLong_length (n i : Nat) : (marshalLong n i).length = n := by simp [marshalLong]

/-- a DER length field has at most 10 octets (`0x80 + k` and `k ≤ 9` octets), and at least one -/
theorem encodeLength_le (L : Nat) : (encodeLength L).length ≤ 10 := by
  unfold encodeLength
  split
  · have := lengthLength8_le L
    simp only [List.length_cons, marshalLong_length]; omega
  · simp

/-- `readObject` inverted once more, keeping the sizes: a primitive result `tag ‖ content` ends at least
    `|tag| + 1 + |content|` bytes after `off`; a constructed one has its content start `o2 ≥ off + |tag| + 1`. -/
theorem readObject_sizes (ber : Bytes) (off d : Nat) :
    (∃ r,
        (∀ o e, r = .ok (o, e) → ∃ tag c, o = .prim tag c ∧ off + tag.length + 1 + c.length ≤ e) ∧
        ∀ f', readObject (f' + 1) ber off d = r) ∨
    (∃ tag o2 ce ind, off + tag.length + 1 ≤ o2 ∧ o2 ≤ ce ∧ ce ≤ ber.length ∧
        ∀ f', readObject (f' + 1) ber off d = finish tag ce ind (readItems f' ber o2 ce ind (d + 1))) := by
  cases hb : ber[off]? with
  | none => left; refine ⟨.error .truncated, by simp, ?_⟩; intro f'; rw [readObject]; simp [hb]
  | some b =>
    have hoff := getElem?_some_lt hb
    cases ht : (if b.toNat % 32 = 0x1F then readTag (ber.length + 1) ber (off + 1) else .ok (off + 1)) with
    | error e =>
      left; refine ⟨.error e, by simp, ?_⟩
      intro f'; rw [readObject]; simp only [hb, ht]
    | ok tagEnd =>
      have hte : off + 1 ≤ tagEnd ∧ tagEnd ≤ ber.length := by
        split at ht
        · have := readTag_bounds _ _ _ _ ht; omega
        · injection ht with ht; omega
      have htag : ((ber.drop off).take (tagEnd - off)).length = tagEnd - off := by
        simp only [List.length_take, List.length_drop]; omega
      cases hl : ber[tagEnd]? with
      | none => left; refine ⟨.error .truncated, by simp, ?_⟩; intro f'; rw [readObject]; simp only [hb, ht, hl]
      | some l =>
        have hte2 := getElem?_some_lt hl
        cases hlen : readLength ber (tagEnd + 1) l with
        | error e =>
          left; refine ⟨.error e, by simp, ?_⟩
          intro f'; rw [readObject]; simp only [hb, ht, hl, hlen]
        | ok r =>
          obtain ⟨length, o2, ind⟩ := r
          have ho2 := readLength_bounds hlen
          by_cases hce : o2 + length > ber.length
          · left; refine ⟨.error .beyondData, by simp, ?_⟩
            intro f'; rw [readObject]; simp only [hb, ht, hl, hlen, hce, if_true]
          · have hce2 : o2 + length ≤ ber.length := by omega
            by_cases hc : (b.toNat / 32) % 2 = 1
            · by_cases hd : d ≥ maxBERDepth
              · left; refine ⟨.error .tooDeep, by simp, ?_⟩
                intro f'; rw [readObject]
                simp only [hb, ht, hl, hlen, hce, hc, hd, if_true, if_false, not_true, and_false]
              · right
                refine ⟨(ber.drop off).take (tagEnd - off), o2, o2 + length, ind, by rw [htag]; omega, by omega, hce2, ?_⟩
                intro f'; rw [readObject]
                simp only [hb, ht, hl, hlen, hce, hc, hd, if_false, not_true, and_false]
                cases readItems f' ber o2 (o2 + length) ind (d + 1) <;> rfl
            · cases ind with
              | true =>
                left; refine ⟨.error .indefinitePrimitive, by simp, ?_⟩
                intro f'; rw [readObject]; simp only [hb, ht, hl, hlen, hce, hc, if_true, if_false, not_false_eq_true, and_self]
              | false =>
                left
                refine ⟨.ok (.prim ((ber.drop off).take (tagEnd - off)) ((ber.drop o2).take length), o2 + length), ?_, ?_⟩
                · intro o e h; injection h with h; injection h with h1 h2
                  refine ⟨_, _, h1.symm, ?_⟩
                  have hc2 : ((ber.drop o2).take length).length = length := by
                    simp only [List.length_take, List.length_drop]; omega
                  rw [htag, hc2]; omega
                · intro f'; rw [readObject]; simp only [hb, ht, hl, hlen, hce, hc, if_true, if_false, not_false_eq_true, and_true, Bool.false_eq_true]

/-- the DER of what was read from `[off, e)` has at most `(e - off) + 9 · nodes` bytes; the same for the children
    collected by the item loop; together by induction on the fuel -/
theorem encode_all (ber : Bytes) : ∀ f : Nat,
    (∀ off d o e, readObject f ber off d = .ok (o, e) → (encodeTo o).length + off ≤ e + 9 * o.nodes) ∧
    (∀ off ce ind d os e, readItems f ber off ce ind d = .ok (os, e) →
        (encodeItems os).length + off ≤ e + 9 * nodesItems os) := by
  intro f
  induction f with
  | zero =>
    constructor
    · intro off d o e h; simp [readObject] at h
    · intro off ce ind d os e h; simp [readItems] at h
  | succ f ih =>
    obtain ⟨ihO, ihI⟩ := ih
    constructor
    · intro off d o e h
      rcases readObject_sizes ber off d with ⟨r, hr, hall⟩ | ⟨tag, o2, ce, ind, h1, h2, h3, hall⟩
      · rw [hall f] at h
        obtain ⟨tag, c, rfl, hsz⟩ := hr o e h
        have := encodeLength_le c.length
        simp only [encodeTo, Obj.nodes, List.length_append]; omega
      · rw [hall f] at h
        cases hi : readItems f ber o2 ce ind (d + 1) with
        | error e => rw [hi] at h; simp [finish] at h
        | ok r =>
          obtain ⟨items, e1⟩ := r
          rw [hi] at h
          simp only [finish] at h
          injection h with h; injection h with ho he
          subst ho
          have hI := ihI _ _ _ _ _ _ hi
          have hS := (span_all ber f).2 _ _ _ _ _ _ hi
          have hL := encodeLength_le (encodeItems items).length
          simp only [encodeTo, Obj.nodes, List.length_append]
          cases ind with
          | true => simp at he; omega
          | false => simp at he; have := hS.2 rfl h2; omega
    · intro off ce ind d os e h
      rcases readItems_ok_cases h with ⟨hos, he, _, _⟩ | ⟨o, e1, os1, ho, hi, hos, _, _⟩
      · subst hos; subst he
        simp [encodeItems, nodesItems]
      · subst hos
        have hO := ihO _ _ _ _ ho
        have hI := ihI _ _ _ _ _ _ hi
        simp only [encodeItems, nodesItems, List.length_append]; omega

/-- **Linear output, per object**: the re-encoding of an object read from the bytes `[off, off')` is at most
    `(off' - off) + 9 · nodes` bytes long. -/
theorem encode_le_span {fuel : Nat} {ber : Bytes} {off d : Nat} {o : Obj} {off' : Nat}
    (h : readObject fuel ber off d = .ok (o, off')) : (encodeTo o).length ≤ (off' - off) + 9 * o.nodes := by
  have := (encode_all ber fuel).1 off d o off' h
  have := ((progress_all ber fuel).1 off d o off' h).1
  omega

/-- **`ber2der` output is linear in its input**: an accepted n-byte input yields at most 5.5 n bytes of DER. -/
theorem ber2der_output_linear {ber der : Bytes} (h : ber2der ber = .ok der) : 2 * der.length ≤ 11 * ber.length := by
  unfold ber2der at h
  split at h
  · simp at h
  · cases hr : readObject (2 * ber.length + 2) ber 0 0 with
    | error e => rw [hr] at h; simp at h
    | ok r =>
      obtain ⟨o, e⟩ := r
      rw [hr] at h
      injection h with h
      subst h
      have h1 := span_linear hr
      have h2 := ((progress_all ber _).1 _ _ _ _ hr).2
      have h3 := encode_le_span hr
      omega

-- non-vacuity ---------------------------------------------------------------------------------------------------

/-- re-encoding can shrink (long-form length of a short content) … -/
example : (ber2der [0x30, 0x80, 0x04, 0x81, 0x01, 0xaa, 0x00, 0x00]).toOption.map (·.length) = some 5 := by rfl

/-- … and a definite minimal encoding is reproduced byte for byte -/
example : ber2der [0x30, 0x03, 0x02, 0x01, 0x05] = .ok [0x30, 0x03, 0x02, 0x01, 0x05] := by rfl

end Props.C18
