/-
C14, the password-protected forms: theorems about `Gmsm.Model.P8Env` (x509/pkcs8.go
`MarshalSm2EcryptedPrivateKey`, `ParsePKCS8EcryptedPrivateKey`, `ParsePKCS8PrivateKey`,
`MarshalSm2PrivateKey`) for ALL keys, passwords, salts and IVs, relative to the abstract parts of the
model, each named where it is used:

* `hED : ∀ k b, D k (E k b) = b` - the block cipher decrypts what it encrypted (AES, stdlib);
* `hInner : ∀ k pad, parseInner (marshalInner k ++ pad) = some k` (`InnerIgnoresTrailing`) - the inner
  DER parser returns the key and IGNORES TRAILING BYTES (`asn1.Unmarshal` returns the rest, which
  `ParsePKCS8UnecryptedPrivateKey` discards with `_`).  The Go code never removes the 1..16 pad bytes
  after decryption; this hypothesis is exactly what makes that work;
* `hRej : parseInner garbage = none` - only in the "a different password is an error" clause: the
  mis-decrypted bytes are not accepted by the inner parser.  This is NOT provable for a real cipher
  (it is a statement about 1 - 2^-k of the keys, not all); the theorems say precisely that a wrong
  password can yield a key ONLY through this door.

Core Lean only.
-/
import Gmsm.Model.P8Env
import Gmsm.Proofs.Modes
namespace Gmsm.Props.C14Env
open Gmsm Spec.Modes Proofs.Modes Gmsm.Model.P8Env

variable {K : Type}

/-! ### CBC over the abstract block cipher -/

theorem liftB_length (f : Block → Block) (b : Bytes) : (liftB f b).length = 16 := by
  unfold liftB
  split
  · exact (f _).2
  · simp

theorem liftB_inv (E D : Key → Block → Block) (hED : ∀ k b, D k (E k b) = b) (key : Key)
    (x : Bytes) (hx : x.length = 16) : liftB (D key) (liftB (E key) x) = x := by
  have h1 : liftB (E key) x = (E key ⟨x, hx⟩).1 := by simp [liftB, hx]
  rw [h1]
  have h2 : (E key ⟨x, hx⟩).1.length = 16 := (E key ⟨x, hx⟩).2
  simp only [liftB, h2, dite_true]
  rw [hED]

/-- `cbc_length` - `CryptBlocks` of the CBC encrypter writes exactly as many bytes as whole blocks it
    was given: for every key, IV and input, `len(dst) = 16 * (len(src)/16)` -/
theorem cbcEncrypt_length (E : Key → Block → Block) (key : Key) (iv src : Bytes) :
    (cbcEncrypt E key iv src).length = 16 * (src.length / 16) := by
  unfold cbcEncrypt
  rw [flatten_length _ (cbcEnc_all _ (liftB_length _) _ _), cbcEnc_length, blocks_length]

/-- CBC decryption undoes CBC encryption under the same key and a 16-byte IV on whole blocks
    (`cipher.NewCBCDecrypter(block, iv).CryptBlocks` after `NewCBCEncrypter(block, iv).CryptBlocks`),
    given only that the block cipher inverts (`hED`) -/
theorem cbcDecrypt_cbcEncrypt (E D : Key → Block → Block) (hED : ∀ k b, D k (E k b) = b) (key : Key)
    (iv : Bytes) (hiv : iv.length = 16) (p : Bytes) (hp : p.length % 16 = 0) :
    cbcDecrypt D key iv (cbcEncrypt E key iv p) = p := by
  have hpl : p.length = 16 * (p.length / 16) := by omega
  unfold cbcDecrypt
  rw [cbcEncrypt_length, Nat.mul_div_cancel_left _ (by omega : 0 < 16)]
  unfold cbcEncrypt
  generalize hn : p.length / 16 = n at hpl
  have hcs : AllBlk (cbcEnc (liftB (E key)) iv (blocks n p)) := cbcEnc_all _ (liftB_length _) _ _
  have hlen : (cbcEnc (liftB (E key)) iv (blocks n p)).length = n := by
    rw [cbcEnc_length, blocks_length]
  have hb := blocks_flatten _ hcs []
  rw [List.append_nil, hlen] at hb
  rw [hb, cbc_inv (liftB (E key)) (liftB (D key)) (liftB_inv E D hED key) iv hiv (blocks n p)
    (blocks_all n p (by omega)) (liftB_length _)]
  exact flatten_blocks n p hpl

/-- the hand-written pad of lines 329-336 always adds 1..16 bytes and makes the length a positive
    multiple of 16 -/
theorem pad_length (der : Bytes) :
    (pad der).length = 16 * (der.length / 16 + 1) ∧
    1 ≤ (pad der).length - der.length ∧ (pad der).length - der.length ≤ 16 ∧
    ∃ padding, pad der = der ++ padding := by
  refine ⟨pad16_length der, ?_, ?_, ⟨_, rfl⟩⟩ <;> (rw [pad, pad16_length]; omega)

/-- `cbc_length` - `encryptedKey` of `MarshalSm2EcryptedPrivateKey` has the length of the padded inner
    DER, `16 * (len(der)/16 + 1)`: a positive multiple of the block size, for every key, password,
    salt and IV -/
theorem cbc_length (P : Params K) (k : K) (pwd salt iv : Bytes) :
    (marshal P k pwd salt iv).encryptedData.length = (pad (P.marshalInner k)).length ∧
    (marshal P k pwd salt iv).encryptedData.length = 16 * ((P.marshalInner k).length / 16 + 1) := by
  simp only [marshal, cbcEncrypt_length, pad, pad16_length]
  omega

/-! ### the structural checks, separated from the password -/

/-- the first failing check of `ParsePKCS8EcryptedPrivateKey` before decryption, in the order of the
    code (lines 237-280); it does not look at the password -/
def structErr (env : Envelope) : Option Err :=
  if env.pbes2Oid ≠ oidPBES2 then some .onlyPBES2
  else if env.kdfOid ≠ oidPBKDF2 then some .onlyPBKDF2
  else if env.encOid ≠ oidAES128CBC ∧ env.encOid ≠ oidAES256CBC then some .unknownEncAlg
  else if prfOfOid env.prfOid = none then some .unknownHash
  else if env.iv.length ≠ 16 then some .invalidIVLength
  else if env.encryptedData.length = 0 ∨ env.encryptedData.length % 16 ≠ 0 then some .notMultiple
  else none

/-- the hash selected by the envelope (meaningful when `structErr = none`) -/
def prfOf (env : Envelope) : PrfId := (prfOfOid env.prfOid).getD .sha1

/-- the key `ParsePKCS8EcryptedPrivateKey` derives: `pbkdf(pwd, salt, iter, 32, h)` -/
def derivedKey (P : Params K) (env : Envelope) (pwd : Bytes) : Key :=
  P.kdf (prfOf env) pwd env.salt env.iter

/-- the bytes handed to `ParsePKCS8UnecryptedPrivateKey` (padding included) -/
def decrypted (P : Params K) (env : Envelope) (key : Key) : Bytes :=
  cbcDecrypt P.D key env.iv env.encryptedData

/-- `ParsePKCS8EcryptedPrivateKey` = structural verdict, then the inner parser on the decryption under
    the derived key; the password enters through `derivedKey` only -/
theorem parse_eq (P : Params K) (env : Envelope) (pwd : Bytes) :
    parse P env pwd =
      match structErr env with
      | some e => .error e
      | none =>
        match P.parseInner (decrypted P env (derivedKey P env pwd)) with
        | none => .error .incorrectPassword
        | some k => .ok k := by
  unfold parse structErr decrypted derivedKey prfOf
  by_cases h1 : env.pbes2Oid ≠ oidPBES2
  · simp [h1]
  by_cases h2 : env.kdfOid ≠ oidPBKDF2
  · simp [h1, h2]
  by_cases h3 : env.encOid ≠ oidAES128CBC ∧ env.encOid ≠ oidAES256CBC
  · simp [h1, h2, h3]
  rw [if_neg h1, if_neg h2, if_neg h3, if_neg h1, if_neg h2, if_neg h3]
  cases h4 : prfOfOid env.prfOid with
  | none => simp
  | some prf =>
    by_cases h5 : env.iv.length ≠ 16
    · simp [h5]
    by_cases h6 : env.encryptedData.length = 0 ∨ env.encryptedData.length % 16 ≠ 0
    · simp only [if_neg h5, reduceCtorEq, if_false, Option.getD_some]
      rw [if_pos h6, if_pos h6]
    simp only [if_neg h5, if_neg h6, reduceCtorEq, if_false, Option.getD_some]
    cases P.parseInner (cbcDecrypt P.D (P.kdf prf pwd env.salt env.iter) env.iv env.encryptedData) <;> rfl

/-! ### what marshal writes -/

/-- `marshal_structure` - what `MarshalSm2EcryptedPrivateKey` writes always passes every structural
    check of `ParsePKCS8EcryptedPrivateKey` (PBES2, PBKDF2, aes256-CBC, hmacWithSHA1, IV of 16 bytes,
    data a non-empty multiple of 16), for any key, any password (also the empty one), any salt (8 bytes
    in the code; the length plays no role) and any IV of 16 bytes; the fields are the constants of the
    code: iteration count 2048, PRF hmacWithSHA1, cipher aes256-CBC. -/
theorem marshal_structure (P : Params K) (k : K) (pwd salt iv : Bytes) (hiv : iv.length = 16) :
    structErr (marshal P k pwd salt iv) = none ∧
    prfOf (marshal P k pwd salt iv) = .sha1 ∧
    (marshal P k pwd salt iv).iter = 2048 ∧
    (marshal P k pwd salt iv).encOid = oidAES256CBC ∧
    (marshal P k pwd salt iv).salt = salt ∧ (marshal P k pwd salt iv).iv = iv := by
  have hl := (cbc_length P k pwd salt iv).2
  refine ⟨?_, rfl, rfl, rfl, rfl, rfl⟩
  unfold structErr
  have e1 : (marshal P k pwd salt iv).pbes2Oid = oidPBES2 := rfl
  have e2 : (marshal P k pwd salt iv).kdfOid = oidPBKDF2 := rfl
  have e3 : (marshal P k pwd salt iv).encOid = oidAES256CBC := rfl
  have e4 : prfOfOid (marshal P k pwd salt iv).prfOid = some .sha1 := by
    show prfOfOid oidKEYSHA1 = some .sha1; decide
  have e5 : (marshal P k pwd salt iv).iv.length = 16 := hiv
  have e6 : ¬((marshal P k pwd salt iv).encryptedData.length = 0 ∨
      (marshal P k pwd salt iv).encryptedData.length % 16 ≠ 0) := by rw [hl]; omega
  rw [if_neg (by rw [e1]; exact fun h => h rfl), if_neg (by rw [e2]; exact fun h => h rfl),
    if_neg (by rw [e3]; exact fun h => h.2 rfl), if_neg (by rw [e4]; exact fun h => nomatch h),
    if_neg (by rw [e5]; exact fun h => h rfl), if_neg e6]

/-- the hypothesis that makes "no un-padding" work: the inner parser
    (`ParsePKCS8UnecryptedPrivateKey`, i.e. `asn1.Unmarshal` whose `rest` is dropped) returns the key
    from its own encoding followed by ANY trailing bytes -/
def InnerIgnoresTrailing (P : Params K) : Prop :=
  ∀ (k : K) (padding : Bytes), P.parseInner (P.marshalInner k ++ padding) = some k

/-- the bytes `ParsePKCS8EcryptedPrivateKey` decrypts from what `MarshalSm2EcryptedPrivateKey` wrote,
    under the same derived key, are the inner DER WITH its 1..16 pad bytes -/
theorem decrypted_marshal (P : Params K) (hED : ∀ k b, P.D k (P.E k b) = b)
    (k : K) (pwd salt iv : Bytes) (hiv : iv.length = 16) :
    decrypted P (marshal P k pwd salt iv) (P.kdf .sha1 pwd salt 2048) = pad (P.marshalInner k) := by
  unfold decrypted
  show cbcDecrypt P.D _ iv (cbcEncrypt P.E _ iv (pad (P.marshalInner k))) = _
  exact cbcDecrypt_cbcEncrypt P.E P.D hED _ iv hiv _ (by rw [pad, pad16_length]; omega)

/-- `parse_marshal` - C14 for the password-protected PKCS#8 form:
    `ParsePKCS8EcryptedPrivateKey(MarshalSm2EcryptedPrivateKey(key, pwd), pwd)` returns `key`, for every
    key, every password, every salt and every 16-byte IV the random source may deliver - GIVEN that the
    block cipher inverts (`hED`) and that the inner parser ignores trailing bytes (`hInner`; the pad is
    never removed). -/
theorem parse_marshal (P : Params K) (hED : ∀ k b, P.D k (P.E k b) = b) (hInner : InnerIgnoresTrailing P)
    (k : K) (pwd salt iv : Bytes) (hiv : iv.length = 16) :
    parse P (marshal P k pwd salt iv) pwd = .ok k := by
  rw [parse_eq, (marshal_structure P k pwd salt iv hiv).1]
  have hk : derivedKey P (marshal P k pwd salt iv) pwd = P.kdf .sha1 pwd salt 2048 := rfl
  rw [hk, decrypted_marshal P hED k pwd salt iv hiv]
  unfold pad pad16
  rw [hInner k]

/-! ### the password enters through the derived key only -/

theorem structErr_prf_none (env : Envelope) (h : prfOfOid env.prfOid = none) :
    ∃ e, structErr env = some e := by
  unfold structErr
  by_cases h1 : env.pbes2Oid ≠ oidPBES2
  · exact ⟨_, if_pos h1⟩
  by_cases h2 : env.kdfOid ≠ oidPBKDF2
  · exact ⟨_, by rw [if_neg h1, if_pos h2]⟩
  by_cases h3 : env.encOid ≠ oidAES128CBC ∧ env.encOid ≠ oidAES256CBC
  · exact ⟨_, by rw [if_neg h1, if_neg h2, if_pos h3]⟩
  · exact ⟨_, by rw [if_neg h1, if_neg h2, if_neg h3, if_pos h]⟩

/-- `parse_only_via_key` - verdict and result of `ParsePKCS8EcryptedPrivateKey` depend on the password
    only through `pbkdf(pwd, salt, iter, 32, h)`: two passwords with the same derived key (for the salt,
    count and hash of the file) are indistinguishable.  This is the known finding as a theorem: PBKDF2
    uses the password as an HMAC key, so e.g. a password longer than the hash block and its hash derive
    the same key for EVERY salt and count, and both open the same file - in this and in any other
    PBKDF2-based envelope. -/
theorem parse_only_via_key (P : Params K) (env : Envelope) (pwd pwd2 : Bytes)
    (h : ∀ prf, prfOfOid env.prfOid = some prf →
      P.kdf prf pwd env.salt env.iter = P.kdf prf pwd2 env.salt env.iter) :
    parse P env pwd = parse P env pwd2 := by
  rw [parse_eq, parse_eq]
  cases hp : prfOfOid env.prfOid with
  | none =>
    obtain ⟨e, he⟩ := structErr_prf_none env hp
    rw [he]
  | some prf =>
    have : derivedKey P env pwd = derivedKey P env pwd2 := by
      unfold derivedKey prfOf; rw [hp]; exact h prf hp
    rw [this]

/-- `second_password_opens` - the finding on the files this library writes: a second password whose
    PBKDF2-HMAC-SHA1 key for the file's salt equals that of the password used to write the file is
    accepted and yields the key (hypotheses as in `parse_marshal`). -/
theorem second_password_opens (P : Params K) (hED : ∀ k b, P.D k (P.E k b) = b)
    (hInner : InnerIgnoresTrailing P) (k : K) (pwd pwd2 salt iv : Bytes) (hiv : iv.length = 16)
    (hkey : P.kdf .sha1 pwd2 salt 2048 = P.kdf .sha1 pwd salt 2048) :
    parse P (marshal P k pwd salt iv) pwd2 = .ok k := by
  rw [parse_only_via_key P _ pwd2 pwd]
  · exact parse_marshal P hED hInner k pwd salt iv hiv
  · intro prf hprf
    have : prf = .sha1 := by
      have e : prfOfOid (marshal P k pwd salt iv).prfOid = some .sha1 := by
        show prfOfOid oidKEYSHA1 = some .sha1; decide
      rw [e] at hprf; exact (Option.some.inj hprf).symm
    subst this; exact hkey

/-- `marshal_only_via_key` - the writer too: passwords with the same derived key produce the SAME
    file for the same salt and IV (`MarshalSm2EcryptedPrivateKey`) -/
theorem marshal_only_via_key (P : Params K) (k : K) (pwd pwd2 salt iv : Bytes)
    (hkey : P.kdf .sha1 pwd salt 2048 = P.kdf .sha1 pwd2 salt 2048) :
    marshal P k pwd salt iv = marshal P k pwd2 salt iv := by
  simp only [marshal, hkey]

/-- `hmac_equivalent_passwords` - the finding in the shape it has in the code: `pbkdf` uses the
    password only as the key of `hmac.New(h, password)`, and HMAC first normalises its key (a key longer
    than the hash block is replaced by its hash, a shorter one is zero-padded to the block: RFC 2104).
    Whenever the key derivation factors through such a normalisation `norm`, two passwords with the same
    normal form - a long password and its hash; `pwd` and `pwd ++ [0]` - get the same verdict and the
    same key from `ParsePKCS8EcryptedPrivateKey` on EVERY envelope, and `MarshalSm2EcryptedPrivateKey`
    writes the same file for both. -/
theorem hmac_equivalent_passwords (P : Params K) (norm : PrfId → Bytes → Bytes)
    (kdf0 : PrfId → Bytes → Bytes → Nat → Key)
    (hK : ∀ prf pwd salt iter, P.kdf prf pwd salt iter = kdf0 prf (norm prf pwd) salt iter)
    (pwd pwd2 : Bytes) (hn : ∀ prf, norm prf pwd = norm prf pwd2) :
    (∀ env, parse P env pwd = parse P env pwd2) ∧
    (∀ k salt iv, marshal P k pwd salt iv = marshal P k pwd2 salt iv) := by
  refine ⟨fun env => parse_only_via_key P env pwd pwd2 (fun prf _ => ?_),
    fun k salt iv => marshal_only_via_key P k pwd pwd2 salt iv ?_⟩
  · rw [hK, hK, hn]
  · rw [hK, hK, hn]

/-- `parse_ok_iff` - exact characterisation of acceptance: `ParsePKCS8EcryptedPrivateKey` returns the
    key `k` iff every structural check passes and `ParsePKCS8UnecryptedPrivateKey` returns `k` on the
    CBC decryption of the data under the derived key (padding included). -/
theorem parse_ok_iff (P : Params K) (env : Envelope) (pwd : Bytes) (k : K) :
    parse P env pwd = .ok k ↔
      structErr env = none ∧
      P.parseInner (cbcDecrypt P.D (P.kdf (prfOf env) pwd env.salt env.iter) env.iv env.encryptedData)
        = some k := by
  rw [parse_eq]
  show _ ↔ _ ∧ P.parseInner (decrypted P env (derivedKey P env pwd)) = some k
  cases structErr env with
  | some e => simp
  | none =>
    cases P.parseInner (decrypted P env (derivedKey P env pwd)) with
    | none => simp
    | some k2 =>
      simp only [true_and, Option.some.injEq]
      constructor
      · intro h; injection h
      · intro h; rw [h]

/-- `parse_error_iff` - and of every refusal: the error is the first failing structural check, or
    "pkcs8: incorrect password" exactly when all structural checks pass and the inner parser refuses
    the decrypted bytes (whatever the reason - the text blames the password in every case). -/
theorem parse_error_iff (P : Params K) (env : Envelope) (pwd : Bytes) (e : Err) :
    parse P env pwd = .error e ↔
      structErr env = some e ∨
      (structErr env = none ∧ e = .incorrectPassword ∧
        P.parseInner (decrypted P env (derivedKey P env pwd)) = none) := by
  rw [parse_eq]
  cases structErr env with
  | some e2 =>
    simp only [Option.some.injEq, reduceCtorEq, false_and, or_false]
    constructor
    · intro h; injection h
    · intro h; rw [h]
  | none =>
    cases P.parseInner (decrypted P env (derivedKey P env pwd)) with
    | none =>
      simp only [reduceCtorEq, true_and, and_true, false_or]
      constructor
      · intro h; injection h with h; exact h.symm
      · intro h; rw [h]
    | some k2 => simp

/-! ### a different password -/

/-- `wrong_password_error_or_inner` - reading a file written under `pwd` with a password `pwd2` (any
    other password; nothing is assumed about the derived key): the result is EITHER the error
    "pkcs8: incorrect password" OR a key that `ParsePKCS8UnecryptedPrivateKey` accepted from the bytes
    mis-decrypted under `pwd2`'s key.  No other error, and no other source of "a different key". -/
theorem wrong_password_error_or_inner (P : Params K) (k : K) (pwd pwd2 salt iv : Bytes)
    (hiv : iv.length = 16) :
    parse P (marshal P k pwd salt iv) pwd2 = .error .incorrectPassword ∨
    ∃ k2, parse P (marshal P k pwd salt iv) pwd2 = .ok k2 ∧
      P.parseInner (cbcDecrypt P.D (P.kdf .sha1 pwd2 salt 2048) iv
        (marshal P k pwd salt iv).encryptedData) = some k2 := by
  have h := parse_eq P (marshal P k pwd salt iv) pwd2
  rw [(marshal_structure P k pwd salt iv hiv).1] at h
  change parse P _ pwd2 = (match P.parseInner (cbcDecrypt P.D (P.kdf .sha1 pwd2 salt 2048) iv
        (marshal P k pwd salt iv).encryptedData) with
      | none => Except.error Err.incorrectPassword
      | some k => Except.ok k) at h
  generalize P.parseInner (cbcDecrypt P.D (P.kdf .sha1 pwd2 salt 2048) iv
        (marshal P k pwd salt iv).encryptedData) = r at h ⊢
  cases r with
  | none => exact Or.inl h
  | some k2 => exact Or.inr ⟨k2, h, rfl⟩

/-- `wrong_password_rejected` - the clause "a different password is reported as an error, not a
    different key", RELATIVE to the hypothesis `hRej` that the inner parser refuses the bytes obtained by
    decrypting under the other password's key.  `hRej` is not provable for a real cipher and all
    passwords: it fails for HMAC-equivalent passwords (`second_password_opens`), and for an unrelated
    key it holds with overwhelming probability only (the garbage would have to start with a well-formed
    PKCS#8 SEQUENCE carrying the SM2 OID and a scalar below the group order). -/
theorem wrong_password_rejected (P : Params K) (k : K) (pwd pwd2 salt iv : Bytes) (hiv : iv.length = 16)
    (hRej : P.parseInner (cbcDecrypt P.D (P.kdf .sha1 pwd2 salt 2048) iv
      (marshal P k pwd salt iv).encryptedData) = none) :
    parse P (marshal P k pwd salt iv) pwd2 = .error .incorrectPassword := by
  rcases wrong_password_error_or_inner P k pwd pwd2 salt iv hiv with h | ⟨k2, _, h2⟩
  · exact h
  · rw [hRej] at h2; exact nomatch h2

/-- the same for ANY envelope: whatever the file and the password, the outcome is a structural error
    that no password changes, or "incorrect password", or a key the inner parser accepted -/
theorem parse_trichotomy (P : Params K) (env : Envelope) (pwd : Bytes) :
    (∃ e, structErr env = some e ∧ ∀ pwd2, parse P env pwd2 = .error e) ∨
    parse P env pwd = .error .incorrectPassword ∨
    ∃ k, parse P env pwd = .ok k ∧ P.parseInner (decrypted P env (derivedKey P env pwd)) = some k := by
  cases hs : structErr env with
  | some e => exact Or.inl ⟨e, rfl, fun pwd2 => by rw [parse_eq, hs]⟩
  | none =>
    right
    rw [parse_eq, hs]
    cases P.parseInner (decrypted P env (derivedKey P env pwd)) with
    | none => exact Or.inl rfl
    | some k => exact Or.inr ⟨k, rfl, rfl⟩

/-! ### malformed envelopes -/

/-- the `switch` of lines 255-270 knows exactly the four HMAC OIDs md5, sha1, sha256, sha512 -/
theorem prfOfOid_none_iff (o : Oid) :
    prfOfOid o = none ↔ o ≠ oidKEYMD5 ∧ o ≠ oidKEYSHA1 ∧ o ≠ oidKEYSHA256 ∧ o ≠ oidKEYSHA512 := by
  unfold prfOfOid
  by_cases h1 : o = oidKEYMD5
  · rw [if_pos h1]; exact ⟨fun h => (nomatch h), fun h => absurd h1 h.1⟩
  by_cases h2 : o = oidKEYSHA1
  · rw [if_neg h1, if_pos h2]; exact ⟨fun h => (nomatch h), fun h => absurd h2 h.2.1⟩
  by_cases h3 : o = oidKEYSHA256
  · rw [if_neg h1, if_neg h2, if_pos h3]; exact ⟨fun h => (nomatch h), fun h => absurd h3 h.2.2.1⟩
  by_cases h4 : o = oidKEYSHA512
  · rw [if_neg h1, if_neg h2, if_neg h3, if_pos h4]
    exact ⟨fun h => (nomatch h), fun h => absurd h4 h.2.2.2⟩
  rw [if_neg h1, if_neg h2, if_neg h3, if_neg h4]
  exact ⟨fun _ => ⟨h1, h2, h3, h4⟩, fun _ => rfl⟩

/-- a structural error is the verdict for EVERY password (`ParsePKCS8EcryptedPrivateKey` lines 237-280
    run before the password-dependent decryption is looked at) -/
theorem structErr_any_password (P : Params K) (env : Envelope) (e : Err) (h : structErr env = some e)
    (pwd : Bytes) : parse P env pwd = .error e := by
  rw [parse_eq, h]

/-- `structural_rejections` - each malformed field yields its specific error whatever the password, in
    the order of the code: wrong PBES2 OID ↦ "only support PBES2"; wrong KDF OID ↦ "only support PBKDF2";
    a cipher OID other than aes128-CBC / aes256-CBC ↦ "unknow encryption algorithm"; a PRF OID outside
    the four ↦ "unknown hash algorithm"; an IV of another length than 16 ↦ "invalid IV length in PBES2
    parameters"; empty data or a length that is not a multiple of 16 ↦ "encrypted key is not a multiple
    of the block size".  (Each later error presupposes that the earlier checks passed.) -/
theorem structural_rejections (P : Params K) (env : Envelope) (pwd : Bytes) :
    (env.pbes2Oid ≠ oidPBES2 → parse P env pwd = .error .onlyPBES2) ∧
    (env.pbes2Oid = oidPBES2 → env.kdfOid ≠ oidPBKDF2 → parse P env pwd = .error .onlyPBKDF2) ∧
    (env.pbes2Oid = oidPBES2 → env.kdfOid = oidPBKDF2 →
      env.encOid ≠ oidAES128CBC → env.encOid ≠ oidAES256CBC → parse P env pwd = .error .unknownEncAlg) ∧
    (env.pbes2Oid = oidPBES2 → env.kdfOid = oidPBKDF2 →
      (env.encOid = oidAES128CBC ∨ env.encOid = oidAES256CBC) →
      prfOfOid env.prfOid = none → parse P env pwd = .error .unknownHash) ∧
    (env.pbes2Oid = oidPBES2 → env.kdfOid = oidPBKDF2 →
      (env.encOid = oidAES128CBC ∨ env.encOid = oidAES256CBC) →
      prfOfOid env.prfOid ≠ none → env.iv.length ≠ 16 → parse P env pwd = .error .invalidIVLength) ∧
    (env.pbes2Oid = oidPBES2 → env.kdfOid = oidPBKDF2 →
      (env.encOid = oidAES128CBC ∨ env.encOid = oidAES256CBC) →
      prfOfOid env.prfOid ≠ none → env.iv.length = 16 →
      (env.encryptedData.length = 0 ∨ env.encryptedData.length % 16 ≠ 0) →
      parse P env pwd = .error .notMultiple) := by
  have enc : (env.encOid = oidAES128CBC ∨ env.encOid = oidAES256CBC) →
      ¬(env.encOid ≠ oidAES128CBC ∧ env.encOid ≠ oidAES256CBC) := by
    intro h hh; rcases h with h | h
    · exact hh.1 h
    · exact hh.2 h
  refine ⟨?_, ?_, ?_, ?_, ?_, ?_⟩
  · intro h1
    exact structErr_any_password P env _ (by unfold structErr; rw [if_pos h1]) pwd
  · intro h1 h2
    exact structErr_any_password P env _ (by
      unfold structErr; rw [if_neg (fun h => h h1), if_pos h2]) pwd
  · intro h1 h2 h3 h3b
    exact structErr_any_password P env _ (by
      unfold structErr; rw [if_neg (fun h => h h1), if_neg (fun h => h h2), if_pos ⟨h3, h3b⟩]) pwd
  · intro h1 h2 h3 h4
    exact structErr_any_password P env _ (by
      unfold structErr
      rw [if_neg (fun h => h h1), if_neg (fun h => h h2), if_neg (enc h3), if_pos h4]) pwd
  · intro h1 h2 h3 h4 h5
    exact structErr_any_password P env _ (by
      unfold structErr
      rw [if_neg (fun h => h h1), if_neg (fun h => h h2), if_neg (enc h3), if_neg h4, if_pos h5]) pwd
  · intro h1 h2 h3 h4 h5 h6
    exact structErr_any_password P env _ (by
      unfold structErr
      rw [if_neg (fun h => h h1), if_neg (fun h => h h2), if_neg (enc h3), if_neg h4,
        if_neg (fun h => h h5), if_pos h6]) pwd

/-- both AES OIDs are accepted by `ParsePKCS8EcryptedPrivateKey` and treated alike: the cipher OID is
    only compared, never used - the key always has 32 bytes, so an envelope that names aes128-CBC is
    decrypted with AES-256 all the same -/
theorem enc_oid_not_used (P : Params K) (env : Envelope) (pwd : Bytes) (h : env.encOid = oidAES256CBC) :
    parse P { env with encOid := oidAES128CBC } pwd = parse P env pwd := by
  unfold parse
  simp only [h]
  have a : ¬(oidAES128CBC ≠ oidAES128CBC ∧ oidAES128CBC ≠ oidAES256CBC) := fun hh => hh.1 rfl
  have b : ¬(oidAES256CBC ≠ oidAES128CBC ∧ oidAES256CBC ≠ oidAES256CBC) := fun hh => hh.2 rfl
  rw [if_neg a, if_neg b]

/-! ### nil password / empty password -/

/-- `ParsePKCS8PrivateKey(der, nil)` is `ParsePKCS8UnecryptedPrivateKey(der)` (the envelope decoder is
    not consulted; errors of the inner parser pass through); `MarshalSm2PrivateKey(key, nil)` is
    `MarshalSm2UnecryptedPrivateKey(key)` - no salt, no IV, no encryption. -/
theorem dispatch_nil (P : Params K) (der : Bytes) (k : K) (salt iv : Bytes) :
    parsePrivateKey P der none =
      (match P.parseInner der with
        | none => .error .inner
        | some k => .ok k) ∧
    marshalPrivateKey P k none salt iv = P.marshalInner k := ⟨rfl, rfl⟩

/-- every non-nil password, INCLUDING the empty `[]byte{}`, takes the encrypted path on both sides
    (`pwd == nil` is false for an empty non-nil slice): the key is then encrypted under
    `pbkdf([]byte{}, salt, …)`, and a plain PKCS#8 file read with `[]byte{}` is decoded as an envelope. -/
theorem dispatch_non_nil (P : Params K) (der pwd : Bytes) (k : K) (salt iv : Bytes) :
    parsePrivateKey P der (some pwd) = parseDer P der pwd ∧
    marshalPrivateKey P k (some pwd) salt iv = P.encodeEnv (marshal P k pwd salt iv) ∧
    parsePrivateKey P der (some []) = parseDer P der [] ∧
    marshalPrivateKey P k (some []) salt iv = P.encodeEnv (marshal P k [] salt iv) := ⟨rfl, rfl, rfl, rfl⟩

/-- `ParsePKCS8EcryptedPrivateKey` on bytes that `asn1.Unmarshal` cannot read as an
    `EncryptedPrivateKeyInfo`: "x509: unknown format", for every password -/
theorem parseDer_unknown_format (P : Params K) (der pwd : Bytes) (h : P.decodeEnv der = none) :
    parseDer P der pwd = .error .unknownFormat := by
  unfold parseDer; rw [h]

/-- `private_key_roundtrip` - C14 through the dispatching pair: `ParsePKCS8PrivateKey(
    MarshalSm2PrivateKey(key, pwd), pwd) = key` for a nil password, the empty password and every other
    password alike.  Hypotheses: `hED`, `hInner` as in `parse_marshal`, and `hCodec`: encoding/asn1 reads
    back the envelope it wrote (not modelled). -/
theorem private_key_roundtrip (P : Params K) (hED : ∀ k b, P.D k (P.E k b) = b)
    (hInner : InnerIgnoresTrailing P) (k : K) (pwd : Option Bytes) (salt iv : Bytes) (hiv : iv.length = 16)
    (hCodec : ∀ p, P.decodeEnv (P.encodeEnv (marshal P k p salt iv)) = some (marshal P k p salt iv)) :
    parsePrivateKey P (marshalPrivateKey P k pwd salt iv) pwd = .ok k := by
  cases pwd with
  | none =>
    show (match P.parseInner (P.marshalInner k) with
        | none => Except.error Err.inner
        | some k => Except.ok k) = _
    have := hInner k []
    rw [List.append_nil] at this
    rw [this]
  | some p =>
    show parseDer P (P.encodeEnv (marshal P k p salt iv)) p = _
    unfold parseDer
    rw [hCodec p]
    exact parse_marshal P hED hInner k p salt iv hiv

/-- mixing the two forms: a key written WITHOUT password and read WITH one (any, also the empty one) is
    never returned as a key unless the plain PKCS#8 bytes happen to decode as an envelope: if they do
    not (`asn1.Unmarshal` fails), the answer is "x509: unknown format". -/
theorem plain_read_with_password (P : Params K) (k : K) (pwd salt iv : Bytes)
    (h : P.decodeEnv (P.marshalInner k) = none) :
    parsePrivateKey P (marshalPrivateKey P k none salt iv) (some pwd) = .error .unknownFormat :=
  parseDer_unknown_format P _ pwd h

/-! ### non-vacuity: the toy instance satisfies the hypotheses, and concrete runs -/

theorem toy_hED : ∀ k b, toy.D k (toy.E k b) = b := by
  intro k b
  apply Subtype.ext
  show xorBytes (xorBytes b.1 k.1) k.1 = b.1
  exact xor_cancel_right _ _ (by rw [b.2, k.2]; omega)

theorem toy_hInner : InnerIgnoresTrailing toy := by
  intro k padding
  rfl

/-- `parse_marshal` is not vacuous: its hypotheses hold for the toy cipher and codec -/
example (k : Byte) (pwd salt iv : Bytes) (hiv : iv.length = 16) :
    parse toy (marshal toy k pwd salt iv) pwd = .ok k :=
  parse_marshal toy toy_hED toy_hInner k pwd salt iv hiv

deriving instance DecidableEq for Except

def exSalt : Bytes := [1, 2, 3, 4, 5, 6, 7, 8]
def exIv : Bytes := [0, 1, 2, 3, 4, 5, 6, 7, 8, 9, 10, 11, 12, 13, 14, 15]

/-- concrete runs of the model (kernel-evaluated): same password ↦ the key; another password ↦
    "incorrect password" (here `hRej` holds: the garbage does not start with 0x30); an envelope with one
    byte cut off ↦ "not a multiple"; through the dispatchers with the empty non-nil password -/
example : parse toy (marshal toy 0x41#8 [0x70, 0x77] exSalt exIv) [0x70, 0x77] = .ok 0x41#8 := by decide
example : parse toy (marshal toy 0x41#8 [0x70, 0x77] exSalt exIv) [0x71, 0x77] = .error .incorrectPassword := by
  decide
/-- `hRej` is a genuine hypothesis: in the toy instance (whose inner parser checks one byte only) a
    wrong password that leaves that byte intact yields A DIFFERENT KEY, through exactly the door that
    `wrong_password_error_or_inner` names -/
example : parse toy (marshal toy 0x41#8 [0x70, 0x77] exSalt exIv) [0x70, 0x78] = .ok 0x4e#8 := by decide
example : (marshal toy 0x41#8 [0x70, 0x77] exSalt exIv).encryptedData.length = 16 := by decide
example : parse toy { marshal toy 0x41#8 [0x70] exSalt exIv with encryptedData := [1, 2, 3] } [0x70]
    = .error .notMultiple := by decide
example : parse toy { marshal toy 0x41#8 [0x70] exSalt exIv with prfOid := [1, 2, 3] } [0x70]
    = .error .unknownHash := by decide
example : parsePrivateKey toy (marshalPrivateKey toy 0x41#8 (some []) exSalt exIv) (some []) = .ok 0x41#8 := by
  decide
example : parsePrivateKey toy (marshalPrivateKey toy 0x41#8 none exSalt exIv) none = .ok 0x41#8 := by decide

end Gmsm.Props.C14Env
