/-
C07 (record layer), padding check: the constant-time `extractPadding` of gmtls/conn.go, transcribed bit
for bit in `Model.ExtractPadding.extractPaddingGo` (uint = BitVec 64, int32 conversion + arithmetic
shift, byte masks, the `for` loop as a fold, the "AND the bits together and replicate" tail), computes
exactly the predicate-level `Model.Record.extractPadding` that the record-layer theorems
(`Props/C07*.lean`) are stated over:

  toRemove = paddingLen + 1,
  good = 255  iff  paddingLen + 1 ≤ len(payload) and the last paddingLen + 1 bytes all equal paddingLen,
  good = 0    otherwise,

for every payload shorter than 2^31 bytes (record bodies are at most 16384 + 2048 bytes).  The bound is
needed: the code looks at bit 31 of the 64-bit difference `uint(len-1) - uint(paddingLen)`, which is the
sign of the difference only while `len - 1 < 2^31` (see `msbMask_needs_bound`).
Core Lean only.
-/
import Gmsm.Model.ExtractPadding
import Gmsm.Model.Record
namespace Props.C07Pad
open Gmsm Model.ExtractPadding

/-! ### 1. the mask `byte(int32(^t) >> 31)` -/

/-- an arithmetic shift of an int32 by 31 replicates bit 31 into all 32 bits -/
theorem sshift31 (x : BitVec 32) :
    x.sshiftRight 31 = if x.getLsbD 31 then BitVec.allOnes 32 else 0 := by
  apply BitVec.eq_of_getLsbD_eq
  intro i hi
  rw [BitVec.getLsbD_sshiftRight, BitVec.msb_eq_getLsbD_last]
  have h1 : ¬ (32 ≤ i) := by omega
  have h2 : (31 + i < 32) ↔ i = 0 := by omega
  have h3 : (BitVec.allOnes 32).getLsbD i = true := by rw [BitVec.getLsbD_allOnes]; simpa using hi
  by_cases hz : i = 0
  · subst hz
    cases h : x.getLsbD 31 <;> simp [-BitVec.getLsbD_eq_getElem]
  · cases h : x.getLsbD 31
    · simp [-BitVec.getLsbD_eq_getElem, h1, h2, hz]
    · simp only [if_true, h3]; simp [-BitVec.getLsbD_eq_getElem, h1, h2, hz]

/-- `byte(int32(^t) >> 31)` is 0xFF when bit 31 of `t` is 0 and 0x00 when it is 1; nothing else of `t`
    matters (for every 64-bit `t`, no range assumption) -/
theorem msbMask_bit (t : BitVec 64) :
    msbMask t = if t.getLsbD 31 then 0x00#8 else 0xFF#8 := by
  unfold msbMask
  rw [sshift31]
  have : (BitVec.setWidth 32 (~~~t)).getLsbD 31 = !t.getLsbD 31 := by
    simp
  rw [this]
  cases t.getLsbD 31 <;> decide

/-- the comment in the Go code ("then the MSB of t is zero"), as an equivalence -/
theorem msbMask_eq_ff_iff (t : BitVec 64) : msbMask t = 0xFF#8 ↔ t.getLsbD 31 = false := by
  rw [msbMask_bit]; cases t.getLsbD 31 <;> decide

/-- for `x, y < 2^31`, bit 31 of the 64-bit wrap-around difference `uint(x) - uint(y)` is the borrow -/
theorem sub_bit31 (x y : Nat) (hx : x < 2 ^ 31) (hy : y < 2 ^ 31) :
    (BitVec.ofNat 64 x - BitVec.ofNat 64 y).getLsbD 31 = decide (x < y) := by
  rw [← BitVec.testBit_toNat, Nat.testBit_eq_decide_div_mod_eq, BitVec.toNat_sub]
  simp only [BitVec.toNat_ofNat]
  have e31 : (2:Nat) ^ 31 = 2147483648 := by decide
  have e64 : (2:Nat) ^ 64 = 18446744073709551616 := by decide
  rw [e31] at hx hy ⊢
  rw [e64]
  by_cases h : x < y
  · simp only [h, decide_true, decide_eq_true_eq]; omega
  · simp only [h, decide_false, decide_eq_false_iff_not]; omega

/-- `t := uint(x) - uint(y); mask := byte(int32(^t) >> 31)` is the constant-time `y ≤ x` for
    `x, y < 2^31`: 0xFF if `y ≤ x`, else 0x00 -/
theorem msbMask_sub (x y : Nat) (hx : x < 2 ^ 31) (hy : y < 2 ^ 31) :
    msbMask (BitVec.ofNat 64 x - BitVec.ofNat 64 y) = if y ≤ x then 0xFF#8 else 0x00#8 := by
  rw [msbMask_bit, sub_bit31 x y hx hy]
  by_cases h : x < y
  · have : ¬ y ≤ x := by omega
    simp [h, this]
  · have : y ≤ x := by omega
    simp [h, this]

/-- the bound is necessary: with `len(payload) - 1 = 2^31` and `paddingLen = 0` the difference is
    `2^31`, bit 31 is set and the mask says "too short" although `0 ≤ 2^31` -/
theorem msbMask_needs_bound :
    msbMask (BitVec.ofNat 64 (2 ^ 31) - BitVec.ofNat 64 0) = 0x00#8 := by
  rw [msbMask_bit]; decide

/-! ### 2. the tail "AND together the bits of good and replicate" -/

/-- `good &= good<<4; good &= good<<2; good &= good<<1; good = uint8(int8(good)>>7)` yields 0xFF if all
    eight bits of `good` were set and 0x00 for each of the other 255 values -/
theorem andBits_spec : ∀ g : BitVec 8, andBits g = if g = 0xFF#8 then 0xFF#8 else 0x00#8 := by
  decide

/-! ### 3. the loop -/

/-- `uint(paddingLen)` -/
theorem setWidth64_byte (p : BitVec 8) : p.setWidth 64 = BitVec.ofNat 64 p.toNat := by
  apply BitVec.eq_of_toNat_eq
  simp

/-- one iteration: positions `i ≤ paddingLen` clear the bits of `good` in which `payload[len-1-i]`
    differs from `paddingLen`; positions `i > paddingLen` leave `good` unchanged -/
theorem loopBody_eq (payload : Bytes) (p g : BitVec 8) (i : Nat) (hi : i < 2 ^ 31) :
    loopBody payload p g i =
      if i ≤ p.toNat then g &&& ~~~(p ^^^ payload.getD (payload.length - 1 - i) 0) else g := by
  unfold loopBody
  have hp : p.toNat < 2 ^ 31 := by have := p.isLt; omega
  simp only [setWidth64_byte, msbMask_sub p.toNat i hp hi]
  by_cases h : i ≤ p.toNat
  · have e : ∀ b : BitVec 8, 255#8 &&& b = b := by decide
    simp [h, e]
  · have e : ∀ b : BitVec 8, b &&& 255#8 = b := by decide
    simp [h, e]

/-- bits are only ever cleared: all bits survive a step iff they were all set and the byte matched -/
theorem and_not_xor_eq_ff (g p b : BitVec 8) :
    g &&& ~~~(p ^^^ b) = 0xFF#8 ↔ g = 0xFF#8 ∧ b = p := by
  have e : (0xFF#8) = BitVec.allOnes 8 := rfl
  rw [e, BitVec.and_eq_allOnes_iff, BitVec.not_eq_comm]
  have : ~~~(BitVec.allOnes 8) = 0#8 := by decide
  rw [this, BitVec.xor_eq_zero_iff]
  constructor
  · rintro ⟨a, b⟩; exact ⟨a, b.symm⟩
  · rintro ⟨a, b⟩; exact ⟨a, b.symm⟩

/-- loop invariant: after `n` iterations all eight bits of `good` are still set iff they were set
    initially and every examined byte at distance `i ≤ paddingLen` from the end equals `paddingLen` -/
theorem loop_inv (payload : Bytes) (p g : BitVec 8) (n : Nat) (hn : n ≤ 2 ^ 31) :
    (List.range n).foldl (loopBody payload p) g = 0xFF#8 ↔
      g = 0xFF#8 ∧ ∀ i, i < n → i ≤ p.toNat → payload.getD (payload.length - 1 - i) 0 = p := by
  induction n with
  | zero => simp
  | succ n ih =>
    rw [List.range_succ, List.foldl_append]
    simp only [List.foldl_cons, List.foldl_nil]
    rw [loopBody_eq _ _ _ _ (by omega)]
    have ih := ih (by omega)
    by_cases h : n ≤ p.toNat
    · simp only [h, if_true, and_not_xor_eq_ff, ih]
      constructor
      · rintro ⟨⟨hg, hall⟩, hb⟩
        refine ⟨hg, fun i hi hip => ?_⟩
        by_cases e : i = n
        · subst e; exact hb
        · exact hall i (by omega) hip
      · rintro ⟨hg, hall⟩
        exact ⟨⟨hg, fun i hi hip => hall i (by omega) hip⟩, hall n (by omega) h⟩
    · simp only [h, if_false, ih]
      constructor
      · rintro ⟨hg, hall⟩
        refine ⟨hg, fun i hi hip => hall i (by omega) hip⟩
      · rintro ⟨hg, hall⟩
        exact ⟨hg, fun i hi hip => hall i (by omega) hip⟩


/-- the condition the loop establishes (indices counted from the end, cut off at `toCheck`) is the
    condition of the predicate model (the last `p+1` bytes as a sublist) -/
theorem pad_iff (payload : Bytes) (last : BitVec 8) (hlen : 1 ≤ payload.length) :
    (last.toNat ≤ payload.length - 1 ∧
      ∀ i, i < toCheck payload → i ≤ last.toNat → payload.getD (payload.length - 1 - i) 0 = last) ↔
    (last.toNat + 1 ≤ payload.length ∧
      (payload.drop (payload.length - (last.toNat + 1))).all (· == last) = true) := by
  have hp : last.toNat < 256 := last.isLt
  constructor
  · rintro ⟨h1, h2⟩
    refine ⟨by omega, ?_⟩
    rw [List.all_eq_true]
    intro x hx
    rw [List.mem_drop_iff_getElem] at hx
    obtain ⟨j, hj, rfl⟩ := hx
    have hi : last.toNat - j < toCheck payload := by unfold toCheck; split <;> omega
    have := h2 (last.toNat - j) hi (by omega)
    rw [List.getD_eq_getElem?_getD, List.getElem?_eq_getElem (by omega)] at this
    simp only [Option.getD_some] at this
    have e : payload.length - 1 - (last.toNat - j) = payload.length - (last.toNat + 1) + j := by omega
    simp only [e] at this
    simp [this]
  · rintro ⟨h1, h2⟩
    refine ⟨by omega, fun i hi hip => ?_⟩
    rw [List.all_eq_true] at h2
    rw [List.getD_eq_getElem?_getD, List.getElem?_eq_getElem (by omega)]
    simp only [Option.getD_some]
    have := h2 (payload[payload.length - 1 - i]'(by omega)) (by
      rw [List.mem_drop_iff_getElem]
      refine ⟨last.toNat - i, by omega, ?_⟩
      congr 1; omega)
    simpa using this

/-! ### 4. main theorem -/

/-- **`extractPadding` (conn.go) computes the padding predicate.**  For every payload of fewer than
    2^31 bytes the bit-level function returns `toRemove = paddingLen + 1` (0 for the empty payload) and
    `good = 0xFF` exactly when `paddingLen + 1 ≤ len(payload)` and the last `paddingLen + 1` bytes all
    equal `paddingLen`; `good = 0x00` in every other case. -/
theorem extractPaddingGo_spec (payload : Bytes) (hlen : payload.length < 2 ^ 31) :
    extractPaddingGo payload =
      ((Model.Record.extractPadding payload).1,
       if (Model.Record.extractPadding payload).2 then 0xFF#8 else 0x00#8) := by
  by_cases h0 : payload.length < 1
  · have : payload = [] := List.eq_nil_of_length_eq_zero (by omega)
    subst this
    rfl
  · have h1 : 1 ≤ payload.length := by omega
    have hl : payload.getLast? = some (payload.getD (payload.length - 1) 0) := by
      rw [List.getLast?_eq_getElem?, List.getD_eq_getElem?_getD, List.getElem?_eq_getElem (by omega)]
      rfl
    generalize hlast : payload.getD (payload.length - 1) 0 = last at hl
    have hp : last.toNat < 256 := last.isLt
    unfold extractPaddingGo Model.Record.extractPadding
    simp only [h0, if_false, hl, hlast, andBits_spec]
    have hc : toCheck payload ≤ 2 ^ 31 := by unfold toCheck; split <;> omega
    have key := loop_inv payload last
      (msbMask (BitVec.ofNat 64 (payload.length - 1) - last.setWidth 64)) (toCheck payload) hc
    rw [setWidth64_byte, msbMask_sub _ _ (by omega) (by omega)] at key ⊢
    have hm : (if last.toNat ≤ payload.length - 1 then 0xFF#8 else 0x00#8) = 0xFF#8 ↔
        last.toNat ≤ payload.length - 1 := by
      split <;> simp [*]
    rw [hm, pad_iff payload last h1] at key
    by_cases hg : (last.toNat + 1 ≤ payload.length ∧
      (payload.drop (payload.length - (last.toNat + 1))).all (· == last) = true)
    · simp only [key.mpr hg, if_true, hg, decide_true, and_self]
    · have := mt key.mp hg
      simp only [this, if_false, hg, decide_false]
      simp

/-! ### 5. corollaries -/

/-- `good` is one of the two values 0x00 / 0xFF for every payload (no length bound): the caller's
    `macAndPaddingGood := subtle.ConstantTimeCompare(..) & int(paddingGood)` ... `!= 1` test is sound -/
theorem extractPaddingGo_good_cases (payload : Bytes) :
    (extractPaddingGo payload).2 = 0x00#8 ∨ (extractPaddingGo payload).2 = 0xFF#8 := by
  unfold extractPaddingGo
  split
  · exact Or.inl rfl
  · simp only [andBits_spec]
    split
    · exact Or.inr rfl
    · exact Or.inl rfl

/-- `toRemove ≤ 256` for every payload (no length bound) -/
theorem extractPaddingGo_toRemove_le (payload : Bytes) : (extractPaddingGo payload).1 ≤ 256 := by
  unfold extractPaddingGo
  split
  · exact Nat.zero_le _
  · have := (payload.getD (payload.length - 1) 0).isLt
    simp only; omega

/-- `good = 0xFF` iff the predicate model accepts the padding -/
theorem extractPaddingGo_good_iff (payload : Bytes) (hlen : payload.length < 2 ^ 31) :
    (extractPaddingGo payload).2 = 0xFF#8 ↔ (Model.Record.extractPadding payload).2 = true := by
  rw [extractPaddingGo_spec payload hlen]
  cases (Model.Record.extractPadding payload).2 <;> simp

/-- the acceptance condition spelled out without reference to the predicate model: the payload is
    non-empty, its last byte `p` satisfies `p + 1 ≤ len`, and each of the last `p + 1` bytes is `p` -/
theorem extractPaddingGo_good_iff_explicit (payload : Bytes) (hlen : payload.length < 2 ^ 31) :
    (extractPaddingGo payload).2 = 0xFF#8 ↔
      ∃ last, payload.getLast? = some last ∧ last.toNat + 1 ≤ payload.length ∧
        ∀ x ∈ payload.drop (payload.length - (last.toNat + 1)), x = last := by
  rw [extractPaddingGo_good_iff payload hlen]
  unfold Model.Record.extractPadding
  cases h : payload.getLast? with
  | none => simp
  | some last => simp [List.all_eq_true]

/-- when the padding is accepted, `toRemove ≤ len(payload)`: the caller's `n := len(payload) - macSize -
    paddingLen` removes bytes that exist -/
theorem extractPaddingGo_toRemove_le_length (payload : Bytes) (hlen : payload.length < 2 ^ 31)
    (hgood : (extractPaddingGo payload).2 = 0xFF#8) : (extractPaddingGo payload).1 ≤ payload.length := by
  have h2 := (extractPaddingGo_good_iff payload hlen).mp hgood
  rw [extractPaddingGo_spec payload hlen]
  revert h2
  unfold Model.Record.extractPadding
  cases payload.getLast? with
  | none => simp
  | some last => simp only [decide_eq_true_eq]; exact fun h => h.1

/-! ### 6. non-vacuity -/

-- valid pad of 3+1 bytes
example : extractPaddingGo [0xaa, 0xbb, 3, 3, 3, 3] = (4, 0xFF#8) := by decide
-- wrong byte deep in the pad
example : extractPaddingGo [0xaa, 0xbb, 3, 2, 3, 3] = (4, 0x00#8) := by decide
-- a single differing bit is enough (good is cleared bitwise: 3 ^ 0x83 = 0x80)
example : extractPaddingGo [0xaa, 0xbb, 0x83, 3, 3, 3] = (4, 0x00#8) := by decide
-- pad longer than the payload
example : extractPaddingGo [9, 9] = (10, 0x00#8) := by decide
-- pad exactly as long as the payload
example : extractPaddingGo [1, 1] = (2, 0xFF#8) := by decide
-- zero-length pad
example : extractPaddingGo [0x17, 0] = (1, 0xFF#8) := by decide
-- empty payload
example : extractPaddingGo [] = (0, 0x00#8) := by decide
-- bytes before the pad are not looked at
example : extractPaddingGo [7, 7, 7, 1, 1] = (2, 0xFF#8) := by decide
-- both sides of the main theorem take both values
example : (Model.Record.extractPadding [0xaa, 0xbb, 3, 3, 3, 3]).2 = true := by decide
example : (Model.Record.extractPadding [0xaa, 0xbb, 3, 2, 3, 3]).2 = false := by decide
-- the mask is the comparison
example : msbMask (BitVec.ofNat 64 5 - BitVec.ofNat 64 5) = 0xFF#8 := by decide
example : msbMask (BitVec.ofNat 64 5 - BitVec.ofNat 64 6) = 0x00#8 := by decide

end Props.C07Pad
