/-
C20 (shared objects): the lock discipline of `lruSessionCache`, of `Config.sessionTicketKeys` / the fields written
by `serverInit`, and the write sites of x509 `CertPool`, checked on facts that /verif/extract/locks2.go regenerates
from /repo's working tree on every run (`Gen.SharedLocks`).

Part 1 proves, for ANY table of access sites, what the Boolean checks of Model/SharedLocks.lean imply.
Part 2 discharges the checks on the regenerated table by kernel evaluation, and pins that the table really contains
the functions it is about, so an extractor that silently finds nothing fails the build.

What this is: a SYNTACTIC, per-function statement. "Lock in force at the site" means: walking the statements of the
function in order, a `B.Lock()` / `B.mutex.Lock()` (resp. `RLock`) on the same base EXPRESSION `B` as in the access
`B.field` precedes the site and no matching Unlock statement lies between (a deferred Unlock keeps it in force to the
end of the function); lock operations inside branches must be undone inside the branch (otherwise the extractor
reports a problem and `no_problems` fails).
What this is NOT: no aliasing analysis (two expressions for the same object, a guarded map or list handed out and
used elsewhere, whole-struct copies other than `*x`), no analysis of other packages or of user code writing the
exported `Config` fields, nothing about the memory model or about the Go runtime's mutexes themselves, and no claim
that functions are called only in the contexts the table lists. The race detector runs of C20 remain the dynamic side.
-/
import Gmsm.Model.SharedLocks
namespace Props.C20Shared
open Model.SharedLocks

-- Part 1: for any table --------------------------------------------------------------------------------------------

theorem site_of_discipline {t : Table} (h : disciplineOK t = true) {a : Access} (ha : a ∈ t) : siteOK a = true :=
  List.all_eq_true.mp h a ha

/-- S1 `write_needs_exclusive`: in a table that passes `disciplineOK`, every WRITE site of a mutex-guarded field
    (`lruSessionCache.m`, `.q`, `Config.sessionTicketKeys`) has the object's mutex locked exclusively at the site, or
    the object is fresh (created in that function, not yet visible to another goroutine). A read lock is not enough.
    Go meaning: dropping `c.Lock()` from `lruSessionCache.Put/Get`, or assigning `c.sessionTicketKeys` under
    `RLock` or with no lock, makes `disciplineOK` false for the regenerated table. -/
theorem write_needs_exclusive {t : Table} (h : disciplineOK t = true) {a : Access} (ha : a ∈ t)
    (hp : policy a.obj a.field = .mutexRW) (hw : a.write = true) : a.exclusive = true ∨ a.fresh = true := by
  have hs := site_of_discipline h ha
  simp only [siteOK, hp, hw, if_true, Bool.or_eq_true] at hs
  exact hs

/-- S2 `read_needs_lock`: every READ site of a mutex-guarded field holds the mutex at least shared (RLock), or
    exclusively, or the object is fresh. Go meaning: reading `c.sessionTicketKeys` before `c.mutex.RLock()` or after
    `c.mutex.RUnlock()` fails the check. -/
theorem read_needs_lock {t : Table} (h : disciplineOK t = true) {a : Access} (ha : a ∈ t)
    (hp : policy a.obj a.field = .mutexRW) (hw : a.write = false) :
    a.shared = true ∨ a.exclusive = true ∨ a.fresh = true := by
  have hs := site_of_discipline h ha
  simp only [siteOK, hp, hw, Bool.false_eq_true, if_false, Bool.or_eq_true] at hs
  rcases hs with (h1 | h1) | h1
  · exact Or.inl h1
  · exact Or.inr (Or.inl h1)
  · exact Or.inr (Or.inr h1)

/-- S3 `init_only_written_fresh`: a field with policy `initOnly` (`lruSessionCache.capacity`) is written only on a
    fresh object, i.e. by the constructor before the cache is returned; that is why reading it needs no lock. -/
theorem init_only_written_fresh {t : Table} (h : disciplineOK t = true) {a : Access} (ha : a ∈ t)
    (hp : policy a.obj a.field = .initOnly) (hw : a.write = true) : a.fresh = true := by
  have hs := site_of_discipline h ha
  simpa [siteOK, hp, hw] using hs

/-- S4 `config_write_protected`: a write of any other `Config` field inside the package happens with `c.mutex`
    locked exclusively, or inside a `Once.Do` literal, or on a fresh Config (a literal / a `Clone()` result that has
    not been published), or it is one of the listed set-up methods (`BuildNameToCertificate`, documented to be called
    before the Config is used). Go meaning: a handshake function that assigns `c.config.X = …` on the shared Config
    fails the check. It does NOT constrain reads of these fields and does not see writes by user code. -/
theorem config_write_protected {t : Table} (h : disciplineOK t = true) {a : Access} (ha : a ∈ t)
    (hp : policy a.obj a.field = .lockedWrite) (hw : a.write = true) :
    a.exclusive = true ∨ a.once = true ∨ a.fresh = true ∨ setupWriters.contains (a.obj, a.fn, a.field) = true := by
  have hs := site_of_discipline h ha
  simp only [siteOK, hp, hw, Bool.not_true, Bool.false_or, Bool.or_eq_true] at hs
  rcases hs with ((h1 | h1) | h1) | h1
  · exact Or.inl h1
  · exact Or.inr (Or.inl h1)
  · exact Or.inr (Or.inr (Or.inl h1))
  · exact Or.inr (Or.inr (Or.inr h1))

/-- S5 `unguarded_writer_listed`: an object without any lock (`CertPool`) is written, after construction, only by
    the listed functions (`CertPool.AddCert`). Go meaning: a pool is immutable except through `AddCert` (and
    `AppendCertsFromPEM`, which calls it); a new method or a verification routine that modifies a pool (for example a
    lazily built index) fails the check. Whether callers add certificates while another goroutine verifies against the
    same pool is outside this statement. -/
theorem unguarded_writer_listed {t : Table} (h : disciplineOK t = true) {a : Access} (ha : a ∈ t)
    (hp : policy a.obj a.field = .unguarded) (hw : a.write = true) :
    a.fresh = true ∨ unguardedWriters.contains (a.obj, a.fn) = true := by
  have hs := site_of_discipline h ha
  simp only [siteOK, hp, hw, Bool.not_true, Bool.false_or, Bool.or_eq_true] at hs
  exact hs

/-- S6 `discipline_splits`: `disciplineOK` implies the two table-level checks `writesHeld` and `readsHeld`. -/
theorem discipline_splits {t : Table} (h : disciplineOK t = true) : writesHeld t = true ∧ readsHeld t = true := by
  constructor
  · apply List.all_eq_true.mpr
    intro a ha
    cases hw : a.write
    · simp
    · by_cases hp : policy a.obj a.field = .mutexRW
      · rcases write_needs_exclusive h ha hp hw with h1 | h1 <;> simp [h1]
      · simp [hp]
  · apply List.all_eq_true.mpr
    intro a ha
    cases hw : a.write
    · by_cases hp : policy a.obj a.field = .mutexRW
      · rcases read_needs_lock h ha hp hw with h1 | h1 | h1 <;> simp [h1]
      · simp [hp]
    · simp

theorem subsetOf_sound {xs ys : List String} (h : subsetOf xs ys = true) {x : String} (hx : x ∈ xs) : x ∈ ys := by
  have := List.all_eq_true.mp h x hx
  simpa using this

/-- S7 `writers_complete`: `writersOf t obj field` really contains every function that has a write site of
    `obj.field` on a non-fresh object in `t` (so a statement "the writers are ⊆ L" speaks about all sites). -/
theorem writers_complete (t : Table) (obj field : String) {a : Access} (ha : a ∈ t) (ho : a.obj = obj)
    (hf : a.field = field) (hw : a.write = true) (hn : a.fresh = false) : a.fn ∈ writersOf t obj field := by
  unfold writersOf
  rw [List.mem_eraseDups]
  apply List.mem_map.mpr
  refine ⟨a, ?_, rfl⟩
  apply List.mem_filter.mpr
  refine ⟨ha, ?_⟩
  simp [ho, hf, hw, hn]

theorem writersObj_complete (t : Table) (obj : String) {a : Access} (ha : a ∈ t) (ho : a.obj = obj)
    (hw : a.write = true) (hn : a.fresh = false) : a.fn ∈ writersOfObj t obj := by
  unfold writersOfObj
  rw [List.mem_eraseDups]
  apply List.mem_map.mpr
  refine ⟨a, ?_, rfl⟩
  apply List.mem_filter.mpr
  refine ⟨ha, ?_⟩
  simp [ho, hw, hn]

-- Part 2: the regenerated table -------------------------------------------------------------------------------------

/-- T0 `no_problems`: the extractor classified every shape it met (no Lock inside a branch that is not undone there,
    no Lock call inside an expression, no guarded access in a deferred call, no goto, no unresolved base type, no
    `*cfg` whole-struct copy, no struct embedding a tracked type, every function left with its locks released or their
    Unlock deferred). -/
theorem no_problems : noProblems = true := by decide +kernel

/-- T1 `discipline_ok`: the regenerated table passes the discipline; with S1-S5 this gives, for the current source:
    every touch of `lruSessionCache.m/q` in `Put`/`Get` is under `c.Lock()`; every read of `sessionTicketKeys`
    (`Clone`, `serverInit`, `ensureTicketKeys`, `ticketKeys`) is under the RLock or Lock of the SAME Config expression,
    every write (`serverInit`, `SetSessionTicketKeys`) under its Lock; `serverInit`'s writes of `SessionTicketKey` and
    `SessionTicketsDisabled` are under `c.mutex.Lock()`; the pool is written only by `NewCertPool`/`AddCert`. -/
theorem discipline_ok : disciplineOK table = true := by decide +kernel

theorem writes_held : writesHeld table = true := (discipline_splits discipline_ok).1
theorem reads_held : readsHeld table = true := (discipline_splits discipline_ok).2

/-- T2 `cache_always_exclusive`: every access (read or write) of a field of `lruSessionCache` outside its
    constructor is under the exclusive `Lock()` of the cache - `sync.Mutex` has no shared mode. -/
theorem cache_always_exclusive :
    ∀ a ∈ table, a.obj = "lruSessionCache" → a.exclusive = true ∨ a.fresh = true := by
  have h : (table.all fun a => !(a.obj == "lruSessionCache") || a.exclusive || a.fresh) = true := by decide +kernel
  intro a ha ho
  have := List.all_eq_true.mp h a ha
  simpa [ho] using this

/-- T3 `ticket_key_writers`: the functions that assign `sessionTicketKeys` of an existing Config are among
    `serverInit` and `SetSessionTicketKeys` (both under `c.mutex.Lock()` by T1/S1). A new exported method that sets
    the keys shows up here even if it takes the lock. -/
theorem ticket_key_writers :
    subsetOf (writersOf table "Config" "sessionTicketKeys") ["Config.serverInit", "Config.SetSessionTicketKeys"] = true := by
  decide +kernel

/-- T4 `config_field_writers`: the (function, field) pairs of writes to an existing (non-fresh) Config, any field:
    only `serverInit` (`sessionTicketKeys`, `SessionTicketKey`, `SessionTicketsDisabled` - these are the fields
    initialised under `serverInitOnce`), `SetSessionTicketKeys`, and the set-up method `BuildNameToCertificate`. -/
theorem config_field_writers :
    ((table.filter fun a => a.obj == "Config" && a.write && !a.fresh).map fun a => (a.fn, a.field)).all
      [("Config.serverInit", "sessionTicketKeys"), ("Config.serverInit", "SessionTicketKey"),
       ("Config.serverInit", "SessionTicketsDisabled"), ("Config.SetSessionTicketKeys", "sessionTicketKeys"),
       ("Config.BuildNameToCertificate", "NameToCertificate")].contains = true := by decide +kernel

/-- T5 `cache_writers`: only `Put` and `Get` modify an existing cache. -/
theorem cache_writers :
    subsetOf (writersOfObj table "lruSessionCache") ["lruSessionCache.Put", "lruSessionCache.Get"] = true := by
  decide +kernel

/-- T6 `certpool_writers`: only `AddCert` modifies an existing pool, and `CertPool` has no field from package sync
    (no lock, no Once): all three tracked structs' sync fields are exactly the ones listed. If someone adds a lock or
    lazily built state to `CertPool`, this fails and the policy has to be revisited. -/
theorem certpool_writers :
    writersOfObj table "CertPool" = ["CertPool.AddCert"] ∧
    Gen.SharedLocks.syncFields = [("lruSessionCache", "Mutex", "sync.Mutex"), ("Config", "mutex", "sync.RWMutex"),
      ("Config", "serverInitOnce", "sync.Once")] := by decide +kernel

/-- T7 `no_reentrant_calls`: no function calls a method that locks its receiver's mutex (`Get`, `Put`, `Clone`,
    `serverInit`, `ensureTicketKeys`, `ticketKeys`, `SetSessionTicketKeys`) on an expression whose mutex it holds at
    that point; in particular `ensureTicketKeys` calls `serverInit` after `RUnlock`, and the `Once.Do` literals run
    `serverInit` without `c.mutex`. (Go mutexes are not re-entrant: such a call would block forever.) -/
theorem no_reentrant_calls : reentrantCalls Gen.SharedLocks.calls Gen.SharedLocks.acquirers = [] := by decide +kernel

/-- T8 `facts_present`: the analysis saw the functions it is about - an extractor that finds nothing fails here. -/
theorem facts_present :
    1 ≤ countSites table "lruSessionCache" "lruSessionCache.Get" "m" ∧
    1 ≤ countSites table "lruSessionCache" "lruSessionCache.Get" "q" ∧
    3 ≤ countSites table "lruSessionCache" "lruSessionCache.Put" "m" ∧
    3 ≤ countSites table "lruSessionCache" "lruSessionCache.Put" "q" ∧
    1 ≤ countSites table "lruSessionCache" "lruSessionCache.Put" "capacity" ∧
    1 ≤ countSites table "lruSessionCache" "NewLRUClientSessionCache" "m" ∧
    1 ≤ countSites table "lruSessionCache" "NewLRUClientSessionCache" "capacity" ∧
    1 ≤ countSites table "Config" "Config.ticketKeys" "sessionTicketKeys" ∧
    1 ≤ countSites table "Config" "Config.SetSessionTicketKeys" "sessionTicketKeys" ∧
    3 ≤ countSites table "Config" "Config.serverInit" "sessionTicketKeys" ∧
    1 ≤ countSites table "Config" "Config.serverInit" "SessionTicketKey" ∧
    1 ≤ countSites table "Config" "Config.serverInit" "SessionTicketsDisabled" ∧
    2 ≤ countSites table "Config" "Config.Clone" "sessionTicketKeys" ∧
    1 ≤ countSites table "Config" "Config.ensureTicketKeys" "sessionTicketKeys" ∧
    1 ≤ countSites table "CertPool" "CertPool.AddCert" "certs" ∧
    1 ≤ countSites table "CertPool" "CertPool.AddCert" "byName" ∧
    1 ≤ countSites table "CertPool" "NewCertPool" "byName" ∧
    Gen.SharedLocks.acquirers.contains ("lruSessionCache", "lruSessionCache.Get", 2) = true ∧
    Gen.SharedLocks.acquirers.contains ("lruSessionCache", "lruSessionCache.Put", 2) = true ∧
    Gen.SharedLocks.acquirers.contains ("Config", "Config.serverInit", 2) = true ∧
    Gen.SharedLocks.acquirers.contains ("Config", "Config.SetSessionTicketKeys", 2) = true ∧
    Gen.SharedLocks.acquirers.contains ("Config", "Config.ticketKeys", 1) = true ∧
    Gen.SharedLocks.calls.contains ("Config", "Config.ensureTicketKeys", "Config.serverInit", 4) = true ∧
    Gen.SharedLocks.calls.contains ("Config", "Config.ensureTicketKeys", "Config.serverInit", 0) = true ∧
    Gen.SharedLocks.calls.contains ("Config", "Config.Clone", "Config.serverInit", 4) = true ∧
    Gen.SharedLocks.calls.contains ("Config", "Conn.decryptTicket", "Config.ticketKeys", 0) = true := by
  decide +kernel

-- non-vacuity: the checks do reject the edits they are meant to catch ---------------------------------------------

/-- `Get` without its `c.Lock()`: the two sites have lock state 0 -/
example : disciplineOK [⟨"lruSessionCache", "lruSessionCache.Get", "m", false, 0⟩] = false := by decide +kernel
/-- reading the ticket keys before `RLock` -/
example : disciplineOK [⟨"Config", "Config.ticketKeys", "sessionTicketKeys", false, 0⟩] = false := by decide +kernel
/-- writing the ticket keys under the read lock only -/
example : disciplineOK [⟨"Config", "Config.Set", "sessionTicketKeys", true, 1⟩] = false := by decide +kernel
/-- … and the real shapes pass -/
example : disciplineOK [⟨"Config", "Config.ticketKeys", "sessionTicketKeys", false, 1⟩,
    ⟨"Config", "Config.SetSessionTicketKeys", "sessionTicketKeys", true, 2⟩,
    ⟨"lruSessionCache", "NewLRUClientSessionCache", "m", true, 8⟩] = true := by decide +kernel
/-- a verification routine that writes a pool -/
example : disciplineOK [⟨"CertPool", "CertPool.findVerifiedParents", "byName", true, 0⟩] = false := by decide +kernel
/-- a re-entrant call is found -/
example : reentrantCalls [("Config", "Config.ensureTicketKeys", "Config.serverInit", 1)] [("Config", "Config.serverInit", 2)] ≠ [] := by
  decide +kernel

end Props.C20Shared
