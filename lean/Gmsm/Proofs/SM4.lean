/-
Helper lemmas for C05: the Go model of SM4 (T-tables, in-place quad rounds) equals the GM/T 0002 spec,
and the generic Feistel inversion argument.
-/
import Gmsm.Model.SM4
import Gmsm.Proofs.Bits
namespace Proofs.SM4
open Gmsm Spec.SM4

-- tables regenerated from the Go source versus the standard ---------------------------------

theorem sbox_eq_std : Gen.SM4.sbox = Spec.SM4.Sbox := by decide +kernel
theorem fk_eq_std : Gen.SM4.fk = Spec.SM4.FK := by decide +kernel
theorem ck_eq_std : ∀ i : Fin 32, Gen.SM4.ck[i] = Spec.SM4.CK i := by decide +kernel

theorem t0 : ∀ i : Fin 256, Gen.SM4.sbox0[i] = L (zext8 Sbox[i]) := by decide +kernel
theorem t1 : ∀ i : Fin 256, Gen.SM4.sbox1[i] = L (zext8 Sbox[i] <<< 8) := by decide +kernel
theorem t2 : ∀ i : Fin 256, Gen.SM4.sbox2[i] = L (zext8 Sbox[i] <<< 16) := by decide +kernel
theorem t3 : ∀ i : Fin 256, Gen.SM4.sbox3[i] = L (zext8 Sbox[i] <<< 24) := by decide +kernel

/-- the S-box is a bijection on bytes -/
theorem sbox_injective : ∀ i j : Fin 256, Sbox[i] = Sbox[j] → i = j := by decide +kernel

-- linearity ------------------------------------------------------------------------------------

theorem L_xor (a b : W32) : L (a ^^^ b) = L a ^^^ L b := by
  unfold L; simp only [rotl_xor]; ac_rfl

-- table lookups --------------------------------------------------------------------------------

theorem sb_eq (x : W32) (k : Nat) :
    Sbox[((x >>> k) &&& 0xff).toNat]'(and_ff_lt _) = sb (x.extractLsb' k 8) := by
  unfold sb; congr 1; exact shr_and_ff_toNat x k

theorem sb_eq0 (x : W32) :
    Sbox[(x &&& 0xff).toNat]'(and_ff_lt _) = sb (x.extractLsb' 0 8) := by
  unfold sb; congr 1; exact and_ff_toNat x

theorem tab0 (x : W32) : Model.SM4.tab Gen.SM4.sbox0 x = L (zext8 (sb (x.extractLsb' 0 8))) := by
  unfold Model.SM4.tab
  have := t0 ⟨(x &&& 0xff).toNat, and_ff_lt x⟩
  simp only [Fin.getElem_fin] at this
  rw [this, sb_eq0]

theorem tab1 (x : W32) : Model.SM4.tab Gen.SM4.sbox1 (x >>> 8) = L (zext8 (sb (x.extractLsb' 8 8)) <<< 8) := by
  unfold Model.SM4.tab
  have := t1 ⟨((x >>> 8) &&& 0xff).toNat, and_ff_lt _⟩
  simp only [Fin.getElem_fin] at this
  rw [this, sb_eq]

theorem tab2 (x : W32) : Model.SM4.tab Gen.SM4.sbox2 (x >>> 16) = L (zext8 (sb (x.extractLsb' 16 8)) <<< 16) := by
  unfold Model.SM4.tab
  have := t2 ⟨((x >>> 16) &&& 0xff).toNat, and_ff_lt _⟩
  simp only [Fin.getElem_fin] at this
  rw [this, sb_eq]

theorem tab3 (x : W32) : Model.SM4.tab Gen.SM4.sbox3 (x >>> 24) = L (zext8 (sb (x.extractLsb' 24 8)) <<< 24) := by
  unfold Model.SM4.tab
  have := t3 ⟨((x >>> 24) &&& 0xff).toNat, and_ff_lt _⟩
  simp only [Fin.getElem_fin] at this
  rw [this, sb_eq]

/-- The four-table lookup of `cryptBlock` is the standard's `T = L ∘ τ`, for every word. -/
theorem tt_eq_T (x : W32) : Model.SM4.tt x = T x := by
  unfold Model.SM4.tt T tau
  rw [tab0, tab1, tab2, tab3, be32_xor, L_xor, L_xor, L_xor]
  ac_rfl

/-- `p` (byte-wise S-box of the key schedule) is τ -/
theorem p_eq_tau (a : W32) : Model.SM4.p a = tau a := by
  unfold Model.SM4.p tau Model.SM4.sboxAt
  rw [be32_xor]
  simp only [sbox_eq_std]
  rw [sb_eq a 24, sb_eq a 16, sb_eq a 8, sb_eq0 a]
  rfl

theorem rl_eq (x : W32) (i : Nat) : Model.SM4.rl x i = x.rotateLeft (i % 32) := goRotl_eq x i

theorem l0_eq (b : W32) : Model.SM4.l0 b = L' b := by
  unfold Model.SM4.l0 L'; rw [rl_eq, rl_eq]

theorem feistel0_eq (x0 x1 x2 x3 rk : W32) :
    Model.SM4.feistel0 x0 x1 x2 x3 rk = x0 ^^^ T' (x1 ^^^ x2 ^^^ x3 ^^^ rk) := by
  unfold Model.SM4.feistel0 T'; rw [p_eq_tau, l0_eq]

-- key schedule -----------------------------------------------------------------------------------

theorem ck_getD (i : Nat) (h : i < 32) : Gen.SM4.ck.getD i 0 = CK i := by
  have := ck_eq_std ⟨i, h⟩
  simp only [Fin.getElem_fin] at this
  rw [← this]
  simp [Vector.getD, h]

theorem genKeysAux_eq (n i : Nat) (s : St) (h : i + n ≤ 32) :
    Model.SM4.genKeysAux n i s = expandAux n i s := by
  induction n generalizing i s with
  | zero => rfl
  | succ n ih =>
    unfold Model.SM4.genKeysAux expandAux
    simp only [feistel0_eq, ck_getD i (by omega), kround]
    rw [ih (i+1) _ (by omega)]

theorem generateSubKeys_eq (key : Bytes) :
    Model.SM4.generateSubKeys key = expandKey (ofBytes key) := by
  unfold Model.SM4.generateSubKeys expandKey Model.SM4.permuteInitialBlock
  simp only [fk_eq_std]
  exact genKeysAux_eq 32 0 _ (by omega)

theorem expandAux_length (n i : Nat) (s : St) : (expandAux n i s).length = n := by
  induction n generalizing i s with
  | zero => rfl
  | succ n ih => simp [expandAux, ih]

theorem expandKey_length (mk : St) : (expandKey mk).length = 32 := expandAux_length _ _ _

-- rounds ---------------------------------------------------------------------------------------------

theorem quad_eq (b : St) (s0 s1 s2 s3 : W32) :
    Model.SM4.quad b s0 s1 s2 s3 = round (round (round (round b s0) s1) s2) s3 := by
  unfold Model.SM4.quad round
  simp only [tt_eq_T]
  congr 1
  · congr 2; ac_rfl
  · congr 2; ac_rfl
  · congr 2; ac_rfl

/-- `encLoop` over a key list whose length is a multiple of four is the spec's round iteration -/
theorem encLoop_eq (n : Nat) (ks : List W32) (h : ks.length = 4 * n) (b : St) :
    Model.SM4.encLoop ks b = rounds ks b := by
  induction n generalizing ks b with
  | zero =>
    have : ks = [] := List.eq_nil_of_length_eq_zero (by omega)
    subst this; rfl
  | succ n ih =>
    match ks, h with
    | s0 :: s1 :: s2 :: s3 :: rest, h =>
      unfold Model.SM4.encLoop
      rw [ih rest (by simp at h; omega), quad_eq]
      simp [rounds, List.foldl]

-- Feistel inversion (generic in the round function) -----------------------------------------------

theorem round_rev_round (s : St) (rk : W32) : round (rev (round s rk)) rk = rev s := by
  unfold round rev
  cases s with
  | mk x0 x1 x2 x3 =>
    simp only
    congr 1
    have e : x3 ^^^ x2 ^^^ x1 ^^^ rk = x1 ^^^ x2 ^^^ x3 ^^^ rk := by ac_rfl
    rw [e]
    rw [BitVec.xor_assoc, BitVec.xor_self, BitVec.xor_zero]

theorem rev_rev (s : St) : rev (rev s) = s := by cases s; rfl

theorem rounds_append (a b : List W32) (s : St) : rounds (a ++ b) s = rounds b (rounds a s) := by
  simp [rounds, List.foldl_append]

/-- running the rounds with the reversed key list on the reversed output undoes them -/
theorem rounds_reverse (ks : List W32) (s : St) :
    rounds ks.reverse (rev (rounds ks s)) = rev s := by
  induction ks generalizing s with
  | nil => rfl
  | cons k ks ih =>
    have h1 : rounds (k :: ks) s = rounds ks (round s k) := rfl
    rw [h1, List.reverse_cons, rounds_append, ih]
    show round (rev (round s k)) k = rev s
    exact round_rev_round s k

theorem decryptSt_encryptSt (mk x : St) : decryptSt mk (encryptSt mk x) = x := by
  unfold decryptSt encryptSt
  rw [rounds_reverse, rev_rev]

theorem encryptSt_decryptSt (mk y : St) : encryptSt mk (decryptSt mk y) = y := by
  unfold decryptSt encryptSt
  have := rounds_reverse (expandKey mk).reverse y
  rw [List.reverse_reverse] at this
  rw [this, rev_rev]

-- bytes <-> state ---------------------------------------------------------------------------------------

theorem ofBytes_toBytes (s : St) : ofBytes (toBytes s) = s := by
  cases s with
  | mk x0 x1 x2 x3 =>
    simp only [toBytes, w32bytes, ofBytes, List.cons_append, List.nil_append, List.getD_cons_zero,
      List.getD_cons_succ, be32_w32bytes]

theorem toBytes_length (s : St) : (toBytes s).length = 16 := by simp [toBytes, w32bytes]

theorem toBytes_ofBytes (b : Bytes) (h : b.length = 16) : toBytes (ofBytes b) = b := by
  match b, h with
  | [b0,b1,b2,b3,b4,b5,b6,b7,b8,b9,b10,b11,b12,b13,b14,b15], _ =>
    simp [toBytes, ofBytes, w32bytes_be32]

end Proofs.SM4
