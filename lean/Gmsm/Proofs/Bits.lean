/-
Bit-level helper lemmas and the `bitblast32` tactic (core Lean only, no `bv_decide`):
equalities between 32-bit vectors built from shifts, rotations, xor/and/or, appends and
width changes are proved bit by bit, by splitting the bit index into its 32 concrete values.
-/
import Gmsm.Util.Bytes
namespace Gmsm

theorem lt32_cases (i : Nat) (h : i < 32) :
  i = 0 ∨ i = 1 ∨ i = 2 ∨ i = 3 ∨ i = 4 ∨ i = 5 ∨ i = 6 ∨ i = 7 ∨ i = 8 ∨ i = 9 ∨ i = 10 ∨ i = 11 ∨
  i = 12 ∨ i = 13 ∨ i = 14 ∨ i = 15 ∨ i = 16 ∨ i = 17 ∨ i = 18 ∨ i = 19 ∨ i = 20 ∨ i = 21 ∨ i = 22 ∨
  i = 23 ∨ i = 24 ∨ i = 25 ∨ i = 26 ∨ i = 27 ∨ i = 28 ∨ i = 29 ∨ i = 30 ∨ i = 31 := by omega

theorem lt8_cases (i : Nat) (h : i < 8) :
  i = 0 ∨ i = 1 ∨ i = 2 ∨ i = 3 ∨ i = 4 ∨ i = 5 ∨ i = 6 ∨ i = 7 := by omega

set_option hygiene false in
/-- split a bit index `i < 32` into its 32 values -/
macro "bits32 " i:ident h:ident : tactic => `(tactic|
  (rcases lt32_cases $i $h with rfl|rfl|rfl|rfl|rfl|rfl|rfl|rfl|rfl|rfl|rfl|rfl|rfl|rfl|rfl|rfl|rfl|rfl|rfl|rfl|rfl|rfl|rfl|rfl|rfl|rfl|rfl|rfl|rfl|rfl|rfl|rfl))

set_option hygiene false in
macro "bits8 " i:ident h:ident : tactic => `(tactic|
  (rcases lt8_cases $i $h with rfl|rfl|rfl|rfl|rfl|rfl|rfl|rfl))

/-- prove an equation between `BitVec 32` terms bit by bit -/
macro "bitblast32" : tactic => `(tactic|
  (apply BitVec.eq_of_getLsbD_eq
   intro i hi
   bits32 i hi <;>
   simp only [BitVec.getLsbD_append, BitVec.getLsbD_xor, BitVec.getLsbD_and, BitVec.getLsbD_or,
     BitVec.getLsbD_shiftLeft, BitVec.getLsbD_ushiftRight, BitVec.getLsbD_setWidth,
     BitVec.getLsbD_extractLsb', BitVec.getLsbD_rotateLeft, BitVec.getLsbD_not] <;> simp))

macro "bitblast8" : tactic => `(tactic|
  (apply BitVec.eq_of_getLsbD_eq
   intro i hi
   bits8 i hi <;>
   simp only [BitVec.getLsbD_append, BitVec.getLsbD_xor, BitVec.getLsbD_and, BitVec.getLsbD_or,
     BitVec.getLsbD_shiftLeft, BitVec.getLsbD_ushiftRight, BitVec.getLsbD_setWidth,
     BitVec.getLsbD_extractLsb', BitVec.getLsbD_rotateLeft, BitVec.getLsbD_not] <;> simp))

def zext8 (b : Byte) : W32 := b.setWidth 32

theorem be32_xor (a b c d : Byte) :
    be32 a b c d = (zext8 a <<< 24) ^^^ (zext8 b <<< 16) ^^^ (zext8 c <<< 8) ^^^ zext8 d := by
  unfold be32 zext8; bitblast32

theorem be32_or (a b c d : Byte) :
    be32 a b c d = (zext8 a <<< 24) ||| (zext8 b <<< 16) ||| (zext8 c <<< 8) ||| zext8 d := by
  unfold be32 zext8; bitblast32

theorem rotl_xor (a b : W32) (k : Nat) :
    (a ^^^ b).rotateLeft k = a.rotateLeft k ^^^ b.rotateLeft k := by
  ext i hi
  simp only [BitVec.getElem_xor, BitVec.getElem_rotateLeft]
  split <;> rfl

/-- byte `k/8` of a word, the way Go extracts it (`(x >> k) & 0xff`), as an index -/
theorem shr_and_ff_toNat (x : W32) (k : Nat) :
    ((x >>> k) &&& 0xff).toNat = (x.extractLsb' k 8).toNat := by
  have h : ((x >>> k) &&& (0xff : W32)).toNat = (x.toNat >>> k) &&& 255 := by
    simp [BitVec.toNat_and, BitVec.toNat_ushiftRight]
  rw [h, BitVec.extractLsb'_toNat]
  exact Nat.and_two_pow_sub_one_eq_mod _ 8

theorem and_ff_toNat (x : W32) : (x &&& 0xff).toNat = (x.extractLsb' 0 8).toNat := by
  have := shr_and_ff_toNat x 0
  simpa using this

theorem w32bytes_be32 (a b c d : Byte) : w32bytes (be32 a b c d) = [a, b, c, d] := by
  unfold w32bytes be32
  have e1 : (a ++ b ++ c ++ d).extractLsb' 24 8 = a := by bitblast8
  have e2 : (a ++ b ++ c ++ d).extractLsb' 16 8 = b := by bitblast8
  have e3 : (a ++ b ++ c ++ d).extractLsb' 8 8 = c := by bitblast8
  have e4 : (a ++ b ++ c ++ d).extractLsb' 0 8 = d := by bitblast8
  rw [e1, e2, e3, e4]

theorem be32_w32bytes (w : W32) :
    be32 (w.extractLsb' 24 8) (w.extractLsb' 16 8) (w.extractLsb' 8 8) (w.extractLsb' 0 8) = w := by
  unfold be32; bitblast32

/-- Go's rotate idiom `x<<(i%32) | x>>(32-i%32)` (shift by 32 yields 0) is rotate-left by `i mod 32`,
    for every `i` — including `i % 32 = 0`. -/
theorem goRotl_eq (x : W32) (i : Nat) :
    (goShl32 x (i % 32) ||| goShr32 x (32 - i % 32)) = x.rotateLeft (i % 32) := by
  have hlt : i % 32 < 32 := Nat.mod_lt _ (by decide)
  unfold goShl32 goShr32
  by_cases h0 : i % 32 = 0
  · have hz : x >>> 32 = 0 := by
      apply BitVec.eq_of_toNat_eq
      simp [BitVec.toNat_ushiftRight, Nat.shiftRight_eq_div_pow, Nat.div_eq_of_lt x.isLt]
    simp [h0, BitVec.rotateLeft_def, hz]
  · have h1 : 32 - i % 32 < 32 := by omega
    simp only [hlt, h1, if_true]
    rw [BitVec.rotateLeft_def]
    simp [Nat.mod_eq_of_lt hlt]

end Gmsm
