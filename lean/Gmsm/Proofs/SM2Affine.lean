/-
The executable SM2 specification's affine arithmetic IS the group law.

`Spec.SM2` computes with natural numbers modulo p: `padd` (chord/tangent with a Fermat inversion
`invMod x p = x^(p-2) mod p` by fuel-bounded square-and-multiply), `smul` (fuel-bounded double-and-add).
This file connects these functions to Mathlib's group of nonsingular points
`WeierstrassCurve.Affine.Point` of the curve y² = x³ + a x + b over `ZMod p`:

 * A1 `powMod_eq`, `invMod_eq`, `invMod_eq_inv`: square-and-multiply computes `b ^ e % m`; `invMod` is the
   field inverse (Fermat, p prime by the Pratt certificate in `Proofs.SM2Prime`);
 * A2 `fsub_eq`: `fsub` is subtraction in `ZMod p`;
 * A3 `Valid`, `toPoint` (and the proof-free total version `pt`);
 * A4 `padd_valid`, `padd_eq` (`pt_padd`): `padd` is the group addition (all cases: infinity, chord,
   inverse points incl. 2-torsion, tangent);
 * A5 `smul_valid`, `smul_eq` (`pt_smul`): `smul k P = k • P` for k < 2^600 (the fuel);
 * A6 `toPoint_inj` (`pt_inj`): equalities in the group transfer back to equalities of spec points.
-/
import Gmsm.Spec.SM2
import Gmsm.Proofs.SM2Prime
import Gmsm.Proofs.ECFormulas
import Mathlib.FieldTheory.Finite.Basic
import Mathlib.Data.ZMod.Basic
import Mathlib.Algebra.Module.Basic
import Mathlib.Algebra.Module.NatInt
import Mathlib.Tactic.Abel

set_option exponentiation.threshold 700
namespace Proofs.SM2Affine
open Spec.SM2

/-! ## A1. Modular exponentiation and inversion -/

theorem powModAux_lt (fuel base e m acc : Nat) (hacc : acc < m) :
    powModAux fuel base e m acc < m := by
  induction fuel generalizing base e acc with
  | zero => exact hacc
  | succ f ih =>
    unfold powModAux
    split
    · exact hacc
    · apply ih
      split
      · exact Nat.mod_lt _ (by omega)
      · exact hacc

theorem powModAux_cast (fuel base e m acc : Nat) (he : e < 2 ^ fuel) :
    ((powModAux fuel base e m acc : Nat) : ZMod m) = (acc : ZMod m) * (base : ZMod m) ^ e := by
  induction fuel generalizing base e acc with
  | zero =>
    have : e = 0 := by simpa using he
    subst this; simp [powModAux]
  | succ f ih =>
    unfold powModAux
    split
    · next h0 => subst h0; simp
    · next h0 =>
      rw [ih _ _ _ (by rw [Nat.pow_succ] at he; omega)]
      split
      · next h1 =>
        have hE : e = 2 * (e / 2) + 1 := by omega
        conv_rhs => rw [hE]
        simp only [ZMod.natCast_mod, Nat.cast_mul]
        rw [pow_succ, pow_mul]; ring
      · next h1 =>
        have hE : e = 2 * (e / 2) := by omega
        conv_rhs => rw [hE]
        simp only [ZMod.natCast_mod, Nat.cast_mul]
        rw [pow_mul]; ring

theorem powMod_cast (b e m : Nat) (he : e < 2 ^ 600) :
    ((powMod b e m : Nat) : ZMod m) = (b : ZMod m) ^ e := by
  unfold powMod
  rw [powModAux_cast _ _ _ _ _ he]
  simp

theorem powMod_lt (b e m : Nat) (hm : 1 < m) : powMod b e m < m := by
  unfold powMod
  exact powModAux_lt _ _ _ _ _ (Nat.mod_lt _ (by omega))

/-- A1 `powMod_eq`: the fuel-bounded square-and-multiply computes `b ^ e % m` for every exponent
    below 2^600 (the spec only uses exponents `p - 2`, `n - 2` < 2^256) -/
theorem powMod_eq (b e m : Nat) (hm : 1 < m) (he : e < 2 ^ 600) : powMod b e m = b ^ e % m := by
  have h1 := powMod_cast b e m he
  rw [← Nat.cast_pow, ZMod.natCast_eq_natCast_iff'] at h1
  rw [← h1, Nat.mod_eq_of_lt (powMod_lt b e m hm)]

/-- A1 `invMod_eq_inv`: `invMod x m` is the inverse of `x` in the field `ZMod m` (0 ↦ 0) -/
theorem invMod_eq_inv (x m : Nat) [Fact m.Prime] (h2 : 2 < m) (hm : m < 2 ^ 600) :
    ((invMod x m : Nat) : ZMod m) = (x : ZMod m)⁻¹ := by
  unfold invMod
  rw [powMod_cast _ _ _ (by omega)]
  by_cases hx : (x : ZMod m) = 0
  · rw [hx, inv_zero, zero_pow (by omega)]
  · have h := ZMod.pow_card_sub_one_eq_one hx
    have : m - 1 = (m - 2) + 1 := by omega
    rw [this, pow_succ] at h
    exact eq_inv_of_mul_eq_one_left h

/-- A1 `invMod_eq`: the same on natural numbers -/
theorem invMod_eq (x m : Nat) [Fact m.Prime] (h2 : 2 < m) (hm : m < 2 ^ 600) (hx : x % m ≠ 0) :
    (x * invMod x m) % m = 1 := by
  have hx' : (x : ZMod m) ≠ 0 := by
    rw [Ne, ZMod.natCast_eq_zero_iff]; intro h; exact hx (Nat.mod_eq_zero_of_dvd h)
  have : ((x * invMod x m : Nat) : ZMod m) = ((1 : Nat) : ZMod m) := by
    rw [Nat.cast_mul, invMod_eq_inv x m h2 hm, mul_inv_cancel₀ hx', Nat.cast_one]
  rw [ZMod.natCast_eq_natCast_iff'] at this
  rw [this, Nat.mod_eq_of_lt (by omega)]

open WeierstrassCurve WeierstrassCurve.Affine
open Proofs.ECFormulas (shortCurve shortCurve_isShort IsShort)

/-! ## A2./A3. The field `ZMod p`, the curve, validity and the embedding -/

instance p_fact : Fact (Nat.Prime p) := ⟨Proofs.SM2Prime.p_prime⟩
instance n_fact : Fact (Nat.Prime n) := ⟨Proofs.SM2Prime.n_prime⟩

abbrev F := ZMod p

theorem p_pos : 0 < p := by decide
theorem p_gt2 : 2 < p := by decide
theorem p_lt256 : p < 2 ^ 256 := by decide
theorem p_lt : p < 2 ^ 600 :=
  Nat.lt_of_lt_of_le p_lt256 (Nat.pow_le_pow_right (by decide) (by decide))

theorem fsub_lt (x y : Nat) : fsub x y < p := Nat.mod_lt _ p_pos

/-- A2 `fsub_eq` -/
theorem fsub_eq (x y : Nat) : ((fsub x y : Nat) : F) = (x : F) - (y : F) := by
  unfold fsub
  have h : y % p ≤ x + p := by have := Nat.mod_lt y p_pos; omega
  rw [ZMod.natCast_mod, Nat.cast_sub h, Nat.cast_add, ZMod.natCast_self, ZMod.natCast_mod]
  ring

/-- the curve y² = x³ + a x + b over `ZMod p` as a Mathlib Weierstrass curve (`ECFormulas.shortCurve`) -/
def W : WeierstrassCurve.Affine F := shortCurve (a : F) (b : F)

theorem W_short : IsShort W (a : F) (b : F) := shortCurve_isShort _ _

/-- the discriminant −16(4a³ + 27b²) is non-zero mod p, so every point of the curve is nonsingular -/
theorem W_disc : W.Δ ≠ 0 := by
  have : W.Δ = -((64 * a ^ 3 + 432 * b ^ 2 : Nat) : F) := by
    simp only [WeierstrassCurve.Δ, WeierstrassCurve.b₂, WeierstrassCurve.b₄, WeierstrassCurve.b₆, WeierstrassCurve.b₈, W, shortCurve]
    push_cast
    ring
  rw [this, neg_ne_zero, Ne, ZMod.natCast_eq_zero_iff]
  decide +kernel

theorem two_ne_zero_F : (2 : F) ≠ 0 := by
  have : ((2 : Nat) : F) ≠ 0 := by
    rw [Ne, ZMod.natCast_eq_zero_iff]; decide +kernel
  simpa using this

theorem cast_inj {x y : Nat} (hx : x < p) (hy : y < p) (h : (x : F) = (y : F)) : x = y := by
  rw [ZMod.natCast_eq_natCast_iff', Nat.mod_eq_of_lt hx, Nat.mod_eq_of_lt hy] at h
  exact h

/-- the spec's Boolean curve test is Mathlib's `Equation` -/
theorem onCurve_iff (x y : Nat) : onCurve x y = true ↔ W.Equation (x : F) (y : F) := by
  rw [ECFormulas.equation_iff_onCurve W_short, ECFormulas.OnCurve]
  unfold onCurve
  rw [beq_iff_eq, ← ZMod.natCast_eq_natCast_iff']
  push_cast
  constructor <;> intro h <;> linear_combination h

theorem nonsingular_of_onCurve {x y : Nat} (h : onCurve x y = true) : W.Nonsingular (x : F) (y : F) :=
  (equation_iff_nonsingular_of_Δ_ne_zero W_disc).mp ((onCurve_iff x y).mp h)


/-- validity of a spec point: infinity, or reduced coordinates satisfying the curve equation -/
def Valid : Pt → Prop
  | none => True
  | some (x, y) => x < p ∧ y < p ∧ onCurve x y = true

instance : DecidablePred Valid := fun P =>
  match P with
  | none => isTrue trivial
  | some (x, y) => inferInstanceAs (Decidable (x < p ∧ y < p ∧ onCurve x y = true))

theorem valid_none : Valid none := trivial

theorem valid_G : Valid G := by
  show gx < p ∧ gy < p ∧ onCurve gx gy = true
  decide +kernel

/-- embedding of valid spec points into Mathlib's group of nonsingular points -/
def toPoint : (P : Pt) → Valid P → W.Point
  | none, _ => 0
  | some (x, y), h => Point.some (x : F) (y : F) (nonsingular_of_onCurve h.2.2)

@[simp] theorem toPoint_none (h : Valid none) : toPoint none h = 0 := rfl

theorem toPoint_some (x y : Nat) (h : Valid (some (x, y))) :
    toPoint (some (x, y)) h = Point.some (x : F) (y : F) (nonsingular_of_onCurve h.2.2) := rfl

theorem toPoint_congr {P Q : Pt} (e : P = Q) (hP : Valid P) (hQ : Valid Q) :
    toPoint P hP = toPoint Q hQ := by subst e; rfl

/-- A6 `toPoint_inj`: the embedding is injective on valid points -/
theorem toPoint_inj {P Q : Pt} (hP : Valid P) (hQ : Valid Q) (h : toPoint P hP = toPoint Q hQ) :
    P = Q := by
  match P, Q, hP, hQ, h with
  | none, none, _, _, _ => rfl
  | none, some (x, y), _, hQ, h =>
    rw [toPoint_none, toPoint_some] at h
    exact absurd h.symm (Point.some_ne_zero _)
  | some (x, y), none, hP, _, h =>
    rw [toPoint_none, toPoint_some] at h
    exact absurd h (Point.some_ne_zero _)
  | some (x1, y1), some (x2, y2), hP, hQ, h =>
    rw [toPoint_some, toPoint_some, Point.some.injEq] at h
    rw [cast_inj hP.1 hQ.1 h.1, cast_inj hP.2.1 hQ.2.1 h.2]

/-- a spec point with reduced coordinates whose casts are the coordinates of a Mathlib point is valid
and is mapped to that point -/
theorem some_valid_eq {x3 y3 : Nat} (hx : x3 < p) (hy : y3 < p) {X Y : F} (hN : W.Nonsingular X Y)
    (ex : (x3 : F) = X) (ey : (y3 : F) = Y) :
    ∃ hv : Valid (some (x3, y3)), toPoint (some (x3, y3)) hv = Point.some X Y hN := by
  subst ex; subst ey
  exact ⟨⟨hx, hy, (onCurve_iff x3 y3).mpr hN.1⟩, rfl⟩

/-! ## A4. `padd` is the group addition -/

theorem padd_none_left (Q : Pt) : padd none Q = Q := by
  cases Q <;> rfl

theorem padd_none_right (P : Pt) : padd P none = P := by
  match P with
  | none => rfl
  | some (_, _) => rfl

theorem padd_some_some (x1 y1 x2 y2 : Nat) :
    padd (some (x1, y1)) (some (x2, y2)) =
      if x1 = x2 then
        if (y1 + y2) % p = 0 then none
        else
          some (fsub ((3 * x1 * x1 + a) % p * invMod (2 * y1 % p) p % p * ((3 * x1 * x1 + a) % p * invMod (2 * y1 % p) p % p) % p) ((x1 + x2) % p),
            fsub ((3 * x1 * x1 + a) % p * invMod (2 * y1 % p) p % p *
              fsub x1 (fsub ((3 * x1 * x1 + a) % p * invMod (2 * y1 % p) p % p * ((3 * x1 * x1 + a) % p * invMod (2 * y1 % p) p % p) % p) ((x1 + x2) % p)) % p) y1)
      else
        some (fsub (fsub y2 y1 * invMod (fsub x2 x1) p % p * (fsub y2 y1 * invMod (fsub x2 x1) p % p) % p) ((x1 + x2) % p),
          fsub (fsub y2 y1 * invMod (fsub x2 x1) p % p *
            fsub x1 (fsub (fsub y2 y1 * invMod (fsub x2 x1) p % p * (fsub y2 y1 * invMod (fsub x2 x1) p % p) % p) ((x1 + x2) % p)) % p) y1) := rfl

theorem padd_spec {P Q : Pt} (hP : Valid P) (hQ : Valid Q) :
    ∃ hv : Valid (padd P Q), toPoint (padd P Q) hv = toPoint P hP + toPoint Q hQ := by
  match P, Q, hP, hQ with
  | none, Q, _, hQ =>
    refine ⟨by rw [padd_none_left]; exact hQ, ?_⟩
    rw [toPoint_none, zero_add]
    exact toPoint_congr (padd_none_left _) _ _
  | some (x1, y1), none, hP, _ => exact ⟨hP, by rw [toPoint_none, add_zero]; rfl⟩
  | some (x1, y1), some (x2, y2), hP, hQ =>
    have h1 := nonsingular_of_onCurve hP.2.2
    have h2 := nonsingular_of_onCurve hQ.2.2
    rw [toPoint_some, toPoint_some]
    rw [padd_some_some]
    by_cases hx : x1 = x2
    · rw [if_pos hx]
      subst hx
      by_cases hy : (y1 + y2) % p = 0
      · rw [if_pos hy]
        refine ⟨valid_none, ?_⟩
        rw [toPoint_none]
        symm
        apply Point.add_of_Y_eq rfl
        rw [ECFormulas.negY_eq W_short]
        have : ((y1 + y2 : Nat) : F) = 0 := by
          rw [ZMod.natCast_eq_zero_iff]; exact Nat.dvd_of_mod_eq_zero hy
        push_cast at this
        linear_combination this
      · rw [if_neg hy]
        have hne : (y1 : F) ≠ W.negY (x1 : F) (y2 : F) := by
          rw [ECFormulas.negY_eq W_short]
          intro h
          apply hy
          have : ((y1 + y2 : Nat) : F) = 0 := by push_cast; linear_combination h
          rw [ZMod.natCast_eq_zero_iff] at this
          exact Nat.mod_eq_zero_of_dvd this
        have hyy : y1 = y2 := by
          rcases Y_eq_of_X_eq h1.1 h2.1 rfl with h | h
          · exact cast_inj hP.2.1 hQ.2.1 h
          · exact absurd h hne
        subst hyy
        have hy0 : (y1 : F) ≠ 0 := by
          intro h; apply hne; rw [ECFormulas.negY_eq W_short, h, neg_zero]
        obtain ⟨h', e'⟩ := ECFormulas.affDouble_point W_short two_ne_zero_F hy0 h1
        rw [e']
        apply some_valid_eq (fsub_lt _ _) (fsub_lt _ _)
        · simp only [ECFormulas.affDouble, fsub_eq, ZMod.natCast_mod, Nat.cast_mul, Nat.cast_add,
            invMod_eq_inv _ p p_gt2 p_lt, Nat.cast_ofNat]
          ring
        · simp only [ECFormulas.affDouble, fsub_eq, ZMod.natCast_mod, Nat.cast_mul, Nat.cast_add,
            invMod_eq_inv _ p p_gt2 p_lt, Nat.cast_ofNat]
          ring
    · rw [if_neg hx]
      have hx' : (x1 : F) ≠ (x2 : F) := fun h => hx (cast_inj hP.1 hQ.1 h)
      obtain ⟨h', e'⟩ := ECFormulas.affAdd_point W_short hx' h1 h2
      rw [e']
      apply some_valid_eq (fsub_lt _ _) (fsub_lt _ _)
      · simp only [ECFormulas.affAdd, fsub_eq, ZMod.natCast_mod, Nat.cast_mul, Nat.cast_add,
          invMod_eq_inv _ p p_gt2 p_lt]
        ring
      · simp only [ECFormulas.affAdd, fsub_eq, ZMod.natCast_mod, Nat.cast_mul, Nat.cast_add,
          invMod_eq_inv _ p p_gt2 p_lt]
        ring

/-- A4 `padd_valid`, `padd_eq`: the sum of valid points is valid and is the sum in Mathlib's group -/
theorem padd_valid {P Q : Pt} (hP : Valid P) (hQ : Valid Q) : Valid (padd P Q) :=
  (padd_spec hP hQ).1

theorem padd_eq {P Q : Pt} (hP : Valid P) (hQ : Valid Q) :
    toPoint (padd P Q) (padd_valid hP hQ) = toPoint P hP + toPoint Q hQ :=
  (padd_spec hP hQ).2

/-! ## A5. `smul` is the scalar multiple -/

theorem exists_of_eq {P Q : Pt} (e : P = Q) {X : W.Point} (h : ∃ hv : Valid Q, toPoint Q hv = X) :
    ∃ hv : Valid P, toPoint P hv = X := by subst e; exact h

theorem smulAux_zero (k : Nat) (base acc : Pt) : smulAux 0 k base acc = acc := rfl

theorem smulAux_succ_zero (f : Nat) (base acc : Pt) : smulAux (f + 1) 0 base acc = acc := rfl

theorem smulAux_succ_odd (f k : Nat) (base acc : Pt) (h0 : k ≠ 0) (h1 : k % 2 = 1) :
    smulAux (f + 1) k base acc = smulAux f (k / 2) (padd base base) (padd acc base) := by
  rw [smulAux, if_neg h0, if_pos h1]

theorem smulAux_succ_even (f k : Nat) (base acc : Pt) (h0 : k ≠ 0) (h1 : ¬ k % 2 = 1) :
    smulAux (f + 1) k base acc = smulAux f (k / 2) (padd base base) acc := by
  rw [smulAux, if_neg h0, if_neg h1]

theorem smulAux_spec (fuel k : Nat) (base acc : Pt) (hb : Valid base) (ha : Valid acc)
    (hk : k < 2 ^ fuel) :
    ∃ hv : Valid (smulAux fuel k base acc),
      toPoint (smulAux fuel k base acc) hv = toPoint acc ha + k • toPoint base hb := by
  induction fuel generalizing k base acc with
  | zero =>
    have : k = 0 := by simpa using hk
    subst this
    exact exists_of_eq (smulAux_zero _ _ _) ⟨ha, by rw [zero_nsmul, add_zero]⟩
  | succ f ih =>
    by_cases h0 : k = 0
    · subst h0
      exact exists_of_eq (smulAux_succ_zero _ _ _) ⟨ha, by rw [zero_nsmul, add_zero]⟩
    · have hk2 : k / 2 < 2 ^ f := by rw [Nat.pow_succ] at hk; omega
      by_cases h1 : k % 2 = 1
      · apply exists_of_eq (smulAux_succ_odd f k base acc h0 h1)
        obtain ⟨hv, e⟩ := ih (k / 2) (padd base base) (padd acc base) (padd_valid hb hb)
          (padd_valid ha hb) hk2
        refine ⟨hv, ?_⟩
        rw [e, padd_eq ha hb, padd_eq hb hb]
        have hE : k = 2 * (k / 2) + 1 := by omega
        conv_rhs => rw [hE]
        rw [add_nsmul, mul_nsmul, one_nsmul, two_nsmul]
        abel
      · apply exists_of_eq (smulAux_succ_even f k base acc h0 h1)
        obtain ⟨hv, e⟩ := ih (k / 2) (padd base base) acc (padd_valid hb hb) ha hk2
        refine ⟨hv, ?_⟩
        rw [e, padd_eq hb hb]
        have hE : k = 2 * (k / 2) := by omega
        conv_rhs => rw [hE]
        rw [mul_nsmul, two_nsmul]

theorem smul_spec (k : Nat) (P : Pt) (hP : Valid P) (hk : k < 2 ^ 600) :
    ∃ hv : Valid (smul k P), toPoint (smul k P) hv = k • toPoint P hP := by
  apply exists_of_eq (show smul k P = smulAux 600 k P none from rfl)
  obtain ⟨hv, e⟩ := smulAux_spec 600 k P none hP valid_none hk
  exact ⟨hv, by rw [e, toPoint_none, zero_add]⟩

/-- A5 `smul_valid`, `smul_eq`: for valid `P` and `k < 2^600`, `smul k P` is valid and equals `k • P` -/
theorem smul_valid {k : Nat} {P : Pt} (hP : Valid P) (hk : k < 2 ^ 600) : Valid (smul k P) :=
  (smul_spec k P hP hk).1

theorem smul_eq {k : Nat} {P : Pt} (hP : Valid P) (hk : k < 2 ^ 600) :
    toPoint (smul k P) (smul_valid hP hk) = k • toPoint P hP :=
  (smul_spec k P hP hk).2

/-! ## Total version of the embedding (invalid points go to 0): no proof arguments to carry around -/

/-- `toPoint` without the proof argument: points that are not `Valid` are sent to 0 -/
def pt (P : Pt) : W.Point := if h : Valid P then toPoint P h else 0

theorem pt_eq {P : Pt} (h : Valid P) : pt P = toPoint P h := dif_pos h

@[simp] theorem pt_none : pt none = 0 := rfl

theorem pt_padd {P Q : Pt} (hP : Valid P) (hQ : Valid Q) : pt (padd P Q) = pt P + pt Q := by
  rw [pt_eq (padd_valid hP hQ), pt_eq hP, pt_eq hQ, padd_eq hP hQ]

theorem pt_smul {k : Nat} {P : Pt} (hP : Valid P) (hk : k < 2 ^ 600) : pt (smul k P) = k • pt P := by
  rw [pt_eq (smul_valid hP hk), pt_eq hP, smul_eq hP hk]

theorem pt_inj {P Q : Pt} (hP : Valid P) (hQ : Valid Q) (h : pt P = pt Q) : P = Q := by
  rw [pt_eq hP, pt_eq hQ] at h
  exact toPoint_inj hP hQ h

theorem pt_eq_zero_iff {P : Pt} (hP : Valid P) : pt P = 0 ↔ P = none :=
  ⟨fun h => pt_inj hP valid_none (h.trans pt_none.symm), fun h => by rw [h, pt_none]⟩

/-- negation: `pneg` is the group inverse -/
theorem pneg_spec {P : Pt} (hP : Valid P) : Valid (pneg P) ∧ pt (pneg P) = - pt P := by
  match P, hP with
  | none, _ => exact ⟨valid_none, by simp [pneg]⟩
  | some (x, y), hP =>
    have h1 := nonsingular_of_onCurve hP.2.2
    have hN : W.Nonsingular (x : F) (W.negY (x : F) (y : F)) := (nonsingular_neg _ _).mpr h1
    have hy : (((p - y) % p : Nat) : F) = W.negY (x : F) (y : F) := by
      rw [ECFormulas.negY_eq W_short, ZMod.natCast_mod, Nat.cast_sub (Nat.le_of_lt hP.2.1),
        ZMod.natCast_self, zero_sub]
    obtain ⟨hv, e⟩ := some_valid_eq hP.1 (Nat.mod_lt _ p_pos) hN rfl hy
    refine ⟨hv, ?_⟩
    rw [show pneg (some (x, y)) = some (x, (p - y) % p) from rfl, pt_eq hv, e, pt_eq hP,
      toPoint_some, Point.neg_some]

end Proofs.SM2Affine
