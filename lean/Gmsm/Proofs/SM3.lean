/-
Helper lemmas for C04: the streaming SM3 object refines "hash of the bytes written so far".
-/
import Gmsm.Model.SM3
import Gmsm.Proofs.Bits
namespace Proofs.SM3
open Gmsm Spec.SM3 Model.SM3

theorem leftRotate_eq : leftRotate = rotl := by
  funext x i
  exact goRotl_eq x i

theorem update1_eq_CF : update1 = CF := by
  unfold update1 CF
  rw [leftRotate_eq]

theorem updateN_eq_iter (n : Nat) (v : Reg) (m : Bytes) : updateN n v m = iter n v m := by
  induction n generalizing v m with
  | zero => rfl
  | succ n ih => simp only [updateN, iter, update1_eq_CF, ih]

/-- iterating over `k + n` blocks of `a ++ b`, where `a` is exactly `k` blocks long -/
theorem iter_append (k n : Nat) (v : Reg) (a b : Bytes) (h : a.length = 64 * k) :
    iter (k + n) v (a ++ b) = iter n (iter k v a) b := by
  induction k generalizing v a with
  | zero =>
    have : a = [] := List.eq_nil_of_length_eq_zero (by omega)
    subst this
    simp [iter]
  | succ k ih =>
    have hlen : 64 ≤ a.length := by omega
    have e1 : k + 1 + n = (k + n) + 1 := by omega
    rw [e1]
    simp only [iter]
    have t1 : (a ++ b).take 64 = a.take 64 := by
      rw [List.take_append_of_le_length hlen]
    have t2 : (a ++ b).drop 64 = a.drop 64 ++ b := by
      rw [List.drop_append_of_le_length hlen]
    rw [t1, t2]
    exact ih _ _ (by rw [List.length_drop]; omega)

theorem iter_take (k : Nat) (v : Reg) (m : Bytes) (h : 64 * k ≤ m.length) :
    iter k v m = iter k v (m.take (64 * k)) := by
  have := iter_append k 0 v (m.take (64*k)) (m.drop (64*k)) (by rw [List.length_take]; omega)
  simp only [Nat.add_zero, List.take_append_drop, iter] at this
  exact this

/-- the abstraction relation: state `s` represents the bytes `M` written since the last reset -/
structure Inv (s : State) (M : Bytes) : Prop where
  digest : s.digest = iter (M.length / 64) IV M
  tail : s.tail = M.drop (64 * (M.length / 64))
  length : s.length = BitVec.ofNat 64 (8 * M.length)

theorem inv_init : Inv init [] := ⟨rfl, rfl, rfl⟩

theorem tail_length {s : State} {M : Bytes} (h : Inv s M) : s.tail.length = M.length % 64 := by
  rw [h.tail, List.length_drop]; omega

theorem split_msg (M : Bytes) : M = M.take (64 * (M.length / 64)) ++ M.drop (64 * (M.length / 64)) :=
  (List.take_append_drop _ _).symm

theorem inv_write {s : State} {M : Bytes} (h : Inv s M) (p : Bytes) : Inv (write s p) (M ++ p) := by
  have hk : 64 * (M.length / 64) ≤ M.length := Nat.mul_div_le _ _
  have htl := tail_length h
  let k := M.length / 64
  let a := M.take (64 * k)
  have ha : a.length = 64 * k := by simp [a, List.length_take]; omega
  have hM : M = a ++ s.tail := by rw [h.tail]; exact split_msg M
  have hlen : (M ++ p).length / 64 = k + (s.tail ++ p).length / 64 := by
    simp only [List.length_append]
    rw [htl]
    have : M.length = 64 * k + M.length % 64 := (Nat.div_add_mod _ _).symm
    omega
  constructor
  · -- digest
    show updateN ((s.tail ++ p).length / 64) s.digest (s.tail ++ p) = _
    rw [updateN_eq_iter, h.digest, hlen]
    have e : M ++ p = a ++ (s.tail ++ p) := by rw [hM]; simp [List.append_assoc]
    rw [e, iter_append k _ IV a (s.tail ++ p) ha]
    congr 1
    exact iter_take k IV M hk
  · -- tail
    show (s.tail ++ p).drop ((s.tail ++ p).length / 64 * 64) = _
    rw [hlen]
    have e : M ++ p = a ++ (s.tail ++ p) := by rw [hM]; simp [List.append_assoc]
    rw [e]
    have : 64 * (k + (s.tail ++ p).length / 64) = a.length + (s.tail ++ p).length / 64 * 64 := by
      rw [ha]; omega
    rw [this, List.drop_length_add_append]
  · -- length
    show s.length + BitVec.ofNat 64 (p.length * 8) = _
    rw [h.length, List.length_append, ← BitVec.ofNat_add]
    congr 1; omega

theorem pad_eq {s : State} {M : Bytes} (h : Inv s M) : pad s = s.tail ++ padding M.length := by
  unfold pad padding
  rw [tail_length h, h.length]
  simp

theorem finish_eq_hash {s : State} {M : Bytes} (h : Inv s M) : finish s = Spec.SM3.hash M := by
  have hk : 64 * (M.length / 64) ≤ M.length := Nat.mul_div_le _ _
  have htl := tail_length h
  let k := M.length / 64
  let a := M.take (64 * k)
  have ha : a.length = 64 * k := by simp [a, List.length_take]; omega
  have hM : M = a ++ s.tail := by rw [h.tail]; exact split_msg M
  unfold finish Spec.SM3.hash
  simp only [pad_eq h, updateN_eq_iter]
  have hlen : (M ++ padding M.length).length / 64 = k + (s.tail ++ padding M.length).length / 64 := by
    simp only [List.length_append]
    rw [htl]
    have : M.length = 64 * k + M.length % 64 := (Nat.div_add_mod _ _).symm
    omega
  have e : M ++ padding M.length = a ++ (s.tail ++ padding M.length) := by
    have : (a ++ s.tail) ++ padding M.length = a ++ (s.tail ++ padding M.length) := List.append_assoc _ _ _
    rw [← this, ← hM]
  rw [hlen, e, iter_append k _ IV a _ ha, h.digest]
  congr 2
  exact iter_take k IV M hk

/-- the padded message is a whole number of blocks (the Go code panics otherwise) -/
theorem padded_length (l : Nat) : (l + (padding l).length) % 64 = 0 := by
  unfold padding
  simp [w64bytes]
  omega

end Proofs.SM3
