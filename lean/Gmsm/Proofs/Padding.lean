/-
Helper lemmas for C19: the source-filling loop, the reader invariant, the writer invariant.
-/
import Gmsm.Model.Padding
namespace Proofs.Padding
open Gmsm Model.Padding

/-- what `fill` guarantees for every script: the bytes obtained followed by what is left in the source
    are the source's data, at most `need` bytes were taken, EOF is only reported when nothing is left,
    and without EOF the request was satisfied in full. -/
theorem fill_spec (script : List (Nat × Bool)) (data : Bytes) (need : Nat) :
    (fill script data need).1 ++ (fill script data need).2.1.data = data ∧
    (fill script data need).1.length ≤ need ∧
    ((fill script data need).2.2 = true → (fill script data need).2.1.data = []) ∧
    ((fill script data need).2.2 = false → (fill script data need).1.length = need) := by
  induction script generalizing data need with
  | nil =>
    unfold fill
    by_cases h : data.length < need
    · simp [h]; omega
    · simp [h]; omega
  | cons ke rest ih =>
    obtain ⟨k, e⟩ := ke
    unfold fill
    by_cases h0 : need = 0
    · simp [h0]
    · by_cases h1 : data.length = 0
      · have : data = [] := List.eq_nil_of_length_eq_zero h1
        simp [h0, this]
      · simp only [h0, h1, if_false]
        by_cases h2 : min k (min need data.length) = data.length ∧ e = true
        · simp only [h2, and_self, if_true]
          refine ⟨?_, ?_, ?_, ?_⟩
          · simp
          · simp; omega
          · simp
          · simp
        · simp only [h2, if_false]
          have := ih (data.drop (min k (min need data.length))) (need - min k (min need data.length))
          obtain ⟨a1, a2, a3, a4⟩ := this
          refine ⟨?_, ?_, ?_, ?_⟩
          · simp only [List.append_assoc, a1, List.take_append_drop]
          · simp only [List.length_append, List.length_take]; omega
          · exact a3
          · intro hf
            have := a4 hf
            simp only [List.length_append, List.length_take]; omega

/-- the reader invariant: `acc` is what has been delivered so far -/
structure RInv (data : Bytes) (bs : Nat) (r : Reader) (acc : Bytes) : Prop where
  bsz : r.blockSize = bs
  live : r.eof = false → acc ++ r.src.data = data ∧ r.readed = acc.length ∧ r.pad = none ∧ r.eop = false
  done : r.eof = true → ∃ rest, r.pad = some rest ∧ acc ++ rest = padStream bs data ∧ (r.eop = true → rest = [])

theorem rinv_init (data : Bytes) (bs : Nat) (script : List (Nat × Bool)) :
    RInv data bs (newReader ⟨data, script⟩ bs) [] :=
  ⟨rfl, fun _ => ⟨rfl, rfl, rfl, rfl⟩, fun h => by simp [newReader] at h⟩

theorem pad_nonempty (bs n : Nat) (h : 0 < bs) : 0 < bs - n % bs := by
  have := Nat.mod_lt n h; omega

/-- one `Read` preserves the invariant; if it returns EOF the whole padded stream has been delivered -/
theorem rinv_read (data : Bytes) (bs : Nat) (hbs : 0 < bs) (r : Reader) (acc : Bytes) (L : Nat)
    (h : RInv data bs r acc) :
    RInv data bs (r.read L).1 (acc ++ (r.read L).2.1) ∧
    ((r.read L).2.2 = .eof → acc ++ (r.read L).2.1 = padStream bs data) := by
  unfold Reader.read
  by_cases hdone : r.eof = true ∧ r.eop = true
  · -- everything was delivered already
    simp only [hdone, and_self, if_true, List.append_nil]
    obtain ⟨rest, hp, hs, he⟩ := h.done hdone.1
    have := he hdone.2
    subst this
    exact ⟨h, fun _ => by simpa using hs⟩
  · simp only [hdone, if_false]
    by_cases heof : r.eof = true
    · -- file finished earlier: deliver padding
      have heop : r.eop = false := by
        cases hh : r.eop
        · rfl
        · exact absurd ⟨heof, hh⟩ hdone
      obtain ⟨rest, hp, hs, _⟩ := h.done heof
      simp only [heof, if_true, not_true_eq_false, if_false, hp, Option.getD_some, List.length_nil, Nat.sub_zero,
        List.nil_append]
      by_cases hre : rest.isEmpty = true
      · have : rest = [] := List.isEmpty_iff.mp hre
        subst this
        simp only [List.isEmpty_nil, if_true, List.append_nil]
        refine ⟨⟨h.bsz, fun hc => by simp [heof] at hc, fun _ => ⟨[], rfl, hs, fun _ => rfl⟩⟩, fun _ => by simpa using hs⟩
      · simp only [hre, Bool.false_eq_true, if_false]
        refine ⟨⟨h.bsz, fun hc => by simp [heof] at hc, fun _ => ⟨rest.drop (min L rest.length), rfl, ?_, fun hc => by simp [heop] at hc⟩⟩,
          fun hc => by simp at hc⟩
        rw [List.append_assoc, List.take_append_drop]; exact hs
    · -- file not finished: run the fill loop
      have heof' : r.eof = false := by cases hh : r.eof <;> simp_all
      obtain ⟨hd, hr, hpn, hep⟩ := h.live heof'
      have fs := fill_spec r.src.script r.src.data L
      obtain ⟨f1, f2, f3, f4⟩ := fs
      simp only [heof', Bool.false_eq_true, if_false]
      generalize hfill : fill r.src.script r.src.data L = res at f1 f2 f3 f4
      obtain ⟨b, src', eof'⟩ := res
      simp only at f1 f2 f3 f4 ⊢
      cases eof'
      · -- still no EOF
        simp only [Bool.false_eq_true, not_false_eq_true, if_true]
        refine ⟨⟨h.bsz, fun _ => ⟨?_, ?_, hpn, hep⟩, fun hc => by simp at hc⟩, fun hc => by simp at hc⟩
        · rw [List.append_assoc, f1]; exact hd
        · simp [hr]
      · -- EOF seen in this call: create the padding and deliver what fits
        have hsrc : src'.data = [] := f3 rfl
        have hb : b = r.src.data := by rw [hsrc] at f1; simpa using f1
        simp only [not_true_eq_false, if_false, hpn, Option.getD_none, h.bsz]
        have hreaded : r.readed + b.length = data.length := by
          rw [hr, ← hd, hb]; simp
        rw [hreaded]
        have hne : (List.replicate (bs - data.length % bs) (BitVec.ofNat 8 (bs - data.length % bs))).isEmpty = false := by
          have := pad_nonempty bs data.length hbs
          cases hx : bs - data.length % bs with
          | zero => omega
          | succ n => simp [List.replicate]
        simp only [hne, Bool.false_eq_true, if_false]
        refine ⟨⟨rfl, fun hc => by simp at hc, fun _ => ⟨_, rfl, ?_, fun hc => by simp [hep] at hc⟩⟩, fun hc => by simp at hc⟩
        rw [List.append_assoc, List.append_assoc, List.take_append_drop, ← List.append_assoc, hb, hd]
        rfl

-- writer ---------------------------------------------------------------------------------------------------

structure WInv (bs : Nat) (total : Bytes) (w : Writer) : Prop where
  bsz : w.blockSize = bs
  cat : w.out ++ w.cache = total
  len : w.cache.length = min total.length bs
  cnt : w.written = total.length

theorem winv_init (bs : Nat) : WInv bs [] (newWriter bs) := ⟨rfl, rfl, by simp [newWriter], rfl⟩

theorem winv_write (bs : Nat) (total : Bytes) (w : Writer) (buff : Bytes) (h : WInv bs total w) :
    WInv bs (total ++ buff) (w.write buff) := by
  unfold Writer.write
  have hb := h.bsz
  by_cases hc : (w.cache ++ buff).length > w.blockSize
  · simp only [hc, if_true]
    refine ⟨hb, ?_, ?_, by simp [h.cnt]⟩
    · simp only [List.append_assoc, List.take_append_drop]
      rw [← List.append_assoc, h.cat]
    · have := h.len
      simp only [List.length_drop, List.length_append] at hc ⊢
      rw [hb] at hc ⊢
      omega
  · simp only [hc, if_false]
    refine ⟨hb, ?_, ?_, by simp [h.cnt]⟩
    · rw [← List.append_assoc, h.cat]
    · have := h.len
      simp only [List.length_append] at hc ⊢
      rw [hb] at hc
      have : total.length ≤ bs ∨ bs < total.length := by omega
      rcases this with h1 | h1
      · rw [Nat.min_eq_left h1] at this; omega
      · omega

theorem winv_all (bs : Nat) (ws : List Bytes) (total : Bytes) (w : Writer) (h : WInv bs total w) :
    WInv bs (total ++ ws.flatten) (ws.foldl Writer.write w) := by
  induction ws generalizing total w with
  | nil => simpa using h
  | cons x xs ih =>
    have := ih (total ++ x) (w.write x) (winv_write bs total w x h)
    simpa [List.append_assoc] using this

end Proofs.Padding
