/-
The Jacobian-coordinate layer of the SM2 curve model (`Gmsm.Model.SM2Curve`) interpreted in Mathlib's
group of points of the curve over `ZMod p` (helpers for `Gmsm/Props/C03Mult.lean`).

 * J1 field level: `jp : Jac (ZMod p) → W.Point` (Z = 0 ↦ 0, else (X/Z², Y/Z³)), `JOn`; the straight-line
   formulas `double`, `addGeneric`, `addMixed` compute the group law in ALL cases in which the Go code
   uses them (`double_F`, `addGeneric_F`, `addMixed_F`);
 * J2 model level: `val : Fp → ZMod p` is a ring homomorphism on the model's `+ - *`, `JValid`, `jpt`,
   `double_correct_J`, `pointAdd_correct` (all pairs of inputs), `pointSub_correct`;
 * J3 `toAffine_correct`, `fromAffine_valid`;
 * J4 `apiAdd_correct`, `apiDouble_correct`, `isOnCurve_eq`;
 * J5 `cubic_no_root`: x³ + a·x + b has no root mod p (verified computation of x^p modulo the cubic);
 * J6 `card_eq`: the group of points over `ZMod p` has exactly n elements, so every point other than 0
   has order n (`n_nsmul`, `addOrderOf_eq_n`);
 * J7 the dense digit array of the windowed NAF: `wnafReversed_value`, `wnafReversed_bound`;
 * J8 `ScalarMult`: table of small multiples, the digit loop is `C03Alg.evalStep` under `jpt`,
   `scalarMult_correct`;
 * J9 `ScalarBaseMult`: the comb loop, its value after each row (`combV`), the mixed additions never
   meet their missing cases for k < n (`row_arith`), `scalarBaseMult_correct`.
-/
import Gmsm.Model.SM2Curve
import Gmsm.Proofs.SM2Affine
import Gmsm.Proofs.ECFormulas
import Gmsm.Props.SM2Group
import Gmsm.Props.C03Alg
import Gmsm.Props.C03
import Mathlib.Algebra.BigOperators.Group.Finset.Basic
import Mathlib.FieldTheory.Finite.Basic
import Mathlib.GroupTheory.Perm.Cycle.Type
import Mathlib.SetTheory.Cardinal.Finite

set_option exponentiation.threshold 700
namespace Proofs.SM2Jacobian
open Spec.SM2 Model.SM2Curve Model.SM2Jac Proofs.SM2Affine
open WeierstrassCurve WeierstrassCurve.Affine
local notation "aff" => Proofs.ECFormulas.toAffine

/-! ## J1. Field-level (ZMod p) interpretation of Jacobian triples -/

/-- a Jacobian triple over `ZMod p` lies on the curve (no condition when Z = 0: the implementation's
    representation of the point at infinity carries arbitrary X, Y) -/
def JOn (Q : Jac F) : Prop := Q.z ≠ 0 → W.Nonsingular (aff Q).1 (aff Q).2

open Classical in
/-- the point of the Mathlib group represented by a Jacobian triple: Z = 0 ↦ 0, else (X/Z², Y/Z³) -/
noncomputable def jp (Q : Jac F) : W.Point :=
  if h : Q.z ≠ 0 ∧ W.Nonsingular (aff Q).1 (aff Q).2 then Point.some _ _ h.2 else 0

theorem jp_of_z0 {Q : Jac F} (h : Q.z = 0) : jp Q = 0 := by
  unfold jp; rw [dif_neg]; exact fun h' => h'.1 h

theorem jp_some {Q : Jac F} (hz : Q.z ≠ 0) (h : W.Nonsingular (aff Q).1 (aff Q).2) :
    jp Q = Point.some _ _ h := by
  unfold jp; rw [dif_pos ⟨hz, h⟩]

theorem JOn_of_z0 {Q : Jac F} (h : Q.z = 0) : JOn Q := fun h' => absurd h h'

theorem nonsingular_iff (x y : F) : W.Nonsingular x y ↔ W.Equation x y :=
  (equation_iff_nonsingular_of_Δ_ne_zero W_disc).symm

/-- the Jacobian form of the curve equation: Y² = X³ + a·X·Z⁴ + b·Z⁶ -/
theorem JOn_iff (Q : Jac F) :
    JOn Q ↔ (Q.z ≠ 0 → Q.y ^ 2 = Q.x ^ 3 + (a : F) * Q.x * Q.z ^ 4 + (b : F) * Q.z ^ 6) := by
  unfold JOn
  refine imp_congr_right fun hz => ?_
  rw [nonsingular_iff, ECFormulas.equation_iff_onCurve W_short, ECFormulas.OnCurve]
  simp only [ECFormulas.toAffine]
  constructor
  · intro h; field_simp at h; linear_combination h
  · intro h; field_simp; linear_combination h

/-- doubling, all cases (Z = 0; Y = 0, a point of order 2; the tangent formula) -/
theorem double_F {Q : Jac F} (hQ : JOn Q) :
    JOn (double (a : F) Q) ∧ jp (double (a : F) Q) = jp Q + jp Q := by
  by_cases hz : Q.z = 0
  · have hz' : (double (a : F) Q).z = 0 := by rw [ECFormulas.double_z, hz, mul_zero]
    exact ⟨JOn_of_z0 hz', by rw [jp_of_z0 hz', jp_of_z0 hz, add_zero]⟩
  · have hN := hQ hz
    by_cases hy : Q.y = 0
    · have hz' : (double (a : F) Q).z = 0 := by rw [ECFormulas.double_z, hy, mul_zero, zero_mul]
      refine ⟨JOn_of_z0 hz', ?_⟩
      rw [jp_of_z0 hz', jp_some hz hN]
      symm
      apply Point.add_of_Y_eq rfl
      rw [ECFormulas.negY_eq W_short]
      simp [ECFormulas.toAffine, hy]
    · obtain ⟨hz', h', e⟩ := ECFormulas.double_point W_short two_ne_zero_F Q hz hy hN
      exact ⟨fun _ => h', by rw [jp_some hz' h', jp_some hz hN, e]⟩

/-- the generic addition formula, for two finite points that are not equal (opposite points give Z = 0) -/
theorem addGeneric_F {A B : Jac F} (hA : JOn A) (hB : JOn B) (hza : A.z ≠ 0) (hzb : B.z ≠ 0)
    (hne : ¬ (A.x * (B.z * B.z) = B.x * (A.z * A.z) ∧ A.y * (B.z * B.z * B.z) = B.y * (A.z * A.z * A.z))) :
    JOn (addGeneric A B) ∧ jp (addGeneric A B) = jp A + jp B := by
  have h1 := hA hza
  have h2 := hB hzb
  by_cases hx : B.x * A.z ^ 2 = A.x * B.z ^ 2
  · obtain ⟨hz', hor⟩ := ECFormulas.addGeneric_opposite_point A B hza hzb hx h1 h2
    refine ⟨JOn_of_z0 hz', ?_⟩
    rw [jp_of_z0 hz', jp_some hza h1, jp_some hzb h2]
    rcases hor with he | he
    · exfalso
      apply hne
      refine ⟨by linear_combination -hx, ?_⟩
      have hy := congrArg Prod.snd he
      simp only [ECFormulas.toAffine] at hy
      field_simp at hy
      linear_combination hy
    · exact he.symm
  · obtain ⟨hz', h', e⟩ := ECFormulas.addGeneric_point W_short A B hza hzb hx h1 h2
    exact ⟨fun _ => h', by rw [jp_some hz' h', jp_some hza h1, jp_some hzb h2, e]⟩

/-- equal cross-multiplied coordinates: the two triples represent the same point -/
theorem jp_eq_of_cross {A B : Jac F} (hA : JOn A) (hB : JOn B) (hza : A.z ≠ 0) (hzb : B.z ≠ 0)
    (hx : A.x * (B.z * B.z) = B.x * (A.z * A.z))
    (hy : A.y * (B.z * B.z * B.z) = B.y * (A.z * A.z * A.z)) : jp A = jp B := by
  rw [jp_some hza (hA hza), jp_some hzb (hB hzb), Point.some.injEq]
  simp only [ECFormulas.toAffine]
  constructor
  · field_simp; linear_combination hx
  · field_simp; linear_combination hy

/-- mixed addition `(X1,Y1,Z1) + (x2,y2)`: correct when the accumulator is a finite point different
    from the affine point (the opposite point gives Z = 0) -/
theorem addMixed_F {A : Jac F} {x2 y2 : F} (hA : JOn A) (hza : A.z ≠ 0) (h2 : W.Nonsingular x2 y2)
    (hne : jp A ≠ Point.some x2 y2 h2) :
    JOn (addMixed A x2 y2) ∧ jp (addMixed A x2 y2) = jp A + Point.some x2 y2 h2 := by
  have h1 := hA hza
  by_cases hx : x2 * A.z ^ 2 = A.x
  · have hz' : (addMixed A x2 y2).z = 0 := by rw [ECFormulas.addMixed_z, hx, sub_self, mul_zero]
    refine ⟨JOn_of_z0 hz', ?_⟩
    rw [jp_of_z0 hz']
    rw [jp_some hza h1] at hne ⊢
    have hx' : (aff A).1 = x2 := by simp only [ECFormulas.toAffine]; rw [← hx]; field_simp
    rcases Y_eq_of_X_eq h1.left h2.left hx' with hy | hy
    · exact absurd (by rw [Point.some.injEq]; exact ⟨hx', hy⟩) hne
    · exact (Point.add_of_Y_eq hx' hy).symm
  · obtain ⟨hz', h', e⟩ := ECFormulas.addMixed_point W_short two_ne_zero_F A x2 y2 hza hx h1 h2
    exact ⟨fun _ => h', by rw [jp_some hz' h', jp_some hza h1, e]⟩


/-! ## J2. The model's field elements (`Fp`: naturals reduced mod p) and Jacobian points -/

/-- value of a model field element in `ZMod p` -/
def val (x : Fp) : F := (x.v : F)

/-- the representative is reduced -/
def Red (x : Fp) : Prop := x.v < p

theorem val_add (x y : Fp) : val (x + y) = val x + val y := by
  show (((x.v + y.v) % p : Nat) : F) = (x.v : F) + (y.v : F)
  rw [ZMod.natCast_mod, Nat.cast_add]

theorem val_sub (x y : Fp) : val (x - y) = val x - val y := fsub_eq x.v y.v

theorem val_mul (x y : Fp) : val (x * y) = val x * val y := by
  show (((x.v * y.v) % p : Nat) : F) = (x.v : F) * (y.v : F)
  rw [ZMod.natCast_mod, Nat.cast_mul]

theorem val_neg (x : Fp) : val x.neg = - val x := by
  show (((p - x.v % p) % p : Nat) : F) = - (x.v : F)
  rw [ZMod.natCast_mod, Nat.cast_sub (Nat.le_of_lt (Nat.mod_lt _ p_pos)), ZMod.natCast_self,
    ZMod.natCast_mod, zero_sub]

theorem val_ofNat (n : Nat) : val (Fp.ofNat n) = (n : F) := by
  show ((n % p : Nat) : F) = _
  rw [ZMod.natCast_mod]

theorem val_mk (n : Nat) : val ⟨n⟩ = (n : F) := rfl
theorem val_fa : val fa = (a : F) := rfl
theorem val_one : val one = 1 := by show ((1 : Nat) : F) = 1; exact Nat.cast_one
theorem val_zero : val zero = 0 := by show ((0 : Nat) : F) = 0; exact Nat.cast_zero

theorem red_add (x y : Fp) : Red (x + y) := Nat.mod_lt _ p_pos
theorem red_sub (x y : Fp) : Red (x - y) := Nat.mod_lt _ p_pos
theorem red_mul (x y : Fp) : Red (x * y) := Nat.mod_lt _ p_pos
theorem red_neg (x : Fp) : Red x.neg := Nat.mod_lt _ p_pos
theorem red_ofNat (n : Nat) : Red (Fp.ofNat n) := Nat.mod_lt _ p_pos
theorem red_one : Red one := by show 1 < p; decide
theorem red_zero : Red zero := p_pos

theorem val_inj {x y : Fp} (hx : Red x) (hy : Red y) : val x = val y ↔ x = y := by
  constructor
  · intro h
    have := cast_inj hx hy h
    cases x; cases y; simp_all
  · intro h; rw [h]

theorem val_eq_zero {x : Fp} (hx : Red x) : val x = 0 ↔ x.v = 0 := by
  constructor
  · intro h
    exact cast_inj hx p_pos (by rw [Nat.cast_zero]; exact h)
  · intro h; show (x.v : F) = 0; rw [h, Nat.cast_zero]

/-- a model point read over `ZMod p` -/
def mapJ (A : J) : Jac F := ⟨val A.x, val A.y, val A.z⟩

theorem mapJ_double (A : J) : mapJ (double fa A) = double (a : F) (mapJ A) := by
  simp only [double, mapJ, dbl, tpl, quad, oct, val_add, val_sub, val_mul, val_fa]

theorem mapJ_addGeneric (A B : J) : mapJ (addGeneric A B) = addGeneric (mapJ A) (mapJ B) := by
  simp only [addGeneric, mapJ, dbl, val_add, val_sub, val_mul]

theorem mapJ_addMixed (A : J) (x2 y2 : Fp) :
    mapJ (addMixed A x2 y2) = addMixed (mapJ A) (val x2) (val y2) := by
  simp only [addMixed, mapJ, val_add, val_sub, val_mul]

/-- all three coordinates are reduced representatives -/
def JRed (A : J) : Prop := Red A.x ∧ Red A.y ∧ Red A.z

theorem jred_double (A : J) : JRed (double fa A) := ⟨red_sub _ _, red_sub _ _, red_sub _ _⟩
theorem jred_addGeneric (A B : J) : JRed (addGeneric A B) := ⟨red_sub _ _, red_sub _ _, red_mul _ _⟩
theorem jred_addMixed (A : J) (x2 y2 : Fp) : JRed (addMixed A x2 y2) :=
  ⟨red_sub _ _, red_sub _ _, red_mul _ _⟩

/-- validity of a model point: reduced coordinates and, unless Z = 0 (the point at infinity, with
    arbitrary X and Y), the curve equation in Jacobian form Y² = X³ + a·X·Z⁴ + b·Z⁶ (mod p) -/
def JValid (A : J) : Prop :=
  JRed A ∧ (A.z.v ≠ 0 →
    (A.y.v ^ 2) % p = (A.x.v ^ 3 + a * A.x.v * A.z.v ^ 4 + b * A.z.v ^ 6) % p)

/-- the group element a model point stands for: Z = 0 ↦ 0, else the affine point (X/Z², Y/Z³) -/
noncomputable def jpt (A : J) : W.Point := jp (mapJ A)

theorem jvalid_iff (A : J) : JValid A ↔ JRed A ∧ JOn (mapJ A) := by
  unfold JValid
  refine and_congr_right fun hr => ?_
  rw [JOn_iff]
  have hz : (mapJ A).z ≠ 0 ↔ A.z.v ≠ 0 := not_congr (val_eq_zero hr.2.2)
  refine imp_congr hz.symm ?_
  rw [← ZMod.natCast_eq_natCast_iff']
  simp only [mapJ, val]
  push_cast
  rfl

theorem JValid.red {A : J} (h : JValid A) : JRed A := h.1
theorem JValid.on {A : J} (h : JValid A) : JOn (mapJ A) := ((jvalid_iff A).mp h).2
theorem jvalid_mk {A : J} (hr : JRed A) (ho : JOn (mapJ A)) : JValid A := (jvalid_iff A).mpr ⟨hr, ho⟩

theorem mapJ_z_ne {A : J} (hr : JRed A) : (mapJ A).z ≠ 0 ↔ A.z.v ≠ 0 := not_congr (val_eq_zero hr.2.2)

theorem jpt_of_z0 {A : J} (h : A.z.v = 0) : jpt A = 0 :=
  jp_of_z0 (by show ((A.z.v : Nat) : F) = 0; rw [h, Nat.cast_zero])

theorem jvalid_of_z0 {A : J} (hr : JRed A) (h : A.z.v = 0) : JValid A :=
  ⟨hr, fun h' => absurd h h'⟩

theorem jvalid_inf : JValid inf := jvalid_of_z0 ⟨red_zero, red_zero, red_zero⟩ rfl
theorem jpt_inf : jpt inf = 0 := jpt_of_z0 rfl

/-- `sm2P256PointDouble` computes `P + P` for every valid input (Z = 0 and points of order 2 included) -/
theorem double_correct_J {A : J} (hA : JValid A) :
    JValid (double fa A) ∧ jpt (double fa A) = jpt A + jpt A := by
  have h := double_F hA.on
  rw [← mapJ_double] at h
  exact ⟨jvalid_mk (jred_double A) h.1, h.2⟩

/-- `sm2P256PointAdd` (as repaired) computes `A + B` for ALL pairs of valid inputs: either input at
    infinity, equal inputs (↦ doubling), opposite inputs (↦ Z = 0), and the generic chord case -/
theorem pointAdd_correct {A B : J} (hA : JValid A) (hB : JValid B) :
    JValid (pointAdd A B) ∧ jpt (pointAdd A B) = jpt A + jpt B := by
  unfold pointAdd
  by_cases hza : A.z.v = 0
  · rw [if_pos hza]
    exact ⟨hB, by rw [jpt_of_z0 hza, zero_add]⟩
  rw [if_neg hza]
  by_cases hzb : B.z.v = 0
  · rw [if_pos hzb]
    exact ⟨hA, by rw [jpt_of_z0 hzb, add_zero]⟩
  rw [if_neg hzb]
  have hza' := (mapJ_z_ne hA.red).mpr hza
  have hzb' := (mapJ_z_ne hB.red).mpr hzb
  simp only
  have hu : A.x * (B.z * B.z) = B.x * (A.z * A.z) ↔
      (mapJ A).x * ((mapJ B).z * (mapJ B).z) = (mapJ B).x * ((mapJ A).z * (mapJ A).z) := by
    rw [← val_inj (red_mul _ _) (red_mul _ _)]; simp only [val_mul, mapJ]
  have hs : A.y * (B.z * B.z * B.z) = B.y * (A.z * A.z * A.z) ↔
      (mapJ A).y * ((mapJ B).z * (mapJ B).z * (mapJ B).z)
        = (mapJ B).y * ((mapJ A).z * (mapJ A).z * (mapJ A).z) := by
    rw [← val_inj (red_mul _ _) (red_mul _ _)]; simp only [val_mul, mapJ]
  by_cases he : A.x * (B.z * B.z) = B.x * (A.z * A.z) ∧ A.y * (B.z * B.z * B.z) = B.y * (A.z * A.z * A.z)
  · rw [if_pos he]
    have hd := double_correct_J hA
    refine ⟨hd.1, ?_⟩
    rw [hd.2]
    congr 1
    exact jp_eq_of_cross hA.on hB.on hza' hzb' (hu.mp he.1) (hs.mp he.2)
  · rw [if_neg he]
    have h := addGeneric_F hA.on hB.on hza' hzb' (by rw [← hu, ← hs]; exact he)
    rw [← mapJ_addGeneric] at h
    exact ⟨jvalid_mk (jred_addGeneric A B) h.1, h.2⟩

/-- negating Y negates the point -/
theorem neg_correct {A : J} (hA : JValid A) :
    JValid ⟨A.x, A.y.neg, A.z⟩ ∧ jpt ⟨A.x, A.y.neg, A.z⟩ = - jpt A := by
  have hr : JRed (⟨A.x, A.y.neg, A.z⟩ : J) := ⟨hA.red.1, red_neg _, hA.red.2.2⟩
  by_cases hz : A.z.v = 0
  · exact ⟨jvalid_of_z0 hr hz, by rw [jpt_of_z0 (A := ⟨A.x, A.y.neg, A.z⟩) hz, jpt_of_z0 hz, neg_zero]⟩
  · have hz' := (mapJ_z_ne hA.red).mpr hz
    have hN := hA.on hz'
    have hN' : W.Nonsingular (aff (mapJ ⟨A.x, A.y.neg, A.z⟩)).1 (aff (mapJ ⟨A.x, A.y.neg, A.z⟩)).2 := by
      have := (nonsingular_neg _ _).mpr hN
      rw [ECFormulas.negY_eq W_short] at this
      simp only [ECFormulas.toAffine, mapJ, val_neg] at this ⊢
      rw [neg_div]; exact this
    refine ⟨jvalid_mk hr (fun _ => hN'), ?_⟩
    show jp _ = - jp _
    rw [jp_some (Q := mapJ ⟨A.x, A.y.neg, A.z⟩) hz' hN', jp_some hz' hN, Point.neg_some,
      Point.some.injEq]
    refine ⟨rfl, ?_⟩
    rw [ECFormulas.negY_eq W_short]
    simp only [ECFormulas.toAffine, mapJ, val_neg]
    rw [neg_div]

/-- `sm2P256PointSub` computes `A − B` for all valid inputs -/
theorem pointSub_correct {A B : J} (hA : JValid A) (hB : JValid B) :
    JValid (pointSub A B) ∧ jpt (pointSub A B) = jpt A - jpt B := by
  have hn := neg_correct hB
  have h := pointAdd_correct hA hn.1
  exact ⟨h.1, by rw [pointSub, h.2, hn.2, sub_eq_add_neg]⟩


/-! ## J3. Conversion to and from affine coordinates -/

theorem invMod_zero : invMod 0 p = 0 := by decide +kernel

theorem mul_zero_v (x z : Fp) (hz : z.v = 0) : (x * z).v = 0 := by
  show x.v * z.v % Model.SM2Curve.P = 0
  rw [hz, Nat.mul_zero, Nat.zero_mod]

/-- the spec-level point a model point stands for -/
def jspec (A : J) : Pt := if A.z.v = 0 then none else some (Model.SM2Curve.toAffine A)

/-- `sm2P256ToAffine`: for a valid model point, the returned coordinates are the library encoding
    ((0,0) for infinity) of a valid spec point, which is the group element `jpt A` -/
theorem toAffine_correct {A : J} (hA : JValid A) :
    Valid (jspec A) ∧ pt (jspec A) = jpt A ∧ Model.SM2Curve.toAffine A = enc (jspec A) := by
  unfold jspec
  by_cases hz : A.z.v = 0
  · rw [if_pos hz]
    refine ⟨valid_none, by rw [jpt_of_z0 hz, pt_none], ?_⟩
    unfold Model.SM2Curve.toAffine
    simp only [hz, enc]
    rw [show Model.SM2Curve.P = p from rfl, invMod_zero]
    have h0 : ((⟨0⟩ : Fp) * ⟨0⟩).v = 0 := mul_zero_v _ _ rfl
    exact Prod.ext (mul_zero_v _ _ h0) (mul_zero_v _ _ (mul_zero_v _ _ h0))
  · rw [if_neg hz]
    have hz' := (mapJ_z_ne hA.red).mpr hz
    have hN := hA.on hz'
    have hzi : val (⟨invMod A.z.v Model.SM2Curve.P⟩ : Fp) = (val A.z)⁻¹ := by
      have := invMod_eq_inv A.z.v p p_gt2 p_lt
      rw [val_mk, show Model.SM2Curve.P = p from rfl, this]; rfl
    have hz0 : val A.z ≠ 0 := hz'
    obtain ⟨hv, e⟩ := some_valid_eq (x3 := (Model.SM2Curve.toAffine A).1) (y3 := (Model.SM2Curve.toAffine A).2)
      (red_mul _ _) (red_mul _ _) hN
      (by
        show val (A.x * _) = _
        simp only [val_mul, hzi, ECFormulas.toAffine, mapJ]
        field_simp)
      (by
        show val (A.y * _) = _
        simp only [val_mul, hzi, ECFormulas.toAffine, mapJ]
        field_simp)
    refine ⟨hv, ?_, rfl⟩
    rw [pt_eq hv, e]
    exact (jp_some hz' hN).symm

/-- the coordinates returned for a model point that stands for the spec point `P` are `enc P` -/
theorem toAffine_eq_enc {A : J} {P : Pt} (hA : JValid A) (hP : Valid P) (h : jpt A = pt P) :
    Model.SM2Curve.toAffine A = enc P := by
  obtain ⟨hv, e, t⟩ := toAffine_correct hA
  rw [t, pt_inj hv hP (e.trans h)]

/-- an affine point with Z = 1 -/
theorem affine_valid {x y : Nat} (h : Valid (some (x, y))) (z : Fp) (hz : z = one) :
    JValid ⟨Fp.ofNat x, Fp.ofNat y, z⟩ ∧ jpt ⟨Fp.ofNat x, Fp.ofNat y, z⟩ = pt (some (x, y)) := by
  subst hz
  have hr : JRed ⟨Fp.ofNat x, Fp.ofNat y, one⟩ := ⟨red_ofNat _, red_ofNat _, red_one⟩
  have hz' : (mapJ ⟨Fp.ofNat x, Fp.ofNat y, one⟩).z ≠ 0 := by
    show val one ≠ 0; rw [val_one]; exact one_ne_zero
  have hN : W.Nonsingular (aff (mapJ ⟨Fp.ofNat x, Fp.ofNat y, one⟩)).1
      (aff (mapJ ⟨Fp.ofNat x, Fp.ofNat y, one⟩)).2 := by
    simp only [ECFormulas.toAffine, mapJ, val_ofNat, val_one, one_pow, div_one]
    exact nonsingular_of_onCurve h.2.2
  refine ⟨jvalid_mk hr (fun _ => hN), ?_⟩
  show jp _ = _
  rw [jp_some hz' hN, pt_eq h, toPoint_some, Point.some.injEq]
  simp only [ECFormulas.toAffine, mapJ, val_ofNat, val_one, one_pow, div_one, and_self]

/-- `zForAffine` / the conversion at the API boundary: (0,0) is the point at infinity -/
theorem fromAffine_valid {x y : Nat} (h : Valid (dec x y)) :
    JValid (fromAffine x y) ∧ jpt (fromAffine x y) = pt (dec x y) := by
  unfold fromAffine
  by_cases h0 : x = 0 ∧ y = 0
  · rw [if_pos h0]
    have hz : (⟨Fp.ofNat x, Fp.ofNat y, zero⟩ : J).z.v = 0 := rfl
    refine ⟨jvalid_of_z0 ⟨red_ofNat _, red_ofNat _, red_zero⟩ hz, ?_⟩
    rw [jpt_of_z0 hz, dec, if_pos h0, pt_none]
  · rw [if_neg h0]
    rw [dec, if_neg h0] at h ⊢
    exact affine_valid h one rfl

/-! ## J4. The API functions `Add`, `Double`, `IsOnCurve` -/

/-- `Curve.Add`: for every pair of valid inputs (points on the curve with reduced coordinates, or
    (0,0) for infinity) the result is the spec's group law `padd`, in all cases -/
theorem apiAdd_correct {x1 y1 x2 y2 : Nat} (h1 : Valid (dec x1 y1)) (h2 : Valid (dec x2 y2)) :
    apiAdd x1 y1 x2 y2 = enc (padd (dec x1 y1) (dec x2 y2)) := by
  obtain ⟨v1, e1⟩ := fromAffine_valid h1
  obtain ⟨v2, e2⟩ := fromAffine_valid h2
  obtain ⟨v, e⟩ := pointAdd_correct v1 v2
  exact toAffine_eq_enc v (padd_valid h1 h2) (by rw [e, e1, e2, pt_padd h1 h2])

/-- `Curve.Double` -/
theorem apiDouble_correct {x y : Nat} (h : Valid (dec x y)) :
    apiDouble x y = enc (padd (dec x y) (dec x y)) := by
  obtain ⟨v1, e1⟩ := fromAffine_valid h
  obtain ⟨v, e⟩ := double_correct_J v1
  exact toAffine_eq_enc v (padd_valid h h) (by rw [e, e1, pt_padd h h])

/-- the field computation of `Curve.IsOnCurve` is the spec's curve equation, for all inputs (reduced or not) -/
theorem isOnCurve_core (x y : Nat) :
    ((Fp.ofNat x * Fp.ofNat x * Fp.ofNat x + fa * Fp.ofNat x + ⟨b⟩) == Fp.ofNat y * Fp.ofNat y) = onCurve x y := by
  rw [Bool.eq_iff_iff, onCurve_iff, ECFormulas.equation_iff_onCurve W_short, ECFormulas.OnCurve]
  simp only [beq_iff_eq]
  rw [← val_inj (red_add _ _) (red_mul _ _)]
  simp only [val_add, val_mul, val_ofNat, val_fa]
  rw [show val (⟨b⟩ : Fp) = (b : F) from rfl]
  constructor <;> intro h <;> linear_combination -h

/-- `Curve.IsOnCurve` (as repaired): both coordinates are field elements and satisfy the spec's curve equation -/
theorem isOnCurve_eq (x y : Nat) : isOnCurve x y = (decide (x < p) && decide (y < p) && onCurve x y) := by
  unfold isOnCurve
  simp only
  rw [isOnCurve_core]

/-! ## J5. The cubic x³ + a·x + b has no root mod p (no point of order 2) -/

/-- product of `u.1 x² + u.2.1 x + u.2.2` and `v…` modulo `x³ + a x + b`, coefficients mod p -/
def qmul (u v : Nat × Nat × Nat) : Nat × Nat × Nat :=
  let c4 := u.1 * v.1
  let c3 := u.1 * v.2.1 + u.2.1 * v.1
  let c2 := u.1 * v.2.2 + u.2.1 * v.2.1 + u.2.2 * v.1
  let c1 := u.2.1 * v.2.2 + u.2.2 * v.2.1
  let c0 := u.2.2 * v.2.2
  ((c2 + (p - a) * c4) % p, (c1 + (p - b) * c4 + (p - a) * c3) % p, (c0 + (p - b) * c3) % p)

def qpowAux : Nat → Nat × Nat × Nat → Nat → Nat × Nat × Nat → Nat × Nat × Nat
  | 0, _, _, acc => acc
  | fuel+1, base, e, acc =>
    if e = 0 then acc
    else qpowAux fuel (qmul base base) (e / 2) (if e % 2 = 1 then qmul acc base else acc)

/-- evaluation of a quadratic at `r` -/
def qev (r : F) (u : Nat × Nat × Nat) : F := (u.1 : F) * r ^ 2 + (u.2.1 : F) * r + (u.2.2 : F)

theorem cast_p_sub_a : ((p - a : Nat) : F) = - (a : F) := by
  rw [Nat.cast_sub (by decide), ZMod.natCast_self, zero_sub]

theorem cast_p_sub_b : ((p - b : Nat) : F) = - (b : F) := by
  rw [Nat.cast_sub (by decide), ZMod.natCast_self, zero_sub]

theorem qev_qmul (r : F) (hr : r ^ 3 + (a : F) * r + (b : F) = 0) (u v : Nat × Nat × Nat) :
    qev r (qmul u v) = qev r u * qev r v := by
  obtain ⟨u2, u1, u0⟩ := u
  obtain ⟨v2, v1, v0⟩ := v
  simp only [qev, qmul, ZMod.natCast_mod, Nat.cast_add, Nat.cast_mul, cast_p_sub_a, cast_p_sub_b]
  linear_combination (-((u2 : F) * v2 * r + ((u2 : F) * v1 + u1 * v2))) * hr

theorem qev_qpowAux (r : F) (hr : r ^ 3 + (a : F) * r + (b : F) = 0) (fuel : Nat)
    (base : Nat × Nat × Nat) (e : Nat) (acc : Nat × Nat × Nat) (he : e < 2 ^ fuel) :
    qev r (qpowAux fuel base e acc) = qev r acc * qev r base ^ e := by
  induction fuel generalizing base e acc with
  | zero =>
    have : e = 0 := by simpa using he
    subst this; simp [qpowAux]
  | succ f ih =>
    unfold qpowAux
    split
    · next h0 => subst h0; simp
    · next h0 =>
      rw [ih _ _ _ (by rw [Nat.pow_succ] at he; omega), qev_qmul r hr]
      split
      · next h1 =>
        have hE : e = 2 * (e / 2) + 1 := by omega
        conv_rhs => rw [hE]
        rw [qev_qmul r hr, pow_succ, pow_mul]; ring
      · next h1 =>
        have hE : e = 2 * (e / 2) := by omega
        conv_rhs => rw [hE]
        rw [pow_mul]; ring

/-- x^p modulo the cubic -/
def xp : Nat × Nat × Nat := qpowAux 256 (0, 1, 0) p (0, 0, 1)

theorem qev_xp (r : F) (hr : r ^ 3 + (a : F) * r + (b : F) = 0) : qev r xp = r := by
  unfold xp
  rw [qev_qpowAux r hr 256 _ _ _ p_lt256]
  simp only [qev, Nat.cast_zero, Nat.cast_one, zero_mul, zero_add, one_mul, add_zero]
  exact ZMod.pow_card r

/-- elimination: a common root of the cubic and of a quadratic `A x² + B x + C` forces their
    resultant-like combination to vanish -/
theorem resultant_zero {K : Type} [Field K] (a b A B C r : K) (hr : r ^ 3 + a * r + b = 0)
    (h1 : A * r ^ 2 + B * r + C = 0) :
    A * (b * A ^ 2 + B * C) ^ 2 + C * (A * (a * A - C) + B ^ 2) ^ 2
      - B * (b * A ^ 2 + B * C) * (A * (a * A - C) + B ^ 2) = 0 := by
  have hL : (A * (a * A - C) + B ^ 2) * r + (b * A ^ 2 + B * C) = 0 := by
    linear_combination A ^ 2 * hr + (B - A * r) * h1
  linear_combination (A * (a * A - C) + B ^ 2) ^ 2 * h1
    - (A * ((A * (a * A - C) + B ^ 2) * r - (b * A ^ 2 + B * C)) + B * (A * (a * A - C) + B ^ 2)) * hL

/-- the resultant value computed on naturals mod p -/
def resNat : Nat :=
  let A := xp.1
  let B := fsub xp.2.1 1
  let C := xp.2.2
  let l0 := b * (A * A) + B * C
  let l1 := A * fsub (a * A) C + B * B
  fsub (A * (l0 * l0) + C * (l1 * l1)) (B * l0 * l1)

theorem resNat_ne : resNat % p ≠ 0 := by decide +kernel

/-- the cubic x³ + a·x + b has no root in `ZMod p`: gcd(x^p − x, x³ + a x + b) = 1, by computing
    x^p modulo the cubic (square-and-multiply, verified above) and eliminating -/
theorem cubic_no_root (r : F) : r ^ 3 + (a : F) * r + (b : F) ≠ 0 := by
  intro hr
  have e := qev_xp r hr
  have h1 : (xp.1 : F) * r ^ 2 + ((fsub xp.2.1 1 : Nat) : F) * r + (xp.2.2 : F) = 0 := by
    rw [fsub_eq, Nat.cast_one]
    simp only [qev] at e
    linear_combination e
  have hz := resultant_zero (a : F) (b : F) _ _ _ r hr h1
  have hc : ((resNat : Nat) : F) = 0 := by
    rw [← hz]
    simp only [resNat, fsub_eq, Nat.cast_add, Nat.cast_mul]
    ring
  rw [ZMod.natCast_eq_zero_iff] at hc
  exact resNat_ne (Nat.mod_eq_zero_of_dvd hc)

/-! ## J6. The group of points has exactly n elements -/

open Classical in
/-- a chosen y-coordinate over x (if there is one) -/
noncomputable def rootY (x : F) : F := if h : ∃ y, W.Equation x y then Classical.choose h else 0

theorem rootY_spec {x y : F} (h : W.Equation x y) : W.Equation x (rootY x) := by
  unfold rootY
  rw [dif_pos ⟨y, h⟩]
  exact Classical.choose_spec (⟨y, h⟩ : ∃ y, W.Equation x y)

open Classical in
/-- at most two points over each x: a point is determined by x and whether y is the chosen root -/
noncomputable def code : W.Point → Option (F × Bool)
  | .zero => none
  | .some x y _ => some (x, decide (y = rootY x))

theorem code_injective : Function.Injective code := by
  intro P Q h
  match P, Q, h with
  | .zero, .zero, _ => rfl
  | .zero, .some x y hq, h => simp [code] at h
  | .some x y hp, .zero, h => simp [code] at h
  | .some x1 y1 h1, .some x2 y2 h2, h =>
    simp only [code, Option.some.injEq, Prod.mk.injEq, decide_eq_decide] at h
    obtain ⟨hx, hy⟩ := h
    subst hx
    rw [Point.some.injEq]
    refine ⟨rfl, ?_⟩
    by_cases e1 : y1 = rootY x1
    · rw [e1, ← hy.mp e1]
    · have e2 : ¬ y2 = rootY x1 := fun e => e1 (hy.mpr e)
      have hr := rootY_spec h1.left
      rcases Y_eq_of_X_eq h1.left hr rfl with c1 | c1
      · exact absurd c1 e1
      · rcases Y_eq_of_X_eq h2.left hr rfl with c2 | c2
        · exact absurd c2 e2
        · rw [c1, c2]

instance : Finite W.Point := Finite.of_injective code code_injective

theorem card_le : Nat.card W.Point ≤ 2 * p + 1 := by
  have h := Nat.card_le_card_of_injective code code_injective
  have e : Nat.card (Option (F × Bool)) = 2 * p + 1 := by
    rw [Nat.card_eq_fintype_card, Fintype.card_option, Fintype.card_prod, ZMod.card, Fintype.card_bool]
    omega
  omega

theorem n_dvd_card : n ∣ Nat.card W.Point := by
  rw [← Props.SM2Group.addOrderOf_G]; exact addOrderOf_dvd_natCard _

/-- no point of order 2 -/
theorem no_order_two (Q : W.Point) (h : addOrderOf Q = 2) : False := by
  have h2 : 2 • Q = 0 := by rw [← h]; exact addOrderOf_nsmul_eq_zero Q
  have hne : Q ≠ 0 := by
    intro h0; rw [h0, addOrderOf_zero] at h; omega
  match Q, h2, hne with
  | .zero, _, hne => exact hne rfl
  | .some x y hN, h2, _ =>
    have hneg : Point.some x y hN = - Point.some x y hN := by
      rw [two_nsmul] at h2
      exact eq_neg_of_add_eq_zero_left h2
    rw [Point.neg_some, Point.some.injEq, ECFormulas.negY_eq W_short] at hneg
    have hy : y = 0 := by
      have : (2 : F) * y = 0 := by linear_combination hneg.2
      rcases mul_eq_zero.mp this with h | h
      · exact absurd h two_ne_zero_F
      · exact h
    have he := (ECFormulas.equation_iff_onCurve W_short x y).mp hN.left
    rw [ECFormulas.OnCurve, hy] at he
    exact cubic_no_root x (by linear_combination -he)

/-- #E(F_p) = n: n divides the group order (G has order n), the order is at most 2p + 1 < 3n, and it is
    not 2n because there is no point of order 2 (Cauchy) -/
theorem card_eq : Nat.card W.Point = n := by
  obtain ⟨c, hc⟩ := n_dvd_card
  have hpos : 0 < Nat.card W.Point := Nat.card_pos
  have hle := card_le
  have h3 : 2 * p + 1 < n * 3 := by decide
  have hc12 : c = 1 ∨ c = 2 := by
    rcases c with _ | _ | _ | c
    · omega
    · left; rfl
    · right; rfl
    · exfalso
      have : n * 3 ≤ n * (c + 1 + 1 + 1) := Nat.mul_le_mul_left n (by omega)
      omega
  rcases hc12 with h | h
  · rw [hc, h, Nat.mul_one]
  · exfalso
    have : Fact (Nat.Prime 2) := ⟨Nat.prime_two⟩
    obtain ⟨Q, hQ⟩ := exists_prime_addOrderOf_dvd_card' (G := W.Point) 2 (by rw [hc, h]; exact ⟨n, Nat.mul_comm _ _⟩)
    exact no_order_two Q hQ

/-- every point is annihilated by n -/
theorem n_nsmul (Q : W.Point) : n • Q = 0 := by
  rw [← card_eq]; exact card_nsmul_eq_zero'

/-- every point other than 0 has order exactly n -/
theorem addOrderOf_eq_n {Q : W.Point} (h : Q ≠ 0) : addOrderOf Q = n :=
  addOrderOf_eq_prime (n_nsmul Q) h

theorem nsmul_eq_zero_iff {Q : W.Point} (h : Q ≠ 0) (m : Nat) : m • Q = 0 ↔ n ∣ m := by
  rw [← addOrderOf_eq_n h]; exact addOrderOf_dvd_iff_nsmul_eq_zero.symm

open Props.C03Alg (dval msbVal)

/-! ## J7. The dense digit array of the windowed NAF -/

/-- invariant of the accumulator of `wnafLoop`: strictly decreasing positions below `bound`, digits of
    absolute value ≤ 7 -/
def WGood (bound : Nat) (acc : List (Nat × Int)) : Prop :=
  acc.Pairwise (fun p q => p.1 > q.1) ∧ ∀ q ∈ acc, q.1 < bound ∧ q.2.natAbs ≤ 7

theorem WGood.mono {b b' : Nat} {acc : List (Nat × Int)} (h : WGood b acc) (hb : b ≤ b') : WGood b' acc :=
  ⟨h.1, fun q hq => ⟨Nat.lt_of_lt_of_le (h.2 q hq).1 hb, (h.2 q hq).2⟩⟩

theorem wnafLoop_good (fuel k : Nat) (carry : Bool) (pos length : Nat) (acc ds : List (Nat × Int))
    (hg : WGood (length + pos) acc) (h : wnafLoop fuel k carry pos length acc = some ds) :
    ∃ b, WGood b ds := by
  induction fuel generalizing k carry pos length acc with
  | zero => simp [wnafLoop] at h
  | succ fuel ih =>
    unfold wnafLoop at h
    by_cases hexit : pos > bitLen k
    · simp only [hexit, if_true, Option.some.injEq] at h
      subst h; exact ⟨_, hg⟩
    · simp only [hexit, if_false] at h
      by_cases hskip : ((k / 2 ^ pos % 2 == 1) == carry) = true
      · simp only [hskip, if_true] at h
        exact ih k carry (pos + 1) length acc (hg.mono (by omega)) h
      · simp only [hskip, Bool.false_eq_true, if_false] at h
        refine ih _ _ 4 (length + pos) _ ?_ h
        constructor
        · rw [List.pairwise_cons]
          exact ⟨fun q hq => (hg.2 q hq).1, hg.1⟩
        · intro q hq
          rw [List.mem_cons] at hq
          rcases hq with rfl | hq
          · refine ⟨by simp, ?_⟩
            simp only
            have hm : k / 2 ^ pos % 16 < 16 := Nat.mod_lt _ (by decide)
            have hpar : (k / 2 ^ pos % 16) % 2 = k / 2 ^ pos % 2 := by omega
            generalize k / 2 ^ pos % 16 = m at hm hpar ⊢
            generalize k / 2 ^ pos % 2 = bb at hskip hpar
            cases carry
            · have hb : bb = 1 := by
                have : bb < 2 ∨ True := Or.inr trivial
                simp at hskip
                omega
              subst hb
              simp only [Bool.false_eq_true, if_false, Int.add_zero, Int.toNat_natCast]
              split <;> rename_i hc <;> simp at hc <;> omega
            · have hb : bb ≠ 1 := by simpa using hskip
              simp only [if_true]
              have e : ((m : Int) + 1).toNat = m + 1 := by omega
              rw [e]
              split <;> rename_i hc <;> simp at hc <;> omega
          · exact ⟨Nat.lt_of_lt_of_le (hg.2 q hq).1 (by omega), (hg.2 q hq).2⟩

theorem wnafDigits_good (k : Nat) : ∃ b, WGood b (wnafDigits k) := by
  unfold wnafDigits
  cases hr : wnafLoop (2 * bitLen k + 12) k false 0 0 [] with
  | none => exact ⟨0, List.Pairwise.nil, by simp⟩
  | some ds => exact wnafLoop_good _ _ _ _ _ _ ds ⟨List.Pairwise.nil, by simp⟩ hr

/-- the digit the dense array holds at position `i` -/
def digitAt (ds : List (Nat × Int)) (i : Nat) : Int := ((ds.find? (·.1 == i)).map (·.2)).getD 0

theorem digitAt_nil (i : Nat) : digitAt [] i = 0 := rfl

theorem digitAt_cons (p : Nat) (d : Int) (rest : List (Nat × Int)) (i : Nat) :
    digitAt ((p, d) :: rest) i = if p = i then d else digitAt rest i := by
  unfold digitAt
  rw [List.find?_cons]
  by_cases h : p = i
  · subst h; simp
  · have hb : (p == i) = false := by simpa using h
    simp only [hb, if_neg h]

theorem digitAt_of_not_mem (ds : List (Nat × Int)) (i : Nat) (h : ∀ q ∈ ds, q.1 ≠ i) : digitAt ds i = 0 := by
  induction ds with
  | nil => rfl
  | cons q rest ih =>
    obtain ⟨p, d⟩ := q
    rw [digitAt_cons, if_neg (h (p, d) (List.mem_cons_self)), ih (fun q hq => h q (List.mem_cons_of_mem _ hq))]

theorem digitAt_bound (ds : List (Nat × Int)) (i : Nat) (h : ∀ q ∈ ds, q.2.natAbs ≤ 7) :
    (digitAt ds i).natAbs ≤ 7 := by
  induction ds with
  | nil => simp [digitAt_nil]
  | cons q rest ih =>
    obtain ⟨p, d⟩ := q
    rw [digitAt_cons]
    split
    · exact h (p, d) List.mem_cons_self
    · exact ih (fun q hq => h q (List.mem_cons_of_mem _ hq))

open Finset in
theorem sum_digitAt (ds : List (Nat × Int)) (m : Nat) (hp : ds.Pairwise (fun p q => p.1 > q.1))
    (hm : ∀ q ∈ ds, q.1 < m) :
    ∑ i ∈ range m, digitAt ds i * 2 ^ i = dval ds := by
  induction ds with
  | nil => simp [digitAt_nil, dval]
  | cons q rest ih =>
    obtain ⟨p, d⟩ := q
    rw [List.pairwise_cons] at hp
    have hrest := ih hp.2 (fun q hq => hm q (List.mem_cons_of_mem _ hq))
    have h0 : digitAt rest p = 0 :=
      digitAt_of_not_mem rest p (fun q hq => Nat.ne_of_lt (hp.1 q hq))
    have hpm : p ∈ range m := mem_range.mpr (hm (p, d) List.mem_cons_self)
    have e : ∀ i ∈ range m, digitAt ((p, d) :: rest) i * 2 ^ i
        = digitAt rest i * 2 ^ i + (if p = i then d * 2 ^ p else 0) := by
      intro i _
      rw [digitAt_cons]
      by_cases h : p = i
      · subst h; rw [if_pos rfl, if_pos rfl, h0]; ring
      · rw [if_neg h, if_neg h, add_zero]
    rw [sum_congr rfl e, sum_add_distrib, hrest, sum_ite_eq, if_pos hpm]
    simp only [dval, List.map_cons, List.sum_cons]
    ring

open Finset in
theorem foldl_dense (g : Nat → Int) (m : Nat) (v : Int) :
    ((List.range m).reverse.map g).foldl (fun v d => 2 * v + d) v
      = v * 2 ^ m + ∑ i ∈ range m, g i * 2 ^ i := by
  induction m generalizing v with
  | zero => simp
  | succ m ih =>
    rw [List.range_succ, List.reverse_append, List.reverse_singleton, List.singleton_append,
      List.map_cons, List.foldl_cons, ih, sum_range_succ, pow_succ]
    ring

theorem le_foldl_max (ds : List (Nat × Int)) (m0 : Nat) :
    m0 ≤ ds.foldl (fun m (p : Nat × Int) => max m p.1) m0 ∧
    ∀ q ∈ ds, q.1 ≤ ds.foldl (fun m (p : Nat × Int) => max m p.1) m0 := by
  induction ds generalizing m0 with
  | nil => simp
  | cons q rest ih =>
    rw [List.foldl_cons]
    obtain ⟨h1, h2⟩ := ih (max m0 q.1)
    refine ⟨le_trans (le_max_left _ _) h1, ?_⟩
    intro r hr
    rw [List.mem_cons] at hr
    rcases hr with rfl | hr
    · exact le_trans (le_max_right _ _) h1
    · exact h2 r hr

/-- `WNafReversed` represents the scalar: the dense digit array, read most significant first, has
    value k -/
theorem wnafReversed_value (k : Nat) : msbVal (wnafReversed k) = k := by
  unfold wnafReversed
  by_cases hk : k = 0
  · subst hk; simp [msbVal]
  · rw [if_neg hk]
    obtain ⟨b, hp, hb⟩ := wnafDigits_good k
    have htop := (le_foldl_max (wnafDigits k) 0).2
    show ((List.range _).reverse.map (digitAt (wnafDigits k))).foldl (fun v d => 2 * v + d) 0 = _
    rw [foldl_dense, zero_mul, zero_add,
      sum_digitAt _ _ hp (fun q hq => Nat.lt_succ_of_le (htop q hq)), Props.C03Alg.wnaf_value]

/-- every entry of the dense array is 0 or a window digit, of absolute value ≤ 7 -/
theorem wnafReversed_bound (k : Nat) : ∀ d ∈ wnafReversed k, d.natAbs ≤ 7 := by
  unfold wnafReversed
  by_cases hk : k = 0
  · subst hk; simp
  · rw [if_neg hk]
    obtain ⟨b, hp, hb⟩ := wnafDigits_good k
    intro d hd
    change d ∈ (List.range _).reverse.map (digitAt (wnafDigits k)) at hd
    rw [List.mem_map] at hd
    obtain ⟨i, _, rfl⟩ := hd
    exact digitAt_bound _ _ (fun q hq => (hb q hq).2)

open Props.C03Alg (evalStep windowEval)

/-! ## J8. `ScalarMult`: the table of small multiples and the window loop -/

theorem jpt_ne_zero_z {A : J} (h : jpt A ≠ 0) : (mapJ A).z ≠ 0 := fun hz => h (jp_of_z0 hz)

theorem pt_some_ne_zero {x y : Nat} (h : Valid (some (x, y))) : pt (some (x, y)) ≠ 0 := by
  rw [pt_eq h, toPoint_some]; exact Point.some_ne_zero _

/-- `sm2P256PointAddMixed` on a valid accumulator and a valid affine point (given by reduced model
    field elements): correct unless the accumulator is the point at infinity or EQUAL to the affine
    point (the formula has no doubling case) -/
theorem addMixed_correct_J {A : J} {x2 y2 : Fp} (hA : JValid A) (hP : Valid (some (x2.v, y2.v)))
    (hz : jpt A ≠ 0) (hne : jpt A ≠ pt (some (x2.v, y2.v))) :
    JValid (addMixed A x2 y2) ∧ jpt (addMixed A x2 y2) = jpt A + pt (some (x2.v, y2.v)) := by
  have hN : W.Nonsingular (val x2) (val y2) := nonsingular_of_onCurve hP.2.2
  have e : pt (some (x2.v, y2.v)) = Point.some (val x2) (val y2) hN := by rw [pt_eq hP, toPoint_some]; rfl
  rw [e] at hne ⊢
  have h := addMixed_F hA.on (jpt_ne_zero_z hz) hN hne
  rw [← mapJ_addMixed] at h
  exact ⟨jvalid_mk (jred_addMixed A x2 y2) h.1, h.2⟩

theorem n_gt8 : 8 < n := by decide

theorem small_nsmul_ne_zero {Q : W.Point} (hQ : Q ≠ 0) {m : Nat} (h0 : 0 < m) (hm : m < 8) :
    m • Q ≠ 0 := by
  intro h
  have := Nat.le_of_dvd h0 ((nsmul_eq_zero_iff hQ m).mp h)
  have := n_gt8
  omega

theorem small_nsmul_ne_self {Q : W.Point} (hQ : Q ≠ 0) {m : Nat} (h1 : 1 < m) (hm : m < 9) :
    m • Q ≠ Q := by
  intro h
  have e : m • Q = (m - 1) • Q + Q := by
    rw [← succ_nsmul]; congr 1; omega
  rw [e, add_eq_right] at h
  exact small_nsmul_ne_zero hQ (by omega) (by omega) h

/-- the precomputed table of `sm2P256ScalarMult`: entries 0, P, 2P, …, 7P -/
def smTable (x y : Nat) : List J :=
  let p1 : J := ⟨Fp.ofNat x, Fp.ofNat y, one⟩
  let X := Fp.ofNat x; let Y := Fp.ofNat y
  let p2 := double fa p1
  let p3 := addMixed p2 X Y
  let p4 := double fa p2
  let p5 := addMixed p4 X Y
  let p6 := double fa p3
  let p7 := addMixed p6 X Y
  [inf, p1, p2, p3, p4, p5, p6, p7]

/-- pending doublings -/
def dbls (z : Nat) (acc : J) : J := (List.range z).foldl (fun a _ => double fa a) acc

/-- the table entry |d|·P, negated for negative digits -/
def signedEntry (table : List J) (d : Int) : J :=
  let e := table.getD d.natAbs inf
  if d > 0 then e else ⟨e.x, e.y.neg, e.z⟩

/-- one iteration of the digit loop of `sm2P256ScalarMult` -/
def smStep (table : List J) (st : J × Bool × Nat) (d : Int) : J × Bool × Nat :=
  if d = 0 then (st.1, st.2.1, st.2.2 + 1)
  else if st.2.1 then (signedEntry table d, false, 0)
  else (pointAdd (double fa (dbls st.2.2 st.1)) (signedEntry table d), false, 0)

theorem scalarMultDigits_eq (x y : Nat) (digits : List Int) :
    scalarMultDigits x y digits =
      dbls (digits.foldl (smStep (smTable x y)) (inf, true, 0)).2.2
        (digits.foldl (smStep (smTable x y)) (inf, true, 0)).1 := rfl

theorem ofNat_of_lt {x : Nat} (h : x < p) : Fp.ofNat x = ⟨x⟩ := by
  show (⟨x % p⟩ : Fp) = ⟨x⟩
  rw [Nat.mod_eq_of_lt h]

/-- every table entry `m` (0 ≤ m ≤ 7) is a valid point standing for m·P (uses: P has order n > 7) -/
theorem smTable_correct {x y : Nat} (h : Valid (some (x, y))) :
    ∀ m, m ≤ 7 → JValid ((smTable x y).getD m inf) ∧
      jpt ((smTable x y).getD m inf) = m • pt (some (x, y)) := by
  have hQ := pt_some_ne_zero h
  have hP : Valid (some ((Fp.ofNat x).v, (Fp.ofNat y).v)) := by
    rw [ofNat_of_lt h.1, ofNat_of_lt h.2.1]; exact h
  have eP : pt (some ((Fp.ofNat x).v, (Fp.ofNat y).v)) = pt (some (x, y)) := by
    rw [ofNat_of_lt h.1, ofNat_of_lt h.2.1]
  generalize hQd : pt (some (x, y)) = Q at hQ eP
  obtain ⟨v1, e1⟩ := affine_valid h one rfl
  rw [hQd] at e1
  obtain ⟨v2, e2⟩ := double_correct_J v1
  rw [e1, ← two_nsmul] at e2
  obtain ⟨v3, e3⟩ := addMixed_correct_J (x2 := Fp.ofNat x) (y2 := Fp.ofNat y) v2 hP
    (by rw [e2]; exact small_nsmul_ne_zero hQ (by omega) (by omega))
    (by rw [e2, eP]; exact small_nsmul_ne_self hQ (by omega) (by omega))
  rw [e2, eP, ← succ_nsmul] at e3
  obtain ⟨v4, e4⟩ := double_correct_J v2
  rw [e2, ← add_nsmul] at e4
  obtain ⟨v5, e5⟩ := addMixed_correct_J (x2 := Fp.ofNat x) (y2 := Fp.ofNat y) v4 hP
    (by rw [e4]; exact small_nsmul_ne_zero hQ (by omega) (by omega))
    (by rw [e4, eP]; exact small_nsmul_ne_self hQ (by omega) (by omega))
  rw [e4, eP, ← succ_nsmul] at e5
  obtain ⟨v6, e6⟩ := double_correct_J v3
  rw [e3, ← add_nsmul] at e6
  obtain ⟨v7, e7⟩ := addMixed_correct_J (x2 := Fp.ofNat x) (y2 := Fp.ofNat y) v6 hP
    (by rw [e6]; exact small_nsmul_ne_zero hQ (by omega) (by omega))
    (by rw [e6, eP]; exact small_nsmul_ne_self hQ (by omega) (by omega))
  rw [e6, eP, ← succ_nsmul] at e7
  intro m hm
  rcases m with _ | _ | _ | _ | _ | _ | _ | _ | m
  · exact ⟨jvalid_inf, by rw [zero_nsmul]; exact jpt_inf⟩
  · exact ⟨v1, by rw [one_nsmul]; exact e1⟩
  · exact ⟨v2, e2⟩
  · exact ⟨v3, e3⟩
  · exact ⟨v4, e4⟩
  · exact ⟨v5, e5⟩
  · exact ⟨v6, e6⟩
  · exact ⟨v7, e7⟩
  · omega

theorem dbls_succ (z : Nat) (acc : J) : dbls (z + 1) acc = double fa (dbls z acc) := by
  unfold dbls
  rw [List.range_succ, List.foldl_append]; rfl

theorem dbls_correct {A : J} (hA : JValid A) (z : Nat) :
    JValid (dbls z A) ∧ jpt (dbls z A) = (2 : Int) ^ z • jpt A := by
  induction z with
  | zero => exact ⟨hA, by simp [dbls]⟩
  | succ z ih =>
    rw [dbls_succ]
    obtain ⟨v, e⟩ := double_correct_J ih.1
    refine ⟨v, ?_⟩
    rw [e, ih.2, pow_succ, mul_smul, two_zsmul]
    exact (zsmul_add _ _ _).symm

/-- a signed table entry -/
theorem entry_correct {table : List J} {Q : W.Point}
    (htab : ∀ m, m ≤ 7 → JValid (table.getD m inf) ∧ jpt (table.getD m inf) = m • Q)
    {d : Int} (hd : d.natAbs ≤ 7) :
    JValid (signedEntry table d) ∧ jpt (signedEntry table d) = d • Q := by
  obtain ⟨v, e⟩ := htab d.natAbs hd
  unfold signedEntry
  by_cases hpos : d > 0
  · simp only [if_pos hpos]
    refine ⟨v, ?_⟩
    rw [e, ← natCast_zsmul, Int.natCast_natAbs, abs_of_pos hpos]
  · simp only [if_neg hpos]
    obtain ⟨v', e'⟩ := neg_correct v
    refine ⟨v', ?_⟩
    rw [e', e, ← natCast_zsmul, Int.natCast_natAbs, abs_of_nonpos (by omega), neg_zsmul, neg_neg]

/-- the digit loop of `sm2P256ScalarMult` is the abstract window evaluation `evalStep` under `jpt` -/
theorem smStep_foldl {table : List J} {Q : W.Point}
    (htab : ∀ m, m ≤ 7 → JValid (table.getD m inf) ∧ jpt (table.getD m inf) = m • Q)
    (digits : List Int) (hd : ∀ d ∈ digits, d.natAbs ≤ 7)
    (A : J) (isInf : Bool) (z : Nat) (hv : JValid A) (hi : isInf = true → jpt A = 0) :
    JValid (digits.foldl (smStep table) (A, isInf, z)).1 ∧
    jpt (digits.foldl (smStep table) (A, isInf, z)).1 = (digits.foldl (evalStep Q) (jpt A, z)).1 ∧
    (digits.foldl (smStep table) (A, isInf, z)).2.2 = (digits.foldl (evalStep Q) (jpt A, z)).2 := by
  induction digits generalizing A isInf z with
  | nil => exact ⟨hv, rfl, rfl⟩
  | cons d ds ih =>
    rw [List.foldl_cons, List.foldl_cons]
    have hds : ∀ d ∈ ds, d.natAbs ≤ 7 := fun d' h => hd d' (List.mem_cons_of_mem _ h)
    have hd7 := hd d List.mem_cons_self
    by_cases h0 : d = 0
    · have e1 : smStep table (A, isInf, z) d = (A, isInf, z + 1) := by rw [smStep, if_pos h0]
      have e2 : evalStep Q (jpt A, z) d = (jpt A, z + 1) := by rw [evalStep, if_pos h0]
      rw [e1, e2]
      exact ih hds A isInf (z + 1) hv hi
    · obtain ⟨ve, ee⟩ := entry_correct htab hd7
      have e2 : evalStep Q (jpt A, z) d = ((2 : Int) ^ (z + 1) • jpt A + d • Q, 0) := by
        rw [evalStep, if_neg h0]
      rw [e2]
      by_cases hinf : isInf = true
      · have e1 : smStep table (A, isInf, z) d = (signedEntry table d, false, 0) := by
          rw [smStep, if_neg h0, if_pos hinf]
        rw [e1]
        have := ih hds (signedEntry table d) false 0 ve (by simp)
        rw [ee] at this
        rw [hi hinf, zsmul_zero, zero_add]
        exact this
      · have e1 : smStep table (A, isInf, z) d =
            (pointAdd (double fa (dbls z A)) (signedEntry table d), false, 0) := by
          rw [smStep, if_neg h0, if_neg hinf]
        rw [e1]
        obtain ⟨vd, ed⟩ := dbls_correct hv z
        obtain ⟨vd2, ed2⟩ := double_correct_J vd
        obtain ⟨va, ea⟩ := pointAdd_correct vd2 ve
        have := ih hds _ false 0 va (by simp)
        rw [ea, ed2, ed, ee] at this
        rw [pow_succ, mul_smul, two_zsmul, zsmul_add]
        exact this

/-- the window loop computes (value of the digits)·P, for every digit string with |digit| ≤ 7 -/
theorem scalarMultDigits_correct {x y : Nat} (h : Valid (some (x, y))) (digits : List Int)
    (hd : ∀ d ∈ digits, d.natAbs ≤ 7) :
    JValid (scalarMultDigits x y digits) ∧
    jpt (scalarMultDigits x y digits) = msbVal digits • pt (some (x, y)) := by
  rw [scalarMultDigits_eq]
  obtain ⟨v, e, ez⟩ := smStep_foldl (smTable_correct h) digits hd inf true 0 jvalid_inf
    (fun _ => jpt_inf)
  obtain ⟨vd, ed⟩ := dbls_correct v (digits.foldl (smStep (smTable x y)) (inf, true, 0)).2.2
  refine ⟨vd, ?_⟩
  rw [ed, e, ez, ← Props.C03Alg.windowEval_correct, windowEval, jpt_inf]


/-- scalars may be reduced modulo n on EVERY valid point (the group has order n) -/
theorem smul_mod_n {P : Pt} (hP : Valid P) {k : Nat} (hk : k < 2 ^ 600) : smul (k % n) P = smul k P := by
  have hk' : k % n < 2 ^ 600 := Props.SM2Group.lt_of_lt_n (Nat.mod_lt _ Props.SM2Group.n_pos)
  apply pt_inj (smul_valid hP hk') (smul_valid hP hk)
  rw [pt_smul hP hk', pt_smul hP hk, Props.C01.smul_mod_order n _ (n_nsmul _)]

/-- `Curve.ScalarMult`: for every point on the curve (reduced coordinates) and EVERY scalar k, the
    result is the encoding of [k mod n]P computed by the specification -/
theorem scalarMult_correct {x y : Nat} (h : Valid (some (x, y))) (k : Nat) :
    apiScalarMult x y k = enc (smul (k % n) (some (x, y))) := by
  have hk : k % n < 2 ^ 600 := Props.SM2Group.lt_of_lt_n (Nat.mod_lt _ Props.SM2Group.n_pos)
  obtain ⟨v, e⟩ := scalarMultDigits_correct h (wnafReversed (k % n)) (wnafReversed_bound _)
  rw [wnafReversed_value, natCast_zsmul] at e
  exact toAffine_eq_enc v (smul_valid h hk) (by rw [e, pt_smul h hk])

open Props.C03 (tableScalar)

/-! ## J9. `ScalarBaseMult`: the comb over the precomputed table -/

def combIdx (k i jj : Nat) : Nat :=
  bit k (31 - i + jj * 32) + 2 * bit k (95 - i + jj * 32) + 4 * bit k (159 - i + jj * 32)
    + 8 * bit k (223 - i + jj * 32)

def combAddIdx (st : J × Bool) (jj idx : Nat) : J × Bool :=
  if idx = 0 then st
  else if st.2 then (⟨(tableEntry jj idx).1, (tableEntry jj idx).2, one⟩, false)
  else (addMixed st.1 (tableEntry jj idx).1 (tableEntry jj idx).2, false)

def combStep (k : Nat) (st : J × Bool) (i : Nat) : J × Bool :=
  combAddIdx (combAddIdx (if i ≠ 0 then double fa st.1 else st.1, st.2) 0 (combIdx k i 0)) 1 (combIdx k i 1)

theorem scalarBaseMult_eq (k : Nat) :
    scalarBaseMult k = ((List.range 32).foldl (combStep k) (inf, true)).1 := rfl

theorem tableScalar_eq (j idx : Nat) : tableScalar j idx =
    (idx % 2) * 2 ^ (32 * j) + (idx / 2 % 2) * 2 ^ (64 + 32 * j) + (idx / 4 % 2) * 2 ^ (128 + 32 * j)
      + (idx / 8 % 2) * 2 ^ (192 + 32 * j) := by
  simp [tableScalar, List.range_succ]
  ring

def hw (k c : Nat) : Nat := k / 2 ^ (32 * c) % 2 ^ 32

theorem bit_hw (k c s : Nat) (hs : s < 32) : bit k (32 * c + s) = hw k c / 2 ^ s % 2 := by
  unfold bit hw
  rw [Nat.pow_add, ← Nat.div_div_eq_div_mul]
  generalize k / 2 ^ (32 * c) = m
  have e : m % 2 ^ 32 / 2 ^ s = m / 2 ^ s % 2 ^ (32 - s) := by
    rw [← Nat.mod_mul_right_div_self, ← Nat.pow_add]
    congr 3; omega
  rw [e, Nat.mod_mod_of_dvd]
  exact dvd_pow_self 2 (by omega)


/-- value accumulated by the comb after `i` rows: the top `i` bits of each of the eight 32-bit words -/
def combV (k i : Nat) : Nat :=
  hw k 0 / 2 ^ (32 - i) + 2 ^ 32 * (hw k 1 / 2 ^ (32 - i)) + 2 ^ 64 * (hw k 2 / 2 ^ (32 - i))
    + 2 ^ 96 * (hw k 3 / 2 ^ (32 - i)) + 2 ^ 128 * (hw k 4 / 2 ^ (32 - i))
    + 2 ^ 160 * (hw k 5 / 2 ^ (32 - i)) + 2 ^ 192 * (hw k 6 / 2 ^ (32 - i))
    + 2 ^ 224 * (hw k 7 / 2 ^ (32 - i))

theorem hw_lt (k c : Nat) : hw k c < 2 ^ 32 := Nat.mod_lt _ (by decide)

theorem combV_zero (k : Nat) : combV k 0 = 0 := by
  unfold combV
  simp only [Nat.sub_zero, Nat.div_eq_of_lt (hw_lt k _), Nat.mul_zero, Nat.add_zero]

theorem hw_sum (k : Nat) (hk : k < 2 ^ 256) :
    hw k 0 + 2 ^ 32 * hw k 1 + 2 ^ 64 * hw k 2 + 2 ^ 96 * hw k 3 + 2 ^ 128 * hw k 4
      + 2 ^ 160 * hw k 5 + 2 ^ 192 * hw k 6 + 2 ^ 224 * hw k 7 = k := by
  unfold hw
  norm_num
  omega

theorem combV_le (k i : Nat) (hk : k < 2 ^ 256) : combV k i ≤ k := by
  have hs := hw_sum k hk
  unfold combV
  have h := fun c => Nat.div_le_self (hw k c) (2 ^ (32 - i))
  have h0 := h 0; have h1 := h 1; have h2 := h 2; have h3 := h 3
  have h4 := h 4; have h5 := h 5; have h6 := h 6; have h7 := h 7
  omega

theorem combV_32 (k : Nat) (hk : k < 2 ^ 256) : combV k 32 = k := by
  have hs := hw_sum k hk
  unfold combV
  simp only [Nat.sub_self, Nat.pow_zero, Nat.div_one]
  exact hs

theorem tableScalar_bits (j b0 b1 b2 b3 : Nat) (c0 : b0 ≤ 1) (c1 : b1 ≤ 1) (c2 : b2 ≤ 1) (c3 : b3 ≤ 1) :
    tableScalar j (b0 + 2 * b1 + 4 * b2 + 8 * b3) =
      b0 * 2 ^ (32 * j) + b1 * 2 ^ (64 + 32 * j) + b2 * 2 ^ (128 + 32 * j) + b3 * 2 ^ (192 + 32 * j) := by
  rw [tableScalar_eq]
  have e0 : (b0 + 2 * b1 + 4 * b2 + 8 * b3) % 2 = b0 := by omega
  have e1 : (b0 + 2 * b1 + 4 * b2 + 8 * b3) / 2 % 2 = b1 := by omega
  have e2 : (b0 + 2 * b1 + 4 * b2 + 8 * b3) / 4 % 2 = b2 := by omega
  have e3 : (b0 + 2 * b1 + 4 * b2 + 8 * b3) / 8 % 2 = b3 := by omega
  rw [e0, e1, e2, e3]

/-- the facts about one row of the comb, in terms of the eight word prefixes `u c` and next bits `β c` -/
theorem row_facts (k i : Nat) (hi : i < 32) :
    ∃ u β : Nat → Nat, (∀ c, u c < 2 ^ 31) ∧ (∀ c, β c ≤ 1) ∧
      combV k i = u 0 + 2 ^ 32 * u 1 + 2 ^ 64 * u 2 + 2 ^ 96 * u 3 + 2 ^ 128 * u 4 + 2 ^ 160 * u 5
        + 2 ^ 192 * u 6 + 2 ^ 224 * u 7 ∧
      combV k (i + 1) = (2 * u 0 + β 0) + 2 ^ 32 * (2 * u 1 + β 1) + 2 ^ 64 * (2 * u 2 + β 2)
        + 2 ^ 96 * (2 * u 3 + β 3) + 2 ^ 128 * (2 * u 4 + β 4) + 2 ^ 160 * (2 * u 5 + β 5)
        + 2 ^ 192 * (2 * u 6 + β 6) + 2 ^ 224 * (2 * u 7 + β 7) ∧
      combIdx k i 0 = β 0 + 2 * β 2 + 4 * β 4 + 8 * β 6 ∧
      combIdx k i 1 = β 1 + 2 * β 3 + 4 * β 5 + 8 * β 7 := by
  refine ⟨fun c => hw k c / 2 ^ (32 - i), fun c => hw k c / 2 ^ (31 - i) % 2, ?_, ?_, rfl, ?_, ?_, ?_⟩
  · intro c
    show hw k c / 2 ^ (32 - i) < 2 ^ 31
    have h1 : hw k c / 2 ^ (32 - i) < 2 ^ i := by
      apply Nat.div_lt_of_lt_mul
      rw [← Nat.pow_add, show 32 - i + i = 32 by omega]
      exact hw_lt k c
    exact Nat.lt_of_lt_of_le h1 (Nat.pow_le_pow_right (by decide) (by omega))
  · intro c; show _ % 2 ≤ 1; omega
  · have e : ∀ c, hw k c / 2 ^ (31 - i) = 2 * (hw k c / 2 ^ (32 - i)) + hw k c / 2 ^ (31 - i) % 2 := by
      intro c
      have := Props.C03Alg.div_pow_succ (hw k c) (31 - i)
      rwa [show 31 - i + 1 = 32 - i by omega] at this
    unfold combV
    rw [show 32 - (i + 1) = 31 - i by omega]
    simp only [← e]
  · unfold combIdx
    rw [show 31 - i + 0 * 32 = 32 * 0 + (31 - i) by omega, show 95 - i + 0 * 32 = 32 * 2 + (31 - i) by omega,
      show 159 - i + 0 * 32 = 32 * 4 + (31 - i) by omega, show 223 - i + 0 * 32 = 32 * 6 + (31 - i) by omega,
      bit_hw _ _ _ (by omega), bit_hw _ _ _ (by omega), bit_hw _ _ _ (by omega), bit_hw _ _ _ (by omega)]
  · unfold combIdx
    rw [show 31 - i + 1 * 32 = 32 * 1 + (31 - i) by omega, show 95 - i + 1 * 32 = 32 * 3 + (31 - i) by omega,
      show 159 - i + 1 * 32 = 32 * 5 + (31 - i) by omega, show 223 - i + 1 * 32 = 32 * 7 + (31 - i) by omega,
      bit_hw _ _ _ (by omega), bit_hw _ _ _ (by omega), bit_hw _ _ _ (by omega), bit_hw _ _ _ (by omega)]

theorem combIdx_le (k i jj : Nat) : combIdx k i jj ≤ 15 := by
  unfold combIdx bit; omega

/-- the arithmetic of one comb row: the new value, and the two additions never meet the doubling case
    of the mixed addition (the table point has a bit where the accumulator has none) -/
theorem row_arith (k i : Nat) (hi : i < 32) :
    combV k (i + 1) = 2 * combV k i + tableScalar 0 (combIdx k i 0) + tableScalar 1 (combIdx k i 1) ∧
    (combIdx k i 0 ≠ 0 → 2 * combV k i ≠ tableScalar 0 (combIdx k i 0)) ∧
    (combIdx k i 1 ≠ 0 → 2 * combV k i + tableScalar 0 (combIdx k i 0) ≠ tableScalar 1 (combIdx k i 1)) := by
  obtain ⟨u, β, hu, hb, e1, e2, e3, e4⟩ := row_facts k i hi
  rw [e1, e2, e3, e4, tableScalar_bits 0 _ _ _ _ (hb 0) (hb 2) (hb 4) (hb 6),
    tableScalar_bits 1 _ _ _ _ (hb 1) (hb 3) (hb 5) (hb 7)]
  have h0 := hu 0; have h1 := hu 1; have h2 := hu 2; have h3 := hu 3
  have h4 := hu 4; have h5 := hu 5; have h6 := hu 6; have h7 := hu 7
  have b0 := hb 0; have b1 := hb 1; have b2 := hb 2; have b3 := hb 3
  have b4 := hb 4; have b5 := hb 5; have b6 := hb 6; have b7 := hb 7
  norm_num
  refine ⟨by omega, by omega, by omega⟩


theorem tableScalar_range : ∀ j : Fin 2, ∀ idx : Fin 15,
    0 < tableScalar j.val (idx.val + 1) ∧ tableScalar j.val (idx.val + 1) < n := by decide

/-- every comb-table entry the loop can select is a valid affine point, the stated multiple of G -/
theorem comb_entry_ok (jj idx : Nat) (hj : jj < 2) (h0 : idx ≠ 0) (h15 : idx ≤ 15) :
    Valid (some ((tableEntry jj idx).1.v, (tableEntry jj idx).2.v)) ∧
    pt (some ((tableEntry jj idx).1.v, (tableEntry jj idx).2.v)) = tableScalar jj idx • pt G := by
  have hidx : idx = (⟨idx - 1, by omega⟩ : Fin 15).val + 1 := by simp only; omega
  have hjj : jj = (⟨jj, hj⟩ : Fin 2).val := rfl
  have hok := Props.C03.table_ok ⟨jj, hj⟩ ⟨idx - 1, by omega⟩
  have hr := tableScalar_range ⟨jj, hj⟩ ⟨idx - 1, by omega⟩
  rw [← hidx, ← hjj] at hok hr
  have hlt := Props.SM2Group.lt_of_lt_n hr.2
  have hv := smul_valid valid_G hlt
  have he := pt_smul valid_G hlt
  have hm : tableEntry jj idx = (⟨(Props.C03.tableEntry jj idx).1⟩, ⟨(Props.C03.tableEntry jj idx).2⟩) := rfl
  rw [hm, ← hok]
  cases hs : smul (tableScalar jj idx) G with
  | none => exact absurd hs (Props.SM2Group.smul_G_ne_none hr.1 hr.2)
  | some xy =>
    obtain ⟨x, y⟩ := xy
    rw [hs] at hv he
    exact ⟨hv, he⟩

/-- an affine point given by reduced model field elements, with Z = 1 -/
theorem affine_valid_fp {x2 y2 : Fp} (h : Valid (some (x2.v, y2.v))) :
    JValid ⟨x2, y2, one⟩ ∧ jpt ⟨x2, y2, one⟩ = pt (some (x2.v, y2.v)) := by
  have := affine_valid h one rfl
  rw [ofNat_of_lt h.1, ofNat_of_lt h.2.1] at this
  exact this

/-- invariant of the comb loop: the accumulator is valid and stands for V·G, the `isInf` flag is set
    exactly when V = 0, and V < n -/
def CInv (st : J × Bool) (V : Nat) : Prop :=
  JValid st.1 ∧ jpt st.1 = V • pt G ∧ (st.2 = true ↔ V = 0) ∧ V < n

theorem nsmul_G_inj {i j : Nat} (hi : i < n) (hj : j < n) (h : i • pt G = j • pt G) : i = j := by
  apply nsmul_injOn_Iio_addOrderOf (x := pt G) <;> simp only [Set.mem_Iio, Props.SM2Group.addOrderOf_G]
  · exact hi
  · exact hj
  · exact h

theorem cinv_double {st : J × Bool} {V : Nat} (h : CInv st V) (hV : 2 * V < n) :
    CInv (double fa st.1, st.2) (2 * V) := by
  obtain ⟨v, e, hf, _⟩ := h
  obtain ⟨v2, e2⟩ := double_correct_J v
  refine ⟨v2, ?_, ?_, hV⟩
  · rw [e2, e, ← two_nsmul, ← mul_nsmul, Nat.mul_comm]
  · show st.2 = true ↔ 2 * V = 0
    rw [hf]; omega

theorem cinv_add {st : J × Bool} {V : Nat} (h : CInv st V) (jj idx : Nat) (hj : jj < 2) (h15 : idx ≤ 15)
    (hlt : V + tableScalar jj idx < n) (hne : idx ≠ 0 → V ≠ 0 → V ≠ tableScalar jj idx) :
    CInv (combAddIdx st jj idx) (V + tableScalar jj idx) := by
  obtain ⟨v, e, hf, hVn⟩ := h
  unfold combAddIdx
  by_cases h0 : idx = 0
  · rw [if_pos h0, h0]
    have : tableScalar jj 0 = 0 := by rw [tableScalar_eq]; simp
    rw [this, Nat.add_zero]
    exact ⟨v, e, hf, hVn⟩
  · rw [if_neg h0]
    obtain ⟨hv, he⟩ := comb_entry_ok jj idx hj h0 h15
    have hr := tableScalar_range ⟨jj, hj⟩ ⟨idx - 1, by omega⟩
    have hidx : (⟨idx - 1, by omega⟩ : Fin 15).val + 1 = idx := by simp only; omega
    simp only [hidx] at hr
    by_cases hinf : st.2 = true
    · rw [if_pos hinf]
      have hV0 := hf.mp hinf
      obtain ⟨v', e'⟩ := affine_valid_fp hv
      refine ⟨v', ?_, ?_, hlt⟩
      · show jpt _ = _
        rw [e', he, hV0, Nat.zero_add]
      · show false = true ↔ _
        simp only [Bool.false_eq_true, false_iff]; omega
    · rw [if_neg hinf]
      have hV0 : V ≠ 0 := fun h => hinf (hf.mpr h)
      obtain ⟨v', e'⟩ := addMixed_correct_J v hv
        (by rw [e]; intro hz
            exact hV0 (nsmul_G_inj hVn Props.SM2Group.n_pos (by rw [hz, zero_nsmul])))
        (by rw [e, he]; intro hz
            exact hne h0 hV0 (nsmul_G_inj hVn hr.2 hz))
      refine ⟨v', ?_, ?_, hlt⟩
      · show jpt _ = _
        rw [e', e, he, add_nsmul]
      · show false = true ↔ _
        simp only [Bool.false_eq_true, false_iff]; omega

theorem cinv_step (k : Nat) (hk : k < n) {st : J × Bool} {i : Nat} (hi : i < 32)
    (h : CInv st (combV k i)) : CInv (combStep k st i) (combV k (i + 1)) := by
  have hk256 : k < 2 ^ 256 := Nat.lt_trans hk Props.SM2Group.n_lt256
  obtain ⟨e, c0, c1⟩ := row_arith k i hi
  have hle := combV_le k (i + 1) hk256
  -- the doubling (skipped for the first row, where the value is 0)
  have hd : CInv (if i ≠ 0 then double fa st.1 else st.1, st.2) (2 * combV k i) := by
    by_cases h0 : i = 0
    · subst h0
      rw [if_neg (by simp), combV_zero, Nat.mul_zero]
      rw [combV_zero] at h
      exact h
    · rw [if_pos h0]
      exact cinv_double h (by omega)
  have h1 := cinv_add hd 0 (combIdx k i 0) (by decide) (combIdx_le k i 0) (by omega) (fun h0 _ => c0 h0)
  have h2 := cinv_add h1 1 (combIdx k i 1) (by decide) (combIdx_le k i 1) (by omega) (fun h0 _ => c1 h0)
  rw [← e] at h2
  exact h2

theorem cinv_foldl (k : Nat) (hk : k < n) (i : Nat) (hi : i ≤ 32) :
    CInv ((List.range i).foldl (combStep k) (inf, true)) (combV k i) := by
  induction i with
  | zero =>
    rw [combV_zero]
    exact ⟨jvalid_inf, by rw [zero_nsmul]; exact jpt_inf, by simp, Props.SM2Group.n_pos⟩
  | succ i ih =>
    rw [List.range_succ, List.foldl_append]
    exact cinv_step k hk (by omega) (ih (by omega))

/-- `sm2P256ScalarBaseMult` on a scalar k < n: a valid point standing for k·G -/
theorem scalarBaseMult_correct_J (k : Nat) (hk : k < n) :
    JValid (scalarBaseMult k) ∧ jpt (scalarBaseMult k) = k • pt G := by
  have h := cinv_foldl k hk 32 (Nat.le_refl _)
  rw [combV_32 k (Nat.lt_trans hk Props.SM2Group.n_lt256)] at h
  rw [scalarBaseMult_eq]
  exact ⟨h.1, h.2.1⟩

/-- `Curve.ScalarBaseMult`: for EVERY scalar k the result is the encoding of [k mod n]G -/
theorem scalarBaseMult_correct (k : Nat) : apiScalarBaseMult k = enc (smul (k % n) G) := by
  have hk : k % n < n := Nat.mod_lt _ Props.SM2Group.n_pos
  have hk6 := Props.SM2Group.lt_of_lt_n hk
  obtain ⟨v, e⟩ := scalarBaseMult_correct_J (k % n) hk
  exact toAffine_eq_enc v (smul_valid valid_G hk6) (by rw [e, pt_smul valid_G hk6])

end Proofs.SM2Jacobian
