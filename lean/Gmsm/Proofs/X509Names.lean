/-
Framing lemmas for `Model.X509Names` (core Lean only): what `Spec.DER.tlv` / `encLen` write, the model of
`parseTagAndLength` reads back (every length below 2^31, the limit of encoding/asn1); the base-128 codec of OID
subidentifiers (`appendBase128Int` / `parseBase128Int`) for every value; OBJECT IDENTIFIER contents; SEQUENCE OF.
The theorems live in `Props.C09Names` (continued in `Gmsm/Props/C09Names.lean`).
-/
import Gmsm.Model.X509Names
import Gmsm.Proofs.BytesNat
namespace Props.C09Names
open Gmsm Model.X509Names

theorem byte_forall (P : BitVec 8 → Prop) (h : ∀ f : Fin 256, P (BitVec.ofFin f)) : ∀ b, P b := fun b => h b.toFin

theorem byte_mask_facts (b : Byte) :
    (b &&& 0x7f).toNat = b.toNat % 128 ∧ (b &&& 0x80 = 0 ↔ b.toNat < 128) ∧ (b >>> 6).toNat = b.toNat / 64 ∧
    (b &&& 0x20 = 0x20 ↔ b.toNat / 32 % 2 = 1) ∧ (b &&& 0x1f).toNat = b.toNat % 32 ∧ (b = 0x80 ↔ b.toNat = 128) := by
  revert b
  apply byte_forall
  decide +kernel

-- lengths
theorem readLenLoop_bytes (bs : Bytes) (acc : Nat) (rest : Bytes)
    (h0 : acc ≠ 0 ∨ ∃ b t, bs = b :: t ∧ b.toNat ≠ 0)
    (hv : acc * 256 ^ bs.length + os2ip bs < 2 ^ 31) :
    readLenLoop bs.length acc (bs ++ rest) = some (acc * 256 ^ bs.length + os2ip bs, rest) := by
  induction bs generalizing acc with
  | nil => simp [readLenLoop, os2ip_nil]
  | cons b t ih =>
    simp only [List.length_cons, List.cons_append, readLenLoop]
    rw [os2ip_cons, List.length_cons, Nat.pow_succ] at hv
    have hpos : 0 < 256 ^ t.length := Nat.pow_pos (by decide)
    have hacc : acc < 2 ^ 23 := by
      apply Nat.lt_of_not_le; intro hc
      have : 2 ^ 23 * (256 ^ t.length * 256) ≤ acc * (256 ^ t.length * 256) := Nat.mul_le_mul_right _ hc
      have h2 : 2 ^ 23 * 256 ≤ 2 ^ 23 * (256 ^ t.length * 256) := by
        apply Nat.mul_le_mul_left
        calc 256 = 1 * 256 := by omega
          _ ≤ 256 ^ t.length * 256 := Nat.mul_le_mul_right _ hpos
      omega
    rw [if_neg (by omega)]
    have hne : acc * 256 + b.toNat ≠ 0 := by
      rcases h0 with h | ⟨b', t', he, hb⟩
      · omega
      · cases he; omega
    simp only [hne, if_false]
    have key : (acc * 256 + b.toNat) * 256 ^ t.length = acc * (256 ^ t.length * 256) + b.toNat * 256 ^ t.length := by
      rw [Nat.add_mul, Nat.mul_assoc acc, Nat.mul_comm 256 (256 ^ t.length)]
    rw [ih (acc * 256 + b.toNat) (Or.inl hne) (by rw [key]; omega)]
    rw [os2ip_cons, Nat.pow_succ, key, Nat.add_assoc]

theorem der_len_roundtrip (n : Nat) (h : n < 2 ^ 31) (rest : Bytes) :
    readLength (Spec.DER.encLen n ++ rest) = some (n, rest) := by
  unfold Spec.DER.encLen
  by_cases h0 : n < 128
  · rw [if_pos h0]
    have hb : (BitVec.ofNat 8 n).toNat = n := by simp only [BitVec.toNat_ofNat]; omega
    simp only [List.cons_append, List.nil_append, readLength, hb, if_pos h0]
  · rw [if_neg h0]
    have hlen : (natBytes n).length ≤ 4 := natBytes_length_le n 4 (by
      have : (256 : Nat) ^ 4 = 2 ^ 32 := by decide
      omega)
    obtain ⟨b, t, hb, hb0⟩ := natBytes_head n (by omega)
    have hpos : 0 < (natBytes n).length := by rw [hb]; simp
    have ht : (BitVec.ofNat 8 (0x80 + (natBytes n).length)).toNat = 128 + (natBytes n).length := by
      simp only [BitVec.toNat_ofNat]; omega
    simp only [List.cons_append, readLength, ht]
    rw [if_neg (by omega), if_neg (by omega)]
    have e : 128 + (natBytes n).length - 128 = (natBytes n).length := by omega
    rw [e, readLenLoop_bytes (natBytes n) 0 rest (Or.inr ⟨b, t, hb, hb0⟩) (by rw [os2ip_natBytes]; omega)]
    simp only [Nat.zero_mul, Nat.zero_add, os2ip_natBytes]
    rw [if_neg h0]


/-- the header `parseTagAndLength` reports for identifier octet `t` (low tag number form) and length `n` -/
def hdrOf (t : Byte) (n : Nat) : Hdr := ⟨t.toNat / 64, decide (t.toNat / 32 % 2 = 1), t.toNat % 32, n⟩

@[simp] theorem hdrOf_len (t : Byte) (n : Nat) : (hdrOf t n).len = n := rfl
@[simp] theorem hdrOf_tag (t : Byte) (n : Nat) : (hdrOf t n).tag = t.toNat % 32 := rfl

theorem tlv_cons (t : Byte) (c rest : Bytes) : tlv t c ++ rest = t :: (Spec.DER.encLen c.length ++ (c ++ rest)) := by
  simp [tlv, Spec.DER.tlv]

theorem tlv_length (t : Byte) (c : Bytes) : c.length + 2 ≤ (tlv t c).length := by
  simp only [tlv, Spec.DER.tlv, Spec.DER.encLen, List.length_cons, List.length_append]
  split <;> simp <;> omega

theorem readHeader_tlv (t : Byte) (c rest : Bytes) (ht : t.toNat % 32 ≠ 31) (hc : c.length < 2 ^ 31) :
    readHeader (tlv t c ++ rest) = some (hdrOf t c.length, c ++ rest) := by
  rw [tlv_cons]
  simp only [readHeader, readTag, if_neg ht, der_len_roundtrip _ hc, hdrOf]

/-- `tlv_roundtrip`: what `appendTagAndLength` + content writes for a low tag number and a content shorter than
    2^31 bytes, `asn1.Unmarshal` into a RawValue reads back: same class / constructed bit / number, the content,
    and the bytes that follow are left over. -/
theorem tlv_roundtrip (t : Byte) (c rest : Bytes) (ht : t.toNat % 32 ≠ 31) (hc : c.length < 2 ^ 31) :
    readRaw (tlv t c ++ rest) = some (hdrOf t c.length, c, rest) := by
  simp only [readRaw, readHeader_tlv t c rest ht hc, hdrOf, List.length_append]
  rw [if_neg (by omega)]
  simp


-- base 128 ------------------------------------------------------------------------------------------------

theorem b128Aux_acc (f m : Nat) (acc : Bytes) : b128Aux f m acc = b128Aux f m [] ++ acc := by
  induction f generalizing m acc with
  | zero => simp [b128Aux]
  | succ f ih =>
    unfold b128Aux
    split
    · simp
    · rw [ih (m / 128) (_ :: acc), ih (m / 128) [_]]; simp

/-- number of base-128 digits of `m` (0 for 0), with the fuel of `b128Aux` -/
def nd : Nat → Nat → Nat
  | 0, _ => 0
  | f + 1, m => if m = 0 then 0 else 1 + nd f (m / 128)

theorem nd_eq_zero (f m : Nat) (h : m < 128 ^ f) (h0 : nd f m = 0) : m = 0 := by
  cases f with
  | zero => simpa using h
  | succ f => unfold nd at h0; split at h0 <;> omega

theorem nd_le (f m k : Nat) (h : m < 128 ^ k) : nd f m ≤ k := by
  induction f generalizing m k with
  | zero => simp [nd]
  | succ f ih =>
    unfold nd
    split
    · omega
    · cases k with
      | zero => simp at h; omega
      | succ k =>
        have := ih (m / 128) k (by rw [Nat.pow_succ] at h; omega)
        omega

theorem decSubids_cons (s r : Nat) (b : Byte) (bs : Bytes) :
    decSubids s r (b :: bs) =
      if s = 5 then none
      else if s = 0 ∧ b.toNat = 128 then none
      else if b.toNat < 128 then
        (if r * 128 + b.toNat % 128 > maxInt32 then none
         else match decSubids 0 0 bs with | none => none | some l => some ((r * 128 + b.toNat % 128) :: l))
      else decSubids (s + 1) (r * 128 + b.toNat % 128) bs := by
  cases s <;> (simp only [decSubids]; rfl)

theorem decSubids_five (r : Nat) (t : Bytes) : decSubids 5 r t = none := by
  cases t <;> simp [decSubids]

theorem cont_toNat (m : Nat) : (BitVec.ofNat 8 (128 + m % 128)).toNat = 128 + m % 128 := by
  simp only [BitVec.toNat_ofNat]; omega

/-- reading the continuation octets of `m` advances the state of `parseBase128Int` by its digits -/
theorem decSubids_hi (f m s r : Nat) (tail : Bytes) (hm : m < 128 ^ f) (hs : s + nd f m ≤ 5) :
    decSubids s r (b128Aux f m [] ++ tail) = decSubids (s + nd f m) (r * 128 ^ nd f m + m) tail := by
  induction f generalizing m tail with
  | zero =>
    have : m = 0 := by simpa using hm
    subst this; simp [b128Aux, nd]
  | succ f ih =>
    unfold b128Aux nd
    by_cases h0 : m = 0
    · subst h0; simp
    · simp only [h0, if_false]
      simp only [nd, h0, if_false] at hs
      have hq : m / 128 < 128 ^ f := by rw [Nat.pow_succ] at hm; omega
      rw [b128Aux_acc, List.append_assoc, ih (m / 128) _ hq (by omega)]
      simp only [List.cons_append, List.nil_append]
      rw [decSubids_cons]
      have hd := cont_toNat m
      rw [if_neg (by omega)]
      rw [if_neg (by
        intro hc
        have := nd_eq_zero f (m / 128) hq (by omega)
        rw [hd] at hc
        omega)]
      simp only [hd]
      rw [if_neg (by omega)]
      have e1 : s + nd f (m / 128) + 1 = s + (1 + nd f (m / 128)) := by omega
      have e2 : (r * 128 ^ nd f (m / 128) + m / 128) * 128 + (128 + m % 128) % 128 = r * 128 ^ (1 + nd f (m / 128)) + m := by
        rw [Nat.add_comm 1, Nat.pow_succ, Nat.add_mul, Nat.mul_assoc]
        omega
      rw [e1, e2]


theorem decSubids_hi_overflow (f m s r : Nat) (tail : Bytes) (hm : m < 128 ^ f) (hs5 : s ≤ 5) (hs : 5 ≤ s + nd f m) :
    decSubids s r (b128Aux f m [] ++ tail) = none := by
  induction f generalizing m tail with
  | zero =>
    have : s = 5 := by simp [nd] at hs; omega
    subst this; simp [b128Aux, decSubids_five]
  | succ f ih =>
    unfold b128Aux
    by_cases h0 : m = 0
    · subst h0
      have : s = 5 := by simp [nd] at hs; omega
      subst this; simp [decSubids_five]
    · simp only [h0, if_false]
      simp only [nd, h0, if_false] at hs
      have hq : m / 128 < 128 ^ f := by rw [Nat.pow_succ] at hm; omega
      rw [b128Aux_acc, List.append_assoc]
      by_cases h5 : 5 ≤ s + nd f (m / 128)
      · exact ih (m / 128) _ hq h5
      · rw [decSubids_hi f (m / 128) s r _ hq (by omega)]
        simp only [List.cons_append, List.nil_append]
        rw [decSubids_cons]
        have hd := cont_toNat m
        have e4 : s + nd f (m / 128) = 4 := by omega
        rw [e4, if_neg (by omega), if_neg (by omega), hd, if_neg (by omega)]
        exact decSubids_five _ _

theorem last_toNat (n : Nat) : (BitVec.ofNat 8 (n % 128)).toNat = n % 128 := by
  simp only [BitVec.toNat_ofNat]; omega

theorem encBase128_eq (n : Nat) : encBase128 n = b128Aux 9 (n / 128) [] ++ [BitVec.ofNat 8 (n % 128)] := by
  unfold encBase128; rw [b128Aux_acc]

/-- `oid_subid_roundtrip`: for EVERY subidentifier the parser can return (n ≤ MaxInt32), the octets
    `appendBase128Int` writes are read back by `parseBase128Int` as n, and the loop of `parseObjectIdentifier`
    continues with a fresh integer on what follows. -/
theorem oid_subid_roundtrip (n : Nat) (h : n ≤ maxInt32) (tail : Bytes) :
    decSubids 0 0 (encBase128 n ++ tail) =
      match decSubids 0 0 tail with | none => none | some l => some (n :: l) := by
  have hm : n / 128 < 128 ^ 9 := by unfold maxInt32 at h; omega
  have hnd : nd 9 (n / 128) ≤ 4 := nd_le 9 (n / 128) 4 (by unfold maxInt32 at h; omega)
  rw [encBase128_eq, List.append_assoc, decSubids_hi 9 (n / 128) 0 0 _ hm (by omega)]
  simp only [List.cons_append, List.nil_append, Nat.zero_add, Nat.zero_mul]
  rw [decSubids_cons, last_toNat]
  rw [if_neg (by omega), if_neg (by omega), if_pos (by omega)]
  have e : n / 128 * 128 + n % 128 % 128 = n := by omega
  rw [e, if_neg (by omega)]

/-- `oid_subid_too_large`: every larger subidentifier that `appendBase128Int` can be given (an int64; the model
    covers n < 2^70) is written — and then REFUSED by the parser ("base 128 integer too large"): the package
    cannot read back an OID with an arc above MaxInt32 that it wrote itself. -/
theorem oid_subid_too_large (n : Nat) (h : maxInt32 < n) (h2 : n < 2 ^ 70) (tail : Bytes) :
    decSubids 0 0 (encBase128 n ++ tail) = none := by
  have hm : n / 128 < 128 ^ 9 := by omega
  rw [encBase128_eq, List.append_assoc]
  by_cases h5 : 5 ≤ nd 9 (n / 128)
  · exact decSubids_hi_overflow 9 (n / 128) 0 0 _ hm (by omega) (by omega)
  · rw [decSubids_hi 9 (n / 128) 0 0 _ hm (by omega)]
    simp only [List.cons_append, List.nil_append, Nat.zero_add, Nat.zero_mul]
    rw [decSubids_cons, last_toNat]
    rw [if_neg (by omega), if_neg (by omega), if_pos (by omega)]
    have e : n / 128 * 128 + n % 128 % 128 = n := by omega
    rw [e, if_pos h]

theorem encBase128_ne_nil (n : Nat) : encBase128 n ≠ [] := by
  rw [encBase128_eq]; simp

theorem decSubids_list (l : List Nat) (h : ∀ n ∈ l, n ≤ maxInt32) :
    decSubids 0 0 (l.map encBase128).flatten = some l := by
  induction l with
  | nil => simp [decSubids]
  | cons n rest ih =>
    simp only [List.map_cons, List.flatten_cons]
    rw [oid_subid_roundtrip n (h n (by simp)), ih (fun x hx => h x (by simp [hx]))]

/-- the OIDs that survive a round trip: at least two arcs, first ≤ 2, second < 40 under 0 and 1
    (`makeObjectIdentifier`), and 40·first + second as well as every later arc at most MaxInt32 (the parser) -/
def wfOID : OID → Bool
  | a :: b :: rest => decide (a ≤ 2) && (decide (a = 2) || decide (b < 40)) && decide (40 * a + b ≤ maxInt32) &&
      rest.all (fun n => decide (n ≤ maxInt32))
  | _ => false

/-- `oid_roundtrip`: `parseObjectIdentifier` inverts `makeObjectIdentifier` + `oidEncoder` on these OIDs
    (incl. the first-octet corners 2.39 = 0x77, 2.40 = 0x78, 2.999 = 0x88 0x37). -/
theorem oid_roundtrip (oid : OID) (h : wfOID oid = true) : ∃ c, encOID oid = some c ∧ decOID c = some oid := by
  match oid, h with
  | a :: b :: rest, h =>
    simp only [wfOID, Bool.and_eq_true, Bool.or_eq_true, decide_eq_true_eq, List.all_eq_true] at h
    obtain ⟨⟨⟨ha, hb⟩, hv⟩, hr⟩ := h
    refine ⟨encBase128 (40 * a + b) ++ (rest.map encBase128).flatten, ?_, ?_⟩
    · simp only [encOID, encFirstSubid]
      rw [if_neg (by omega), if_pos (by unfold maxInt32 at hv; omega)]
    · have hne : encBase128 (40 * a + b) ++ (rest.map encBase128).flatten ≠ [] := by
        simp [encBase128_ne_nil]
      unfold decOID
      split
      · contradiction
      · rename_i x xs hx
        rw [oid_subid_roundtrip _ hv, decSubids_list rest hr]
        simp only
        by_cases h80 : 40 * a + b < 80
        · rw [if_pos h80]
          have h1 : (40 * a + b) / 40 = a := by omega
          have h2 : (40 * a + b) % 40 = b := by omega
          rw [h1, h2]; rfl
        · rw [if_neg h80]
          have h1 : a = 2 := by omega
          have h2 : 40 * a + b - 80 = b := by omega
          rw [h2, h1]; rfl


-- sequences of TLVs ---------------------------------------------------------------------------------------

/-- a list of (identifier octet, content) written one after the other -/
def encItems (items : List (Byte × Bytes)) : Bytes := (items.map (fun p => tlv p.1 p.2)).flatten

def lowShort (p : Byte × Bytes) : Prop := p.1.toNat % 32 ≠ 31 ∧ p.2.length < 2 ^ 31

theorem encItems_cons (p : Byte × Bytes) (rest : List (Byte × Bytes)) :
    encItems (p :: rest) = tlv p.1 p.2 ++ encItems rest := by simp [encItems]

theorem encItems_append (a b : List (Byte × Bytes)) : encItems (a ++ b) = encItems a ++ encItems b := by
  simp [encItems]

theorem encItems_length (items : List (Byte × Bytes)) : 2 * items.length ≤ (encItems items).length := by
  induction items with
  | nil => simp [encItems]
  | cons p rest ih =>
    rw [encItems_cons, List.length_append, List.length_cons]
    have := tlv_length p.1 p.2
    omega

theorem elems_items (items : List (Byte × Bytes)) (f : Nat) (hf : items.length ≤ f) (hw : ∀ p ∈ items, lowShort p) :
    elems f (encItems items) = some (items.map (fun p => (hdrOf p.1 p.2.length, p.2))) := by
  induction items generalizing f with
  | nil => cases f <;> simp [encItems, elems]
  | cons p rest ih =>
    cases f with
    | zero => simp at hf
    | succ f =>
      have hp := hw p (by simp)
      rw [encItems_cons, tlv_cons]
      simp only [elems]
      rw [← tlv_cons, tlv_roundtrip p.1 p.2 _ hp.1 hp.2]
      simp only
      rw [ih f (by simp at hf; omega) (fun q hq => hw q (by simp [hq]))]
      simp

theorem seqOf_items (expected : Hdr → Bool) (items : List (Byte × Bytes)) (hw : ∀ p ∈ items, lowShort p)
    (he : ∀ p ∈ items, expected (hdrOf p.1 p.2.length) = true) :
    seqOf expected (encItems items) = some (items.map (·.2)) := by
  unfold seqOf
  rw [elems_items items _ (by have := encItems_length items; omega) hw]
  simp only [List.all_map, List.map_map]
  rw [if_pos (by
    rw [List.all_eq_true]
    intro p hp
    exact he p hp)]
  rfl

theorem topLevel_tlv (expected : Hdr → Bool) (t : Byte) (c : Bytes) (ht : t.toNat % 32 ≠ 31) (hc : c.length < 2 ^ 31)
    (he : expected (hdrOf t c.length) = true) : topLevel expected (tlv t c) = some c := by
  have h := readHeader_tlv t c [] ht hc
  rw [List.append_nil, List.append_nil] at h
  simp [topLevel, h, he]

theorem topLevel_trailing (expected : Hdr → Bool) (t : Byte) (c rest : Bytes) (ht : t.toNat % 32 ≠ 31) (hc : c.length < 2 ^ 31)
    (hr : rest ≠ []) : topLevel expected (tlv t c ++ rest) = none := by
  simp only [topLevel, readHeader_tlv t c rest ht hc]
  split
  · rfl
  · simp [hr]

theorem optField_nil (expected : Hdr → Bool) : optField expected [] = some (none, []) := rfl

theorem optField_tlv (expected : Hdr → Bool) (t : Byte) (c rest : Bytes) (ht : t.toNat % 32 ≠ 31) (hc : c.length < 2 ^ 31)
    (he : expected (hdrOf t c.length) = true) : optField expected (tlv t c ++ rest) = some (some c, rest) := by
  have h := readHeader_tlv t c rest ht hc
  rw [tlv_cons] at h ⊢
  simp [optField, h, he]

theorem allSome_map_some {α β : Type} (f : α → Option β) (g : α → β) (l : List α) (h : ∀ a ∈ l, f a = some (g a)) :
    allSome (l.map f) = some (l.map g) := by
  induction l with
  | nil => rfl
  | cons a rest ih =>
    simp only [List.map_cons, allSome, h a (by simp)]
    rw [ih (fun x hx => h x (by simp [hx]))]

end Props.C09Names
