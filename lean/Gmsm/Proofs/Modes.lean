/-
Helper lemmas for C11: xor on byte strings, block splitting, inversion of the SP 800-38A chains
over any block function pair with `D (E x) = x` on 16-byte blocks, PKCS#7 pad/unpad.
-/
import Gmsm.Model.SM4Modes
namespace Proofs.Modes
open Gmsm Spec.Modes

theorem xorBytes_length (a b : Bytes) : (xorBytes a b).length = min a.length b.length := by
  induction a generalizing b with
  | nil => simp [xorBytes]
  | cons x xs ih =>
    cases b with
    | nil => simp [xorBytes]
    | cons y ys => simp [xorBytes, ih, Nat.succ_min_succ]

theorem xor_cancel_right (a b : Bytes) (h : a.length ≤ b.length) : xorBytes (xorBytes a b) b = a := by
  induction a generalizing b with
  | nil => simp [xorBytes]
  | cons x xs ih =>
    cases b with
    | nil => simp at h
    | cons y ys =>
      simp only [xorBytes, List.cons.injEq]
      constructor
      · rw [BitVec.xor_assoc, BitVec.xor_self, BitVec.xor_zero]
      · exact ih ys (by simpa using h)

theorem xor_cancel_left (k p : Bytes) (h : p.length ≤ k.length) : xorBytes k (xorBytes k p) = p := by
  induction p generalizing k with
  | nil => cases k <;> simp [xorBytes]
  | cons x xs ih =>
    cases k with
    | nil => simp at h
    | cons y ys =>
      simp only [xorBytes, List.cons.injEq]
      constructor
      · rw [← BitVec.xor_assoc, BitVec.xor_self, BitVec.zero_xor]
      · exact ih ys (by simpa using h)

/-- all blocks have 16 bytes -/
def AllBlk (bs : List Bytes) : Prop := ∀ b ∈ bs, b.length = 16

theorem blocks_flatten (bs : List Bytes) (h : AllBlk bs) (rest : Bytes) :
    blocks bs.length (bs.flatten ++ rest) = bs := by
  induction bs with
  | nil => rfl
  | cons b bs ih =>
    have hb : b.length = 16 := h b (by simp)
    have hbs : AllBlk bs := fun x hx => h x (by simp [hx])
    simp only [List.length_cons, blocks, List.flatten_cons, List.append_assoc]
    rw [List.take_append_of_le_length (by omega), List.take_of_length_le (by omega)]
    rw [List.drop_append_of_le_length (by omega), List.drop_of_length_le (by omega)]
    simp [ih hbs]

theorem blocks_all (n : Nat) (b : Bytes) (h : 16 * n ≤ b.length) : AllBlk (blocks n b) := by
  induction n generalizing b with
  | zero => intro x hx; simp [blocks] at hx
  | succ n ih =>
    intro x hx
    simp only [blocks, List.mem_cons] at hx
    rcases hx with rfl | hx
    · rw [List.length_take]; omega
    · exact ih (b.drop 16) (by rw [List.length_drop]; omega) x hx

theorem blocks_length (n : Nat) (b : Bytes) : (blocks n b).length = n := by
  induction n generalizing b with
  | zero => rfl
  | succ n ih => simp [blocks, ih]

theorem flatten_blocks (n : Nat) (b : Bytes) (h : b.length = 16 * n) : (blocks n b).flatten = b := by
  induction n generalizing b with
  | zero => simp [blocks]; exact List.eq_nil_of_length_eq_zero (by omega)
  | succ n ih =>
    simp only [blocks, List.flatten_cons]
    rw [ih (b.drop 16) (by rw [List.length_drop]; omega)]
    exact List.take_append_drop 16 b

theorem flatten_length (bs : List Bytes) (h : AllBlk bs) : bs.flatten.length = 16 * bs.length := by
  induction bs with
  | nil => rfl
  | cons b bs ih =>
    have hb : b.length = 16 := h b (by simp)
    have hbs : AllBlk bs := fun x hx => h x (by simp [hx])
    simp [ih hbs, hb]; omega

section chains
variable (E D : Bytes → Bytes)
variable (hE : ∀ x, (E x).length = 16) (hD : ∀ x, (D x).length = 16)
variable (hDE : ∀ x, x.length = 16 → D (E x) = x)

include hE in
theorem cbcEnc_all (iv : Bytes) (bs : List Bytes) : AllBlk (cbcEnc E iv bs) := by
  induction bs generalizing iv with
  | nil => intro x hx; simp [cbcEnc] at hx
  | cons p ps ih =>
    intro x hx
    simp only [cbcEnc, List.mem_cons] at hx
    rcases hx with rfl | hx
    · exact hE _
    · exact ih _ x hx

theorem cbcEnc_length (iv : Bytes) (bs : List Bytes) : (cbcEnc E iv bs).length = bs.length := by
  induction bs generalizing iv with
  | nil => rfl
  | cons p ps ih => simp [cbcEnc, ih]

include hDE in
theorem cbc_inv (iv : Bytes) (hiv : iv.length = 16) (bs : List Bytes) (h : AllBlk bs)
    (hE : ∀ x, (E x).length = 16) : cbcDec D iv (cbcEnc E iv bs) = bs := by
  induction bs generalizing iv with
  | nil => rfl
  | cons p ps ih =>
    have hp : p.length = 16 := h p (by simp)
    have hps : AllBlk ps := fun x hx => h x (by simp [hx])
    simp only [cbcEnc, cbcDec]
    rw [hDE _ (by rw [xorBytes_length]; omega), xor_cancel_right _ _ (by omega)]
    rw [ih _ (hE _) hps]

theorem ecb_inv (bs : List Bytes) (h : AllBlk bs) (hDE : ∀ x, x.length = 16 → D (E x) = x) :
    ecb D (ecb E bs) = bs := by
  induction bs with
  | nil => rfl
  | cons p ps ih =>
    have hp : p.length = 16 := h p (by simp)
    have hps : AllBlk ps := fun x hx => h x (by simp [hx])
    simp only [ecb, List.map_cons, List.map_map] at ih ⊢
    rw [hDE p hp]
    congr 1
    exact ih hps

theorem ecb_all (F : Bytes → Bytes) (hF : ∀ x, (F x).length = 16) (bs : List Bytes) : AllBlk (ecb F bs) := by
  intro x hx
  simp only [ecb, List.mem_map] at hx
  rcases hx with ⟨y, _, rfl⟩
  exact hF y

theorem cfbEnc_all (iv : Bytes) (bs : List Bytes) (h : AllBlk bs) (hE : ∀ x, (E x).length = 16) :
    AllBlk (cfbEnc E iv bs) := by
  induction bs generalizing iv with
  | nil => intro x hx; simp [cfbEnc] at hx
  | cons p ps ih =>
    have hp : p.length = 16 := h p (by simp)
    have hps : AllBlk ps := fun x hx => h x (by simp [hx])
    intro x hx
    simp only [cfbEnc, List.mem_cons] at hx
    rcases hx with rfl | hx
    · rw [xorBytes_length, hE, hp]; rfl
    · exact ih _ hps x hx

theorem cfbEnc_length (iv : Bytes) (bs : List Bytes) : (cfbEnc E iv bs).length = bs.length := by
  induction bs generalizing iv with
  | nil => rfl
  | cons p ps ih => simp [cfbEnc, ih]

theorem cfb_inv (iv : Bytes) (bs : List Bytes) (h : AllBlk bs) (hE : ∀ x, (E x).length = 16) :
    cfbDec E iv (cfbEnc E iv bs) = bs := by
  induction bs generalizing iv with
  | nil => rfl
  | cons p ps ih =>
    have hp : p.length = 16 := h p (by simp)
    have hps : AllBlk ps := fun x hx => h x (by simp [hx])
    simp only [cfbEnc, cfbDec]
    rw [xor_cancel_left _ _ (by rw [hE]; omega), ih _ hps]

theorem ofb_all (iv : Bytes) (bs : List Bytes) (h : AllBlk bs) (hE : ∀ x, (E x).length = 16) :
    AllBlk (ofb E iv bs) := by
  induction bs generalizing iv with
  | nil => intro x hx; simp [ofb] at hx
  | cons p ps ih =>
    have hp : p.length = 16 := h p (by simp)
    have hps : AllBlk ps := fun x hx => h x (by simp [hx])
    intro x hx
    simp only [ofb, List.mem_cons] at hx
    rcases hx with rfl | hx
    · rw [xorBytes_length, hE, hp]; rfl
    · exact ih _ hps x hx

theorem ofb_length (iv : Bytes) (bs : List Bytes) : (ofb E iv bs).length = bs.length := by
  induction bs generalizing iv with
  | nil => rfl
  | cons p ps ih => simp [ofb, ih]

theorem ofb_inv (iv : Bytes) (bs : List Bytes) (h : AllBlk bs) (hE : ∀ x, (E x).length = 16) :
    ofb E iv (ofb E iv bs) = bs := by
  induction bs generalizing iv with
  | nil => rfl
  | cons p ps ih =>
    have hp : p.length = 16 := h p (by simp)
    have hps : AllBlk ps := fun x hx => h x (by simp [hx])
    simp only [ofb]
    rw [xor_cancel_left _ _ (by rw [hE]; omega), ih _ hps]
end chains

-- padding ----------------------------------------------------------------------------------------------

theorem pad16_length (p : Bytes) : (pad16 p).length = 16 * (p.length / 16 + 1) := by
  simp [pad16]; omega

theorem pad_k_range (n : Nat) : 1 ≤ 16 - n % 16 ∧ 16 - n % 16 ≤ 16 := by omega

end Proofs.Modes
