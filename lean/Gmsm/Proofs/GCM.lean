/-
Helper lemmas for C12: GCTR is an involution, GF(2^128) multiplication is linear in its first
argument, inc32 only touches the low word.
-/
import Gmsm.Spec.GCM
import Gmsm.Proofs.Modes
namespace Proofs.GCM
open Gmsm Spec.GCM Proofs.Modes

-- GCTR -------------------------------------------------------------------------------------------

theorem gctr_nil (E : Bytes → Bytes) (n : Nat) (cb : B128) : gctr E n cb [] = [] := by
  cases n <;> simp [gctr]

theorem gctr_length (E : Bytes → Bytes) (hE : ∀ x, (E x).length = 16) (n : Nat) (cb : B128) (x : Bytes)
    (h : x.length < 16 * n + 1 ∨ x = []) : (gctr E n cb x).length = x.length := by
  induction n generalizing cb x with
  | zero =>
    have : x = [] := by
      rcases h with h | h
      · exact List.eq_nil_of_length_eq_zero (by omega)
      · exact h
    subst this; rfl
  | succ n ih =>
    unfold gctr
    by_cases he : x.isEmpty = true
    · have : x = [] := List.isEmpty_iff.mp he
      subst this; simp
    · simp only [he, Bool.false_eq_true, if_false, List.length_append, xorBytes_length, hE, List.length_take]
      rw [ih]
      · simp only [List.length_drop]; omega
      · left
        rcases h with h | h
        · simp only [List.length_drop]; omega
        · subst h; simp at he

theorem gctr_involution (E : Bytes → Bytes) (hE : ∀ x, (E x).length = 16) (n : Nat) (cb : B128) (x : Bytes) :
    gctr E n cb (gctr E n cb x) = x ∨ 16 * n < x.length := by
  induction n generalizing cb x with
  | zero =>
    cases x with
    | nil => left; rfl
    | cons a as => right; simp
  | succ n ih =>
    by_cases he : x.isEmpty = true
    · have : x = [] := List.isEmpty_iff.mp he
      subst this; left; simp [gctr]
    · by_cases hl : 16 ≤ x.length
      · -- a whole first block
        rcases ih (inc32 cb) (x.drop 16) with h1 | h1
        · left
          have hfirst : (xorBytes (x.take 16) (E (toBytes cb))).length = 16 := by
            rw [xorBytes_length, hE, List.length_take]; omega
          have hy : gctr E (n+1) cb x = xorBytes (x.take 16) (E (toBytes cb)) ++ gctr E n (inc32 cb) (x.drop 16) := by
            conv => lhs; unfold gctr
            simp [he]
          have hne : (gctr E (n+1) cb x).isEmpty = false := by
            rw [hy]
            cases hx : xorBytes (x.take 16) (E (toBytes cb)) with
            | nil => rw [hx] at hfirst; simp at hfirst
            | cons _ _ => simp
          conv => lhs; unfold gctr
          simp only [hne, Bool.false_eq_true, if_false]
          rw [hy, List.take_append_of_le_length (by omega), List.take_of_length_le (by omega),
            List.drop_append_of_le_length (by omega), List.drop_of_length_le (by omega), List.nil_append, h1,
            xor_cancel_right _ _ (by rw [hE, List.length_take]; omega), List.take_append_drop]
        · right; simp only [List.length_drop] at h1; omega
      · -- a single partial block
        left
        have hx16 : x.take 16 = x := List.take_of_length_le (by omega)
        have hd : x.drop 16 = [] := List.drop_of_length_le (by omega)
        have hy : gctr E (n+1) cb x = xorBytes x (E (toBytes cb)) := by
          conv => lhs; unfold gctr
          simp [he, hx16, hd, gctr_nil]
        have hyl : (xorBytes x (E (toBytes cb))).length = x.length := by
          rw [xorBytes_length, hE]; omega
        have hne : (xorBytes x (E (toBytes cb))).isEmpty = false := by
          cases hx : xorBytes x (E (toBytes cb)) with
          | nil => rw [hx] at hyl; cases x <;> simp_all
          | cons _ _ => simp
        rw [hy]
        conv => lhs; unfold gctr
        simp only [hne, Bool.false_eq_true, if_false]
        rw [List.take_of_length_le (by omega), List.drop_of_length_le (by omega), gctr_nil, List.append_nil,
          xor_cancel_right _ _ (by rw [hE]; omega)]

-- linearity of the multiplication in its first argument ---------------------------------------------

theorem shr_xor (a b : B128) (k : Nat) : (a ^^^ b) >>> k = (a >>> k) ^^^ (b >>> k) := by
  apply BitVec.eq_of_getLsbD_eq
  intro i _
  simp [BitVec.getLsbD_ushiftRight, BitVec.getLsbD_xor]

theorem mulStep_xor (y : B128) (z1 v1 z2 v2 : B128) (i : Nat) :
    mulStep y (z1 ^^^ z2, v1 ^^^ v2) i =
      ((mulStep y (z1, v1) i).1 ^^^ (mulStep y (z2, v2) i).1, (mulStep y (z1, v1) i).2 ^^^ (mulStep y (z2, v2) i).2) := by
  unfold mulStep
  simp only [BitVec.getLsbD_xor, shr_xor]
  have hRR : ∀ w : B128, R ^^^ (R ^^^ w) = w := by
    intro w; rw [← BitVec.xor_assoc, BitVec.xor_self, BitVec.zero_xor]
  have h4 : ∀ a b : B128, a ^^^ R ^^^ (b ^^^ R) = a ^^^ b := by
    intro a b
    rw [BitVec.xor_assoc, BitVec.xor_comm b R, hRR]
  cases y.getMsbD i <;> cases v1.getLsbD 0 <;> cases v2.getLsbD 0 <;> simp [hRR, h4] <;>
    first | ac_rfl | (constructor <;> ac_rfl)

theorem foldl_mulStep_xor (y : B128) (l : List Nat) (z1 v1 z2 v2 : B128) :
    l.foldl (mulStep y) (z1 ^^^ z2, v1 ^^^ v2) =
      ((l.foldl (mulStep y) (z1, v1)).1 ^^^ (l.foldl (mulStep y) (z2, v2)).1,
       (l.foldl (mulStep y) (z1, v1)).2 ^^^ (l.foldl (mulStep y) (z2, v2)).2) := by
  induction l generalizing z1 v1 z2 v2 with
  | nil => rfl
  | cons i l ih =>
    simp only [List.foldl_cons]
    rw [mulStep_xor, ih]

/-- (a ⊕ b)•y = a•y ⊕ b•y -/
theorem mulGF_xor_left (a b y : B128) : mulGF (a ^^^ b) y = mulGF a y ^^^ mulGF b y := by
  unfold mulGF
  have := foldl_mulStep_xor y (List.range 128) 0 a 0 b
  simp only [BitVec.xor_self] at this
  exact congrArg Prod.fst this

theorem mulGF_zero_left (y : B128) : mulGF 0 y = 0 := by
  have := mulGF_xor_left 0 0 y
  simp only [BitVec.xor_self] at this
  -- x = x ^^^ x  →  x = 0
  exact this

-- inc32 -------------------------------------------------------------------------------------------------

theorem inc32_low (x : B128) : (inc32 x).extractLsb' 0 32 = x.extractLsb' 0 32 + 1 := by
  unfold inc32
  show BitVec.extractLsb' 0 32 ((x.extractLsb' 32 96 ++ (x.extractLsb' 0 32 + 1) : BitVec (96+32))) = _
  apply BitVec.eq_of_getLsbD_eq
  intro i hi
  simp only [BitVec.getLsbD_extractLsb', BitVec.getLsbD_append]
  simp [hi]

theorem inc32_high (x : B128) : (inc32 x).extractLsb' 32 96 = x.extractLsb' 32 96 := by
  unfold inc32
  show BitVec.extractLsb' 32 96 ((x.extractLsb' 32 96 ++ (x.extractLsb' 0 32 + 1) : BitVec (96+32))) = _
  apply BitVec.eq_of_getLsbD_eq
  intro i hi
  simp only [BitVec.getLsbD_extractLsb', BitVec.getLsbD_append]
  simp [hi]

def iterInc : Nat → B128 → B128
  | 0, x => x
  | n+1, x => iterInc n (inc32 x)

theorem iterInc_low (n : Nat) (x : B128) :
    (iterInc n x).extractLsb' 0 32 = x.extractLsb' 0 32 + BitVec.ofNat 32 n := by
  induction n generalizing x with
  | zero => simp [iterInc]
  | succ n ih =>
    simp only [iterInc]
    rw [ih, inc32_low]
    rw [BitVec.add_assoc]
    congr 1
    apply BitVec.eq_of_toNat_eq
    simp [BitVec.toNat_add, BitVec.toNat_ofNat]
    omega

end Proofs.GCM
