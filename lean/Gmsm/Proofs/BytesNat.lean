/-
Byte strings ↔ natural numbers: OS2IP / minimal big-endian bytes / fixed-length encodings.
-/
import Gmsm.Util.Bytes
import Gmsm.Util.I2osp
namespace Gmsm

theorem os2ip_foldl (bs : Bytes) (acc : Nat) :
    bs.foldl (fun acc b => acc * 256 + b.toNat) acc = acc * 256 ^ bs.length + os2ip bs := by
  induction bs generalizing acc with
  | nil => simp [os2ip]
  | cons b bs ih =>
    simp only [List.foldl_cons, List.length_cons, os2ip]
    rw [ih, ih (0 * 256 + b.toNat)]
    rw [Nat.pow_succ]
    simp only [Nat.zero_mul, Nat.zero_add]
    rw [Nat.add_mul, Nat.mul_assoc, Nat.mul_comm 256 (256 ^ bs.length), Nat.add_assoc]

theorem os2ip_nil : os2ip [] = 0 := rfl

theorem os2ip_cons (b : Byte) (bs : Bytes) : os2ip (b :: bs) = b.toNat * 256 ^ bs.length + os2ip bs := by
  show List.foldl (fun acc b => acc * 256 + b.toNat) 0 (b :: bs) = _
  simp only [List.foldl_cons]
  rw [os2ip_foldl]
  simp

theorem os2ip_append (a b : Bytes) : os2ip (a ++ b) = os2ip a * 256 ^ b.length + os2ip b := by
  induction a with
  | nil => simp [os2ip_nil]
  | cons x xs ih =>
    rw [List.cons_append, os2ip_cons, os2ip_cons, ih, List.length_append, Nat.pow_add]
    rw [Nat.add_mul, Nat.mul_assoc, Nat.add_assoc]

theorem os2ip_lt (bs : Bytes) : os2ip bs < 256 ^ bs.length := by
  induction bs with
  | nil => simp [os2ip_nil]
  | cons b bs ih =>
    rw [os2ip_cons, List.length_cons, Nat.pow_succ]
    have hb : b.toNat < 256 := b.isLt
    have : b.toNat * 256 ^ bs.length + os2ip bs < (b.toNat + 1) * 256 ^ bs.length := by
      rw [Nat.add_mul, Nat.one_mul]; omega
    calc b.toNat * 256 ^ bs.length + os2ip bs < (b.toNat + 1) * 256 ^ bs.length := this
      _ ≤ 256 * 256 ^ bs.length := Nat.mul_le_mul_right _ (by omega)
      _ = 256 ^ bs.length * 256 := Nat.mul_comm _ _

theorem natBytesAux_spec (fuel n : Nat) (acc : Bytes) (h : n < 256 ^ fuel) :
    os2ip (natBytesAux fuel n acc) = n * 256 ^ acc.length + os2ip acc := by
  induction fuel generalizing n acc with
  | zero =>
    have : n = 0 := by simpa using h
    subst this; simp [natBytesAux]
  | succ fuel ih =>
    unfold natBytesAux
    by_cases h0 : n = 0
    · simp [h0]
    · simp only [h0, if_false]
      rw [ih (n / 256) _ (by rw [Nat.pow_succ] at h; omega)]
      rw [List.length_cons, os2ip_cons, Nat.pow_succ]
      have hb : (BitVec.ofNat 8 n).toNat = n % 256 := by simp [BitVec.toNat_ofNat]
      rw [hb]
      have hn : n = 256 * (n / 256) + n % 256 := (Nat.div_add_mod n 256).symm
      calc n / 256 * (256 ^ acc.length * 256) + (n % 256 * 256 ^ acc.length + os2ip acc)
          = (256 * (n / 256) + n % 256) * 256 ^ acc.length + os2ip acc := by
            rw [Nat.add_mul, Nat.mul_comm (256 ^ acc.length) 256, ← Nat.mul_assoc, Nat.mul_comm (n / 256) 256,
              Nat.add_assoc]
        _ = n * 256 ^ acc.length + os2ip acc := by rw [← hn]

theorem lt_pow_succ_self (n : Nat) : n < 256 ^ (n + 1) := by
  have h1 : n < 2 ^ n := Nat.lt_two_pow_self
  have h2 : 2 ^ n ≤ 256 ^ n := Nat.pow_le_pow_left (by decide) n
  have h3 : 256 ^ n ≤ 256 ^ (n + 1) := Nat.pow_le_pow_right (by decide) (by omega)
  omega

/-- OS2IP inverts the minimal big-endian encoding -/
theorem os2ip_natBytes (n : Nat) : os2ip (natBytes n) = n := by
  unfold natBytes
  rw [natBytesAux_spec _ _ _ (lt_pow_succ_self n)]
  simp [os2ip_nil]

/-- fixed-length encoding: value modulo 256^k -/
theorem os2ip_i2ospR (k n : Nat) : os2ip (i2ospR k n) = n % 256 ^ k := by
  induction k generalizing n with
  | zero => simp [i2ospR, os2ip_nil, Nat.mod_one]
  | succ k ih =>
    simp only [i2ospR]
    rw [os2ip_append, ih, os2ip_cons, os2ip_nil]
    have hb : (BitVec.ofNat 8 n).toNat = n % 256 := by simp [BitVec.toNat_ofNat]
    rw [hb]
    simp only [List.length_cons, List.length_nil, Nat.zero_add, Nat.pow_one, Nat.pow_zero, Nat.mul_one, Nat.add_zero]
    have h1 : n % (256 * 256 ^ k) = n % 256 + 256 * (n / 256 % 256 ^ k) := Nat.mod_mul
    rw [Nat.pow_succ, Nat.mul_comm (256 ^ k) 256, h1, Nat.mul_comm, Nat.add_comm]

theorem os2ip_i2ospR_of_lt (k n : Nat) (h : n < 256 ^ k) : os2ip (i2ospR k n) = n := by
  rw [os2ip_i2ospR, Nat.mod_eq_of_lt h]

end Gmsm

namespace Gmsm

theorem natBytesAux_zero (fuel : Nat) (acc : Bytes) : natBytesAux fuel 0 acc = acc := by
  cases fuel <;> simp [natBytesAux]

/-- the minimal encoding of a non-zero number starts with a non-zero byte -/
theorem natBytesAux_head (fuel n : Nat) (acc : Bytes) (hn : n ≠ 0) (h : n < 256 ^ fuel) :
    ∃ b rest, natBytesAux fuel n acc = b :: rest ∧ b.toNat ≠ 0 := by
  induction fuel generalizing n acc with
  | zero => simp at h; omega
  | succ fuel ih =>
    unfold natBytesAux
    simp only [hn, if_false]
    by_cases hq : n / 256 = 0
    · rw [hq, natBytesAux_zero]
      refine ⟨_, _, rfl, ?_⟩
      simp only [BitVec.toNat_ofNat]
      omega
    · exact ih (n / 256) _ hq (by rw [Nat.pow_succ] at h; omega)

theorem natBytes_zero : natBytes 0 = [] := by simp [natBytes, natBytesAux]

theorem natBytes_head (n : Nat) (hn : n ≠ 0) : ∃ b rest, natBytes n = b :: rest ∧ b.toNat ≠ 0 :=
  natBytesAux_head _ n [] hn (lt_pow_succ_self n)

/-- the minimal encoding has no more bytes than needed -/
theorem natBytes_length_le (n k : Nat) (h : n < 256 ^ k) : (natBytes n).length ≤ k := by
  by_cases hn : n = 0
  · subst hn; simp [natBytes_zero]
  · obtain ⟨b, rest, hb, hb0⟩ := natBytes_head n hn
    have hv := os2ip_natBytes n
    rw [hb, os2ip_cons] at hv
    rw [hb]
    apply Nat.le_of_not_lt
    intro hlen
    have hk : k ≤ rest.length := by simp at hlen; omega
    have : 256 ^ k ≤ b.toNat * 256 ^ rest.length := by
      calc 256 ^ k ≤ 256 ^ rest.length := Nat.pow_le_pow_right (by decide) hk
        _ ≤ b.toNat * 256 ^ rest.length := Nat.le_mul_of_pos_left _ (by omega)
    omega

end Gmsm
