/-
Correctness of the Jacobian-coordinate point formulas of `Gmsm.Model.SM2Jac` (the straight-line
programs of sm2/p256.go) against the affine chord-and-tangent formulas, over an arbitrary field,
and the connection of those affine formulas to Mathlib's group law on `WeierstrassCurve.Affine.Point`.
-/
import Gmsm.Model.SM2Jac
import Mathlib.Tactic.FieldSimp
import Mathlib.Tactic.Ring
import Mathlib.Tactic.LinearCombination
import Mathlib.AlgebraicGeometry.EllipticCurve.Affine.Point

namespace Proofs.ECFormulas

open Model.SM2Jac

variable {F : Type} [Field F]

/-! ## 1. Affine view of a Jacobian triple, curve membership, affine formulas -/

/-- affine point represented by a Jacobian triple: `(X / Z^2, Y / Z^3)` -/
def toAffine (P : Jac F) : F × F := (P.x / P.z ^ 2, P.y / P.z ^ 3)

/-- `y^2 = x^3 + a x + b` -/
def OnCurve (a b : F) (p : F × F) : Prop := p.2 ^ 2 = p.1 ^ 3 + a * p.1 + b

/-- affine tangent doubling: `λ = (3x² + a)/(2y)`, `x3 = λ² − 2x`, `y3 = λ(x − x3) − y` -/
def affDouble (a : F) (p : F × F) : F × F :=
  ((((3 * p.1 ^ 2 + a) / (2 * p.2)) ^ 2 - 2 * p.1),
   ((3 * p.1 ^ 2 + a) / (2 * p.2)) * (p.1 - (((3 * p.1 ^ 2 + a) / (2 * p.2)) ^ 2 - 2 * p.1)) - p.2)

/-- affine chord addition: `λ = (y2 − y1)/(x2 − x1)`, `x3 = λ² − x1 − x2`, `y3 = λ(x1 − x3) − y1` -/
def affAdd (p q : F × F) : F × F :=
  ((((q.2 - p.2) / (q.1 - p.1)) ^ 2 - p.1 - q.1),
   ((q.2 - p.2) / (q.1 - p.1)) * (p.1 - (((q.2 - p.2) / (q.1 - p.1)) ^ 2 - p.1 - q.1)) - p.2)

theorem affDouble_eq (a : F) (p : F × F) :
    affDouble a p =
      (let l := (3 * p.1 ^ 2 + a) / (2 * p.2)
       let x3 := l ^ 2 - 2 * p.1
       (x3, l * (p.1 - x3) - p.2)) := rfl

theorem affAdd_eq (p q : F × F) :
    affAdd p q =
      (let l := (q.2 - p.2) / (q.1 - p.1)
       let x3 := l ^ 2 - p.1 - q.1
       (x3, l * (p.1 - x3) - p.2)) := rfl

/-! ## 2. Doubling -/

theorem double_z (a : F) (P : Jac F) : (double a P).z = 2 * P.y * P.z := by
  simp only [double]; ring

theorem double_correct (a b : F) (P : Jac F) (h2 : (2 : F) ≠ 0) (hz : P.z ≠ 0) (hy : P.y ≠ 0)
    (_hc : OnCurve a b (toAffine P)) :
    (double a P).z ≠ 0 ∧ toAffine (double a P) = affDouble a (toAffine P) := by
  have hz3 : (double a P).z ≠ 0 := by
    rw [double_z]; exact mul_ne_zero (mul_ne_zero h2 hy) hz
  refine ⟨hz3, ?_⟩
  rw [double_z] at hz3
  obtain ⟨x, y, z⟩ := P
  simp only at hz hy hz3
  simp only [toAffine, affDouble, double, dbl, tpl, quad, oct]
  have e : (y + z) * (y + z) - z * z - y * y = 2 * y * z := by ring
  rw [e]
  refine Prod.ext ?_ ?_
  · simp only
    field_simp
    ring
  · simp only
    field_simp
    ring

/-! ## 3. Mixed addition (second point affine, z2 = 1) -/

theorem addMixed_z (P : Jac F) (x2 y2 : F) :
    (addMixed P x2 y2).z = 2 * P.z * (x2 * P.z ^ 2 - P.x) := by
  simp only [addMixed]; ring

theorem addMixed_correct (P : Jac F) (x2 y2 : F) (h2 : (2 : F) ≠ 0) (hz : P.z ≠ 0)
    (hx : x2 * P.z ^ 2 ≠ P.x) :
    (addMixed P x2 y2).z ≠ 0 ∧ toAffine (addMixed P x2 y2) = affAdd (toAffine P) (x2, y2) := by
  have hh : x2 * P.z ^ 2 - P.x ≠ 0 := sub_ne_zero.mpr hx
  have hz3 : (addMixed P x2 y2).z ≠ 0 := by
    rw [addMixed_z]; exact mul_ne_zero (mul_ne_zero h2 hz) hh
  refine ⟨hz3, ?_⟩
  obtain ⟨x, y, z⟩ := P
  simp only at hz hx
  -- name the affine coordinates of `P`
  obtain ⟨X1, rfl⟩ : ∃ X1, x = X1 * z ^ 2 := ⟨x / z ^ 2, by field_simp⟩
  obtain ⟨Y1, rfl⟩ : ∃ Y1, y = Y1 * z ^ 3 := ⟨y / z ^ 3, by field_simp⟩
  have hX : x2 - X1 ≠ 0 := by
    intro h; apply hx; rw [sub_eq_zero.mp h]
  simp only [toAffine, affAdd, addMixed]
  rw [mul_div_cancel_right₀ _ (pow_ne_zero 2 hz), mul_div_cancel_right₀ _ (pow_ne_zero 3 hz)]
  have e : (z + z) * (x2 * (z * z) - X1 * z ^ 2) = 2 * z ^ 3 * (x2 - X1) := by ring
  rw [e]
  refine Prod.ext ?_ ?_
  · simp only
    field_simp
    ring
  · simp only
    field_simp
    ring

/-! ## 4./5. Generic addition -/

theorem addGeneric_z (P Q : Jac F) :
    (addGeneric P Q).z = P.z * Q.z * (Q.x * P.z ^ 2 - P.x * Q.z ^ 2) := by
  simp only [addGeneric]; ring

theorem addGeneric_correct (P Q : Jac F) (hz1 : P.z ≠ 0) (hz2 : Q.z ≠ 0)
    (hx : Q.x * P.z ^ 2 ≠ P.x * Q.z ^ 2) :
    (addGeneric P Q).z ≠ 0 ∧ toAffine (addGeneric P Q) = affAdd (toAffine P) (toAffine Q) := by
  have hh : Q.x * P.z ^ 2 - P.x * Q.z ^ 2 ≠ 0 := sub_ne_zero.mpr hx
  have hz3 : (addGeneric P Q).z ≠ 0 := by
    rw [addGeneric_z]; exact mul_ne_zero (mul_ne_zero hz1 hz2) hh
  refine ⟨hz3, ?_⟩
  obtain ⟨x1, y1, z1⟩ := P
  obtain ⟨x2, y2, z2⟩ := Q
  simp only at hz1 hz2 hx
  -- name the affine coordinates of `P` and `Q`
  obtain ⟨X1, rfl⟩ : ∃ X1, x1 = X1 * z1 ^ 2 := ⟨x1 / z1 ^ 2, by field_simp⟩
  obtain ⟨Y1, rfl⟩ : ∃ Y1, y1 = Y1 * z1 ^ 3 := ⟨y1 / z1 ^ 3, by field_simp⟩
  obtain ⟨X2, rfl⟩ : ∃ X2, x2 = X2 * z2 ^ 2 := ⟨x2 / z2 ^ 2, by field_simp⟩
  obtain ⟨Y2, rfl⟩ : ∃ Y2, y2 = Y2 * z2 ^ 3 := ⟨y2 / z2 ^ 3, by field_simp⟩
  have hX : X2 - X1 ≠ 0 := by
    intro h; apply hx; rw [sub_eq_zero.mp h]; ring
  simp only [toAffine, affAdd, addGeneric, dbl]
  rw [mul_div_cancel_right₀ _ (pow_ne_zero 2 hz1), mul_div_cancel_right₀ _ (pow_ne_zero 3 hz1),
    mul_div_cancel_right₀ _ (pow_ne_zero 2 hz2), mul_div_cancel_right₀ _ (pow_ne_zero 3 hz2)]
  have e : z1 * z2 * (X2 * z2 ^ 2 * (z1 * z1) - X1 * z1 ^ 2 * (z2 * z2))
      = z1 ^ 3 * z2 ^ 3 * (X2 - X1) := by ring
  rw [e]
  refine Prod.ext ?_ ?_
  · simp only
    field_simp
    ring
  · simp only
    field_simp
    ring

/-- equal affine x (so `Q = ±P`): the generic formula yields `z = 0`, the implementation's encoding
of the point at infinity.  (Holds over any commutative ring; no non-vanishing hypotheses needed, they
are kept for symmetry with the statement of `addGeneric_correct`.) -/
theorem addGeneric_opposite (P Q : Jac F) (_hz1 : P.z ≠ 0) (_hz2 : Q.z ≠ 0)
    (hx : Q.x * P.z ^ 2 = P.x * Q.z ^ 2) : (addGeneric P Q).z = 0 := by
  rw [addGeneric_z, hx, sub_self, mul_zero]

/-- in terms of affine coordinates -/
theorem addGeneric_opposite' (P Q : Jac F) (hz1 : P.z ≠ 0) (hz2 : Q.z ≠ 0)
    (hx : (toAffine P).1 = (toAffine Q).1) : (addGeneric P Q).z = 0 := by
  apply addGeneric_opposite P Q hz1 hz2
  simp only [toAffine] at hx
  field_simp at hx
  linear_combination -hx

/-! ## 6. Connection to Mathlib's group law on `WeierstrassCurve.Affine.Point` -/

section Mathlib

open WeierstrassCurve WeierstrassCurve.Affine

/-- `W` is the short Weierstrass curve `y² = x³ + a x + b` -/
structure IsShort (W : WeierstrassCurve.Affine F) (a b : F) : Prop where
  a₁ : W.a₁ = 0
  a₂ : W.a₂ = 0
  a₃ : W.a₃ = 0
  a₄ : W.a₄ = a
  a₆ : W.a₆ = b

/-- the short Weierstrass curve with coefficients `a`, `b` -/
def shortCurve (a b : F) : WeierstrassCurve.Affine F := ⟨0, 0, 0, a, b⟩

theorem shortCurve_isShort (a b : F) : IsShort (shortCurve a b) a b := ⟨rfl, rfl, rfl, rfl, rfl⟩

variable {W : WeierstrassCurve.Affine F} {a b : F}

theorem equation_iff_onCurve (hW : IsShort W a b) (x y : F) :
    W.Equation x y ↔ OnCurve a b (x, y) := by
  rw [equation_iff, hW.a₁, hW.a₂, hW.a₃, hW.a₄, hW.a₆]
  simp [OnCurve]

theorem negY_eq (hW : IsShort W a b) (x y : F) : W.negY x y = -y := by
  simp [negY, hW.a₁, hW.a₃]

theorem ne_negY (hW : IsShort W a b) (h2 : (2 : F) ≠ 0) {x y : F} (hy : y ≠ 0) :
    y ≠ W.negY x y := by
  rw [negY_eq hW]
  intro h
  have : 2 * y = 0 := by linear_combination h
  exact (mul_ne_zero h2 hy) this

variable [DecidableEq F]

/-- Mathlib's tangent slope on a short curve is `(3x² + a)/(2y)` -/
theorem slope_self (hW : IsShort W a b) (h2 : (2 : F) ≠ 0) {x y : F} (hy : y ≠ 0) :
    W.slope x x y y = (3 * x ^ 2 + a) / (2 * y) := by
  rw [slope_of_Y_ne rfl (ne_negY hW h2 hy), negY_eq hW, hW.a₁, hW.a₂, hW.a₄]
  congr 1 <;> ring

/-- Mathlib's chord slope is `(y2 − y1)/(x2 − x1)` -/
theorem slope_chord {x1 x2 y1 y2 : F} (hx : x1 ≠ x2) :
    W.slope x1 x2 y1 y2 = (y2 - y1) / (x2 - x1) := by
  rw [slope_of_X_ne hx, ← neg_sub y2 y1, ← neg_sub x2 x1, neg_div_neg_eq]

omit [DecidableEq F] in
theorem addX_short (hW : IsShort W a b) (x1 x2 l : F) : W.addX x1 x2 l = l ^ 2 - x1 - x2 := by
  simp [addX, hW.a₁, hW.a₂]

omit [DecidableEq F] in
theorem addY_short (hW : IsShort W a b) (x1 x2 y1 l : F) :
    W.addY x1 x2 y1 l = l * (x1 - (l ^ 2 - x1 - x2)) - y1 := by
  rw [addY, negY_eq hW, negAddY, addX_short hW]
  ring

/-- the affine doubling formula is Mathlib's `addX/addY` with `slope` -/
theorem affDouble_eq_mathlib (hW : IsShort W a b) (h2 : (2 : F) ≠ 0) {x y : F} (hy : y ≠ 0) :
    affDouble a (x, y) = (W.addX x x (W.slope x x y y), W.addY x x y (W.slope x x y y)) := by
  rw [addX_short hW, addY_short hW, slope_self hW h2 hy]
  simp only [affDouble]
  refine Prod.ext ?_ ?_ <;> simp only <;> ring

/-- the affine chord formula is Mathlib's `addX/addY` with `slope` -/
theorem affAdd_eq_mathlib (hW : IsShort W a b) {x1 y1 x2 y2 : F} (hx : x1 ≠ x2) :
    affAdd (x1, y1) (x2, y2)
      = (W.addX x1 x2 (W.slope x1 x2 y1 y2), W.addY x1 x2 y1 (W.slope x1 x2 y1 y2)) := by
  rw [addX_short hW, addY_short hW, slope_chord hx]
  rfl

omit [DecidableEq F] in
private theorem some_congr {x y x' y' : F} (h : W.Nonsingular x y) (ex : x' = x) (ey : y' = y) :
    ∃ h' : W.Nonsingular x' y', Point.some x y h = Point.some x' y' h' := by
  subst ex; subst ey; exact ⟨h, rfl⟩

/-- `affDouble` computes `P + P` in `W.Point` -/
theorem affDouble_point (hW : IsShort W a b) (h2 : (2 : F) ≠ 0) {x y : F} (hy : y ≠ 0)
    (h : W.Nonsingular x y) :
    ∃ h' : W.Nonsingular (affDouble a (x, y)).1 (affDouble a (x, y)).2,
      Point.some x y h + Point.some x y h = Point.some _ _ h' := by
  rw [Point.add_self_of_Y_ne (ne_negY hW h2 hy)]
  have e := affDouble_eq_mathlib hW h2 (x := x) hy
  exact some_congr _ (congrArg Prod.fst e) (congrArg Prod.snd e)

/-- `affAdd` computes `P + Q` in `W.Point` when the x-coordinates differ -/
theorem affAdd_point (hW : IsShort W a b) {x1 y1 x2 y2 : F} (hx : x1 ≠ x2)
    (h₁ : W.Nonsingular x1 y1) (h₂ : W.Nonsingular x2 y2) :
    ∃ h' : W.Nonsingular (affAdd (x1, y1) (x2, y2)).1 (affAdd (x1, y1) (x2, y2)).2,
      Point.some x1 y1 h₁ + Point.some x2 y2 h₂ = Point.some _ _ h' := by
  rw [Point.add_of_X_ne hx]
  have e := affAdd_eq_mathlib hW (y1 := y1) (y2 := y2) hx
  exact some_congr _ (congrArg Prod.fst e) (congrArg Prod.snd e)

/-- equal x, opposite y: the sum is the point at infinity -/
theorem opposite_point (hW : IsShort W a b) {x y : F} (h₁ : W.Nonsingular x y)
    (h₂ : W.Nonsingular x (-y)) : Point.some x y h₁ + Point.some x (-y) h₂ = 0 :=
  Point.add_of_Y_eq rfl (by rw [negY_eq hW, neg_neg])

/-! ### The Jacobian formulas compute the Mathlib group law -/

/-- `double` computes `P + P` -/
theorem double_point (hW : IsShort W a b) (h2 : (2 : F) ≠ 0) (P : Jac F) (hz : P.z ≠ 0)
    (hy : P.y ≠ 0) (h : W.Nonsingular (toAffine P).1 (toAffine P).2) :
    (double a P).z ≠ 0 ∧
    ∃ h' : W.Nonsingular (toAffine (double a P)).1 (toAffine (double a P)).2,
      Point.some _ _ h + Point.some _ _ h = Point.some _ _ h' := by
  have hc : OnCurve a b (toAffine P) := (equation_iff_onCurve hW _ _).mp h.left
  obtain ⟨hz3, e⟩ := double_correct a b P h2 hz hy hc
  refine ⟨hz3, ?_⟩
  have hy' : (toAffine P).2 ≠ 0 := div_ne_zero hy (pow_ne_zero 3 hz)
  obtain ⟨h', e'⟩ := affDouble_point hW h2 hy' h
  rw [e']
  exact some_congr h' (congrArg Prod.fst e) (congrArg Prod.snd e)

/-- `addMixed` computes `P + (x2, y2)` when the x-coordinates differ -/
theorem addMixed_point (hW : IsShort W a b) (h2 : (2 : F) ≠ 0) (P : Jac F) (x2 y2 : F)
    (hz : P.z ≠ 0) (hx : x2 * P.z ^ 2 ≠ P.x)
    (h₁ : W.Nonsingular (toAffine P).1 (toAffine P).2) (h₂ : W.Nonsingular x2 y2) :
    (addMixed P x2 y2).z ≠ 0 ∧
    ∃ h' : W.Nonsingular (toAffine (addMixed P x2 y2)).1 (toAffine (addMixed P x2 y2)).2,
      Point.some _ _ h₁ + Point.some _ _ h₂ = Point.some _ _ h' := by
  obtain ⟨hz3, e⟩ := addMixed_correct P x2 y2 h2 hz hx
  refine ⟨hz3, ?_⟩
  have hx' : (toAffine P).1 ≠ x2 := by
    intro h; apply hx; rw [← h]; simp only [toAffine]; field_simp
  obtain ⟨h', e'⟩ := affAdd_point hW hx' h₁ h₂
  rw [e']
  exact some_congr h' (congrArg Prod.fst e) (congrArg Prod.snd e)

/-- `addGeneric` computes `P + Q` when the x-coordinates differ -/
theorem addGeneric_point (hW : IsShort W a b) (P Q : Jac F) (hz1 : P.z ≠ 0) (hz2 : Q.z ≠ 0)
    (hx : Q.x * P.z ^ 2 ≠ P.x * Q.z ^ 2)
    (h₁ : W.Nonsingular (toAffine P).1 (toAffine P).2)
    (h₂ : W.Nonsingular (toAffine Q).1 (toAffine Q).2) :
    (addGeneric P Q).z ≠ 0 ∧
    ∃ h' : W.Nonsingular (toAffine (addGeneric P Q)).1 (toAffine (addGeneric P Q)).2,
      Point.some _ _ h₁ + Point.some _ _ h₂ = Point.some _ _ h' := by
  obtain ⟨hz3, e⟩ := addGeneric_correct P Q hz1 hz2 hx
  refine ⟨hz3, ?_⟩
  have hx' : (toAffine P).1 ≠ (toAffine Q).1 := by
    intro h; apply hx; simp only [toAffine] at h; field_simp at h; linear_combination -h
  obtain ⟨h', e'⟩ := affAdd_point hW hx' h₁ h₂
  rw [e']
  exact some_congr h' (congrArg Prod.fst e) (congrArg Prod.snd e)

/-- `addGeneric` returns `z = 0` exactly in the cases where either the sum is the point at infinity
(`Q = -P`) or the inputs are equal (`Q = P`, handled by `double` in the implementation): for points
on the curve with equal x the affine y-coordinates are equal or opposite.  (Any Weierstrass curve.) -/
theorem addGeneric_opposite_point (P Q : Jac F) (hz1 : P.z ≠ 0)
    (hz2 : Q.z ≠ 0) (hx : Q.x * P.z ^ 2 = P.x * Q.z ^ 2)
    (h₁ : W.Nonsingular (toAffine P).1 (toAffine P).2)
    (h₂ : W.Nonsingular (toAffine Q).1 (toAffine Q).2) :
    (addGeneric P Q).z = 0 ∧
    (toAffine P = toAffine Q ∨ Point.some _ _ h₁ + Point.some _ _ h₂ = 0) := by
  refine ⟨addGeneric_opposite P Q hz1 hz2 hx, ?_⟩
  have hx' : (toAffine P).1 = (toAffine Q).1 := by
    simp only [toAffine]; field_simp; linear_combination -hx
  rcases Y_eq_of_X_eq h₁.left h₂.left hx' with hy | hy
  · exact Or.inl (Prod.ext hx' hy)
  · exact Or.inr (Point.add_of_Y_eq hx' hy)

end Mathlib

/-! ## Axiom audit -/



















end Proofs.ECFormulas
