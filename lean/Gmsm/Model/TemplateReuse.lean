/-
What `x509.CreateCertificate` and `x509.CreateCertificateRequest` do to the TEMPLATE they are given, and hence
what a second, third, ... call with the same template object produces (x509/utils.go, x509/x509.go as repaired).

§1 authority key id.  `CreateCertificate(template, parent, ...)`:

      if !bytes.Equal(asn1Issuer, asn1Subject) && len(parent.SubjectKeyId) > 0 {
          tmpl := *template; tmpl.AuthorityKeyId = parent.SubjectKeyId; template = &tmpl   -- a shallow COPY
      }
      extensions, err := buildExtensions(template)

   The id written is `Model.X509Names.effectiveAKI`; the caller's template keeps its AuthorityKeyId.  The code as
   found stored the parent's id IN the caller's template (`issueStepOld`): the next certificate made from that
   template by a parent without SubjectKeyId carried the previous parent's id, and two issuers using one template
   at the same time raced on the field.

§2 extensionRequest attribute of a certificate request.  `CreateCertificateRequest(rand, template, priv)`:

      attributes = append(nil, template.Attributes...)                  -- copies the outer slice only
      if len(extensions) > 0 {
          specifiedExtensions = ids in the extensionRequest attributes of template.Attributes
          atvs = the extensions (subjectAltName from the name fields, ExtraExtensions) not specified there
          for i, atvSet := range attributes {                          -- first extensionRequest with a value
              if !atvSet.Type.Equal(oidExtensionRequest) || len(atvSet.Value) == 0 { continue }
              value := copy of atvSet.Value; value[0] = copy of atvSet.Value[0] ++ atvs
              attributes[i].Value = value; appended = true; break
          }
          if !appended { attributes = append(attributes, {oidExtensionRequest, [[atvs]]}) }
      }

   The code as found did `atvSet.Value[0] = append(atvSet.Value[0], atvs...)`: `Value` is shared with the
   template, so the template's attribute grew (`csrStepOld`); on the next call the grown attribute "specifies"
   the extensions of the previous call, which take priority over the template's current name fields.

Core Lean only; executable.
-/
import Gmsm.Model.X509Names
namespace Model.TemplateReuse
open Gmsm Model.X509Names

/-! ## §1 CreateCertificate: the authority key id over a sequence of calls with one template -/

/-- one call: the parent has the template's subject name (`sameName`), the parent's SubjectKeyId -/
abbrev Issue := Bool × Bytes

/-- (the id in the certificate's authorityKeyIdentifier, `template.AuthorityKeyId` after the call) -/
def issueStep (tmplAKI : Bytes) (p : Issue) : Bytes × Bytes :=
  (effectiveAKI p.1 p.2 tmplAKI, tmplAKI)

/-- the code as found: `template.AuthorityKeyId = parent.SubjectKeyId` on the caller's object -/
def issueStepOld (tmplAKI : Bytes) (p : Issue) : Bytes × Bytes :=
  (effectiveAKI p.1 p.2 tmplAKI, effectiveAKI p.1 p.2 tmplAKI)

/-- calls in a row on ONE template object: the ids of the certificates, the template's field at the end -/
def seqWith {σ α β : Type} (step : σ → α → β × σ) : σ → List α → List β × σ
  | t, [] => ([], t)
  | t, p :: ps =>
    let r := step t p
    let rest := seqWith step r.2 ps
    (r.1 :: rest.1, rest.2)

def issueSeq (tmplAKI : Bytes) (ps : List Issue) : List Bytes × Bytes := seqWith issueStep tmplAKI ps
def issueSeqOld (tmplAKI : Bytes) (ps : List Issue) : List Bytes × Bytes := seqWith issueStepOld tmplAKI ps

/-! ## §2 CreateCertificateRequest: the attributes over a sequence of calls with one template -/

/-- an AttributeTypeAndValue of an extensionRequest: the extension id (last arc) and a label for its value -/
structure Atv where
  typ : Nat
  val : String
deriving DecidableEq, Repr

/-- a `pkix.AttributeTypeAndValueSET`: is its type extensionRequest (1.2.840.113549.1.9.14); `Value` -/
structure Attr where
  extReq : Bool
  value : List (List Atv)
deriving DecidableEq, Repr

/-- `specifiedExtensions`: ids found in the extensionRequest attributes of the template -/
def specified (attrs : List Attr) : List Nat :=
  attrs.flatMap (fun a => if a.extReq then a.value.flatten.map (·.typ) else [])

/-- `atvs`: the extensions the template's fields give rise to, minus the specified ones -/
def unspecified (attrs : List Attr) (exts : List Atv) : List Atv :=
  exts.filter (fun e => !(specified attrs).contains e.typ)

/-- the loop: append to `Value[0]` of the first extensionRequest attribute that has a value -/
def appendFirst (atvs : List Atv) : List Attr → Option (List Attr)
  | [] => none
  | a :: rest =>
    match a.extReq, a.value with
    | true, v0 :: vs => some ({ a with value := (v0 ++ atvs) :: vs } :: rest)
    | _, _ => (appendFirst atvs rest).map (a :: ·)

/-- the attributes of the request made from a template with attributes `attrs` whose fields yield `exts` -/
def merge (attrs : List Attr) (exts : List Atv) : List Attr :=
  if exts.isEmpty then attrs
  else
    match appendFirst (unspecified attrs exts) attrs with
    | some r => r
    | none => attrs ++ [{ extReq := true, value := [unspecified attrs exts] }]

/-- (attributes of the request, `template.Attributes` after the call) -/
def csrStep (attrs : List Attr) (exts : List Atv) : List Attr × List Attr := (merge attrs exts, attrs)

/-- the code as found: the append went through the shared `Value` slice into the template -/
def csrStepOld (attrs : List Attr) (exts : List Atv) : List Attr × List Attr :=
  (merge attrs exts,
   if exts.isEmpty then attrs
   else match appendFirst (unspecified attrs exts) attrs with
        | some r => r
        | none => attrs)

def csrSeq (attrs : List Attr) (steps : List (List Atv)) : List (List Attr) × List Attr := seqWith csrStep attrs steps
def csrSeqOld (attrs : List Attr) (steps : List (List Atv)) : List (List Attr) × List Attr := seqWith csrStepOld attrs steps

end Model.TemplateReuse
