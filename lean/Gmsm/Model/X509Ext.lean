/-
X.509 extension encoders / decoders that x509/x509.go implements by hand around encoding/asn1
(core Lean only, executable):

* KeyUsage (2.5.29.15): `buildExtensions` reverses the bits of the two low bytes of `template.KeyUsage`
  (`reverseBitsInAByte`), keeps one or two bytes, computes the ASN.1 bit length (`asn1BitLength`) and hands
  `asn1.BitString{Bytes, BitLength}` to `asn1.Marshal`; `parseCertificate` unmarshals the BIT STRING and
  reads nine bits with `asn1.BitString.At`.
* BasicConstraints (2.5.29.19): the template triple (IsCA, MaxPathLen, MaxPathLenZero) is mapped to the
  wire struct `basicConstraints{IsCA bool "optional"; MaxPathLen int "optional,default:-1"}` and back.
* The DER layer under both (BIT STRING with its unused-bits octet; SEQUENCE of an optional BOOLEAN and an
  optional INTEGER) as encoding/asn1 writes and reads it for these two types, short-form lengths only
  (both values are at most 15 bytes long).
-/
import Gmsm.Util.Bytes
namespace Model.X509Ext
open Gmsm

-- (a) KeyUsage ---------------------------------------------------------------------------------------------

/-- `reverseBitsInAByte`, shift for shift and mask for mask (Go: `>>`, `<<`, `&` bind tighter than `|`;
    `byte` shifts drop the bits that leave the byte, like `BitVec 8`):
    `b1 := in>>4 | in<<4; b2 := b1>>2&0x33 | b1<<2&0xcc; b3 := b2>>1&0x55 | b2<<1&0xaa` -/
def reverseBits (b : BitVec 8) : BitVec 8 :=
  let b1 := b >>> 4 ||| b <<< 4
  let b2 := (b1 >>> 2 &&& 0x33) ||| (b1 <<< 2 &&& 0xcc)
  let b3 := (b2 >>> 1 &&& 0x55) ||| (b2 <<< 1 &&& 0xaa)
  b3

/-- inner loop of `asn1BitLength` on one byte: `for bit := 0; bit < 8; bit++ { if (b>>bit)&1 == 1 { return
    bitLen }; bitLen-- }`.  `k` = iterations left (bit = 8 - k); result `some d` = "returned after `d`
    decrements", `none` = "fell through after 8 decrements". -/
def scanByte (b : BitVec 8) : Nat → Option Nat
  | 0 => none
  | k + 1 => if (b >>> (7 - k)) &&& 1 = 1 then some (7 - k) else scanByte b k

/-- outer loop of `asn1BitLength`, over the bytes from the last one backwards (`rev` = reversed slice) -/
def asn1BitLengthRev : List Byte → Nat → Nat
  | [], _ => 0
  | b :: rest, bitLen =>
    match scanByte b 8 with
    | some d => bitLen - d
    | none => asn1BitLengthRev rest (bitLen - 8)

/-- `asn1BitLength(bitString)`: `bitLen := len*8`, then the two loops -/
def asn1BitLength (bs : Bytes) : Nat := asn1BitLengthRev bs.reverse (bs.length * 8)

/-- the KeyUsage branch of `buildExtensions`: `a[0] = rev(byte(ku)); a[1] = rev(byte(ku >> 8)); l := 1;
    if a[1] != 0 { l = 2 }; BitString{a[:l], asn1BitLength(a[:l])}` — (Bytes, BitLength) -/
def encodeKeyUsage (ku : Nat) : Bytes × Nat :=
  let a0 := reverseBits (BitVec.ofNat 8 ku)
  let a1 := reverseBits (BitVec.ofNat 8 (ku >>> 8))
  let bitString := if a1 ≠ 0 then [a0, a1] else [a0]
  (bitString, asn1BitLength bitString)

/-- `asn1.BitString.At(i)`: 0 when `i >= BitLength`, else `int(Bytes[i/8] >> (7 - i%8)) & 1` -/
def bitAt (bs : Bytes) (bitLen : Nat) (i : Nat) : Nat :=
  if i ≥ bitLen then 0 else ((bs.getD (i / 8) 0 >>> (7 - i % 8)) &&& 1).toNat

/-- the KeyUsage case of `parseCertificate`: `for i := 0; i < 9; i++ { if usageBits.At(i) != 0 { usage |=
    1 << i } }` -/
def decodeKeyUsage (s : Bytes × Nat) : Nat :=
  (List.range 9).foldl (fun usage i => if bitAt s.1 s.2 i ≠ 0 then usage ||| (1 <<< i) else usage) 0

-- (c) DER BIT STRING -----------------------------------------------------------------------------------------

/-- `asn1.Marshal(asn1.BitString{Bytes, BitLength})`: tag 03, length `len+1` (short form: `len ≤ 126`),
    the unused-bits octet `byte((8 - BitLength%8) % 8)` (bitStringEncoder), the bytes as they are -/
def marshalBitString (s : Bytes × Nat) : Bytes :=
  0x03 :: BitVec.ofNat 8 (s.1.length + 1) :: BitVec.ofNat 8 ((8 - s.2 % 8) % 8) :: s.1

/-- `asn1.Unmarshal(value, &bitString)` followed by x509's `len(rest) != 0` check, for short-form lengths
    (`none` also stands for "long form: outside this model"): tag 03, primitive; `parseBitString`: not empty,
    padding ≤ 7, no padding on an empty string, the padding bits of the last byte are zero;
    `BitLength = (len-1)*8 - padding`. -/
def unmarshalBitString (v : Bytes) : Option (Bytes × Nat) :=
  match v with
  | tag :: len :: body =>
    if tag ≠ 0x03 ∨ len.toNat ≥ 0x80 ∨ body.length ≠ len.toNat then none else
    match body with
    | [] => none
    | pad :: bytes =>
      let p := pad.toNat
      if p > 7 ∨ (bytes.isEmpty ∧ p > 0) then none
      else if bytes.getLastD 0 &&& (BitVec.ofNat 8 ((1 <<< p) - 1)) ≠ 0 then none
      else some (bytes, bytes.length * 8 - p)
  | _ => none

/-- the value of extension 2.5.29.15 that `buildExtensions` produces; `none`: no extension (`KeyUsage == 0`) -/
def keyUsageExt (ku : Nat) : Option Bytes :=
  if ku = 0 then none else some (marshalBitString (encodeKeyUsage ku))

/-- `Certificate.KeyUsage` after `parseCertificate` given the extension value (absent: the zero value);
    `none` = parse error -/
def parseKeyUsageExt : Option Bytes → Option Nat
  | none => some 0
  | some v => (unmarshalBitString v).map decodeKeyUsage

-- (b) BasicConstraints ---------------------------------------------------------------------------------------

/-- the three template fields `buildExtensions` reads (with `BasicConstraintsValid = true`) -/
structure BCTemplate where
  isCA : Bool
  maxPathLen : Int
  maxPathLenZero : Bool
deriving DecidableEq, Repr

/-- the Go struct `basicConstraints{IsCA bool "optional"; MaxPathLen int "optional,default:-1"}` -/
structure BCWire where
  isCA : Bool
  maxPathLen : Int
deriving DecidableEq, Repr

/-- the four certificate fields `parseCertificate` sets from the extension -/
structure BCParsed where
  valid : Bool
  isCA : Bool
  maxPathLen : Int
  maxPathLenZero : Bool
deriving DecidableEq, Repr

/-- `maxPathLen := template.MaxPathLen; if maxPathLen == 0 && !template.MaxPathLenZero { maxPathLen = -1 }` -/
def effectivePathLen (t : BCTemplate) : Int :=
  if t.maxPathLen = 0 ∧ ¬ t.maxPathLenZero then -1 else t.maxPathLen

/-- `basicConstraints{template.IsCA, maxPathLen}` -/
def encodeBC (t : BCTemplate) : BCWire := ⟨t.isCA, effectivePathLen t⟩

/-- `out.BasicConstraintsValid = true; out.IsCA = constraints.IsCA; out.MaxPathLen = constraints.MaxPathLen;
    out.MaxPathLenZero = out.MaxPathLen == 0` -/
def decodeBC (w : BCWire) : BCParsed := ⟨true, w.isCA, w.maxPathLen, w.maxPathLen == 0⟩

/-- a certificate without the extension: the zero values -/
def noBC : BCParsed := ⟨false, false, 0, false⟩

-- DER of the wire struct -------------------------------------------------------------------------------------

/-- `int64Encoder`: `int64Length` (one more byte while the value is above 127 or below -128, `i >>= 8`,
    arithmetic shift = floor division) and the bytes `byte(i >> 8(n-1-j))`, most significant first.
    `fuel` bounds the number of extra bytes (7 for an int64). -/
def encodeIntAux : Nat → Int → Bytes
  | 0, i => [BitVec.ofInt 8 i]
  | f + 1, i => if i > 127 ∨ i < -128 then encodeIntAux f (i / 256) ++ [BitVec.ofInt 8 i] else [BitVec.ofInt 8 i]

def encodeInt (i : Int) : Bytes := encodeIntAux 7 i

/-- two's-complement value of big-endian bytes: what `parseInt64` computes (`ret <<= 8; ret |= b` over the
    bytes, then the shift pair `ret <<= 64-8n; ret >>= 64-8n` extends the sign of the first byte) -/
def signedValue : Bytes → Int
  | [] => 0
  | b :: rest => rest.foldl (fun acc x => acc * 256 + (x.toNat : Int)) b.toInt

/-- `parseInt64` (the field is a Go `int`, 8 bytes): `checkInteger` (not empty; no redundant leading 00 / ff),
    at most 8 bytes -/
def parseInt64 (bs : Bytes) : Option Int :=
  match bs with
  | [] => none
  | [_] => some (signedValue bs)
  | b0 :: b1 :: _ =>
    if (b0 = 0 ∧ b1 &&& 0x80 = 0) ∨ (b0 = 0xff ∧ b1 &&& 0x80 = 0x80) then none
    else if bs.length > 8 then none
    else some (signedValue bs)

/-- a TLV with a short-form length -/
def tlv (tag : Byte) (content : Bytes) : Bytes := tag :: BitVec.ofNat 8 content.length :: content

/-- `asn1.Marshal(basicConstraints{isCA, maxPathLen})`: an `optional` field equal to its default (no default
    given: the zero value `false`; `default:-1`: -1) is omitted; BOOLEAN true is `01 01 ff` -/
def marshalBC (w : BCWire) : Bytes :=
  tlv 0x30 ((if w.isCA then tlv 0x01 [0xff] else []) ++ (if w.maxPathLen = -1 then [] else tlv 0x02 (encodeInt w.maxPathLen)))

/-- one TLV with a low tag number and a short-form length from the front of `b`: (tag, content, rest) -/
def readTLV (b : Bytes) : Option (Byte × Bytes × Bytes) :=
  match b with
  | tag :: len :: rest =>
    if tag &&& 0x1f = 0x1f ∨ len.toNat ≥ 0x80 ∨ rest.length < len.toNat then none
    else some (tag, rest.take len.toNat, rest.drop len.toNat)
  | _ => none

/-- `parseField` for `IsCA bool "optional"` inside the SEQUENCE: out of data or another tag: the field keeps
    its zero value and nothing is consumed; tag BOOLEAN: one content byte, 00 or ff (`parseBool`) -/
def parseOptBool (b : Bytes) : Option (Bool × Bytes) :=
  match b with
  | [] => some (false, [])
  | _ =>
    match readTLV b with
    | none => none
    | some (tag, content, rest) =>
      if tag = 0x01 then
        (match content with
         | [x] => if x = 0 then some (false, rest) else if x = 0xff then some (true, rest) else none
         | _ => none)
      else some (false, b)

/-- `parseField` for `MaxPathLen int "optional,default:-1"`: out of data or another tag: -1 -/
def parseOptInt (b : Bytes) : Option Int :=
  match b with
  | [] => some (-1)
  | _ =>
    match readTLV b with
    | none => none
    | some (tag, content, _) => if tag = 0x02 then parseInt64 content else some (-1)

/-- `asn1.Unmarshal(value, &constraints)` and x509's trailing-data check: a SEQUENCE holding the two
    optional fields in order; further elements inside the SEQUENCE are ignored (encoding/asn1 allows them) -/
def unmarshalBC (v : Bytes) : Option BCWire :=
  match readTLV v with
  | some (tag, content, rest) =>
    if tag ≠ 0x30 ∨ rest ≠ [] then none else
    match parseOptBool content with
    | none => none
    | some (isCA, rest1) =>
      match parseOptInt rest1 with
      | none => none
      | some n => some ⟨isCA, n⟩
  | none => none

/-- value of extension 2.5.29.19 written for a template with `BasicConstraintsValid` -/
def basicConstraintsExt (t : BCTemplate) : Bytes := marshalBC (encodeBC t)

/-- the certificate fields after parsing that value (`none` = parse error) -/
def parseBasicConstraintsExt (v : Bytes) : Option BCParsed := (unmarshalBC v).map decodeBC

end Model.X509Ext
