/-
Go slices over backing arrays, as far as `x509/pkcs7.go: pad` needs them.

The functional model `Model.BER.pad` says which BYTES `pad` returns.  It cannot say WHERE they are
written: the Go function receives a slice header (array, offset, len, cap) and the built-in `append`
writes in place whenever `len + n ≤ cap`.  This file models exactly that: a heap of backing arrays,
slice headers, `make`, `append`, and `pad` as it is written after the repair

    pad := bytes.Repeat([]byte{byte(padlen)}, padlen)
    out := make([]byte, 0, len(data)+padlen)
    out = append(out, data...)
    return append(out, pad...), nil

so that "the call does not write into the caller's memory" becomes a statement about the heap
(Props.C17Mem).  `padInPlace` is the function as it was BEFORE the repair (`return append(data, pad...)`);
it is kept only to show that the frame statement is not a triviality of the memory model: it is false
for that function (Props.C17Mem.padInPlace_writes_caller_memory).

Core Lean only.
-/
import Gmsm.Util.Bytes
namespace Gmsm.Model.SliceMem
open Gmsm

/-- the heap: allocation number ↦ backing array -/
abbrev Heap := List Bytes

/-- a slice header: backing array `id`, elements `off .. off+len`, capacity `cap` counted from `off` -/
structure Slice where
  id : Nat
  off : Nat
  len : Nat
  cap : Nat
deriving Repr, DecidableEq

def arr (h : Heap) (id : Nat) : Bytes := h.getD id []

/-- the header points into the heap: `0 ≤ len ≤ cap`, `off + cap ≤ len(array)` -/
def Slice.Valid (h : Heap) (s : Slice) : Prop :=
  s.id < h.length ∧ s.len ≤ s.cap ∧ s.off + s.cap ≤ (arr h s.id).length

/-- the elements of the slice -/
def elems (h : Heap) (s : Slice) : Bytes := ((arr h s.id).drop s.off).take s.len

/-- `make([]byte, len, cap)`: a new zeroed array -/
def goMake (h : Heap) (len cap : Nat) : Heap × Slice :=
  (h ++ [List.replicate cap 0], ⟨h.length, 0, len, cap⟩)

/-- overwrite `a[pos .. pos+len(xs)]` -/
def writeAt (a : Bytes) (pos : Nat) (xs : Bytes) : Bytes :=
  a.take pos ++ xs ++ a.drop (pos + xs.length)

/-- the built-in `append(s, xs...)`: in place when the capacity suffices, otherwise a new array that
    receives the old elements and `xs` (its capacity is at least its length; the exact growth policy
    is not modelled, nothing below appends to a grown slice) -/
def goAppend (h : Heap) (s : Slice) (xs : Bytes) : Heap × Slice :=
  if s.len + xs.length ≤ s.cap then
    (h.set s.id (writeAt (arr h s.id) (s.off + s.len) xs), { s with len := s.len + xs.length })
  else
    (h ++ [elems h s ++ xs], ⟨h.length, 0, s.len + xs.length, s.len + xs.length⟩)

/-- `padlen` of `pad` (the `padlen == 0` branch of the Go code is unreachable: `len % bl < bl`) -/
def padLen (n bl : Nat) : Nat :=
  let k := bl - n % bl
  if k = 0 then bl else k

/-- `bytes.Repeat([]byte{byte(padlen)}, padlen)` -/
def padBytes (n bl : Nat) : Bytes := List.replicate (padLen n bl) (BitVec.ofNat 8 (padLen n bl))

/-- `pad(data, blocklen)` of x509/pkcs7.go as repaired: `none` = the error return -/
def padMem (h : Heap) (data : Slice) (bl : Nat) : Option (Heap × Slice) :=
  if bl < 1 then none
  else
    let (h1, out) := goMake h 0 (data.len + padLen data.len bl)
    let (h2, out) := goAppend h1 out (elems h1 data)
    some (goAppend h2 out (padBytes data.len bl))

/-- `pad` as it was before the repair: `return append(data, pad...)` -/
def padInPlace (h : Heap) (data : Slice) (bl : Nat) : Option (Heap × Slice) :=
  if bl < 1 then none
  else some (goAppend h data (padBytes data.len bl))

end Gmsm.Model.SliceMem
