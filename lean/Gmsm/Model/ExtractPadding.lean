/-
Bit-level transcription of `extractPadding` (gmtls/conn.go), the constant-time CBC padding check of
the record layer.  `uint` is `BitVec 64`, the `int32(..)` conversion is `setWidth 32` followed by an
arithmetic shift (`BitVec.sshiftRight`), bytes are `BitVec 8`; the `for` loop is a left fold over
`List.range toCheck`.  Core Lean only; executable.  The predicate-level model is
`Model.Record.extractPadding`; `Props/C07Pad.lean` proves the two equal for `len < 2^31`.
-/
import Gmsm.Util.Bytes
namespace Model.ExtractPadding
open Gmsm

/-- `byte(int32(^t) >> 31)` for `t : uint`: truncate `^t` to 32 bits, arithmetic shift right by 31
    (replicates bit 31), keep the low 8 bits. -/
def msbMask (t : BitVec 64) : Byte :=
  (((~~~t).setWidth 32).sshiftRight 31).setWidth 8

/-- one iteration of the loop body:
    `t := uint(paddingLen) - uint(i); mask := byte(int32(^t) >> 31);`
    `b := payload[len(payload)-1-i]; good &^= mask&paddingLen ^ mask&b`
    (Go precedence: `&` binds tighter than `^`; `&^=` is AND-NOT). -/
def loopBody (payload : Bytes) (paddingLen : Byte) (good : Byte) (i : Nat) : Byte :=
  let t : BitVec 64 := paddingLen.setWidth 64 - BitVec.ofNat 64 i
  let mask := msbMask t
  let b := payload.getD (payload.length - 1 - i) 0
  good &&& ~~~((mask &&& paddingLen) ^^^ (mask &&& b))

/-- `good &= good << 4; good &= good << 2; good &= good << 1; good = uint8(int8(good) >> 7)` -/
def andBits (good : Byte) : Byte :=
  let good := good &&& (good <<< 4)
  let good := good &&& (good <<< 2)
  let good := good &&& (good <<< 1)
  good.sshiftRight 7

/-- `toCheck := 256; if toCheck > len(payload) { toCheck = len(payload) }` -/
def toCheck (payload : Bytes) : Nat := if 256 > payload.length then payload.length else 256

/-- `extractPadding(payload) (toRemove int, good byte)` -/
def extractPaddingGo (payload : Bytes) : Nat × Byte :=
  if payload.length < 1 then (0, 0) else
  let paddingLen : Byte := payload.getD (payload.length - 1) 0
  let t : BitVec 64 := BitVec.ofNat 64 (payload.length - 1) - paddingLen.setWidth 64
  let good := msbMask t
  let good := (List.range (toCheck payload)).foldl (loopBody payload paddingLen) good
  (paddingLen.toNat + 1, andBits good)

end Model.ExtractPadding
