/-
Model of the interlock between `Conn.Write` and `Conn.Close` in gmtls/conn.go: the atomic int32
`activeCall` whose bit 0 means "Close has been called" and whose upper bits count the goroutines inside
`Conn.Write` in steps of 2.

    Write:  for { x := Load; if x&1 != 0 { return errClosed }; if CAS(x, x+2) { defer Add(-2); break } }
            ... c.out.Lock(); defer c.out.Unlock(); if c.closeNotifySent { return errShutdown }; writeRecordLocked
    Close:  for { x = Load; if x&1 != 0 { return errClosed }; if CAS(x, x|1) { break } }
            if x != 0 { return c.conn.Close() }
            closeNotify()  -- c.out.Lock(); if !closeNotifySent { send alert; closeNotifySent = true }; Unlock
            c.conn.Close()

A transition system: shared variables + one program counter per goroutine; `step` performs ONE atomic action
of ONE goroutine (a Load, the test, a CompareAndSwap, a mutex acquire, ...).  A failed CAS goes back to the
Load.  A goroutine waiting for the `out` mutex is blocked (`step` = none), a finished one has no step.
The connection is established (handshakeComplete), so `Handshake()` in Write is a no-op and Close takes the
closeNotify path when `x == 0`.
`Outcome` is the verdict of the interlock (`ok` = got past it, `errClosed`); what the record layer / the
underlying net.Conn then returns to a Write that was in flight when the connection was torn down is not
part of the verdict (the model counts such writes in `brokenWrites`).
Core Lean only; executable.
-/
namespace Model.ConnInterlock

/-! ### constants of the source (to be pinned to conn.go by the fact extractor) -/

/-- `x|1` in Conn.Close: the bit that says "Close has been called" -/
def closedBit : Nat := 1
/-- `x&1 != 0` in Conn.Write and Conn.Close: the mask of the test -/
def closedMask : Nat := 1
/-- `x+2` in Conn.Write: one in-flight Write -/
def writeInc : Nat := 2
/-- `atomic.AddInt32(&c.activeCall, -2)` deferred in Conn.Write -/
def releaseDec : Nat := 2

/-- Go `x&1 != 0` -/
def isClosed (x : Nat) : Bool := x &&& closedMask != 0
/-- Go `x+2` (new value of the CAS in Write) -/
def addWriter (x : Nat) : Nat := x + writeInc
/-- Go `x|1` (new value of the CAS in Close) -/
def setClosed (x : Nat) : Nat := x ||| closedBit
/-- Go `AddInt32(&activeCall, -2)`; on Nat, the theorems show the counter is ≥ 2 whenever this runs -/
def subWriter (x : Nat) : Nat := x - releaseDec
/-- Go `x != 0` in Close: some Write was in flight when Close won -/
def writesInFlight (x : Nat) : Bool := x != 0

abbrev ThreadId := Nat

inductive Outcome | ok | errClosed
deriving DecidableEq, Repr

inductive Kind | writer | closer
deriving DecidableEq, Repr

/-- program counter of a goroutine in `Conn.Write` -/
inductive WPc
  | load                 -- about to `x := atomic.LoadInt32(&c.activeCall)`
  | check (x : Nat)      -- about to test `x&1 != 0`
  | cas (x : Nat)        -- about to `CompareAndSwapInt32(&c.activeCall, x, x+2)`
  | lock                 -- past the interlock; about to `c.out.Lock()`
  | write                -- holds `out`; `closeNotifySent` test and `writeRecordLocked`
  | unlock               -- deferred `c.out.Unlock()`
  | release              -- deferred `atomic.AddInt32(&c.activeCall, -2)`
  | done (o : Outcome)
deriving DecidableEq, Repr

/-- program counter of a goroutine in `Conn.Close` -/
inductive CPc
  | load
  | check (x : Nat)
  | cas (x : Nat)        -- about to `CompareAndSwapInt32(&c.activeCall, x, x|1)`
  | branch (x : Nat)     -- won the CAS; about to test `x != 0`
  | cnLock               -- closeNotify: about to `c.out.Lock()`
  | cnSend               -- holds `out`; `if !closeNotifySent { sendAlertLocked(closeNotify); closeNotifySent = true }`
  | cnUnlock             -- deferred `c.out.Unlock()`
  | closeConn            -- about to `c.conn.Close()`
  | done (o : Outcome)
deriving DecidableEq, Repr

inductive Thread
  | writer (pc : WPc)
  | closer (pc : CPc)
deriving DecidableEq, Repr

def Thread.kind : Thread → Kind
  | .writer _ => .writer
  | .closer _ => .closer

def Thread.start : Kind → Thread
  | .writer => .writer .load
  | .closer => .closer .load

/-- the interlock verdict of a finished goroutine -/
def Thread.outcome : Thread → Option Outcome
  | .writer (.done o) => some o
  | .closer (.done o) => some o
  | _ => none

def Thread.isDone (th : Thread) : Bool := th.outcome.isSome

structure Shared where
  /-- `c.activeCall` -/
  activeCall : Nat
  /-- `c.out` mutex is held -/
  outHeld : Bool
  /-- `c.conn.Close()` has been called -/
  closedUnderlying : Bool
  /-- number of calls of `c.conn.Close()` -/
  connCloses : Nat
  /-- number of close_notify alerts put on the wire (`c.closeNotifySent` is `this ≠ 0`) -/
  closeNotifySent : Nat
  /-- application-data writes that reached an open underlying connection -/
  recordsWritten : Nat
  /-- application-data writes that found the underlying connection already closed -/
  brokenWrites : Nat
  /-- Writes that returned errShutdown because close_notify had been sent -/
  shutdownWrites : Nat
deriving DecidableEq, Repr

structure State extends Shared where
  threads : List Thread
deriving DecidableEq, Repr

/-- what one atomic action did (for traces) -/
inductive Action
  | load (x : Nat)
  | checkPass
  | checkClosed            -- returned errClosed
  | wCasOk (x : Nat)       -- Write's CAS(x, x+2) succeeded
  | cCasOk (x : Nat)       -- Close's CAS(x, x|1) succeeded
  | casFail (x : Nat)
  | lock
  | writeRecord
  | writeBroken
  | writeShutdown
  | unlock
  | release
  | branch (inFlight : Bool)
  | cnLock
  | cnSend (sent : Bool)
  | cnUnlock
  | closeConn
deriving DecidableEq, Repr

structure Event where
  tid : ThreadId
  act : Action
deriving DecidableEq, Repr

/-- one atomic action of a goroutine in state `th` on the shared variables; `none` = blocked or finished -/
def localStep (sh : Shared) : Thread → Option (Shared × Thread × Action)
  | .writer .load => some (sh, .writer (.check sh.activeCall), .load sh.activeCall)
  | .writer (.check x) =>
      if isClosed x then some (sh, .writer (.done .errClosed), .checkClosed)
      else some (sh, .writer (.cas x), .checkPass)
  | .writer (.cas x) =>
      if sh.activeCall = x then some ({ sh with activeCall := addWriter x }, .writer .lock, .wCasOk x)
      else some (sh, .writer .load, .casFail x)
  | .writer .lock =>
      if sh.outHeld then none else some ({ sh with outHeld := true }, .writer .write, .lock)
  | .writer .write =>
      if sh.closeNotifySent != 0 then
        some ({ sh with shutdownWrites := sh.shutdownWrites + 1 }, .writer .unlock, .writeShutdown)
      else if sh.closedUnderlying then
        some ({ sh with brokenWrites := sh.brokenWrites + 1 }, .writer .unlock, .writeBroken)
      else some ({ sh with recordsWritten := sh.recordsWritten + 1 }, .writer .unlock, .writeRecord)
  | .writer .unlock => some ({ sh with outHeld := false }, .writer .release, .unlock)
  | .writer .release => some ({ sh with activeCall := subWriter sh.activeCall }, .writer (.done .ok), .release)
  | .writer (.done _) => none
  | .closer .load => some (sh, .closer (.check sh.activeCall), .load sh.activeCall)
  | .closer (.check x) =>
      if isClosed x then some (sh, .closer (.done .errClosed), .checkClosed)
      else some (sh, .closer (.cas x), .checkPass)
  | .closer (.cas x) =>
      if sh.activeCall = x then some ({ sh with activeCall := setClosed x }, .closer (.branch x), .cCasOk x)
      else some (sh, .closer .load, .casFail x)
  | .closer (.branch x) =>
      if writesInFlight x then some (sh, .closer .closeConn, .branch true)
      else some (sh, .closer .cnLock, .branch false)
  | .closer .cnLock =>
      if sh.outHeld then none else some ({ sh with outHeld := true }, .closer .cnSend, .cnLock)
  | .closer .cnSend =>
      if sh.closeNotifySent != 0 then some (sh, .closer .cnUnlock, .cnSend false)
      else some ({ sh with closeNotifySent := sh.closeNotifySent + 1 }, .closer .cnUnlock, .cnSend true)
  | .closer .cnUnlock => some ({ sh with outHeld := false }, .closer .closeConn, .cnUnlock)
  | .closer .closeConn =>
      some ({ sh with closedUnderlying := true, connCloses := sh.connCloses + 1 }, .closer (.done .ok), .closeConn)
  | .closer (.done _) => none

/-- one atomic action of goroutine `t`, with the event it produced -/
def stepEv (s : State) (t : ThreadId) : Option (State × Event) :=
  match s.threads[t]? with
  | none => none
  | some th =>
    match localStep s.toShared th with
    | none => none
    | some (sh, th', a) => some ({ toShared := sh, threads := s.threads.set t th' }, ⟨t, a⟩)

/-- one atomic action of goroutine `t`; `none` when `t` is blocked on the mutex, finished, or no goroutine -/
def step (s : State) (t : ThreadId) : Option State := (stepEv s t).map (·.1)

/-- the scheduler picks `t`: its action happens, or nothing happens when it cannot move -/
def next (s : State) (t : ThreadId) : State := (step s t).getD s

/-- run a schedule -/
def run (s : State) (sched : List ThreadId) : State := sched.foldl next s

/-- the events of a schedule, oldest first -/
def trace : State → List ThreadId → List Event
  | _, [] => []
  | s, t :: ts =>
    match stepEv s t with
    | none => trace s ts
    | some (s', e) => e :: trace s' ts

def initShared : Shared :=
  { activeCall := 0, outHeld := false, closedUnderlying := false, connCloses := 0, closeNotifySent := 0,
    recordsWritten := 0, brokenWrites := 0, shutdownWrites := 0 }

/-- an established, idle connection and one goroutine per entry of `kinds`, each about to make its call -/
def initOf (kinds : List Kind) : State := { toShared := initShared, threads := kinds.map Thread.start }

/-- `nW` writers (ids 0..nW-1) and `nC` closers (ids nW..nW+nC-1) -/
def init (nW nC : Nat) : State := initOf (List.replicate nW .writer ++ List.replicate nC .closer)

def State.outcomes (s : State) : List (Option Outcome) := s.threads.map Thread.outcome
def State.allDone (s : State) : Bool := s.threads.all Thread.isDone

/-- upper bound on the number of actions of one call when nobody interferes (Close on the quiet path: 8) -/
def soloSteps : Nat := 8

/-- the sequential schedule of an order of the goroutines: each one runs to completion before the next starts -/
def seqSchedule (order : List ThreadId) : List ThreadId := order.flatMap (fun t => List.replicate soloSteps t)

end Model.ConnInterlock
