/-
Message-acceptance automaton of the gmtls handshake endpoints, as the code is:
`conn.go` `readRecord` (record type against handshake phase, ChangeCipherSpec only when asked for and not in
the middle of a message, oversized records, at most `maxWarnAlertCount` consecutive warning alerts) and
`readHandshake` (reassembly, 64 KiB limit, type dispatch, unmarshal failure), and the per-state type assertions
of `gm_handshake_server_double.go`, `gm_handshake_client_double.go`, `handshake_server.go`,
`handshake_client.go`; plus the version dispatch of `auto_handshake_server.go` / `Config.mutualVersion`
and the answer of a server to a ClientHello (version, compression, suite).

Granularity: one event per record-layer / handshake-layer occurrence seen by the endpoint; message contents
are not modelled (a message of the expected type is taken to carry what an honest peer puts there), with two
explicit exceptions: `malformed` (the body does not unmarshal) and `finishedBad` (a Finished whose verify_data
does not match because the two transcripts differ).
Core Lean only; executable.
-/
namespace Model.Handshake

/-- What an endpoint can be shown by its peer during the handshake. -/
inductive Msg where
  -- complete, well-formed handshake messages, by type
  | helloRequest | clientHello | serverHello | certificate | serverKeyExchange | certificateRequest
  | serverHelloDone | certificateVerify | clientKeyExchange | finished | newSessionTicket
  | certificateStatus | nextProtocol
  | unknownType       -- a handshake message whose type byte `readHandshake` does not know
  | finishedBad       -- a Finished message whose verify_data differs from the local transcript's
  | finishedTrailing  -- a Finished message with the right verify_data whose record holds further handshake bytes
                      -- (`c.hand.Len() > 0` once `readFinished` has taken the message)
  | malformed         -- a handshake message of a known type whose body fails to unmarshal
  | oversizedMsg      -- a handshake header announcing more than maxHandshake (65536) bytes
  | fragment          -- a handshake record with data that does not complete a message
  | trailing          -- the record that completed the previous message also held the first bytes of another
  | emptyHandshake    -- a handshake record without data
  -- other records
  | ccs               -- ChangeCipherSpec, one byte 0x01
  | badCcs            -- ChangeCipherSpec with other contents
  | appData
  | warningAlert      -- level warning, not close_notify
  | fatalAlert
  | closeNotify
  | badAlert          -- alert record that is not two bytes, or whose level is neither warning nor fatal
  | unknownRecord     -- record type outside 20..23
  | oversizedRecord   -- record header announcing more than maxCiphertext bytes
  | wrongVersionRecord -- record whose header version is refused: not the negotiated one, or >= 0x1000 before that
  | badRecord         -- handshake or alert record that fails decryption / MAC under the negotiated cipher
  | badRecordOther    -- record of another type that fails decryption / MAC
  | eof               -- the stream ended
deriving DecidableEq, Repr

/-- Alert the endpoint writes when it aborts (`none`: it writes nothing). -/
inductive Alert where
  | none | unexpectedMessage | badRecordMac | recordOverflow | handshakeFailure | protocolVersion | internalError
  | noRenegotiation
deriving DecidableEq, Repr

def Alert.code : Alert → Option Nat
  | .none => Option.none | .unexpectedMessage => some 10 | .badRecordMac => some 20 | .recordOverflow => some 22
  | .handshakeFailure => some 40 | .protocolVersion => some 70 | .internalError => some 80 | .noRenegotiation => some 100

/-- What the handshake code reads next. -/
inductive Phase where
  -- server (`readClientHello`, `doFullHandshake`, `readFinished`)
  | sHello | sCert | sKeyExchange | sCertVerify | sCCS | sNextProto | sFinished
  -- client (`handshake`, `doFullHandshake`, `readSessionTicket`, `readFinished`)
  | cHello | cCert
  | cSKX          -- GMSSL client: ServerKeyExchange is mandatory
  | cAfterCert    -- TLS client: CertificateStatus | ServerKeyExchange | CertificateRequest | ServerHelloDone
  | cAfterStatus  -- TLS client, after CertificateStatus
  | cAfterSKX     -- CertificateRequest | ServerHelloDone
  | cDoneNoSKX    -- TLS client, CertificateRequest seen but no ServerKeyExchange
  | cHelloDone    -- ServerHelloDone
  | cTicket | cCCS | cFinished
deriving DecidableEq, Repr

/-- Everything outside the message sequence that decides what the code expects: the role, and what was
    negotiated by the hello messages / carried by earlier messages. -/
structure Cfg where
  server : Bool    -- role of the endpoint
  gm : Bool        -- GMSSL code path (otherwise the TLS one)
  resume : Bool    -- server: the ticket was accepted (`checkForResumption`); client: ServerHello echoes the session id
  reqCert : Bool   -- server: `ClientAuth >= RequestClientCert`
  peerCert : Bool  -- server: the client's Certificate message was not empty (so CertificateVerify must follow)
  ticket : Bool    -- client: ServerHello carries the session_ticket extension
  ocsp : Bool      -- TLS client: ServerHello carries status_request
  skx : Bool       -- TLS client: the suite's key agreement needs a ServerKeyExchange (ECDHE)
  npn : Bool       -- server: next-protocol negotiation was agreed
deriving DecidableEq, Repr

def maxWarnAlertCount : Nat := 5

structure State where
  phase : Phase
  warn : Nat     -- `c.warnCount`: consecutive warning alerts
  pend : Bool    -- `c.hand.Len() > 0`: bytes of an incomplete handshake message are buffered
deriving DecidableEq, Repr

inductive Result where
  | cont (s : State)
  | error (a : Alert)
  | done
deriving DecidableEq, Repr

def initPhase (c : Cfg) : Phase := if c.server then .sHello else .cHello
def init (c : Cfg) : State := ⟨initPhase c, 0, false⟩

/-- phases in which the code calls `readRecord(recordTypeChangeCipherSpec)` -/
def wantsCCS : Phase → Bool
  | .sCCS | .cCCS => true
  | _ => false

/-- the client's phase after ServerHelloDone (full handshake) or after ServerHello (resumption) -/
def afterHelloDone (c : Cfg) : Phase := if c.ticket then .cTicket else .cCCS

/-- the server expects CertificateVerify: `len(c.peerCertificates) > 0`, set only when a certificate was requested
    and the client's Certificate message was not empty -/
def wantsVerify (c : Cfg) : Bool := c.reqCert && c.peerCert

/-- Type assertions of the handshake code: `none` = not what this phase accepts, `some none` = accepted and
    the handshake is complete, `some (some p)` = accepted, `p` is read next.  `ccs` is listed here too. -/
def next (c : Cfg) : Phase → Msg → Option (Option Phase)
  | .sHello, .clientHello =>
      some (some (if c.resume then .sCCS else if c.reqCert then .sCert else .sKeyExchange))
  | .sCert, .certificate => some (some .sKeyExchange)
  | .sKeyExchange, .clientKeyExchange => some (some (if wantsVerify c then .sCertVerify else .sCCS))
  | .sCertVerify, .certificateVerify => some (some .sCCS)
  | .sCCS, .ccs => some (some (if c.npn then .sNextProto else .sFinished))
  | .sNextProto, .nextProtocol => some (some .sFinished)
  | .sFinished, .finished => some none
  | .cHello, .serverHello => some (some (if c.resume then afterHelloDone c else .cCert))
  | .cCert, .certificate => some (some (if c.gm then .cSKX else .cAfterCert))
  | .cSKX, .serverKeyExchange => some (some .cAfterSKX)
  | .cAfterCert, .certificateStatus => if c.ocsp then some (some .cAfterStatus) else none
  | .cAfterCert, .serverKeyExchange => if c.skx then some (some .cAfterSKX) else none
  | .cAfterStatus, .serverKeyExchange => if c.skx then some (some .cAfterSKX) else none
  | .cAfterCert, .certificateRequest => some (some .cDoneNoSKX)
  | .cAfterStatus, .certificateRequest => some (some .cDoneNoSKX)
  | .cAfterCert, .serverHelloDone => if c.skx then none else some (some (afterHelloDone c))
  | .cAfterStatus, .serverHelloDone => if c.skx then none else some (some (afterHelloDone c))
  | .cDoneNoSKX, .serverHelloDone => if c.skx then none else some (some (afterHelloDone c))
  | .cAfterSKX, .certificateRequest => some (some .cHelloDone)
  | .cAfterSKX, .serverHelloDone => some (some (afterHelloDone c))
  | .cHelloDone, .serverHelloDone => some (some (afterHelloDone c))
  | .cTicket, .newSessionTicket => some (some .cCCS)
  | .cCCS, .ccs => some (some .cFinished)
  | .cFinished, .finished => some none
  | _, _ => none

/-- the alert for a well-formed handshake message the phase does not accept: unexpected_message, except that a
    TLS client that reaches ServerHelloDone without the ServerKeyExchange its suite needs fails in
    `generateClientKeyExchange` with internal_error -/
def rejectAlert (c : Cfg) (p : Phase) (m : Msg) : Alert :=
  if m = .serverHelloDone ∧ c.skx = true ∧ (p = .cAfterCert ∨ p = .cAfterStatus ∨ p = .cDoneNoSKX) then .internalError
  else .unexpectedMessage

/-- `c.haveVers`: set by the servers and by the TLS client once the hello is processed; the GMSSL client never
    sets it, so `readRecord` applies its first-record rule (type must be alert or the wanted one, version below
    0x1000, both checked before decryption) to every record it ever reads -/
def haveVers (c : Cfg) (p : Phase) : Bool := !(!c.server && c.gm) && p != .sHello && p != .cHello

/-- a handshake record while the code asked for ChangeCipherSpec: no_renegotiation; by the first-record rule
    unexpected_message -/
def hsAtCCSAlert (c : Cfg) : Alert := if !c.server && c.gm then .unexpectedMessage else .noRenegotiation

/-- One event. -/
def step (c : Cfg) (s : State) (m : Msg) : Result :=
  match m with
  | .eof | .fatalAlert | .closeNotify => .error .none
  | .warningAlert =>
      if s.warn + 1 > maxWarnAlertCount then .error .unexpectedMessage else .cont { s with warn := s.warn + 1 }
  | .badAlert | .unknownRecord | .appData | .badCcs => .error .unexpectedMessage
  | .oversizedRecord => .error .recordOverflow
  | .wrongVersionRecord => if haveVers c s.phase then .error .protocolVersion else .error .unexpectedMessage
  | .badRecord => .error .badRecordMac
  | .badRecordOther => if haveVers c s.phase then .error .badRecordMac else .error .unexpectedMessage
  | .trailing => .cont { s with pend := true }
  | .ccs =>
      if wantsCCS s.phase && !s.pend then
        match next c s.phase .ccs with
        | some (some p) => .cont ⟨p, 0, false⟩
        | _ => .error .unexpectedMessage
      else .error .unexpectedMessage
  | m =>  -- arrives in a handshake record
      if wantsCCS s.phase then .error (hsAtCCSAlert c) else
      match m with
      | .emptyHandshake => .cont s
      | .fragment => .cont { s with pend := true, warn := 0 }
      | .oversizedMsg => .error .internalError
      | .malformed | .unknownType => .error .unexpectedMessage
      -- where a Finished is awaited `readFinished` refuses what is left in `c.hand`; elsewhere a Finished is not
      -- what the phase accepts: unexpected_message either way
      | .finishedTrailing => .error .unexpectedMessage
      | .finishedBad =>
          if next c s.phase .finished = some none then .error .handshakeFailure else .error .unexpectedMessage
      | m =>
          match next c s.phase m with
          | some (some p) => .cont ⟨p, 0, false⟩
          | some none => .done
          | none => .error (rejectAlert c s.phase m)

/-- A sequence of events; stops at the first error or at completion. -/
def run (c : Cfg) : State → List Msg → Result
  | s, [] => .cont s
  | s, m :: ms =>
    match step c s m with
    | .cont s' => run c s' ms
    | r => r

/-- the same, also returning the state in which the last event was taken -/
def runAt (c : Cfg) : State → List Msg → Result × State
  | s, [] => (.cont s, s)
  | s, m :: ms =>
    match step c s m with
    | .cont s' => runAt c s' ms
    | r => (r, s)

/-- the handshake completes exactly with the last event of the sequence -/
def accepts (c : Cfg) : State → List Msg → Bool
  | _, [] => false
  | s, m :: ms =>
    match step c s m with
    | .cont s' => accepts c s' ms
    | .done => ms.isEmpty
    | .error _ => false

/-- events the record / reassembly layer absorbs without telling the handshake code -/
def tolerated : Msg → Bool
  | .warningAlert | .emptyHandshake | .fragment | .trailing => true
  | _ => false

/-- has the endpoint switched its own writing direction to the new keys when it is in phase `p`?  (its alerts
    are then unreadable for an observer) -/
def outEncrypted (c : Cfg) (p : Phase) : Bool :=
  if c.server then c.resume && (p == .sCCS || p == .sNextProto || p == .sFinished)
  else !c.resume && (p == .cTicket || p == .cCCS || p == .cFinished)

-- the accepted language, written out ------------------------------------------------------------------------

def pre (m : Msg) (l : List (List Msg)) : List (List Msg) := l.map (m :: ·)

def sFinishedL : List (List Msg) := [[.finished]]
def sNextProtoL : List (List Msg) := pre .nextProtocol sFinishedL
def sCCSL (c : Cfg) : List (List Msg) := pre .ccs (if c.npn then sNextProtoL else sFinishedL)
def sCertVerifyL (c : Cfg) : List (List Msg) := pre .certificateVerify (sCCSL c)
def sKeyExchangeL (c : Cfg) : List (List Msg) :=
  pre .clientKeyExchange (if wantsVerify c then sCertVerifyL c else sCCSL c)
def sCertL (c : Cfg) : List (List Msg) := pre .certificate (sKeyExchangeL c)
def sHelloL (c : Cfg) : List (List Msg) :=
  pre .clientHello (if c.resume then sCCSL c else if c.reqCert then sCertL c else sKeyExchangeL c)

def cFinishedL : List (List Msg) := [[.finished]]
def cCCSL : List (List Msg) := pre .ccs cFinishedL
def cTicketL : List (List Msg) := pre .newSessionTicket cCCSL
def cPostL (c : Cfg) : List (List Msg) := if c.ticket then cTicketL else cCCSL
def cHelloDoneL (c : Cfg) : List (List Msg) := pre .serverHelloDone (cPostL c)
def cAfterSKXL (c : Cfg) : List (List Msg) := pre .certificateRequest (cHelloDoneL c) ++ pre .serverHelloDone (cPostL c)
def cDoneNoSKXL (c : Cfg) : List (List Msg) := if c.skx then [] else pre .serverHelloDone (cPostL c)
def cAfterStatusL (c : Cfg) : List (List Msg) :=
  (if c.skx then pre .serverKeyExchange (cAfterSKXL c) else []) ++ pre .certificateRequest (cDoneNoSKXL c) ++
  (if c.skx then [] else pre .serverHelloDone (cPostL c))
def cAfterCertL (c : Cfg) : List (List Msg) :=
  (if c.ocsp then pre .certificateStatus (cAfterStatusL c) else []) ++ cAfterStatusL c
def cSKXL (c : Cfg) : List (List Msg) := pre .serverKeyExchange (cAfterSKXL c)
def cCertL (c : Cfg) : List (List Msg) := pre .certificate (if c.gm then cSKXL c else cAfterCertL c)
def cHelloL (c : Cfg) : List (List Msg) := pre .serverHello (if c.resume then cPostL c else cCertL c)

/-- the message sequences that lead from phase `p` to completion -/
def suffixes (c : Cfg) : Phase → List (List Msg)
  | .sHello => sHelloL c | .sCert => sCertL c | .sKeyExchange => sKeyExchangeL c | .sCertVerify => sCertVerifyL c
  | .sCCS => sCCSL c | .sNextProto => sNextProtoL | .sFinished => sFinishedL
  | .cHello => cHelloL c | .cCert => cCertL c | .cSKX => cSKXL c | .cAfterCert => cAfterCertL c
  | .cAfterStatus => cAfterStatusL c | .cAfterSKX => cAfterSKXL c | .cDoneNoSKX => cDoneNoSKXL c
  | .cHelloDone => cHelloDoneL c | .cTicket => cTicketL | .cCCS => cCCSL | .cFinished => cFinishedL

/-- the flights an endpoint in configuration `c` accepts: everything else ends in an error -/
def expected (c : Cfg) : List (List Msg) := suffixes c (initPhase c)

/-- what each phase accepts (at most two types on the GMSSL paths) -/
def expectedNext (c : Cfg) : Phase → List Msg
  | .sHello => [.clientHello] | .sCert => [.certificate] | .sKeyExchange => [.clientKeyExchange]
  | .sCertVerify => [.certificateVerify] | .sCCS => [.ccs] | .sNextProto => [.nextProtocol] | .sFinished => [.finished]
  | .cHello => [.serverHello] | .cCert => [.certificate] | .cSKX => [.serverKeyExchange]
  | .cAfterCert => (if c.ocsp then [.certificateStatus] else []) ++ (if c.skx then [.serverKeyExchange] else []) ++
      [.certificateRequest] ++ (if c.skx then [] else [.serverHelloDone])
  | .cAfterStatus => (if c.skx then [.serverKeyExchange] else []) ++ [.certificateRequest] ++
      (if c.skx then [] else [.serverHelloDone])
  | .cAfterSKX => [.certificateRequest, .serverHelloDone]
  | .cDoneNoSKX => if c.skx then [] else [.serverHelloDone]
  | .cHelloDone => [.serverHelloDone] | .cTicket => [.newSessionTicket] | .cCCS => [.ccs] | .cFinished => [.finished]

/-- position of a phase in the handshake (every accepted message moves to a later one) -/
def rank : Phase → Nat
  | .sHello => 0 | .sCert => 1 | .sKeyExchange => 2 | .sCertVerify => 3 | .sCCS => 4 | .sNextProto => 5 | .sFinished => 6
  | .cHello => 0 | .cCert => 1 | .cSKX => 2 | .cAfterCert => 2 | .cAfterStatus => 3 | .cAfterSKX => 4 | .cDoneNoSKX => 4
  | .cHelloDone => 5 | .cTicket => 6 | .cCCS => 7 | .cFinished => 8

def maxRank : Nat := 8

-- version dispatch --------------------------------------------------------------------------------------------

inductive Mode where
  | gmOnly    -- Config.GMSupport set, work mode GMSSLOnly: `serverHandshakeGM`
  | auto      -- Config.GMSupport in AutoSwitch mode: `serverHandshakeAutoSwitch`
  | tlsOnly   -- Config.GMSupport nil: `serverHandshake`
deriving DecidableEq, Repr

inductive Path where
  | reject                -- protocol_version alert
  | gm (vers : Nat)       -- GMSSL handshake code, connection version `vers`
  | tls (vers : Nat)      -- TLS handshake code, connection version `vers`
deriving DecidableEq, Repr

def versionGMSSL : Nat := 0x0101
def versionSSL30 : Nat := 0x0300
def versionTLS12 : Nat := 0x0303

/-- `Config.mutualVersion` with the default limits (`minVersion` = 0x0101, `maxVersion` = 0x0303) -/
def mutualVersion (v : Nat) : Option Nat :=
  if v < versionGMSSL then none
  else if versionGMSSL < v ∧ v < versionSSL30 then none
  else if v > versionTLS12 then some versionTLS12
  else some v

/-- the version test of the GMSSL server handshake (`serverHandshakeStateGM.readClientHello`, and
    `processClientHelloGM` of the auto-switch server), repaired: `mv` is what `Config.mutualVersion` returned for
    the client_version `v`; GMSSL 1.1 (0x0101) is the only version that handshake implements, so it goes on — at
    `c.vers = 0x0101` — only if `mutualVersion` succeeded AND the client_version is 0x0101 AND the result is 0x0101
    (a maximum below 0x0101 would clamp it); everything else gets a protocol_version alert.  Before the repair the
    test was `mv ≠ none` alone and the handshake ran at whatever `mutualVersion` returned (0x0300..0x0303). -/
def gmServerVersion (mv : Option Nat) (v : Nat) : Option Nat :=
  match mv with
  | none => none
  | some w => if v = versionGMSSL ∧ w = versionGMSSL then some w else none

/-- which handshake code serves a ClientHello with `client_version = v`, and at which connection version -/
def dispatch : Mode → Nat → Path
  | .gmOnly, v => match gmServerVersion (mutualVersion v) v with | none => .reject | some w => .gm w
  | .tlsOnly, v => match mutualVersion v with | none => .reject | some w => .tls w
  | .auto, v =>
      if v = versionGMSSL then (match gmServerVersion (mutualVersion v) v with | none => .reject | some w => .gm w)
      else if versionSSL30 ≤ v ∧ v ≤ versionTLS12 then (match mutualVersion v with | none => .reject | some w => .tls w)
      else .reject

-- the server's answer to a ClientHello ------------------------------------------------------------------------

/-- GMSSL suites a server selects (`serverHandshakeStateGM.setCipherSuite`): the default list of
    `getCipherSuites` without the ECDHE suites 0xe011 / 0xe051, whose server side is not implemented -/
def gmSuites : List Nat := [0xe013, 0xe053]

/-- `cipherSuites` of cipher_suites.go: id, ECDHE, ECDSA-signed, TLS 1.2 only, off by default -/
def tlsSuiteTable : List (Nat × Bool × Bool × Bool × Bool) :=
  [(0xcca8, true, false, true, false), (0xcca9, true, true, true, false), (0xc02f, true, false, true, false),
   (0xc02b, true, true, true, false), (0xc030, true, false, true, false), (0xc02c, true, true, true, false),
   (0xc027, true, false, true, true), (0xc013, true, false, false, false),
   (0xc023, true, true, true, true), (0xc009, true, true, false, false), (0xc014, true, false, false, false),
   (0xc00a, true, true, false, false), (0x009c, false, false, true, false), (0x009d, false, false, true, false),
   (0x003c, false, false, true, true), (0x002f, false, false, false, false), (0x0035, false, false, false, false),
   (0xc012, true, false, false, false), (0x000a, false, false, false, false), (0x0005, false, false, false, true),
   (0xc011, true, false, false, true), (0xc007, true, true, false, true)]

/-- `serverHandshakeState.setCipherSuite` for a server holding an RSA certificate and key (signing and
    decryption possible, no ECDSA), default suite list; `elliptic`: the hello offers a supported curve and
    uncompressed points -/
def tlsSuiteOk (vers : Nat) (elliptic : Bool) (id : Nat) : Bool :=
  match tlsSuiteTable.find? (·.1 = id) with
  | none => false
  | some (_, ecdhe, ecdsa, tls12, off) =>
      !off && (if ecdhe then elliptic && !ecdsa else true) && (if tls12 then decide (versionTLS12 ≤ vers) else true)

def fallbackSCSV : Nat := 0x5600

inductive Answer where
  | reject                        -- protocol_version
  | failure                       -- handshake_failure: no null compression, or no common suite
  | fallback                      -- inappropriate_fallback
  | serverHello (vers suite : Nat)
deriving DecidableEq, Repr

/-- the checks that precede the ServerHello once the code path (`ok`: which suites it can serve) and the
    connection version `w` are fixed: null compression offered, first suite in the client's order of preference
    that the server supports, fallback SCSV -/
def answerOn (ok : Nat → Bool) (w vers : Nat) (suites comps : List Nat) : Answer :=
  if comps.contains 0 = false then .failure else
  match suites.find? ok with
  | none => .failure
  | some s => if suites.contains fallbackSCSV && decide (vers < versionTLS12) then .fallback else .serverHello w s

/-- `readClientHello` / `processClientHello*`: how a server answers a hello with the given client_version,
    suite list and compression methods -/
def helloAnswer (mode : Mode) (elliptic : Bool) (vers : Nat) (suites comps : List Nat) : Answer :=
  match dispatch mode vers with
  | .reject => .reject
  | .gm w => answerOn (gmSuites.contains ·) w vers suites comps
  | .tls w => answerOn (tlsSuiteOk w elliptic) w vers suites comps

-- the client's check of a ServerHello ---------------------------------------------------------------------------

/-- suites a client knows: `gmCipherSuites` for the GMSSL client (`mutualCipherSuiteGM`), `cipherSuites` for the TLS
    client (`mutualCipherSuite`) -/
def gmKnownSuites : List Nat := [0xe013, 0xe053, 0xe011, 0xe051]
def tlsKnownSuites : List Nat := tlsSuiteTable.map (·.1)
def knownSuites (gm : Bool) : List Nat := if gm then gmKnownSuites else tlsKnownSuites

/-- the suite list a client writes into its hello: the configured (or default) list restricted to the suites it
    knows (`makeClientHelloGM`, `makeClientHello` at version 0x0303); the GMSSL client (repaired) leaves out the
    ECDHE-SM2 suites 0xe011 / 0xe051 it knows but whose key exchange it cannot complete, i.e. it offers the known
    suites that are in `gmSuites` -/
def helloSuites (gm : Bool) (configured : List Nat) : List Nat :=
  configured.filter (fun s => (knownSuites gm).contains s && (!gm || gmSuites.contains s))

/-- `clientHandshakeState.pickTLSVersion`: the server's version must pass `mutualVersion` UNCHANGED — a value above
    the client's maximum, which `mutualVersion` would clamp to 0x0303, is not a version the client offered and is
    refused — and must be at least TLS 1.0; the GMSSL client compares with 0x0101 -/
def clientVersionOk (gm : Bool) (vers : Nat) : Bool :=
  if gm then vers == versionGMSSL
  else match mutualVersion vers with
    | none => false
    | some w => decide (0x0301 ≤ w) && w == vers

/-- the `suiteTLS12` flag of `cipherSuites` (false for ids that are not in the table) -/
def tls12Only (id : Nat) : Bool :=
  match tlsSuiteTable.find? (·.1 = id) with
  | none => false
  | some (_, _, _, tls12, _) => tls12

/-- `clientHandshakeState.pickCipherSuite`, second test: a suite that exists only in TLS 1.2 is refused when the
    version just agreed (`c.vers`) is lower (the server's `setCipherSuite` has the same rule); the GMSSL client
    has one version and no such flag -/
def clientSuiteVersionOk (gm : Bool) (vers suite : Nat) : Bool :=
  gm || !(decide (vers < versionTLS12) && tls12Only suite)

inductive HelloVerdict where
  | accept
  | reject (a : Alert)
deriving DecidableEq, Repr

/-- What a client does with the version, suite and compression method of a ServerHello, in the order of the code
    (`handshake`: version, then `pickCipherSuite` — offered and known, then fit for the version —, then
    `processServerHello`); `offered` is the suite list of its own hello. -/
def clientHelloCheck (gm : Bool) (offered : List Nat) (vers suite comp : Nat) : HelloVerdict :=
  if !clientVersionOk gm vers then .reject .protocolVersion
  else if !(offered.contains suite && (knownSuites gm).contains suite) then .reject .handshakeFailure
  else if !clientSuiteVersionOk gm vers suite then .reject .handshakeFailure
  else if comp != 0 then .reject .unexpectedMessage
  else .accept

/-- `processServerHello` (both clients): a ServerHello that carries the session_ticket extension although the
    client's hello did not (`hs.hello.ticketSupported` false: no session cache, or tickets disabled) is refused
    with handshake_failure, like an unrequested NPN / ALPN extension -/
def clientTicketCheck (offeredTicket helloTicket : Bool) : HelloVerdict :=
  if helloTicket && !offeredTicket then .reject .handshakeFailure else .accept

-- version limits configured on the server (`Config.MinVersion` / `Config.MaxVersion`) -------------------------------------

/-- `Config.mutualVersion` for arbitrary limits `lo` = `minVersion()`, `hi` = `maxVersion()`: the order of the code —
    below the minimum: refused; inside the gap between GMSSL and SSL 3.0: refused; above the maximum: the maximum -/
def mutualVersionLim (lo hi v : Nat) : Option Nat :=
  if v < lo then none
  else if versionGMSSL < v ∧ v < versionSSL30 then none
  else if v > hi then some hi
  else some v

/-- `minVersion()` / `maxVersion()`: 0 means the package default -/
def cfgMin (m : Nat) : Nat := if m = 0 then versionGMSSL else m
def cfgMax (m : Nat) : Nat := if m = 0 then versionTLS12 else m

def dispatchLim (lo hi : Nat) : Mode → Nat → Path
  | .gmOnly, v => match gmServerVersion (mutualVersionLim lo hi v) v with | none => .reject | some w => .gm w
  | .tlsOnly, v => match mutualVersionLim lo hi v with | none => .reject | some w => .tls w
  | .auto, v =>
      if v = versionGMSSL then (match gmServerVersion (mutualVersionLim lo hi v) v with | none => .reject | some w => .gm w)
      else if versionSSL30 ≤ v ∧ v ≤ versionTLS12 then (match mutualVersionLim lo hi v with | none => .reject | some w => .tls w)
      else .reject

def helloAnswerLim (lo hi : Nat) (mode : Mode) (elliptic : Bool) (vers : Nat) (suites comps : List Nat) : Answer :=
  match dispatchLim lo hi mode vers with
  | .reject => .reject
  | .gm w => answerOn (gmSuites.contains ·) w vers suites comps
  | .tls w => answerOn (tlsSuiteOk w elliptic) w vers suites comps

-- version limits configured on the client ---------------------------------------------------------------------------

/-- `pickTLSVersion` of a TLS client whose configuration gives `minVersion()` = `lo`, `maxVersion()` = `hi` (the
    version it writes into its hello) -/
def clientVersionOkLim (lo hi : Nat) (gm : Bool) (vers : Nat) : Bool :=
  if gm then vers == versionGMSSL
  else match mutualVersionLim lo hi vers with
    | none => false
    | some w => decide (0x0301 ≤ w) && w == vers

/-- the suite list of a TLS client's hello when its maximum version is `hi` (`makeClientHello`: "Don't advertise
    TLS 1.2-only cipher suites unless we're attempting TLS 1.2") -/
def helloSuitesAt (hi : Nat) (gm : Bool) (configured : List Nat) : List Nat :=
  (helloSuites gm configured).filter (fun s => gm || decide (versionTLS12 ≤ hi) || !tls12Only s)

def clientHelloCheckLim (lo hi : Nat) (gm : Bool) (offered : List Nat) (vers suite comp : Nat) : HelloVerdict :=
  if !clientVersionOkLim lo hi gm vers then .reject .protocolVersion
  else if !(offered.contains suite && (knownSuites gm).contains suite) then .reject .handshakeFailure
  else if !clientSuiteVersionOk gm vers suite then .reject .handshakeFailure
  else if comp != 0 then .reject .unexpectedMessage
  else .accept

end Model.Handshake
