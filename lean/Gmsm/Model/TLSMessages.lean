/-
Byte-level models of the hand-written TLS handshake message codecs of gmtls/handshake_messages.go and
gmtls/gm_handshake_messages.go: for each message struct the fields its `unmarshal(data []byte) bool` fills in
(`unmarshalX : Bytes → Option X`, `none` where the Go method returns false) and what its `marshal()` writes
for a struct whose `raw` is nil (`marshalX : X → Bytes`).  "Model the code that exists": every length check
in the order the Go code makes it, the same 8/16/24-bit length arithmetic, the same slices, the same
tolerance of trailing or ignored bytes (the server_name list and the OCSP status request of a ClientHello are
parsed to their end since the repair "fix: ClientHello: check the lengths inside server_name and status_request").  `data` is the whole handshake message including its 4-byte header
(type, 24-bit length), as the Go methods receive it.

Conventions.  `d.getD i 0` stands for `d[i]` at places where the Go code has checked `i < len(d)` before (the
default is never used on an accepted path).  `d.drop n` is `d[n:]`, `(d.drop a).take n` is `d[a:a+n]`.  Go's
`string(b)` keeps the bytes: strings are `Bytes` here.  `len(data)` is a natural number: the `uint32(len(data))`
conversions of the Go code are exact for inputs shorter than 2^32 bytes (readHandshake hands over at most
4 + maxHandshake = 65540 bytes).  Loops whose trip count depends on the data run on fuel `len + 1`, which is
never exhausted because every iteration removes at least one byte (the fuel-0 case returns `none`).

Core Lean only; executable (Driver/TLSMessages.lean, op `hsmsg`).
-/
import Gmsm.Util.Bytes
namespace Model.TLSMessages
open Gmsm

-- numbers -------------------------------------------------------------------------------------------------

/-- `int(a)<<8 | int(b)` -/
def get16 (a b : Byte) : Nat := a.toNat * 256 + b.toNat

/-- `uint32(a)<<16 | uint32(b)<<8 | uint32(c)` -/
def get24 (a b c : Byte) : Nat := a.toNat * 65536 + b.toNat * 256 + c.toNat

/-- `uint8(n)`: a conversion to a byte keeps the low 8 bits -/
def put8 (n : Nat) : Bytes := [BitVec.ofNat 8 n]

/-- `uint8(n >> 8), uint8(n)` -/
def put16 (n : Nat) : Bytes := [BitVec.ofNat 8 (n / 256), BitVec.ofNat 8 n]

/-- `uint8(n >> 16), uint8(n >> 8), uint8(n)` -/
def put24 (n : Nat) : Bytes := [BitVec.ofNat 8 (n / 65536), BitVec.ofNat 8 (n / 256), BitVec.ofNat 8 n]

/-- `n` big-endian 16-bit numbers read from the front of `d` (the Go loops `x[i] = uint16(d[0])<<8 | uint16(d[1]);
    d = d[2:]`, entered only after `2n ≤ len(d)` has been checked) -/
def readU16s : Nat → Bytes → List Nat
  | 0, _ => []
  | n + 1, d => get16 (d.getD 0 0) (d.getD 1 0) :: readU16s n (d.drop 2)

/-- the 16-bit numbers written one after the other -/
def writeU16s : List Nat → Bytes
  | [] => []
  | x :: xs => put16 x ++ writeU16s xs

/-- `Σ len` -/
def totalLen : List Bytes → Nat
  | [] => 0
  | c :: cs => c.length + totalLen cs

-- certificateMsg ------------------------------------------------------------------------------------------

structure CertificateMsg where
  certificates : List Bytes
deriving DecidableEq, Repr

/-- the first loop of `certificateMsg.unmarshal`, `for certsLen > 0 { … numCerts++ }`: the number of
    iterations, or `none` where it returns false.  `certsLen` is a uint32: `certsLen -= 3 + certLen` is
    modelled with its wrap-around (which cannot happen: see `Props.C15Codec.certCount_eq`).  An entry is
    only looked at when at least FOUR bytes are left, one more than its length field. -/
def certCount : Nat → Nat → Bytes → Option Nat
  | 0, _, _ => none
  | fuel + 1, certsLen, d =>
    if certsLen > 0 then
      if d.length < 4 then none else
      let certLen := get24 (d.getD 0 0) (d.getD 1 0) (d.getD 2 0)
      if d.length < 3 + certLen then none else
      match certCount fuel ((certsLen + 4294967296 - (3 + certLen)) % 4294967296) (d.drop (3 + certLen)) with
      | some n => some (n + 1)
      | none => none
    else some 0

/-- the second loop, `for i := 0; i < numCerts; i++ { certLen := …; m.certificates[i] = d[3 : 3+certLen];
    d = d[3+certLen:] }` (no checks: the first loop has made them) -/
def certSlices : Nat → Bytes → List Bytes
  | 0, _ => []
  | n + 1, d =>
    let certLen := get24 (d.getD 0 0) (d.getD 1 0) (d.getD 2 0)
    (d.drop 3).take certLen :: certSlices n (d.drop (3 + certLen))

/-- `certificateMsg.unmarshal`.  The four header bytes are not looked at. -/
def unmarshalCertificate (data : Bytes) : Option CertificateMsg :=
  if data.length < 7 then none else
  let certsLen := get24 (data.getD 4 0) (data.getD 5 0) (data.getD 6 0)
  if data.length ≠ certsLen + 7 then none else
  let d := data.drop 7
  match certCount (d.length + 1) certsLen d with
  | none => none
  | some numCerts => some ⟨certSlices numCerts d⟩

/-- the loop of `marshal`: 3 length bytes (the low 24 bits of the length), then the certificate -/
def certEntries : List Bytes → Bytes
  | [] => []
  | c :: cs => put24 c.length ++ (c ++ certEntries cs)

/-- `certificateMsg.marshal` -/
def marshalCertificate (m : CertificateMsg) : Bytes :=
  let i := totalLen m.certificates
  let length := 3 + 3 * m.certificates.length + i
  let certificateOctets := length - 3
  [11] ++ (put24 length ++ (put24 certificateOctets ++ certEntries m.certificates))

-- serverKeyExchangeMsg ------------------------------------------------------------------------------------

structure ServerKeyExchangeMsg where
  key : Bytes
deriving DecidableEq, Repr

/-- `serverKeyExchangeMsg.unmarshal`: everything after the four header bytes, which are not looked at -/
def unmarshalServerKeyExchange (data : Bytes) : Option ServerKeyExchangeMsg :=
  if data.length < 4 then none else some ⟨data.drop 4⟩

def marshalServerKeyExchange (m : ServerKeyExchangeMsg) : Bytes :=
  [12] ++ (put24 m.key.length ++ m.key)

-- clientKeyExchangeMsg ------------------------------------------------------------------------------------

structure ClientKeyExchangeMsg where
  ciphertext : Bytes
deriving DecidableEq, Repr

/-- `clientKeyExchangeMsg.unmarshal`: the 24-bit header length must be the number of bytes that follow -/
def unmarshalClientKeyExchange (data : Bytes) : Option ClientKeyExchangeMsg :=
  if data.length < 4 then none else
  let l := get24 (data.getD 1 0) (data.getD 2 0) (data.getD 3 0)
  if l ≠ data.length - 4 then none else
  some ⟨data.drop 4⟩

def marshalClientKeyExchange (m : ClientKeyExchangeMsg) : Bytes :=
  [16] ++ (put24 m.ciphertext.length ++ m.ciphertext)

-- finishedMsg ---------------------------------------------------------------------------------------------

structure FinishedMsg where
  verifyData : Bytes
deriving DecidableEq, Repr

/-- `finishedMsg.unmarshal`: everything after the four header bytes, which are not looked at -/
def unmarshalFinished (data : Bytes) : Option FinishedMsg :=
  if data.length < 4 then none else some ⟨data.drop 4⟩

/-- `finishedMsg.marshal`: only the low byte of the length is written (`x[3] = byte(len(m.verifyData))`) -/
def marshalFinished (m : FinishedMsg) : Bytes :=
  [20, 0, 0] ++ (put8 m.verifyData.length ++ m.verifyData)

-- serverHelloDoneMsg, helloRequestMsg ---------------------------------------------------------------------

structure ServerHelloDoneMsg where
deriving DecidableEq, Repr

/-- `return len(data) == 4` -/
def unmarshalServerHelloDone (data : Bytes) : Option ServerHelloDoneMsg :=
  if data.length = 4 then some ⟨⟩ else none

def marshalServerHelloDone (_ : ServerHelloDoneMsg) : Bytes := [14, 0, 0, 0]

structure HelloRequestMsg where
deriving DecidableEq, Repr

/-- `return len(data) == 4` -/
def unmarshalHelloRequest (data : Bytes) : Option HelloRequestMsg :=
  if data.length = 4 then some ⟨⟩ else none

def marshalHelloRequest (_ : HelloRequestMsg) : Bytes := [0, 0, 0, 0]

-- certificateVerifyMsg ------------------------------------------------------------------------------------

/-- `hasSignatureAndHash` is set by the caller before `unmarshal` (TLS 1.2 layout); `signatureAlgorithm` is
    left at 0 in the other layout -/
structure CertificateVerifyMsg where
  hasSignatureAndHash : Bool
  signatureAlgorithm : Nat
  signature : Bytes
deriving DecidableEq, Repr

/-- `certificateVerifyMsg.unmarshal` -/
def unmarshalCertificateVerify (sh : Bool) (data : Bytes) : Option CertificateVerifyMsg :=
  if data.length < 6 then none else
  let length := get24 (data.getD 1 0) (data.getD 2 0) (data.getD 3 0)
  if data.length - 4 ≠ length then none else
  let data := data.drop 4
  let signatureAlgorithm := if sh then get16 (data.getD 0 0) (data.getD 1 0) else 0
  let data := if sh then data.drop 2 else data
  if data.length < 2 then none else
  let siglength := get16 (data.getD 0 0) (data.getD 1 0)
  let data := data.drop 2
  if data.length ≠ siglength then none else
  some ⟨sh, signatureAlgorithm, data⟩

/-- `certificateVerifyMsg.marshal` -/
def marshalCertificateVerify (m : CertificateVerifyMsg) : Bytes :=
  let siglength := m.signature.length
  let length := if m.hasSignatureAndHash then 2 + siglength + 2 else 2 + siglength
  [15] ++ (put24 length ++ ((if m.hasSignatureAndHash then put16 m.signatureAlgorithm else []) ++
    (put16 siglength ++ m.signature)))

-- newSessionTicketMsg -------------------------------------------------------------------------------------

structure NewSessionTicketMsg where
  ticket : Bytes
deriving DecidableEq, Repr

/-- `newSessionTicketMsg.unmarshal`; the four bytes of the lifetime hint (`data[4:8]`) are not looked at -/
def unmarshalNewSessionTicket (data : Bytes) : Option NewSessionTicketMsg :=
  if data.length < 10 then none else
  let length := get24 (data.getD 1 0) (data.getD 2 0) (data.getD 3 0)
  if data.length - 4 ≠ length then none else
  let ticketLen := get16 (data.getD 8 0) (data.getD 9 0)
  if data.length - 10 ≠ ticketLen then none else
  some ⟨data.drop 10⟩

/-- `newSessionTicketMsg.marshal`: lifetime hint zero -/
def marshalNewSessionTicket (m : NewSessionTicketMsg) : Bytes :=
  let ticketLen := m.ticket.length
  let length := 2 + 4 + ticketLen
  [4] ++ (put24 length ++ ([0, 0, 0, 0] ++ (put16 ticketLen ++ m.ticket)))

-- certificateRequestMsg, certificateRequestMsgGM ----------------------------------------------------------

/-- the loop `for len(cas) > 0` over the distinguished names -/
def caLoop : Nat → Bytes → Option (List Bytes)
  | 0, _ => none
  | fuel + 1, cas =>
    if cas.length > 0 then
      if cas.length < 2 then none else
      let caLen := get16 (cas.getD 0 0) (cas.getD 1 0)
      let cas := cas.drop 2
      if cas.length < caLen then none else
      match caLoop fuel (cas.drop caLen) with
      | some l => some (cas.take caLen :: l)
      | none => none
    else some []

/-- the common end of both `unmarshal` methods, from `if len(data) < 2` before `casLength` to the final
    `return len(data) == 0` (the name loop runs before that last check) -/
def unmarshalCAs (data : Bytes) : Option (List Bytes) :=
  if data.length < 2 then none else
  let casLength := get16 (data.getD 0 0) (data.getD 1 0)
  let data := data.drop 2
  if data.length < casLength then none else
  let cas := data.take casLength
  let data := data.drop casLength
  match caLoop (cas.length + 1) cas with
  | none => none
  | some l => if data.length = 0 then some l else none

/-- the common beginning: header length, number of certificate types (not 0, and strictly fewer than the
    bytes that follow), the types; returns the types and the rest.  (`copy(m.certificateTypes, data) !=
    numCertTypes` cannot hold after `len(data) <= numCertTypes` has been excluded.) -/
def unmarshalCertTypes (data : Bytes) : Option (Bytes × Bytes) :=
  if data.length < 5 then none else
  let length := get24 (data.getD 1 0) (data.getD 2 0) (data.getD 3 0)
  if data.length - 4 ≠ length then none else
  let numCertTypes := (data.getD 4 0).toNat
  let data := data.drop 5
  if numCertTypes = 0 ∨ data.length ≤ numCertTypes then none else
  some (data.take numCertTypes, data.drop numCertTypes)

structure CertificateRequestMsg where
  hasSignatureAndHash : Bool
  certificateTypes : Bytes
  supportedSignatureAlgorithms : List Nat
  certificateAuthorities : List Bytes
deriving DecidableEq, Repr

/-- `certificateRequestMsg.unmarshal` (`hasSignatureAndHash` set by the caller) -/
def unmarshalCertificateRequest (sh : Bool) (data : Bytes) : Option CertificateRequestMsg :=
  match unmarshalCertTypes data with
  | none => none
  | some (certificateTypes, data) =>
    if sh then
      if data.length < 2 then none else
      let sigAndHashLen := get16 (data.getD 0 0) (data.getD 1 0)
      let data := data.drop 2
      if sigAndHashLen % 2 ≠ 0 then none else
      if data.length < sigAndHashLen then none else
      let numSigAlgos := sigAndHashLen / 2
      let algs := readU16s numSigAlgos data
      let data := data.drop (2 * numSigAlgos)
      match unmarshalCAs data with
      | none => none
      | some cas => some ⟨true, certificateTypes, algs, cas⟩
    else
      match unmarshalCAs data with
      | none => none
      | some cas => some ⟨false, certificateTypes, [], cas⟩

/-- the name list written by both `marshal` methods: 2 length bytes, then the name -/
def caEntries : List Bytes → Bytes
  | [] => []
  | c :: cs => put16 c.length ++ (c ++ caEntries cs)

/-- `casLength += 2 + len(ca)` -/
def casLength : List Bytes → Nat
  | [] => 0
  | c :: cs => 2 + c.length + casLength cs

/-- `certificateRequestMsg.marshal` -/
def marshalCertificateRequest (m : CertificateRequestMsg) : Bytes :=
  let casLen := casLength m.certificateAuthorities
  let length0 := 1 + m.certificateTypes.length + 2 + casLen
  let length := if m.hasSignatureAndHash then length0 + (2 + 2 * m.supportedSignatureAlgorithms.length) else length0
  [13] ++ (put24 length ++ (put8 m.certificateTypes.length ++ (m.certificateTypes ++
    ((if m.hasSignatureAndHash then
        put16 (m.supportedSignatureAlgorithms.length * 2) ++ writeU16s m.supportedSignatureAlgorithms else []) ++
    (put16 casLen ++ caEntries m.certificateAuthorities)))))

structure CertificateRequestMsgGM where
  certificateTypes : Bytes
  certificateAuthorities : List Bytes
deriving DecidableEq, Repr

/-- `certificateRequestMsgGM.unmarshal` -/
def unmarshalCertificateRequestGM (data : Bytes) : Option CertificateRequestMsgGM :=
  match unmarshalCertTypes data with
  | none => none
  | some (certificateTypes, data) =>
    match unmarshalCAs data with
    | none => none
    | some cas => some ⟨certificateTypes, cas⟩

/-- `certificateRequestMsgGM.marshal` -/
def marshalCertificateRequestGM (m : CertificateRequestMsgGM) : Bytes :=
  let casLen := casLength m.certificateAuthorities
  let length := 1 + m.certificateTypes.length + 2 + casLen
  [13] ++ (put24 length ++ (put8 m.certificateTypes.length ++ (m.certificateTypes ++
    (put16 casLen ++ caEntries m.certificateAuthorities))))

-- certificateStatusMsg ------------------------------------------------------------------------------------

structure CertificateStatusMsg where
  statusType : Nat
  response : Bytes
deriving DecidableEq, Repr

/-- `certificateStatusMsg.unmarshal`: for a status type other than OCSP (1) whatever follows is accepted and
    dropped; the header is not looked at -/
def unmarshalCertificateStatus (data : Bytes) : Option CertificateStatusMsg :=
  if data.length < 5 then none else
  let statusType := (data.getD 4 0).toNat
  if statusType = 1 then
    if data.length < 8 then none else
    let respLen := get24 (data.getD 5 0) (data.getD 6 0) (data.getD 7 0)
    if data.length ≠ 4 + 4 + respLen then none else
    some ⟨statusType, data.drop 8⟩
  else some ⟨statusType, []⟩

/-- `certificateStatusMsg.marshal` -/
def marshalCertificateStatus (m : CertificateStatusMsg) : Bytes :=
  if m.statusType = 1 then
    let l := m.response.length + 4
    [22] ++ (put24 l ++ ([1] ++ (put24 (l - 4) ++ m.response)))
  else [22, 0, 0, 1] ++ put8 m.statusType

-- nextProtoMsg --------------------------------------------------------------------------------------------

structure NextProtoMsg where
  proto : Bytes
deriving DecidableEq, Repr

/-- `nextProtoMsg.unmarshal`: the padding bytes and the header are not looked at -/
def unmarshalNextProto (data : Bytes) : Option NextProtoMsg :=
  if data.length < 5 then none else
  let data := data.drop 4
  let protoLen := (data.getD 0 0).toNat
  let data := data.drop 1
  if data.length < protoLen then none else
  let proto := data.take protoLen
  let data := data.drop protoLen
  if data.length < 1 then none else
  let paddingLen := (data.getD 0 0).toNat
  let data := data.drop 1
  if data.length ≠ paddingLen then none else
  some ⟨proto⟩

/-- `nextProtoMsg.marshal`: at most 255 bytes of the name, zero padding to a multiple of 32 -/
def marshalNextProto (m : NextProtoMsg) : Bytes :=
  let l := if m.proto.length > 255 then 255 else m.proto.length
  let padding := 32 - (l + 2) % 32
  let length := l + padding + 2
  [67] ++ (put24 length ++ (put8 l ++ (m.proto.take l ++ (put8 padding ++ List.replicate padding 0))))

-- loops shared by the hello messages ----------------------------------------------------------------------

/-- a list of strings with one length byte each, none empty, none longer than what is left: the ALPN loop
    of `clientHelloMsg.unmarshal` and the NPN loop of `serverHelloMsg.unmarshal` -/
def protoLoop : Nat → Bytes → Option (List Bytes)
  | 0, _ => none
  | fuel + 1, d =>
    if d.length ≠ 0 then
      let stringLen := (d.getD 0 0).toNat
      let d := d.drop 1
      if stringLen = 0 ∨ stringLen > d.length then none else
      match protoLoop fuel (d.drop stringLen) with
      | some l => some (d.take stringLen :: l)
      | none => none
    else some []

/-- the renegotiation_info extension, the same code in both hellos: `none` = return false -/
def renegInfo (length : Nat) (data : Bytes) : Option Bytes :=
  if length = 0 then none else
  let d := data.take length
  let l := (d.getD 0 0).toNat
  let d := d.drop 1
  if l ≠ d.length then none else some d

/-- `random`, 32 bytes: `copy(x[6:38], m.random)` -/
def random32 (r : Bytes) : Bytes := (r ++ List.replicate 32 0).take 32

/-- the strings written with one length byte each -/
def protoEntries : List Bytes → Bytes
  | [] => []
  | s :: ss => put8 s.length ++ (s ++ protoEntries ss)

-- clientHelloMsg ------------------------------------------------------------------------------------------

structure ClientHelloMsg where
  vers : Nat
  random : Bytes
  sessionId : Bytes
  cipherSuites : List Nat
  compressionMethods : Bytes
  nextProtoNeg : Bool
  serverName : Bytes
  ocspStapling : Bool
  scts : Bool
  supportedCurves : List Nat
  supportedPoints : Bytes
  ticketSupported : Bool
  sessionTicket : Bytes
  supportedSignatureAlgorithms : List Nat
  secureRenegotiation : Bytes
  secureRenegotiationSupported : Bool
  alpnProtocols : List Bytes
deriving DecidableEq, Repr

/-- the loop over the entries of a server_name extension, walked to the end of the list: `none` = return false
    (an entry that does not fit, an empty host name, a second host_name entry), `some acc` = list exhausted, `acc`
    the host_name entry seen (`haveHostName` / `m.serverName`), if any -/
def sniLoop : Nat → Bytes → Option Bytes → Option (Option Bytes)
  | 0, _, _ => none
  | fuel + 1, d, acc =>
    if d.length > 0 then
      if d.length < 3 then none else
      let nameType := d.getD 0 0
      let nameLen := get16 (d.getD 1 0) (d.getD 2 0)
      let d := d.drop 3
      if d.length < nameLen then none else
      if nameType = 0 then
        if nameLen = 0 ∨ acc.isSome then none else sniLoop fuel (d.drop nameLen) (some (d.take nameLen))
      else sniLoop fuel (d.drop nameLen) acc
    else some acc

/-- the loop over `responder_id_list` of an OCSPStatusRequest: 2 length bytes each, none empty; `false` = return
    false -/
def ridLoop : Nat → Bytes → Bool
  | 0, _ => false
  | fuel + 1, ids =>
    if ids.length > 0 then
      if ids.length < 2 then false else
      let idLen := get16 (ids.getD 0 0) (ids.getD 1 0)
      let ids := ids.drop 2
      if idLen = 0 ∨ ids.length < idLen then false else ridLoop fuel (ids.drop idLen)
    else true

/-- the body of a status_request extension of type ocsp after the type byte (`d := data[1:length]`): the
    responder id list, then the request extensions, which end the body -/
def ocspRequestOk (d : Bytes) : Bool :=
  if d.length < 2 then false else
  let idsLen := get16 (d.getD 0 0) (d.getD 1 0)
  let d := d.drop 2
  if d.length < idsLen then false else
  let ids := d.take idsLen
  let d := d.drop idsLen
  if !ridLoop (ids.length + 1) ids then false else
  if d.length < 2 then false else
  let extsLen := get16 (d.getD 0 0) (d.getD 1 0)
  decide (d.length = 2 + extsLen)

/-- one `switch extension { … }` of `clientHelloMsg.unmarshal` with `len(data) ≥ length` checked: the
    message with the fields this extension sets, `none` = return false.  An extension that occurs twice
    overwrites the first occurrence, except ALPN, whose names are appended. -/
def chExtension (m : ClientHelloMsg) (ext length : Nat) (data : Bytes) : Option ClientHelloMsg :=
  if ext = 0 then        -- extensionServerName
    let d := data.take length
    if d.length < 2 then none else
    let namesLen := get16 (d.getD 0 0) (d.getD 1 0)
    let d := d.drop 2
    if d.length ≠ namesLen then none else
    match sniLoop (d.length + 1) d none with
    | none => none
    | some none => some m
    | some (some n) => some { m with serverName := n }
  else if ext = 13172 then   -- extensionNextProtoNeg
    if length > 0 then none else some { m with nextProtoNeg := true }
  else if ext = 5 then   -- extensionStatusRequest
    let ocsp := decide (length > 0 ∧ data.getD 0 0 = 1)
    if ocsp && !ocspRequestOk ((data.take length).drop 1) then none else
    some { m with ocspStapling := ocsp }
  else if ext = 10 then  -- extensionSupportedCurves
    if length < 2 then none else
    let l := get16 (data.getD 0 0) (data.getD 1 0)
    if l % 2 = 1 ∨ length ≠ l + 2 then none else
    some { m with supportedCurves := readU16s (l / 2) (data.drop 2) }
  else if ext = 11 then  -- extensionSupportedPoints
    if length < 1 then none else
    let l := (data.getD 0 0).toNat
    if length ≠ l + 1 then none else
    some { m with supportedPoints := (data.drop 1).take l }
  else if ext = 35 then  -- extensionSessionTicket
    some { m with ticketSupported := true, sessionTicket := data.take length }
  else if ext = 13 then  -- extensionSignatureAlgorithms
    if length < 2 ∨ length % 2 ≠ 0 then none else
    let l := get16 (data.getD 0 0) (data.getD 1 0)
    if l ≠ length - 2 then none else
    some { m with supportedSignatureAlgorithms := readU16s (l / 2) (data.drop 2) }
  else if ext = 65281 then  -- extensionRenegotiationInfo
    match renegInfo length data with
    | none => none
    | some d => some { m with secureRenegotiation := d, secureRenegotiationSupported := true }
  else if ext = 16 then  -- extensionALPN
    if length < 2 then none else
    let l := get16 (data.getD 0 0) (data.getD 1 0)
    if l ≠ length - 2 then none else
    let d := (data.drop 2).take (length - 2)
    match protoLoop (d.length + 1) d with
    | none => none
    | some ps => some { m with alpnProtocols := m.alpnProtocols ++ ps }
  else if ext = 18 then  -- extensionSCT
    if length ≠ 0 then none else some { m with scts := true }
  else some m

/-- `for len(data) != 0 { … }`: the extensions -/
def chExtLoop : Nat → Bytes → ClientHelloMsg → Option ClientHelloMsg
  | 0, _, _ => none
  | fuel + 1, data, m =>
    if data.length ≠ 0 then
      if data.length < 4 then none else
      let ext := get16 (data.getD 0 0) (data.getD 1 0)
      let length := get16 (data.getD 2 0) (data.getD 3 0)
      let data := data.drop 4
      if data.length < length then none else
      match chExtension m ext length data with
      | none => none
      | some m => chExtLoop fuel (data.drop length) m
    else some m

/-- `clientHelloMsg.unmarshal` on a fresh struct.  The header is not looked at; the signalling cipher
    suite 0x00ff sets `secureRenegotiationSupported`. -/
def unmarshalClientHello (data : Bytes) : Option ClientHelloMsg :=
  if data.length < 42 then none else
  let vers := get16 (data.getD 4 0) (data.getD 5 0)
  let random := (data.drop 6).take 32
  let sessionIdLen := (data.getD 38 0).toNat
  if sessionIdLen > 32 ∨ data.length < 39 + sessionIdLen then none else
  let sessionId := (data.drop 39).take sessionIdLen
  let data := data.drop (39 + sessionIdLen)
  if data.length < 2 then none else
  let cipherSuiteLen := get16 (data.getD 0 0) (data.getD 1 0)
  if cipherSuiteLen % 2 = 1 ∨ data.length < 2 + cipherSuiteLen then none else
  let cipherSuites := readU16s (cipherSuiteLen / 2) (data.drop 2)
  let scsv := cipherSuites.any (· = 255)
  let data := data.drop (2 + cipherSuiteLen)
  if data.length < 1 then none else
  let compressionMethodsLen := (data.getD 0 0).toNat
  if data.length < 1 + compressionMethodsLen then none else
  let compressionMethods := (data.drop 1).take compressionMethodsLen
  let data := data.drop (1 + compressionMethodsLen)
  let m : ClientHelloMsg := {
    vers := vers, random := random, sessionId := sessionId, cipherSuites := cipherSuites,
    compressionMethods := compressionMethods, nextProtoNeg := false, serverName := [], ocspStapling := false,
    scts := false, supportedCurves := [], supportedPoints := [], ticketSupported := false, sessionTicket := [],
    supportedSignatureAlgorithms := [], secureRenegotiation := [], secureRenegotiationSupported := scsv,
    alpnProtocols := [] }
  if data.length = 0 then some m else
  if data.length < 2 then none else
  let extensionsLength := get16 (data.getD 0 0) (data.getD 1 0)
  let data := data.drop 2
  if extensionsLength ≠ data.length then none else
  chExtLoop (data.length + 1) data m

/-- the extensions `clientHelloMsg.marshal` writes, in its order, each with its 4-byte header; the Go code
    computes `numExtensions` and `extensionsLength` beforehand from the same field lengths (the sums agree
    with what is written for every field value) -/
def chExtensions (m : ClientHelloMsg) : List Bytes :=
  (if m.nextProtoNeg then [put16 13172 ++ [0, 0]] else []) ++
  (if m.serverName.length > 0 then
    [put16 0 ++ (put16 (m.serverName.length + 5) ++ (put16 (m.serverName.length + 3) ++ ([0] ++
      (put16 m.serverName.length ++ m.serverName))))] else []) ++
  (if m.ocspStapling then [put16 5 ++ [0, 5, 1, 0, 0, 0, 0]] else []) ++
  (if m.supportedCurves.length > 0 then
    [put16 10 ++ (put16 (2 + 2 * m.supportedCurves.length) ++ (put16 (2 * m.supportedCurves.length) ++
      writeU16s m.supportedCurves))] else []) ++
  (if m.supportedPoints.length > 0 then
    [put16 11 ++ (put16 (1 + m.supportedPoints.length) ++ (put8 m.supportedPoints.length ++ m.supportedPoints))] else []) ++
  (if m.ticketSupported then [put16 35 ++ (put16 m.sessionTicket.length ++ m.sessionTicket)] else []) ++
  (if m.supportedSignatureAlgorithms.length > 0 then
    [put16 13 ++ (put16 (2 + 2 * m.supportedSignatureAlgorithms.length) ++
      (put16 (2 * m.supportedSignatureAlgorithms.length) ++ writeU16s m.supportedSignatureAlgorithms))] else []) ++
  (if m.secureRenegotiationSupported then
    [put16 65281 ++ ([0] ++ (put8 (m.secureRenegotiation.length + 1) ++ (put8 m.secureRenegotiation.length ++
      m.secureRenegotiation)))] else []) ++
  (if m.alpnProtocols.length > 0 then
    [put16 16 ++ (put16 ((protoEntries m.alpnProtocols).length + 2) ++ (put16 (protoEntries m.alpnProtocols).length ++
      protoEntries m.alpnProtocols))] else []) ++
  (if m.scts then [put16 18 ++ [0, 0]] else [])

/-- `clientHelloMsg.marshal` (it panics for an ALPN name that is empty or longer than 255 bytes: not
    modelled, `unmarshal` never returns one) -/
def marshalClientHello (m : ClientHelloMsg) : Bytes :=
  let exts := chExtensions m
  let extensionsLength := exts.flatten.length
  let length0 := 2 + 32 + 1 + m.sessionId.length + 2 + m.cipherSuites.length * 2 + 1 + m.compressionMethods.length
  let length := if exts.length > 0 then length0 + (2 + extensionsLength) else length0
  [1] ++ (put24 length ++ (put16 m.vers ++ (random32 m.random ++ (put8 m.sessionId.length ++ (m.sessionId ++
    ([BitVec.ofNat 8 (m.cipherSuites.length / 128), BitVec.ofNat 8 (m.cipherSuites.length * 2)] ++
    (writeU16s m.cipherSuites ++ (put8 m.compressionMethods.length ++ (m.compressionMethods ++
    (if exts.length > 0 then put16 extensionsLength ++ exts.flatten else []))))))))))

-- serverHelloMsg ------------------------------------------------------------------------------------------

structure ServerHelloMsg where
  vers : Nat
  random : Bytes
  sessionId : Bytes
  cipherSuite : Nat
  compressionMethod : Nat
  nextProtoNeg : Bool
  nextProtos : List Bytes
  ocspStapling : Bool
  scts : List Bytes
  ticketSupported : Bool
  secureRenegotiation : Bytes
  secureRenegotiationSupported : Bool
  alpnProtocol : Bytes
deriving DecidableEq, Repr

/-- the loop over the entries of the SCT list: 2 length bytes each, none empty -/
def sctLoop : Nat → Bytes → Option (List Bytes)
  | 0, _ => none
  | fuel + 1, d =>
    if d.length ≠ 0 then
      if d.length < 2 then none else
      let sctLen := get16 (d.getD 0 0) (d.getD 1 0)
      let d := d.drop 2
      if sctLen = 0 ∨ d.length < sctLen then none else
      match sctLoop fuel (d.drop sctLen) with
      | some l => some (d.take sctLen :: l)
      | none => none
    else some []

/-- one `switch extension { … }` of `serverHelloMsg.unmarshal` with `len(data) ≥ length` checked.  A second
    NPN extension appends to the names of the first, a second SCT extension replaces the list. -/
def shExtension (m : ServerHelloMsg) (ext length : Nat) (data : Bytes) : Option ServerHelloMsg :=
  if ext = 13172 then   -- extensionNextProtoNeg
    let d := data.take length
    match protoLoop (d.length + 1) d with
    | none => none
    | some ps => some { m with nextProtoNeg := true, nextProtos := m.nextProtos ++ ps }
  else if ext = 5 then   -- extensionStatusRequest
    if length > 0 then none else some { m with ocspStapling := true }
  else if ext = 35 then  -- extensionSessionTicket
    if length > 0 then none else some { m with ticketSupported := true }
  else if ext = 65281 then  -- extensionRenegotiationInfo
    match renegInfo length data with
    | none => none
    | some d => some { m with secureRenegotiation := d, secureRenegotiationSupported := true }
  else if ext = 16 then  -- extensionALPN
    let d := data.take length
    if d.length < 3 then none else
    let l := get16 (d.getD 0 0) (d.getD 1 0)
    if l ≠ d.length - 2 then none else
    let d := d.drop 2
    let l := (d.getD 0 0).toNat
    if l ≠ d.length - 1 then none else
    let d := d.drop 1
    if d.length = 0 then none else
    some { m with alpnProtocol := d }
  else if ext = 18 then  -- extensionSCT
    let d := data.take length
    if d.length < 2 then none else
    let l := get16 (d.getD 0 0) (d.getD 1 0)
    let d := d.drop 2
    if d.length ≠ l ∨ l = 0 then none else
    match sctLoop (d.length + 1) d with
    | none => none
    | some ss => some { m with scts := ss }
  else some m

/-- `for len(data) != 0 { … }`: the extensions -/
def shExtLoop : Nat → Bytes → ServerHelloMsg → Option ServerHelloMsg
  | 0, _, _ => none
  | fuel + 1, data, m =>
    if data.length ≠ 0 then
      if data.length < 4 then none else
      let ext := get16 (data.getD 0 0) (data.getD 1 0)
      let length := get16 (data.getD 2 0) (data.getD 3 0)
      let data := data.drop 4
      if data.length < length then none else
      match shExtension m ext length data with
      | none => none
      | some m => shExtLoop fuel (data.drop length) m
    else some m

/-- `serverHelloMsg.unmarshal` on a fresh struct; the header is not looked at -/
def unmarshalServerHello (data : Bytes) : Option ServerHelloMsg :=
  if data.length < 42 then none else
  let vers := get16 (data.getD 4 0) (data.getD 5 0)
  let random := (data.drop 6).take 32
  let sessionIdLen := (data.getD 38 0).toNat
  if sessionIdLen > 32 ∨ data.length < 39 + sessionIdLen then none else
  let sessionId := (data.drop 39).take sessionIdLen
  let data := data.drop (39 + sessionIdLen)
  if data.length < 3 then none else
  let cipherSuite := get16 (data.getD 0 0) (data.getD 1 0)
  let compressionMethod := (data.getD 2 0).toNat
  let data := data.drop 3
  let m : ServerHelloMsg := {
    vers := vers, random := random, sessionId := sessionId, cipherSuite := cipherSuite,
    compressionMethod := compressionMethod, nextProtoNeg := false, nextProtos := [], ocspStapling := false,
    scts := [], ticketSupported := false, secureRenegotiation := [], secureRenegotiationSupported := false,
    alpnProtocol := [] }
  if data.length = 0 then some m else
  if data.length < 2 then none else
  let extensionsLength := get16 (data.getD 0 0) (data.getD 1 0)
  let data := data.drop 2
  if data.length ≠ extensionsLength then none else
  shExtLoop (data.length + 1) data m

/-- the NPN names as `marshal` writes them: at most 255 bytes of each -/
def npnEntries : List Bytes → Bytes
  | [] => []
  | v :: vs =>
    let l := if v.length > 255 then 255 else v.length
    put8 l ++ (v.take l ++ npnEntries vs)

/-- the SCT list entries: 2 length bytes, then the SCT -/
def sctEntries : List Bytes → Bytes
  | [] => []
  | s :: ss => put16 s.length ++ (s ++ sctEntries ss)

/-- `sctLen += len(sct) + 2` -/
def sctTotal : List Bytes → Nat
  | [] => 0
  | s :: ss => s.length + 2 + sctTotal ss

/-- what `serverHelloMsg.marshal` writes for the extensions, in its order.  The NPN extension is accounted
    with the full name lengths (`nextProtoLen`) but written with names cut to 255 bytes. -/
def shExtensions (m : ServerHelloMsg) : List Bytes :=
  let nextProtoLen := totalLen m.nextProtos + m.nextProtos.length
  (if m.nextProtoNeg then [put16 13172 ++ (put16 nextProtoLen ++ npnEntries m.nextProtos)] else []) ++
  (if m.ocspStapling then [put16 5 ++ [0, 0]] else []) ++
  (if m.ticketSupported then [put16 35 ++ [0, 0]] else []) ++
  (if m.secureRenegotiationSupported then
    [put16 65281 ++ ([0] ++ (put8 (m.secureRenegotiation.length + 1) ++ (put8 m.secureRenegotiation.length ++
      m.secureRenegotiation)))] else []) ++
  (if m.alpnProtocol.length > 0 then
    [put16 16 ++ (put16 (2 + 1 + m.alpnProtocol.length) ++ (put16 (1 + m.alpnProtocol.length) ++
      (put8 m.alpnProtocol.length ++ m.alpnProtocol)))] else []) ++
  (if sctTotal m.scts > 0 then
    [put16 18 ++ (put16 (sctTotal m.scts + 2) ++ (put16 (sctTotal m.scts) ++ sctEntries m.scts))] else [])

/-- `extensionsLength` as `serverHelloMsg.marshal` computes it (without the `4 * numExtensions`) -/
def shExtensionsLength (m : ServerHelloMsg) : Nat :=
  (if m.nextProtoNeg then totalLen m.nextProtos + m.nextProtos.length else 0) +
  (if m.secureRenegotiationSupported then 1 + m.secureRenegotiation.length else 0) +
  (if m.alpnProtocol.length > 0 then 2 + 1 + m.alpnProtocol.length else 0) +
  (if m.scts.length > 0 then 2 + sctTotal m.scts else 0)

/-- `numExtensions` -/
def shNumExtensions (m : ServerHelloMsg) : Nat :=
  (if m.nextProtoNeg then 1 else 0) + (if m.ocspStapling then 1 else 0) + (if m.ticketSupported then 1 else 0) +
  (if m.secureRenegotiationSupported then 1 else 0) + (if m.alpnProtocol.length > 0 then 1 else 0) +
  (if m.scts.length > 0 then 1 else 0)

/-- `serverHelloMsg.marshal`: the buffer is allocated with the computed length and filled front to back;
    with an NPN name longer than 255 bytes less is written than was allocated and zero bytes remain at the
    end (it panics for an ALPN name of 256 bytes or more: not modelled) -/
def marshalServerHello (m : ServerHelloMsg) : Bytes :=
  let numExtensions := shNumExtensions m
  let extensionsLength := shExtensionsLength m + 4 * numExtensions
  let length0 := 38 + m.sessionId.length
  let length := if numExtensions > 0 then length0 + (2 + extensionsLength) else length0
  let written := [2] ++ (put24 length ++ (put16 m.vers ++ (random32 m.random ++ (put8 m.sessionId.length ++ (m.sessionId ++
    (put16 m.cipherSuite ++ (put8 m.compressionMethod ++
    (if numExtensions > 0 then put16 extensionsLength ++ (shExtensions m).flatten else []))))))))
  written ++ List.replicate (4 + length - written.length) 0

end Model.TLSMessages
