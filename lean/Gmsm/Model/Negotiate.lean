/-
Model of what a gmtls client and server agree on (or fail to), as the code decides it: mode dispatch in
`Conn.Handshake` / `serverHandshakeAutoSwitch`, `Config.mutualVersion`, ClientHello construction
(`makeClientHelloGM` / `makeClientHello`), the server's suite choice (`processClientHelloGM`,
`readClientHello`, `setCipherSuite`) and the client-certificate policy (`doFullHandshake`,
`processCertsFromClient`, the clients' `getCertificate`).  Core Lean only; executable.
-/
import Gmsm.Model.Suites
namespace Model.Negotiate
open Model.Suites

inductive SMode | gm | auto | tls
deriving DecidableEq, Repr

/-- client kinds: GMSSL client, or a TLS client with the given maximum version (0x0301..0x0303) -/
inductive CKind | gm | tls (maxv : Nat)
deriving DecidableEq, Repr

structure Params where
  mode : SMode
  client : CKind
  csuites : Option (List Suite)   -- client `CipherSuites`
  ssuites : Option (List Suite)   -- server `CipherSuites`
  prefer : Bool                   -- `PreferServerCipherSuites`
  auth : Nat                      -- `ClientAuth` 0..4
  ccert : Nat                     -- 0 none; 1 certificate under the server's client CA; 2 from another CA (sent regardless)
  scert : CertKind                -- key of the server's TLS certificate (auto mode: RSA)
deriving Repr

inductive Outcome
  | ok (vers : Nat) (suite : Suite) (ccerts : Nat)
  | fail
deriving DecidableEq, Repr

/-- ClientHello (version, suites).  GMSSL client (`makeClientHelloGM`, repaired): the configured ids, in order, that
    have a row in `gmCipherSuites` and are not ECDHE suites (before the repair: every id with a row, so the default
    hello advertised e011 / e051 although the client can never complete that key exchange). -/
def hello (p : Params) : Nat × List Suite :=
  match p.client with
  | .gm => (Gen.TLS.versionGMSSL, (p.csuites.getD gmDefaultList).filter gmClientKx)
  | .tls v => (v, (p.csuites.getD tlsDefaultList).filter (fun s =>
      match tlsRow s with
      | some (_, _, _, tls12, _) => !tls12 || decide (v ≥ Gen.TLS.versionTLS12)
      | none => false))

/-- what the suite list of a GMSSL client's ClientHello is for a configured `CipherSuites` (none = default) -/
def gmOffer (cs : Option (List Suite)) : List Suite :=
  (hello ⟨.gm, .gm, cs, none, false, 0, 0, .rsa⟩).2

/-- an independent GM/T 0024 server with its own preference order: the first suite of its order that the
    ClientHello offers (it may implement both key exchanges, so nothing else restricts it) -/
def peerSelect (pref offer : List Suite) : Option Suite :=
  pref.find? (fun s => offer.contains s)

/-- what the GMSSL client does with the suite of a ServerHello: `pickCipherSuite` refuses a suite that is not in
    its own hello ("server chose an unconfigured cipher suite"); for a suite of its hello the key exchange either
    can be completed, or is one the client must refuse (`ecdheKeyAgreementGM.processServerKeyExchange`) -/
inductive Meets | unconfigured | proceeds | refusesKx
deriving DecidableEq, Repr

def clientMeets (offer : List Suite) (sel : Suite) : Meets :=
  if !offer.contains sel then .unconfigured
  else if gmClientKx sel then .proceeds else .refusesKx

/-- `Config.mutualVersion` with default Min/MaxVersion -/
def mutualVersion (v : Nat) : Option Nat :=
  if v < Gen.TLS.minVersion then none
  else if v > Gen.TLS.versionGMSSL ∧ v < Gen.TLS.versionSSL30 then none
  else some (if v > Gen.TLS.maxVersion then Gen.TLS.maxVersion else v)

inductive Path | gm | tls | reject
deriving DecidableEq, Repr

/-- which handshake the server runs for a ClientHello version -/
def dispatch (m : SMode) (v : Nat) : Path :=
  match m with
  | .gm => if v = Gen.TLS.versionGMSSL then .gm else .reject  -- repaired: the GMSSL handshake serves 0x0101 only
  | .tls => .tls
  | .auto =>
    if v = Gen.TLS.versionGMSSL then .gm
    else if v = Gen.TLS.versionSSL30 ∨ v = Gen.TLS.versionTLS10 ∨ v = Gen.TLS.versionTLS11 ∨ v = Gen.TLS.versionTLS12 then .tls
    else .reject

/-- the client-certificate exchange: none = handshake fails, some n = n certificates accepted -/
def clientAuth (auth ccert : Nat) : Option Nat :=
  let sent := decide (auth ≥ 1) && ccert != 0
  if (auth == 2 || auth == 4) && !sent then none
  else if sent && decide (auth ≥ 3) && ccert != 1 then none
  else some (if sent then 1 else 0)

def negotiate (p : Params) : Outcome :=
  let (cv, cs) := hello p
  match dispatch p.mode cv, mutualVersion cv with
  | .reject, _ => .fail
  | _, none => .fail
  | .gm, some v =>
    let sl := p.ssuites.getD gmDefaultList
    let pickd := if p.prefer then pick sl cs gmServable else pick cs sl gmServable
    match pickd with
    | none => .fail
    | some s =>
      -- the GMSSL client insists on version 0x0101 in the ServerHello
      if v ≠ Gen.TLS.versionGMSSL ∨ p.client ≠ .gm then .fail
      else match clientAuth p.auth p.ccert with
        | none => .fail
        | some n => .ok v s n
  | .tls, some v =>
    let sl := p.ssuites.getD tlsDefaultList
    let okS := tlsServable p.scert v
    let pickd := if p.prefer then pick sl cs okS else pick cs sl okS
    match pickd with
    | none => .fail
    | some s =>
      if p.client = .gm then .fail
      else match clientAuth p.auth p.ccert with
        | none => .fail
        | some n => .ok v s n

end Model.Negotiate
