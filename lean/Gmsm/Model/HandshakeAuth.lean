/-
Decision model of the authentication performed by the GM/T 0024 full handshake of gmtls
(ECC key exchange, suites 0xe013 / 0xe053):

  client  gm_handshake_client_double.go `handshake`/`doFullHandshake`/`readFinished`,
          gm_key_agreement.go `eccKeyAgreementGM.processServerKeyExchange`/`generateClientKeyExchange`
  server  gm_handshake_server_double.go `readClientHello`/`doFullHandshake`/`processCertsFromClient`/
          `readFinished`, gm_key_agreement.go `generateServerKeyExchange`/`processClientKeyExchange`

Each side's acceptance is the conjunction of the checks the code performs, listed in the order the code
performs them (`clientChecks`, `serverChecks`), over an abstract view of what that side received.  The
messages a side sends, and the transcript it hashes, are computed from its configuration and its view, so
"the two sides saw the same handshake" is an equation between two message lists.

Cryptographic primitives are parameters (`Prims`): certificate parsing, signature creation / verification,
public-key encryption / decryption, the master-secret derivation, the transcript hash and the Finished PRF.
Opaque values (signatures, ciphertexts, digests, secrets) are `Val = List Nat`; randoms, DER encodings
and keys are identified by numbers.  Chain verification is `Model.X509.verify` (property C10).

Not modelled: session resumption and tickets, renegotiation, the ECDHE suites (not implemented by the
server), OCSP / SCT / ALPN extensions (opaque `ext`), the `VerifyPeerCertificate` callback (not configured).
Core Lean only; executable.
-/
import Gmsm.Model.X509Verify
namespace Model.HandshakeAuth
open Model

abbrev Key := Nat
abbrev Val := List Nat

/-- a peer certificate after `x509.ParseCertificate`: the fields `Verify` reads plus the key family -/
structure PCert where
  x : X509.Cert
  sm2 : Bool            -- `cert.PublicKey.(*ecdsa.PublicKey)` with `Curve == sm2.P256Sm2()`
deriving Repr, DecidableEq

/-- What a handshake signature covers, kept structured so that "other randoms", "other certificate" and
    "other transcript" are different values.
    `ske cr sr e`  = client_random ‖ server_random ‖ uint24 len ‖ encryption certificate (`hashForServerKeyExchange`)
    `transcript d` = the SM3 digest of the handshake messages so far (CertificateVerify) -/
inductive Signed
  | ske (clientRandom serverRandom encCert : Nat)
  | transcript (digest : Val)
  | other (v : Val)
deriving DecidableEq, Repr

inductive Role | client | server
deriving DecidableEq, Repr

structure CHello where
  vers : Nat
  random : Nat
  sid : Nat
  suites : List Nat
  comps : List Nat
  ext : Nat
deriving DecidableEq, Repr

structure SHello where
  vers : Nat
  random : Nat
  sid : Nat
  suite : Nat
  comp : Nat
  ext : Nat
deriving DecidableEq, Repr

/-- handshake messages as they enter the transcript hash (`finishedHash.Write(msg.marshal())`) -/
inductive Msg
  | clientHello (h : CHello)
  | serverHello (h : SHello)
  | certificate (ders : List Nat)
  | serverKeyExchange (sig : Val)
  | certificateRequest (types cas : Nat)
  | serverHelloDone
  | clientKeyExchange (cipher : Val)
  | certificateVerify (sig : Val)
  | finished (verifyData : Val)
deriving DecidableEq, Repr

structure Prims where
  parse : Nat → Option PCert                 -- x509.ParseCertificate on a DER encoding
  sign : Key → Signed → Val                   -- with the private key of the pair
  sigOK : Key → Signed → Val → Bool           -- with the public key of the pair
  enc : Key → Val → Val                       -- SM2 encryption to the public key
  dec : Key → Val → Option Val                -- SM2 decryption with the private key
  master : Val → Nat → Nat → Val              -- masterFromPreMasterSecret(pre-master, client_random, server_random)
  hash : List Msg → Val                       -- SM3 over the concatenated messages
  prf : Val → Role → Val → Val                -- verify_data = PRF(master, label, digest)

def versionGMSSL : Nat := 0x0101
def eccSuites : List Nat := [0xe013, 0xe053]
def gmSuites : List Nat := [0xe013, 0xe053, 0xe011, 0xe051]

inductive Reason
  | protocolVersion | suite | compression | unexpectedMessage | certCount | parse | keyType | keyUsage | chain
  | skeSignature | noCertificate | keyExchange | certVerify | finished
deriving DecidableEq, Repr

/-- first failing check of an ordered list (`none` = all passed) -/
def firstFailure : List (Reason × Bool) → Option Reason
  | [] => none
  | (r, ok) :: rest => if ok then firstFailure rest else some r

def allPass (l : List (Reason × Bool)) : Bool := l.all (·.2)

/-- `Certificate.Verify(opts)` returned chains -/
def chainOK (roots inters : List X509.Cert) (leaf : X509.Cert) (o : X509.Opts) : Bool :=
  match X509.verify roots inters leaf o with
  | .ok _ => true
  | _ => false

-- client -----------------------------------------------------------------------------------------------------

structure Client where
  insecureSkipVerify : Bool
  roots : List X509.Cert         -- Config.RootCAs
  opts : X509.Opts               -- CurrentTime = Config.Time(), DNSName = Config.ServerName, no usages (⇒ serverAuth)
  suites : List Nat              -- offered cipher suites
  ext : Nat                      -- extensions of its ClientHello (server_name)
  cert : List Nat                -- the chain `getCertificate` yields when a certificate is requested ([] = none)
  key : Key                      -- the private key it signs CertificateVerify with
  random : Nat                   -- this session's client_random
  pms : Val                      -- this session's pre-master secret

/-- what the client received -/
structure ClientView where
  sh : SHello
  ders : List Nat                -- the server's Certificate message
  ske : Option Val               -- ServerKeyExchange signature (`none`: the message did not come)
  certReq : Option (Nat × Nat)   -- CertificateRequest
  done : Bool                    -- ServerHelloDone came
  fin : Option Val               -- verify_data of the server's Finished (`none`: none came, or the record layer refused it)
  inOrder : Bool := true         -- no message of another type (or a duplicate) arrived where these were read

def Client.hello (c : Client) : CHello := ⟨versionGMSSL, c.random, 0, c.suites, [0], c.ext⟩

def certAt (P : Prims) (ders : List Nat) (i : Nat) : Option PCert := (ders[i]?).bind P.parse

/-- key-usage test of `doFullHandshake`: position 0 signs, position 1 enciphers, further positions are not tested.
    Go bit values: digitalSignature 1, contentCommitment 2, keyEncipherment 4, dataEncipherment 8, keyAgreement 16. -/
def kuOK (i : Nat) (c : PCert) : Bool :=
  match i with
  | 0 => c.x.keyUsage &&& 3 != 0
  | 1 => c.x.keyUsage &&& 28 != 0
  | _ => true

/-- the loop over the certificate list: parse, SM2 key, key usage — per certificate, in that order -/
def peerCertsCheck (P : Prims) : Nat → List Nat → Option Reason
  | _, [] => none
  | i, d :: ds =>
    match P.parse d with
    | none => some .parse
    | some c =>
      if !c.sm2 then some .keyType
      else if !kuOK i c then some .keyUsage
      else peerCertsCheck P (i + 1) ds

/-- the Intermediates pool of `doFullHandshake`: every certificate of the server's message after the first two
    (GM/T 0024: signing certificate, encryption certificate, CA chain), pooled BEFORE the two end-entity
    certificates are verified (repaired: the pool used to be filled only after them, i.e. it was empty) -/
def serverInters (P : Prims) (ders : List Nat) : List X509.Cert :=
  (ders.drop 2).filterMap fun r => (P.parse r).map (·.x)

/-- `certs[i].Verify(opts)` for i = 0, 1: roots = Config.RootCAs, intermediates = the rest of the message -/
def serverChainOK (P : Prims) (c : Client) (ders : List Nat) (i : Nat) : Bool :=
  match certAt P ders i with
  | some p => chainOK c.roots (serverInters P ders) p.x c.opts
  | none => false

/-- `processServerKeyExchange`: the signature verifies under the key of certificate 0 over this session's
    randoms and the encryption certificate this client received -/
def skeOK (P : Prims) (c : Client) (v : ClientView) : Bool :=
  match v.ske, certAt P v.ders 0, v.ders[1]? with
  | some sig, some s, some encDer => P.sigOK s.x.key (.ske c.random v.sh.random encDer) sig
  | _, _, _ => false

/-- messages up to ServerHelloDone as the client hashed them -/
def clientT0 (c : Client) (v : ClientView) : List Msg :=
  [.clientHello c.hello, .serverHello v.sh, .certificate v.ders] ++
  (v.ske.map Msg.serverKeyExchange).toList ++
  (v.certReq.map fun r => Msg.certificateRequest r.1 r.2).toList ++
  (if v.done then [.serverHelloDone] else [])

def encKeyOf (P : Prims) (v : ClientView) : Key := ((certAt P v.ders 1).map (·.x.key)).getD 0

/-- … plus its Certificate (when requested) and ClientKeyExchange: the pre-master secret encrypted to the key
    of certificate 1 -/
def clientT1 (P : Prims) (c : Client) (v : ClientView) : List Msg :=
  clientT0 c v ++ (if v.certReq.isSome then [.certificate c.cert] else []) ++
  [.clientKeyExchange (P.enc (encKeyOf P v) c.pms)]

def clientSendsCV (c : Client) (v : ClientView) : Bool := v.certReq.isSome && !c.cert.isEmpty

def clientCV (P : Prims) (c : Client) (v : ClientView) : Option Val :=
  if clientSendsCV c v then some (P.sign c.key (.transcript (P.hash (clientT1 P c v)))) else none

def clientT2 (P : Prims) (c : Client) (v : ClientView) : List Msg :=
  clientT1 P c v ++ ((clientCV P c v).map Msg.certificateVerify).toList

def clientMaster (P : Prims) (c : Client) (v : ClientView) : Val := P.master c.pms c.random v.sh.random

def clientFinished (P : Prims) (c : Client) (v : ClientView) : Val :=
  P.prf (clientMaster P c v) .client (P.hash (clientT2 P c v))

/-- the client's view of the handshake: everything up to and including its own Finished -/
def clientTranscript (P : Prims) (c : Client) (v : ClientView) : List Msg :=
  clientT2 P c v ++ [.finished (clientFinished P c v)]

def expectedServerFinished (P : Prims) (c : Client) (v : ClientView) : Val :=
  P.prf (clientMaster P c v) .server (P.hash (clientTranscript P c v))

/-- the checks before the client answers (everything `doFullHandshake` verifies) -/
def clientChecks1 (P : Prims) (c : Client) (v : ClientView) : List (Reason × Bool) :=
  [ (.protocolVersion, v.sh.vers == versionGMSSL),
    (.suite, c.suites.contains v.sh.suite && eccSuites.contains v.sh.suite),
    (.compression, v.sh.comp == 0),
    (.unexpectedMessage, !v.ders.isEmpty),
    (.certCount, decide (2 ≤ v.ders.length)),
    ((peerCertsCheck P 0 v.ders).getD .parse, (peerCertsCheck P 0 v.ders).isNone),
    (.chain, c.insecureSkipVerify || serverChainOK P c v.ders 0),
    (.chain, c.insecureSkipVerify || serverChainOK P c v.ders 1),
    (.unexpectedMessage, v.ske.isSome),
    (.skeSignature, skeOK P c v),
    (.unexpectedMessage, v.done && v.inOrder) ]

def clientChecks (P : Prims) (c : Client) (v : ClientView) : List (Reason × Bool) :=
  clientChecks1 P c v ++ [ (.finished, v.fin == some (expectedServerFinished P c v)) ]

/-- the client reaches the point where it sends ClientKeyExchange / Finished -/
def clientProceeds (P : Prims) (c : Client) (v : ClientView) : Bool := allPass (clientChecks1 P c v)

/-- `Conn.Handshake()` returns nil on the client -/
def clientAccepts (P : Prims) (c : Client) (v : ClientView) : Bool := allPass (clientChecks P c v)

def clientVerdict (P : Prims) (c : Client) (v : ClientView) : Option Reason := firstFailure (clientChecks P c v)

-- server -----------------------------------------------------------------------------------------------------

inductive Policy
  | noClientCert | requestClientCert | requireAnyClientCert | verifyClientCertIfGiven | requireAndVerifyClientCert
deriving DecidableEq, Repr

def Policy.requests : Policy → Bool | .noClientCert => false | _ => true
def Policy.requires : Policy → Bool | .requireAnyClientCert | .requireAndVerifyClientCert => true | _ => false
def Policy.verifies : Policy → Bool | .verifyClientCertIfGiven | .requireAndVerifyClientCert => true | _ => false

/-- the de-duplicating loop of `gmCertificateList`: append to `acc` every entry of the list that `acc` does not hold yet -/
def dedupInto (acc : List Nat) : List Nat → List Nat
  | [] => acc
  | d :: ds => if acc.contains d then dedupInto acc ds else dedupInto (acc ++ [d]) ds

/-- `gmCertificateList` (gm_handshake_server_double.go): the Certificate message of a GMSSL server for its
    configured key pairs `chains` (`Config.Certificates[i].Certificate`, or the two chains the callbacks returned):
    the first certificate of chain 0 (signing), the first certificate of chain 1 (encryption), then the remaining
    certificates of both chains and all further entries, each once (repaired: the chains used to be concatenated, which
    put the CA certificate of the signing chain where the peer expects the encryption certificate) -/
def certList (chains : List (List Nat)) : List Nat :=
  (chains.take 2).filterMap List.head? ++
    dedupInto [] (((chains.take 2).map List.tail ++ chains.drop 2).flatten)

structure Server where
  certs : List Nat               -- the Certificate message: `certList` of the configured chains
  encDer : Nat                   -- Certificates[1].Certificate[0], which its key-exchange signature covers
  signKey : Key                  -- Certificates[0].PrivateKey
  decKey : Key                   -- Certificates[1].PrivateKey
  clientAuth : Policy
  clientCAs : List X509.Cert
  now : Int                      -- Config.Time()
  suites : List Nat
  random : Nat                   -- this session's server_random
  ext : Nat
  certReq : Nat × Nat            -- certificate types, CA names of its CertificateRequest

/-- what the server received -/
structure ServerView where
  ch : CHello
  cert : Option (List Nat)       -- the client's Certificate message (`none`: not sent)
  cke : Option Val               -- ClientKeyExchange ciphertext
  cv : Option Val                -- CertificateVerify signature
  fin : Option Val               -- verify_data of the client's Finished
  inOrder : Bool := true         -- no message of another type (or a duplicate) arrived where these were read

/-- `Config.mutualVersion` with the default bounds (min GMSSL 0x0101, max TLS 1.2) -/
def mutualVersion (v : Nat) : Option Nat :=
  if v < 0x0101 then none
  else if v > 0x0101 && v < 0x0300 then none
  else some (min v 0x0303)

/-- client preference order (`PreferServerCipherSuites` unset) -/
def pickSuite (s : Server) (ch : CHello) : Option Nat :=
  ch.suites.find? fun id => s.suites.contains id && gmSuites.contains id

def Server.hello (s : Server) (ch : CHello) : SHello :=
  ⟨(mutualVersion ch.vers).getD 0, s.random, 0, (pickSuite s ch).getD 0, 0, s.ext⟩

def serverSKE (P : Prims) (s : Server) (ch : CHello) : Val := P.sign s.signKey (.ske ch.random s.random s.encDer)

/-- the server's first flight -/
def serverFlight (P : Prims) (s : Server) (ch : CHello) : List Msg :=
  [.serverHello (s.hello ch), .certificate s.certs, .serverKeyExchange (serverSKE P s ch)] ++
  (if s.clientAuth.requests then [.certificateRequest s.certReq.1 s.certReq.2] else []) ++ [.serverHelloDone]

def serverT0 (P : Prims) (s : Server) (v : ServerView) : List Msg := .clientHello v.ch :: serverFlight P s v.ch

def serverT1 (P : Prims) (s : Server) (v : ServerView) : List Msg :=
  serverT0 P s v ++ (v.cert.map Msg.certificate).toList ++ (v.cke.map Msg.clientKeyExchange).toList

def serverT2 (P : Prims) (s : Server) (v : ServerView) : List Msg :=
  serverT1 P s v ++ (v.cv.map Msg.certificateVerify).toList

def serverMaster (P : Prims) (s : Server) (v : ServerView) : Option Val :=
  (v.cke.bind (P.dec s.decKey)).map fun pms => P.master pms v.ch.random s.random

def expectedClientFinished (P : Prims) (s : Server) (v : ServerView) : Option Val :=
  (serverMaster P s v).map fun m => P.prf m .client (P.hash (serverT2 P s v))

/-- the server's view of the handshake up to and including the client's Finished -/
def serverTranscript (P : Prims) (s : Server) (v : ServerView) : List Msg :=
  serverT2 P s v ++ (v.fin.map Msg.finished).toList

def serverFinished (P : Prims) (s : Server) (v : ServerView) : Val :=
  P.prf ((serverMaster P s v).getD []) .server (P.hash (serverTranscript P s v))

def allParse (P : Prims) (ders : List Nat) : Bool := ders.all fun d => (P.parse d).isSome

/-- `certs[0].Verify` in `processCertsFromClient`: roots = ClientCAs, intermediates = the rest of the list,
    no host name, ExtKeyUsage clientAuth (2) -/
def clientChainOK (P : Prims) (s : Server) (ders : List Nat) : Bool :=
  match ders with
  | [] => false
  | d :: rest =>
    match P.parse d with
    | some leaf => chainOK s.clientCAs (rest.filterMap fun r => (P.parse r).map (·.x)) leaf.x ⟨s.now, "", false, "", [2]⟩
    | none => false

/-- the certificate part of the server's decision (policy × what the client presented) -/
def certPolicyChecks (P : Prims) (s : Server) (cert : Option (List Nat)) : List (Reason × Bool) :=
  let ders := cert.getD []
  [ (.unexpectedMessage, s.clientAuth.requests == cert.isSome),
    (.noCertificate, !(s.clientAuth.requires && ders.isEmpty)),
    (.parse, allParse P ders),
    (.chain, !(s.clientAuth.verifies && !ders.isEmpty) || clientChainOK P s ders) ]

def certPolicyOK (P : Prims) (s : Server) (cert : Option (List Nat)) : Bool := allPass (certPolicyChecks P s cert)

/-- CertificateVerify is read exactly when the client presented a certificate; it must verify under that
    certificate's key over the digest of the server's own transcript -/
def cvOK (P : Prims) (s : Server) (v : ServerView) : Bool :=
  match v.cert.getD [] with
  | [] => v.cv.isNone
  | d :: _ =>
    match v.cv, P.parse d with
    | some sig, some leaf => P.sigOK leaf.x.key (.transcript (P.hash (serverT1 P s v))) sig
    | _, _ => false

/-- `readClientHello` and the server's first flight (an ECDHE suite fails in `generateServerKeyExchange`) -/
def serverHelloChecks (s : Server) (ch : CHello) : List (Reason × Bool) :=
  [ (.protocolVersion, (mutualVersion ch.vers).isSome),
    (.compression, ch.comps.contains 0),
    (.suite, (pickSuite s ch).isSome),
    (.keyExchange, eccSuites.contains ((pickSuite s ch).getD 0)) ]

def serverChecks (P : Prims) (s : Server) (v : ServerView) : List (Reason × Bool) :=
  serverHelloChecks s v.ch ++ certPolicyChecks P s v.cert ++
  [ (.unexpectedMessage, v.cke.isSome && v.inOrder),
    (.keyExchange, (serverMaster P s v).isSome),
    (.certVerify, cvOK P s v),
    (.unexpectedMessage, v.fin.isSome),
    (.finished, v.fin.isSome && v.fin == expectedClientFinished P s v) ]

/-- `Conn.Handshake()` returns nil on the server -/
def serverAccepts (P : Prims) (s : Server) (v : ServerView) : Bool := allPass (serverChecks P s v)

def serverVerdict (P : Prims) (s : Server) (v : ServerView) : Option Reason := firstFailure (serverChecks P s v)

-- one connection -----------------------------------------------------------------------------------------------

/-- the client's second flight (before ChangeCipherSpec) -/
structure ClientFlight where
  cert : Option (List Nat)
  cke : Option Val
  cv : Option Val
  inOrder : Bool := true
deriving DecidableEq, Repr

/-- the server's first flight, field by field -/
structure ServerFlight where
  sh : SHello
  ders : List Nat
  ske : Option Val
  certReq : Option (Nat × Nat)
  done : Bool
  inOrder : Bool := true
deriving DecidableEq, Repr

/-- the network: what each flight looks like on arrival (identity = nobody interferes) -/
structure Wire where
  ch : CHello → Option CHello := some       -- `none`: the ClientHello never arrives
  s2c : ServerFlight → ServerFlight := id
  c2s : ClientFlight → ClientFlight := id
  finC : Option Val → Option Val := id      -- the client's Finished as the server's record layer delivers it
  finS : Option Val → Option Val := id      -- the server's Finished as the client's record layer delivers it

def serverFlightOf (P : Prims) (s : Server) (ch : CHello) : ServerFlight :=
  ⟨s.hello ch, s.certs, some (serverSKE P s ch), if s.clientAuth.requests then some s.certReq else none, true, true⟩

def clientFlightOf (P : Prims) (c : Client) (v : ClientView) : ClientFlight :=
  ⟨if v.certReq.isSome then some c.cert else none, some (P.enc (encKeyOf P v) c.pms), clientCV P c v, true⟩

structure Outcome where
  clientDone : Bool
  serverDone : Bool
  sflight : Option ServerFlight := none     -- what the server sent first
  cflight : Option ClientFlight := none     -- what the client answered
  cview : Option ClientView := none
  sview : Option ServerView := none

/-- One connection between a client and a server (honest or mis-configured) across a network `w`: each side
    sends what the code computes from what it received, and stops at its first failing check.  The server
    sends its Finished only after accepting the client's; the client completes only after verifying it. -/
def run (P : Prims) (c : Client) (s : Server) (w : Wire) : Outcome :=
  match w.ch c.hello with
  | none => ⟨false, false, none, none, none, none⟩
  | some ch =>
  let v0 : ServerView := ⟨ch, none, none, none, none, true⟩
  if !allPass (serverHelloChecks s ch) then ⟨false, false, none, none, none, some v0⟩ else
  let f0 := serverFlightOf P s ch
  let f := w.s2c f0
  let cv1 : ClientView := ⟨f.sh, f.ders, f.ske, f.certReq, f.done, none, f.inOrder⟩
  if !clientProceeds P c cv1 then ⟨false, false, some f0, none, some cv1, some v0⟩ else
  let g0 := clientFlightOf P c cv1
  let g := w.c2s g0
  let sv : ServerView := ⟨ch, g.cert, g.cke, g.cv, w.finC (some (clientFinished P c cv1)), g.inOrder⟩
  if !serverAccepts P s sv then ⟨false, false, some f0, some g0, some cv1, some sv⟩ else
  let cv2 : ClientView := { cv1 with fin := w.finS (some (serverFinished P s sv)) }
  ⟨clientAccepts P c cv2, true, some f0, some g0, some cv2, some sv⟩

-- an ideal instantiation of the primitives (used by the driver and by the examples) --------------------------------

def serNats (l : List Nat) : List Nat := l.length :: l
def serOpt (o : Option Val) : List Nat := match o with | none => [0] | some v => 1 :: serNats v

def Msg.ser : Msg → List Nat
  | .clientHello h => [1, h.vers, h.random, h.sid] ++ serNats h.suites ++ serNats h.comps ++ [h.ext]
  | .serverHello h => [2, h.vers, h.random, h.sid, h.suite, h.comp, h.ext]
  | .certificate ders => 11 :: serNats ders
  | .serverKeyExchange sig => 12 :: serNats sig
  | .certificateRequest t c => [13, t, c]
  | .serverHelloDone => [14]
  | .clientKeyExchange c => 16 :: serNats c
  | .certificateVerify sig => 15 :: serNats sig
  | .finished vd => 20 :: serNats vd

def Signed.ser : Signed → List Nat
  | .ske cr sr e => [1, cr, sr, e]
  | .transcript d => 2 :: d
  | .other v => 3 :: v

/-- Ideal primitives over a table of certificates: a signature is the pair (key, signed data) and verifies
    only as that pair; a ciphertext opens only with the key it was made for; digests, secrets and verify_data
    are the serialised inputs themselves (injective). -/
def ideal (certs : List (Nat × PCert)) : Prims where
  parse d := (certs.find? (·.1 == d)).map (·.2)
  sign k m := k :: m.ser
  sigOK k m sig := sig == k :: m.ser
  enc k m := k :: m
  dec k c := match c with | k' :: m => if k' == k then some m else none | [] => none
  master pms cr sr := cr :: sr :: pms
  hash t := t.flatMap Msg.ser
  prf m r d := (match r with | .client => 1 | .server => 2) :: serNats m ++ d

end Model.HandshakeAuth
