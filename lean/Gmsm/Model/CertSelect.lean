/-
Which certificates a GMSSL-capable gmtls server uses as SIGNING and as ENCRYPTION certificate of a GMSSL handshake,
in its two modes:

  * GMSSL only:   `serverHandshakeStateGM.readClientHello` (gmtls/gm_handshake_server_double.go)
  * auto-switch:  `processClientHelloGM` (gmtls/auto_handshake_server.go)

The GMSSL-only server takes `Config.Certificates` as they are when there are at least two of them
(`hs.cert = c.config.Certificates`, signing = `hs.cert[0]`, encryption = `hs.cert[1]`) and asks
`Config.getCertificate` / `Config.getEKCertificate` (gmtls/common.go) otherwise.  The auto-switch server asks
`Config.getGMSignCertificate` / `Config.getEKCertificate` for every connection.  `getCertificate` is modelled in full:
the `GetCertificate` callback (consulted when `Certificates` is empty or the client sent SNI), the single-certificate /
nil-map shortcut, the lookup of the lower-cased server name without trailing dots in `NameToCertificate`, the wildcard
candidates, the fallback to `Certificates[0]`; so is `BuildNameToCertificate` (for equal names the LATER certificate
wins).  `getGMSignCertificate` is `getCertificate` without the lookup by name.

`selectAutoOriginal` is `processClientHelloGM` as it was before the repair: it asked `getCertificate` for the
signing certificate, so a populated `NameToCertificate` plus SNI chose the signing certificate BY NAME - and
the two certificates of a GM/T 0024 pair carry the same names.

Certificates are values of an arbitrary type `α` (the harness uses their positions).  Core Lean only; executable.
-/
namespace Model.CertSelect

/-- server names are lists of characters (so that the model reduces in the kernel) -/
abbrev Name := List Char

/-- what a callback (`GetCertificate`, `GetKECertificate`) returns for the ClientHello at hand -/
inductive Cb (α : Type) | nil | cert (a : α) | err
deriving DecidableEq, Repr

structure Config (α : Type) where
  certs : List α                              -- `Config.Certificates`
  nameMap : Option (Name → Option α)          -- `Config.NameToCertificate` (none = nil map)
  getCert : Option (Cb α)                     -- `Config.GetCertificate`, if set: its answer to this ClientHello
  getKE : Option (Cb α)                       -- `Config.GetKECertificate`, if set: its answer to this ClientHello

/-- `BuildNameToCertificate`: every certificate is entered under its names in order, a later entry overwrites -/
def buildNameToCertificate {α : Type} (certs : List α) (names : α → List Name) : Name → Option α :=
  fun n => certs.reverse.find? fun c => (names c).contains n

/-- the loop that strips trailing dots -/
def stripDots : Name → Name
  | [] => []
  | c :: cs =>
    match stripDots cs with
    | [] => if c = '.' then [] else [c]
    | r => c :: r

/-- `strings.ToLower` followed by the loop that strips trailing dots -/
def normalize (sni : Name) : Name := stripDots (sni.map Char.toLower)

/-- `strings.Split(name, ".")` -/
def splitDots : Name → List Name
  | [] => [[]]
  | c :: cs =>
    match splitDots cs with
    | [] => [[c]]
    | l :: ls => if c = '.' then [] :: l :: ls else (c :: l) :: ls

/-- `strings.Join(labels, ".")` -/
def joinDots : List Name → Name
  | [] => []
  | [l] => l
  | l :: ls => l ++ '.' :: joinDots ls

/-- the wildcard candidates: labels are replaced by "*" cumulatively from the left -/
def wildcards (name : Name) : List Name :=
  let labels := splitDots name
  (List.range labels.length).map fun i =>
    joinDots ((List.replicate (i + 1) ['*']) ++ labels.drop (i + 1))

def lookupName {α : Type} (m : Name → Option α) (name : Name) : Option α :=
  match m name with
  | some c => some c
  | none => (wildcards name).findSome? m

/-- the part of `Config.getCertificate` after the callback -/
def staticCertificate {α : Type} (c : Config α) (sni : Name) : Cb α :=
  match c.certs with
  | [] => .err                                      -- "tls: no certificates configured"
  | first :: rest =>
    match rest, c.nameMap with
    | [], _ => .cert first                          -- only one choice
    | _, none => .cert first
    | _, some m =>
      match lookupName m (normalize sni) with
      | some x => .cert x
      | none => .cert first                         -- nothing matches: the first certificate

/-- `Config.getCertificate(clientHello)`; `sni` = `clientHello.ServerName` ([] when the client sent none) -/
def getCertificate {α : Type} (c : Config α) (sni : Name) : Cb α :=
  match c.getCert with
  | some cb =>
    if c.certs.isEmpty || sni ≠ [] then
      match cb with
      | .nil => staticCertificate c sni
      | r => r
    else staticCertificate c sni
  | none => staticCertificate c sni

/-- `Config.getEKCertificate(clientHello)` -/
def getEKCertificate {α : Type} (c : Config α) : Cb α :=
  let fromStatic : Cb α := match c.certs with
    | _ :: b :: _ => .cert b
    | _ => .err                                     -- "tls: no key exchange (encrypt) certificate configured"
  match c.getKE with
  | some cb =>
    if c.certs.length < 2 then
      match cb with
      | .nil => fromStatic
      | r => r
    else fromStatic
  | none => fromStatic

/-- the block both servers run with fewer than two static certificates: (signing, encryption) from
    `getCertificate` / `getEKCertificate`; none = the handshake ends with an error -/
def viaCallbacks {α : Type} (c : Config α) (sni : Name) : Option (α × α) :=
  match getCertificate c sni, getEKCertificate c with
  | .cert a, .cert b => some (a, b)
  | _, _ => none

/-- GMSSL-only server, `readClientHello`: (hs.cert[0], hs.cert[1]) -/
def selectGM {α : Type} (c : Config α) (sni : Name) : Option (α × α) :=
  match c.certs with
  | a :: b :: _ => some (a, b)
  | _ => viaCallbacks c sni

/-- `Config.getGMSignCertificate(clientHello)`: `getCertificate` without the lookup in `NameToCertificate` - the
    callback under the same condition, otherwise `Certificates[0]` -/
def getGMSignCertificate {α : Type} (c : Config α) (sni : Name) : Cb α :=
  let fromStatic : Cb α := match c.certs with
    | [] => .err                                    -- "tls: no certificates configured"
    | first :: _ => .cert first
  match c.getCert with
  | some cb =>
    if c.certs.isEmpty || sni ≠ [] then
      match cb with
      | .nil => fromStatic
      | r => r
    else fromStatic
  | none => fromStatic

/-- auto-switch server, `processClientHelloGM` as repaired: (signing, encryption) from `getGMSignCertificate` /
    `getEKCertificate` -/
def selectAuto {α : Type} (c : Config α) (sni : Name) : Option (α × α) :=
  match getGMSignCertificate c sni, getEKCertificate c with
  | .cert a, .cert b => some (a, b)
  | _, _ => none

/-- `processClientHelloGM` before the repair: always through `getCertificate` / `getEKCertificate` -/
def selectAutoOriginal {α : Type} (c : Config α) (sni : Name) : Option (α × α) :=
  viaCallbacks c sni

inductive Mode | gm | auto
deriving DecidableEq, Repr

def select {α : Type} : Mode → Config α → Name → Option (α × α)
  | .gm => selectGM
  | .auto => selectAuto

end Model.CertSelect
