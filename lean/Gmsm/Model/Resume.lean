/-
Model of session resumption in gmtls as the code decides it: the server's gate (`checkForResumption`
in gm_handshake_server_double.go and handshake_server.go, on top of `decryptTicket` in ticket.go), ticket
issue and refresh (`sendSessionTicket`, `usedOldKey`), the client's offer (`clientHandshake`:
cache lookup, suite / version filter) and the LRU client cache (common.go `lruSessionCache`), run over a
history of connections, ticket-key rotations and configuration changes - including the switch
`SessionTicketsDisabled` in both directions and `Config`s whose ticket key the library creates itself
(`serverInit` / `ensureTicketKeys`; the key list may be empty, and `encryptTicket` without a key is the
crash `panics`).
Tickets are abstract: sealed under a key name, carrying the server's session state, and a flag saying
whether the bytes are still those the server issued (the MAC check of `decryptTicket`).
Core Lean only; executable.
-/
import Gmsm.Model.Suites
namespace Model.Resume

inductive Mode | gm | tls
deriving DecidableEq, Repr

abbrev Suite := Nat

/-- GMSSL suite ids in the order of `getCipherSuites`' default list (regenerated from the source) -/
def gmAll : List Suite := Model.Suites.gmDefaultList
/-- suites the GMSSL server can serve (`setCipherSuite` skips the ECDHE suites after the repair) -/
def gmServable (s : Suite) : Bool := Model.Suites.gmServable s
/-- the TLS default list (`defaultCipherSuites`, regenerated from the source) -/
def tlsDefaults : List Suite := Model.Suites.tlsDefaultList
/-- what a TLS 1.2 server with an RSA certificate can serve -/
def tlsServable (s : Suite) : Bool := Model.Suites.tlsServable .rsa 0x0303 s


/-- what a ticket seals / what both ends keep of a session; `sid` stands for the master secret: the number
    of the connection whose full handshake created it -/
structure Sess where
  sid : Nat
  vers : Nat
  suite : Suite
  ccerts : Nat      -- client certificates stored with the session
  ctrust : Bool     -- they chain to the server's client CAs
deriving DecidableEq, Repr

structure Ticket where
  key : Nat          -- name of the ticket key that sealed it
  sess : Sess
  intact : Bool      -- the bytes are exactly those the server issued
deriving DecidableEq, Repr

/-- `ClientSessionState` -/
structure CSess where
  ticket : Ticket
  sess : Sess
deriving DecidableEq, Repr

structure Server where
  keys : List Nat              -- `sessionTicketKeys`, first = current
  disabled : Bool              -- `SessionTicketsDisabled`
  suites : Option (List Suite) -- `Config.CipherSuites`
  auth : Nat                   -- `ClientAuth` 0..4
  maxVers : Nat := 0x0303      -- `Config.MaxVersion` (TLS mode; the clients speak up to TLS 1.2)
deriving Repr

/-- the version a connection negotiates: GMSSL 1.1, or the smaller of the two maxima in TLS mode -/
def vers : Mode → Server → Nat
  | .gm, _ => 0x0101
  | .tls, s => min 0x0303 s.maxVers

/-- `setCipherSuite`: what the server can serve at the negotiated version -/
def servable (m : Mode) (s : Server) (x : Suite) : Bool :=
  match m with
  | .gm => gmServable x
  | .tls => Model.Suites.tlsServable .rsa (vers m s) x

-- LRU cache (front = most recently used) -------------------------------------------------------------------

abbrev Cache := List (Nat × CSess)

def Cache.get (c : Cache) (k : Nat) : Option CSess × Cache :=
  match c.find? (·.1 == k) with
  | some e => (some e.2, e :: c.filter (·.1 != k))
  | none => (none, c)

def Cache.put (c : Cache) (cap k : Nat) (v : CSess) : Cache :=
  if c.any (·.1 == k) then (k, v) :: c.filter (·.1 != k)
  else if c.length < cap then (k, v) :: c
  else (k, v) :: c.dropLast

-- one connection -------------------------------------------------------------------------------------------

/-- ClientHello suites: `makeClientHelloGM` / `makeClientHello` keep the configured ids the mode implements; the
    GMSSL client (repaired) does not offer the ECDHE-SM2 suites, whose key exchange it cannot complete -/
def helloSuites (m : Mode) (cs : Option (List Suite)) : List Suite :=
  match m with
  | .gm => (cs.getD gmAll).filter Model.Suites.gmClientKx
  | .tls => (cs.getD tlsDefaults).filter Model.Suites.isTLS

/-- the list a full handshake selects from: `getCipherSuites(config)` (GMSSL) / `config.cipherSuites()` (TLS) -/
def fullSupported (m : Mode) (s : Server) : List Suite :=
  match m with
  | .gm => s.suites.getD gmAll
  | .tls => s.suites.getD tlsDefaults

/-- the list the resumption gate checks: `c.config.cipherSuites()` in BOTH modes — without an explicit
    `CipherSuites` that is the TLS default list, which holds no GMSSL suite -/
def resumeSupported (s : Server) : List Suite := s.suites.getD tlsDefaults

/-- `decryptTicket`: tickets enabled, a configured key with that name, MAC valid -/
def decryptTicket (s : Server) (t : Ticket) : Option (Sess × Bool) :=
  if s.disabled then none
  else if !t.intact then none
  else match s.keys.idxOf? t.key with
    | none => none
    | some i => some (t.sess, decide (i > 0))

/-- `checkForResumption` -/
def checkForResumption (m : Mode) (s : Server) (hello : List Suite) (t : Ticket) : Option (Sess × Bool) :=
  match decryptTicket s t with
  | none => none
  | some (st, old) =>
    if vers m s != st.vers then none
    else if !hello.contains st.suite then none
    else if !((resumeSupported s).contains st.suite && servable m s st.suite) then none
    else if (s.auth == 2 || s.auth == 4) && st.ccerts == 0 then none
    else if st.ccerts != 0 && s.auth == 0 then none
    else if st.ccerts != 0 && decide (s.auth ≥ 3) && !st.ctrust then none   -- `sessionClientCertsAcceptable` (repair)
    else some (st, old)

inductive Outcome
  | full (n : Nat)
  | resumed (sid : Nat)
  | error
deriving DecidableEq, Repr

structure World where
  cache : Cache
  cap : Nat
  srv : Nat → Server
  clientOff : Bool
  n : Nat                -- connections so far
  issued : List Sess     -- log of the sessions created by full handshakes (monotone)

structure ConnReq where
  srv : Nat
  csuites : Option (List Suite)
  ccert : Nat        -- 0 none, 1 certificate under the server's client CA, 2 certificate from another CA
  tampered : Bool

def setSrv (f : Nat → Server) (i : Nat) (s : Server) : Nat → Server := fun j => if j = i then s else f j

/-- name of the key `serverInit` derives from a fresh random `SessionTicketKey` when connection `n` begins:
    unlike every name set with `SetSessionTicketKeys` (the op lines use ids below 10^9) and unlike every
    earlier automatic one -/
def autoKey (n : Nat) : Nat := 1000000000 + n

/-- `Config.ensureTicketKeys` (the repair; `serverInit` on demand): tickets enabled and no ticket key yet -
    a `Config` that has not been used, or one that served all its connections so far with
    `SessionTicketsDisabled` - creates the key `k`; otherwise nothing changes.  (Before the repair this ran
    under `serverInitOnce` only, so a `Config` first used with tickets disabled never got a key.) -/
def ensureKeys (s : Server) (k : Nat) : Server :=
  if !s.disabled && s.keys.isEmpty then { s with keys := [k] } else s

/-- what the entry points `serverHandshake` / `serverHandshakeGM` / `serverHandshakeAutoSwitch` do before
    anything else: `c.config.ensureTicketKeys(nil)` on the server the client connects to -/
def prep (w : World) (r : ConnReq) : World :=
  { w with srv := setSrv w.srv r.srv (ensureKeys (w.srv r.srv) (autoKey (w.n + 1))) }

/-- the cached session the client offers: found under the server's name and still using a suite it lists
    (its version is always within the configured range here).  `clientHandshake` also re-checks the server
    certificates of the cached session against the verification policy of the connection
    (`sessionServerCertsAcceptable`, modelled in Model.ClientResume): in the histories of this model every
    session is offered under the policy that stored it (GMSSL mode: verifying, same instant, same name; TLS mode:
    InsecureSkipVerify), so that gate always passes here -/
def offered (m : Mode) (w : World) (r : ConnReq) : Option CSess :=
  if w.clientOff then none
  else (w.cache.get r.srv).1.filter (fun cs => (helloSuites m r.csuites).contains cs.sess.suite)

/-- the cache after the lookup (`Get` moves the entry to the front) -/
def cacheAfterGet (w : World) (r : ConnReq) : Cache :=
  if w.clientOff then w.cache else (w.cache.get r.srv).2

/-- the ticket bytes that reach the server -/
def presented (r : ConnReq) (cs : CSess) : Ticket :=
  if r.tampered then { cs.ticket with intact := false } else cs.ticket

/-- the server's decision on this connection -/
def resumeDecision (m : Mode) (w : World) (r : ConnReq) : Option (Sess × Bool) :=
  (offered m w r).bind fun cs => checkForResumption m (w.srv r.srv) (helloSuites m r.csuites) (presented r cs)

/-- a full handshake: the session it creates, or none when it fails (no mutual suite, or the
    client-certificate policy is not met) -/
def fullOutcome (m : Mode) (w : World) (r : ConnReq) : Option Sess :=
  let s := w.srv r.srv
  match (helloSuites m r.csuites).find? (fun x => (fullSupported m s).contains x && servable m s x) with
  | none => none
  | some suite =>
    let sent := decide (s.auth ≥ 1) && r.ccert != 0
    if (s.auth == 2 || s.auth == 4) && !sent then none
    else if sent && decide (s.auth ≥ 3) && r.ccert != 1 then none      -- chain verification fails
    else some ⟨w.n + 1, vers m s, suite, if sent then 1 else 0, r.ccert == 1⟩

/-- the client stores a session when a ticket arrives: on a full handshake if the client has a cache and the
    server issues tickets; on a resumption if the ticket was sealed under an old key (refresh) -/
def store (w : World) (r : ConnReq) (c : Cache) (st : Sess) (issue : Bool) : Cache :=
  match issue, (w.srv r.srv).keys.head? with
  | true, some k => c.put w.cap r.srv ⟨⟨k, st, true⟩, st⟩
  | _, _ => c

/-- one connection (the handshake after the entry point has run `prep`): returns the new world and what both
    ends report -/
def conn (m : Mode) (w : World) (r : ConnReq) : World × Outcome :=
  let c1 := cacheAfterGet w r
  match resumeDecision m w r with
  | some (st, old) =>
    ({ w with cache := store w r c1 st old, n := w.n + 1 }, .resumed st.sid)
  | none =>
    match fullOutcome m w r with
    | none => ({ w with cache := c1, n := w.n + 1 }, .error)
    | some st =>
      ({ w with cache := store w r c1 st (!w.clientOff && !(w.srv r.srv).disabled), n := w.n + 1,
                issued := st :: w.issued }, .full (w.n + 1))

/-- `encryptTicket` seals under `c.config.ticketKeys()[0]`: with an empty key list the index expression
    panics (`none` here) -/
def encryptTicket (s : Server) (st : Sess) : Option Ticket := s.keys.head?.map fun k => ⟨k, st, true⟩

/-- does the handshake `conn` reach `sendSessionTicket` with `ticketSupported` set, i.e. `encryptTicket`:
    a full handshake with a client that asked for a ticket while the server's tickets are enabled, or a
    resumption from a ticket under an old key -/
def issues (m : Mode) (w : World) (r : ConnReq) : Bool :=
  match resumeDecision m w r with
  | some (_, old) => old
  | none =>
    match fullOutcome m w r with
    | none => false
    | some _ => !w.clientOff && !(w.srv r.srv).disabled

/-- the handshake `conn` crashes the server: `encryptTicket` is reached and there is no key -/
def panics (m : Mode) (w : World) (r : ConnReq) : Bool :=
  issues m w r && (w.srv r.srv).keys.isEmpty

/-- one connection as the server's entry point runs it: ticket keys are ensured, then the handshake -/
def serve (m : Mode) (w : World) (r : ConnReq) : World × Outcome := conn m (prep w r) r

inductive Step
  | conn (r : ConnReq)
  | keys (srv : Nat) (ks : List Nat)
  | suites (srv : Nat) (l : Option (List Suite))
  | auth (srv : Nat) (a : Nat)
  | disable (srv : Nat) (b : Bool)
  | maxv (srv : Nat) (v : Nat)
  | clientOff (b : Bool)
  | fresh (srv : Nat)    -- the server goes on with a new `Config` (same settings) that has no ticket key yet

def step (m : Mode) (w : World) : Step → World × Option Outcome
  | .conn r => let (w', o) := serve m w r; (w', some o)
  | .keys i ks => ({ w with srv := setSrv w.srv i { w.srv i with keys := ks } }, none)
  | .suites i l => ({ w with srv := setSrv w.srv i { w.srv i with suites := l } }, none)
  | .auth i a => ({ w with srv := setSrv w.srv i { w.srv i with auth := a } }, none)
  | .disable i b => ({ w with srv := setSrv w.srv i { w.srv i with disabled := b } }, none)
  | .maxv i v => ({ w with srv := setSrv w.srv i { w.srv i with maxVers := v } }, none)
  | .clientOff b => ({ w with clientOff := b }, none)
  | .fresh i => ({ w with srv := setSrv w.srv i { w.srv i with keys := [] } }, none)

def run (m : Mode) : World → List Step → List Outcome
  | _, [] => []
  | w, s :: ss =>
    match step m w s with
    | (w', some o) => o :: run m w' ss
    | (w', none) => run m w' ss

def initWorld (cap : Nat) : World :=
  { cache := [], cap := if cap < 1 then 64 else cap,
    srv := fun i => ⟨[100 * (i + 1)], false, none, 0, 0x0303⟩, clientOff := false, n := 0, issued := [] }

end Model.Resume
