/-
Lock discipline of gmtls' connection code as a static analysis over REGENERATED facts.

`Gen.ConnLocks` (written by /verif/extract/locks.go from /repo's working tree on every run) lists, for every
method of `Conn`, `halfConn` and the handshake-state types: the mutexes it acquires itself (always in the shape
`X.Lock(); defer X.Unlock()`, so a lock is held from there to the end of the function), its call sites of other
functions of the set with the locks it has acquired itself before the call, and where it touches the state of the
read half (`c.in.…`, `c.hand`, `c.input`, `c.rawInput`) or the write half (`c.out.…`, `c.sendBuf`, …).

This file computes two lock sets per function — `must f`: held on EVERY call path from an exported method to `f`;
`may f`: held on SOME such path — and states the checks.  Props/C20Locks.lean proves the analysis sound for all
call paths (induction over paths, recursion allowed) and discharges the checks on the current facts.
Core Lean only; executable.
-/
import Gmsm.Gen.ConnLocks
namespace Model.ConnLocks
open Gen.ConnLocks

/-- a set of the three mutexes of a connection -/
structure LS where
  hs : Bool    -- c.handshakeMutex
  inn : Bool   -- c.in
  out : Bool   -- c.out
deriving DecidableEq, Repr

namespace LS
def empty : LS := ⟨false, false, false⟩
def all : LS := ⟨true, true, true⟩
def union (a b : LS) : LS := ⟨a.hs || b.hs, a.inn || b.inn, a.out || b.out⟩
def inter (a b : LS) : LS := ⟨a.hs && b.hs, a.inn && b.inn, a.out && b.out⟩
def subset (a b : LS) : Bool := (!a.hs || b.hs) && (!a.inn || b.inn) && (!a.out || b.out)
/-- lock bits of the generated tables: handshakeMutex = 1, in = 2, out = 4 -/
def ofMask (m : Nat) : LS := ⟨m % 2 == 1, (m / 2) % 2 == 1, (m / 4) % 2 == 1⟩
/-- membership by bit -/
def has (a : LS) (bit : Nat) : Bool := if bit == 1 then a.hs else if bit == 2 then a.inn else if bit == 4 then a.out else false
def toList (a : LS) : List Nat := (if a.hs then [1] else []) ++ (if a.inn then [2] else []) ++ (if a.out then [4] else [])
end LS

def nFns : Nat := fns.length
def exported (f : Nat) : Bool := (fns.getD f (false, [])).1
def acquires (f : Nat) : List Nat := (fns.getD f (false, [])).2

abbrev Table := List LS
def Table.at (t : Table) (f : Nat) : LS := t.getD f LS.empty

/-- the two tables are computed by the extractor (to a fixpoint) and CHECKED here: `mustOK` / `mayOK` below are
    exactly what the soundness theorems of Props/C20Locks.lean need, so a wrong table cannot make anything
    true that is not. `must f`: locks held on every call path into `f`; `may f`: on some path. -/
def must : Table := mustT.map LS.ofMask
def may : Table := mayT.map LS.ofMask

/-- what soundness of `must` needs: nothing is claimed for exported methods, and along every call site the claim
    for the callee follows from the claim for the caller plus what the caller holds there -/
def mustOK (t : Table) : Bool :=
  ((List.range nFns).all fun g => !exported g || t.at g == LS.empty) &&
  calls.all fun c => (t.at c.2.1).subset ((t.at c.1).union (LS.ofMask c.2.2.1))

/-- what soundness of `may` needs -/
def mayOK (t : Table) : Bool :=
  calls.all fun c => ((t.at c.1).union (LS.ofMask c.2.2.1)).subset (t.at c.2.1)

-- the checks ------------------------------------------------------------------------------------------------

/-- a half (2 = in, 4 = out) may be touched while its own mutex is held, or while the handshake mutex is held
    (during a handshake the application's Read and Write wait in `Handshake()` for that mutex) -/
def protects (l : LS) (half : Nat) : Bool := l.has half || l.hs

/-- D1: direct accesses; D2: halfConn methods reached through `c.in` / `c.out` -/
def touchViolations (t : Table) : List (Nat × Nat) :=
  (touches.filter fun x => !protects ((t.at x.1).union (LS.ofMask x.2.2)) x.2.1).map (fun x => (x.1, x.2.1)) ++
  ((calls.filter fun c => c.2.2.2 != 0 && !protects ((t.at c.1).union (LS.ofMask c.2.2.1)) c.2.2.2).map fun c => (c.1, c.2.2.2))

/-- does a function that enters with the locks `h` held and then acquires `ls` in order take a mutex it already
    holds? (sync.Mutex is not reentrant: that goroutine would block for ever) -/
def reacq : LS → List Nat → Bool
  | _, [] => false
  | h, l :: ls => h.has l || reacq (h.union (LS.ofMask l)) ls

/-- D4: functions that acquire a mutex which may already be held on the way in -/
def reacquisitions (t : Table) : List Nat :=
  (List.range nFns).filter fun f => reacq (t.at f) (acquires f)

/-- order edges (held, acquired) of a function entered with `h` held -/
def edgesOf : LS → List Nat → List (Nat × Nat)
  | _, [] => []
  | h, l :: ls => ((h.toList.filter (· != l)).map fun x => (x, l)) ++ edgesOf (h.union (LS.ofMask l)) ls

/-- D3: all order edges -/
def orderEdges (t : Table) : List (Nat × Nat) :=
  ((List.range nFns).flatMap fun f => edgesOf (t.at f) (acquires f)).eraseDups

/-- the order edges of the code as it is: handshakeMutex → in (Handshake), in → out and handshakeMutex → out
    (alerts and records written while reading / during the handshake), and in → handshakeMutex (a client's Read
    that starts a renegotiation; harmless because `Handshake()` takes `c.in` only while the handshake is incomplete,
    which after the first handshake only that reader can bring about, holding the handshake mutex) -/
def expectedEdges : List (Nat × Nat) := [(1, 2), (1, 4), (2, 4), (2, 1)]

def name (f : Nat) : String := names.getD f "?"

end Model.ConnLocks
