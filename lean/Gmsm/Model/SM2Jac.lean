/-
The Jacobian-coordinate point formulas of sm2/p256.go as straight-line programs over an arbitrary
type with `+ - *` (so that the same definitions run on `Fp` in the driver and are reasoned about over a
Mathlib field in proof modules).  Each definition lists the field operations in the order the Go
function performs them.  Core Lean only.
-/
namespace Model.SM2Jac

structure Jac (F : Type) where
  x : F
  y : F
  z : F
deriving Repr, DecidableEq

section
variable {F : Type} [Add F] [Sub F] [Mul F]

def dbl (t : F) : F := t + t                 -- sm2P256Scalar(·, 2)
def tpl (t : F) : F := t + t + t             -- sm2P256Scalar(·, 3)
def quad (t : F) : F := dbl (dbl t)          -- sm2P256Scalar(·, 4)
def oct (t : F) : F := dbl (quad t)          -- sm2P256Scalar(·, 8)

/-- `sm2P256PointDouble`; `a` is the curve coefficient (sm2P256.a) -/
def double (a : F) (P : Jac F) : Jac F :=
  let x2 := P.x * P.x
  let y2 := P.y * P.y
  let z2 := P.z * P.z
  let z4 := P.z * P.z * P.z * P.z
  let y4 := oct (P.y * P.y * P.y * P.y)
  let s := quad (P.x * y2)
  let m := tpl x2 + a * z4
  let m2 := m * m
  let z3 := (P.y + P.z) * (P.y + P.z) - z2 - y2
  let x3 := m2 - s - s
  let y3 := (s - x3) * m - y4
  ⟨x3, y3, z3⟩

/-- `sm2P256PointAddMixed`: (x1,y1,z1) + (x2,y2,1), no special cases -/
def addMixed (P : Jac F) (x2 y2 : F) : Jac F :=
  let z1z1 := P.z * P.z
  let tmp := P.z + P.z
  let u2 := x2 * z1z1
  let z1z1z1 := P.z * z1z1
  let s2 := y2 * z1z1z1
  let h := u2 - P.x
  let i := (h + h) * (h + h)
  let j := h * i
  let r := (s2 - P.y) + (s2 - P.y)
  let v := P.x * i
  let zOut := tmp * h
  let rr := r * r
  let xOut := rr - j - v - v
  let yOut := (v - xOut) * r - P.y * j - P.y * j
  ⟨xOut, yOut, zOut⟩

/-- the generic part of `sm2P256PointAdd` (after the infinity and equal-input cases) -/
def addGeneric (P Q : Jac F) : Jac F :=
  let z12 := P.z * P.z
  let z22 := Q.z * Q.z
  let z13 := z12 * P.z
  let z23 := z22 * Q.z
  let u1 := P.x * z22
  let u2 := Q.x * z12
  let s1 := P.y * z23
  let s2 := Q.y * z13
  let h := u2 - u1
  let r := s2 - s1
  let r2 := r * r
  let h2 := h * h
  let x3 := r2 - h2 * h - dbl (u1 * h2)
  let y3 := r * (u1 * h2 - x3) - h2 * h * s1
  let z3 := P.z * Q.z * h
  ⟨x3, y3, z3⟩
end

end Model.SM2Jac
