/-
Model of sm4/sm4.go:154-255 as the Go code computes it: T-table rounds (tables regenerated from the
source into `Gen.SM4`), the in-place quad-round loop of `cryptBlock`, `generateSubKeys`, and the
`Sm4Cipher` object with its two scratch buffers.  Core Lean only; executable.
-/
import Gmsm.Util.Bytes
import Gmsm.Gen.SM4Tables
import Gmsm.Spec.SM4
namespace Model.SM4
open Gmsm

abbrev St := Spec.SM4.St

/-- `func rl(x uint32, i uint8) uint32 { return (x << (i % 32)) | (x >> (32 - (i % 32))) }`
    with Go's shift semantics (a shift count of 32 gives 0). -/
def rl (x : W32) (i : Nat) : W32 := goShl32 x (i % 32) ||| goShr32 x (32 - i % 32)

/-- `func l0(b uint32) uint32 { return b ^ rl(b, 13) ^ rl(b, 23) }` -/
def l0 (b : W32) : W32 := b ^^^ rl b 13 ^^^ rl b 23

def sboxAt (i : W32) : Byte := Gen.SM4.sbox[(i &&& 0xff).toNat]'(and_ff_lt i)

/-- `func p(a uint32) uint32` : byte-wise S-box -/
def p (a : W32) : W32 :=
  ((sboxAt (a >>> 24)).setWidth 32 <<< 24) ^^^ ((sboxAt (a >>> 16)).setWidth 32 <<< 16) ^^^
  ((sboxAt (a >>> 8)).setWidth 32 <<< 8) ^^^ (sboxAt a).setWidth 32

/-- `func feistel0(x0, x1, x2, x3, rk uint32) uint32 { return x0 ^ l0(p(x1^x2^x3^rk)) }` -/
def feistel0 (x0 x1 x2 x3 rk : W32) : W32 := x0 ^^^ l0 (p (x1 ^^^ x2 ^^^ x3 ^^^ rk))

def tab (t : Vector W32 256) (i : W32) : W32 := t[(i &&& 0xff).toNat]'(and_ff_lt i)

/-- `sbox0[x&0xff] ^ sbox1[(x>>8)&0xff] ^ sbox2[(x>>16)&0xff] ^ sbox3[(x>>24)&0xff]` -/
def tt (x : W32) : W32 :=
  tab Gen.SM4.sbox0 x ^^^ tab Gen.SM4.sbox1 (x >>> 8) ^^^ tab Gen.SM4.sbox2 (x >>> 16) ^^^
  tab Gen.SM4.sbox3 (x >>> 24)

/-- `permuteInitialBlock` on a 16-byte block -/
def permuteInitialBlock (b : Bytes) : St := Spec.SM4.ofBytes b

/-- `permuteFinalBlock` -/
def permuteFinalBlock (s : St) : Bytes := Spec.SM4.toBytes s

/-- `generateSubKeys`: the loop `subkeys[i] = feistel0(b0,b1,b2,b3,ck[i]); b = (b1,b2,b3,subkeys[i])` -/
def genKeysAux : Nat → Nat → St → List W32
  | 0, _, _ => []
  | n+1, i, b =>
    let k := feistel0 b.x0 b.x1 b.x2 b.x3 (Gen.SM4.ck.getD i 0)
    k :: genKeysAux n (i+1) ⟨b.x1, b.x2, b.x3, k⟩

def generateSubKeys (key : Bytes) : List W32 :=
  let b := permuteInitialBlock key
  genKeysAux 32 0 ⟨b.x0 ^^^ Gen.SM4.fk[0], b.x1 ^^^ Gen.SM4.fk[1], b.x2 ^^^ Gen.SM4.fk[2], b.x3 ^^^ Gen.SM4.fk[3]⟩

/-- one iteration of the encryption loop body: four T-table rounds in place, keys `s[0..3]` -/
def quad (b : St) (s0 s1 s2 s3 : W32) : St :=
  let b0 := b.x0 ^^^ tt (b.x1 ^^^ b.x2 ^^^ b.x3 ^^^ s0)
  let b1 := b.x1 ^^^ tt (b0 ^^^ b.x2 ^^^ b.x3 ^^^ s1)
  let b2 := b.x2 ^^^ tt (b0 ^^^ b1 ^^^ b.x3 ^^^ s2)
  let b3 := b.x3 ^^^ tt (b1 ^^^ b2 ^^^ b0 ^^^ s3)
  ⟨b0, b1, b2, b3⟩

/-- encryption loop: `for i<8 { s := subkeys[4i:4i+4]; quad b s[0] s[1] s[2] s[3] }` -/
def encLoop : List W32 → St → St
  | s0 :: s1 :: s2 :: s3 :: rest, b => encLoop rest (quad b s0 s1 s2 s3)
  | _, b => b

/-- decryption loop: `s := subkeys[28-4i : 32-4i]; quad b s[3] s[2] s[1] s[0]`, i.e. the same loop
    over the reversed key list. -/
def decLoop (ks : List W32) (b : St) : St := encLoop ks.reverse b

/-- `cryptBlock` without the buffers: result bytes for a 16-byte `src` -/
def cryptBlockCore (subkeys : List W32) (src : Bytes) (decrypt : Bool) : Bytes :=
  let b := permuteInitialBlock src
  let b := if decrypt then decLoop subkeys b else encLoop subkeys b
  permuteFinalBlock ⟨b.x3, b.x2, b.x1, b.x0⟩

-- The object ---------------------------------------------------------------------------------

inductive Fault where
  | error (tag : String)
  | panic (tag : String)
deriving Repr, DecidableEq

/-- `Sm4Cipher`: round keys plus the two scratch buffers that persist between calls. -/
structure Cipher where
  subkeys : List W32
  block1 : St        -- []uint32 of length 4
  block2 : Bytes     -- []byte of length 16

/-- `NewCipher` -/
def newCipher (key : Bytes) : Except Fault Cipher :=
  if key.length ≠ 16 then .error (.error "invalid key size")
  else .ok ⟨generateSubKeys key, ⟨0,0,0,0⟩, List.replicate 16 0⟩

/-- `cryptBlock(c.subkeys, c.block1, c.block2, dst, src, decrypt)` with the buffers threaded through:
    `b` (= block1) is overwritten from `src` first, `r` (= block2) is overwritten from `b`, then
    `copy(dst, r)`.  Returns the new object and the new contents of `dst` (`dstLen` bytes were
    supplied; `copy` writes `min dstLen 16`). A `src` shorter than 16 bytes makes
    `permuteInitialBlock` index out of range. -/
def cryptBlock (c : Cipher) (dst src : Bytes) (decrypt : Bool) : Except Fault (Cipher × Bytes) :=
  if src.length < 16 then .error (.panic "index out of range")
  else
    let b := permuteInitialBlock src
    let b := if decrypt then decLoop c.subkeys b else encLoop c.subkeys b
    let b : St := ⟨b.x3, b.x2, b.x1, b.x0⟩
    let r := permuteFinalBlock b
    let dst' := r.take dst.length ++ dst.drop 16
    .ok (⟨c.subkeys, b, r⟩, dst')

def Cipher.encrypt (c : Cipher) (dst src : Bytes) := cryptBlock c dst src false
def Cipher.decrypt (c : Cipher) (dst src : Bytes) := cryptBlock c dst src true

/-- one call on the object -/
inductive Op where
  | enc (dst src : Bytes)
  | dec (dst src : Bytes)

def Op.src : Op → Bytes
  | .enc _ s => s
  | .dec _ s => s
def Op.dst : Op → Bytes
  | .enc d _ => d
  | .dec d _ => d

/-- run a history; results are the contents of `dst` after each call (or the fault) -/
def run : Cipher → List Op → List (Except Fault Bytes)
  | _, [] => []
  | c, op :: ops =>
    let r := match op with
      | .enc d s => c.encrypt d s
      | .dec d s => c.decrypt d s
    match r with
    | .ok (c', out) => .ok out :: run c' ops
    | .error f => .error f :: run c ops

end Model.SM4
