/-
The CLIENT's key-agreement step of gmtls: what it does with the server's certificate key and ServerKeyExchange
message before it sends its ClientKeyExchange.

Go:  key_agreement.go     `curveForCurveID`, `rsaKeyAgreement.generateClientKeyExchange`,
                          `ecdheKeyAgreement.processServerKeyExchange` / `generateClientKeyExchange`
     gm_key_agreement.go  `ecdheKeyAgreementGM.processServerKeyExchange` / `generateClientKeyExchange`
     handshake_client.go / gm_handshake_client_double.go `doFullHandshake` (which key types a certificate may have,
                          ServerKeyExchange optional for TLS and mandatory for GMSSL)

The elliptic-curve arithmetic, the signature check and the RSA encryption are not modelled: a ServerKeyExchange is
represented by what the code asks about its bytes (`Skx`), and the result says HOW the pre-master secret comes about
(`Out`). Two things the Go code can do besides returning a value or an error are results of the model:
`Out.panic` (the explicit `panic("internal error")`, crypto/elliptic's panic when `ScalarMult` gets a point that is
not on the receiver curve, a failed type assertion) and `Out.zeroShare` (X25519 against `ka.publicKey` that was never
assigned: the pre-master secret is 0^32 whatever the two ephemeral keys are).

`generate` is the code shared verbatim by `ecdheKeyAgreement` and `ecdheKeyAgreementGM`; it can reach both. Whether
the client can, depends on what `process…` lets through: that is what Props.C15KeyAgreement is about.
Core Lean only; executable.
-/
namespace Model.KeyAgreement

/-- the curves the package computes on -/
inductive Curve
  | p256 | p384 | p521 | sm2
  deriving DecidableEq, Repr

/-- `curveForCurveID` (key_agreement.go): secp256r1, secp384r1, secp521r1; there is no identifier for the SM2 curve -/
def curveForCurveID (id : Nat) : Option Curve :=
  if id = 23 then some .p256 else if id = 24 then some .p384 else if id = 25 then some .p521 else none

/-- `X25519` -/
def x25519 : Nat := 29

/-- What the code asks about the bytes of a ServerKeyExchange of an ECDHE suite:
    `curve_type(1) | named_curve(2) | len(1) | point | signature`; the length checks are those of
    Model.TLSMessages and count as part of `sigOk = false` / `onCurve = false` here. -/
structure Skx where
  curveType : Nat          -- skx.key[0]
  curveid : Nat            -- skx.key[1..2]
  onCurve : Curve → Bool   -- `elliptic.Unmarshal(curve, point)` succeeds: an uncompressed point of that curve
  len32 : Bool             -- the point field has 32 bytes (an X25519 share)
  sigOk : Bool             -- signature algorithm of the suite's kind and the signature verifies under the certificate's key

/-- what `processServerKeyExchange` leaves in the key agreement object -/
structure Share where
  curveid : Nat            -- ka.curveid (0: no ServerKeyExchange was processed)
  point : Option Curve     -- the curve on which ka.x, ka.y were decoded; none: never assigned
  publicKey : Bool         -- ka.publicKey assigned
  deriving DecidableEq, Repr

/-- results of the client's key-agreement step -/
inductive Out
  | ecdh (on : Curve)      -- ClientKeyExchange sent; pre-master = x coordinate of (own ephemeral key) * (peer's point), on that curve
  | x25519                 -- ClientKeyExchange sent; pre-master = X25519(own ephemeral key, peer's share)
  | rsaEncrypt             -- ClientKeyExchange sent; a random pre-master secret encrypted to the certificate's RSA key
  | zeroShare              -- ClientKeyExchange sent; pre-master = 0^32 (X25519 against an all-zero share)
  | error                  -- the handshake is aborted with an error
  | panic                  -- the goroutine panics
  deriving DecidableEq, Repr

/-- `generateClientKeyExchange` of `ecdheKeyAgreement` and of `ecdheKeyAgreementGM` (the same statements):
    curveid 0 is "missing ServerKeyExchange"; X25519 uses `ka.publicKey`; otherwise the curve is looked up by
    `ka.curveid` (`panic("internal error")` when unknown) and `curve.ScalarMult(ka.x, ka.y, priv)` is called, which
    panics for a point that is not on `curve` (and dereferences nil when ka.x was never assigned). -/
def generate (s : Share) : Out :=
  if s.curveid = 0 then .error
  else if s.curveid = x25519 then (if s.publicKey then .x25519 else .zeroShare)
  else match curveForCurveID s.curveid with
    | none => .panic
    | some c =>
      match s.point with
      | none => .panic
      | some d => if c = d then .ecdh c else .panic

/-- `ecdheKeyAgreement.processServerKeyExchange` (TLS): the share is decoded on the curve the message names -/
def processTLS (m : Skx) : Option Share :=
  if m.curveType ≠ 3 then none
  else if m.curveid = x25519 then
    (if m.len32 && m.sigOk then some ⟨m.curveid, none, true⟩ else none)
  else match curveForCurveID m.curveid with
    | none => none
    | some c => if m.onCurve c && m.sigOk then some ⟨m.curveid, some c, false⟩ else none

/-- `ecdheKeyAgreementGM.processServerKeyExchange` (GMSSL, REPAIRED): the share is always decoded on the SM2 curve
    ("according to GMT0024"), so a named_curve that does not select the SM2 curve in `curveForCurveID` — the table
    `generate` will use — is refused, before anything is decoded or verified. -/
def processGM (m : Skx) : Option Share :=
  if m.curveType ≠ 3 then none
  else match curveForCurveID m.curveid with
    | none => none
    | some c =>
      if c ≠ .sm2 then none
      else if m.onCurve .sm2 && m.sigOk then some ⟨m.curveid, some .sm2, false⟩ else none

/-- `generate` and `processGM` over an arbitrary identifier table in place of `curveForCurveID`. Not code of the
    package: used to state that the repaired check is the right one whatever the table contains
    (Props.C15KeyAgreement.processGMWith_sound), e.g. once it learns an identifier for the SM2 curve. -/
def generateWith (tbl : Nat → Option Curve) (s : Share) : Out :=
  if s.curveid = 0 then .error
  else if s.curveid = x25519 then (if s.publicKey then .x25519 else .zeroShare)
  else match tbl s.curveid with
    | none => .panic
    | some c =>
      match s.point with
      | none => .panic
      | some d => if c = d then .ecdh c else .panic

def processGMWith (tbl : Nat → Option Curve) (m : Skx) : Option Share :=
  if m.curveType ≠ 3 then none
  else match tbl m.curveid with
    | none => none
    | some c =>
      if c ≠ .sm2 then none
      else if m.onCurve .sm2 && m.sigOk then some ⟨m.curveid, some .sm2, false⟩ else none

/-- key type of the server's (first) certificate as x509.ParseCertificate reports it -/
inductive KeyType
  | rsa        -- *rsa.PublicKey
  | ecNist     -- *ecdsa.PublicKey on a NIST curve
  | ecSM2      -- *ecdsa.PublicKey on the SM2 curve
  | other
  deriving DecidableEq, Repr

/-- key exchange of the selected suite -/
inductive Kx
  | rsa        -- rsaKA
  | ecdhe      -- ecdheRSAKA / ecdheECDSAKA (TLS)
  | ecdheGM    -- ecdheGMKA (0xe011, 0xe051)
  deriving DecidableEq, Repr

/-- TLS client `doFullHandshake`: the leaf key must be RSA or ECDSA — whatever the suite -/
def tlsCertOk (k : KeyType) : Bool := k = .rsa || k = .ecNist || k = .ecSM2

/-- GMSSL client `doFullHandshake`: every certificate must carry an EC key on the SM2 curve -/
def gmCertOk (k : KeyType) : Bool := k = .ecSM2

/-- `rsaKeyAgreement.generateClientKeyExchange` (REPAIRED): the certificate's key must be an RSA key -/
def rsaGenerate (k : KeyType) : Out := if k = .rsa then .rsaEncrypt else .error

/-- The step as a whole: certificate key type, optional ServerKeyExchange, then ClientKeyExchange.
    TLS client: a ServerKeyExchange is processed when it comes (rsaKA: "unexpected ServerKeyExchange") and
    `generate` finds curveid 0 when none came; GMSSL client: the message is mandatory. -/
def clientKx (kx : Kx) (key : KeyType) (skx : Option Skx) : Out :=
  match kx with
  | .rsa =>
    if !tlsCertOk key then .error
    else match skx with
      | some _ => .error
      | none => rsaGenerate key
  | .ecdhe =>
    if !tlsCertOk key then .error
    else match skx with
      | none => generate ⟨0, none, false⟩
      | some m => match processTLS m with
        | none => .error
        | some s => generate s
  | .ecdheGM =>
    if !gmCertOk key then .error
    else match skx with
      | none => .error
      | some m => match processGM m with
        | none => .error
        | some s => generate s

end Model.KeyAgreement
