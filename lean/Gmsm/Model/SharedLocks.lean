/-
Lock discipline of the SHARED objects of gmtls / x509 as decidable checks over REGENERATED facts.

`Gen.SharedLocks` (written by /verif/extract/locks2.go from /repo's working tree on every run) lists every place
where the code touches
  * `lruSessionCache.m / q / capacity` (the ClientSessionCache; guarded by the embedded `sync.Mutex`),
  * `Config.sessionTicketKeys` (guarded by `Config.mutex`, an RWMutex), and every WRITE of any other `Config` field,
  * a field of x509 `CertPool` by a write (the pool has no lock at all),
together with the lock state the extractor computed for that place (bits: 1 = RLock of the same base expression in
force, 2 = Lock in force, 4 = inside a func literal passed to `Once.Do`, 8 = the object is fresh: not yet published).

This file gives every (type, field) a POLICY and states the discipline as Boolean checks over ANY such table.
Props/C20Shared.lean proves what the checks imply and discharges them on the current table.
Core Lean only; executable.
-/
import Gmsm.Gen.SharedLocks
namespace Model.SharedLocks

/-- one access site -/
structure Access where
  obj : String      -- struct type: "lruSessionCache", "Config", "CertPool"
  fn : String       -- function the site is in ("Type.method" or "function")
  field : String
  write : Bool
  held : Nat        -- lock state bits 1 / 2 / 4 / 8 (see above)
deriving DecidableEq, Repr

def Access.ofTuple (x : String × String × String × Bool × Nat) : Access := ⟨x.1, x.2.1, x.2.2.1, x.2.2.2.1, x.2.2.2.2⟩

abbrev Table := List Access

def bit (h b : Nat) : Bool := h / b % 2 == 1

/-- `B.RLock()` / `B.mutex.RLock()` of the accessed object is in force at the site -/
def Access.shared (a : Access) : Bool := bit a.held 1
/-- `B.Lock()` / `B.mutex.Lock()` of the accessed object is in force at the site -/
def Access.exclusive (a : Access) : Bool := bit a.held 2
/-- the site is inside a func literal passed to `Once.Do` -/
def Access.once (a : Access) : Bool := bit a.held 4
/-- the accessed object was created in this function and has not been published yet -/
def Access.fresh (a : Access) : Bool := bit a.held 8

/-- how a field has to be treated -/
inductive Policy
  /-- reads need the mutex at least shared, writes need it exclusively; a fresh object is exempt -/
  | mutexRW
  /-- written only while the object is fresh (set by the constructor, constant afterwards); reads are free -/
  | initOnly
  /-- a configuration field: reads are free (documented as read-only once the Config is in use); a write inside the
      package needs the exclusive mutex, a `Once.Do` context or a fresh object - or is one of the listed set-up methods -/
  | lockedWrite
  /-- no lock exists: only the listed functions may write -/
  | unguarded
deriving DecidableEq, Repr

def policy (obj field : String) : Policy :=
  if obj == "lruSessionCache" then (if field == "capacity" then .initOnly else .mutexRW)
  else if obj == "Config" then (if field == "sessionTicketKeys" then .mutexRW else .lockedWrite)
  else .unguarded

/-- set-up methods that write a `lockedWrite` field without a lock: documented as "call before use" API.
    (type, function, field) -/
def setupWriters : List (String × String × String) :=
  [("Config", "Config.BuildNameToCertificate", "NameToCertificate")]

/-- the only functions that may write an `unguarded` object after construction: (type, function) -/
def unguardedWriters : List (String × String) := [("CertPool", "CertPool.AddCert")]

/-- the discipline at one site -/
def siteOK (a : Access) : Bool :=
  match policy a.obj a.field with
  | .mutexRW => if a.write then a.exclusive || a.fresh else a.shared || a.exclusive || a.fresh
  | .initOnly => !a.write || a.fresh
  | .lockedWrite => !a.write || a.exclusive || a.once || a.fresh || setupWriters.contains (a.obj, a.fn, a.field)
  | .unguarded => !a.write || a.fresh || unguardedWriters.contains (a.obj, a.fn)

def disciplineOK (t : Table) : Bool := t.all siteOK

/-- every write to a `mutexRW` field happens under the exclusive lock or on a fresh object -/
def writesHeld (t : Table) : Bool :=
  t.all fun a => !(a.write && policy a.obj a.field == .mutexRW) || a.exclusive || a.fresh

/-- every read of a `mutexRW` field happens under the lock (shared suffices) or on a fresh object -/
def readsHeld (t : Table) : Bool :=
  t.all fun a => !(!a.write && policy a.obj a.field == .mutexRW) || a.shared || a.exclusive || a.fresh

/-- functions with a write site of `obj.field` on an object that is not fresh, without duplicates, in table order -/
def writersOf (t : Table) (obj field : String) : List String :=
  ((t.filter fun a => a.obj == obj && a.field == field && a.write && !a.fresh).map (·.fn)).eraseDups

/-- functions with a write site of any field of `obj` on an object that is not fresh -/
def writersOfObj (t : Table) (obj : String) : List String :=
  ((t.filter fun a => a.obj == obj && a.write && !a.fresh).map (·.fn)).eraseDups

def subsetOf (xs ys : List String) : Bool := xs.all ys.contains

/-- functions with at least one access site of the object in the table -/
def fnsOf (t : Table) (obj : String) : List String := ((t.filter fun a => a.obj == obj).map (·.fn)).eraseDups

/-- number of sites of `fn` on `obj.field` -/
def countSites (t : Table) (obj fn field : String) : Nat :=
  (t.filter fun a => a.obj == obj && a.fn == fn && a.field == field).length

-- calls: no function that locks its receiver's mutex is called while the caller already holds that mutex ---------

/-- call sites `(type, caller, callee, lock state of the callee's receiver expression at the call)` of a callee that
    locks the mutex of its own receiver, made while the caller holds that very mutex (shared or exclusive):
    sync.Mutex / RWMutex are not re-entrant, so such a call blocks forever -/
def reentrantCalls (calls : List (String × String × String × Nat)) (acq : List (String × String × Nat)) :
    List (String × String × String × Nat) :=
  calls.filter fun c => acq.any (fun a => a.1 == c.1 && a.2.1 == c.2.2.1) && (bit c.2.2.2 1 || bit c.2.2.2 2)

-- the current facts -----------------------------------------------------------------------------------------------

def table : Table := Gen.SharedLocks.accesses.map Access.ofTuple

def noProblems : Bool := Gen.SharedLocks.problems.isEmpty

end Model.SharedLocks
