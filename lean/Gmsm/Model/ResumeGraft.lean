/-
Histories of `Model.Resume` extended by connections of a FOREIGN client: one that presents the ticket it
holds for the server whatever its own ClientHello lists.  The stock gmtls client never does that
(`clientHandshake` drops a cached session whose suite is not among `hello.cipherSuites`; `offered` in
Model.Resume), so the conjunct "the client still offers the session's suite" of the server's gate
(`checkForResumption`, the loop over `hs.clientHello.cipherSuites`) is out of its reach; the server must
make the check on its own, and fall back to a full handshake silently.
Core Lean only; executable.
-/
import Gmsm.Model.Resume
namespace Model.ResumeGraft
open Model.Resume

/-- what a foreign client offers: the cached session for the server, with NO filter on its own suite list -/
def offeredAny (w : World) (r : ConnReq) : Option CSess :=
  if w.clientOff then none else (w.cache.get r.srv).1

/-- the server's decision: the same gate, on the ClientHello that was really sent -/
def resumeDecisionAny (m : Mode) (w : World) (r : ConnReq) : Option (Sess × Bool) :=
  (offeredAny w r).bind fun cs => checkForResumption m (w.srv r.srv) (helloSuites m r.csuites) (presented r cs)

/-- one connection of the foreign client (`Model.Resume.conn` with the unfiltered offer) -/
def connAny (m : Mode) (w : World) (r : ConnReq) : World × Outcome :=
  let c1 := cacheAfterGet w r
  match resumeDecisionAny m w r with
  | some (st, old) =>
    ({ w with cache := store w r c1 st old, n := w.n + 1 }, .resumed st.sid)
  | none =>
    match fullOutcome m w r with
    | none => ({ w with cache := c1, n := w.n + 1 }, .error)
    | some st =>
      ({ w with cache := store w r c1 st (!w.clientOff && !(w.srv r.srv).disabled), n := w.n + 1,
                issued := st :: w.issued }, .full (w.n + 1))

def serveAny (m : Mode) (w : World) (r : ConnReq) : World × Outcome := connAny m (prep w r) r

/-- a step of the extended history: a step of `Model.Resume`, or a connection of the foreign client -/
inductive GStep
  | plain (s : Step)
  | graft (r : ConnReq)

def gstep (m : Mode) (w : World) : GStep → World × Option Outcome
  | .plain s => step m w s
  | .graft r => let (w', o) := serveAny m w r; (w', some o)

def runG (m : Mode) : World → List GStep → List Outcome
  | _, [] => []
  | w, s :: ss =>
    match gstep m w s with
    | (w', some o) => o :: runG m w' ss
    | (w', none) => runG m w' ss

/-- the world after a history -/
def reachG (m : Mode) : World → List GStep → World
  | w, [] => w
  | w, s :: ss => reachG m (gstep m w s).1 ss

end Model.ResumeGraft
