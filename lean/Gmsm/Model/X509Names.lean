/-
The name / identifier extensions of x509/x509.go (core Lean only, executable):

* subjectAltName (2.5.29.17): `marshalSANs` / `parseSANExtension`,
* nameConstraints (2.5.29.30): the `nameConstraints{Permitted, Excluded []generalSubtree}` wire struct as
  `buildExtensions` fills it and `parseCertificate` reads it,
* extKeyUsage (2.5.29.37): `[]asn1.ObjectIdentifier` built from `ExtKeyUsage` ++ `UnknownExtKeyUsage` and split again,
* subjectKeyId (2.5.29.14) and authorityKeyId (2.5.29.35, `authKeyId{Id []byte "optional,tag:0"}`),
* certificatePolicies (2.5.29.32) and cRLDistributionPoints (2.5.29.31),
* the decisions of `buildExtensions` about WHEN an extension is written, in which order and with which
  criticality.

Names are byte strings (`[]byte(name)`: a Go string is a byte sequence and `marshalSANs` copies it unchecked),
IP addresses are byte strings of any length (`net.IP` is a `[]byte`), OIDs are lists of naturals.

Underneath: the TLV framing of encoding/asn1 (go1.23).  Writing is `Spec.DER.tlv` (`appendTagAndLength`:
identifier octet, short or minimal long-form length).  Reading is modelled here after `parseTagAndLength`,
`parseBase128Int`, `parseSequenceOf`, `parseObjectIdentifier`, `parseIA5String` and the optional-field rule of
`parseField`, branch for branch; masks and shifts on a byte are written as arithmetic on its value
(`b&0x7f` = `b % 128`, `b&0x80 == 0` = `b < 128`, `b>>6` = `b / 64`, `b&0x20 == 0x20` = `b / 32 % 2 = 1`,
`b&0x1f` = `b % 32`; `Props.C09Names.byte_mask_facts` checks these identities for all 256 bytes).
`none` always stands for "the Go function returns an error".
-/
import Gmsm.Util.Bytes
import Gmsm.Spec.DER
namespace Model.X509Names
open Gmsm

abbrev Name := Bytes
abbrev IP := Bytes
abbrev OID := List Nat

/-- `math.MaxInt32` -/
def maxInt32 : Nat := 2147483647

-- §1 reading TLVs as encoding/asn1 does ---------------------------------------------------------------------

/-- `parseBase128Int(bytes, offset)`: arguments are the loop counter `shifted`, the accumulator `ret64` and the
    bytes from `offset` on; result (value, bytes after).  `shifted == 5`: "base 128 integer too large"; a
    leading 0x80: "integer is not minimally encoded"; a value above MaxInt32: "too large"; running out of
    bytes: "truncated base 128 integer". -/
def readBase128 : Nat → Nat → Bytes → Option (Nat × Bytes)
  | _, _, [] => none
  | shifted, ret, b :: bs =>
    if shifted = 5 then none
    else if shifted = 0 ∧ b.toNat = 128 then none
    else
      let ret1 := ret * 128 + b.toNat % 128
      if b.toNat < 128 then (if ret1 > maxInt32 then none else some (ret1, bs))
      else readBase128 (shifted + 1) ret1 bs

/-- the long-form loop of `parseTagAndLength`: `k` length octets left, `acc` = `ret.length`:
    out of bytes: "truncated tag or length"; `ret.length >= 1<<23` before the shift: "length too large";
    zero after the first octet(s): "superfluous leading zeros in length" -/
def readLenLoop : Nat → Nat → Bytes → Option (Nat × Bytes)
  | 0, acc, bs => some (acc, bs)
  | _ + 1, _, [] => none
  | k + 1, acc, b :: bs =>
    if acc ≥ 2 ^ 23 then none
    else
      let acc1 := acc * 256 + b.toNat
      if acc1 = 0 then none else readLenLoop k acc1 bs

/-- a parsed `tagAndLength` -/
structure Hdr where
  cls : Nat
  compound : Bool
  tag : Nat
  len : Nat
deriving DecidableEq, Repr

/-- the identifier part of `parseTagAndLength`: class, constructed bit, tag number (low form, or base 128 after
    a 0x1f marker; then values below 0x1f are "non-minimal tag") -/
def readTag (b : Bytes) : Option (Nat × Bool × Nat × Bytes) :=
  match b with
  | [] => none
  | t :: r =>
    let cls := t.toNat / 64
    let compound := decide (t.toNat / 32 % 2 = 1)
    if t.toNat % 32 = 31 then
      match readBase128 0 0 r with
      | none => none
      | some (v, r2) => if v < 31 then none else some (cls, compound, v, r2)
    else some (cls, compound, t.toNat % 32, r)

/-- the length part of `parseTagAndLength`: short form; `0x80` "indefinite length found (not DER)"; long form,
    then below 0x80 is "non-minimal length" -/
def readLength (b : Bytes) : Option (Nat × Bytes) :=
  match b with
  | [] => none
  | l :: r =>
    if l.toNat < 128 then some (l.toNat, r)
    else if l.toNat = 128 then none
    else
      match readLenLoop (l.toNat - 128) 0 r with
      | none => none
      | some (n, r2) => if n < 128 then none else some (n, r2)

/-- `parseTagAndLength(bytes, offset)`: (header, bytes after the header) -/
def readHeader (b : Bytes) : Option (Hdr × Bytes) :=
  match readTag b with
  | none => none
  | some (cls, compound, tag, r) =>
    match readLength r with
    | none => none
    | some (n, r2) => some (⟨cls, compound, tag, n⟩, r2)

/-- `asn1.Unmarshal(b, &rawValue)`: header, `invalidLength` ("data truncated"), then (header, Bytes, rest) -/
def readRaw (b : Bytes) : Option (Hdr × Bytes × Bytes) :=
  match readHeader b with
  | none => none
  | some (h, r) => if r.length < h.len then none else some (h, r.take h.len, r.drop h.len)

/-- the consecutive TLVs that make up `b` exactly (fuel: one unit per element; `b.length` always suffices since
    an element has at least two bytes) -/
def elems : Nat → Bytes → Option (List (Hdr × Bytes))
  | _, [] => some []
  | 0, _ :: _ => none
  | f + 1, b :: bs =>
    match readRaw (b :: bs) with
    | none => none
    | some (h, c, rest) =>
      match elems f rest with
      | none => none
      | some l => some ((h, c) :: l)

def allSome {α : Type} : List (Option α) → Option (List α)
  | [] => some []
  | none :: _ => none
  | some a :: rest => match allSome rest with | none => none | some l => some (a :: l)

/-- `parseSequenceOf(bytes, …)`: first pass: every element has the expected class / constructed bit / tag
    ("sequence tag mismatch") and fits ("truncated sequence"); the contents of the elements, to be parsed by the
    second pass.  (The string / time tag aliasing of the first pass concerns tags 12, 18-20, 22-24, 27, 30 only.) -/
def seqOf (expected : Hdr → Bool) (b : Bytes) : Option (List Bytes) :=
  match elems b.length b with
  | none => none
  | some l => if l.all (fun e => expected e.1) then some (l.map (·.2)) else none

def isSeq (h : Hdr) : Bool := h.cls == 0 && h.compound && h.tag == 16
def isOIDHdr (h : Hdr) : Bool := h.cls == 0 && !h.compound && h.tag == 6
def isOctets (h : Hdr) : Bool := h.cls == 0 && !h.compound && h.tag == 4
/-- context-specific, primitive, number `n`: an implicitly tagged string / byte-slice field -/
def isCtxPrim (n : Nat) (h : Hdr) : Bool := h.cls == 2 && !h.compound && h.tag == n
/-- context-specific, constructed, number `n`: an implicitly tagged SEQUENCE (OF) field -/
def isCtxCons (n : Nat) (h : Hdr) : Bool := h.cls == 2 && h.compound && h.tag == n
/-- context-specific, number `n`, either form: an implicitly tagged `asn1.RawValue` field -/
def isCtx (n : Nat) (h : Hdr) : Bool := h.cls == 2 && h.tag == n

/-- `asn1.Unmarshal(value, &x)` for a non-optional `x` whose type expects `expected`, followed by x509's
    `len(rest) != 0` check: the content octets -/
def topLevel (expected : Hdr → Bool) (v : Bytes) : Option Bytes :=
  match readHeader v with
  | none => none
  | some (h, r) =>
    if !expected h then none
    else if r.length < h.len then none
    else if r.drop h.len ≠ [] then none
    else some (r.take h.len)

/-- `parseField` for an OPTIONAL struct field whose (implicit) tag is `expected`, at the bytes `b` that remain in
    the enclosing SEQUENCE: no bytes left: default; a header that does not parse: error; another tag: default and
    nothing consumed (the length is not even looked at); else `invalidLength`, then (content, bytes after). -/
def optField (expected : Hdr → Bool) (b : Bytes) : Option (Option Bytes × Bytes) :=
  match b with
  | [] => some (none, [])
  | _ :: _ =>
    match readHeader b with
    | none => none
    | some (h, r) =>
      if !expected h then some (none, b)
      else if r.length < h.len then none
      else some (some (r.take h.len), r.drop h.len)

-- §2 writing ------------------------------------------------------------------------------------------------

/-- `appendTagAndLength` + body, for tag numbers below 31: identifier octet, DER length, content -/
def tlv (tag : Byte) (content : Bytes) : Bytes := Spec.DER.tlv tag content

/-- the continuation octets (all but the last) of `appendBase128Int`, least significant group first into `acc` -/
def b128Aux : Nat → Nat → Bytes → Bytes
  | 0, _, acc => acc
  | f + 1, n, acc => if n = 0 then acc else b128Aux f (n / 128) (BitVec.ofNat 8 (128 + n % 128) :: acc)

/-- `appendBase128Int(dst, n)` for `0 ≤ n < 2^63` (an int64): `base128IntLength(n)` groups of seven bits, most
    significant first, bit 8 set on all but the last (nine continuation octets suffice for 2^70) -/
def encBase128 (n : Nat) : Bytes := b128Aux 9 (n / 128) [BitVec.ofNat 8 (n % 128)]

/-- the first subidentifier as `oidEncoder` writes it: `int64(oid[0]*40 + oid[1])` — the sum wraps at 2^63 (Go
    `int`), and `base128IntLength` of a negative number is 0: nothing is written -/
def encFirstSubid (a b : Nat) : Bytes := if 40 * a + b < 2 ^ 63 then encBase128 (40 * a + b) else []

/-- `makeObjectIdentifier` + `oidEncoder`: content octets; "invalid object identifier" for fewer than two arcs,
    a first arc above 2, a second arc ≥ 40 under 0 or 1 -/
def encOID (oid : OID) : Option Bytes :=
  match oid with
  | a :: b :: rest =>
    if a > 2 ∨ (a < 2 ∧ b ≥ 40) then none
    else some (encFirstSubid a b ++ (rest.map encBase128).flatten)
  | _ => none

/-- the loop of `parseObjectIdentifier` with `parseBase128Int` inlined: state = (`shifted`, `ret64`) of the
    integer being read; the subidentifiers in order.  A fresh integer at the end of the bytes ends the loop; an
    unfinished one is "truncated". -/
def decSubids : Nat → Nat → Bytes → Option (List Nat)
  | 0, _, [] => some []
  | _ + 1, _, [] => none
  | shifted, ret, b :: bs =>
    if shifted = 5 then none
    else if shifted = 0 ∧ b.toNat = 128 then none
    else
      let ret1 := ret * 128 + b.toNat % 128
      if b.toNat < 128 then
        (if ret1 > maxInt32 then none
         else match decSubids 0 0 bs with | none => none | some l => some (ret1 :: l))
      else decSubids (shifted + 1) ret1 bs

/-- `parseObjectIdentifier`: "zero length OBJECT IDENTIFIER"; first subidentifier `v`: below 80 ↦ `v/40, v%40`,
    else `2, v-80` -/
def decOID (content : Bytes) : Option OID :=
  match content with
  | [] => none
  | _ :: _ =>
    match decSubids 0 0 content with
    | some (v :: rest) => some ((if v < 80 then [v / 40, v % 40] else [2, v - 80]) ++ rest)
    | _ => none

-- §3 subjectAltName -----------------------------------------------------------------------------------------

/-- `net.IP.To4`: four bytes as they are; sixteen bytes `00×10 ff ff a b c d` ↦ `a b c d`; else nil -/
def to4 (ip : IP) : Option IP :=
  if ip.length = 4 then some ip
  else if ip.length = 16 ∧ ip.take 10 = List.replicate 10 0 ∧ ip.getD 10 0 = 0xff ∧ ip.getD 11 0 = 0xff then
    some (ip.drop 12)
  else none

/-- `ip := rawIP.To4(); if ip == nil { ip = rawIP }` -/
def sanIP (ip : IP) : IP := match to4 ip with | some v => v | none => ip

/-- content of the GeneralNames SEQUENCE: `RawValue{Tag: 2, Class: 2}` per DNS name, then `Tag: 1` per e-mail
    address, then `Tag: 7` per IP address -/
def sanBody (dns emails : List Name) (ips : List IP) : Bytes :=
  (dns.map (tlv 0x82)).flatten ++ (emails.map (tlv 0x81)).flatten ++ (ips.map (fun ip => tlv 0x87 (sanIP ip))).flatten

/-- `marshalSANs(dnsNames, emailAddresses, ipAddresses)` (never fails: RawValues are copied) -/
def encSAN (dns emails : List Name) (ips : List IP) : Bytes := tlv 0x30 (sanBody dns emails ips)

/-- the `for len(rest) > 0` loop of `parseSANExtension`: `switch v.Tag` looks at the tag NUMBER only (not at the
    class, not at the constructed bit): 1 ↦ e-mail, 2 ↦ DNS, 7 ↦ IP when 4 or 16 bytes long and an error
    otherwise, any other number is skipped -/
def sanLoop : Nat → Bytes → Option (List Name × List Name × List IP)
  | _, [] => some ([], [], [])
  | 0, _ :: _ => none
  | f + 1, b :: bs =>
    match readRaw (b :: bs) with
    | none => none
    | some (h, c, rest) =>
      if h.tag = 7 ∧ ¬ (c.length = 4 ∨ c.length = 16) then none
      else
        match sanLoop f rest with
        | none => none
        | some (d, e, i) =>
          if h.tag = 1 then some (d, c :: e, i)
          else if h.tag = 2 then some (c :: d, e, i)
          else if h.tag = 7 then some (d, e, c :: i)
          else some (d, e, i)

/-- `parseSANExtension(value)`: one RawValue, nothing after it, `IsCompound && Tag == 16 && Class == 0`, the loop -/
def decSAN (v : Bytes) : Option (List Name × List Name × List IP) :=
  match readRaw v with
  | none => none
  | some (h, c, rest) =>
    if rest ≠ [] then none
    else if !isSeq h then none
    else sanLoop c.length c

/-- case 17 of `parseCertificate`: "if we didn't parse anything then we do the critical check": the extension is
    listed in UnhandledCriticalExtensions when it is critical and yields no name of the three kinds -/
def sanUnhandled (critical : Bool) (r : List Name × List Name × List IP) : Bool :=
  critical && r.1.isEmpty && r.2.1.isEmpty && r.2.2.isEmpty

-- §4 nameConstraints ----------------------------------------------------------------------------------------

/-- `makeIA5String` / `parseIA5String`: every byte below 0x80 (NUL is fine) -/
def isIA5 (s : Bytes) : Bool := s.all (fun b => b.toNat < 128)

/-- `generalSubtree{Name string "tag:2,optional,ia5"}`: an `optional` field equal to its zero value is omitted -/
def encSubtree (n : Name) : Bytes := tlv 0x30 (if n.isEmpty then [] else tlv 0x82 n)

/-- `asn1.Marshal(nameConstraints{Permitted: …})` (Excluded nil: omitted); error "IA5String contains invalid
    character" -/
def encNameConstraints (permitted : List Name) : Option Bytes :=
  if permitted.all isIA5 then some (tlv 0x30 (tlv 0xa0 ((permitted.map encSubtree).flatten))) else none

/-- the struct `generalSubtree` from the content of its SEQUENCE: the optional `[2]` IA5String, and whatever
    follows (minimum, maximum, anything) is ignored, "because adding elements to the end has been used in X.509".
    Any other name form ([1], [4], [7] …) leaves `Name` empty. -/
def parseSubtree (inner : Bytes) : Option Name :=
  match optField (isCtxPrim 2) inner with
  | none => none
  | some (none, _) => some []
  | some (some s, _) => if isIA5 s then some s else none

/-- a `[]generalSubtree "optional,tag:n"` field at `b`: (names, bytes after) -/
def optSubtrees (n : Nat) (b : Bytes) : Option (List Name × Bytes) :=
  match optField (isCtxCons n) b with
  | none => none
  | some (none, rest) => some ([], rest)
  | some (some c, rest) =>
    match seqOf isSeq c with
    | none => none
    | some es => match allSome (es.map parseSubtree) with | none => none | some l => some (l, rest)

inductive NCOut where
  | err
  | unhandledCritical
  | ok (domains : List Name)
deriving DecidableEq, Repr

/-- case 30 of `parseCertificate` for an extension with the given criticality: `asn1.Unmarshal` into
    `nameConstraints`, trailing data check; excluded subtrees in a critical extension: `UnhandledCriticalExtension`
    (in a non-critical one: ignored); a permitted subtree without dNSName: the same if critical, else skipped.
    `ok`: `PermittedDNSDomains`; `PermittedDNSDomainsCritical` is the criticality. -/
def decNameConstraints (critical : Bool) (v : Bytes) : NCOut :=
  match topLevel isSeq v with
  | none => .err
  | some c =>
    match optSubtrees 0 c with
    | none => .err
    | some (permitted, r1) =>
      match optSubtrees 1 r1 with
      | none => .err
      | some (excluded, _) =>
        if !excluded.isEmpty && critical then .unhandledCritical
        else if critical && permitted.any (·.isEmpty) then .unhandledCritical
        else .ok (permitted.filter (fun n => !n.isEmpty))

-- §5 extKeyUsage --------------------------------------------------------------------------------------------

/-- `extKeyUsageOIDs`, index = the `ExtKeyUsage` constant (iota) -/
def ekuTable : List OID :=
  [[2, 5, 29, 37, 0], [1, 3, 6, 1, 5, 5, 7, 3, 1], [1, 3, 6, 1, 5, 5, 7, 3, 2], [1, 3, 6, 1, 5, 5, 7, 3, 3],
   [1, 3, 6, 1, 5, 5, 7, 3, 4], [1, 3, 6, 1, 5, 5, 7, 3, 5], [1, 3, 6, 1, 5, 5, 7, 3, 6], [1, 3, 6, 1, 5, 5, 7, 3, 7],
   [1, 3, 6, 1, 5, 5, 7, 3, 8], [1, 3, 6, 1, 5, 5, 7, 3, 9], [1, 3, 6, 1, 4, 1, 311, 10, 3, 3], [2, 16, 840, 1, 113730, 4, 1]]

/-- `oidFromExtKeyUsage` (`none`: not found, `buildExtensions` returns an error - it panicked before the round-12 repair) -/
def oidFromEKU (u : Nat) : Option OID := ekuTable[u]?

/-- `extKeyUsageFromOID`: first table entry with that OID -/
def ekuFromOID (o : OID) : Option Nat :=
  let i := ekuTable.findIdx (· == o)
  if i < ekuTable.length then some i else none

/-- `asn1.Marshal([]asn1.ObjectIdentifier)` -/
def encOIDList (oids : List OID) : Option Bytes :=
  match allSome (oids.map encOID) with
  | none => none
  | some cs => some (tlv 0x30 ((cs.map (tlv 0x06)).flatten))

/-- the EKU branch of `buildExtensions`: the OIDs of `ExtKeyUsage` in order, then `UnknownExtKeyUsage` -/
def encEKU (known : List Nat) (unknown : List OID) : Option Bytes :=
  match allSome (known.map oidFromEKU) with
  | none => none
  | some ks => encOIDList (ks ++ unknown)

/-- `asn1.Unmarshal(value, &[]asn1.ObjectIdentifier)` + trailing data check -/
def decOIDList (v : Bytes) : Option (List OID) :=
  match topLevel isSeq v with
  | none => none
  | some c =>
    match seqOf isOIDHdr c with
    | none => none
    | some es => allSome (es.map decOID)

/-- the loop of case 37: known usages to `ExtKeyUsage`, the others to `UnknownExtKeyUsage`, each in wire order -/
def splitEKU (oids : List OID) : List Nat × List OID :=
  (oids.filterMap ekuFromOID, oids.filter (fun o => (ekuFromOID o).isNone))

def decEKU (v : Bytes) : Option (List Nat × List OID) := (decOIDList v).map splitEKU

-- §6 key identifiers ----------------------------------------------------------------------------------------

/-- `asn1.Marshal(template.SubjectKeyId)`: OCTET STRING -/
def encSKI (id : Bytes) : Bytes := tlv 0x04 id
/-- case 14: `asn1.Unmarshal(value, &keyid)` into a `[]byte` -/
def decSKI (v : Bytes) : Option Bytes := topLevel isOctets v

/-- `asn1.Marshal(authKeyId{id})` for a non-empty id: SEQUENCE { [0] IMPLICIT OCTET STRING } -/
def encAKI (id : Bytes) : Bytes := tlv 0x30 (tlv 0x80 id)
/-- case 35: the optional `[0]` field; issuer / serial ([1], [2]) and anything else are ignored -/
def decAKI (v : Bytes) : Option Bytes :=
  match topLevel isSeq v with
  | none => none
  | some c =>
    match optField (isCtxPrim 0) c with
    | none => none
    | some (none, _) => some []
    | some (some id, _) => some id

/-- utils.go `CreateCertificate`: `if !bytes.Equal(asn1Issuer, asn1Subject) && len(parent.SubjectKeyId) > 0
    { template.AuthorityKeyId = parent.SubjectKeyId }` -/
def effectiveAKI (sameName : Bool) (parentSKI templateAKI : Bytes) : Bytes :=
  if !sameName && !parentSKI.isEmpty then parentSKI else templateAKI

-- §7 certificatePolicies, cRLDistributionPoints -------------------------------------------------------------

/-- `asn1.Marshal([]policyInformation)`: SEQUENCE OF SEQUENCE { OID } -/
def encPolicies (oids : List OID) : Option Bytes :=
  match allSome (oids.map encOID) with
  | none => none
  | some cs => some (tlv 0x30 ((cs.map (fun c => tlv 0x30 (tlv 0x06 c))).flatten))

/-- `policyInformation{Policy asn1.ObjectIdentifier}` from the content of its SEQUENCE: the field is mandatory
    ("sequence truncated" / "tags don't match"), qualifiers after it are ignored -/
def parsePolicy (inner : Bytes) : Option OID :=
  match readHeader inner with
  | none => none
  | some (h, r) => if !isOIDHdr h then none else if r.length < h.len then none else decOID (r.take h.len)

/-- case 32 -/
def decPolicies (v : Bytes) : Option (List OID) :=
  match topLevel isSeq v with
  | none => none
  | some c =>
    match seqOf isSeq c with
    | none => none
    | some es => allSome (es.map parsePolicy)

/-- the CRL distribution point branch of `buildExtensions`: per URI
    SEQUENCE { [0] { [0] { [6] uri } } } (distributionPoint → fullName → uniformResourceIdentifier) -/
def encCRLDP (uris : List Name) : Bytes :=
  tlv 0x30 ((uris.map (fun u => tlv 0x30 (tlv 0xa0 (tlv 0xa0 (tlv 0x86 u))))).flatten)

/-- `parseBitString` as far as it can fail: "zero length BIT STRING"; "invalid padding bits": more than 7, or
    padding on an empty string, or a set bit among the padding bits of the last byte -/
def validBitString (c : Bytes) : Bool :=
  match c with
  | [] => false
  | p :: rest => !(decide (p.toNat > 7) || (rest.isEmpty && decide (p.toNat > 0)) || decide ((c.getLastD 0).toNat % 2 ^ p.toNat ≠ 0))

/-- `asn1.Unmarshal(dp.DistributionPoint.FullName.Bytes, &n)` and `n.Tag == 6`: only the FIRST GeneralName is
    read ("trailing data after the fullName is allowed"); `some none`: nothing to record -/
def fullNameURI (full : Bytes) : Option (Option Name) :=
  match full with
  | [] => some none
  | _ :: _ =>
    match readRaw full with
    | none => none
    | some (h, c, _) => if h.tag = 6 then some (some c) else some none

/-- `distributionPointName{FullName asn1.RawValue "optional,tag:0"; RelativeName pkix.RDNSequence
    "optional,tag:1"}` from the content of the `[0]` field: the FullName bytes and what is left for RelativeName.
    The parse of a RelativeName (an RDNSequence with ANY-typed attribute values) is NOT modelled: the model
    speaks about values where nothing follows FullName (`crldpModelled`). -/
def parseDPName (dpn : Bytes) : Option (Option Name) :=
  match optField (isCtx 0) dpn with
  | none => none
  | some (none, _) => some none
  | some (some full, _) => fullNameURI full

/-- one `distributionPoint{DistributionPoint distributionPointName "optional,tag:0"; Reason asn1.BitString
    "optional,tag:1"; CRLIssuer asn1.RawValue "optional,tag:2"}` from the content of its SEQUENCE, as far as
    `CRLDistributionPoints` depends on it: `some none` = no fullName / no URI first (skipped), `some (some u)` =
    a URI -/
def parseDP (inner : Bytes) : Option (Option Name) :=
  match optField (isCtxCons 0) inner with
  | none => none
  | some (dpn, r1) =>
    match (match dpn with | none => some none | some d => parseDPName d) with
    | none => none
    | some res =>
      match optField (isCtxPrim 1) r1 with
      | none => none
      | some (reason, r2) =>
        if (match reason with | some c => !validBitString c | none => false) then none
        else
          match optField (isCtx 2) r2 with
          | none => none
          | some _ => some res

/-- the distribution point has nothing after FullName inside `[0]` (no RelativeName to parse) -/
def crldpModelled (inner : Bytes) : Bool :=
  match optField (isCtxCons 0) inner with
  | some (some dpn, _) => (match optField (isCtx 0) dpn with | some (_, r2) => r2.isEmpty | none => true)
  | _ => true

/-- case 31 -/
def decCRLDP (v : Bytes) : Option (List Name) :=
  match topLevel isSeq v with
  | none => none
  | some c =>
    match seqOf isSeq c with
    | none => none
    | some es => (allSome (es.map parseDP)).map (fun l => l.filterMap id)

-- §8 when `buildExtensions` writes what --------------------------------------------------------------------

/-- the template fields these extensions depend on (plus KeyUsage ≠ 0 and BasicConstraintsValid, for the order) -/
structure Template where
  keyUsage : Bool := false
  eku : List Nat := []
  unknownEKU : List OID := []
  basicConstraintsValid : Bool := false
  ski : Bytes := []
  aki : Bytes := []
  aia : Bool := false
  dns : List Name := []
  emails : List Name := []
  ips : List IP := []
  policies : List OID := []
  permitted : List Name := []
  permittedCritical : Bool := false
  crldp : List Name := []
deriving Repr

def ekuEmitted (t : Template) : Bool := !t.eku.isEmpty || !t.unknownEKU.isEmpty
def skiEmitted (t : Template) : Bool := !t.ski.isEmpty
def akiEmitted (t : Template) : Bool := !t.aki.isEmpty
/-- `len(DNSNames) > 0 || len(EmailAddresses) > 0 || len(IPAddresses) > 0` -/
def sanEmitted (t : Template) : Bool := !t.dns.isEmpty || !t.emails.isEmpty || !t.ips.isEmpty
/-- this version never sets `Critical` on the SAN extension — also not for an empty subject (RFC 5280 4.1.2.6
    wants it critical then; later Go versions do that) -/
def sanCritical (_subjectEmpty : Bool) : Bool := false
def policiesEmitted (t : Template) : Bool := !t.policies.isEmpty
def ncEmitted (t : Template) : Bool := !t.permitted.isEmpty
def ncCritical (t : Template) : Bool := t.permittedCritical
def crldpEmitted (t : Template) : Bool := !t.crldp.isEmpty

/-- the extensions `buildExtensions` writes (without ExtraExtensions), in its order: (last arc of the 2.5.29.x id
    — 1 stands for authorityInfoAccess 1.3.6.1.5.5.7.1.1 —, critical) -/
def extensionList (t : Template) (subjectEmpty : Bool) : List (Nat × Bool) :=
  (if t.keyUsage then [(15, true)] else []) ++
  (if ekuEmitted t then [(37, false)] else []) ++
  (if t.basicConstraintsValid then [(19, true)] else []) ++
  (if skiEmitted t then [(14, false)] else []) ++
  (if akiEmitted t then [(35, false)] else []) ++
  (if t.aia then [(1, false)] else []) ++
  (if sanEmitted t then [(17, sanCritical subjectEmpty)] else []) ++
  (if policiesEmitted t then [(32, false)] else []) ++
  (if ncEmitted t then [(30, ncCritical t)] else []) ++
  (if crldpEmitted t then [(31, false)] else [])

end Model.X509Names
