/-
The client identity a gmtls server ends a connection with, whichever way the handshake went: resumed from a
ticket (`checkForResumption` accepted it: `doResumeHandshake` restores the certificates stored in the session)
or negotiated in full (`doFullHandshake` / `processCertsFromClient`).  Built on `Model.Resume`; used for
histories in which the ClientAuth policy changes between connections while the session-ticket keys stay the
same (one `Config` that is edited, several `Config`s with the same `SetSessionTicketKeys`, or the `Config`s
handed out by `GetConfigForClient`, which inherit the keys through `ensureTicketKeys`).
Core Lean only; executable.
-/
import Gmsm.Model.Resume
namespace Model.ResumeAuth
open Model.Resume

/-- the session the server holds when the handshake `conn` completes, and whether it was resumed: the state
    sealed in the accepted ticket, else the one the full handshake creates; `none` when the handshake fails -/
def served (m : Mode) (w : World) (r : ConnReq) : Option (Sess × Bool) :=
  match resumeDecision m w r with
  | some (st, _) => some (st, true)
  | none => (fullOutcome m w r).map fun st => (st, false)

/-- what ClientAuth policy `a` (0 NoClientCert, 1 RequestClientCert, 2 RequireAnyClientCert,
    3 VerifyClientCertIfGiven, 4 RequireAndVerifyClientCert) demands of the client identity `st` that a
    completed connection reports: a certificate under the Require* policies, none under NoClientCert, and under
    the verifying policies only certificates that chain to the client CAs -/
def policyMet (a : Nat) (st : Sess) : Bool :=
  (!(a == 2 || a == 4) || st.ccerts != 0) && (!(decide (a ≥ 3) && st.ccerts != 0) || st.ctrust) &&
  (!(a == 0) || st.ccerts == 0)

/-- one item of a policy history: the server's ClientAuth for this connection and what the client holds
    (0 nothing, 1 a certificate under the server's client CA, 2 a certificate of an untrusted CA) -/
structure Item where
  auth : Nat
  ccert : Nat
deriving Repr

/-- what both ends report: failed, or completed (resumed?) with so many client certificates at the server -/
inductive Report
  | failed
  | completed (resumed : Bool) (ccerts : Nat)
deriving DecidableEq, Repr

/-- one connection of the history on server 0: the policy is put in force (`Step.auth`), the entry point
    ensures ticket keys (`prep`), the handshake runs (`conn`) -/
def connect (m : Mode) (w : World) (cs : Option (List Suite)) (it : Item) : World × Report :=
  let w1 := (step m w (.auth 0 it.auth)).1
  let r : ConnReq := ⟨0, cs, it.ccert, false⟩
  let w2 := prep w1 r
  ((conn m w2 r).1,
   match served m w2 r with
   | some (st, res) => .completed res st.ccerts
   | none => .failed)

def runItems (m : Mode) (cs : Option (List Suite)) : World → List Item → List Report
  | _, [] => []
  | w, it :: rest => let (w', o) := connect m w cs it; o :: runItems m cs w' rest

/-- the world of the `rauth` op: one server (ticket key 100, tickets enabled) with the given `CipherSuites`,
    a client cache with one slot -/
def world (suites : Option (List Suite)) : World :=
  let w := initWorld 1
  { w with srv := setSrv w.srv 0 { w.srv 0 with suites := suites } }

end Model.ResumeAuth
