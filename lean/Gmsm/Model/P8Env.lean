/-
The password-protected PKCS#8 envelope of x509/pkcs8.go:

* `MarshalSm2EcryptedPrivateKey` (lines 318-373): inner DER of `MarshalSm2UnecryptedPrivateKey`,
  `pbkdf(pwd, salt, 2048, 32, sha1.New)`, a hand-written PKCS#7-style pad to the AES block size
  (`padding = 16 - len%16`, ALWAYS 1..16 bytes, the `if padding > 0` is always true), AES-CBC,
  the `EncryptedPrivateKeyInfo` structure with the constants PBES2 / PBKDF2 / hmacWithSHA1 / aes256-CBC.
* `ParsePKCS8EcryptedPrivateKey` (lines 230-288): every check and every error in the order of the code;
  the decrypted bytes are handed to `ParsePKCS8UnecryptedPrivateKey` WITH the padding still attached
  (there is no un-padding), and any failure of that parser is reported as "pkcs8: incorrect password".
* the dispatch of `ParsePKCS8PrivateKey` (290-296) and `MarshalSm2PrivateKey` (375-380) on `pwd == nil`
  (a nil password and an empty, non-nil password are different).

Level of the model: the DECODED structure (`Envelope` = the fields of `EncryptedPrivateKeyInfo`).
encoding/asn1 itself is NOT modelled: `asn1.Unmarshal` / `asn1.Marshal` of the envelope appear only as
the abstract pair `decodeEnv` / `encodeEnv` of `Params` (used by the two dispatch functions alone), and
the inner key codec (`MarshalSm2UnecryptedPrivateKey` / `ParsePKCS8UnecryptedPrivateKey` on byte
strings) as the abstract pair `marshalInner` / `parseInner`.

Abstract as well (standard library, trusted):
* the block cipher: `E D : Key → Block → Block` on 16-byte blocks stand for `aes.NewCipher(key)`'s
  Encrypt / Decrypt.  The derived key ALWAYS has 32 bytes (`pbkdf` returns `dk[:32]`), so
  `aes.NewCipher(key)` cannot fail (its error branch in both functions is dead code; `Key` is the type of
  32-byte strings), and the cipher is AES-256 on parse even when the envelope names aes128-CBC.
* `kdf prf pwd salt iter` stands for `pbkdf(pwd, salt, iter, 32, h)` with `h` the hash chosen by `prf`.
  (For `h = sm3.New` the loop of `pbkdf` is proved equal to PBKDF2-HMAC-SM3 in Props/C04HMAC `pbkdf_eq`,
  its output length in `pbkdf_length`; the four hashes used here are crypto/md5, sha1, sha256, sha512.)
  A negative `IterationCount` (Go `int`) makes `for n := 2; n <= iter` run zero times exactly like 0 and
  1; the decoded count is represented by its `Int.toNat`.

CBC is SP 800-38A's chain `Spec.Modes.cbcEnc` / `cbcDec` (the one used by Model.SM4Modes and
Model.P7Block) over the lifted block function, on `blocks (len/16)`: `CryptBlocks` panics on an input
that is not a whole number of blocks, which the pad (marshal) and the length check (parse) exclude, and
`NewCBCEncrypter/Decrypter` panic on an IV of another length than 16, which `make([]byte, 16)` (marshal)
and the IV check (parse) exclude.

Core Lean only; executable.
-/
import Gmsm.Spec.Modes
namespace Gmsm.Model.P8Env
open Gmsm Spec.Modes

abbrev Oid := List Nat

def oidPBES2 : Oid := [1, 2, 840, 113549, 1, 5, 13]
def oidPBKDF2 : Oid := [1, 2, 840, 113549, 1, 5, 12]
def oidKEYMD5 : Oid := [1, 2, 840, 113549, 2, 5]
def oidKEYSHA1 : Oid := [1, 2, 840, 113549, 2, 7]
def oidKEYSHA256 : Oid := [1, 2, 840, 113549, 2, 9]
def oidKEYSHA512 : Oid := [1, 2, 840, 113549, 2, 11]
def oidAES128CBC : Oid := [2, 16, 840, 1, 101, 3, 4, 1, 2]
def oidAES256CBC : Oid := [2, 16, 840, 1, 101, 3, 4, 1, 42]

/-- the hash handed to `pbkdf` -/
inductive PrfId | md5 | sha1 | sha256 | sha512
deriving DecidableEq, Repr

/-- the `switch` of lines 255-270, cases in the order of the code; `none` = `default` -/
def prfOfOid (o : Oid) : Option PrfId :=
  if o = oidKEYMD5 then some .md5
  else if o = oidKEYSHA1 then some .sha1
  else if o = oidKEYSHA256 then some .sha256
  else if o = oidKEYSHA512 then some .sha512
  else none

/-- one AES block -/
abbrev Block := { b : Bytes // b.length = 16 }
/-- a derived key: `pbkdf(…, 32, …)` returns `dk[:32]` -/
abbrev Key := { b : Bytes // b.length = 32 }

/-- the decoded `EncryptedPrivateKeyInfo` (lines 66-99); the `Parameters` of the PRF
    AlgorithmIdentifier (NULL when written) are never looked at by the parser and are left out -/
structure Envelope where
  pbes2Oid : Oid          -- EncryptionAlgorithm.IdPBES2
  kdfOid : Oid            -- Pbes2Params.KeyDerivationFunc.IdPBKDF2
  salt : Bytes            -- Pkdf2Params.Salt
  iter : Nat              -- Pkdf2Params.IterationCount (toNat)
  prfOid : Oid            -- Pkdf2Params.Prf.Algorithm
  encOid : Oid            -- Pbes2Params.EncryptionScheme.EncryAlgo
  iv : Bytes              -- EncryptionScheme.IV
  encryptedData : Bytes   -- EncryptedData
deriving DecidableEq, Repr

/-- the errors of `ParsePKCS8EcryptedPrivateKey` in the order of the code, plus `inner` for an error of
    `ParsePKCS8UnecryptedPrivateKey` passed through by `ParsePKCS8PrivateKey` with a nil password -/
inductive Err
  | unknownFormat       -- "x509: unknown format" (asn1.Unmarshal failed)
  | onlyPBES2           -- "x509: only support PBES2"
  | onlyPBKDF2          -- "x509: only support PBKDF2"
  | unknownEncAlg       -- "x509: unknow encryption algorithm"
  | unknownHash         -- "x509: unknown hash algorithm"
  | invalidIVLength     -- "x509: invalid IV length in PBES2 parameters"
  | notMultiple         -- "x509: encrypted key is not a multiple of the block size"
  | incorrectPassword   -- "pkcs8: incorrect password"
  | inner               -- any error of ParsePKCS8UnecryptedPrivateKey (nil password only)
deriving DecidableEq, Repr

/-- what the two functions are parametrised by (see the file comment) -/
structure Params (K : Type) where
  E : Key → Block → Block
  D : Key → Block → Block
  kdf : PrfId → Bytes → Bytes → Nat → Key
  marshalInner : K → Bytes
  parseInner : Bytes → Option K
  encodeEnv : Envelope → Bytes
  decodeEnv : Bytes → Option Envelope

/-- a block function as a function on byte strings (the chains of `Spec.Modes` are written over
    those); only ever applied to 16-byte strings, the other branch is never reached -/
def liftB (f : Block → Block) (b : Bytes) : Bytes :=
  if h : b.length = 16 then (f ⟨b, h⟩).1 else List.replicate 16 0

/-- `cipher.NewCBCEncrypter(block, iv).CryptBlocks(dst, src)`: C_i = E(P_i ⊕ C_{i-1}), C_0 = IV -/
def cbcEncrypt (E : Key → Block → Block) (key : Key) (iv src : Bytes) : Bytes :=
  (cbcEnc (liftB (E key)) iv (blocks (src.length / 16) src)).flatten

/-- `cipher.NewCBCDecrypter(block, iv).CryptBlocks(dst, src)`: P_i = D(C_i) ⊕ C_{i-1}, C_0 = IV -/
def cbcDecrypt (D : Key → Block → Block) (key : Key) (iv src : Bytes) : Bytes :=
  (cbcDec (liftB (D key)) iv (blocks (src.length / 16) src)).flatten

/-- lines 329-336: `padding := 16 - len(der)%16`, then `padding` bytes of value `padding` -/
def pad (der : Bytes) : Bytes := pad16 der

section
variable {K : Type} (P : Params K)

/-- `MarshalSm2EcryptedPrivateKey(key, pwd)` up to the final `asn1.Marshal`, with the two
    `rand.Reader.Read` results as arguments (`salt`: 8 bytes, `iv`: 16 bytes in the code) -/
def marshal (k : K) (pwd salt iv : Bytes) : Envelope :=
  let der := P.marshalInner k
  let iter := 2048
  let key := P.kdf .sha1 pwd salt iter
  let der := pad der
  { pbes2Oid := oidPBES2
    kdfOid := oidPBKDF2
    salt := salt
    iter := iter
    prfOid := oidKEYSHA1
    encOid := oidAES256CBC
    iv := iv
    encryptedData := cbcEncrypt P.E key iv der }

/-- `ParsePKCS8EcryptedPrivateKey` after the `asn1.Unmarshal` -/
def parse (env : Envelope) (pwd : Bytes) : Except Err K :=
  if env.pbes2Oid ≠ oidPBES2 then .error .onlyPBES2
  else if env.kdfOid ≠ oidPBKDF2 then .error .onlyPBKDF2
  else if env.encOid ≠ oidAES128CBC ∧ env.encOid ≠ oidAES256CBC then .error .unknownEncAlg
  else
    match prfOfOid env.prfOid with
    | none => .error .unknownHash
    | some prf =>
      let key := P.kdf prf pwd env.salt env.iter
      -- aes.NewCipher(key): 32 bytes, no error
      if env.iv.length ≠ 16 then .error .invalidIVLength
      else if env.encryptedData.length = 0 ∨ env.encryptedData.length % 16 ≠ 0 then .error .notMultiple
      else
        match P.parseInner (cbcDecrypt P.D key env.iv env.encryptedData) with
        | none => .error .incorrectPassword
        | some k => .ok k

/-- `ParsePKCS8EcryptedPrivateKey(der, pwd)` -/
def parseDer (der pwd : Bytes) : Except Err K :=
  match P.decodeEnv der with
  | none => .error .unknownFormat
  | some env => parse P env pwd

/-- `ParsePKCS8PrivateKey(der, pwd)`: `pwd == nil` ↦ `none`; `[]byte{}` is `some []` -/
def parsePrivateKey (der : Bytes) (pwd : Option Bytes) : Except Err K :=
  match pwd with
  | none =>
    match P.parseInner der with
    | none => .error .inner
    | some k => .ok k
  | some p => parseDer P der p

/-- `MarshalSm2PrivateKey(key, pwd)` (salt and iv are only drawn on the encrypted path) -/
def marshalPrivateKey (k : K) (pwd : Option Bytes) (salt iv : Bytes) : Bytes :=
  match pwd with
  | none => P.marshalInner k
  | some p => P.encodeEnv (marshal P k p salt iv)

end

/-! a toy instance for kernel-evaluated examples: the "cipher" xors the block with the first half of
    the key, the inner codec is `30 <b>`, the key derivation pads/cuts `pwd ++ salt` to 32 bytes, the
    envelope codec writes the data field behind a length byte -/

theorem xorBytes_lenN : ∀ (n : Nat) (a b : Bytes), a.length = n → n ≤ b.length → (xorBytes a b).length = n
  | 0, a, b, h, _ => by
    cases a with
    | nil => cases b <;> simp [xorBytes]
    | cons _ _ => simp at h
  | n+1, a, b, h1, h2 => by
    cases a with
    | nil => simp at h1
    | cons y ys =>
      cases b with
      | nil => simp at h2
      | cons z zs =>
        simp only [xorBytes, List.length_cons] at h1 h2 ⊢
        rw [xorBytes_lenN n ys zs (by omega) (by omega)]

theorem xorBytes_len16 (a b : Bytes) (ha : a.length = 16) (hb : 16 ≤ b.length) :
    (xorBytes a b).length = 16 := xorBytes_lenN 16 a b ha hb

def toyXor (key : Key) (b : Block) : Block :=
  ⟨xorBytes b.1 key.1, xorBytes_len16 b.1 key.1 b.2 (by rw [key.2]; omega)⟩

def toyKdf (_ : PrfId) (pwd salt : Bytes) (_ : Nat) : Key :=
  ⟨(pwd ++ salt ++ List.replicate 32 0).take 32, by simp; omega⟩

def toyParseInner : Bytes → Option Byte
  | 0x30#8 :: b :: _ => some b
  | _ => none

def toyEnvelope (data : Bytes) : Envelope :=
  ⟨oidPBES2, oidPBKDF2, [], 2048, oidKEYSHA1, oidAES256CBC, List.replicate 16 0, data⟩

def toy : Params Byte where
  E := toyXor
  D := toyXor
  kdf := toyKdf
  marshalInner := fun b => [0x30#8, b]
  parseInner := toyParseInner
  encodeEnv := fun e => e.salt ++ e.iv ++ e.encryptedData
  decodeEnv := fun b => some { toyEnvelope (b.drop 24) with salt := b.take 8, iv := (b.drop 8).take 16 }

end Gmsm.Model.P8Env
