/-
Model of the BUFFERING logic of the consumers of gmtls' record layer (gmtls/conn.go):

  * `Conn.Read(b)`          (conn.go 1142-1207) with the block `c.input`, and
  * `Conn.readHandshake()`  (conn.go 959-1035)  with the buffer `c.hand`,

both on top of `Conn.readRecord(want)` (conn.go 575-743; line numbers as of /repo commit 1d83437).  Record PROTECTION is abstracted away (it is
modelled in `Model.Record` and proved in `Props.C07Stream`): the input of this model is the list of records
as `readRecord` sees them AFTER `halfConn.decrypt` — (type, plaintext) — or the way in which `readRecord`
fails on them, followed by the end of the transport stream (= the end of the list).

What is kept of the transport: one bit per record, `Item.sep`, "a transport read boundary lies directly in
front of this record", i.e. the first byte of this record is NOT yet in `c.rawInput` when the record before
it has been split off.  That bit is all the close_notify look-ahead of `Conn.Read` depends on
(`len(ri.data) > 0 && recordType(ri.data[0]) == recordTypeAlert`).  (`readFromUntil` reads from the
transport only while the current record is incomplete and then takes whatever one `conn.Read` returns into
the spare capacity — a power of two ≥ 1024 — of the block; for the CBC suite a record is ≡ 5 mod 16 bytes
long, never the exact capacity, so "same transport read ⇒ first byte buffered" is exact for the harness.)

"Model the code that exists":
  * the loop of `Conn.Read` runs `emptyRecordCount = 0 … 100` INCLUSIVE, i.e. 101 iterations: 100 empty
    records in front of a data record are tolerated, the 101st yields `io.ErrNoProgress`, which is NOT
    stored in `c.in.err` (the next Read simply goes on);
  * warning alerts are dropped inside `readRecord` (`goto Again`), at most `maxWarnAlertCount = 5` in a row;
    the counter is reset by a non-alert record with NON-EMPTY payload only;
  * the end of the transport at a record boundary is `io.EOF`, the same value as close_notify; inside a record
    — inside its 5-byte header (conn.go 602-612) or inside its body (647-655) — it is `io.ErrUnexpectedEOF`;
  * `readHandshake` skips EMPTY handshake records without any limit;
  * `readHandshake` looks at `c.in.err` only while `c.hand` is too short.
Core Lean only; executable; structural recursion throughout (so `decide` can run it).
-/
import Gmsm.Util.Bytes
namespace Model.ConnRead
open Gmsm

/-! ## constants of the source -/

/-- `const maxConsecutiveEmptyRecords = 100` in `Conn.Read` -/
def maxConsecutiveEmptyRecords : Nat := 100
/-- `maxWarnAlertCount = 5` (common.go) -/
def maxWarnAlertCount : Nat := 5
/-- `maxHandshake = 65536` (common.go) -/
def maxHandshake : Nat := 65536

/-- classes of the `error` values that `Conn.Read` / `readHandshake` / `readRecord` return -/
inductive Err
  | eof                -- io.EOF: close_notify, or the transport ended at a record boundary
  | unexpectedEOF      -- io.ErrUnexpectedEOF: the transport ended inside a record (header or body)
  | remote             -- a fatal alert from the peer (`remote error`)
  | tooManyWarn        -- "tls: too many warn alerts"
  | unexpectedMessage  -- local alert 10
  | badRecord          -- local alert 20 (bad_record_mac; `halfConn.decrypt` refused the record)
  | noRenegotiation    -- local alert 100 (a handshake record where none is wanted)
  | noProgress         -- io.ErrNoProgress (never stored in `c.in.err`)
  | tooLong            -- "tls: handshake message of length %d bytes exceeds maximum of %d bytes"
  | nilInput           -- placeholder for `c.input.Read` on a nil block; never returned (`Props.C06Read.read_never_nil`)
deriving DecidableEq, Repr

/-- the `error` result of a call: `none` = nil -/
abbrev Outcome := Option Err

/-! ## 1. `Conn.Read` -/

/-- a record as `readRecord(recordTypeApplicationData)` sees it after decryption -/
inductive Rec
  /-- application data with this plaintext (may be empty) -/
  | data (p : Bytes)
  /-- alert, description close_notify (conn.go 686) -/
  | closeNotify
  /-- alert of level warning, not close_notify: "drop on the floor", `goto Again` (conn.go 691-701) -/
  | warning
  /-- anything on which `readRecord` stores the sticky error `e` and returns it: a fatal alert (`remote`), a
      record refused by `decrypt` (`badRecord`), a handshake record on an endpoint that does not renegotiate
      (`noRenegotiation`), ChangeCipherSpec (`unexpectedMessage`), the transport ending inside this record
      (`unexpectedEOF`, inside the header as well as inside the body: `Rec.truncated`).  `alertTyped`: the first
      wire byte is 21. -/
  | fail (alertTyped : Bool) (e : Err)
deriving DecidableEq, Repr

/-- the transport ends inside this record — after 1..4 bytes of its header or inside its body: `readRecord`
    stores and returns `io.ErrUnexpectedEOF` in both cases (conn.go 602-612, 647-655) -/
def Rec.truncated (alertTyped : Bool) : Rec := .fail alertTyped .unexpectedEOF

/-- is the first wire byte `recordTypeAlert`? -/
def Rec.alertTyped : Rec → Bool
  | .data _ => false
  | .closeNotify => true
  | .warning => true
  | .fail a _ => a

structure Item where
  /-- a transport read boundary lies directly in front of this record -/
  sep : Bool
  kind : Rec
deriving DecidableEq, Repr

/-- the fields of `Conn` that `Conn.Read` works on -/
structure Reader where
  /-- `c.input`: `none` = nil, `some rest` = the unread rest `data[off:]` of the current record -/
  input : Option Bytes
  /-- what the transport still holds (`c.rawInput` and the connection), as records -/
  pending : List Item
  /-- `c.in.err`, sticky -/
  err : Option Err
  /-- `c.warnCount` -/
  warnCount : Nat
deriving DecidableEq, Repr

/-- an established connection on which nothing has been read yet -/
def Reader.init (pending : List Item) : Reader := ⟨none, pending, none, 0⟩

/-- What one call `readRecord(recordTypeApplicationData)` does to (`c.input`, transport, `c.in.err`,
    `c.warnCount`): `input = some p` — an application-data record was stored in `c.input` (conn.go 728);
    `err = some e` — `setErrorLocked(e)`.  Exactly one of the two happens. -/
structure RecResult where
  input : Option Bytes
  pending : List Item
  err : Option Err
  warnCount : Nat

def readRecordAux : List Item → Nat → RecResult
  | [], wc => ⟨none, [], some .eof, wc⟩                       -- readFromUntil: io.EOF (conn.go 602-612)
  | it :: rest, wc =>
    match it.kind with
    | .data p => ⟨some p, rest, none, if p.length > 0 then 0 else wc⟩   -- conn.go 672-675, 723-729
    | .closeNotify => ⟨none, rest, some .eof, wc⟩                        -- conn.go 686-688
    | .warning =>                                                        -- conn.go 691-701
      if wc + 1 > maxWarnAlertCount then ⟨none, rest, some .tooManyWarn, wc + 1⟩
      else readRecordAux rest (wc + 1)
    | .fail _ e => ⟨none, rest, some e, wc⟩

/-- `c.readRecord(recordTypeApplicationData)`; the returned error is the new `err` field (`return c.in.err`) -/
def readRecord (r : Reader) : Reader :=
  let q := readRecordAux r.pending r.warnCount
  { input := match q.input with | some p => some p | none => r.input
    pending := q.pending
    err := match q.err with | some e => some e | none => r.err
    warnCount := q.warnCount }

/-- the look-ahead test `len(ri.data) > 0 && recordType(ri.data[0]) == recordTypeAlert` (conn.go 1193-1195) -/
def alertWaiting : List Item → Bool
  | [] => false
  | it :: _ => !it.sep && it.kind.alertTyped

/-- The body of `Conn.Read` after the `len(b) == 0` test: `fuel` iterations of the `emptyRecordCount` loop are
    left, `b = len(b) ≥ 1`. -/
def readLoop (b : Nat) : Nat → Reader → Reader × (Bytes × Outcome)
  | 0, r => (r, ([], some .noProgress))                               -- conn.go 1206
  | k + 1, r =>
    -- `for c.input == nil && c.in.err == nil { readRecord }` (1159-1171): one call sets one of the two
    let r1 := if r.input.isNone ∧ r.err.isNone then readRecord r else r
    match r1.err with
    | some e => (r1, ([], some e))                                    -- 1160-1163 / 1172-1174
    | none =>
      match r1.input with
      | none => (r1, ([], some .nilInput))
      | some rest =>
        let out := rest.take b                                        -- `n, err = c.input.Read(b)` (1176)
        let rest2 := rest.drop b
        let r2 : Reader := { r1 with input := if rest2.isEmpty then none else some rest2 }   -- 1177-1180
        if out.length ≠ 0 ∧ r2.input.isNone ∧ alertWaiting r2.pending then             -- 1193-1195
          let r3 := readRecord r2                                     -- 1196-1198
          (r3, (out, r3.err))
        else if out.length ≠ 0 then (r2, (out, none))                 -- 1201-1203
        else readLoop b k r2

/-- `Conn.Read(b)` with `len(b) = bufLen` on an established connection -/
def read (r : Reader) (bufLen : Nat) : Reader × (Bytes × Outcome) :=
  if bufLen = 0 then (r, ([], none))                                  -- conn.go 1146-1150
  else readLoop bufLen (maxConsecutiveEmptyRecords + 1) r

/-- successive Reads with the given buffer sizes: the final state and what each Read returned -/
def run : Reader → List Nat → Reader × List (Bytes × Outcome)
  | r, [] => (r, [])
  | r, b :: bs =>
    let (r1, o) := read r b
    let (r2, os) := run r1 bs
    (r2, o :: os)

def readAll (r : Reader) (sizes : List Nat) : List (Bytes × Outcome) := (run r sizes).2

/-- all bytes handed to the application -/
def delivered (outs : List (Bytes × Outcome)) : Bytes := (outs.map (·.1)).flatten

/-! ## 2. `Conn.readHandshake` -/

/-- a record as `readRecord(recordTypeHandshake)` / `readRecord(recordTypeChangeCipherSpec)` sees it -/
inductive HRec
  /-- handshake record with this payload (may be empty): `c.hand.Write(data)` (conn.go 736) -/
  | hs (p : Bytes)
  /-- a well-formed ChangeCipherSpec record (payload 01) -/
  | ccs
  /-- an application-data record: `typ != want` → unexpected_message (conn.go 724-727) -/
  | appData
  | closeNotify
  | warning
  /-- `readRecord` consumes this record and fails with sticky error `e` (fatal alert, bad record, …) -/
  | fail (e : Err)
  /-- the transport ends inside this record — inside its body (conn.go 647-655) or after 1..4 bytes of its
      5-byte header (602-612): `io.ErrUnexpectedEOF` in both cases; the fragment stays in `c.rawInput`, every
      further `readRecord` fails in the same way -/
  | trunc (inBody : Bool)
deriving DecidableEq, Repr

/-- the error for a transport that ends inside a record: `io.ErrUnexpectedEOF`, wherever the cut is (a plain
    `io.EOF` is kept for the end of the transport at a record boundary) -/
def truncErr (_inBody : Bool) : Err := .unexpectedEOF

structure HsBuf where
  /-- `c.hand` (a bytes.Buffer): handshake bytes received and not yet consumed -/
  hand : Bytes
  pending : List HRec
  /-- `c.in.err` -/
  err : Option Err
  warnCount : Nat
deriving DecidableEq, Repr

def HsBuf.init (pending : List HRec) : HsBuf := ⟨[], pending, none, 0⟩

/-- `for c.hand.Len() < need { …; readRecord(recordTypeHandshake) … }` while no error is stored (an error ends
    the loop at once), by recursion on the pending records.  Result: the state, and `some e` when the loop
    returned the error `e`. -/
def fillGo (need : Nat) : Bytes → Nat → List HRec → HsBuf × Outcome
  | hand, wc, pending =>
    if need ≤ hand.length then (⟨hand, pending, none, wc⟩, none)
    else match pending with
    | [] => (⟨hand, [], some .eof, wc⟩, some .eof)                                   -- 602-612
    | .hs p :: rest => fillGo need (hand ++ p) (if p.length > 0 then 0 else wc) rest  -- 672-675, 736
    | .ccs :: rest => (⟨hand, rest, some .unexpectedMessage, wc⟩, some .unexpectedMessage)      -- 709-711
    | .appData :: rest => (⟨hand, rest, some .unexpectedMessage, wc⟩, some .unexpectedMessage)  -- 724-727
    | .closeNotify :: rest => (⟨hand, rest, some .eof, wc⟩, some .eof)
    | .warning :: rest =>
      if wc + 1 > maxWarnAlertCount then (⟨hand, rest, some .tooManyWarn, wc + 1⟩, some .tooManyWarn)
      else fillGo need hand (wc + 1) rest
    | .fail e :: rest => (⟨hand, rest, some e, wc⟩, some e)
    | .trunc b :: rest => (⟨hand, .trunc b :: rest, some (truncErr b), wc⟩, some (truncErr b))

/-- `for c.hand.Len() < need { if err := c.in.err; err != nil { return nil, err }; if err := c.readRecord(
    recordTypeHandshake); err != nil { return nil, err } }` (conn.go 960-967 and 977-984): the stored error is
    looked at only when `c.hand` is too short. -/
def fill (need : Nat) (s : HsBuf) : HsBuf × Outcome :=
  if need ≤ s.hand.length then (s, none)
  else match s.err with
  | some e => (s, some e)
  | none => fillGo need s.hand s.warnCount s.pending

/-- `n := int(data[1])<<16 | int(data[2])<<8 | int(data[3])` (conn.go 970) -/
def len24 (hand : Bytes) : Nat :=
  (hand.getD 1 0).toNat * 65536 + (hand.getD 2 0).toNat * 256 + (hand.getD 3 0).toNat

inductive HsResult
  /-- the raw bytes `c.hand.Next(4+n)` of one message, accepted by the type switch and `unmarshal` -/
  | msg (raw : Bytes)
  | error (e : Err)
deriving DecidableEq, Repr

/-- `Conn.readHandshake()`.  `accept raw` stands for the type switch on `data[0]` and `m.unmarshal(data)`
    (conn.go 986-1033; the message codecs are modelled in `Model.TLSMessages`). -/
def readHandshake (accept : Bytes → Bool) (s : HsBuf) : HsBuf × HsResult :=
  match fill 4 s with
  | (s1, some e) => (s1, .error e)
  | (s1, none) =>
    let n := len24 s1.hand
    if n > maxHandshake then ({ s1 with err := some .tooLong }, .error .tooLong)         -- 971-976
    else
      match fill (4 + n) s1 with
      | (s2, some e) => (s2, .error e)
      | (s2, none) =>
        let raw := s2.hand.take (4 + n)                                                 -- c.hand.Next(4+n)
        let s3 : HsBuf := { s2 with hand := s2.hand.drop (4 + n) }
        if accept raw then (s3, .msg raw)
        else ({ s3 with err := some .unexpectedMessage }, .error .unexpectedMessage)    -- 1023 / 1032

/-- repeated `readHandshake` until the first error: the messages and that error (`fuel` calls at most) -/
def messagesFrom (accept : Bytes → Bool) : Nat → HsBuf → List Bytes × Outcome
  | 0, _ => ([], none)
  | k + 1, s =>
    match readHandshake accept s with
    | (_, .error e) => ([], some e)
    | (s1, .msg raw) =>
      let (ms, o) := messagesFrom accept k s1
      (raw :: ms, o)

def totalLen : List HRec → Nat
  | [] => 0
  | .hs p :: rest => p.length + totalLen rest
  | _ :: rest => totalLen rest

/-- all messages that successive `readHandshake` calls return for this list of records, and the error that
    ends them (every message has ≥ 4 bytes, so `totalLen/4 + 1` calls reach it) -/
def messages (accept : Bytes → Bool) (recs : List HRec) : List Bytes × Outcome :=
  messagesFrom accept (totalLen recs / 4 + 1) (HsBuf.init recs)

/-- `c.readRecord(recordTypeChangeCipherSpec)` as the handshake calls it (handshake_*.go `readFinished`), for
    an endpoint that does not renegotiate: the next non-warning record must be a ChangeCipherSpec AND `c.hand`
    must be empty — "Handshake messages are not allowed to fragment across the CCS" (conn.go 708-722). -/
def recvCCSGo (hand : Bytes) : Nat → List HRec → HsBuf × Outcome
  | wc, [] => (⟨hand, [], some .eof, wc⟩, some .eof)
  | wc, .ccs :: rest =>
    if hand.length > 0 then (⟨hand, rest, some .unexpectedMessage, wc⟩, some .unexpectedMessage)   -- 714-717
    else (⟨hand, rest, none, wc⟩, none)                                                            -- 718
  | wc, .hs _ :: rest => (⟨hand, rest, some .noRenegotiation, wc⟩, some .noRenegotiation)          -- 733-735
  | wc, .appData :: rest => (⟨hand, rest, some .unexpectedMessage, wc⟩, some .unexpectedMessage)
  | wc, .closeNotify :: rest => (⟨hand, rest, some .eof, wc⟩, some .eof)
  | wc, .warning :: rest =>
    if wc + 1 > maxWarnAlertCount then (⟨hand, rest, some .tooManyWarn, wc + 1⟩, some .tooManyWarn)
    else recvCCSGo hand (wc + 1) rest
  | wc, .fail e :: rest => (⟨hand, rest, some e, wc⟩, some e)
  | wc, .trunc b :: rest => (⟨hand, .trunc b :: rest, some (truncErr b), wc⟩, some (truncErr b))

/-- `readRecord` does not look at `c.in.err` on entry; a success returns `c.in.err`, i.e. an older stored error -/
def recvCCS (s : HsBuf) : HsBuf × Outcome :=
  match recvCCSGo s.hand s.warnCount s.pending with
  | (s1, some e) => (s1, some e)
  | (s1, none) => ({ s1 with err := s.err }, s.err)

end Model.ConnRead
