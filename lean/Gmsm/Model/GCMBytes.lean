/-
Byte-level model of the hand-written GCM helpers of sm4/sm4_gcm.go (as repaired), transcribed the way
the Go code computes them: on byte slices (`Bytes = List (BitVec 8)`), with the same loops, the same
index arithmetic and the same `m, v` bookkeeping.  Core Lean only; executable.

Conventions of the transcription
* a Go slice is a `Bytes`; `s[i]` is `s.getD i 0` (the Go code panics on an out-of-range index; the
  model is only ever used, and the theorems only ever stated, for in-range accesses: 16-byte blocks);
* `s[lo:hi]` is `slice s lo hi`; `copy(dst, src)` into a fresh zero slice `make([]byte, n)` is `copyN n src`;
* an in-place update `s[i] = b` is `s.set i b`;
* GHASH's array `X` of `m+n+2` blocks is represented by its most recently written block (block `i` is
  computed from block `i-1` only, and only the last one is returned).
-/
import Gmsm.Util.Bytes
namespace Model.GCMBytes
open Gmsm

/-- `BlockSize` -/
def blockSize : Nat := 16

/-- `s[lo:hi]` -/
def slice (s : Bytes) (lo hi : Nat) : Bytes := (s.drop lo).take (hi - lo)

/-- `dst := make([]byte, n); copy(dst, src)` : the first `min n len(src)` bytes of `src`, the rest stays zero -/
def copyN (n : Nat) (src : Bytes) : Bytes := src.take n ++ List.replicate (n - src.length) 0

/-- `addition(a, b)`: bytewise xor; `nil` when the lengths differ -/
def addition (a b : Bytes) : Bytes :=
  if a.length ≠ b.length then [] else List.zipWith (fun x y => x ^^^ y) a b

/-- the body of `Rightshift`'s loop for index `i`, then the remaining indices `i-1 … 0`
    (`for i := n-1; i >= 0; i--`): `V[i] = V[i] >> 1; if i != 0 { V[i] = ((V[i-1] & 0x01) << 7) | V[i] }`.
    The first argument is `i+1` (number of indices still to visit). -/
def rightshiftLoop : Nat → Bytes → Bytes
  | 0, v => v
  | i+1, v =>
    let vi := v.getD i 0 >>> 1
    let vi := if i ≠ 0 then ((v.getD (i-1) 0 &&& 0x01) <<< 7) ||| vi else vi
    rightshiftLoop i (v.set i vi)

/-- `Rightshift(V)` (in place in Go; here the new contents of `V`) -/
def rightshift (v : Bytes) : Bytes := rightshiftLoop v.length v

/-- `findYi(Y, index)`: `temp = Y[i/8]; temp = temp >> (7 - i%8); if temp&0x01 == 1 {1} else {0}` -/
def findYi (y : Bytes) (i : Nat) : Nat :=
  let temp := y.getD (i / 8) 0
  let temp := temp >>> (7 - i % 8)
  if temp &&& 0x01 = 1 then 1 else 0

/-- `R := make([]byte, BlockSize); R[0] = 0xe1` -/
def rBytes : Bytes := (List.replicate blockSize (0 : Byte)).set 0 0xe1

/-- one iteration of the loop of `multiplication`, on the pair `(Z, V)` -/
def mulIter (y : Bytes) (zv : Bytes × Bytes) (i : Nat) : Bytes × Bytes :=
  let z := if findYi y i = 1 then addition zv.1 zv.2 else zv.1
  let v := if zv.2.getD (blockSize - 1) 0 &&& 0x01 = 0 then rightshift zv.2
           else addition (rightshift zv.2) rBytes
  (z, v)

/-- `multiplication(X, Y)`: `Z = 0^128; V = copy of X; for i := 0; i <= 127; i++ { … }; return Z` -/
def multiplication (x y : Bytes) : Bytes :=
  ((List.range 128).foldl (mulIter y) (List.replicate blockSize 0, copyN blockSize x)).1

/-- the closure `calculm_v` of `GHASH` (and of `GCMEncrypt` / `GCMDecrypt`) -/
def calculm_v (m v : Nat) : Nat × Nat :=
  if m = 0 ∧ v ≠ 0 then (1, v * 8)
  else if m ≠ 0 ∧ v = 0 then (m, blockSize * 8)
  else if m ≠ 0 ∧ v ≠ 0 then (m + 1, v * 8)
  else (1, 0)

/-- `for i := off+1; i <= off+cnt; i++ { X_i = multiplication(addition(X_{i-1}, D[(i-off-1)*16 : (i-off-1)*16+16]), H) }`
    — the two full-block loops of `GHASH` (`off = 0, cnt = m-1` over `A`; `off = m, cnt = n-1` over `C`) -/
def blocksLoop (h d : Bytes) (off cnt : Nat) (x : Bytes) : Bytes :=
  (List.range' (off + 1) cnt).foldl
    (fun x i => multiplication
      (addition x (slice d ((i - off - 1) * blockSize) ((i - off - 1) * blockSize + blockSize))) h) x

/-- the last block of `A` (resp. `C`): `Am := make([]byte, v/8); copy(Am, A[(m-1)*16:]); Am = append(Am, zeros...)`
    with `zeros := make([]byte, (128-v)/8)` -/
def lastBlock (d : Bytes) (m v : Nat) : Bytes :=
  copyN (v / 8) (d.drop ((m - 1) * blockSize)) ++ List.replicate ((128 - v) / 8) 0

/-- the closure `calculateLenToBytes` (on a non-negative `int`) -/
def calculateLenToBytes (len : Nat) : Bytes :=
  [BitVec.ofNat 8 ((len >>> 56) &&& 0xff), BitVec.ofNat 8 ((len >>> 48) &&& 0xff),
   BitVec.ofNat 8 ((len >>> 40) &&& 0xff), BitVec.ofNat 8 ((len >>> 32) &&& 0xff),
   BitVec.ofNat 8 ((len >>> 24) &&& 0xff), BitVec.ofNat 8 ((len >>> 16) &&& 0xff),
   BitVec.ofNat 8 ((len >>> 8) &&& 0xff), BitVec.ofNat 8 ((len >>> 0) &&& 0xff)]

/-- `GHASH(H, A, C)` -/
def ghashGo (h a c : Bytes) : Bytes :=
  let mv := calculm_v (a.length / blockSize) (a.length % blockSize)
  let m := mv.1
  let v := mv.2
  let nu := calculm_v (c.length / blockSize) (c.length % blockSize)
  let n := nu.1
  let u := nu.2
  -- i = 0
  let x : Bytes := List.replicate blockSize 0
  -- i = 1 … m-1
  let x := blocksLoop h a 0 (m - 1) x
  -- i = m
  let am := lastBlock a m v
  let x := if a.length = 0 then x else multiplication (addition x am) h
  -- i = m+1 … m+n-1
  let x := blocksLoop h c m (n - 1) x
  -- i = m+n
  let cn := lastBlock c n u
  let x := if c.length = 0 then x else multiplication (addition x cn) h
  -- i = m+n+1
  let lenAB := calculateLenToBytes (a.length * 8) ++ calculateLenToBytes (c.length * 8)
  multiplication (addition x lenAB) h

/-- the loop of the closure `addYone` of `incr`, after `copy(yii, yi)`:
    `for i := Len-1; i >= Len-4; i-- { yii[i]++; if yii[i] != 0 { break } }`.
    First argument: iterations left; second: the index `i`. -/
def addYoneLoop : Nat → Nat → Bytes → Bytes
  | 0, _, y => y
  | cnt+1, i, y =>
    let b := y.getD i 0 + 1
    let y := y.set i b
    if b ≠ 0 then y else addYoneLoop cnt (i - 1) y

/-- `addYone(yi, yii)`: the new contents of `yii` -/
def addYone (yi : Bytes) : Bytes := addYoneLoop 4 (yi.length - 1) yi

/-- blocks `1 … k` that `incr` writes after the block `cur` -/
def incrBlocks : Nat → Bytes → List Bytes
  | 0, _ => []
  | k+1, cur => addYone cur :: incrBlocks k (addYone cur)

/-- `incr(n, Y_i)`: `n` counter blocks, the first one a copy of `Y_i`, each next one `addYone` of the
    previous one (`n ≥ 1`; `Y_i` is a 16-byte block in every call) -/
def incr (n : Nat) (y : Bytes) : Bytes :=
  if n = 0 then [] else
  let y0 := copyN blockSize y
  y0 ++ (incrBlocks (n - 1) y0).flatten

end Model.GCMBytes
