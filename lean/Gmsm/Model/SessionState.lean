/-
Byte-level model of gmtls/ticket.go `sessionState.marshal` / `sessionState.unmarshal`: what a session
ticket seals.  Layout: vers(2) cipherSuite(2) len(masterSecret)(2) masterSecret numCerts(2), then per
certificate len(4) bytes.  All numbers big-endian.  Core Lean only; mirrors the Go code step for step
("model the code that exists").
-/
import Gmsm.Util.Bytes
namespace Model.SessionState
open Gmsm

/-- the fields of `sessionState` that are serialized (`usedOldKey` is not) -/
structure SState where
  vers : Nat
  suite : Nat
  master : Bytes
  certs : List Bytes
deriving DecidableEq, Repr

/-- `x[0] = byte(n >> 8); x[1] = byte(n)`: a conversion to `byte` keeps the low 8 bits, so a number
    ≥ 2^16 is silently truncated (`BitVec.ofNat 8` reduces modulo 256) -/
def put16 (n : Nat) : Bytes := [BitVec.ofNat 8 (n / 256), BitVec.ofNat 8 n]

/-- `byte(n >> 24), byte(n >> 16), byte(n >> 8), byte(n)` -/
def put32 (n : Nat) : Bytes :=
  [BitVec.ofNat 8 (n / 16777216), BitVec.ofNat 8 (n / 65536), BitVec.ofNat 8 (n / 256), BitVec.ofNat 8 n]

/-- `int(a)<<8 | int(b)` -/
def get16 (a b : Byte) : Nat := a.toNat * 256 + b.toNat

/-- `int(a)<<24 | int(b)<<16 | int(c)<<8 | int(d)`; with the 64-bit `int` of the supported platforms this
    is a number in [0, 2^32), so the Go check `certLen < 0` that follows it never fires -/
def get32 (a b c d : Byte) : Nat := a.toNat * 16777216 + b.toNat * 65536 + c.toNat * 256 + d.toNat

/-- the loop `for _, cert := range s.certificates` of `marshal`: 4 length bytes (low 32 bits of the
    length), then the whole certificate -/
def marshalCerts : List Bytes → Bytes
  | [] => []
  | c :: cs => put32 c.length ++ (c ++ marshalCerts cs)

/-- `sessionState.marshal`.  The buffer is sized from the real lengths, the length fields hold the lengths
    truncated to 16 / 32 bits. -/
def marshal (s : SState) : Bytes :=
  put16 s.vers ++ (put16 s.suite ++ (put16 s.master.length ++ (s.master ++ (put16 s.certs.length ++ marshalCerts s.certs))))

/-- the loop `for i := range s.certificates` of `unmarshal` with `n` certificates still to read, followed
    by the final `return len(data) == 0` -/
def unmarshalCerts : Nat → Bytes → Option (List Bytes)
  | 0, data => if data.length = 0 then some [] else none
  | n + 1, data =>
    if data.length < 4 then none else
    let certLen := get32 (data.getD 0 0) (data.getD 1 0) (data.getD 2 0) (data.getD 3 0)
    let data := data.drop 4
    -- `if certLen < 0 { return false }`: vacuous, see `get32`
    if data.length < certLen then none else
    match unmarshalCerts n (data.drop certLen) with
    | some cs => some (data.take certLen :: cs)
    | none => none

/-- `sessionState.unmarshal`: `some` of the fields it stored when it returns true, `none` when it returns
    false.  After the certificate count has been read the code refuses (`if len(data) < 4*numCerts { return
    false }`) before `make([][]byte, numCerts)`: every entry has at least its 4-byte length prefix. -/
def unmarshal (data : Bytes) : Option SState :=
  if data.length < 8 then none else
  let vers := get16 (data.getD 0 0) (data.getD 1 0)
  let suite := get16 (data.getD 2 0) (data.getD 3 0)
  let masterSecretLen := get16 (data.getD 4 0) (data.getD 5 0)
  let data := data.drop 6
  if data.length < masterSecretLen then none else
  let master := data.take masterSecretLen
  let data := data.drop masterSecretLen
  if data.length < 2 then none else
  let numCerts := get16 (data.getD 0 0) (data.getD 1 0)
  let data := data.drop 2
  if data.length < 4 * numCerts then none else
  match unmarshalCerts numCerts data with
  | some cs => some ⟨vers, suite, master, cs⟩
  | none => none

/-- the decoder as it was before the repair (no check between reading the count and `make`): kept to state
    that the repair changes no verdict and no parsed field (`Props.C16Codec.unmarshal_accepts_same`) -/
def unmarshalOld (data : Bytes) : Option SState :=
  if data.length < 8 then none else
  let vers := get16 (data.getD 0 0) (data.getD 1 0)
  let suite := get16 (data.getD 2 0) (data.getD 3 0)
  let masterSecretLen := get16 (data.getD 4 0) (data.getD 5 0)
  let data := data.drop 6
  if data.length < masterSecretLen then none else
  let master := data.take masterSecretLen
  let data := data.drop masterSecretLen
  if data.length < 2 then none else
  let numCerts := get16 (data.getD 0 0) (data.getD 1 0)
  let data := data.drop 2
  match unmarshalCerts numCerts data with
  | some cs => some ⟨vers, suite, master, cs⟩
  | none => none

/-- what `unmarshal` has in hand when it reaches `make([][]byte, numCerts)`: the certificate count and the
    bytes that remain behind it; `none` when it returned false before (same path as `unmarshal`) -/
def allocPoint (data : Bytes) : Option (Nat × Bytes) :=
  if data.length < 8 then none else
  let masterSecretLen := get16 (data.getD 4 0) (data.getD 5 0)
  let data := data.drop 6
  if data.length < masterSecretLen then none else
  let data := data.drop masterSecretLen
  if data.length < 2 then none else
  let numCerts := get16 (data.getD 0 0) (data.getD 1 0)
  let data := data.drop 2
  if data.length < 4 * numCerts then none else
  some (numCerts, data)

/-- the same for the decoder before the repair: it reached `make` with any count -/
def allocPointOld (data : Bytes) : Option (Nat × Bytes) :=
  if data.length < 8 then none else
  let masterSecretLen := get16 (data.getD 4 0) (data.getD 5 0)
  let data := data.drop 6
  if data.length < masterSecretLen then none else
  let data := data.drop masterSecretLen
  if data.length < 2 then none else
  let numCerts := get16 (data.getD 0 0) (data.getD 1 0)
  let data := data.drop 2
  some (numCerts, data)

/-- number of slots of the table `s.certificates` after the call (`len(s.certificates)`, whatever the
    verdict): the count when `make` was reached, 0 (nil) otherwise -/
def allocSlots (data : Bytes) : Nat :=
  match allocPoint data with
  | some (n, _) => n
  | none => 0

def allocSlotsOld (data : Bytes) : Nat :=
  match allocPointOld data with
  | some (n, _) => n
  | none => 0

/-- the states `marshal` writes without truncating anything: what the Go types guarantee for `vers` and
    `cipherSuite` (uint16) plus the length bounds of the 2- and 4-byte length fields -/
def WF (s : SState) : Prop :=
  s.vers < 65536 ∧ s.suite < 65536 ∧ s.master.length < 65536 ∧ s.certs.length < 65536 ∧
  ∀ c ∈ s.certs, c.length < 4294967296

instance (s : SState) : Decidable (WF s) := by unfold WF; infer_instance

end Model.SessionState
